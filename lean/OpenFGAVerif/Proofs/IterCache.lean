/-
Proofs about the V1 iterator cache model (`Model/IterCache.lean`).
-/
import OpenFGAVerif.Model.IterCache

namespace OpenFGAVerif.Proofs.IterCache
open OpenFGAVerif.Model.Iter OpenFGAVerif.Model.IterCache

variable {α ρ : Type}

/-! ### the buffer is the consumed prefix -/

/-- invariant of a cachedIterator while its caller uses it: as long as the buffer has not been given up it holds
exactly the elements consumed so far, all of them items -/
def UserInv (script : List (El α)) (s : CIter α) : Prop :=
  s.closing = false ∧ ∀ l, s.tuples = some l → script = l.map El.item ++ s.under.rem

/-- what the proof needs from the underlying iterator beyond "a cancelled call changes nothing": a failing `Head`
does not swallow an element — or there is nothing that can fail -/
def HeadSafe (s : CIter α) : Prop := s.under.headConsumes = false ∨ ∃ its : List α, s.under.rem = its.map El.item

theorem next_inv (script : List (El α)) (s : CIter α) (c : Bool) (h : UserInv script s) (hs : HeadSafe s) :
    UserInv script (s.next c).2 ∧ HeadSafe (s.next c).2 := by
  obtain ⟨⟨rem, hcns, st, rd⟩, tuples, closing, maxSize⟩ := s
  obtain ⟨hc, hl⟩ := h
  simp only at hc
  subst hc
  simp only [UserInv, HeadSafe] at hl hs ⊢
  cases c with
  | true => simpa [CIter.next, UIter.next, Err.isDoneOrCancelled] using ⟨hl, hs⟩
  | false =>
    cases rem with
    | nil =>
      simp only [CIter.next, UIter.next, Bool.false_eq_true, if_false, Err.isDoneOrCancelled, if_true]
      exact ⟨⟨trivial, hl⟩, hs⟩
    | cons e r =>
      have hs' : hcns = false ∨ ∃ its : List α, r = its.map El.item := by
        rcases hs with hs | ⟨its, hits⟩
        · exact Or.inl hs
        · cases its with
          | nil => simp at hits
          | cons a its => simp at hits; exact Or.inr ⟨its, hits.2⟩
      cases e with
      | fail id =>
        simp only [CIter.next, UIter.next, Bool.false_eq_true, if_false, El.res, Err.isDoneOrCancelled]
        exact ⟨⟨trivial, by simp⟩, hs'⟩
      | item a =>
        simp only [CIter.next, UIter.next, Bool.false_eq_true, if_false, El.res]
        refine ⟨⟨trivial, ?_⟩, hs'⟩
        intro l hl'
        cases tuples with
        | none => simp at hl'
        | some l0 =>
          simp only at hl'
          split at hl'
          · simp at hl'
          · simp at hl'
            subst hl'
            have := hl l0 rfl
            simp [this]

theorem head_inv (script : List (El α)) (s : CIter α) (c : Bool) (h : UserInv script s) (hs : HeadSafe s) :
    UserInv script (s.head c).2 ∧ HeadSafe (s.head c).2 := by
  obtain ⟨⟨rem, hcns, st, rd⟩, tuples, closing, maxSize⟩ := s
  obtain ⟨hc, hl⟩ := h
  simp only at hc
  subst hc
  simp only [UserInv, HeadSafe] at hl hs ⊢
  cases c with
  | true => simpa [CIter.head, UIter.head] using ⟨hl, hs⟩
  | false =>
    cases rem with
    | nil =>
      simp only [CIter.head, UIter.head, Bool.false_eq_true, if_false]
      exact ⟨⟨trivial, hl⟩, hs⟩
    | cons e r =>
      cases e with
      | item a =>
        simp only [CIter.head, UIter.head, Bool.false_eq_true, if_false]
        exact ⟨⟨trivial, hl⟩, hs⟩
      | fail id =>
        rcases hs with hs | ⟨its, hits⟩
        · subst hs
          simp only [CIter.head, UIter.head, Bool.false_eq_true, if_false]
          exact ⟨⟨trivial, hl⟩, by simp⟩
        · cases its <;> simp at hits

theorem runOps_inv (script : List (El α)) (ops : List Op) (s : CIter α) (h : UserInv script s) (hs : HeadSafe s) :
    UserInv script (s.runOps ops).2 ∧ HeadSafe (s.runOps ops).2 := by
  induction ops generalizing s with
  | nil => exact ⟨h, hs⟩
  | cons o ops ih =>
    cases o with
    | next c =>
      have := next_inv script s c h hs
      simp only [CIter.runOps]
      exact ih _ this.1 this.2
    | head c =>
      have := head_inv script s c h hs
      simp only [CIter.runOps]
      exact ih _ this.1 this.2
    | stop => simpa [CIter.runOps] using ih s h hs

/-! ### what the goroutine of `Stop` can write -/

theorem bufferRecords_some (conv : α → ρ) (m : Nat) (l : List α) (acc rs : List ρ)
    (h : bufferRecords conv m l acc = some rs) : rs = acc ++ l.map conv := by
  induction l generalizing acc with
  | nil => simp [bufferRecords] at h; simp [h]
  | cons t ts ih =>
    simp only [bufferRecords] at h
    split at h
    · simp at h
    · have := ih _ h
      simp [this]

/-- the drain loop writes only after it has read the whole rest, all of it items -/
theorem drainLoop_some (conv : α → ρ) (m : Nat) (env : Env) (rem : List (El α)) (u : UIter α) (recs : Option (List ρ))
    (step : Nat) (w : List ρ) (h : (drainLoop conv m env rem u recs step).1 = some w) :
    ∃ (xs : List α) (rs : List ρ), rem = xs.map El.item ∧ recs = some rs ∧ w = rs ++ xs.map conv := by
  induction rem generalizing u recs step with
  | nil =>
    simp only [drainLoop] at h
    split at h
    · simp at h
    · cases recs with
      | none => simp at h
      | some rs =>
        simp only at h
        split at h
        · simp at h
        · simp at h
          exact ⟨[], rs, rfl, rfl, by simp [h]⟩
  | cons e r ih =>
    cases e with
    | fail id =>
      simp only [drainLoop] at h
      split at h <;> simp at h
    | item a =>
      simp only [drainLoop] at h
      split at h
      · simp at h
      · cases recs with
        | none => simp at h
        | some rs =>
          simp only at h
          split at h
          · obtain ⟨xs, rs', _, hn, _⟩ := ih _ _ _ h
            simp at hn
          · obtain ⟨xs, rs', hx, hr, hw⟩ := ih _ _ _ h
            simp at hr
            subst hr
            exact ⟨a :: xs, rs, by simp [hx], rfl, by simp [hw]⟩

/-- **whatever `Stop` writes is the complete result** (state with the buffer invariant, safe `Head`) -/
theorem stop_writes_complete (conv : α → ρ) (script : List (El α)) (s : CIter α) (env : Env)
    (h : UserInv script s) (hs : HeadSafe s) (w : List ρ) (hw : (s.stop conv env).1 = some w) :
    ∃ items : List α, script = items.map El.item ∧ w = items.map conv := by
  obtain ⟨hc, hl⟩ := h
  simp only [CIter.stop, hc, Bool.false_eq_true, if_false] at hw
  cases ht : s.tuples with
  | none => simp [ht] at hw
  | some l =>
    have hscript := hl l ht
    simp only [ht] at hw
    split at hw
    · simp at hw
    · split at hw
      · simp at hw
      · split at hw
        · simp at hw
        · -- the goroutine really runs
          cases hc1 : env.cancelled 1 with
          | true =>
            -- Head(c.ctx) answers `cancelled`; the loop starts at a cancelled step as well or later
            simp only [hc1, UIter.head, if_true] at hw
            split at hw
            · simp at hw
            · obtain ⟨xs, rs, hx, hr, hw'⟩ := drainLoop_some conv _ env _ _ _ _ w hw
              have hb := bufferRecords_some conv _ l [] rs hr
              refine ⟨l ++ xs, ?_, ?_⟩
              · rw [hscript, hx]; simp
              · rw [hw', hb]; simp
          | false =>
            cases hr : s.under.rem with
            | nil =>
              simp only [hc1, UIter.head, hr, Bool.false_eq_true, if_false] at hw
              cases hb : bufferRecords conv s.maxSize l [] with
              | none => simp [hb] at hw
              | some rs =>
                simp only [hb] at hw
                split at hw
                · simp at hw
                · simp at hw
                  have := bufferRecords_some conv _ l [] rs hb
                  refine ⟨l, ?_, ?_⟩
                  · rw [hscript, hr]; simp
                  · rw [← hw, this]; simp
            | cons e r =>
              cases e with
              | item a =>
                simp only [hc1, UIter.head, hr, Bool.false_eq_true, if_false] at hw
                split at hw
                · simp at hw
                · obtain ⟨xs, rs, hx, hrr, hw'⟩ := drainLoop_some conv _ env _ _ _ _ w hw
                  have hb := bufferRecords_some conv _ l [] rs hrr
                  refine ⟨l ++ xs, ?_, ?_⟩
                  · rw [hscript, hr, hx]; simp
                  · rw [hw', hb]; simp
              | fail id =>
                rcases hs with hsafe | ⟨its, hits⟩
                · simp only [hc1, UIter.head, hr, Bool.false_eq_true, if_false, hsafe] at hw
                  split at hw
                  · simp at hw
                  · obtain ⟨xs, rs, hx, _, _⟩ := drainLoop_some conv _ env _ _ _ _ w hw
                    cases xs <;> simp at hx
                · rw [hr] at hits
                  cases its <;> simp at hits

/-- an error-free script never fails a `Head`, so the flag does not matter -/
def ErrorFree (script : List (El α)) : Prop := ∃ items : List α, script = items.map El.item

/-- **flush_complete**: for every script, every sequence of caller operations (with live or cancelled request
contexts), every behaviour of the server context, of the cache and of singleflight — if an entry is written at
all, the datastore's answer was error-free and the entry is the whole of it.  Hypothesis on the underlying
iterator: a failing `Head` does not consume (or nothing fails). -/
theorem flush_complete (conv : α → ρ) (script : List (El α)) (hcons : Bool) (maxSize : Nat) (ops : List Op) (env : Env)
    (hsafe : hcons = false ∨ ErrorFree script) (w : List ρ)
    (hw : (useIter conv script hcons maxSize ops env).2.1 = some w) :
    ∃ items : List α, script = items.map El.item ∧ w = items.map conv := by
  simp only [useIter] at hw
  have hinit : UserInv script (CIter.start script hcons maxSize) := by
    refine ⟨rfl, ?_⟩
    intro l hl
    simp [CIter.start] at hl
    subst hl
    simp [CIter.start]
  have hs0 : HeadSafe (CIter.start script hcons maxSize) := by
    rcases hsafe with h | ⟨its, h⟩
    · exact Or.inl (by simp [CIter.start, h])
    · exact Or.inr ⟨its, by simp [CIter.start, h]⟩
  obtain ⟨h1, h2⟩ := runOps_inv script ops _ hinit hs0
  exact stop_writes_complete conv script _ env h1 h2 w hw

/-! ### the caller sees the datastore's own results -/

/-- the same operations on the bare underlying iterator -/
def rawOps : List Op → UIter α → List (Res α) × UIter α
  | [], u => ([], u)
  | .next c :: ops, u => let (r, u') := u.next c; let (rs, u'') := rawOps ops u'; (r :: rs, u'')
  | .head c :: ops, u => let (r, u') := u.head c; let (rs, u'') := rawOps ops u'; (r :: rs, u'')
  | .stop :: ops, u => rawOps ops u

/-- **pass-through**: on a miss the caller gets exactly what the datastore's iterator returns, call by call
(the buffer is invisible) -/
theorem miss_passthrough (ops : List Op) (s : CIter α) (h : s.closing = false) :
    (s.runOps ops).1 = (rawOps ops s.under).1 ∧ (s.runOps ops).2.under = (rawOps ops s.under).2 ∧
    (s.runOps ops).2.closing = false := by
  induction ops generalizing s with
  | nil => simp [CIter.runOps, rawOps, h]
  | cons o ops ih =>
    cases o with
    | next c =>
      have hcl : (s.next c).2.closing = false := by
        simp only [CIter.next, h, Bool.false_eq_true, if_false]
        split <;> simp [h]
      have hu : (s.next c).1 = (s.under.next c).1 ∧ (s.next c).2.under = (s.under.next c).2 := by
        simp only [CIter.next, h, Bool.false_eq_true, if_false]
        split <;> simp_all
      have := ih _ hcl
      simp only [CIter.runOps, rawOps]
      rw [hu.2] at this
      exact ⟨by rw [hu.1, this.1], this.2.1, this.2.2⟩
    | head c =>
      have hcl : (s.head c).2.closing = false := by simp [CIter.head, h]
      have hu : (s.head c).1 = (s.under.head c).1 ∧ (s.head c).2.under = (s.under.head c).2 := by
        simp [CIter.head, h]
      have := ih _ hcl
      simp only [CIter.runOps, rawOps]
      rw [hu.2] at this
      exact ⟨by rw [hu.1, this.1], this.2.1, this.2.2⟩
    | stop => simpa [CIter.runOps, rawOps] using ih s h

/-! ### field elision -/

theorem buildField_elideField (k f : String) : buildField k (elideField k f) = f ↔ (k ≠ "" → f = k) := by
  unfold buildField elideField
  by_cases hk : k = ""
  · subst hk; simp
  · by_cases hf : k = f
    · subst hf; simp [hk]
    · have hf' : ¬ f = k := fun h => hf h.symm
      simp [hk, hf, hf']

/-- **elide_reconstruct**: `buildTuple ∘ addToBuffer` gives the record back exactly when the record agrees with
every field the iterator knows from its key — otherwise the known value silently replaces the record's. -/
theorem elide_reconstruct (k : Known) (r : Rec) : build k (elide k r) = r ↔ Matches k r := by
  obtain ⟨ot, oi, rel, ut, p⟩ := r
  simp only [build, elide, Matches, Rec.mk.injEq]
  rw [buildField_elideField, buildField_elideField, buildField_elideField, buildField_elideField]
  simp

/-! ### the cache -/

/-- **entries are served only if not invalidated**: a hit means no marker is newer than the entry's time stamp -/
theorem find_served (c : Cache ρ) (recs : List ρ) (c' : Cache ρ) (h : c.find = (some recs, c')) :
    ∃ ts, c.entry = some (recs, ts) ∧ (∀ m ∈ c.markers, m ≤ ts) ∧ c' = c := by
  simp only [Cache.find] at h
  cases he : c.entry with
  | none => simp [he] at h
  | some e =>
    obtain ⟨rs, ts⟩ := e
    simp only [he] at h
    split at h
    · simp at h
    · rename_i hm
      simp at h
      obtain ⟨rfl, rfl⟩ := h
      refine ⟨ts, rfl, ?_, rfl⟩
      intro m hmem
      simp at hm
      exact hm m hmem

/-- a miss never adds or alters an entry (it may delete a stale one) -/
theorem find_miss (c c' : Cache ρ) (h : c.find = (none, c')) : c'.entry = none ∧ c'.markers = c.markers := by
  simp only [Cache.find] at h
  cases he : c.entry with
  | none => simp [he] at h; subst h; exact ⟨he, rfl⟩
  | some e =>
    obtain ⟨rs, ts⟩ := e
    simp only [he] at h
    split at h
    · simp at h; subst h; simp
    · simp at h

/-! ### histories -/

/-- the store is unchanged: whenever the datastore answers without an error it answers `full`; and the underlying
iterator's `Head` is safe, or the answer is error-free -/
def ReadOK (full : List α) : Ev α → Prop
  | .read _ script hc _ _ => (hc = false ∨ ErrorFree script) ∧ (∀ items, script = items.map El.item → items = full)
  | _ => True

def CacheInv (conv : α → ρ) (full : List α) (c : Cache ρ) : Prop :=
  ∀ recs ts, c.entry = some (recs, ts) → recs = full.map conv

theorem step_inv (conv : α → ρ) (maxSize : Nat) (full : List α) (c : Cache ρ) (e : Ev α)
    (hi : CacheInv conv full c) (hr : ReadOK full e) :
    CacheInv conv full (stepHist conv maxSize c e).2 ∧
    (∀ recs, (stepHist conv maxSize c e).1 = some (.cached recs) → recs = full.map conv) := by
  cases e with
  | evict => exact ⟨by intro recs ts h; simp [stepHist] at h, by simp [stepHist]⟩
  | invalidate ts => exact ⟨by intro recs t h; exact hi recs t (by simpa [stepHist] using h), by simp [stepHist]⟩
  | dropMarkers => exact ⟨by intro recs t h; exact hi recs t (by simpa [stepHist] using h), by simp [stepHist]⟩
  | read now script hc ops env =>
    simp only [stepHist]
    cases hf : c.find with
    | mk o c' =>
      cases o with
      | some recs =>
        obtain ⟨ts, he, _, rfl⟩ := find_served c recs c' hf
        simp only
        exact ⟨hi, by intro r h; simp at h; subst h; exact hi recs ts he⟩
      | none =>
        obtain ⟨hne, _⟩ := find_miss c c' hf
        simp only
        cases hw : (useIter conv script hc maxSize ops { env with hit := false, invalidated := c'.invalidAt now }).2.1 with
        | none =>
          simp only [hw]
          exact ⟨by intro recs ts h; simp [hne] at h, by simp⟩
        | some w =>
          simp only [hw]
          refine ⟨?_, by simp⟩
          intro recs ts h
          simp at h
          obtain ⟨rfl, _⟩ := h
          obtain ⟨hsafe, hfull⟩ := hr
          obtain ⟨items, hs, hrecs⟩ := flush_complete conv script hc maxSize ops _ hsafe w hw
          rw [hrecs, hfull items hs]

/-- **histories**: over an unchanged store, along every history of reads (arbitrary caller behaviour, cancellations,
abandoned iterators, server shutdown), evictions and invalidations, the cache entry — whenever there is one — is the
complete result, and every read served from the cache gets the complete result. -/
theorem hist_inv (conv : α → ρ) (maxSize : Nat) (full : List α) (evs : List (Ev α)) (c : Cache ρ)
    (hi : CacheInv conv full c) (hr : ∀ e ∈ evs, ReadOK full e) :
    CacheInv conv full (runHist conv maxSize evs c).2 ∧
    ∀ o ∈ (runHist conv maxSize evs c).1, ∀ recs, o = some (.cached recs) → recs = full.map conv := by
  induction evs generalizing c with
  | nil => exact ⟨hi, by simp [runHist]⟩
  | cons e es ih =>
    obtain ⟨h1, h2⟩ := step_inv conv maxSize full c e hi (hr e (by simp))
    obtain ⟨h3, h4⟩ := ih _ h1 (fun e' he' => hr e' (by simp [he']))
    simp only [runHist]
    refine ⟨h3, ?_⟩
    intro o ho recs hrec
    simp at ho
    rcases ho with rfl | ho
    · exact h2 recs hrec
    · exact h4 o ho recs hrec

end OpenFGAVerif.Proofs.IterCache
