/-
Ties for C09: the statement skeletons of the V1 iterator-cache functions that `Model/IterCache.lean` mirrors (and of the
V2 CachingIterator, which is pinned only) are fixed through their FNV-1a hashes, recorded when the model was written
against them; `Gen.IterCache.*` (text and hash) is regenerated from /repo on every run, so a changed guard, statement
order or dropped statement makes a `decide` fail.  The guards the theorems depend on most are in addition pinned
literally in `Props/C09.lean`.
-/
import OpenFGAVerif.Gen.IterCache

namespace OpenFGAVerif.C09.Ties

theorem tie_cachedNext : Gen.IterCache.cachedNextHash = 4156687461493021492 := by decide
theorem tie_cachedHead : Gen.IterCache.cachedHeadHash = 13914981182522001198 := by decide
theorem tie_cachedStop : Gen.IterCache.cachedStopHash = 10396529355447923204 := by decide
theorem tie_cachedAddToBuffer : Gen.IterCache.cachedAddToBufferHash = 11925916049428087995 := by decide
theorem tie_cachedFlush : Gen.IterCache.cachedFlushHash = 16688937691814567886 := by decide
theorem tie_findInCache : Gen.IterCache.findInCacheHash = 14246825769306251325 := by decide
theorem tie_isInvalidAt : Gen.IterCache.isInvalidAtHash = 6761352880070617097 := by decide
theorem tie_newCachedIterator : Gen.IterCache.newCachedIteratorHash = 5781236337583324413 := by decide
theorem tie_newByObjectRelation : Gen.IterCache.newByObjectRelationHash = 10765240409970860218 := by decide
theorem tie_newByUserObjectType : Gen.IterCache.newByUserObjectTypeHash = 13080585752948176125 := by decide
theorem tie_cdsRead : Gen.IterCache.cdsReadHash = 8526482440614375540 := by decide
theorem tie_cdsReadUsersetTuples : Gen.IterCache.cdsReadUsersetTuplesHash = 174707855117915227 := by decide
theorem tie_cdsReadStartingWithUser : Gen.IterCache.cdsReadStartingWithUserHash = 15235874595770341374 := by decide
theorem tie_cachedTupleNext : Gen.IterCache.cachedTupleNextHash = 5584218494424479905 := by decide
theorem tie_cachedTupleHead : Gen.IterCache.cachedTupleHeadHash = 3965107655321739000 := by decide
theorem tie_buildTuple : Gen.IterCache.buildTupleHash = 5815103308127311313 := by decide
theorem tie_v2Next : Gen.IterCache.v2NextHash = 2962290944422104459 := by decide
theorem tie_v2Head : Gen.IterCache.v2HeadHash = 15208072393653026201 := by decide
theorem tie_v2Stop : Gen.IterCache.v2StopHash = 16808168111563308778 := by decide
theorem tie_v2Flush : Gen.IterCache.v2FlushHash = 8859162329446391230 := by decide
theorem tie_v2Drain : Gen.IterCache.v2DrainHash = 6737535746855734765 := by decide
theorem tie_v2Reconstruct : Gen.IterCache.v2ReconstructHash = 7301628264321525611 := by decide
theorem tie_v2TryGetFromCache : Gen.IterCache.v2TryGetFromCacheHash = 7839764564224018948 := by decide
theorem tie_v2IsInvalidated : Gen.IterCache.v2IsInvalidatedHash = 5298452584980697960 := by decide

end OpenFGAVerif.C09.Ties
