/-
Proofs about the V2 iterator cache model (`Model/IterCacheV2.lean`): whatever `Stop` writes is the complete,
non-empty, error-free answer of the datastore.
-/
import OpenFGAVerif.Model.IterCacheV2

namespace OpenFGAVerif.Proofs.IterCacheV2
open OpenFGAVerif.Model.Iter OpenFGAVerif.Model.IterCache OpenFGAVerif.Model.IterCacheV2

variable {α ρ : Type}

def UserInv (script : List (El α)) (s : VIter α) : Prop :=
  s.closing = false ∧ ∀ l, s.tuples = some l → script = l.map El.item ++ s.under.rem

def HeadSafe (s : VIter α) : Prop := s.under.headConsumes = false ∨ ∃ its : List α, s.under.rem = its.map El.item

theorem next_inv (script : List (El α)) (s : VIter α) (c : Bool) (h : UserInv script s) (hs : HeadSafe s) :
    UserInv script (s.next c).2 ∧ HeadSafe (s.next c).2 := by
  obtain ⟨⟨rem, hcns, st, rd⟩, tuples, closing, maxSize⟩ := s
  obtain ⟨hc, hl⟩ := h
  simp only at hc
  subst hc
  simp only [UserInv, HeadSafe] at hl hs ⊢
  cases c with
  | true => simpa [VIter.next, UIter.next, Err.isDoneOrCancelled] using ⟨hl, hs⟩
  | false =>
    cases rem with
    | nil =>
      simp only [VIter.next, UIter.next, Bool.false_eq_true, if_false, Err.isDoneOrCancelled, if_true]
      exact ⟨⟨trivial, hl⟩, hs⟩
    | cons e r =>
      have hs' : hcns = false ∨ ∃ its : List α, r = its.map El.item := by
        rcases hs with hs | ⟨its, hits⟩
        · exact Or.inl hs
        · cases its with
          | nil => simp at hits
          | cons a its => simp at hits; exact Or.inr ⟨its, hits.2⟩
      cases e with
      | fail id =>
        simp only [VIter.next, UIter.next, Bool.false_eq_true, if_false, El.res, Err.isDoneOrCancelled]
        exact ⟨⟨trivial, by simp⟩, hs'⟩
      | item a =>
        simp only [VIter.next, UIter.next, Bool.false_eq_true, if_false, El.res]
        refine ⟨⟨trivial, ?_⟩, hs'⟩
        intro l hl'
        cases tuples with
        | none => simp at hl'
        | some l0 =>
          simp only at hl'
          split at hl'
          · simp at hl'
          · simp at hl'
            subst hl'
            have := hl l0 rfl
            simp [this]

theorem head_inv (script : List (El α)) (s : VIter α) (c : Bool) (h : UserInv script s) (hs : HeadSafe s) :
    UserInv script (s.head c).2 ∧ HeadSafe (s.head c).2 := by
  obtain ⟨⟨rem, hcns, st, rd⟩, tuples, closing, maxSize⟩ := s
  obtain ⟨hc, hl⟩ := h
  simp only at hc
  subst hc
  simp only [UserInv, HeadSafe] at hl hs ⊢
  cases c with
  | true => simpa [VIter.head, UIter.head] using ⟨hl, hs⟩
  | false =>
    cases rem with
    | nil =>
      simp only [VIter.head, UIter.head, Bool.false_eq_true, if_false]
      exact ⟨⟨trivial, hl⟩, hs⟩
    | cons e r =>
      cases e with
      | item a =>
        simp only [VIter.head, UIter.head, Bool.false_eq_true, if_false]
        exact ⟨⟨trivial, hl⟩, hs⟩
      | fail id =>
        rcases hs with hs | ⟨its, hits⟩
        · subst hs
          simp only [VIter.head, UIter.head, Bool.false_eq_true, if_false]
          exact ⟨⟨trivial, hl⟩, by simp⟩
        · cases its <;> simp at hits

theorem runOps_inv (script : List (El α)) (ops : List Op) (s : VIter α) (h : UserInv script s) (hs : HeadSafe s) :
    UserInv script (s.runOps ops).2 ∧ HeadSafe (s.runOps ops).2 := by
  induction ops generalizing s with
  | nil => exact ⟨h, hs⟩
  | cons o ops ih =>
    cases o with
    | next c =>
      have := next_inv script s c h hs
      simp only [VIter.runOps]
      exact ih _ this.1 this.2
    | head c =>
      have := head_inv script s c h hs
      simp only [VIter.runOps]
      exact ih _ this.1 this.2
    | stop => simpa [VIter.runOps] using ih s h hs

theorem flushV_some (conv : α → ρ) (buf : Option (List α)) (w : List ρ) (h : flushV conv buf = some w) :
    ∃ l, buf = some l ∧ l ≠ [] ∧ w = l.map conv := by
  cases buf with
  | none => simp [flushV] at h
  | some l =>
    cases l with
    | nil => simp [flushV] at h
    | cons a l => simp [flushV] at h; exact ⟨a :: l, rfl, by simp, by simp [h]⟩

theorem drainLoopV_some (conv : α → ρ) (m : Nat) (env : VEnv) (rem : List (El α)) (u : UIter α) (buf : Option (List α))
    (step : Nat) (w : List ρ) (h : (drainLoopV conv m env rem u buf step).1 = some w) :
    ∃ (xs l : List α), rem = xs.map El.item ∧ buf = some l ∧ w = (l ++ xs).map conv ∧ l ++ xs ≠ [] := by
  induction rem generalizing u buf step with
  | nil =>
    simp only [drainLoopV] at h
    split at h
    · simp at h
    · obtain ⟨l, hb, hne, hw⟩ := flushV_some conv buf w h
      exact ⟨[], l, rfl, hb, by simp [hw], by simpa using hne⟩
  | cons e r ih =>
    cases e with
    | fail id =>
      simp only [drainLoopV] at h
      split at h <;> simp at h
    | item a =>
      simp only [drainLoopV] at h
      split at h
      · simp at h
      · cases buf with
        | none => simp at h
        | some l =>
          simp only at h
          split at h
          · simp at h
          · obtain ⟨xs, l', hx, hb, hw, hne⟩ := ih _ _ _ h
            simp at hb
            subst hb
            exact ⟨a :: xs, l, by simp [hx], rfl, by simp [hw], by simp⟩

/-- **whatever the V2 `Stop` writes is the complete, non-empty answer** -/
theorem stop_writes_complete (conv : α → ρ) (script : List (El α)) (s : VIter α) (env : VEnv)
    (h : UserInv script s) (hs : HeadSafe s) (w : List ρ) (hw : (s.stop conv env).1 = some w) :
    ∃ items : List α, script = items.map El.item ∧ w = items.map conv ∧ items ≠ [] := by
  obtain ⟨hc, hl⟩ := h
  simp only [VIter.stop, hc, Bool.false_eq_true, if_false] at hw
  cases ht : s.tuples with
  | none => simp [ht] at hw
  | some l =>
    have hscript := hl l ht
    simp only [ht] at hw
    split at hw
    · simp at hw
    · cases hc1 : env.timedOut 1 with
      | true =>
        simp only [hc1, UIter.head, if_true] at hw
        split at hw
        · simp at hw
        · obtain ⟨xs, l', hx, hb, hw', hne⟩ := drainLoopV_some conv _ env _ _ _ _ w hw
          simp at hb
          subst hb
          exact ⟨l ++ xs, by rw [hscript, hx]; simp, hw', hne⟩
      | false =>
        cases hr : s.under.rem with
        | nil =>
          simp only [hc1, UIter.head, hr, Bool.false_eq_true, if_false] at hw
          obtain ⟨l', hb, hne, hw'⟩ := flushV_some conv _ w hw
          simp at hb
          subst hb
          exact ⟨l, by rw [hscript, hr]; simp, hw', hne⟩
        | cons e r =>
          cases e with
          | item a =>
            simp only [hc1, UIter.head, hr, Bool.false_eq_true, if_false] at hw
            split at hw
            · simp at hw
            · obtain ⟨xs, l', hx, hb, hw', hne⟩ := drainLoopV_some conv _ env _ _ _ _ w hw
              simp at hb
              subst hb
              exact ⟨l ++ xs, by rw [hscript, hr, hx]; simp, hw', hne⟩
          | fail id =>
            rcases hs with hsafe | ⟨its, hits⟩
            · simp only [hc1, UIter.head, hr, Bool.false_eq_true, if_false, hsafe] at hw
              split at hw
              · simp at hw
              · obtain ⟨xs, _, hx, _, _, _⟩ := drainLoopV_some conv _ env _ _ _ _ w hw
                cases xs <;> simp at hx
            · rw [hr] at hits
              cases its <;> simp at hits

/-- **flush_complete for the V2 iterator** -/
theorem flush_complete_v2 (conv : α → ρ) (script : List (El α)) (hcons : Bool) (maxSize : Nat) (ops : List Op) (env : VEnv)
    (hsafe : hcons = false ∨ ∃ items : List α, script = items.map El.item) (w : List ρ)
    (hw : (useIterV conv script hcons maxSize ops env).2.1 = some w) :
    ∃ items : List α, script = items.map El.item ∧ w = items.map conv ∧ items ≠ [] := by
  simp only [useIterV] at hw
  have hinit : UserInv script (VIter.start script hcons maxSize) := by
    refine ⟨rfl, ?_⟩
    intro l hl
    simp [VIter.start] at hl
    subst hl
    simp [VIter.start]
  have hs0 : HeadSafe (VIter.start script hcons maxSize) := by
    rcases hsafe with h | ⟨its, h⟩
    · exact Or.inl (by simp [VIter.start, h])
    · exact Or.inr ⟨its, by simp [VIter.start, h]⟩
  obtain ⟨h1, h2⟩ := runOps_inv script ops _ hinit hs0
  exact stop_writes_complete conv script _ env h1 h2 w hw

end OpenFGAVerif.Proofs.IterCacheV2
