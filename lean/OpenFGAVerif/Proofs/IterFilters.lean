/-
Proofs about the filtering adapters of `Model.Iter`: the three-valued filters (`filter`,
`ConditionsFilteredTupleKeyIterator`), `filteredTupleKeyIterator`, `Validate`, and `SkipTo`.
-/
import OpenFGAVerif.Proofs.IterBasic

namespace OpenFGAVerif.Proofs.Iter
open OpenFGAVerif.Model.Iter

variable {α : Type}

/-! ## three-valued filter -/

/-- what survives: items the predicate accepts, and the underlying iterator's own errors, in order -/
def kept (p : Pred α) : List (El α) → List (Res α)
  | [] => []
  | .fail e :: r => .err (.fail e) none :: kept p r
  | .item a :: r =>
    match p a with
    | .ok true => .ok a :: kept p r
    | _ => kept p r

def anyValid (p : Pred α) : List (El α) → Bool
  | [] => false
  | .fail _ :: r => anyValid p r
  | .item a :: r =>
    match p a with
    | .ok true => true
    | _ => anyValid p r

/-- the last evaluation error of the predicate over the script (`le` if there is none) -/
def lastErrFrom (p : Pred α) : List (El α) → Option Nat → Option Nat
  | [], le => le
  | .fail _ :: r, le => lastErrFrom p r le
  | .item a :: r, le =>
    match p a with
    | .error e => lastErrFrom p r (some e)
    | _ => lastErrFrom p r le

/-- the error reported at the very end: the last evaluation error, but only when no item at all was valid -/
def condTail (p : Pred α) (l : List (El α)) (le : Option Nat) (ov : Bool) : List (Res α) :=
  if ov || anyValid p l then [] else
  match lastErrFrom p l le with
  | some e => [.err (.fail e) none]
  | none => []

/-- **specification of the three-valued filters**: the accepted items and the underlying errors in order;
evaluation errors are swallowed — except that, when not a single item was accepted, the *last* evaluation
error is reported once at the end, just before `Done`. -/
def condSpec (p : Pred α) (l : List (El α)) (le : Option Nat) (ov : Bool) : List (Res α) :=
  kept p l ++ condTail p l le ov

theorem condTail_of_valid (p : Pred α) (l : List (El α)) (le : Option Nat) : condTail p l le true = [] := by
  simp [condTail]

theorem cond_nextLoop_spec (p : Pred α) (l : List (El α)) (le : Option Nat) (ov : Bool) :
    let out := CondFilter.nextLoop p l le ov
    condSpec p l le ov = (match out.1 with | .err .done _ => [] | r => [r]) ++ condSpec p out.2.1 out.2.2.1 out.2.2.2 := by
  induction l generalizing le ov with
  | nil =>
    cases le with
    | none => simp [CondFilter.nextLoop, condSpec, kept, condTail, anyValid, lastErrFrom]
    | some e => cases ov <;> simp [CondFilter.nextLoop, condSpec, kept, condTail, anyValid, lastErrFrom]
  | cons x r ih =>
    cases x with
    | fail e => simp [CondFilter.nextLoop, condSpec, kept, condTail, anyValid, lastErrFrom]
    | item a =>
      cases hp : p a with
      | error e =>
        have := ih (some e) ov
        simpa [CondFilter.nextLoop, condSpec, kept, condTail, anyValid, lastErrFrom, hp] using this
      | ok b =>
        cases b with
        | false =>
          have := ih le ov
          simpa [CondFilter.nextLoop, condSpec, kept, condTail, anyValid, lastErrFrom, hp] using this
        | true => simp [CondFilter.nextLoop, condSpec, kept, condTail, anyValid, hp]

/-- once the loop answered `Done` it keeps answering `Done` -/
theorem cond_nextLoop_done (p : Pred α) (l : List (El α)) (le : Option Nat) (ov : Bool)
    (h : (CondFilter.nextLoop p l le ov).1 = Res.done) :
    condSpec p l le ov = [] ∧
    (CondFilter.nextLoop p l le ov).2.1 = [] := by
  induction l generalizing le ov with
  | nil =>
    cases le with
    | none => simp [condSpec, kept, condTail, anyValid, lastErrFrom, CondFilter.nextLoop]
    | some e => cases ov <;> simp_all [condSpec, kept, condTail, anyValid, lastErrFrom, CondFilter.nextLoop]
  | cons x r ih =>
    cases x with
    | fail e => simp [CondFilter.nextLoop] at h
    | item a =>
      cases hp : p a with
      | error e =>
        simp only [CondFilter.nextLoop, hp] at h ⊢
        have := ih (some e) ov h
        simpa [condSpec, kept, condTail, anyValid, lastErrFrom, hp] using this
      | ok b =>
        cases b with
        | false =>
          simp only [CondFilter.nextLoop, hp] at h ⊢
          have := ih le ov h
          simpa [condSpec, kept, condTail, anyValid, lastErrFrom, hp] using this
        | true => simp [CondFilter.nextLoop, hp] at h

theorem cond_drain_aux (p : Pred α) (id st : Nat) (l : List (El α)) (le : Option Nat) (ov once : Bool) (n : Nat) :
    (CondFilter.machine p).nexts n ⟨⟨id, l, st⟩, le, ov, once⟩ = stream (condSpec p l le ov) n := by
  induction n generalizing l le ov with
  | zero => simp
  | succ n ih =>
    have hs := cond_nextLoop_spec p l le ov
    simp only at hs
    have hn := ih (CondFilter.nextLoop p l le ov).2.1 (CondFilter.nextLoop p l le ov).2.2.1 (CondFilter.nextLoop p l le ov).2.2.2
    simp only [nexts_succ, CondFilter.machine, CondFilter.next, Bool.false_eq_true, if_false] at hn ⊢
    rw [hs, hn]
    cases hr : (CondFilter.nextLoop p l le ov).1 with
    | ok a => simp
    | err e v =>
      cases e with
      | done =>
        -- `Done` is always returned with a nil value
        have hv : v = none := by
          have : ∀ (l : List (El α)) le ov e' v', (CondFilter.nextLoop p l le ov).1 = Res.err e' v' → v' = none := by
            intro l
            induction l with
            | nil => intro le ov e' v'; cases le <;> cases ov <;> simp [CondFilter.nextLoop] <;> (intro _ h; exact h.symm)
            | cons x r ihl =>
              intro le ov e' v'
              cases x with
              | fail e => simp [CondFilter.nextLoop]; intro _ h; exact h.symm
              | item a =>
                cases hp : p a with
                | error e => simpa [CondFilter.nextLoop, hp] using ihl (some e) ov e' v'
                | ok b => cases b <;> simp [CondFilter.nextLoop, hp] <;> exact ihl le ov e' v'
          exact this l le ov _ _ hr
        subst hv
        have hd := cond_nextLoop_done p l le ov hr
        rw [hs] at hd
        simp only [hr, List.nil_append] at hd ⊢
        simp [hd.1]
      | _ => simp

/-- **filter / ConditionsFilteredTupleKeyIterator**: draining yields `condSpec` -/
theorem cond_drain (p : Pred α) (a : SIter α) (n : Nat) :
    (CondFilter.machine p).nexts n (CondFilter.start a) = stream (condSpec p a.rem none false) n := by
  obtain ⟨id, l, st⟩ := a
  exact cond_drain_aux p id st l none false false n

/-- `filter` (no `Head`) has the same `Next` -/
theorem filter_drain (p : Pred α) (a : SIter α) (n : Nat) :
    (CondFilter.machineNoHead p).nexts n (CondFilter.start a) = stream (condSpec p a.rem none false) n := by
  have h : ∀ n s, (CondFilter.machineNoHead p).nexts n s = (CondFilter.machine p).nexts n s := by
    intro n; induction n with
    | zero => intro s; rfl
    | succ n ih => intro s; simp only [nexts_succ]; rw [ih]; rfl
  rw [h]; exact cond_drain p a n

/-- with a predicate that never fails, the filter is `List.filter` -/
theorem condSpec_total (p : Pred α) (q : α → Bool) (hq : ∀ a, p a = .ok (q a)) (l : List α) :
    condSpec p (l.map El.item) none false = (l.filter q).map Res.ok := by
  have hk : ∀ l : List α, kept p (l.map El.item) = (l.filter q).map Res.ok := by
    intro l; induction l with
    | nil => rfl
    | cons a r ih => cases h : q a <;> simp [kept, hq, h, ih]
  have hl : ∀ l : List α, lastErrFrom p (l.map El.item) none = none := by
    intro l; induction l with
    | nil => rfl
    | cons a r ih => simp [lastErrFrom, hq, ih]
  simp [condSpec, hk, condTail, hl]

theorem cond_headLoop_props (p : Pred α) (l : List (El α)) (le : Option Nat) (ov : Bool) :
    let h := CondFilter.headLoop p l le ov
    h.1 = (CondFilter.nextLoop p l le ov).1 ∧
    CondFilter.nextLoop p h.2.1 h.2.2.1 h.2.2.2 = CondFilter.nextLoop p l le ov ∧
    CondFilter.headLoop p h.2.1 h.2.2.1 h.2.2.2 = h := by
  induction l generalizing le ov with
  | nil =>
    cases le with
    | none => simp [CondFilter.headLoop, CondFilter.nextLoop]
    | some e => cases ov <;> simp [CondFilter.headLoop, CondFilter.nextLoop]
  | cons x r ih =>
    cases x with
    | fail e => simp [CondFilter.headLoop, CondFilter.nextLoop]
    | item a =>
      cases hp : p a with
      | error e => simpa [CondFilter.headLoop, CondFilter.nextLoop, hp] using ih (some e) ov
      | ok b =>
        cases b with
        | false => simpa [CondFilter.headLoop, CondFilter.nextLoop, hp] using ih le ov
        | true => simp [CondFilter.headLoop, CondFilter.nextLoop, hp]

/-- `Head` of the conditions filter announces what `Next` returns (the end-of-iteration error included) -/
theorem cond_head_agrees (p : Pred α) : HeadAgrees (CondFilter.machine p) := by
  intro s
  simpa [CondFilter.machine, CondFilter.head, CondFilter.next] using (cond_headLoop_props p s.it.rem s.lastErr s.onceValid).1

/-- … and does not consume it -/
theorem cond_head_transparent (p : Pred α) : HeadTransparent (CondFilter.machine p) := by
  intro s c
  cases c with
  | true => simp [CondFilter.machine, CondFilter.head]
  | false =>
    obtain ⟨_, h2, h3⟩ := cond_headLoop_props p s.it.rem s.lastErr s.onceValid
    simp only [CondFilter.machine, CondFilter.head, CondFilter.next, Bool.false_eq_true, if_false]
    constructor
    · simp only [h2]
    · simp only [h3]

theorem cond_cancelled (p : Pred α) (s : CondFilter α) :
    (CondFilter.machine p).next s true = (Res.cancelled, s) ∧ (CondFilter.machine p).head s true = (Res.cancelled, s) := by
  simp [CondFilter.machine, CondFilter.next, CondFilter.head]

/-! ## filteredTupleKeyIterator -/

def boolSpec (p : α → Bool) : List (El α) → List (Res α)
  | [] => []
  | .fail e :: r => .err (.fail e) none :: boolSpec p r
  | .item a :: r => if p a then .ok a :: boolSpec p r else boolSpec p r

theorem bool_drain_aux (p : α → Bool) (id st : Nat) (l : List (El α)) (once : Bool) (n : Nat) :
    (BoolFilter.machine p).nexts n ⟨⟨id, l, st⟩, once⟩ = stream (boolSpec p l) n := by
  induction n generalizing l with
  | zero => simp
  | succ n ih =>
    induction l with
    | nil =>
      have := ih []
      simp only [BoolFilter.machine] at this
      simp [nexts_succ, BoolFilter.machine, BoolFilter.next, BoolFilter.nextLoop, boolSpec, this]
    | cons x r ihl =>
      cases x with
      | fail e =>
        have := ih r
        simp only [BoolFilter.machine] at this
        simp [nexts_succ, BoolFilter.machine, BoolFilter.next, BoolFilter.nextLoop, boolSpec, this]
      | item a =>
        cases hp : p a with
        | true =>
          have := ih r
          simp only [BoolFilter.machine] at this
          simp [nexts_succ, BoolFilter.machine, BoolFilter.next, BoolFilter.nextLoop, boolSpec, hp, this]
        | false =>
          simp only [nexts_succ, BoolFilter.machine, BoolFilter.next, BoolFilter.nextLoop, boolSpec, hp] at ihl ⊢
          simpa using ihl

/-- **filteredTupleKeyIterator**: the accepted items and every error, in order -/
theorem bool_drain (p : α → Bool) (a : SIter α) (n : Nat) :
    (BoolFilter.machine p).nexts n (BoolFilter.start a) = stream (boolSpec p a.rem) n := by
  obtain ⟨id, l, st⟩ := a
  exact bool_drain_aux p id st l false n

theorem boolSpec_items (p : α → Bool) (l : List α) : boolSpec p (l.map El.item) = (l.filter p).map Res.ok := by
  induction l with
  | nil => rfl
  | cons a r ih => cases h : p a <;> simp [boolSpec, h, ih]

theorem bool_headLoop_props (p : α → Bool) (l : List (El α)) :
    let h := BoolFilter.headLoop p l
    h.1 = (BoolFilter.nextLoop p l).1 ∧
    BoolFilter.nextLoop p h.2 = BoolFilter.nextLoop p l ∧
    BoolFilter.headLoop p h.2 = h := by
  induction l with
  | nil => simp [BoolFilter.headLoop, BoolFilter.nextLoop]
  | cons x r ih =>
    cases x with
    | fail e => simp [BoolFilter.headLoop, BoolFilter.nextLoop]
    | item a => cases hp : p a <;> simp [BoolFilter.headLoop, BoolFilter.nextLoop, hp] <;> exact ih

theorem bool_head_agrees (p : α → Bool) : HeadAgrees (BoolFilter.machine p) := by
  intro s
  simpa [BoolFilter.machine, BoolFilter.head, BoolFilter.next] using (bool_headLoop_props p s.it.rem).1

theorem bool_head_transparent (p : α → Bool) : HeadTransparent (BoolFilter.machine p) := by
  intro s c
  cases c with
  | true => simp [BoolFilter.machine, BoolFilter.head]
  | false =>
    obtain ⟨_, h2, h3⟩ := bool_headLoop_props p s.it.rem
    simp only [BoolFilter.machine, BoolFilter.head, BoolFilter.next, Bool.false_eq_true, if_false]
    constructor
    · simp only [h2]
    · simp only [h3]

/-! ## Validate -/

def validateSpec (p : Option (Pred α)) : List (El α) → List (Res α)
  | [] => []
  | .fail e :: r => .err (.fail e) none :: validateSpec p r
  | .item a :: r =>
    match p with
    | none => .ok a :: validateSpec p r
    | some f =>
      match f a with
      | .error e => .err (.fail e) none :: validateSpec p r
      | .ok true => .ok a :: validateSpec p r
      | .ok false => validateSpec p r

theorem validate_drain_aux (p : Option (Pred α)) (id st : Nat) (l : List (El α)) (n : Nat) :
    (Validate.machine p).nexts n ⟨⟨id, l, st⟩⟩ = stream (validateSpec p l) n := by
  induction n generalizing l with
  | zero => simp
  | succ n ih =>
    induction l with
    | nil =>
      have := ih []
      simp only [Validate.machine] at this
      simp [nexts_succ, Validate.machine, Validate.next, Validate.nextLoop, validateSpec, this]
    | cons x r ihl =>
      have hr := ih r
      simp only [Validate.machine] at hr
      cases x with
      | fail e => simp [nexts_succ, Validate.machine, Validate.next, Validate.nextLoop, validateSpec, hr]
      | item a =>
        cases p with
        | none => simp [nexts_succ, Validate.machine, Validate.next, Validate.nextLoop, validateSpec, hr]
        | some f =>
          cases hf : f a with
          | error e => simp [nexts_succ, Validate.machine, Validate.next, Validate.nextLoop, validateSpec, hf, hr]
          | ok b =>
            cases b with
            | true => simp [nexts_succ, Validate.machine, Validate.next, Validate.nextLoop, validateSpec, hf, hr]
            | false =>
              simp only [nexts_succ, Validate.machine, Validate.next, Validate.nextLoop, validateSpec, hf] at ihl ⊢
              simpa using ihl

/-- **Validate**: accepted items, the validator's errors and the underlying errors, each at its position;
iteration continues after an error (the offending item is consumed). -/
theorem validate_drain (p : Option (Pred α)) (a : SIter α) (n : Nat) :
    (Validate.machine p).nexts n (Validate.start a) = stream (validateSpec p a.rem) n := by
  obtain ⟨id, l, st⟩ := a
  exact validate_drain_aux p id st l n

theorem validate_headLoop_props (p : Option (Pred α)) (l : List (El α)) :
    let h := Validate.headLoop p l
    h.1 = (Validate.nextLoop p l).1 ∧
    Validate.nextLoop p h.2 = Validate.nextLoop p l ∧
    Validate.headLoop p h.2 = h := by
  induction l with
  | nil => simp [Validate.headLoop, Validate.nextLoop]
  | cons x r ih =>
    cases x with
    | fail e => simp [Validate.headLoop, Validate.nextLoop]
    | item a =>
      cases p with
      | none => simp [Validate.headLoop, Validate.nextLoop]
      | some f =>
        cases hf : f a with
        | error e => simp [Validate.headLoop, Validate.nextLoop, hf]
        | ok b => cases b <;> simp [Validate.headLoop, Validate.nextLoop, hf] <;> exact ih

theorem validate_head_agrees (p : Option (Pred α)) : HeadAgrees (Validate.machine p) := by
  intro s
  simpa [Validate.machine, Validate.head, Validate.next] using (validate_headLoop_props p s.it.rem).1

theorem validate_head_transparent (p : Option (Pred α)) : HeadTransparent (Validate.machine p) := by
  intro s c
  cases c with
  | true => simp [Validate.machine, Validate.head]
  | false =>
    obtain ⟨_, h2, h3⟩ := validate_headLoop_props p s.it.rem
    simp only [Validate.machine, Validate.head, Validate.next, Bool.false_eq_true, if_false]
    constructor
    · simp only [h2]
    · simp only [h3]

/-! ## SkipTo -/

/-- on an error-free script `SkipTo` drops exactly the leading items below the target and reports no error -/
theorem skipTo_items (key : α → Nat) (t : Nat) (l : List α) :
    skipToLoop key t (l.map El.item) = (none, (l.dropWhile fun a => key a < t).map El.item) := by
  induction l with
  | nil => rfl
  | cons a r ih =>
    by_cases h : key a ≥ t
    · have : ¬ key a < t := by omega
      simp [skipToLoop, h, List.dropWhile, this]
    · have h' : key a < t := by omega
      simp [skipToLoop, h, List.dropWhile, h', ih]

/-- in general: what is dropped is a run of items below the target; the iterator is left at the first element that
is not such an item, and an error is reported exactly when that element is an error. -/
theorem skipTo_general (key : α → Nat) (t : Nat) (l : List (El α)) :
    ∃ pre, l = pre ++ (skipToLoop key t l).2 ∧
      (∀ e ∈ pre, ∃ a, e = El.item a ∧ key a < t) ∧
      (match (skipToLoop key t l).2 with
        | [] => (skipToLoop key t l).1 = none
        | .fail e :: _ => (skipToLoop key t l).1 = some (.fail e)
        | .item a :: _ => (skipToLoop key t l).1 = none ∧ key a ≥ t) := by
  induction l with
  | nil => exact ⟨[], by simp [skipToLoop]⟩
  | cons x r ih =>
    cases x with
    | fail e => exact ⟨[], by simp [skipToLoop]⟩
    | item a =>
      by_cases h : key a ≥ t
      · exact ⟨[], by simp [skipToLoop, h]⟩
      · obtain ⟨pre, h1, h2, h3⟩ := ih
        refine ⟨El.item a :: pre, ?_, ?_, ?_⟩
        · simp only [skipToLoop, h, if_false, List.cons_append]; rw [← h1]
        · intro e he
          simp at he
          rcases he with rfl | he
          · exact ⟨a, rfl, by omega⟩
          · exact h2 e he
        · simpa [skipToLoop, h] using h3

theorem skipTo_cancelled (key : α → Nat) (t : Nat) (s : SIter α) : skipTo key t s true = (none, s) := by
  simp [skipTo]

end OpenFGAVerif.Proofs.Iter
