/-
Proofs about `Merge` (internal/iterator/merge.go): over error-free inputs the state machine yields the two-way merge
that drops the right element of an equal pair; on inputs sorted by the key the result is sorted, has exactly the
keys of both inputs, and is duplicate-free when both inputs are.
-/
import OpenFGAVerif.Proofs.IterBasic

namespace OpenFGAVerif.Proofs.Iter
open OpenFGAVerif.Model.Iter

variable {α : Type}

/-- specification of `Merge` on error-free inputs -/
def mergeSpec (cmp : α → α → Ordering) : List α → List α → List α
  | [], ys => ys
  | x :: xs, [] => x :: xs
  | x :: xs, y :: ys =>
    match cmp x y with
    | .lt => x :: mergeSpec cmp xs (y :: ys)
    | .gt => y :: mergeSpec cmp (x :: xs) ys
    | .eq => x :: mergeSpec cmp xs ys
termination_by xs ys => xs.length + ys.length

@[simp] theorem mergeSpec_nil_right (cmp : α → α → Ordering) (xs : List α) : mergeSpec cmp xs [] = xs := by
  cases xs <;> simp [mergeSpec]

@[simp] theorem mergeSpec_nil_left (cmp : α → α → Ordering) (ys : List α) : mergeSpec cmp [] ys = ys := by
  simp [mergeSpec]

/-- an initialised `Merge` whose inputs still hold `xs` / `ys` behind the look-ahead values -/
def mstate (i1 i2 : Nat × Nat) (c1 : Option α) (h1 : Bool) (xs : List α) (c2 : Option α) (h2 : Bool) (ys : List α) : Merge α :=
  { i1 := ⟨i1.1, xs.map El.item, i1.2⟩, i2 := ⟨i2.1, ys.map El.item, i2.2⟩,
    cur1 := c1, cur2 := c2, has1 := h1, has2 := h2, init := true }

theorem merge_none (cmp : α → α → Ordering) (i1 i2 : Nat × Nat) (c1 c2 : Option α) (xs ys : List α) (n : Nat) :
    (Merge.machine cmp).nexts n (mstate i1 i2 c1 false xs c2 false ys) = stream [] n := by
  induction n with
  | zero => simp
  | succ n ih =>
    simp only [nexts_succ, Merge.machine, Merge.next, Merge.initStep, mstate] at ih ⊢
    simpa using ih

theorem merge_only2 (cmp : α → α → Ordering) (i1 i2 : Nat × Nat) (c1 : Option α) (xs : List α) (y : α) (ys : List α) (n : Nat) :
    (Merge.machine cmp).nexts n (mstate i1 i2 c1 false xs (some y) true ys) = stream ((y :: ys).map Res.ok) n := by
  induction n generalizing y ys with
  | zero => simp
  | succ n ih =>
    cases ys with
    | nil =>
      have := merge_none cmp i1 i2 c1 (some y) xs [] n
      simp only [Merge.machine, mstate, List.map_nil, List.map_cons] at this
      simp [nexts_succ, Merge.machine, Merge.next, Merge.initStep, mstate, Merge.returnFrom2, SIter.next, Merge.okOf, this]
    | cons y' ys' =>
      have := ih y' ys'
      simp only [Merge.machine, mstate, List.map_nil, List.map_cons] at this
      simp [nexts_succ, Merge.machine, Merge.next, Merge.initStep, mstate, Merge.returnFrom2, SIter.next, Merge.okOf, El.res, this]

theorem merge_only1 (cmp : α → α → Ordering) (i1 i2 : Nat × Nat) (c2 : Option α) (ys : List α) (x : α) (xs : List α) (n : Nat) :
    (Merge.machine cmp).nexts n (mstate i1 i2 (some x) true xs c2 false ys) = stream ((x :: xs).map Res.ok) n := by
  induction n generalizing x xs with
  | zero => simp
  | succ n ih =>
    cases xs with
    | nil =>
      have := merge_none cmp i1 i2 (some x) c2 [] ys n
      simp only [Merge.machine, mstate, List.map_nil, List.map_cons] at this
      simp [nexts_succ, Merge.machine, Merge.next, Merge.initStep, mstate, Merge.returnFrom1, SIter.next, Merge.okOf, this]
    | cons x' xs' =>
      have := ih x' xs'
      simp only [Merge.machine, mstate, List.map_nil, List.map_cons] at this
      simp [nexts_succ, Merge.machine, Merge.next, Merge.initStep, mstate, Merge.returnFrom1, SIter.next, Merge.okOf, El.res, this]

theorem merge_both (cmp : α → α → Ordering) (i1 i2 : Nat × Nat) (x : α) (xs : List α) (y : α) (ys : List α) (n : Nat) :
    (Merge.machine cmp).nexts n (mstate i1 i2 (some x) true xs (some y) true ys)
      = stream ((mergeSpec cmp (x :: xs) (y :: ys)).map Res.ok) n := by
  induction n generalizing x xs y ys with
  | zero => simp
  | succ n ih =>
    cases hc : cmp x y with
    | lt =>
      cases xs with
      | nil =>
        have := merge_only2 cmp i1 i2 (some x) [] y ys n
        simp only [Merge.machine, mstate, List.map_nil, List.map_cons] at this
        simp [nexts_succ, Merge.machine, Merge.next, Merge.initStep, mstate, Merge.returnFrom1, SIter.next, Merge.okOf, hc, mergeSpec, this]
      | cons x' xs' =>
        have := ih x' xs' y ys
        simp only [Merge.machine, mstate, List.map_nil, List.map_cons] at this
        simp [nexts_succ, Merge.machine, Merge.next, Merge.initStep, mstate, Merge.returnFrom1, SIter.next, Merge.okOf, El.res, hc, mergeSpec, this]
    | gt =>
      cases ys with
      | nil =>
        have := merge_only1 cmp i1 i2 (some y) [] x xs n
        simp only [Merge.machine, mstate, List.map_nil, List.map_cons] at this
        simp [nexts_succ, Merge.machine, Merge.next, Merge.initStep, mstate, Merge.returnFrom2, SIter.next, Merge.okOf, hc, mergeSpec, this]
      | cons y' ys' =>
        have := ih x xs y' ys'
        simp only [Merge.machine, mstate, List.map_nil, List.map_cons] at this
        simp [nexts_succ, Merge.machine, Merge.next, Merge.initStep, mstate, Merge.returnFrom2, SIter.next, Merge.okOf, El.res, hc, mergeSpec, this]
    | eq =>
      cases xs with
      | nil =>
        cases ys with
        | nil =>
          have := merge_none cmp i1 i2 (some x) (some y) [] [] n
          simp only [Merge.machine, mstate, List.map_nil, List.map_cons] at this
          simp [nexts_succ, Merge.machine, Merge.next, Merge.initStep, mstate, Merge.returnBoth, SIter.next, Merge.okOf, hc, mergeSpec, this]
        | cons y' ys' =>
          have := merge_only2 cmp i1 i2 (some x) [] y' ys' n
          simp only [Merge.machine, mstate, List.map_nil, List.map_cons] at this
          simp [nexts_succ, Merge.machine, Merge.next, Merge.initStep, mstate, Merge.returnBoth, SIter.next, Merge.okOf, El.res, hc, mergeSpec, this]
      | cons x' xs' =>
        cases ys with
        | nil =>
          have := merge_only1 cmp i1 i2 (some y) [] x' xs' n
          simp only [Merge.machine, mstate, List.map_nil, List.map_cons] at this
          simp [nexts_succ, Merge.machine, Merge.next, Merge.initStep, mstate, Merge.returnBoth, SIter.next, Merge.okOf, El.res, hc, mergeSpec, this]
        | cons y' ys' =>
          have := ih x' xs' y' ys'
          simp only [Merge.machine, mstate, List.map_nil, List.map_cons] at this
          simp [nexts_succ, Merge.machine, Merge.next, Merge.initStep, mstate, Merge.returnBoth, SIter.next, Merge.okOf, El.res, hc, mergeSpec, this]

/-- the first `Next` of a fresh `Merge` over error-free inputs behaves like the initialised state -/
theorem merge_first (cmp : α → α → Ordering) (i1 i2 : Nat × Nat) (xs ys : List α) :
    Merge.next cmp (Merge.start ⟨i1.1, xs.map El.item, i1.2⟩ ⟨i2.1, ys.map El.item, i2.2⟩) false =
    Merge.next cmp (match xs, ys with
      | [], [] => mstate i1 i2 none false [] none false []
      | [], y :: ys => mstate i1 i2 none false [] (some y) true ys
      | x :: xs, [] => mstate i1 i2 (some x) true xs none false []
      | x :: xs, y :: ys => mstate i1 i2 (some x) true xs (some y) true ys) false := by
  cases xs <;> cases ys <;>
    simp [Merge.next, Merge.start, Merge.initStep, mstate, SIter.next, El.res]

/-- **Merge**: over error-free inputs, draining yields `mergeSpec` (whatever the order of the inputs) -/
theorem merge_drain (cmp : α → α → Ordering) (i1 i2 : Nat × Nat) (xs ys : List α) (n : Nat) :
    (Merge.machine cmp).nexts n (Merge.start ⟨i1.1, xs.map El.item, i1.2⟩ ⟨i2.1, ys.map El.item, i2.2⟩)
      = stream ((mergeSpec cmp xs ys).map Res.ok) n := by
  cases n with
  | zero => simp
  | succ n =>
    have hf := merge_first cmp i1 i2 xs ys
    have key : ∀ s : Merge α, Merge.next cmp (Merge.start ⟨i1.1, xs.map El.item, i1.2⟩ ⟨i2.1, ys.map El.item, i2.2⟩) false
        = Merge.next cmp s false →
        (Merge.machine cmp).nexts (n + 1) (Merge.start ⟨i1.1, xs.map El.item, i1.2⟩ ⟨i2.1, ys.map El.item, i2.2⟩)
          = (Merge.machine cmp).nexts (n + 1) s := by
      intro s h
      simp only [nexts_succ, Merge.machine, h]
    cases xs with
    | nil =>
      cases ys with
      | nil => rw [key _ hf]; simpa using merge_none cmp i1 i2 none none [] [] (n + 1)
      | cons y ys => rw [key _ hf]; simpa using merge_only2 cmp i1 i2 none [] y ys (n + 1)
    | cons x xs =>
      cases ys with
      | nil => rw [key _ hf]; simpa using merge_only1 cmp i1 i2 none [] x xs (n + 1)
      | cons y ys => rw [key _ hf]; exact merge_both cmp i1 i2 x xs y ys (n + 1)

/-! ### what `mergeSpec` is, for a comparison by key -/

def byKey (key : α → Nat) (a b : α) : Ordering := compare (key a) (key b)

theorem mergeSpec_mem (cmp : α → α → Ordering) (xs ys : List α) (a : α) :
    a ∈ mergeSpec cmp xs ys → a ∈ xs ∨ a ∈ ys := by
  fun_induction mergeSpec cmp xs ys with
  | case1 ys => intro h; exact Or.inr h
  | case2 x xs => intro h; exact Or.inl h
  | case3 x xs y ys hc ih =>
    intro h; simp at h
    rcases h with rfl | h
    · simp
    · rcases ih h with h | h
      · exact Or.inl (by simp [h])
      · exact Or.inr h
  | case4 x xs y ys hc ih =>
    intro h; simp at h
    rcases h with rfl | h
    · simp
    · rcases ih h with h | h
      · exact Or.inl h
      · exact Or.inr (by simp [h])
  | case5 x xs y ys hc ih =>
    intro h; simp at h
    rcases h with rfl | h
    · simp
    · rcases ih h with h | h
      · exact Or.inl (by simp [h])
      · exact Or.inr (by simp [h])

/-- every key of either input is a key of the output, and conversely -/
theorem mergeSpec_keys (key : α → Nat) (xs ys : List α) (k : Nat) :
    k ∈ (mergeSpec (byKey key) xs ys).map key ↔ k ∈ xs.map key ∨ k ∈ ys.map key := by
  fun_induction mergeSpec (byKey key) xs ys with
  | case1 ys => simp
  | case2 x xs => simp
  | case3 x xs y ys hc ih => simp only [List.map_cons, List.mem_cons] at ih ⊢; rw [ih]; grind
  | case4 x xs y ys hc ih => simp only [List.map_cons, List.mem_cons] at ih ⊢; rw [ih]; grind
  | case5 x xs y ys hc ih =>
    have hxy : key x = key y := by
      simp only [byKey] at hc
      exact Nat.compare_eq_eq.mp hc
    simp only [List.map_cons, List.mem_cons] at ih ⊢
    rw [ih, hxy]; grind

def SortedBy (key : α → Nat) (l : List α) : Prop := l.Pairwise fun a b => key a ≤ key b
def StrictBy (key : α → Nat) (l : List α) : Prop := l.Pairwise fun a b => key a < key b

/-- sorted inputs give a sorted output -/
theorem mergeSpec_sorted (key : α → Nat) (xs ys : List α) (hx : SortedBy key xs) (hy : SortedBy key ys) :
    SortedBy key (mergeSpec (byKey key) xs ys) := by
  fun_induction mergeSpec (byKey key) xs ys with
  | case1 ys => exact hy
  | case2 x xs => exact hx
  | case3 x xs y ys hc ih =>
    have hlt : key x < key y := by simp only [byKey] at hc; exact Nat.compare_eq_lt.mp hc
    simp only [SortedBy, List.pairwise_cons] at hx hy ih ⊢
    refine ⟨?_, ih hx.2 hy⟩
    intro a ha
    rcases mergeSpec_mem _ _ _ _ ha with h | h
    · exact hx.1 a h
    · simp at h; rcases h with rfl | h
      · omega
      · have := hy.1 a h; omega
  | case4 x xs y ys hc ih =>
    have hgt : key y < key x := by simp only [byKey] at hc; exact Nat.compare_eq_gt.mp hc
    simp only [SortedBy, List.pairwise_cons] at hx hy ih ⊢
    refine ⟨?_, ih hx hy.2⟩
    intro a ha
    rcases mergeSpec_mem _ _ _ _ ha with h | h
    · simp at h; rcases h with rfl | h
      · omega
      · have := hx.1 a h; omega
    · exact hy.1 a h
  | case5 x xs y ys hc ih =>
    have heq : key x = key y := by simp only [byKey] at hc; exact Nat.compare_eq_eq.mp hc
    simp only [SortedBy, List.pairwise_cons] at hx hy ih ⊢
    refine ⟨?_, ih hx.2 hy.2⟩
    intro a ha
    rcases mergeSpec_mem _ _ _ _ ha with h | h
    · exact hx.1 a h
    · have := hy.1 a h; omega

/-- inputs without duplicate keys give an output without duplicate keys -/
theorem mergeSpec_strict (key : α → Nat) (xs ys : List α) (hx : StrictBy key xs) (hy : StrictBy key ys) :
    StrictBy key (mergeSpec (byKey key) xs ys) := by
  fun_induction mergeSpec (byKey key) xs ys with
  | case1 ys => exact hy
  | case2 x xs => exact hx
  | case3 x xs y ys hc ih =>
    have hlt : key x < key y := by simp only [byKey] at hc; exact Nat.compare_eq_lt.mp hc
    simp only [StrictBy, List.pairwise_cons] at hx hy ih ⊢
    refine ⟨?_, ih hx.2 hy⟩
    intro a ha
    rcases mergeSpec_mem _ _ _ _ ha with h | h
    · exact hx.1 a h
    · simp at h; rcases h with rfl | h
      · omega
      · have := hy.1 a h; omega
  | case4 x xs y ys hc ih =>
    have hgt : key y < key x := by simp only [byKey] at hc; exact Nat.compare_eq_gt.mp hc
    simp only [StrictBy, List.pairwise_cons] at hx hy ih ⊢
    refine ⟨?_, ih hx hy.2⟩
    intro a ha
    rcases mergeSpec_mem _ _ _ _ ha with h | h
    · simp at h; rcases h with rfl | h
      · omega
      · have := hx.1 a h; omega
    · exact hy.1 a h
  | case5 x xs y ys hc ih =>
    have heq : key x = key y := by simp only [byKey] at hc; exact Nat.compare_eq_eq.mp hc
    simp only [StrictBy, List.pairwise_cons] at hx hy ih ⊢
    refine ⟨?_, ih hx.2 hy.2⟩
    intro a ha
    rcases mergeSpec_mem _ _ _ _ ha with h | h
    · exact hx.1 a h
    · have := hy.1 a h; omega

/-- on equal keys the element of the *first* input is the one yielded -/
theorem mergeSpec_first_wins (key : α → Nat) (x y : α) (xs ys : List α) (h : key x = key y) :
    mergeSpec (byKey key) (x :: xs) (y :: ys) = x :: mergeSpec (byKey key) xs ys := by
  have : byKey key x y = .eq := by simp [byKey, h]
  simp [mergeSpec, this]

/-! ### errors: what the code does, proved on the model -/

/-- **deviation, proved**: an error on the very first fetch is reported once, after which the merged iterator
answers `Done` although the other input was never read. -/
theorem merge_init_error_then_done (cmp : α → α → Ordering) (id st e : Nat) (r : List (El α)) (b : SIter α) (n : Nat) :
    let s := Merge.start ⟨id, El.fail e :: r, st⟩ b
    (Merge.next cmp s false).1 = Res.err (.fail e) none ∧
    (Merge.machine cmp).nexts n (Merge.next cmp s false).2 = stream [] n := by
  simp only [Merge.next, Merge.start, Merge.initStep, SIter.next, El.res, Bool.false_eq_true, if_false]
  refine ⟨by simp, ?_⟩
  induction n with
  | zero => simp
  | succ n ih =>
    simp only [nexts_succ, Merge.machine, Merge.next, Merge.initStep] at ih ⊢
    simpa using ih

end OpenFGAVerif.Proofs.Iter
