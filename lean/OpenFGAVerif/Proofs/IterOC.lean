/-
Proofs about `OrderedCombinedIterator` (pkg/storage/tuple_iterators.go).

Part 1: over error-free inputs that never descend below the last yielded key, one `Next` of the state machine is
        one step `ocStep` of a pure function on lists of lists (refinement).
Part 2: for inputs sorted by the mapper key, iterating `ocStep` yields a sequence that is strictly ascending by key,
        contains exactly the keys of the inputs, and for every key the *first* item with that key of the *first*
        input (in argument order) that contains the key.
-/
import OpenFGAVerif.Proofs.IterBasic

namespace OpenFGAVerif.Proofs.Iter
open OpenFGAVerif.Model.Iter

variable {α : Type}

/-! ## the pure step -/

/-- what `head()` does to one input: drop the leading items whose key equals the last yielded key -/
def dropLast (key : α → Nat) : Option Nat → List α → List α
  | none, l => l
  | some k, l => l.dropWhile fun a => key a == k

/-- the input after `head()` looked at it: `none` = exhausted (stopped and set to nil) -/
def scanPure (key : α → Nat) (last : Option Nat) (l : List α) : Option (List α) :=
  match dropLast key last l with
  | [] => none
  | l' => some l'

/-- the running minimum of `head()`: the earliest input whose head has the smallest key -/
def bestOf (key : α → Nat) : List (Option (List α)) → Nat → Option (Nat × α) → Option (Nat × α)
  | [], _, best => best
  | none :: rest, i, best => bestOf key rest (i + 1) best
  | some [] :: rest, i, best => bestOf key rest (i + 1) best
  | some (a :: _) :: rest, i, best =>
    bestOf key rest (i + 1) (match best with
      | none => some (i, a)
      | some (j, b) => if key b > key a then some (i, a) else some (j, b))

/-- one `Next` on lists: the yielded item and the inputs afterwards (`none` = `Done`) -/
def ocStep (key : α → Nat) (last : Option Nat) (ins : List (List α)) : Option (α × List (List α)) :=
  let p := ins.map (scanPure key last)
  match bestOf key p 0 none with
  | none => none
  | some (i, a) => some (a, (OC.modifyAt (Option.map List.tail) p i).filterMap id)

/-- the first `n` results of draining -/
def ocStream (key : α → Nat) : Nat → Option Nat → List (List α) → List (Res α)
  | 0, _, _ => []
  | n + 1, last, ins =>
    match ocStep key last ins with
    | none => Res.done :: ocStream key n last ((ins.map (scanPure key last)).filterMap id)
    | some (a, ins') => Res.ok a :: ocStream key n (some (key a)) ins'

/-- no input item is below the last yielded key (true for sorted inputs; otherwise the code reports
"iterator i is not in ascending order") -/
def NoDesc (key : α → Nat) (last : Option Nat) (ins : List (List α)) : Prop :=
  ∀ k, last = some k → ∀ l ∈ ins, ∀ a ∈ l, k ≤ key a

/-! ## Part 1: refinement -/

theorem dropDup_items (key : α → Nat) (k : Nat) (r : List α) :
    OC.dropDup key k (r.map El.item) =
      match r.dropWhile (fun a => key a == k) with
      | [] => (none, [])
      | b :: r' => (some (Res.ok b), (b :: r').map El.item) := by
  induction r with
  | nil => rfl
  | cons b r ih =>
    by_cases h : key b = k
    · simp [OC.dropDup, h, List.dropWhile, ih]
    · have : (key b == k) = false := by simp [h]
      simp [OC.dropDup, h, List.dropWhile, this]

/-- the rest lists of the non-nil pending entries -/
def remsOf (p : List (Option (SIter α))) : List (Option (List (El α))) := p.map (Option.map (·.rem))

def itemsO (o : Option (List α)) : Option (List (El α)) := o.map (·.map El.item)

theorem scan_items (key : α → Nat) (lst : Option α) (idx : Nat) (it : SIter α) (l : List α)
    (hl : it.rem = l.map El.item)
    (hnd : ∀ x, lst = some x → ∀ a ∈ l, key x ≤ key a) :
    match scanPure key (lst.map key) l with
    | none => ∃ it', OC.scan key lst false idx it = .gone it'
    | some [] => False
    | some (a :: l') => ∃ it', OC.scan key lst false idx it = .head a it' ∧ it'.rem = (a :: l').map El.item := by
  cases l with
  | nil =>
    have : scanPure key (lst.map key) [] = none := by cases lst <;> simp [scanPure, dropLast]
    rw [this]
    exact ⟨it.stop, by simp [OC.scan, SIter.head, hl]⟩
  | cons a r =>
    cases lst with
    | none =>
      simp only [Option.map_none, scanPure, dropLast]
      exact ⟨it, by simp [OC.scan, SIter.head, hl, El.res], hl⟩
    | some x =>
      have hge : key x ≤ key a := hnd x rfl a (by simp)
      by_cases heq : key a = key x
      · have hd := dropDup_items key (key x) r
        simp only [Option.map_some, scanPure, dropLast, List.dropWhile, heq, beq_self_eq_true]
        cases hdw : r.dropWhile (fun a => key a == key x) with
        | nil =>
          rw [hdw] at hd
          exact ⟨({ it with rem := [] } : SIter α).stop, by simp [OC.scan, SIter.head, hl, El.res, heq, hd]⟩
        | cons b r' =>
          rw [hdw] at hd
          refine ⟨{ it with rem := (b :: r').map El.item }, ?_, rfl⟩
          simp [OC.scan, SIter.head, hl, El.res, heq, hd]
      · have hb : (key a == key x) = false := by simp [heq]
        have hlt : ¬ key a < key x := by omega
        simp only [Option.map_some, scanPure, dropLast, List.dropWhile, hb]
        exact ⟨it, by simp [OC.scan, SIter.head, hl, El.res, hlt, heq], hl⟩

theorem headGo_items (key : α → Nat) (lst : Option α) (live : List (SIter α)) (ins : List (List α))
    (hl : live.map (·.rem) = ins.map (·.map El.item))
    (hnd : ∀ x, lst = some x → ∀ l ∈ ins, ∀ a ∈ l, key x ≤ key a)
    (idx : Nat) (best : Option (Nat × α)) :
    let out := OC.headGo key lst false live idx best
    out.1 = .ok (bestOf key (ins.map (scanPure key (lst.map key))) idx best) ∧
    remsOf out.2.1 = (ins.map (scanPure key (lst.map key))).map itemsO := by
  induction live generalizing ins idx best with
  | nil =>
    cases ins with
    | nil => simp [OC.headGo, bestOf, remsOf]
    | cons l ins => simp at hl
  | cons it live ih =>
    cases ins with
    | nil => simp at hl
    | cons l ins =>
      simp only [List.map_cons, List.cons.injEq] at hl
      have hs := scan_items key lst idx it l hl.1 (fun x hx a ha => hnd x hx l (by simp) a ha)
      have hnd' : ∀ x, lst = some x → ∀ l' ∈ ins, ∀ a ∈ l', key x ≤ key a :=
        fun x hx l' hl' a ha => hnd x hx l' (by simp [hl']) a ha
      cases hsp : scanPure key (lst.map key) l with
      | none =>
        rw [hsp] at hs
        obtain ⟨it', hsc⟩ := hs
        have := ih ins hl.2 hnd' (idx + 1) best
        simp only [OC.headGo, hsc, List.map_cons, hsp, bestOf]
        simp only at this
        exact ⟨this.1, by simp [remsOf, itemsO] at this ⊢; exact this.2⟩
      | some l' =>
        rw [hsp] at hs
        cases l' with
        | nil => exact absurd hs (by simp)
        | cons a l'' =>
          obtain ⟨it', hsc, hrem⟩ := hs
          simp only [OC.headGo, hsc, List.map_cons, hsp, bestOf]
          have := ih ins hl.2 hnd' (idx + 1)
            (match best with
              | none => some (idx, a)
              | some (j, b) => if key b > key a then some (idx, a) else some (j, b))
          simp only at this
          refine ⟨this.1, ?_⟩
          simp [remsOf, itemsO, hrem] at this ⊢
          exact this.2

theorem remsOf_filterMap (q : List (Option (SIter α))) (p : List (Option (List α)))
    (h : remsOf q = p.map itemsO) :
    (q.filterMap id).map (·.rem) = (p.filterMap id).map (·.map El.item) := by
  induction q generalizing p with
  | nil => cases p with
    | nil => rfl
    | cons o p => simp [remsOf] at h
  | cons x q ih =>
    cases p with
    | nil => simp [remsOf] at h
    | cons o p =>
      simp only [remsOf, List.map_cons, List.cons.injEq] at h
      have := ih p h.2
      cases x <;> cases o <;> simp_all [itemsO]

theorem remsOf_getElem (q : List (Option (SIter α))) (p : List (Option (List α)))
    (h : remsOf q = p.map itemsO) (i : Nat) (l : List α) (hp : p[i]? = some (some l)) :
    ∃ it, q[i]? = some (some it) ∧ it.rem = l.map El.item := by
  induction q generalizing p i with
  | nil => cases p with
    | nil => simp at hp
    | cons o p => simp [remsOf] at h
  | cons x q ih =>
    cases p with
    | nil => simp [remsOf] at h
    | cons o p =>
      simp only [remsOf, List.map_cons, List.cons.injEq] at h
      cases i with
      | zero =>
        simp at hp; subst hp
        cases x with
        | none => simp [itemsO] at h
        | some it => exact ⟨it, by simp, by simpa [itemsO] using h.1⟩
      | succ i => simpa using ih p h.2 i (by simpa using hp)

theorem remsOf_modify (q : List (Option (SIter α))) (p : List (Option (List α)))
    (h : remsOf q = p.map itemsO) (i : Nat) (a : α) (l : List α) (hp : p[i]? = some (some (a :: l)))
    (it' : SIter α) (hit : it'.rem = l.map El.item) :
    remsOf (OC.modifyAt (fun _ => some it') q i) = (OC.modifyAt (Option.map List.tail) p i).map itemsO := by
  induction q generalizing p i with
  | nil => cases p with
    | nil => simp at hp
    | cons o p => simp [remsOf] at h
  | cons x q ih =>
    cases p with
    | nil => simp [remsOf] at h
    | cons o p =>
      simp only [remsOf, List.map_cons, List.cons.injEq] at h
      cases i with
      | zero =>
        simp at hp; subst hp
        simp only [OC.modifyAt, remsOf, List.map_cons, Option.map_some, List.tail_cons, itemsO, hit]
        exact congrArg _ h.2
      | succ i =>
        have := ih p h.2 i (by simpa using hp)
        simp only [OC.modifyAt, remsOf, List.map_cons] at this ⊢
        rw [this, h.1]

/-- what `bestOf` returns: the carried best, or a head of the scanned list -/
theorem bestOf_some (key : α → Nat) (p : List (Option (List α))) (idx : Nat) (best : Option (Nat × α)) (i : Nat) (a : α)
    (h : bestOf key p idx best = some (i, a)) :
    best = some (i, a) ∨ (idx ≤ i ∧ ∃ l, p[i - idx]? = some (some (a :: l))) := by
  induction p generalizing idx best with
  | nil => exact Or.inl h
  | cons o p ih =>
    cases o with
    | none =>
      rcases ih (idx + 1) best h with h | ⟨h1, l, h2⟩
      · exact Or.inl h
      · refine Or.inr ⟨by omega, l, ?_⟩
        have : i - idx = (i - (idx + 1)) + 1 := by omega
        rw [this]; simpa using h2
    | some l0 =>
      cases l0 with
      | nil =>
        rcases ih (idx + 1) best h with h | ⟨h1, l, h2⟩
        · exact Or.inl h
        · refine Or.inr ⟨by omega, l, ?_⟩
          have : i - idx = (i - (idx + 1)) + 1 := by omega
          rw [this]; simpa using h2
      | cons b l0 =>
        simp only [bestOf] at h
        rcases ih (idx + 1) _ h with h' | ⟨h1, l, h2⟩
        · cases best with
          | none =>
            simp at h'
            obtain ⟨rfl, rfl⟩ := h'
            exact Or.inr ⟨Nat.le_refl _, l0, by simp⟩
          | some jb =>
            obtain ⟨j, b'⟩ := jb
            simp only at h'
            split at h'
            · simp at h'
              obtain ⟨rfl, rfl⟩ := h'
              exact Or.inr ⟨Nat.le_refl _, l0, by simp⟩
            · exact Or.inl h'
        · refine Or.inr ⟨by omega, l, ?_⟩
          have : i - idx = (i - (idx + 1)) + 1 := by omega
          rw [this]; simpa using h2

/-- the relation between a state of the machine and the lists the pure step works on -/
def OCRel (key : α → Nat) (s : OC α) (last : Option Nat) (ins : List (List α)) : Prop :=
  (s.pending.filterMap id).map (·.rem) = ins.map (·.map El.item) ∧ s.lastYielded.map key = last ∧ s.lastHead = none

/-- **one `Next` of the machine is one `ocStep`** -/
theorem oc_next_step (key : α → Nat) (s : OC α) (last : Option Nat) (ins : List (List α))
    (hr : OCRel key s last ins) (hnd : NoDesc key last ins) :
    match ocStep key last ins with
    | none => (OC.next key s false).1 = Res.done ∧
        OCRel key (OC.next key s false).2 last ((ins.map (scanPure key last)).filterMap id)
    | some (a, ins') => (OC.next key s false).1 = Res.ok a ∧ OCRel key (OC.next key s false).2 (some (key a)) ins' := by
  obtain ⟨h1, h2, h3⟩ := hr
  have hnd' : ∀ x, s.lastYielded = some x → ∀ l ∈ ins, ∀ a ∈ l, key x ≤ key a := by
    intro x hx l hl a ha
    exact hnd (key x) (by rw [← h2, hx]; rfl) l hl a ha
  have hg := headGo_items key s.lastYielded (s.pending.filterMap id) ins h1 hnd' 0 none
  simp only [h2] at hg
  obtain ⟨hg1, hg2⟩ := hg
  simp only [ocStep]
  cases hb : bestOf key (ins.map (scanPure key last)) 0 none with
  | none =>
    rw [hb] at hg1
    simp only [OC.next, OC.headIdx, hg1]
    refine ⟨trivial, ?_, h2, h3⟩
    exact remsOf_filterMap _ _ hg2
  | some ia =>
    obtain ⟨i, a⟩ := ia
    rw [hb] at hg1
    rcases bestOf_some key _ 0 none i a hb with h | ⟨_, l, hp⟩
    · simp at h
    · simp only [Nat.sub_zero] at hp
      obtain ⟨it, hq, hrem⟩ := remsOf_getElem _ _ hg2 i (a :: l) hp
      simp only [OC.next, OC.headIdx, hg1, hq]
      have hn : it.next false = (Res.ok a, { it with rem := l.map El.item }) := by
        simp [SIter.next, hrem, El.res]
      simp only [hn]
      refine ⟨trivial, ?_, rfl, rfl⟩
      have := remsOf_modify _ _ hg2 i a l hp { it with rem := l.map El.item } rfl
      exact remsOf_filterMap _ _ this

end OpenFGAVerif.Proofs.Iter
