/-
`OrderedCombinedIterator`, part 2: what iterating the pure step `ocStep` yields for inputs sorted by the mapper key.
-/
import OpenFGAVerif.Proofs.IterOC
import OpenFGAVerif.Proofs.IterMerge

namespace OpenFGAVerif.Proofs.Iter
open OpenFGAVerif.Model.Iter

variable {α : Type}

/-! ### `dropLast` / `scanPure` -/

theorem dropLast_sublist (key : α → Nat) (last : Option Nat) (l : List α) : (dropLast key last l).Sublist l := by
  cases last with
  | none => exact List.Sublist.refl _
  | some k => exact List.dropWhile_sublist _

theorem dropLast_length (key : α → Nat) (last : Option Nat) (l : List α) : (dropLast key last l).length ≤ l.length :=
  (dropLast_sublist key last l).length_le

/-- `l = pre ++ dropLast l`, where `pre` holds only items whose key is the last yielded key -/
theorem dropLast_split (key : α → Nat) (last : Option Nat) (l : List α) :
    ∃ pre, l = pre ++ dropLast key last l ∧ ∀ a ∈ pre, last = some (key a) := by
  cases last with
  | none => exact ⟨[], by simp [dropLast]⟩
  | some k =>
    refine ⟨l.takeWhile fun a => key a == k, by simp [dropLast], ?_⟩
    intro a ha
    have hall := List.all_takeWhile (l := l) (p := fun a => key a == k)
    have := List.all_eq_true.mp hall a ha
    simp at this
    rw [this]

/-- the head that survives `dropLast` does not carry the last yielded key -/
theorem dropLast_head_ne (key : α → Nat) (k : Nat) (l : List α) (a : α) (r : List α)
    (h : dropLast key (some k) l = a :: r) : key a ≠ k := by
  simp only [dropLast] at h
  have := List.head_dropWhile_not (fun a => key a == k) (l := l) (by rw [h]; simp)
  simp [h] at this
  exact this

theorem scanPure_some (key : α → Nat) (last : Option Nat) (l q : List α) (h : scanPure key last l = some q) :
    q = dropLast key last l ∧ q ≠ [] := by
  simp only [scanPure] at h
  split at h
  · simp at h
  · rename_i hne
    simp at h
    subst h
    exact ⟨rfl, by intro e; exact hne e⟩

theorem scanPure_none (key : α → Nat) (last : Option Nat) (l : List α) (h : scanPure key last l = none) :
    dropLast key last l = [] := by
  simp only [scanPure] at h
  split at h
  · assumption
  · simp at h

/-! ### `bestOf`: the earliest minimal head -/

theorem bestOf_min (key : α → Nat) (p : List (Option (List α))) (idx : Nat) (best : Option (Nat × α)) (i : Nat) (a : α)
    (hb : ∀ j b, best = some (j, b) → j < idx)
    (h : bestOf key p idx best = some (i, a)) :
    (∀ j b l, p[j]? = some (some (b :: l)) → key a ≤ key b ∧ (idx + j < i → key a < key b)) ∧
    (∀ j b, best = some (j, b) → key a ≤ key b ∧ (j < i → key a < key b)) := by
  induction p generalizing idx best with
  | nil =>
    simp only [bestOf] at h
    refine ⟨by simp, ?_⟩
    intro j b hjb
    rw [h] at hjb
    simp at hjb
    obtain ⟨rfl, rfl⟩ := hjb
    exact ⟨Nat.le_refl _, fun h => absurd h (Nat.lt_irrefl _)⟩
  | cons o p ih =>
    have skip : bestOf key p (idx + 1) best = some (i, a) →
        (∀ l0, o = some l0 → l0 = []) →
        (∀ j b l, (o :: p)[j]? = some (some (b :: l)) → key a ≤ key b ∧ (idx + j < i → key a < key b)) ∧
        (∀ j b, best = some (j, b) → key a ≤ key b ∧ (j < i → key a < key b)) := by
      intro h' ho
      obtain ⟨hA, hB⟩ := ih (idx + 1) best (fun j b e => by have := hb j b e; omega) h'
      refine ⟨?_, hB⟩
      intro j b l hj
      cases j with
      | zero =>
        simp at hj
        have := ho _ hj
        simp at this
      | succ j =>
        have := hA j b l (by simpa using hj)
        exact ⟨this.1, fun hlt => this.2 (by omega)⟩
    cases o with
    | none => exact skip (by simpa [bestOf] using h) (by simp)
    | some l0 =>
      cases l0 with
      | nil => exact skip (by simpa [bestOf] using h) (by simp)
      | cons c l0 =>
        simp only [bestOf] at h
        have hb' : ∀ j b, (match best with
            | none => some (idx, c)
            | some (j, b) => if key b > key c then some (idx, c) else some (j, b)) = some (j, b) → j < idx + 1 := by
          intro j b e
          cases best with
          | none => simp at e; omega
          | some jb =>
            obtain ⟨j0, b0⟩ := jb
            simp only at e
            split at e
            · simp at e; omega
            · simp at e
              have := hb j0 b0 rfl
              omega
        obtain ⟨hA, hB⟩ := ih (idx + 1) _ hb' h
        constructor
        · intro j b l hj
          cases j with
          | zero =>
            simp at hj
            obtain ⟨hcb, _⟩ := hj
            subst hcb
            cases best with
            | none =>
              have := hB idx c rfl
              exact ⟨this.1, fun hlt => this.2 (by omega)⟩
            | some jb =>
              obtain ⟨j0, b0⟩ := jb
              by_cases hk : key b0 > key c
              · have := hB idx c (by simp [hk])
                exact ⟨this.1, fun hlt => this.2 (by omega)⟩
              · have := hB j0 b0 (by simp [hk])
                have hj0 := hb j0 b0 rfl
                exact ⟨by omega, fun hlt => by have := this.2 (by omega); omega⟩
          | succ j =>
            have := hA j b l (by simpa using hj)
            exact ⟨this.1, fun hlt => this.2 (by omega)⟩
        · intro j b e
          subst e
          by_cases hk : key b > key c
          · have := hB idx c (by simp [hk])
            have hj := hb j b rfl
            exact ⟨by omega, fun _ => by omega⟩
          · exact hB j b (by simp [hk])

theorem bestOf_none (key : α → Nat) (p : List (Option (List α))) (idx : Nat) (best : Option (Nat × α))
    (h : bestOf key p idx best = none) : best = none ∧ ∀ o ∈ p, o = none ∨ o = some [] := by
  induction p generalizing idx best with
  | nil => exact ⟨h, by simp⟩
  | cons o p ih =>
    cases o with
    | none =>
      obtain ⟨h1, h2⟩ := ih (idx + 1) best (by simpa [bestOf] using h)
      exact ⟨h1, by simpa using h2⟩
    | some l0 =>
      cases l0 with
      | nil =>
        obtain ⟨h1, h2⟩ := ih (idx + 1) best (by simpa [bestOf] using h)
        exact ⟨h1, by simpa using h2⟩
      | cons c l0 =>
        simp only [bestOf] at h
        obtain ⟨h1, _⟩ := ih (idx + 1) _ h
        cases best with
        | none => simp at h1
        | some jb =>
          obtain ⟨j0, b0⟩ := jb
          simp only at h1
          split at h1 <;> simp at h1

/-! ### the lists after a step -/

def tot (ins : List (List α)) : Nat := (ins.map List.length).sum

theorem tot_scan (key : α → Nat) (last : Option Nat) (ins : List (List α)) :
    tot ((ins.map (scanPure key last)).filterMap id) ≤ tot ins := by
  induction ins with
  | nil => simp [tot]
  | cons l ins ih =>
    cases hs : scanPure key last l with
    | none => simp [tot, hs] at ih ⊢; omega
    | some q =>
      have := (scanPure_some key last l q hs).1
      have hl := dropLast_length key last l
      simp [tot, hs] at ih ⊢
      rw [this]; omega

theorem tot_modify (p : List (Option (List α))) (i : Nat) (a : α) (l : List α) (h : p[i]? = some (some (a :: l))) :
    tot ((OC.modifyAt (Option.map List.tail) p i).filterMap id) + 1 = tot (p.filterMap id) := by
  induction p generalizing i with
  | nil => simp at h
  | cons o p ih =>
    cases i with
    | zero =>
      simp at h; subst h
      simp [OC.modifyAt, tot]; omega
    | succ i =>
      have := ih i (by simpa using h)
      cases o with
      | none => simpa [OC.modifyAt, tot] using this
      | some q => simp [OC.modifyAt, tot] at this ⊢; omega

/-- a step consumes at least one item -/
theorem ocStep_tot (key : α → Nat) (last : Option Nat) (ins ins' : List (List α)) (a : α)
    (h : ocStep key last ins = some (a, ins')) : tot ins' < tot ins := by
  simp only [ocStep] at h
  split at h
  · simp at h
  · rename_i i b hb
    simp at h
    obtain ⟨rfl, rfl⟩ := h
    rcases bestOf_some key _ 0 none i b hb with h | ⟨_, l, hp⟩
    · simp at h
    · simp only [Nat.sub_zero] at hp
      have h1 := tot_modify _ i b l hp
      have h2 := tot_scan key last ins
      omega

/-- every list after a step is the rest of some list before it: either what `dropLast` left, or that minus its head -/
theorem mem_modify_filterMap (p : List (Option (List α))) (i : Nat) (l' : List α)
    (h : l' ∈ (OC.modifyAt (Option.map List.tail) p i).filterMap id) :
    ∃ q, some q ∈ p ∧ (l' = q ∨ (p[i]? = some (some q) ∧ l' = q.tail)) := by
  induction p generalizing i with
  | nil => simp [OC.modifyAt] at h
  | cons o p ih =>
    cases i with
    | zero =>
      simp only [OC.modifyAt, List.filterMap_cons] at h
      cases o with
      | none =>
        simp at h
        exact ⟨l', by simp [h], Or.inl rfl⟩
      | some q =>
        simp at h
        rcases h with rfl | h
        · exact ⟨q, by simp, Or.inr ⟨by simp, rfl⟩⟩
        · exact ⟨l', by simp [h], Or.inl rfl⟩
    | succ i =>
      simp only [OC.modifyAt, List.filterMap_cons] at h
      cases o with
      | none =>
        simp at h
        obtain ⟨q, hq, hor⟩ := ih i (by simpa using h)
        exact ⟨q, by simp [hq], by simpa using hor⟩
      | some q0 =>
        simp at h
        rcases h with rfl | h
        · exact ⟨l', by simp, Or.inl rfl⟩
        · obtain ⟨q, hq, hor⟩ := ih i (by simpa using h)
          exact ⟨q, by simp [hq], by simpa using hor⟩

/-! ### the invariant: every input sorted, nothing below the last yielded key -/

def OCInv (key : α → Nat) (last : Option Nat) (ins : List (List α)) : Prop :=
  (∀ l ∈ ins, SortedBy key l) ∧ NoDesc key last ins

theorem ocStep_spec (key : α → Nat) (last : Option Nat) (ins ins' : List (List α)) (a : α)
    (hinv : OCInv key last ins) (h : ocStep key last ins = some (a, ins')) :
    OCInv key (some (key a)) ins' ∧ (∀ k, last = some k → k < key a) ∧ (∃ l ∈ ins, a ∈ l) ∧
    (∀ l' ∈ ins', ∃ l ∈ ins, l'.Sublist l) := by
  obtain ⟨hs, hnd⟩ := hinv
  simp only [ocStep] at h
  split at h
  · simp at h
  · rename_i i b hb
    simp at h
    obtain ⟨rfl, rfl⟩ := h
    obtain ⟨hA, _⟩ := bestOf_min key _ 0 none i b (by simp) hb
    rcases bestOf_some key _ 0 none i b hb with h | ⟨_, lb, hp⟩
    · simp at h
    simp only [Nat.sub_zero] at hp
    -- the list that holds `b`
    have hmemp : some (b :: lb) ∈ ins.map (scanPure key last) := List.mem_of_getElem? hp
    obtain ⟨l0, hl0, hsc0⟩ := List.mem_map.mp hmemp
    have hq0 := (scanPure_some key last l0 _ hsc0).1
    have hsub0 : (b :: lb).Sublist l0 := by rw [hq0]; exact dropLast_sublist key last l0
    have hbl0 : b ∈ l0 := hsub0.subset (by simp)
    -- facts about an arbitrary surviving entry
    have entry : ∀ q, some q ∈ ins.map (scanPure key last) → ∃ l ∈ ins, q.Sublist l ∧ SortedBy key q ∧ ∀ x ∈ q, key b ≤ key x := by
      intro q hq
      obtain ⟨l, hl, hsc⟩ := List.mem_map.mp hq
      obtain ⟨hqd, hne⟩ := scanPure_some key last l q hsc
      have hsub : q.Sublist l := by rw [hqd]; exact dropLast_sublist key last l
      have hsorted : SortedBy key q := (hs l hl).sublist hsub
      refine ⟨l, hl, hsub, hsorted, ?_⟩
      cases q with
      | nil => exact absurd rfl hne
      | cons c q' =>
        obtain ⟨j, hj⟩ := List.getElem?_of_mem hq
        have hmin := (hA j c q' hj).1
        intro x hx
        simp at hx
        rcases hx with rfl | hx
        · exact hmin
        · have := (List.pairwise_cons.mp hsorted).1 x hx
          omega
    refine ⟨⟨?_, ?_⟩, ?_, ⟨l0, hl0, hbl0⟩, ?_⟩
    · intro l' hl'
      obtain ⟨q, hq, hor⟩ := mem_modify_filterMap _ i l' hl'
      obtain ⟨l, hl, hsub, hsorted, _⟩ := entry q hq
      rcases hor with rfl | ⟨_, rfl⟩
      · exact hsorted
      · exact hsorted.sublist (List.tail_sublist q)
    · intro k hk l' hl' x hx
      simp at hk; subst hk
      obtain ⟨q, hq, hor⟩ := mem_modify_filterMap _ i l' hl'
      obtain ⟨l, hl, hsub, hsorted, hge⟩ := entry q hq
      rcases hor with rfl | ⟨_, rfl⟩
      · exact hge x hx
      · exact hge x ((List.tail_sublist q).subset hx)
    · intro k hk
      subst hk
      have hge : k ≤ key b := hnd k rfl l0 hl0 b hbl0
      have hne : key b ≠ k := dropLast_head_ne key k l0 b lb (by rw [← hq0])
      omega
    · intro l' hl'
      obtain ⟨q, hq, hor⟩ := mem_modify_filterMap _ i l' hl'
      obtain ⟨l, hl, hsub, _, _⟩ := entry q hq
      rcases hor with rfl | ⟨_, rfl⟩
      · exact ⟨l, hl, hsub⟩
      · exact ⟨l, hl, (List.tail_sublist q).trans hsub⟩

end OpenFGAVerif.Proofs.Iter
