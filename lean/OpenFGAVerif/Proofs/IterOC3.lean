/-
`OrderedCombinedIterator`, part 3: the drained sequence `ocSpec` and its properties; the machine-level theorem.
-/
import OpenFGAVerif.Proofs.IterOC2

namespace OpenFGAVerif.Proofs.Iter
open OpenFGAVerif.Model.Iter

variable {α : Type}

/-- the drained sequence, by iterating `ocStep` (`f` = fuel; `tot ins` steps always suffice) -/
def ocSpecF (key : α → Nat) : Nat → Option Nat → List (List α) → List α
  | 0, _, _ => []
  | f + 1, last, ins =>
    match ocStep key last ins with
    | none => []
    | some (a, ins') => a :: ocSpecF key f (some (key a)) ins'

/-- **specification of the ordered combined iterator** over item lists -/
def ocSpec (key : α → Nat) (ins : List (List α)) : List α := ocSpecF key (tot ins) none ins

theorem scanPure_ne_some_nil (key : α → Nat) (last : Option Nat) (l : List α) : scanPure key last l ≠ some [] := by
  intro h
  exact (scanPure_some key last l [] h).2 rfl

/-- `Done` is only answered when every input is exhausted -/
theorem ocStep_none (key : α → Nat) (last : Option Nat) (ins : List (List α)) (h : ocStep key last ins = none) :
    (ins.map (scanPure key last)).filterMap id = [] ∧ ∀ l ∈ ins, dropLast key last l = [] := by
  simp only [ocStep] at h
  split at h
  · rename_i hb
    obtain ⟨_, hall⟩ := bestOf_none key _ 0 none hb
    have hnone : ∀ l ∈ ins, scanPure key last l = none := by
      intro l hl
      rcases hall (scanPure key last l) (List.mem_map.mpr ⟨l, hl, rfl⟩) with h | h
      · exact h
      · exact absurd h (scanPure_ne_some_nil key last l)
    constructor
    · apply List.filterMap_eq_nil_iff.mpr
      intro o ho
      obtain ⟨l, hl, rfl⟩ := List.mem_map.mp ho
      simp [hnone l hl]
    · intro l hl
      exact scanPure_none key last l (hnone l hl)
  · simp at h

theorem ocStep_nil (key : α → Nat) (last : Option Nat) : ocStep key last ([] : List (List α)) = none := by
  simp [ocStep, bestOf]

theorem ocStream_nil (key : α → Nat) (last : Option Nat) (n : Nat) :
    ocStream key n last ([] : List (List α)) = stream [] n := by
  induction n with
  | zero => simp [ocStream]
  | succ n ih => simp [ocStream, ocStep_nil, ih]

theorem ocStream_eq (key : α → Nat) (n f : Nat) (last : Option Nat) (ins : List (List α)) (hf : tot ins ≤ f) :
    ocStream key n last ins = stream ((ocSpecF key f last ins).map Res.ok) n := by
  induction n generalizing f last ins with
  | zero => simp [ocStream]
  | succ n ih =>
    cases hs : ocStep key last ins with
    | none =>
      have hc := (ocStep_none key last ins hs).1
      have : ocSpecF key f last ins = [] := by cases f <;> simp [ocSpecF, hs]
      simp [ocStream, hs, hc, this, ocStream_nil]
    | some ai =>
      obtain ⟨a, ins'⟩ := ai
      have hlt := ocStep_tot key last ins ins' a hs
      obtain ⟨f', rfl⟩ : ∃ f', f = f' + 1 := ⟨f - 1, by omega⟩
      simp [ocStream, hs, ocSpecF, ih f' (some (key a)) ins' (by omega)]

/-- the machine yields the pure stream -/
theorem oc_refines (key : α → Nat) (s : OC α) (last : Option Nat) (ins : List (List α))
    (hr : OCRel key s last ins) (hinv : OCInv key last ins) (n : Nat) :
    (OC.machine key).nexts n s = ocStream key n last ins := by
  induction n generalizing s last ins with
  | zero => simp [ocStream]
  | succ n ih =>
    have hstep := oc_next_step key s last ins hr hinv.2
    cases hs : ocStep key last ins with
    | none =>
      rw [hs] at hstep
      obtain ⟨h1, h2⟩ := hstep
      have hc := (ocStep_none key last ins hs).1
      rw [hc] at h2
      have hinv' : OCInv key last ([] : List (List α)) := ⟨by simp, by intro k _ l hl; simp at hl⟩
      have := ih _ last [] h2 hinv'
      simp only [OC.machine] at this
      simp [nexts_succ, OC.machine, ocStream, hs, hc, h1, this]
    | some ai =>
      obtain ⟨a, ins'⟩ := ai
      rw [hs] at hstep
      obtain ⟨h1, h2⟩ := hstep
      have hinv' := (ocStep_spec key last ins ins' a hinv hs).1
      have := ih _ (some (key a)) ins' h2 hinv'
      simp only [OC.machine] at this
      simp [nexts_succ, OC.machine, ocStream, hs, h1, this]

/-- **OrderedCombined, machine level**: over error-free inputs, each sorted by the mapper key, draining yields `ocSpec` -/
theorem oc_drain (key : α → Nat) (its : List (SIter α)) (ins : List (List α))
    (hits : its.map (·.rem) = ins.map (·.map El.item)) (hsorted : ∀ l ∈ ins, SortedBy key l) (n : Nat) :
    (OC.machine key).nexts n (OC.start its) = stream ((ocSpec key ins).map Res.ok) n := by
  have hr : OCRel key (OC.start its) none ins := by
    refine ⟨?_, rfl, rfl⟩
    have : (its.map some).filterMap id = its := by
      induction its with
      | nil => rfl
      | cons x xs ih => simp
    simp [OC.start, this, hits]
  have hinv : OCInv key none ins := ⟨hsorted, by intro k hk; simp at hk⟩
  rw [oc_refines key _ none ins hr hinv n]
  exact ocStream_eq key n (tot ins) none ins (Nat.le_refl _)

/-! ### properties of the drained sequence -/

/-- strictly ascending by key (hence duplicate-free by key), and above the last yielded key -/
theorem ocSpecF_strict (key : α → Nat) (f : Nat) (last : Option Nat) (ins : List (List α)) (hinv : OCInv key last ins) :
    StrictBy key (ocSpecF key f last ins) ∧ ∀ a ∈ ocSpecF key f last ins, ∀ k, last = some k → k < key a := by
  induction f generalizing last ins with
  | zero => simp [ocSpecF, StrictBy]
  | succ f ih =>
    cases hs : ocStep key last ins with
    | none => simp [ocSpecF, hs, StrictBy]
    | some ai =>
      obtain ⟨a, ins'⟩ := ai
      obtain ⟨hinv', hlt, _, _⟩ := ocStep_spec key last ins ins' a hinv hs
      obtain ⟨ih1, ih2⟩ := ih (some (key a)) ins' hinv'
      simp only [ocSpecF, hs]
      constructor
      · simp only [StrictBy, List.pairwise_cons]
        exact ⟨fun b hb => ih2 b hb (key a) rfl, ih1⟩
      · intro b hb k hk
        simp at hb
        rcases hb with rfl | hb
        · exact hlt k hk
        · have := ih2 b hb (key a) rfl
          have := hlt k hk
          omega

/-- every yielded item comes from an input -/
theorem ocSpecF_mem (key : α → Nat) (f : Nat) (last : Option Nat) (ins : List (List α)) (hinv : OCInv key last ins) :
    ∀ a ∈ ocSpecF key f last ins, ∃ l ∈ ins, a ∈ l := by
  induction f generalizing last ins with
  | zero => simp [ocSpecF]
  | succ f ih =>
    cases hs : ocStep key last ins with
    | none => simp [ocSpecF, hs]
    | some ai =>
      obtain ⟨a, ins'⟩ := ai
      obtain ⟨hinv', _, hmem, hsub⟩ := ocStep_spec key last ins ins' a hinv hs
      intro b hb
      simp only [ocSpecF, hs, List.mem_cons] at hb
      rcases hb with rfl | hb
      · exact hmem
      · obtain ⟨l', hl', hbl'⟩ := ih (some (key a)) ins' hinv' b hb
        obtain ⟨l, hl, hs'⟩ := hsub l' hl'
        exact ⟨l, hl, hs'.subset hbl'⟩

/-- a surviving entry is still there after the step, possibly without its head if it was the chosen one -/
theorem mem_modify_forward' (p : List (Option (List α))) (i : Nat) (q : List α) (h : some q ∈ p) :
    some q ∈ OC.modifyAt (Option.map List.tail) p i ∨
    (p[i]? = some (some q) ∧ some q.tail ∈ OC.modifyAt (Option.map List.tail) p i) := by
  induction p generalizing i with
  | nil => simp at h
  | cons o p ih =>
    cases i with
    | zero =>
      simp only [List.mem_cons] at h
      rcases h with h | h
      · subst h
        exact Or.inr ⟨by simp, by simp [OC.modifyAt]⟩
      · exact Or.inl (by simp [OC.modifyAt, h])
    | succ i =>
      simp only [List.mem_cons] at h
      rcases h with h | h
      · subst h
        exact Or.inl (by simp [OC.modifyAt])
      · rcases ih i h with h' | ⟨h1, h2⟩
        · exact Or.inl (by simp [OC.modifyAt, h'])
        · exact Or.inr ⟨by simpa using h1, by simp [OC.modifyAt, h2]⟩

theorem mem_filterMap_id (p : List (Option (List α))) (q : List α) : q ∈ p.filterMap id ↔ some q ∈ p := by
  simp [List.mem_filterMap]

theorem mem_modify_forward (p : List (Option (List α))) (i : Nat) (q : List α) (h : some q ∈ p) :
    q ∈ (OC.modifyAt (Option.map List.tail) p i).filterMap id ∨
    (p[i]? = some (some q) ∧ q.tail ∈ (OC.modifyAt (Option.map List.tail) p i).filterMap id) := by
  simp only [mem_filterMap_id]
  exact mem_modify_forward' p i q h

theorem length_le_tot (ins : List (List α)) (l : List α) (hl : l ∈ ins) : l.length ≤ tot ins := by
  induction ins with
  | nil => simp at hl
  | cons x xs ih =>
    simp only [List.mem_cons] at hl
    rcases hl with rfl | hl
    · simp [tot]
    · have := ih hl
      simp only [tot, List.map_cons, List.sum_cons] at this ⊢
      omega

/-- no key is lost: every key of an input is yielded, unless it is the key that was yielded last -/
theorem ocSpecF_complete (key : α → Nat) (f : Nat) (last : Option Nat) (ins : List (List α))
    (hf : tot ins ≤ f) (l : List α) (hl : l ∈ ins) (x : α) (hx : x ∈ l) :
    last = some (key x) ∨ key x ∈ (ocSpecF key f last ins).map key := by
  induction f generalizing last ins l x with
  | zero =>
    -- no item at all
    have : l.length = 0 := by
      have hle : l.length ≤ tot ins := length_le_tot ins l hl
      omega
    have : l = [] := List.length_eq_zero_iff.mp this
    subst this
    simp at hx
  | succ f ih =>
    obtain ⟨pre, hsplit, hpre⟩ := dropLast_split key last l
    rw [hsplit] at hx
    rcases List.mem_append.mp hx with hx | hx
    · exact Or.inl (hpre x hx)
    · cases hs : ocStep key last ins with
      | none =>
        have := (ocStep_none key last ins hs).2 l hl
        rw [this] at hx
        simp at hx
      | some ai =>
        obtain ⟨a, ins'⟩ := ai
        right
        have hlt := ocStep_tot key last ins ins' a hs
        simp only [ocSpecF, hs, List.map_cons, List.mem_cons]
        -- the entry of `l` among the scanned inputs
        have hne : dropLast key last l ≠ [] := by intro e; rw [e] at hx; simp at hx
        have hsc : scanPure key last l = some (dropLast key last l) := by
          cases hd : dropLast key last l with
          | nil => exact absurd hd hne
          | cons c r => simp [scanPure, hd]
        have hq : some (dropLast key last l) ∈ ins.map (scanPure key last) := List.mem_map.mpr ⟨l, hl, hsc⟩
        -- unfold the step
        have hs' := hs
        simp only [ocStep] at hs'
        split at hs'
        · simp at hs'
        · rename_i i b hb
          simp at hs'
          obtain ⟨rfl, rfl⟩ := hs'
          have recur : ∀ l' ∈ (OC.modifyAt (Option.map List.tail) (ins.map (scanPure key last)) i).filterMap id,
              x ∈ l' → key x = key b ∨ key x ∈ (ocSpecF key f (some (key b))
                ((OC.modifyAt (Option.map List.tail) (ins.map (scanPure key last)) i).filterMap id)).map key := by
            intro l' hl' hxl'
            rcases ih (some (key b)) _ (by omega) l' hl' x hxl' with h | h
            · left; simp at h; exact h.symm
            · right; exact h
          rcases mem_modify_forward _ i _ hq with h | ⟨h1, h2⟩
          · exact recur _ h hx
          · -- `l` is the chosen input: `x` is its head `b`, or in its tail
            rcases bestOf_some key _ 0 none i b hb with h | ⟨_, lb, hp⟩
            · simp at h
            · simp only [Nat.sub_zero] at hp
              rw [h1] at hp
              simp at hp
              rw [hp] at hx h2
              simp at hx
              rcases hx with rfl | hx
              · exact Or.inl rfl
              · exact recur _ h2 (by simpa using hx)

/-- **on equal keys the first input wins**: the yielded item is the head of the earliest input (in argument order)
among those whose current head has the smallest key; the equal heads of later inputs are dropped by the next call. -/
theorem ocStep_first_wins (key : α → Nat) (last : Option Nat) (ins ins' : List (List α)) (a : α)
    (h : ocStep key last ins = some (a, ins')) :
    ∃ (i : Nat) (l : List α), (ins.map (scanPure key last))[i]? = some (some (a :: l)) ∧
      ∀ (j : Nat) (b : α) (l' : List α),
        (ins.map (scanPure key last))[j]? = some (some (b :: l')) → key a ≤ key b ∧ (j < i → key a < key b) := by
  simp only [ocStep] at h
  split at h
  · simp at h
  · rename_i i b hb
    simp at h
    obtain ⟨rfl, rfl⟩ := h
    obtain ⟨hA, _⟩ := bestOf_min key _ 0 none i b (by simp) hb
    rcases bestOf_some key _ 0 none i b hb with h | ⟨_, lb, hp⟩
    · simp at h
    · simp only [Nat.sub_zero] at hp
      refine ⟨i, lb, hp, ?_⟩
      intro j c l' hj
      have hmin := hA j c l' hj
      refine ⟨hmin.1, ?_⟩
      intro hlt
      exact hmin.2 (by omega)

/-- **OrderedCombined, the sequence**: for inputs sorted by the mapper key, `ocSpec` is strictly ascending by key
(so sorted and duplicate-free), every item comes from an input, and every key of the inputs occurs. -/
theorem ocSpec_props (key : α → Nat) (ins : List (List α)) (hsorted : ∀ l ∈ ins, SortedBy key l) :
    StrictBy key (ocSpec key ins) ∧
    (∀ a ∈ ocSpec key ins, ∃ l ∈ ins, a ∈ l) ∧
    (∀ k, k ∈ (ocSpec key ins).map key ↔ ∃ l ∈ ins, k ∈ l.map key) := by
  have hinv : OCInv key none ins := ⟨hsorted, by intro k hk; simp at hk⟩
  refine ⟨(ocSpecF_strict key _ none ins hinv).1, ocSpecF_mem key _ none ins hinv, ?_⟩
  intro k
  constructor
  · intro hk
    obtain ⟨a, ha, rfl⟩ := List.mem_map.mp hk
    obtain ⟨l, hl, hal⟩ := ocSpecF_mem key _ none ins hinv a ha
    exact ⟨l, hl, List.mem_map.mpr ⟨a, hal, rfl⟩⟩
  · rintro ⟨l, hl, hk⟩
    obtain ⟨x, hx, rfl⟩ := List.mem_map.mp hk
    rcases ocSpecF_complete key (tot ins) none ins (Nat.le_refl _) l hl x hx with h | h
    · simp at h
    · exact h

end OpenFGAVerif.Proofs.Iter
