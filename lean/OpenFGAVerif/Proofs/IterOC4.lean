/-
`OrderedCombinedIterator`, part 4: the global form of "the first input wins on equal keys": every item of the drained
sequence is the first item with its key of the first input (in argument order) that contains the key.
-/
import OpenFGAVerif.Proofs.IterOC3

namespace OpenFGAVerif.Proofs.Iter
open OpenFGAVerif.Model.Iter

variable {α : Type}

/-- the first item with key `k`, scanning the inputs in argument order -/
def firstWithKey (key : α → Nat) (k : Nat) (ins : List (List α)) : Option α :=
  ins.findSome? fun l => l.find? fun b => key b == k

/-- the same over the scanned inputs (`none` = exhausted) -/
def firstWithKeyO (key : α → Nat) (k : Nat) (p : List (Option (List α))) : Option α :=
  p.findSome? fun o => match o with
    | none => none
    | some q => q.find? fun b => key b == k

theorem find?_dropWhile_ne (key : α → Nat) (k kl : Nat) (h : kl ≠ k) (l : List α) :
    (l.dropWhile fun a => key a == kl).find? (fun b => key b == k) = l.find? fun b => key b == k := by
  induction l with
  | nil => rfl
  | cons x xs ih =>
    by_cases hx : key x = kl
    · have h1 : (key x == kl) = true := by simp [hx]
      have h2 : (key x == k) = false := by simp; omega
      simp only [List.dropWhile, h1, List.find?_cons, h2]
      exact ih
    · have h3 : (key x == kl) = false := by simp [hx]
      simp only [List.dropWhile, h3]

theorem find?_dropLast (key : α → Nat) (last : Option Nat) (k : Nat) (hk : ∀ kl, last = some kl → kl < k) (l : List α) :
    (dropLast key last l).find? (fun b => key b == k) = l.find? fun b => key b == k := by
  cases last with
  | none => rfl
  | some kl =>
    have := hk kl rfl
    exact find?_dropWhile_ne key k kl (by omega) l

/-- scanning does not change who is first for a key above the last yielded key -/
theorem firstWithKey_scan (key : α → Nat) (last : Option Nat) (k : Nat) (hk : ∀ kl, last = some kl → kl < k)
    (ins : List (List α)) :
    firstWithKeyO key k (ins.map (scanPure key last)) = firstWithKey key k ins := by
  induction ins with
  | nil => rfl
  | cons l ins ih =>
    simp only [firstWithKey, firstWithKeyO, List.map_cons, List.findSome?_cons] at ih ⊢
    have hf := find?_dropLast key last k hk l
    cases hs : scanPure key last l with
    | none =>
      have hd := scanPure_none key last l hs
      rw [hd] at hf
      simp only [List.find?_nil] at hf
      simp only [← hf]
      exact ih
    | some q =>
      have hq := (scanPure_some key last l q hs).1
      rw [← hq] at hf
      simp only [hf]
      cases l.find? (fun b => key b == k) with
      | none => exact ih
      | some b => rfl

theorem firstWithKeyO_filterMap (key : α → Nat) (k : Nat) (p : List (Option (List α))) :
    firstWithKey key k (p.filterMap id) = firstWithKeyO key k p := by
  induction p with
  | nil => rfl
  | cons o p ih =>
    cases o with
    | none => simpa [firstWithKey, firstWithKeyO] using ih
    | some q =>
      simp only [firstWithKey, firstWithKeyO, List.filterMap_cons, id, List.findSome?_cons] at ih ⊢
      cases q.find? (fun b => key b == k) with
      | none => exact ih
      | some b => rfl

/-- popping the chosen head does not change who is first for a larger key -/
theorem firstWithKeyO_modify (key : α → Nat) (k : Nat) (p : List (Option (List α))) (i : Nat) (a : α) (lb : List α)
    (hp : p[i]? = some (some (a :: lb))) (hne : key a ≠ k) :
    firstWithKeyO key k (OC.modifyAt (Option.map List.tail) p i) = firstWithKeyO key k p := by
  induction p generalizing i with
  | nil => simp at hp
  | cons o p ih =>
    cases i with
    | zero =>
      simp at hp; subst hp
      have : (key a == k) = false := by simp [hne]
      simp only [firstWithKeyO, OC.modifyAt, Option.map_some, List.tail_cons, List.findSome?_cons, List.find?_cons, this]
    | succ i =>
      have := ih i (by simpa using hp)
      simp only [firstWithKeyO, OC.modifyAt, List.findSome?_cons] at this ⊢
      rw [this]

/-- a sorted list whose head is above `k` has no item with key `k` -/
theorem find?_none_of_head_gt (key : α → Nat) (k : Nat) (b : α) (l : List α) (hs : SortedBy key (b :: l)) (hb : k < key b) :
    (b :: l).find? (fun x => key x == k) = none := by
  apply List.find?_eq_none.mpr
  intro x hx
  have : key b ≤ key x := by
    simp at hx
    rcases hx with rfl | hx
    · exact Nat.le_refl _
    · exact (List.pairwise_cons.mp hs).1 x hx
  simp; omega

/-- the chosen head is the first item with its key among the scanned inputs -/
theorem firstWithKeyO_chosen (key : α → Nat) (p : List (Option (List α))) (i : Nat) (a : α) (lb : List α)
    (hp : p[i]? = some (some (a :: lb)))
    (hsorted : ∀ q, some q ∈ p → SortedBy key q)
    (hmin : ∀ (j : Nat) (b : α) (l' : List α), p[j]? = some (some (b :: l')) → key a ≤ key b ∧ (j < i → key a < key b)) :
    firstWithKeyO key (key a) p = some a := by
  induction p generalizing i with
  | nil => simp at hp
  | cons o p ih =>
    cases i with
    | zero =>
      simp at hp; subst hp
      simp [firstWithKeyO, List.find?]
    | succ i =>
      have hrest := ih i (by simpa using hp) (fun q hq => hsorted q (by simp [hq]))
        (fun j b l' hj => by
          have := hmin (j + 1) b l' (by simpa using hj)
          exact ⟨this.1, fun hlt => this.2 (by omega)⟩)
      simp only [firstWithKeyO, List.findSome?_cons] at hrest ⊢
      cases o with
      | none => exact hrest
      | some q =>
        cases q with
        | nil => simpa using hrest
        | cons b l' =>
          have hlt := (hmin 0 b l' (by simp)).2 (by omega)
          have hs := hsorted (b :: l') (by simp)
          have hn := find?_none_of_head_gt key (key a) b l' hs hlt
          simp only [hn]
          exact hrest

/-- one step: the yielded item is the first with its key in the current inputs, and for every larger key the
step changes nothing -/
theorem ocStep_first (key : α → Nat) (last : Option Nat) (ins ins' : List (List α)) (a : α)
    (hinv : OCInv key last ins) (h : ocStep key last ins = some (a, ins')) :
    firstWithKey key (key a) ins = some a ∧
    ∀ k, key a < k → firstWithKey key k ins' = firstWithKey key k ins := by
  obtain ⟨_, hlast, _, _⟩ := ocStep_spec key last ins ins' a hinv h
  obtain ⟨i, lb, hp, hmin⟩ := ocStep_first_wins key last ins ins' a h
  have hsorted : ∀ q, some q ∈ ins.map (scanPure key last) → SortedBy key q := by
    intro q hq
    obtain ⟨l, hl, hsc⟩ := List.mem_map.mp hq
    have hqd := (scanPure_some key last l q hsc).1
    rw [hqd]
    exact (hinv.1 l hl).sublist (dropLast_sublist key last l)
  constructor
  · rw [← firstWithKey_scan key last (key a) hlast ins]
    exact firstWithKeyO_chosen key _ i a lb hp hsorted hmin
  · intro k hk
    have hins' : ins' = (OC.modifyAt (Option.map List.tail) (ins.map (scanPure key last)) i).filterMap id := by
      simp only [ocStep] at h
      split at h
      · simp at h
      · rename_i i' b hb
        simp at h
        obtain ⟨rfl, rfl⟩ := h
        -- the index chosen by `bestOf` is the `i` of `ocStep_first_wins`: both come from the same `bestOf`
        rcases bestOf_some key _ 0 none i' b hb with h' | ⟨_, lb', hp'⟩
        · simp at h'
        · simp only [Nat.sub_zero] at hp'
          have hi : i' = i := by
            have h1 := hmin i' b lb' hp'
            obtain ⟨hA, _⟩ := bestOf_min key _ 0 none i' b (by simp) hb
            have h2 := hA i b lb hp
            rcases Nat.lt_trichotomy i' i with hlt | heq | hgt
            · have := h1.2 hlt; omega
            · exact heq
            · have := h2.2 (by omega); omega
          rw [hi]
    rw [hins', firstWithKeyO_filterMap, firstWithKeyO_modify key k _ i a lb hp (by omega)]
    exact firstWithKey_scan key last k (fun kl hkl => by have := hlast kl hkl; omega) ins

/-- along the whole drain -/
theorem ocSpecF_first (key : α → Nat) (orig : List (List α)) (f : Nat) (last : Option Nat) (cur : List (List α))
    (hinv : OCInv key last cur)
    (hfw : ∀ k, (∀ kl, last = some kl → kl < k) → firstWithKey key k cur = firstWithKey key k orig) :
    ∀ a ∈ ocSpecF key f last cur, firstWithKey key (key a) orig = some a := by
  induction f generalizing last cur with
  | zero => simp [ocSpecF]
  | succ f ih =>
    cases hs : ocStep key last cur with
    | none => simp [ocSpecF, hs]
    | some ai =>
      obtain ⟨a, ins'⟩ := ai
      obtain ⟨hinv', hlast, _, _⟩ := ocStep_spec key last cur ins' a hinv hs
      obtain ⟨h1, h2⟩ := ocStep_first key last cur ins' a hinv hs
      intro b hb
      simp only [ocSpecF, hs, List.mem_cons] at hb
      rcases hb with rfl | hb
      · rw [← hfw (key b) hlast]; exact h1
      · apply ih (some (key a)) ins' hinv' _ b hb
        intro k hk
        have hka : key a < k := hk (key a) rfl
        rw [h2 k hka]
        exact hfw k (fun kl hkl => by have := hlast kl hkl; omega)

/-- **the first input wins, globally**: every item of `ocSpec` is the first item with its key of the first input
that has the key -/
theorem ocSpec_first_wins (key : α → Nat) (ins : List (List α)) (hsorted : ∀ l ∈ ins, SortedBy key l) :
    ∀ a ∈ ocSpec key ins, firstWithKey key (key a) ins = some a :=
  ocSpecF_first key ins (tot ins) none ins ⟨hsorted, by intro k hk; simp at hk⟩ (fun _ _ => rfl)

end OpenFGAVerif.Proofs.Iter
