/-
Resource theorem for `OrderedCombinedIterator` (pkg/storage/tuple_iterators.go), over the C23 model
`Model.Iter.OC` (reused, not forked).

`head()` removes a source iterator from the pending list (`c.pending[pendingIdx] = nil`) as soon as it is
exhausted — also when it runs out while duplicates of the last yielded key are skipped — and `Stop()` only reaches
the iterators that are still pending.  So the combined iterator releases all its sources only because every
removal stops the source first.  The model records the removed sources in `OC.dead`; `OC.inputs` = still pending
++ removed.

  * `oc_conserved`   whatever calls were made (any list of `Next` / `Head` / `Stop`, live or cancelled), the sources
                     accounted for (`inputs`) are exactly the sources the iterator was built from (same ids, as a
                     permutation): none is lost;
  * `oc_stop_releases_all`  after `Stop()` every one of them has been stopped at least once, whatever prefix was
                     consumed before;
  * `oc_removed_were_stopped`  at every moment, every source already removed from the pending list has been stopped;
  * `stop_does_not_reach_removed`  negative witness: `Stop()` does not touch a removed source — if a removal left
                     it un-stopped (the dropped `iter.Stop()`), it stays open for ever.
-/
import OpenFGAVerif.Model.Iter

namespace OpenFGAVerif.Proofs.IterRelease
open OpenFGAVerif.Model.Iter

variable {α : Type}

/-! ## one scan -/

theorem scan_gone (key : α → Nat) (last : Option α) (c : Bool) (idx : Nat) (it it' : SIter α)
    (h : OC.scan key last c idx it = .gone it') : it'.id = it.id ∧ it'.stops = it.stops + 1 := by
  unfold OC.scan at h
  split at h
  · injection h with h; subst h; exact ⟨rfl, rfl⟩
  · exact absurd h (by simp)
  · split at h
    · exact absurd h (by simp)
    · split at h
      · exact absurd h (by simp)
      · split at h
        · split at h
          · injection h with h; subst h; exact ⟨rfl, rfl⟩
          · exact absurd h (by simp)
          · exact absurd h (by simp)
        · exact absurd h (by simp)

theorem scan_error (key : α → Nat) (last : Option α) (c : Bool) (idx : Nat) (it it' : SIter α) (e : Err)
    (h : OC.scan key last c idx it = .error e it') : it'.id = it.id ∧ it'.stops = it.stops := by
  unfold OC.scan at h
  split at h
  · exact absurd h (by simp)
  · injection h with _ h; subst h; exact ⟨rfl, rfl⟩
  · split at h
    · exact absurd h (by simp)
    · split at h
      · injection h with _ h; subst h; exact ⟨rfl, rfl⟩
      · split at h
        · split at h
          · exact absurd h (by simp)
          · exact absurd h (by simp)
          · injection h with _ h; subst h; exact ⟨rfl, rfl⟩
        · exact absurd h (by simp)

theorem scan_head (key : α → Nat) (last : Option α) (c : Bool) (idx : Nat) (it it' : SIter α) (a : α)
    (h : OC.scan key last c idx it = .head a it') : it'.id = it.id ∧ it'.stops = it.stops := by
  unfold OC.scan at h
  split at h
  · exact absurd h (by simp)
  · exact absurd h (by simp)
  · split at h
    · injection h with _ h; subst h; exact ⟨rfl, rfl⟩
    · split at h
      · exact absurd h (by simp)
      · split at h
        · split at h
          · exact absurd h (by simp)
          · injection h with _ h; subst h; exact ⟨rfl, rfl⟩
          · exact absurd h (by simp)
        · injection h with _ h; subst h; exact ⟨rfl, rfl⟩

/-! ## the loop of `head()` -/

/-- ids of a list of iterators -/
def ids (l : List (SIter α)) : List Nat := l.map (·.id)

theorem filterMap_map_some (l : List (SIter α)) : (l.map some).filterMap id = l := by
  induction l with
  | nil => rfl
  | cons a l ih => simp [ih]

/-- the loop loses no source: still pending ++ removed = what it started with (ids, up to order) -/
theorem headGo_conserved (key : α → Nat) (last : Option α) (c : Bool) :
    ∀ (l : List (SIter α)) (idx : Nat) (best : Option (Nat × α)),
      (ids ((OC.headGo key last c l idx best).2.1.filterMap id ++ (OC.headGo key last c l idx best).2.2)).Perm (ids l)
  | [], _, _ => by simp [OC.headGo, ids]
  | it :: rest, idx, best => by
    unfold OC.headGo
    split
    · rename_i it' hs
      have ih := headGo_conserved key last c rest (idx + 1) best
      have hid := (scan_gone key last c idx it it' hs).1
      simp only [List.filterMap_cons, id_eq, ids, List.map_append, List.map_cons] at ih ⊢
      rw [hid]
      exact (List.perm_middle).trans (ih.cons _)
    · rename_i e it' hs
      have hid := (scan_error key last c idx it it' e hs).1
      simp [ids, hid]
    · rename_i a it' hs
      have hid := (scan_head key last c idx it it' a hs).1
      have ih := headGo_conserved key last c rest (idx + 1)
        (match best with
          | none => some (idx, a)
          | some (j, b) => if key b > key a then some (idx, a) else some (j, b))
      simp only [List.filterMap_cons, id_eq, ids, List.map_append, List.map_cons, List.cons_append] at ih ⊢
      rw [hid]
      exact ih.cons _

/-- every source the loop removes has been stopped -/
theorem headGo_removed_stopped (key : α → Nat) (last : Option α) (c : Bool) :
    ∀ (l : List (SIter α)) (idx : Nat) (best : Option (Nat × α)),
      ∀ x ∈ (OC.headGo key last c l idx best).2.2, 1 ≤ x.stops
  | [], _, _ => by simp [OC.headGo]
  | it :: rest, idx, best => by
    unfold OC.headGo
    split
    · rename_i it' hs
      intro x hx
      simp only [List.mem_cons] at hx
      rcases hx with rfl | hx
      · have := (scan_gone key last c idx it x hs).2; omega
      · exact headGo_removed_stopped key last c rest (idx + 1) best x hx
    · intro x hx; simp at hx
    · intro x hx
      exact headGo_removed_stopped key last c rest (idx + 1) _ x hx

/-- a source that stays pending keeps its stop count (the loop stops nothing it keeps) -/
theorem headGo_kept_stops (key : α → Nat) (last : Option α) (c : Bool) (n : Nat) :
    ∀ (l : List (SIter α)) (idx : Nat) (best : Option (Nat × α)), (∀ x ∈ l, n ≤ x.stops) →
      ∀ x ∈ (OC.headGo key last c l idx best).2.1.filterMap id, n ≤ x.stops
  | [], _, _, _ => by simp [OC.headGo]
  | it :: rest, idx, best, hl => by
    have hrest : ∀ x ∈ rest, n ≤ x.stops := fun x hx => hl x (List.mem_cons_of_mem _ hx)
    have hit : n ≤ it.stops := hl it (List.mem_cons_self ..)
    unfold OC.headGo
    split
    · intro x hx
      simp only [List.filterMap_cons, id_eq] at hx
      exact headGo_kept_stops key last c n rest (idx + 1) best hrest x hx
    · rename_i e it' hs
      intro x hx
      simp only [List.filterMap_cons, id_eq, filterMap_map_some, List.mem_cons] at hx
      rcases hx with rfl | hx
      · have := (scan_error key last c idx it x e hs).2; omega
      · exact hrest x hx
    · rename_i a it' hs
      intro x hx
      simp only [List.filterMap_cons, id_eq, List.mem_cons] at hx
      rcases hx with rfl | hx
      · have := (scan_head key last c idx it x a hs).2; omega
      · exact headGo_kept_stops key last c n rest (idx + 1) _ hrest x hx

/-! ## the invariant -/

/-- removed sources are stopped; once `Stop()` ran, so are the pending ones -/
structure Inv (s : OC α) : Prop where
  dead : ∀ x ∈ s.dead, 1 ≤ x.stops
  once : s.once = true → ∀ x ∈ s.pending.filterMap id, 1 ≤ x.stops

theorem headIdx_fields (key : α → Nat) (s : OC α) (c : Bool) :
    (OC.headIdx key s c).2 = { s with pending := (OC.headGo key s.lastYielded c (s.pending.filterMap id) 0 none).2.1,
                                      dead := (OC.headGo key s.lastYielded c (s.pending.filterMap id) 0 none).2.2.reverse ++ s.dead } := by
  unfold OC.headIdx
  dsimp only
  generalize OC.headGo key s.lastYielded c (s.pending.filterMap id) 0 none = r
  obtain ⟨r1, p, d⟩ := r
  cases r1 with
  | error e => rfl
  | ok o => cases o <;> rfl

theorem headIdx_inv (key : α → Nat) (s : OC α) (c : Bool) (h : Inv s) : Inv (OC.headIdx key s c).2 := by
  rw [headIdx_fields]
  constructor
  · intro x hx
    simp only [List.mem_append, List.mem_reverse] at hx
    rcases hx with hx | hx
    · exact headGo_removed_stopped key s.lastYielded c _ 0 none x hx
    · exact h.dead x hx
  · intro ho x hx
    exact headGo_kept_stops key s.lastYielded c 1 _ 0 none (h.once ho) x hx

theorem headIdx_conserved (key : α → Nat) (s : OC α) (c : Bool) :
    (ids (OC.inputs (OC.headIdx key s c).2)).Perm (ids (OC.inputs s)) := by
  rw [headIdx_fields]
  have hc := headGo_conserved key s.lastYielded c (s.pending.filterMap id) 0 none
  generalize OC.headGo key s.lastYielded c (s.pending.filterMap id) 0 none = r at hc ⊢
  obtain ⟨r1, p, d⟩ := r
  simp only [OC.inputs, ids, List.map_append, List.map_reverse] at hc ⊢
  have h1 : (List.map (fun x => x.id) (List.filterMap id p) ++ ((List.map (fun x => x.id) d).reverse ++ List.map (fun x => x.id) s.dead)).Perm
      ((List.map (fun x => x.id) (List.filterMap id p) ++ List.map (fun x => x.id) d) ++ List.map (fun x => x.id) s.dead) := by
    rw [List.append_assoc]
    exact List.Perm.append_left _ (List.Perm.append_right _ (List.reverse_perm _))
  exact h1.trans (hc.append_right _)

/-! ## replacing one pending entry by the same source, advanced -/

theorem modifyAt_filterMap_ids (l : List (Option (SIter α))) (i : Nat) (it it' : SIter α)
    (hget : l[i]? = some (some it)) (hid : it'.id = it.id) :
    ids ((OC.modifyAt (fun _ => some it') l i).filterMap id) = ids (l.filterMap id) := by
  induction l generalizing i with
  | nil => simp at hget
  | cons x xs ih =>
    cases i with
    | zero =>
      simp only [List.getElem?_cons_zero, Option.some.injEq] at hget
      subst hget
      simp [OC.modifyAt, ids, hid]
    | succ j =>
      simp only [List.getElem?_cons_succ] at hget
      have := ih j hget
      cases x with
      | none => simpa [OC.modifyAt, ids] using this
      | some y => simp only [OC.modifyAt, ids, List.filterMap_cons, id_eq, List.map_cons] at this ⊢; rw [this]

theorem modifyAt_filterMap_stops (l : List (Option (SIter α))) (i : Nat) (it' : SIter α) (n : Nat)
    (hl : ∀ x ∈ l.filterMap id, n ≤ x.stops) (hs : n ≤ it'.stops) :
    ∀ x ∈ (OC.modifyAt (fun _ => some it') l i).filterMap id, n ≤ x.stops := by
  induction l generalizing i with
  | nil => intro x hx; simp [OC.modifyAt] at hx
  | cons y ys ih =>
    have hys : ∀ x ∈ ys.filterMap id, n ≤ x.stops := by
      intro x hx
      apply hl x
      cases y with
      | none => simpa using hx
      | some z => simp only [List.filterMap_cons, id_eq, List.mem_cons]; exact Or.inr hx
    cases i with
    | zero =>
      intro x hx
      simp only [OC.modifyAt, List.filterMap_cons, id_eq, List.mem_cons] at hx
      rcases hx with rfl | hx
      · exact hs
      · exact hys x hx
    | succ j =>
      intro x hx
      cases y with
      | none =>
        simp only [OC.modifyAt, List.filterMap_cons, id_eq] at hx
        exact ih j hys x hx
      | some z =>
        simp only [OC.modifyAt, List.filterMap_cons, id_eq, List.mem_cons] at hx
        rcases hx with rfl | hx
        · exact hl x (by simp)
        · exact ih j hys x hx

theorem sIter_next_same (it : SIter α) (c : Bool) : (it.next c).2.id = it.id ∧ (it.next c).2.stops = it.stops := by
  unfold SIter.next
  split
  · exact ⟨rfl, rfl⟩
  · split <;> exact ⟨rfl, rfl⟩

/-! ## `Next`, `Head`, `Stop` keep the invariant and lose no source -/

theorem mem_filterMap_of_get (l : List (Option (SIter α))) (i : Nat) (it : SIter α) (h : l[i]? = some (some it)) :
    it ∈ l.filterMap id := by
  rw [List.mem_filterMap]
  exact ⟨some it, List.mem_of_getElem? h, rfl⟩

theorem next_inv_conserved (key : α → Nat) (s : OC α) (c : Bool) (h : Inv s) :
    Inv (OC.next key s c).2 ∧ (ids (OC.inputs (OC.next key s c).2)).Perm (ids (OC.inputs s)) := by
  have hi := headIdx_inv key s c h
  have hc := headIdx_conserved key s c
  unfold OC.next
  generalize OC.headIdx key s c = r at hi hc
  obtain ⟨r1, s'⟩ := r
  cases r1 with
  | error e => exact ⟨hi, hc⟩
  | ok ia =>
    obtain ⟨i, a⟩ := ia
    simp only at hi hc ⊢
    split
    · rename_i it hget
      have hget' : s'.pending[i]? = some (some it) := hget
      have hsame := sIter_next_same it c
      split
      · rename_i t it' hn
        have e : it' = (it.next c).2 := by rw [hn]
        refine ⟨⟨hi.dead, ?_⟩, ?_⟩
        · intro ho
          apply modifyAt_filterMap_stops _ _ _ 1 (hi.once ho)
          have := hi.once ho it (mem_filterMap_of_get _ _ _ hget')
          rw [e, hsame.2]; exact this
        · refine List.Perm.trans ?_ hc
          simp only [OC.inputs, ids, List.map_append]
          have := modifyAt_filterMap_ids s'.pending i it it' hget' (by rw [e]; exact hsame.1)
          simp only [ids] at this
          rw [this]
      · rename_i e0 v it' hn
        have e : it' = (it.next c).2 := by rw [hn]
        refine ⟨⟨hi.dead, ?_⟩, ?_⟩
        · intro ho
          apply modifyAt_filterMap_stops _ _ _ 1 (hi.once ho)
          have := hi.once ho it (mem_filterMap_of_get _ _ _ hget')
          rw [e, hsame.2]; exact this
        · refine List.Perm.trans ?_ hc
          simp only [OC.inputs, ids, List.map_append]
          have := modifyAt_filterMap_ids s'.pending i it it' hget' (by rw [e]; exact hsame.1)
          simp only [ids] at this
          rw [this]
    · exact ⟨⟨hi.dead, hi.once⟩, hc⟩

theorem head_inv_conserved (key : α → Nat) (s : OC α) (c : Bool) (h : Inv s) :
    Inv (OC.head key s c).2 ∧ (ids (OC.inputs (OC.head key s c).2)).Perm (ids (OC.inputs s)) := by
  have hi := headIdx_inv key s c h
  have hc := headIdx_conserved key s c
  unfold OC.head
  split
  · exact ⟨h, List.Perm.refl _⟩
  · generalize OC.headIdx key s c = r at hi hc
    obtain ⟨r1, s'⟩ := r
    cases r1 with
    | error e => exact ⟨hi, hc⟩
    | ok ia =>
      obtain ⟨i, a⟩ := ia
      simp only at hi hc ⊢
      split
      · split
        · exact ⟨⟨hi.dead, hi.once⟩, hc⟩
        · exact ⟨⟨hi.dead, hi.once⟩, hc⟩
      · exact ⟨hi, hc⟩

theorem filterMap_map_some' (l : List (SIter α)) (f : SIter α → SIter α) :
    (l.map (fun it => some (f it))).filterMap id = l.map f := by
  induction l with
  | nil => rfl
  | cons a l ih => simp [ih]

theorem stop_inv_conserved (s : OC α) (h : Inv s) :
    Inv (OC.stop s) ∧ (ids (OC.inputs (OC.stop s))).Perm (ids (OC.inputs s)) ∧ (OC.stop s).once = true := by
  unfold OC.stop
  split
  · rename_i ho; exact ⟨h, List.Perm.refl _, ho⟩
  · refine ⟨⟨h.dead, ?_⟩, ?_, rfl⟩
    · intro _ x hx
      simp only [filterMap_map_some', List.mem_map] at hx
      obtain ⟨y, _, rfl⟩ := hx
      simp [SIter.stop]
    · simp only [OC.inputs, ids, filterMap_map_some', List.map_append, List.map_map]
      exact List.Perm.of_eq (by congr 1)

/-! ## every call sequence -/

theorem run_inv_conserved (key : α → Nat) : ∀ (ops : List Op) (s : OC α), Inv s →
    Inv ((OC.machine key).run ops s).2 ∧ (ids (OC.inputs ((OC.machine key).run ops s).2)).Perm (ids (OC.inputs s))
  | [], s, h => ⟨h, List.Perm.refl _⟩
  | .next c :: ops, s, h => by
    have h1 := next_inv_conserved key s c h
    have h2 := run_inv_conserved key ops (OC.next key s c).2 h1.1
    simp only [Machine.run, OC.machine]
    exact ⟨h2.1, h2.2.trans h1.2⟩
  | .head c :: ops, s, h => by
    have h1 := head_inv_conserved key s c h
    have h2 := run_inv_conserved key ops (OC.head key s c).2 h1.1
    simp only [Machine.run, OC.machine]
    exact ⟨h2.1, h2.2.trans h1.2⟩
  | .stop :: ops, s, h => by
    have h1 := stop_inv_conserved s h
    have h2 := run_inv_conserved key ops (OC.stop s) h1.1
    simp only [Machine.run, OC.machine]
    exact ⟨h2.1, h2.2.trans h1.2.1⟩

theorem start_inv (ins : List (SIter α)) : Inv (OC.start ins) :=
  ⟨by intro x hx; simp [OC.start] at hx, by intro ho; simp [OC.start] at ho⟩

theorem start_inputs (ins : List (SIter α)) : OC.inputs (OC.start ins) = ins := by
  simp [OC.inputs, OC.start]

/-- the state after an arbitrary call sequence on a freshly built iterator -/
def after (key : α → Nat) (ins : List (SIter α)) (ops : List Op) : OC α := ((OC.machine key).run ops (OC.start ins)).2

/-- **No source is lost**: pending ++ removed are the sources the iterator was built from, whatever was called. -/
theorem oc_conserved (key : α → Nat) (ins : List (SIter α)) (ops : List Op) :
    (ids (OC.inputs (after key ins ops))).Perm (ids ins) := by
  have := (run_inv_conserved key ops (OC.start ins) (start_inv ins)).2
  rwa [start_inputs] at this

/-- **Removed sources were stopped at removal**, at every moment. -/
theorem oc_removed_were_stopped (key : α → Nat) (ins : List (SIter α)) (ops : List Op) :
    ∀ x ∈ (after key ins ops).dead, 1 ≤ x.stops :=
  (run_inv_conserved key ops (OC.start ins) (start_inv ins)).1.dead

/-- **`Stop()` releases everything**: after `Stop()`, every source — still pending or removed earlier — has been
stopped at least once, whatever prefix was consumed and whatever else was called before. -/
theorem oc_stop_releases_all (key : α → Nat) (ins : List (SIter α)) (ops : List Op) :
    (∀ x ∈ OC.inputs (OC.stop (after key ins ops)), 1 ≤ x.stops) ∧
    (ids (OC.inputs (OC.stop (after key ins ops)))).Perm (ids ins) := by
  have hr := run_inv_conserved key ops (OC.start ins) (start_inv ins)
  have hs := stop_inv_conserved (after key ins ops) hr.1
  refine ⟨?_, hs.2.1.trans (oc_conserved key ins ops)⟩
  intro x hx
  simp only [OC.inputs, List.mem_append] at hx
  rcases hx with hx | hx
  · exact hs.1.once hs.2.2 x hx
  · exact hs.1.dead x hx

/-- **Negative witness** — why the `iter.Stop()` before `c.pending[pendingIdx] = nil` is load-bearing: `Stop()` of the
combined iterator leaves the removed sources exactly as they are.  A source removed without being stopped is never
stopped. -/
theorem stop_does_not_reach_removed (s : OC α) : (OC.stop s).dead = s.dead := by
  unfold OC.stop
  split <;> rfl

theorem unstopped_removal_leaks (s : OC α) (x : SIter α) (hx : x ∈ s.dead) (h0 : x.stops = 0) :
    ¬ ∀ y ∈ OC.inputs (OC.stop s), 1 ≤ y.stops := by
  intro h
  have : x ∈ OC.inputs (OC.stop s) := by
    simp only [OC.inputs, List.mem_append]
    exact Or.inr (by rw [stop_does_not_reach_removed]; exact hx)
  have := h x this
  omega

/-! ## non-vacuity: the source runs out while duplicates of the last yielded key are skipped -/

/-- two sources over keys; the second one ENDS on a duplicate of the last key of the first -/
def exIns : List (SIter Nat) := [{ id := 0, rem := [.item 1, .item 5] }, { id := 1, rem := [.item 5] }]

example : (after id exIns [.next false, .next false, .next false]).pending.map (·.isSome) = [false, false] ∧
    ((after id exIns [.next false, .next false, .next false]).dead.map (fun x => (x.id, x.stops))) = [(1, 1), (0, 1)] := by decide

example : (OC.inputs (OC.stop (after id exIns [.next false, .next false]))).map (fun x => (x.id, x.stops)) = [(0, 1), (1, 1)] := by
  decide

end OpenFGAVerif.Proofs.IterRelease
