/-
Ties for C23/C09: the statement skeletons of the Go functions that `Model/Iter.lean` and `Model/SharedIter.lean`
mirror, pinned to the text the models were written against.  `Gen.Iter.*` is regenerated from /repo on every run;
a changed guard, comparison, statement order or a dropped statement makes the corresponding `decide` fail.
(Literal lists below: reviewed by hand against the model when they were recorded.)
-/
import OpenFGAVerif.Gen.Iter

namespace OpenFGAVerif.C23.Ties

theorem tie_combinedNext : Gen.Iter.combinedNext = [
  "c.mu.Lock()",
  "if len(c.pending) == 0",
  "{",
  "var val T",
  "c.mu.Unlock()",
  "return val, ErrIteratorDone",
  "}",
  "iter := c.pending[0]",
  "val, err := iter.Next(ctx)",
  "if err != nil",
  "{",
  "if errors.Is(err, ErrIteratorDone)",
  "{",
  "c.pending = c.pending[1:]",
  "iter.Stop()",
  "c.mu.Unlock()",
  "return c.Next(ctx)",
  "}",
  "c.mu.Unlock()",
  "return val, err",
  "}",
  "c.mu.Unlock()",
  "return val, nil"
] := by decide

theorem tie_combinedHead : Gen.Iter.combinedHead = [
  "c.mu.Lock()",
  "if len(c.pending) == 0",
  "{",
  "var val T",
  "c.mu.Unlock()",
  "return val, ErrIteratorDone",
  "}",
  "iter := c.pending[0]",
  "val, err := iter.Head(ctx)",
  "if err != nil",
  "{",
  "if errors.Is(err, ErrIteratorDone)",
  "{",
  "c.pending = c.pending[1:]",
  "iter.Stop()",
  "c.mu.Unlock()",
  "return c.Head(ctx)",
  "}",
  "c.mu.Unlock()",
  "return val, err",
  "}",
  "c.mu.Unlock()",
  "return val, nil"
] := by decide

theorem tie_combinedStop : Gen.Iter.combinedStop = [
  "call c.once.Do(func)",
  "{",
  "c.mu.Lock()",
  "defer c.mu.Unlock()",
  "range _, iter := c.pending",
  "{",
  "iter.Stop()",
  "}",
  "}"
] := by decide

theorem tie_staticNext : Gen.Iter.staticNext = [
  "var val T",
  "if ctx.Err() != nil",
  "{",
  "return val, ctx.Err()",
  "}",
  "s.mu.Lock()",
  "defer s.mu.Unlock()",
  "if len(s.items) == 0",
  "{",
  "return val, ErrIteratorDone",
  "}",
  "next, rest := s.items[0], s.items[1:]",
  "s.items = rest",
  "return next, nil"
] := by decide

theorem tie_staticHead : Gen.Iter.staticHead = [
  "var val T",
  "if ctx.Err() != nil",
  "{",
  "return val, ctx.Err()",
  "}",
  "s.mu.Lock()",
  "defer s.mu.Unlock()",
  "if len(s.items) == 0",
  "{",
  "return val, ErrIteratorDone",
  "}",
  "return s.items[0], nil"
] := by decide

theorem tie_staticStop : Gen.Iter.staticStop = [
  "s.mu.Lock()",
  "defer s.mu.Unlock()",
  "s.items = nil"
] := by decide

theorem tie_boolFilterNext : Gen.Iter.boolFilterNext = [
  "for",
  "{",
  "tuple, err := f.iter.Next(ctx)",
  "if err != nil",
  "{",
  "return nil, err",
  "}",
  "if f.filter(tuple)",
  "{",
  "return tuple, nil",
  "}",
  "}"
] := by decide

theorem tie_boolFilterHead : Gen.Iter.boolFilterHead = [
  "for",
  "{",
  "tuple, err := f.iter.Head(ctx)",
  "if err != nil",
  "{",
  "return nil, err",
  "}",
  "if f.filter(tuple)",
  "{",
  "return tuple, nil",
  "}",
  "_, err = f.iter.Next(ctx)",
  "if err != nil",
  "{",
  "return nil, err",
  "}",
  "}"
] := by decide

theorem tie_condFilterNext : Gen.Iter.condFilterNext = [
  "for",
  "{",
  "tuple, err := f.iter.Next(ctx)",
  "if err != nil",
  "{",
  "if errors.Is(err, ErrIteratorDone)",
  "{",
  "if f.onceValid || f.lastError == nil",
  "{",
  "return nil, ErrIteratorDone",
  "}",
  "lastError := f.lastError",
  "f.lastError = nil",
  "return nil, lastError",
  "}",
  "return nil, err",
  "}",
  "valid, err := f.filter(tuple)",
  "if err != nil",
  "{",
  "f.lastError = err",
  "continue",
  "}",
  "if !valid",
  "{",
  "continue",
  "}",
  "f.onceValid = true",
  "return tuple, nil",
  "}"
] := by decide

theorem tie_condFilterHead : Gen.Iter.condFilterHead = [
  "for",
  "{",
  "tuple, err := f.iter.Head(ctx)",
  "if err != nil",
  "{",
  "if errors.Is(err, ErrIteratorDone)",
  "{",
  "if f.onceValid || f.lastError == nil",
  "{",
  "return nil, ErrIteratorDone",
  "}",
  "return nil, f.lastError",
  "}",
  "return nil, err",
  "}",
  "valid, err := f.filter(tuple)",
  "if err != nil || !valid",
  "{",
  "if err != nil",
  "{",
  "f.lastError = err",
  "}",
  "_, err = f.iter.Next(ctx)",
  "if err != nil",
  "{",
  "return nil, err",
  "}",
  "continue",
  "}",
  "f.onceValid = true",
  "return tuple, nil",
  "}"
] := by decide

theorem tie_ocNext : Gen.Iter.ocNext = [
  "c.mu.Lock()",
  "defer c.mu.Unlock()",
  "idx, err := c.head(ctx)",
  "if err != nil",
  "{",
  "return nil, err",
  "}",
  "c.lastHead = nil",
  "t, err := c.pending[idx].Next(ctx)",
  "if err != nil",
  "{",
  "return nil, err",
  "}",
  "c.lastYielded = t",
  "return t, nil"
] := by decide

theorem tie_ocHead : Gen.Iter.ocHead = [
  "c.mu.Lock()",
  "defer c.mu.Unlock()",
  "if c.lastHead != nil",
  "{",
  "return c.lastHead, nil",
  "}",
  "idx, err := c.head(ctx)",
  "if err != nil",
  "{",
  "return nil, err",
  "}",
  "lastHead, err := c.pending[idx].Head(ctx)",
  "c.lastHead = lastHead",
  "return c.lastHead, err"
] := by decide

theorem tie_ocHeadLoop : Gen.Iter.ocHeadLoop = [
  "c.clearPendingThatAreNil()",
  "var headMin *openfgav1.Tuple",
  "minIdx := -1",
  "label IterateOverPending",
  "range pendingIdx, iter := c.pending",
  "{",
  "head, err := iter.Head(ctx)",
  "if err != nil",
  "{",
  "if errors.Is(err, ErrIteratorDone)",
  "{",
  "iter.Stop()",
  "c.pending[pendingIdx] = nil",
  "continue",
  "}",
  "return -1, err",
  "}",
  "if c.lastYielded != nil",
  "{",
  "if c.mapper(head) < c.mapper(c.lastYielded)",
  "{",
  "return -1, fmt.Errorf(\"iterator %d is not in ascending order\", pendingIdx)",
  "}",
  "for c.mapper(head) == c.mapper(c.lastYielded)",
  "{",
  "_, err = iter.Next(ctx)",
  "if err == nil",
  "{",
  "head, err = iter.Head(ctx)",
  "}",
  "if err != nil",
  "{",
  "if errors.Is(err, ErrIteratorDone)",
  "{",
  "iter.Stop()",
  "c.pending[pendingIdx] = nil",
  "continue IterateOverPending",
  "}",
  "return -1, err",
  "}",
  "}",
  "}",
  "if headMin == nil || c.mapper(headMin) > c.mapper(head)",
  "{",
  "headMin = head",
  "minIdx = pendingIdx",
  "}",
  "}",
  "if minIdx == -1",
  "{",
  "return minIdx, ErrIteratorDone",
  "}",
  "return minIdx, nil"
] := by decide

theorem tie_ocStop : Gen.Iter.ocStop = [
  "call c.once.Do(func)",
  "{",
  "c.mu.Lock()",
  "defer c.mu.Unlock()",
  "c.clearPendingThatAreNil()",
  "range _, iter := c.pending",
  "{",
  "iter.Stop()",
  "}",
  "}"
] := by decide

theorem tie_isDoneOrCancelled : Gen.Iter.isDoneOrCancelled = [
  "return errors.Is(err, ErrIteratorDone) || errors.Is(err, context.Canceled) || errors.Is(err, context.DeadlineExceeded)"
] := by decide

theorem tie_concatNext : Gen.Iter.concatNext = [
  "var zero T",
  "c.mu.Lock()",
  "defer c.mu.Unlock()",
  "if c.done",
  "{",
  "return zero, storage.ErrIteratorDone",
  "}",
  "item, err := c.current.Next(ctx)",
  "if errors.Is(err, storage.ErrIteratorDone)",
  "{",
  "if c.next == nil",
  "{",
  "c.done = true",
  "return zero, storage.ErrIteratorDone",
  "}",
  "c.current.Stop()",
  "c.current = c.next",
  "c.next = nil",
  "return c.current.Next(ctx)",
  "}",
  "if err != nil",
  "{",
  "c.done = true",
  "return zero, err",
  "}",
  "return item, nil"
] := by decide

theorem tie_concatStop : Gen.Iter.concatStop = [
  "call c.once.Do(func)",
  "{",
  "c.mu.Lock()",
  "defer c.mu.Unlock()",
  "c.done = true",
  "if c.current != nil",
  "{",
  "c.current.Stop()",
  "}",
  "if c.next != nil",
  "{",
  "c.next.Stop()",
  "}",
  "}"
] := by decide

theorem tie_concatHead : Gen.Iter.concatHead = [
  "var zero T",
  "return zero, fmt.Errorf(\"head() not supported on concat iterator\")"
] := by decide

theorem tie_mergeInitialize : Gen.Iter.mergeInitialize = [
  "if m.initialized",
  "{",
  "return nil",
  "}",
  "m.initialized = true",
  "current, err := m.iter1.Next(ctx)",
  "if err != nil && !errors.Is(err, storage.ErrIteratorDone)",
  "{",
  "return err",
  "}",
  "m.hasNext1 = !errors.Is(err, storage.ErrIteratorDone)",
  "m.current1 = current",
  "current2, err2 := m.iter2.Next(ctx)",
  "if err2 != nil && !errors.Is(err2, storage.ErrIteratorDone)",
  "{",
  "return err2",
  "}",
  "m.hasNext2 = !errors.Is(err2, storage.ErrIteratorDone)",
  "m.current2 = current2",
  "return nil"
] := by decide

theorem tie_mergeNext : Gen.Iter.mergeNext = [
  "var zero T",
  "if err := m.initialize(ctx); err != nil",
  "{",
  "return zero, err",
  "}",
  "if !m.hasNext1 && !m.hasNext2",
  "{",
  "return zero, storage.ErrIteratorDone",
  "}",
  "if !m.hasNext1",
  "{",
  "return m.returnFromIter2(ctx)",
  "}",
  "if !m.hasNext2",
  "{",
  "return m.returnFromIter1(ctx)",
  "}",
  "cmp := m.compareFn(m.current1, m.current2)",
  "if cmp < 0",
  "{",
  "return m.returnFromIter1(ctx)",
  "}",
  "else",
  "if cmp > 0",
  "{",
  "return m.returnFromIter2(ctx)",
  "}",
  "else",
  "{",
  "val := m.current1",
  "next1, err1 := m.iter1.Next(ctx)",
  "if errors.Is(err1, storage.ErrIteratorDone)",
  "{",
  "m.hasNext1 = false",
  "}",
  "else",
  "if err1 != nil",
  "{",
  "return val, err1",
  "}",
  "else",
  "{",
  "m.current1 = next1",
  "}",
  "next2, err2 := m.iter2.Next(ctx)",
  "if errors.Is(err2, storage.ErrIteratorDone)",
  "{",
  "m.hasNext2 = false",
  "}",
  "else",
  "if err2 != nil",
  "{",
  "return val, err2",
  "}",
  "else",
  "{",
  "m.current2 = next2",
  "}",
  "return val, nil",
  "}"
] := by decide

theorem tie_mergeReturn1 : Gen.Iter.mergeReturn1 = [
  "val := m.current1",
  "next, err := m.iter1.Next(ctx)",
  "if errors.Is(err, storage.ErrIteratorDone)",
  "{",
  "m.hasNext1 = false",
  "return val, nil",
  "}",
  "if err != nil",
  "{",
  "return val, err",
  "}",
  "m.current1 = next",
  "return val, nil"
] := by decide

theorem tie_mergeReturn2 : Gen.Iter.mergeReturn2 = [
  "val := m.current2",
  "next, err := m.iter2.Next(ctx)",
  "if errors.Is(err, storage.ErrIteratorDone)",
  "{",
  "m.hasNext2 = false",
  "return val, nil",
  "}",
  "if err != nil",
  "{",
  "return val, err",
  "}",
  "m.current2 = next",
  "return val, nil"
] := by decide

theorem tie_mergeStop : Gen.Iter.mergeStop = [
  "m.iter1.Stop()",
  "m.iter2.Stop()"
] := by decide

theorem tie_filterNext : Gen.Iter.filterNext = [
  "f.mu.Lock()",
  "defer f.mu.Unlock()",
  "var null T",
  "for",
  "{",
  "entry, err := f.iter.Next(ctx)",
  "if err != nil",
  "{",
  "if errors.Is(err, storage.ErrIteratorDone)",
  "{",
  "if f.onceValid || f.lastErr == nil",
  "{",
  "return null, storage.ErrIteratorDone",
  "}",
  "lastErr := f.lastErr",
  "f.lastErr = nil",
  "return null, lastErr",
  "}",
  "return null, err",
  "}",
  "valid, err := f.applyFilters(entry)",
  "if err != nil",
  "{",
  "f.lastErr = err",
  "continue",
  "}",
  "if !valid",
  "{",
  "continue",
  "}",
  "f.onceValid = true",
  "return entry, nil",
  "}"
] := by decide

theorem tie_filterApply : Gen.Iter.filterApply = [
  "range _, filter := f.filters",
  "{",
  "passes, err := filter(entry)",
  "if err != nil",
  "{",
  "return false, err",
  "}",
  "if !passes",
  "{",
  "return false, nil",
  "}",
  "}",
  "return true, nil"
] := by decide

theorem tie_filterHead : Gen.Iter.filterHead = [
  "var zero T",
  "return zero, ErrHeadNotSupportedFilterIterator"
] := by decide

theorem tie_validateNext : Gen.Iter.validateNext = [
  "for",
  "{",
  "t, err := v.base.Next(ctx)",
  "if err != nil",
  "{",
  "if errors.Is(err, storage.ErrIteratorDone)",
  "{",
  "return t, storage.ErrIteratorDone",
  "}",
  "var zero T",
  "return zero, err",
  "}",
  "if v.validator == nil",
  "{",
  "return t, nil",
  "}",
  "ok, err := v.validator(t)",
  "if err != nil",
  "{",
  "var zero T",
  "return zero, err",
  "}",
  "if !ok",
  "{",
  "continue",
  "}",
  "return t, nil",
  "}"
] := by decide

theorem tie_validateHead : Gen.Iter.validateHead = [
  "for",
  "{",
  "t, err := v.base.Head(ctx)",
  "if err != nil",
  "{",
  "if errors.Is(err, storage.ErrIteratorDone)",
  "{",
  "return t, storage.ErrIteratorDone",
  "}",
  "var zero T",
  "return zero, err",
  "}",
  "if v.validator == nil",
  "{",
  "return t, nil",
  "}",
  "ok, err := v.validator(t)",
  "if err != nil || !ok",
  "{",
  "if err != nil",
  "{",
  "var zero T",
  "return zero, err",
  "}",
  "_, err := v.base.Next(ctx)",
  "if err != nil",
  "{",
  "var zero T",
  "return zero, err",
  "}",
  "continue",
  "}",
  "return t, nil",
  "}"
] := by decide

theorem tie_skipTo : Gen.Iter.skipTo = [
  "for",
  "{",
  "t, err := iter.Head(ctx)",
  "if err != nil",
  "{",
  "if storage.IterIsDoneOrCancelled(err)",
  "{",
  "return nil",
  "}",
  "return err",
  "}",
  "if t >= target",
  "{",
  "return nil",
  "}",
  "_, err = iter.Next(ctx)",
  "if err != nil",
  "{",
  "if storage.IterIsDoneOrCancelled(err)",
  "{",
  "return nil",
  "}",
  "return err",
  "}",
  "}"
] := by decide

theorem tie_sharedClone : Gen.Iter.sharedClone = [
  "s.mu.RLock()",
  "if s.stopped",
  "{",
  "s.mu.RUnlock()",
  "return nil",
  "}",
  "s.refs.Add(1)",
  "s.mu.RUnlock()",
  "sharedIteratorCloneCount.Inc()",
  "return &sharedIterator{ await: s.await, ir: s.ir, state: s.state, refs: s.refs, }"
] := by decide

theorem tie_sharedFetchMore : Gen.Iter.sharedFetchMore = [
  "if s.state.Load().err != nil",
  "{",
  "return",
  "}",
  "var buf [bufferSize]*openfgav1.Tuple",
  "read, e := s.ir.Read(context.Background(), buf[:])",
  "state := s.state.Load()",
  "newState := &iteratorState{ items: make([]*openfgav1.Tuple, len(state.items)+read), err: state.err, }",
  "copy(newState.items, state.items)",
  "copy(newState.items[len(state.items):], buf[:read])",
  "if e != nil",
  "{",
  "newState.err = e",
  "}",
  "s.state.Store(newState)"
] := by decide

theorem tie_sharedFetchAndWait : Gen.Iter.sharedFetchAndWait = [
  "for",
  "{",
  "state := s.state.Load()",
  "if s.head < len(state.items) || state.err != nil",
  "{",
  "*items = state.items",
  "*err = state.err",
  "return",
  "}",
  "s.await.Do(s.fetchMore)",
  "}"
] := by decide

theorem tie_sharedCurrent : Gen.Iter.sharedCurrent = [
  "if ctx.Err() != nil",
  "{",
  "return nil, ctx.Err()",
  "}",
  "if s.stopped",
  "{",
  "return nil, storage.ErrIteratorDone",
  "}",
  "var items []*openfgav1.Tuple",
  "var err error",
  "s.fetchAndWait(&items, &err)",
  "if ctx.Err() != nil",
  "{",
  "return nil, ctx.Err()",
  "}",
  "if s.head >= len(items)",
  "{",
  "if err != nil",
  "{",
  "return nil, err",
  "}",
  "return nil, storage.ErrIteratorDone",
  "}",
  "return items[s.head], nil"
] := by decide

theorem tie_sharedNext : Gen.Iter.sharedNext = [
  "s.mu.Lock()",
  "defer s.mu.Unlock()",
  "result, err := s.currentLocked(ctx)",
  "if err != nil",
  "{",
  "return nil, err",
  "}",
  "s.head++",
  "return result, nil"
] := by decide

theorem tie_sharedHead : Gen.Iter.sharedHead = [
  "s.mu.Lock()",
  "defer s.mu.Unlock()",
  "return s.currentLocked(ctx)"
] := by decide

theorem tie_sharedStop : Gen.Iter.sharedStop = [
  "s.mu.Lock()",
  "defer s.mu.Unlock()",
  "if !s.stopped",
  "{",
  "s.stopped = true",
  "if s.refs.Add(-1) == 0",
  "{",
  "s.ir.Stop()",
  "}",
  "sharedIteratorCloneCount.Dec()",
  "}"
] := by decide

theorem tie_sharedRead : Gen.Iter.sharedRead = [
  "range i := buf",
  "{",
  "t, err := ir.Next(ctx)",
  "if err != nil",
  "{",
  "return i, err",
  "}",
  "buf[i] = t",
  "}",
  "return len(buf), nil"
] := by decide

theorem tie_awaitDo : Gen.Iter.awaitDo = [
  "a.mu.Lock()",
  "if a.active",
  "{",
  "wg := a.wg",
  "a.mu.Unlock()",
  "wg.Wait()",
  "return",
  "}",
  "a.active = true",
  "a.wg = new(sync.WaitGroup)",
  "a.wg.Add(1)",
  "a.mu.Unlock()",
  "fn()",
  "a.wg.Done()",
  "a.mu.Lock()",
  "a.active = false",
  "a.mu.Unlock()"
] := by decide

theorem tie_sharedUnwrap : Gen.Iter.sharedUnwrap = [
  "var created bool",
  "call s.once.Do(func)",
  "{",
  "s.iter, s.err = s.producer()",
  "if s.err != nil",
  "{",
  "return",
  "}",
  "admissionTimer := call(func)",
  "{",
  "s.iter.Stop()",
  "s.cleanup()",
  "}",
  "s.idleTimer = call(func)",
  "{",
  "if admissionTimer.Stop()",
  "{",
  "s.iter.Stop()",
  "s.cleanup()",
  "}",
  "}",
  "created = true",
  "}",
  "if s.err != nil",
  "{",
  "return nil, false, s.err",
  "}",
  "clone := s.iter.clone()",
  "s.idleTimer.Reset(s.idleDuration)",
  "return clone, created, s.err"
] := by decide

theorem tie_bufferSize : Gen.Iter.sharedBufferSize = 100 ∧ 0 < Gen.Iter.sharedBufferSize := by decide

end OpenFGAVerif.C23.Ties
