/-
Codec theorems for the key builder (C24): uvarint and little-endian round trips, the decoder
`dec` inverts `enc` on every value followed by arbitrary bytes (prefix-freeness), hence `enc`,
sequences of fields and field layouts are injective.
-/
import OpenFGAVerif.Model.Keys

namespace OpenFGAVerif.Proofs.KeysCodec
open OpenFGAVerif.Model.Keys

/-! ## tags -/

/-- What the decoder needs from the tag bytes: each value tag is found at its own position of the
tag list, i.e. the value tags are pairwise different.  Decidable for concrete tags. -/
structure TagsOK (T : Tags) : Prop where
  null : kindIdx T T.null = 0
  byte : kindIdx T T.byte = 1
  bool : kindIdx T T.bool = 2
  uint64 : kindIdx T T.uint64 = 3
  string : kindIdx T T.string = 4
  bytes : kindIdx T T.bytes = 5
  array : kindIdx T T.array = 6
  map : kindIdx T T.map = 7
  pair : kindIdx T T.pair = 8
  unset : kindIdx T T.unset = 11

instance (T : Tags) : Decidable (TagsOK T) :=
  if h : kindIdx T T.null = 0 ∧ kindIdx T T.byte = 1 ∧ kindIdx T T.bool = 2 ∧ kindIdx T T.uint64 = 3 ∧
      kindIdx T T.string = 4 ∧ kindIdx T T.bytes = 5 ∧ kindIdx T T.array = 6 ∧ kindIdx T T.map = 7 ∧
      kindIdx T T.pair = 8 ∧ kindIdx T T.unset = 11 then
    isTrue ⟨h.1, h.2.1, h.2.2.1, h.2.2.2.1, h.2.2.2.2.1, h.2.2.2.2.2.1, h.2.2.2.2.2.2.1, h.2.2.2.2.2.2.2.1,
      h.2.2.2.2.2.2.2.2.1, h.2.2.2.2.2.2.2.2.2⟩
  else isFalse (fun k => h ⟨k.null, k.byte, k.bool, k.uint64, k.string, k.bytes, k.array, k.map, k.pair, k.unset⟩)

/-! ## uvarint -/

theorem toNat_ofNat_lt (n : Nat) (h : n < 256) : (UInt8.ofNat n).toNat = n := by
  simp [Nat.mod_eq_of_lt h]

theorem decUvarint_uvarintF (f : Nat) : ∀ (n : Nat) (rest : Bytes), n ≤ f →
    decUvarint (uvarintF f n ++ rest) = some (n, rest) := by
  induction f with
  | zero =>
    intro n rest h
    have : n = 0 := by omega
    subst this
    simp [uvarintF, decUvarint]
  | succ f ih =>
    intro n rest h
    unfold uvarintF
    split
    · rename_i hlt
      have e := toNat_ofNat_lt n (by omega)
      simp [decUvarint, e, hlt]
    · rename_i hge
      have e := toNat_ofNat_lt (n % 128 + 128) (by omega)
      have hr := ih (n / 128) rest (by omega)
      simp only [List.cons_append, decUvarint, e, hr]
      have : ¬ (n % 128 + 128 < 128) := by omega
      simp only [this, if_false]
      congr 2
      omega

/-- `decUvarint ∘ AppendUvarint = id`, with any bytes following (prefix-free). -/
theorem decUvarint_uvarint (n : Nat) (rest : Bytes) : decUvarint (uvarint n ++ rest) = some (n, rest) :=
  decUvarint_uvarintF n n rest (Nat.le_refl n)

theorem uvarintF_ne_nil (f n : Nat) : uvarintF f n ≠ [] := by
  cases f with
  | zero => simp [uvarintF]
  | succ f => unfold uvarintF; split <;> simp

theorem uvarint_ne_nil (n : Nat) : uvarint n ≠ [] := uvarintF_ne_nil n n

/-- no uvarint code is a proper prefix of another -/
theorem uvarint_prefix_free (a b : Nat) (r1 r2 : Bytes) (h : uvarint a ++ r1 = uvarint b ++ r2) :
    a = b ∧ r1 = r2 := by
  have h1 := decUvarint_uvarint a r1
  rw [h, decUvarint_uvarint b r2] at h1
  simp at h1
  exact ⟨h1.1.symm, h1.2.symm⟩

/-! ## little endian -/

theorem bytesLE_length (k m : Nat) : (bytesLE k m).length = k := by
  induction k generalizing m with
  | zero => rfl
  | succ k ih => simp [bytesLE, ih]

theorem fromLE_bytesLE (k : Nat) : ∀ m : Nat, fromLE (bytesLE k m) = m % 256 ^ k := by
  induction k with
  | zero => intro m; simp [bytesLE, fromLE, Nat.mod_one]
  | succ k ih =>
    intro m
    have e := toNat_ofNat_lt (m % 256) (Nat.mod_lt _ (by decide))
    simp only [bytesLE, fromLE, e, ih]
    rw [Nat.pow_succ, Nat.mul_comm (256 ^ k) 256, Nat.mod_mul]

theorem le64_length (n : UInt64) : (le64 n).length = 8 := bytesLE_length 8 _

theorem fromLE_le64 (n : UInt64) : UInt64.ofNat (fromLE (le64 n)) = n := by
  unfold le64
  rw [fromLE_bytesLE]
  have h : n.toNat < 256 ^ 8 := by
    have := n.toNat_lt
    simpa using this
  rw [Nat.mod_eq_of_lt h]
  simp

theorem takeN_append (p rest : Bytes) : takeN p.length (p ++ rest) = some (p, rest) := by
  simp [takeN]

theorem takeN_le64 (n : UInt64) (rest : Bytes) : takeN 8 (le64 n ++ rest) = some (le64 n, rest) := by
  have := takeN_append (le64 n) rest
  rwa [le64_length] at this

/-! ## lists of values with a per-element decoder -/

theorem decListWith_encList (T : Tags) (d : Bytes → Option (Val × Bytes)) :
    ∀ (xs : List Val) (rest : Bytes), (∀ x ∈ xs, ∀ r, d (enc T x ++ r) = some (x, r)) →
      decListWith d xs.length (encList T xs ++ rest) = some (xs, rest) := by
  intro xs
  induction xs with
  | nil => intro rest _; simp [decListWith, encList]
  | cons x xs ih =>
    intro rest hd
    have hx := hd x (by simp) (encList T xs ++ rest)
    have hxs := ih rest (fun y hy r => hd y (by simp [hy]) r)
    simp only [List.length_cons, decListWith, encList, List.append_assoc, hx, hxs]

theorem decEntriesWith_encEntries (T : Tags) (d : Bytes → Option (Val × Bytes)) :
    ∀ (es : List (Val × Val)) (rest : Bytes),
      (∀ e ∈ es, (∀ r, d (enc T e.1 ++ r) = some (e.1, r)) ∧ (∀ r, d (enc T e.2 ++ r) = some (e.2, r))) →
      decEntriesWith d es.length (encEntries T es ++ rest) = some (es, rest) := by
  intro es
  induction es with
  | nil => intro rest _; simp [decEntriesWith, encEntries]
  | cons e es ih =>
    intro rest hd
    obtain ⟨k, v⟩ := e
    have hk := (hd (k, v) (by simp)).1 (enc T v ++ (encEntries T es ++ rest))
    have hv := (hd (k, v) (by simp)).2 (encEntries T es ++ rest)
    have hes := ih rest (fun y hy => hd y (by simp [hy]))
    simp only [List.length_cons, decEntriesWith, encEntries, List.append_assoc, hk, hv, hes]

/-! ## the decoder inverts the encoder -/

theorem depth_pos (v : Val) : 1 ≤ depth v := by
  cases v <;> simp [depth]

mutual
/-- **Main codec theorem.** For every value `v`, every continuation `rest` and enough fuel,
`dec (enc v ++ rest) = (v, rest)`. -/
theorem dec_enc (T : Tags) (hT : TagsOK T) : ∀ (v : Val) (f : Nat) (rest : Bytes), depth v ≤ f →
    dec T f (enc T v ++ rest) = some (v, rest)
  | .null, f, rest, h => by
    cases f with
    | zero => simp [depth] at h
    | succ f => simp [enc, dec, hT.null]
  | .unset, f, rest, h => by
    cases f with
    | zero => simp [depth] at h
    | succ f => simp [enc, dec, hT.unset]
  | .byte b, f, rest, h => by
    cases f with
    | zero => simp [depth] at h
    | succ f => simp [enc, dec, hT.byte]
  | .bool b, f, rest, h => by
    cases f with
    | zero => simp [depth] at h
    | succ f => cases b <;> simp [enc, encBool, dec, hT.bool]
  | .u64 n, f, rest, h => by
    cases f with
    | zero => simp [depth] at h
    | succ f => simp [enc, encU64, dec, hT.uint64, takeN_le64, fromLE_le64]
  | .str s, f, rest, h => by
    cases f with
    | zero => simp [depth] at h
    | succ f =>
      simp [enc, encStr, dec, hT.string, List.append_assoc, decUvarint_uvarint, takeN_append]
  | .bytes s, f, rest, h => by
    cases f with
    | zero => simp [depth] at h
    | succ f =>
      simp [enc, encBytes, dec, hT.bytes, List.append_assoc, decUvarint_uvarint, takeN_append]
  | .arr xs, f, rest, h => by
    cases f with
    | zero => simp [depth] at h
    | succ f =>
      have hl : depthList xs ≤ f := by simp [depth] at h; omega
      have hd := dec_enc_list T hT xs f hl
      have := decListWith_encList T (dec T f) xs rest hd
      simp [enc, arrHdr, dec, hT.array, List.append_assoc, decUvarint_uvarint, this]
  | .map es, f, rest, h => by
    cases f with
    | zero => simp [depth] at h
    | succ f =>
      have hl : depthEntries es ≤ f := by simp [depth] at h; omega
      have hd := dec_enc_entries T hT es f hl
      have := decEntriesWith_encEntries T (dec T f) es rest hd
      simp [enc, mapHdr, dec, hT.map, List.append_assoc, decUvarint_uvarint, this]
  | .pair k v, f, rest, h => by
    cases f with
    | zero => simp [depth] at h
    | succ f =>
      have hk : depth k ≤ f := by simp [depth] at h; omega
      have hv : depth v ≤ f := by simp [depth] at h; omega
      have e1 := dec_enc T hT k f (T.value :: (enc T v ++ rest)) hk
      have e2 := dec_enc T hT v f rest hv
      simp [enc, dec, hT.pair, List.append_assoc, e1, e2]
theorem dec_enc_list (T : Tags) (hT : TagsOK T) : ∀ (xs : List Val) (f : Nat), depthList xs ≤ f →
    ∀ x ∈ xs, ∀ r, dec T f (enc T x ++ r) = some (x, r)
  | [], _, _ => by simp
  | y :: ys, f, h => by
    intro x hx r
    simp [depthList] at h
    rcases List.mem_cons.mp hx with hxy | hx
    · rw [hxy]; exact dec_enc T hT y f r (by omega)
    · exact dec_enc_list T hT ys f (by omega) x hx r
theorem dec_enc_entries (T : Tags) (hT : TagsOK T) : ∀ (es : List (Val × Val)) (f : Nat), depthEntries es ≤ f →
    ∀ e ∈ es, (∀ r, dec T f (enc T e.1 ++ r) = some (e.1, r)) ∧ (∀ r, dec T f (enc T e.2 ++ r) = some (e.2, r))
  | [], _, _ => by simp
  | (k, v) :: es, f, h => by
    intro e he
    simp [depthEntries] at h
    rcases List.mem_cons.mp he with hkv | he
    · rw [hkv]; exact ⟨fun r => dec_enc T hT k f r (by omega), fun r => dec_enc T hT v f r (by omega)⟩
    · exact dec_enc_entries T hT es f (by omega) e he
end

/-- **Prefix-freeness**: if two encodings followed by anything coincide, the values and the
continuations coincide. -/
theorem encode_prefix_free (T : Tags) (hT : TagsOK T) (v w : Val) (r1 r2 : Bytes)
    (h : enc T v ++ r1 = enc T w ++ r2) : v = w ∧ r1 = r2 := by
  have h1 := dec_enc T hT v (max (depth v) (depth w)) r1 (Nat.le_max_left _ _)
  have h2 := dec_enc T hT w (max (depth v) (depth w)) r2 (Nat.le_max_right _ _)
  rw [h, h2] at h1
  simp at h1
  exact ⟨h1.1.symm, h1.2.symm⟩

/-- `enc` is injective. -/
theorem enc_injective (T : Tags) (hT : TagsOK T) (v w : Val) (h : enc T v = enc T w) : v = w := by
  have := encode_prefix_free T hT v w [] [] (by simpa using h)
  exact this.1

mutual
theorem enc_ne_nil (T : Tags) : ∀ v : Val, enc T v ≠ []
  | .null => by simp [enc]
  | .unset => by simp [enc]
  | .byte _ => by simp [enc]
  | .bool _ => by simp [enc, encBool]
  | .u64 _ => by simp [enc, encU64]
  | .str _ => by simp [enc, encStr]
  | .bytes _ => by simp [enc, encBytes]
  | .arr _ => by simp [enc, arrHdr]
  | .map _ => by simp [enc, mapHdr]
  | .pair _ _ => by simp [enc]
end

mutual
theorem depth_le_enc (T : Tags) : ∀ v : Val, depth v ≤ (enc T v).length
  | .null => by simp [depth, enc]
  | .unset => by simp [depth, enc]
  | .byte _ => by simp [depth, enc]
  | .bool _ => by simp [depth, enc, encBool]
  | .u64 _ => by simp [depth, enc, encU64]
  | .str _ => by simp [depth, enc, encStr]
  | .bytes _ => by simp [depth, enc, encBytes]
  | .arr xs => by
    have := depthList_le T xs
    simp [depth, enc, arrHdr]; omega
  | .map es => by
    have := depthEntries_le T es
    simp [depth, enc, mapHdr]; omega
  | .pair k v => by
    have := depth_le_enc T k
    have := depth_le_enc T v
    simp [depth, enc]; omega
theorem depthList_le (T : Tags) : ∀ xs : List Val, depthList xs ≤ (encList T xs).length
  | [] => by simp [depthList]
  | x :: xs => by
    have := depth_le_enc T x
    have := depthList_le T xs
    simp [depthList, encList]; omega
theorem depthEntries_le (T : Tags) : ∀ es : List (Val × Val), depthEntries es ≤ (encEntries T es).length
  | [] => by simp [depthEntries]
  | (k, v) :: es => by
    have := depth_le_enc T k
    have := depth_le_enc T v
    have := depthEntries_le T es
    simp [depthEntries, encEntries]; omega
end

/-- **decode ∘ encode = id** with the fuel-free decoder, any bytes following. -/
theorem decode_encode (T : Tags) (hT : TagsOK T) (v : Val) (rest : Bytes) :
    decode T (enc T v ++ rest) = some (v, rest) := by
  unfold decode
  apply dec_enc T hT
  have := depth_le_enc T v
  simp; omega

/-! ## sequences of fields -/

/-- A key is a concatenation of fields; concatenations are uniquely decodable. -/
theorem encList_injective (T : Tags) (hT : TagsOK T) : ∀ (xs ys : List Val), encList T xs = encList T ys → xs = ys := by
  intro xs
  induction xs with
  | nil =>
    intro ys h
    cases ys with
    | nil => rfl
    | cons y ys =>
      exfalso
      have := enc_ne_nil T y
      simp [encList] at h
      exact this h.1
  | cons x xs ih =>
    intro ys h
    cases ys with
    | nil =>
      exfalso
      have := enc_ne_nil T x
      simp [encList] at h
      exact this h.1
    | cons y ys =>
      simp only [encList] at h
      obtain ⟨rfl, h'⟩ := encode_prefix_free T hT x y _ _ h
      rw [ih ys h']

/-- a sequence of fields followed by anything: the first field is determined -/
theorem encList_append_prefix (T : Tags) (hT : TagsOK T) (x y : Val) (xs ys : List Val) (r1 r2 : Bytes)
    (h : encList T (x :: xs) ++ r1 = encList T (y :: ys) ++ r2) :
    x = y ∧ encList T xs ++ r1 = encList T ys ++ r2 := by
  simp only [encList, List.append_assoc] at h
  exact encode_prefix_free T hT x y _ _ h

theorem decodeAllF_encList (T : Tags) (hT : TagsOK T) : ∀ (xs : List Val) (f : Nat), (encList T xs).length ≤ f →
    decodeAllF T f (encList T xs) = some xs := by
  intro xs
  induction xs with
  | nil => intro f _; cases f <;> simp [encList, decodeAllF]
  | cons x xs ih =>
    intro f hf
    have hne := enc_ne_nil T x
    have hde := decode_encode T hT x (encList T xs)
    cases hx : enc T x with
    | nil => exact absurd hx hne
    | cons b bs =>
      cases f with
      | zero => simp [encList, hx] at hf
      | succ f =>
        have hlen : (encList T xs).length ≤ f := by simp [encList, hx] at hf; omega
        have := ih f hlen
        simp only [encList, hx, List.cons_append, decodeAllF]
        rw [hx] at hde
        simp only [List.cons_append] at hde
        rw [hde]
        simp [this]

/-- **Keys are uniquely decodable**: decoding the bytes of a field sequence gives the fields back. -/
theorem decodeAll_encList (T : Tags) (hT : TagsOK T) (xs : List Val) : decodeAll T (encList T xs) = some xs :=
  decodeAllF_encList T hT xs _ (Nat.le_refl _)

/-! ## layouts -/

/-- Two keys built by (possibly different) layouts from (possibly different) arguments are equal
only if they consist of the same fields. -/
theorem encLayout_eq (T : Tags) (hT : TagsOK T) (e1 e2 : Env) (L1 L2 : List Field)
    (h : encLayout T e1 L1 = encLayout T e2 L2) : L1.map (Field.val e1) = L2.map (Field.val e2) :=
  encList_injective T hT _ _ h

/-- **Every argument that appears in a layout is recoverable from the key**: same layout, equal
keys ⇒ equal string arguments. -/
theorem encLayout_injective_str (T : Tags) (hT : TagsOK T) (e1 e2 : Env) (L : List Field)
    (h : encLayout T e1 L = encLayout T e2 L) (a : String) (ha : Field.str a ∈ L) : e1.str a = e2.str a := by
  have hm := encLayout_eq T hT e1 e2 L L h
  have : Field.val e1 (.str a) = Field.val e2 (.str a) := List.map_inj_left.mp hm _ ha
  simpa [Field.val] using this

theorem encLayout_injective_u64 (T : Tags) (hT : TagsOK T) (e1 e2 : Env) (L : List Field)
    (h : encLayout T e1 L = encLayout T e2 L) (a : String) (ha : Field.u64 a ∈ L) : e1.u64 a = e2.u64 a := by
  have hm := encLayout_eq T hT e1 e2 L L h
  have : Field.val e1 (.u64 a) = Field.val e2 (.u64 a) := List.map_inj_left.mp hm _ ha
  simpa [Field.val] using this

/-- conversely the key depends on nothing but the arguments the layout mentions -/
theorem encLayout_congr (T : Tags) (e1 e2 : Env) (L : List Field)
    (hs : ∀ a, Field.str a ∈ L → e1.str a = e2.str a) (hu : ∀ a, Field.u64 a ∈ L → e1.u64 a = e2.u64 a) :
    encLayout T e1 L = encLayout T e2 L := by
  unfold encLayout
  congr 1
  apply List.map_congr_left
  intro f hf
  cases f with
  | lit b => rfl
  | str a => simp [Field.val, hs a hf]
  | u64 a => simp [Field.val, hu a hf]

/-- can two layouts ever produce the same key?  (same length, position-wise compatible kinds, equal
literals).  `false` ⇒ the key spaces are disjoint. -/
def compatible : List Field → List Field → Bool
  | [], [] => true
  | f :: fs, g :: gs =>
    (match f, g with
      | .lit a, .lit b => a == b
      | .u64 _, .u64 _ => true
      | .u64 _, _ => false
      | _, .u64 _ => false
      | _, _ => true) && compatible fs gs
  | _, _ => false

theorem compatible_of_eq (e1 e2 : Env) : ∀ (L1 L2 : List Field),
    L1.map (Field.val e1) = L2.map (Field.val e2) → compatible L1 L2 = true := by
  intro L1
  induction L1 with
  | nil => intro L2 h; cases L2 <;> simp_all [compatible]
  | cons f fs ih =>
    intro L2 h
    cases L2 with
    | nil => simp at h
    | cons g gs =>
      simp only [List.map_cons, List.cons.injEq] at h
      have := ih gs h.2
      cases f <;> cases g <;> simp_all [compatible, Field.val]

/-- **Disjoint key spaces**: incompatible layouts never yield the same key, whatever the arguments. -/
theorem layouts_disjoint (T : Tags) (hT : TagsOK T) (e1 e2 : Env) (L1 L2 : List Field)
    (hc : compatible L1 L2 = false) : encLayout T e1 L1 ≠ encLayout T e2 L2 := by
  intro h
  have := compatible_of_eq e1 e2 L1 L2 (encLayout_eq T hT e1 e2 L1 L2 h)
  rw [hc] at this
  exact Bool.false_ne_true this

end OpenFGAVerif.Proofs.KeysCodec
