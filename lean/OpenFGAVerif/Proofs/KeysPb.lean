/-
`PbValue.WriteTo` (C24): the explicit-stack traversal equals the recursive encoding, struct
fields may be permuted without changing the bytes, and different normal forms give different bytes.
-/
import OpenFGAVerif.Proofs.KeysCodec
import OpenFGAVerif.Proofs.KeysSort

namespace OpenFGAVerif.Proofs.KeysPb
open OpenFGAVerif.Model.Keys OpenFGAVerif.Proofs.KeysCodec OpenFGAVerif.Proofs.KeysSort

/-! ## the mutually defined list functions are maps -/

theorem pbNormList_eq_map : ∀ vs : List PbV, pbNormList vs = vs.map pbNorm
  | [] => by simp [pbNormList]
  | v :: vs => by simp [pbNormList, pbNormList_eq_map vs]

theorem pbNormFields_eq_map : ∀ fs : List (Bytes × PbV), pbNormFields fs = fs.map (fun p => (p.1, pbNorm p.2))
  | [] => by simp [pbNormFields]
  | (k, v) :: fs => by simp [pbNormFields, pbNormFields_eq_map fs]

theorem pbRawList_eq_map : ∀ vs : List PbV, pbRawList vs = vs.map pbRaw
  | [] => by simp [pbRawList]
  | v :: vs => by simp [pbRawList, pbRawList_eq_map vs]

theorem pbRawFields_eq_map : ∀ fs : List (Bytes × PbV), pbRawFields fs = fs.map (fun p => (Val.str p.1, pbRaw p.2))
  | [] => by simp [pbRawFields]
  | (k, v) :: fs => by simp [pbRawFields, pbRawFields_eq_map fs]

theorem encList_eq_flatten (T : Tags) : ∀ xs : List Val, encList T xs = (xs.map (enc T)).flatten
  | [] => by simp [encList]
  | x :: xs => by simp [encList, encList_eq_flatten T xs]

theorem encEntries_eq_flatten (T : Tags) : ∀ es : List (Val × Val),
    encEntries T es = (es.map (fun e => enc T e.1 ++ enc T e.2)).flatten
  | [] => by simp [encEntries]
  | (k, v) :: es => by simp [encEntries, encEntries_eq_flatten T es]

theorem pbSizeList_eq : ∀ vs : List PbV, pbSizeList vs = (vs.map pbSize).sum
  | [] => by simp [pbSizeList]
  | v :: vs => by simp [pbSizeList, pbSizeList_eq vs]

theorem pbSizeFields_eq : ∀ fs : List (Bytes × PbV), pbSizeFields fs = (fs.map (fun p => pbSize p.2)).sum
  | [] => by simp [pbSizeFields]
  | (k, v) :: fs => by simp [pbSizeFields, pbSizeFields_eq fs]

theorem pbWFList_iff : ∀ vs : List PbV, pbWFList vs = true ↔ ∀ v ∈ vs, pbWF v = true
  | [] => by simp [pbWFList]
  | v :: vs => by simp [pbWFList, pbWFList_iff vs]

theorem pbWFFields_iff : ∀ fs : List (Bytes × PbV), pbWFFields fs = true ↔ ∀ p ∈ fs, pbWF p.2 = true
  | [] => by simp [pbWFFields]
  | (k, v) :: fs => by simp [pbWFFields, pbWFFields_iff fs]

theorem nodupB_iff : ∀ l : List Bytes, nodupB l = true ↔ l.Nodup
  | [] => by simp [nodupB]
  | x :: xs => by simp [nodupB, nodupB_iff xs]

theorem pbSize_pos (v : PbV) : 1 ≤ pbSize v := by
  cases v <;> simp [pbSize]

/-! ## normal form -/

theorem pbNorm_struct (fs : List (Bytes × PbV)) :
    pbNorm (.struct fs) = .struct ((sortByKey fs).map (fun p => (p.1, pbNorm p.2))) := by
  simp only [pbNorm, pbNormFields_eq_map]
  rw [sortByKey_mapSnd]

theorem pbNorm_list (vs : List PbV) : pbNorm (.list vs) = .list (vs.map pbNorm) := by
  simp only [pbNorm, pbNormList_eq_map]

/-- the normal form only reorders the fields of a struct -/
theorem pbNorm_struct_perm (fs : List (Bytes × PbV)) :
    ∃ gs, pbNorm (.struct fs) = .struct gs ∧ gs.Perm (fs.map (fun p => (p.1, pbNorm p.2))) :=
  ⟨_, pbNorm_struct fs, (sortByKey_perm fs).map _⟩

/-- **perm_invariant** (normal form): permuting the fields of a struct (a Go map: keys pairwise
different) does not change the normal form … -/
theorem pbNorm_perm (fs gs : List (Bytes × PbV)) (h : fs.Perm gs) (hn : (keysOf fs).Nodup) :
    pbNorm (.struct fs) = pbNorm (.struct gs) := by
  rw [pbNorm_struct, pbNorm_struct, sortByKey_perm_eq fs gs h hn]

/-- … hence not the bytes. -/
theorem pb_perm_invariant (T : Tags) (fs gs : List (Bytes × PbV)) (h : fs.Perm gs) (hn : (keysOf fs).Nodup) :
    enc T (pbToVal (.struct fs)) = enc T (pbToVal (.struct gs)) := by
  unfold pbToVal
  rw [pbNorm_perm fs gs h hn]

/-- congruence: normal forms of the parts determine the normal form of the whole -/
theorem pbNorm_list_congr (vs ws : List PbV) (h : vs.map pbNorm = ws.map pbNorm) :
    pbNorm (.list vs) = pbNorm (.list ws) := by
  rw [pbNorm_list, pbNorm_list, h]

theorem pbNorm_struct_congr (fs gs : List (Bytes × PbV))
    (h : fs.map (fun p => (p.1, pbNorm p.2)) = gs.map (fun p => (p.1, pbNorm p.2))) :
    pbNorm (.struct fs) = pbNorm (.struct gs) := by
  simp only [pbNorm, pbNormFields_eq_map, h]

mutual
theorem pbRaw_inj : ∀ v w : PbV, pbRaw v = pbRaw w → v = w
  | .unset, w, h => by cases w <;> simp_all [pbRaw]
  | .null, w, h => by cases w <;> simp_all [pbRaw]
  | .bool _, w, h => by cases w <;> simp_all [pbRaw]
  | .num _, w, h => by cases w <;> simp_all [pbRaw]
  | .str _, w, h => by cases w <;> simp_all [pbRaw]
  | .list vs, w, h => by
    cases w with
    | list ws => simp only [pbRaw, Val.arr.injEq] at h; rw [pbRawList_inj vs ws h]
    | _ => simp [pbRaw] at h
  | .struct fs, w, h => by
    cases w with
    | struct gs => simp only [pbRaw, Val.map.injEq] at h; rw [pbRawFields_inj fs gs h]
    | _ => simp [pbRaw] at h
theorem pbRawList_inj : ∀ vs ws : List PbV, pbRawList vs = pbRawList ws → vs = ws
  | [], [], _ => rfl
  | [], _ :: _, h => by simp [pbRawList] at h
  | _ :: _, [], h => by simp [pbRawList] at h
  | v :: vs, w :: ws, h => by
    simp only [pbRawList, List.cons.injEq] at h
    rw [pbRaw_inj v w h.1, pbRawList_inj vs ws h.2]
theorem pbRawFields_inj : ∀ fs gs : List (Bytes × PbV), pbRawFields fs = pbRawFields gs → fs = gs
  | [], [], _ => rfl
  | [], _ :: _, h => by simp [pbRawFields] at h
  | _ :: _, [], h => by simp [pbRawFields] at h
  | (k, v) :: fs, (k', w) :: gs, h => by
    simp only [pbRawFields, List.cons.injEq, Prod.mk.injEq, Val.str.injEq] at h
    rw [h.1.1, pbRaw_inj v w h.1.2, pbRawFields_inj fs gs h.2]
end

/-- **Distinct normal forms give distinct bytes.**  Numbers are compared by their float64 bits:
`+0`/`-0` and different NaN payloads are different values here — at worst a cache miss, never a
wrong hit. -/
theorem pb_bytes_injective (T : Tags) (hT : TagsOK T) (v w : PbV)
    (h : enc T (pbToVal v) = enc T (pbToVal w)) : pbNorm v = pbNorm w :=
  pbRaw_inj _ _ (enc_injective T hT _ _ h)

theorem pb_bytes_eq_iff (T : Tags) (hT : TagsOK T) (v w : PbV) :
    enc T (pbToVal v) = enc T (pbToVal w) ↔ pbNorm v = pbNorm w :=
  ⟨pb_bytes_injective T hT v w, fun h => by unfold pbToVal; rw [h]⟩

/-! ## the explicit stack -/

def encFrame (T : Tags) (fr : Frame) : Bytes :=
  (match fr.key with
    | some k => encStr T k
    | none => []) ++ enc T (pbToVal fr.value)

def encFrames (T : Tags) (st : List Frame) : Bytes := (st.map (encFrame T)).flatten

def framesSize (st : List Frame) : Nat := (st.map (fun fr => pbSize fr.value)).sum

theorem lookupField_mem : ∀ (fs : List (Bytes × PbV)), (keysOf fs).Nodup → ∀ p ∈ fs, lookupField p.1 fs = p.2 := by
  intro fs
  induction fs with
  | nil => intro _ p hp; simp at hp
  | cons x xs ih =>
    intro hn p hp
    obtain ⟨k, v⟩ := x
    simp only [keysOf, List.map_cons, List.nodup_cons, List.mem_map, not_exists, not_and] at hn
    rcases List.mem_cons.mp hp with rfl | hp'
    · simp [lookupField]
    · have hne : k ≠ p.1 := fun e => hn.1 p hp' e.symm
      simp only [lookupField, hne, if_false]
      exact ih hn.2 p hp'

/-- collecting the keys, sorting them and looking the values up = sorting the entries by key -/
theorem pushFields_eq (fs : List (Bytes × PbV)) (hn : (keysOf fs).Nodup) :
    pushFields fs = (sortByKey fs).map (fun p => (⟨some p.1, p.2⟩ : Frame)) := by
  unfold pushFields
  rw [sortBytes_keysOf]
  simp only [keysOf, List.map_map]
  apply List.map_congr_left
  intro p hp
  have hp' : p ∈ fs := (sortByKey_perm fs).mem_iff.mp hp
  simp [lookupField_mem fs hn p hp']

theorem encFrames_append (T : Tags) (a b : List Frame) : encFrames T (a ++ b) = encFrames T a ++ encFrames T b := by
  simp [encFrames]

theorem framesSize_append (a b : List Frame) : framesSize (a ++ b) = framesSize a + framesSize b := by
  simp [framesSize]

theorem encFrames_pushValues (T : Tags) (vs : List PbV) :
    encFrames T (pushValues vs) = encList T (pbRawList (pbNormList vs)) := by
  simp [encFrames, pushValues, encList_eq_flatten, pbRawList_eq_map, pbNormList_eq_map, List.map_map, encFrame,
    pbToVal, Function.comp_def]

theorem framesSize_pushValues (vs : List PbV) : framesSize (pushValues vs) = pbSizeList vs := by
  simp [framesSize, pushValues, pbSizeList_eq, List.map_map, Function.comp_def]

theorem enc_pbToVal_list (T : Tags) (vs : List PbV) :
    enc T (pbToVal (.list vs)) = arrHdr T vs.length ++ encList T (pbRawList (pbNormList vs)) := by
  simp [pbToVal, pbNorm, pbRaw, enc, pbRawList_eq_map, pbNormList_eq_map]

theorem enc_pbToVal_struct (T : Tags) (fs : List (Bytes × PbV)) :
    enc T (pbToVal (.struct fs)) = mapHdr T fs.length ++
      ((sortByKey fs).map (fun p => encStr T p.1 ++ enc T (pbToVal p.2))).flatten := by
  have hl : (sortByKey fs).length = fs.length := (sortByKey_perm fs).length_eq
  simp [pbToVal, pbNorm_struct, pbRaw, enc, pbRawFields_eq_map, encEntries_eq_flatten, List.map_map,
    Function.comp_def, hl]

theorem encFrames_sorted (T : Tags) (S : List (Bytes × PbV)) :
    encFrames T (S.map (fun p => (⟨some p.1, p.2⟩ : Frame))) =
      (S.map (fun p => encStr T p.1 ++ enc T (pbToVal p.2))).flatten := by
  simp [encFrames, encFrame, List.map_map, Function.comp_def]

theorem framesSize_sorted (fs : List (Bytes × PbV)) :
    framesSize ((sortByKey fs).map (fun p => (⟨some p.1, p.2⟩ : Frame))) = pbSizeFields fs := by
  simp only [framesSize, List.map_map, Function.comp_def, pbSizeFields_eq]
  exact ((sortByKey_perm fs).map _).sum_nat

/-- **The loop computes the recursive encoding**: with enough iterations, running the stack
machine appends exactly the encodings of the frames, top first. -/
theorem run_spec (T : Tags) : ∀ (f : Nat) (stack : List Frame) (out : Bytes),
    (∀ fr ∈ stack, pbWF fr.value = true) → framesSize stack ≤ f →
    run T f stack out = out ++ encFrames T stack := by
  intro f
  induction f with
  | zero =>
    intro stack out _ hs
    cases stack with
    | nil => simp [run, encFrames]
    | cons fr st =>
      have := pbSize_pos fr.value
      simp [framesSize] at hs
      omega
  | succ f ih =>
    intro stack out hwf hs
    cases stack with
    | nil => simp [run, encFrames]
    | cons fr st =>
      obtain ⟨key, value⟩ := fr
      have hst : ∀ fr ∈ st, pbWF fr.value = true := fun fr h => hwf fr (by simp [h])
      have hv : pbWF value = true := hwf ⟨key, value⟩ (by simp)
      have hsz : pbSize value + framesSize st ≤ f + 1 := by simpa [framesSize] using hs
      have hcons : ∀ (k : Option Bytes) (v : PbV), encFrames T (⟨k, v⟩ :: st) =
          (match k with | some k => encStr T k | none => []) ++ enc T (pbToVal v) ++ encFrames T st := by
        intro k v; simp [encFrames, encFrame]
      rw [hcons]
      cases value with
      | unset =>
        have := ih st ((match key with | some k => out ++ encStr T k | none => out) ++ [T.unset]) hst
          (by simp [pbSize] at hsz; omega)
        cases key <;> simp_all [run, pbToVal, pbNorm, pbRaw, enc]
      | null =>
        have := ih st ((match key with | some k => out ++ encStr T k | none => out) ++ [T.null]) hst
          (by simp [pbSize] at hsz; omega)
        cases key <;> simp_all [run, pbToVal, pbNorm, pbRaw, enc]
      | bool b =>
        have := ih st ((match key with | some k => out ++ encStr T k | none => out) ++ encBool T b) hst
          (by simp [pbSize] at hsz; omega)
        cases key <;> simp_all [run, pbToVal, pbNorm, pbRaw, enc]
      | num n =>
        have := ih st ((match key with | some k => out ++ encStr T k | none => out) ++ encU64 T n) hst
          (by simp [pbSize] at hsz; omega)
        cases key <;> simp_all [run, pbToVal, pbNorm, pbRaw, enc]
      | str s =>
        have := ih st ((match key with | some k => out ++ encStr T k | none => out) ++ encStr T s) hst
          (by simp [pbSize] at hsz; omega)
        cases key <;> simp_all [run, pbToVal, pbNorm, pbRaw, enc]
      | list vs =>
        have hvs : ∀ fr ∈ pushValues vs ++ st, pbWF fr.value = true := by
          intro fr hfr
          rcases List.mem_append.mp hfr with h | h
          · simp only [pushValues, List.mem_map] at h
            obtain ⟨v, hv', rfl⟩ := h
            simp only [pbWF] at hv
            exact (pbWFList_iff vs).mp hv v hv'
          · exact hst fr h
        have hsize : framesSize (pushValues vs ++ st) ≤ f := by
          rw [framesSize_append, framesSize_pushValues]
          simp [pbSize] at hsz; omega
        have := ih (pushValues vs ++ st)
          ((match key with | some k => out ++ encStr T k | none => out) ++ arrHdr T vs.length) hvs hsize
        rw [enc_pbToVal_list]
        cases key <;> simp_all [run, encFrames_append, encFrames_pushValues]
      | struct fs =>
        have hnd : (keysOf fs).Nodup := by
          simp only [pbWF, Bool.and_eq_true] at hv
          exact (nodupB_iff _).mp hv.1
        have hwff : ∀ p ∈ fs, pbWF p.2 = true := by
          simp only [pbWF, Bool.and_eq_true] at hv
          exact (pbWFFields_iff fs).mp hv.2
        have hpush := pushFields_eq fs hnd
        have hfs : ∀ fr ∈ pushFields fs ++ st, pbWF fr.value = true := by
          intro fr hfr
          rcases List.mem_append.mp hfr with h | h
          · rw [hpush] at h
            simp only [List.mem_map] at h
            obtain ⟨p, hp, rfl⟩ := h
            exact hwff p ((sortByKey_perm fs).mem_iff.mp hp)
          · exact hst fr h
        have hsize : framesSize (pushFields fs ++ st) ≤ f := by
          rw [framesSize_append, hpush, framesSize_sorted]
          simp [pbSize] at hsz; omega
        have hlen : (sortBytes (keysOf fs)).length = fs.length := by
          have := (sortBytes_perm (keysOf fs)).length_eq
          simpa [keysOf] using this
        have := ih (pushFields fs ++ st)
          ((match key with | some k => out ++ encStr T k | none => out) ++ mapHdr T fs.length) hfs hsize
        rw [enc_pbToVal_struct]
        rw [encFrames_append, hpush, encFrames_sorted] at this
        cases key <;> simp_all [run]

/-- **Explicit stack = recursion**: for every well-formed value `PbValue.WriteTo` appends exactly
the recursive encoding (keys of every struct sorted, then tag + count + key/value pairs). -/
theorem stack_eq_recursive (T : Tags) (v : PbV) (h : pbWF v = true) : pbWriteTo T v = enc T (pbToVal v) := by
  unfold pbWriteTo
  rw [run_spec T (pbSize v) [⟨none, v⟩] [] (by simpa using h) (by simp [framesSize])]
  simp [encFrames, encFrame]

end OpenFGAVerif.Proofs.KeysPb
