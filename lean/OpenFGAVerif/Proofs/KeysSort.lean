/-
Order and sorting lemmas for the key model (C24): Go's string order is a strict total order,
insertion sort returns the unique sorted permutation, sorting commutes with relabelling values,
and `sort.Sort` with `TupleKeys.Less` (insertion sort, n ≤ 12) returns the unique sorted
permutation when the sort keys are pairwise different.
-/
import OpenFGAVerif.Model.Keys

namespace OpenFGAVerif.Proofs.KeysSort
open OpenFGAVerif.Model.Keys

/-! ## strict total orders given as Bool relations -/

structure STO {α : Type} (lt : α → α → Bool) : Prop where
  irrefl : ∀ a, lt a a = false
  trans : ∀ a b c, lt a b = true → lt b c = true → lt a c = true
  tri : ∀ a b, lt a b = false → lt b a = false → a = b

theorem STO.asymm {α : Type} {lt : α → α → Bool} (h : STO lt) (a b : α) (hab : lt a b = true) : lt b a = false := by
  cases hba : lt b a with
  | false => rfl
  | true =>
    have := h.trans a b a hab hba
    rw [h.irrefl] at this
    exact absurd this (by simp)

theorem u8Lt_sto : STO u8Lt where
  irrefl a := by simp [u8Lt]
  trans a b c h1 h2 := by simp [u8Lt] at *; omega
  tri a b h1 h2 := by
    simp [u8Lt] at h1 h2
    have : a.toNat = b.toNat := by omega
    exact UInt8.toNat_inj.mp this

theorem lexLt_cons {α : Type} (lt : α → α → Bool) (a b : α) (as bs : List α) :
    lexLt lt (a :: as) (b :: bs) = if lt a b then true else if lt b a then false else lexLt lt as bs := by
  simp [lexLt]

theorem lexLt_cons_iff {α : Type} {lt : α → α → Bool} (h : STO lt) (a b : α) (as bs : List α) :
    lexLt lt (a :: as) (b :: bs) = true ↔ lt a b = true ∨ (a = b ∧ lexLt lt as bs = true) := by
  rw [lexLt_cons]
  cases hab : lt a b with
  | true => simp
  | false =>
    cases hba : lt b a with
    | true =>
      simp
      intro e
      subst e
      rw [h.irrefl] at hba
      exact absurd hba (by simp)
    | false =>
      have e := h.tri a b hab hba
      simp [e]

theorem lexLt_sto {α : Type} {lt : α → α → Bool} (h : STO lt) : STO (lexLt lt) where
  irrefl := by
    intro a
    induction a with
    | nil => rfl
    | cons x xs ih =>
      cases hc : lexLt lt (x :: xs) (x :: xs) with
      | false => rfl
      | true =>
        rcases (lexLt_cons_iff h x x xs xs).mp hc with h1 | ⟨_, h2⟩
        · rw [h.irrefl] at h1; exact absurd h1 (by simp)
        · rw [ih] at h2; exact absurd h2 (by simp)
  trans := by
    intro a
    induction a with
    | nil =>
      intro b c h1 h2
      cases b with
      | nil => simp [lexLt] at h1
      | cons y ys =>
        cases c with
        | nil => simp [lexLt] at h2
        | cons z zs => simp [lexLt]
    | cons x xs ih =>
      intro b c h1 h2
      cases b with
      | nil => simp [lexLt] at h1
      | cons y ys =>
        cases c with
        | nil => simp [lexLt] at h2
        | cons z zs =>
          rw [lexLt_cons_iff h] at h1 h2 ⊢
          rcases h1 with h1 | ⟨rfl, h1⟩
          · rcases h2 with h2 | ⟨rfl, h2⟩
            · exact Or.inl (h.trans _ _ _ h1 h2)
            · exact Or.inl h1
          · rcases h2 with h2 | ⟨rfl, h2⟩
            · exact Or.inl h2
            · exact Or.inr ⟨rfl, ih ys zs h1 h2⟩
  tri := by
    intro a
    induction a with
    | nil =>
      intro b h1 h2
      cases b with
      | nil => rfl
      | cons y ys => simp [lexLt] at h1
    | cons x xs ih =>
      intro b h1 h2
      cases b with
      | nil => simp [lexLt] at h2
      | cons y ys =>
        have n1 : ¬ (lt x y = true ∨ (x = y ∧ lexLt lt xs ys = true)) := by
          rw [← lexLt_cons_iff h]; simp [h1]
        have n2 : ¬ (lt y x = true ∨ (y = x ∧ lexLt lt ys xs = true)) := by
          rw [← lexLt_cons_iff h]; simp [h2]
        have hxy : lt x y = false := by
          cases hh : lt x y with
          | false => rfl
          | true => exact absurd (Or.inl hh) n1
        have hyx : lt y x = false := by
          cases hh : lt y x with
          | false => rfl
          | true => exact absurd (Or.inl hh) n2
        have e := h.tri x y hxy hyx
        subst e
        have t1 : lexLt lt xs ys = false := by
          cases hh : lexLt lt xs ys with
          | false => rfl
          | true => exact absurd (Or.inr ⟨rfl, hh⟩) n1
        have t2 : lexLt lt ys xs = false := by
          cases hh : lexLt lt ys xs with
          | false => rfl
          | true => exact absurd (Or.inr ⟨rfl, hh⟩) n2
        rw [ih ys t1 t2]

/-- Go's `<` on strings is a strict total order. -/
theorem bytesLt_sto : STO bytesLt := lexLt_sto u8Lt_sto

/-- … and so is its lexicographic lift to the 4-component sort key of `TupleKeys.Less`. -/
theorem keyLt_sto : STO (lexLt bytesLt) := lexLt_sto bytesLt_sto

/-! ## insertion sort -/

section isort
variable {α : Type}

theorem insertBy_perm (le : α → α → Bool) (x : α) (l : List α) : (insertBy le x l).Perm (x :: l) := by
  induction l with
  | nil => simp [insertBy]
  | cons y ys ih =>
    unfold insertBy
    split
    · exact List.Perm.refl _
    · exact (List.Perm.cons y ih).trans (List.Perm.swap x y ys)

theorem isort_perm (le : α → α → Bool) (l : List α) : (isort le l).Perm l := by
  induction l with
  | nil => exact List.Perm.refl _
  | cons x xs ih => exact (insertBy_perm le x _).trans (List.Perm.cons x ih)

theorem insertBy_sorted (le : α → α → Bool) (total : ∀ a b, le a b = false → le b a = true)
    (trans : ∀ a b c, le a b = true → le b c = true → le a c = true) (x : α) (l : List α)
    (hs : l.Pairwise (fun a b => le a b = true)) : (insertBy le x l).Pairwise (fun a b => le a b = true) := by
  induction l with
  | nil => simp [insertBy]
  | cons y ys ih =>
    unfold insertBy
    have hy := (List.pairwise_cons.mp hs).1
    have hys := (List.pairwise_cons.mp hs).2
    split
    · rename_i hxy
      refine List.pairwise_cons.mpr ⟨?_, hs⟩
      intro z hz
      rcases List.mem_cons.mp hz with rfl | hz
      · exact hxy
      · exact trans _ _ _ hxy (hy z hz)
    · rename_i hxy
      have hyx : le y x = true := total x y (by simpa using hxy)
      refine List.pairwise_cons.mpr ⟨?_, ih hys⟩
      intro z hz
      have : z ∈ x :: ys := (insertBy_perm le x ys).mem_iff.mp hz
      rcases List.mem_cons.mp this with rfl | hz
      · exact hyx
      · exact hy z hz

theorem isort_sorted (le : α → α → Bool) (total : ∀ a b, le a b = false → le b a = true)
    (trans : ∀ a b c, le a b = true → le b c = true → le a c = true) (l : List α) :
    (isort le l).Pairwise (fun a b => le a b = true) := by
  induction l with
  | nil => simp [isort]
  | cons x xs ih => exact insertBy_sorted le total trans x _ ih

/-- A sorted permutation is unique when the order is antisymmetric on the members. -/
theorem sorted_perm_unique (R : α → α → Prop) : ∀ (l1 l2 : List α), l1.Perm l2 →
    (∀ a ∈ l1, ∀ b ∈ l1, R a b → R b a → a = b) → l1.Pairwise R → l2.Pairwise R → l1 = l2 := by
  intro l1
  induction l1 with
  | nil => intro l2 hp _ _ _; exact (List.Perm.nil_eq hp)
  | cons a t1 ih =>
    intro l2 hp anti h1 h2
    cases l2 with
    | nil => exact absurd hp.symm (List.Perm.nil_eq · |> fun e => by simp at e)
    | cons b t2 =>
      have ha : a ∈ b :: t2 := hp.mem_iff.mp (by simp)
      have hb : b ∈ a :: t1 := hp.mem_iff.mpr (by simp)
      have hab : a = b := by
        rcases List.mem_cons.mp ha with e | ha'
        · exact e
        · rcases List.mem_cons.mp hb with e | hb'
          · exact e.symm
          · have r1 : R a b := (List.pairwise_cons.mp h1).1 b hb'
            have r2 : R b a := (List.pairwise_cons.mp h2).1 a ha'
            exact anti a (by simp) b hb r1 r2
      subst hab
      have hp' : t1.Perm t2 := List.Perm.cons_inv hp
      have := ih t2 hp' (fun x hx y hy => anti x (by simp [hx]) y (by simp [hy]))
        (List.pairwise_cons.mp h1).2 (List.pairwise_cons.mp h2).2
      rw [this]

end isort

/-! ## byte strings and entries -/

theorem bytesLe_total (a b : Bytes) (h : bytesLe a b = false) : bytesLe b a = true := by
  simp [bytesLe] at *
  have := bytesLt_sto.asymm b a h
  simp [this]

theorem bytesLe_trans (a b c : Bytes) (h1 : bytesLe a b = true) (h2 : bytesLe b c = true) : bytesLe a c = true := by
  simp only [bytesLe, Bool.not_eq_true'] at *
  cases hca : bytesLt c a with
  | false => rfl
  | true =>
    exfalso
    cases hab : bytesLt a b with
    | true =>
      have := bytesLt_sto.trans c a b hca hab
      rw [h2] at this; exact absurd this (by simp)
    | false =>
      have e := bytesLt_sto.tri a b hab h1
      subst e
      rw [h2] at hca; exact absurd hca (by simp)

theorem bytesLe_antisymm (a b : Bytes) (h1 : bytesLe a b = true) (h2 : bytesLe b a = true) : a = b := by
  simp only [bytesLe, Bool.not_eq_true'] at *
  exact bytesLt_sto.tri a b h2 h1

/-- `slices.Sort` result does not depend on the input order. -/
theorem sortBytes_perm_eq (l1 l2 : List Bytes) (h : l1.Perm l2) : sortBytes l1 = sortBytes l2 := by
  apply sorted_perm_unique (fun a b => bytesLe a b = true)
  · exact (isort_perm _ l1).trans (h.trans (isort_perm _ l2).symm)
  · intro a _ b _ r1 r2; exact bytesLe_antisymm a b r1 r2
  · exact isort_sorted _ bytesLe_total bytesLe_trans l1
  · exact isort_sorted _ bytesLe_total bytesLe_trans l2

theorem sortBytes_perm (l : List Bytes) : (sortBytes l).Perm l := isort_perm _ l

theorem sortBytes_sorted (l : List Bytes) : (sortBytes l).Pairwise (fun a b => bytesLe a b = true) :=
  isort_sorted _ bytesLe_total bytesLe_trans l

/-- sorting something already sorted changes nothing -/
theorem sortBytes_idem (l : List Bytes) : sortBytes (sortBytes l) = sortBytes l :=
  sortBytes_perm_eq _ _ (sortBytes_perm l)

section entries
variable {β : Type}

theorem mem_nodup_key_eq : ∀ (l : List (Bytes × β)), (keysOf l).Nodup → ∀ a ∈ l, ∀ b ∈ l, a.1 = b.1 → a = b := by
  intro l
  induction l with
  | nil => intro _ a ha; simp at ha
  | cons x xs ih =>
    intro hn a ha b hb e
    simp only [keysOf, List.map_cons, List.nodup_cons, List.mem_map, not_exists, not_and] at hn
    rcases List.mem_cons.mp ha with rfl | ha'
    · rcases List.mem_cons.mp hb with rfl | hb'
      · rfl
      · exact absurd e.symm (hn.1 b hb')
    · rcases List.mem_cons.mp hb with rfl | hb'
      · exact absurd e (hn.1 a ha')
      · exact ih hn.2 a ha' b hb' e

theorem sortByKey_perm (l : List (Bytes × β)) : (sortByKey l).Perm l := isort_perm _ l

theorem sortByKey_sorted (l : List (Bytes × β)) : (sortByKey l).Pairwise (fun a b => keyLe a b = true) :=
  isort_sorted _ (fun a b => bytesLe_total a.1 b.1) (fun a b c => bytesLe_trans a.1 b.1 c.1) l

/-- **Field order does not matter**: two field lists that are permutations of each other (keys
pairwise different, as in a Go map) sort to the same list. -/
theorem sortByKey_perm_eq (l1 l2 : List (Bytes × β)) (h : l1.Perm l2) (hn : (keysOf l1).Nodup) :
    sortByKey l1 = sortByKey l2 := by
  apply sorted_perm_unique (fun a b => keyLe a b = true)
  · exact (sortByKey_perm l1).trans (h.trans (sortByKey_perm l2).symm)
  · intro a ha b hb r1 r2
    have ha' : a ∈ l1 := (sortByKey_perm l1).mem_iff.mp ha
    have hb' : b ∈ l1 := (sortByKey_perm l1).mem_iff.mp hb
    exact mem_nodup_key_eq l1 hn a ha' b hb' (bytesLe_antisymm _ _ r1 r2)
  · exact sortByKey_sorted l1
  · exact sortByKey_sorted l2

end entries

section mapsnd
variable {β γ : Type}

theorem insertBy_mapSnd (g : β → γ) (x : Bytes × β) (l : List (Bytes × β)) :
    insertBy keyLe (x.1, g x.2) (l.map (fun p => (p.1, g p.2))) = (insertBy keyLe x l).map (fun p => (p.1, g p.2)) := by
  induction l with
  | nil => simp [insertBy]
  | cons y ys ih =>
    simp only [List.map_cons, insertBy, keyLe]
    by_cases hc : bytesLe x.1 y.1 = true
    · simp [hc]
    · simp [hc]; exact ih

/-- sorting by key commutes with relabelling the values -/
theorem sortByKey_mapSnd (g : β → γ) (l : List (Bytes × β)) :
    sortByKey (l.map (fun p => (p.1, g p.2))) = (sortByKey l).map (fun p => (p.1, g p.2)) := by
  induction l with
  | nil => rfl
  | cons x xs ih =>
    simp only [sortByKey, List.map_cons, isort] at *
    rw [ih]
    exact insertBy_mapSnd g x _

theorem insertBy_keys (x : Bytes × β) (l : List (Bytes × β)) :
    insertBy bytesLe x.1 (keysOf l) = keysOf (insertBy keyLe x l) := by
  induction l with
  | nil => simp [insertBy, keysOf]
  | cons y ys ih =>
    simp only [keysOf, List.map_cons, insertBy, keyLe] at *
    by_cases hc : bytesLe x.1 y.1 = true
    · simp [hc]
    · simp [hc]; exact ih

/-- sorting the keys = keys of the entries sorted by key -/
theorem sortBytes_keysOf (l : List (Bytes × β)) : sortBytes (keysOf l) = keysOf (sortByKey l) := by
  induction l with
  | nil => rfl
  | cons x xs ih =>
    simp only [sortBytes, sortByKey, keysOf, List.map_cons, isort] at *
    rw [ih]
    exact insertBy_keys x _

end mapsnd

/-! ## `sort.Sort(TupleKeys)` as insertion sort -/

section gosort
variable {α : Type}

theorem insRev_perm (less : α → α → Bool) (x : α) (l : List α) : (insRev less x l).Perm (x :: l) := by
  induction l with
  | nil => simp [insRev]
  | cons y ys ih =>
    unfold insRev
    split
    · exact (List.Perm.cons y ih).trans (List.Perm.swap x y ys)
    · exact List.Perm.refl _

theorem foldl_insRev_perm (less : α → α → Bool) (l acc : List α) :
    (l.foldl (fun acc x => insRev less x acc) acc).Perm (l ++ acc) := by
  induction l generalizing acc with
  | nil => simp
  | cons x xs ih =>
    simp only [List.foldl_cons]
    refine (ih _).trans ?_
    have := insRev_perm less x acc
    exact (List.Perm.append_left xs this).trans (by simpa using (List.perm_middle (l₁ := xs) (a := x) (l₂ := acc)))

/-- `sort.Sort` only permutes. -/
theorem goSort_perm (less : α → α → Bool) (l : List α) : (goSort less l).Perm l := by
  unfold goSort
  refine (List.reverse_perm _).trans ?_
  simpa using foldl_insRev_perm less l []

/-- descending invariant of the reversed sorted prefix -/
theorem insRev_desc (less lt : α → α → Bool) (hlt : ∀ a b c, lt a b = true → lt b c = true → lt a c = true)
    (x : α) (l : List α)
    (hl : ∀ y ∈ l, (less x y = true → lt x y = true) ∧ (less x y = false → lt y x = true))
    (hs : l.Pairwise (fun a b => lt b a = true)) : (insRev less x l).Pairwise (fun a b => lt b a = true) := by
  induction l with
  | nil => simp [insRev]
  | cons y ys ih =>
    unfold insRev
    have hy := (List.pairwise_cons.mp hs).1
    have hys := (List.pairwise_cons.mp hs).2
    split
    · rename_i hxy
      have hxy' := (hl y (by simp)).1 hxy
      refine List.pairwise_cons.mpr ⟨?_, ih (fun z hz => hl z (by simp [hz])) hys⟩
      intro z hz
      have : z ∈ x :: ys := (insRev_perm less x ys).mem_iff.mp hz
      rcases List.mem_cons.mp this with rfl | hz
      · exact hxy'
      · exact hy z hz
    · rename_i hxy
      have hyx := (hl y (by simp)).2 (by simpa using hxy)
      refine List.pairwise_cons.mpr ⟨?_, hs⟩
      intro z hz
      rcases List.mem_cons.mp hz with rfl | hz
      · exact hyx
      · exact hlt _ _ _ (hy z hz) hyx

theorem foldl_insRev_desc (less lt : α → α → Bool) (hlt : ∀ a b c, lt a b = true → lt b c = true → lt a c = true)
    (l acc : List α)
    (hl : ∀ x ∈ l ++ acc, ∀ y ∈ l ++ acc, x ≠ y → (less x y = true → lt x y = true) ∧ (less x y = false → lt y x = true))
    (hnd : (l ++ acc).Nodup)
    (hs : acc.Pairwise (fun a b => lt b a = true)) :
    (l.foldl (fun acc x => insRev less x acc) acc).Pairwise (fun a b => lt b a = true) := by
  induction l generalizing acc with
  | nil => simpa using hs
  | cons x xs ih =>
    simp only [List.foldl_cons]
    have hp := insRev_perm less x acc
    have hperm : (xs ++ insRev less x acc).Perm (x :: xs ++ acc) :=
      (List.Perm.append_left xs hp).trans (by simpa using (List.perm_middle (l₁ := xs) (a := x) (l₂ := acc)))
    apply ih
    · intro a ha b hb
      exact hl a (hperm.mem_iff.mp ha) b (hperm.mem_iff.mp hb)
    · exact hperm.nodup_iff.mpr hnd
    · apply insRev_desc less lt hlt x acc _ hs
      intro y hy
      have hne : x ≠ y := by
        intro e; subst e
        simp only [List.cons_append, List.nodup_cons, List.mem_append] at hnd
        exact hnd.1 (Or.inr hy)
      exact hl x (by simp) y (by simp [hy]) hne

/-- When `less` agrees with a transitive `lt` on the (pairwise different) members, `sort.Sort`
returns a list sorted by `lt`. -/
theorem goSort_sorted (less lt : α → α → Bool) (hlt : ∀ a b c, lt a b = true → lt b c = true → lt a c = true)
    (l : List α) (hnd : l.Nodup)
    (hl : ∀ x ∈ l, ∀ y ∈ l, x ≠ y → (less x y = true → lt x y = true) ∧ (less x y = false → lt y x = true)) :
    (goSort less l).Pairwise (fun a b => lt a b = true) := by
  unfold goSort
  rw [List.pairwise_reverse]
  apply foldl_insRev_desc less lt hlt l []
  · simpa using hl
  · simpa using hnd
  · simp

end gosort

end OpenFGAVerif.Proofs.KeysSort
