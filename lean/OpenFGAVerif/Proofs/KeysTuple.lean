/-
`Tuple.WriteTo`, `sort.Sort(TupleKeys)` and `InvariantCacheKey` (C24).

A tuple is written as three strings plus, when it has a condition, a string and a map.  That
optional suffix is recognised by what follows it: the theorem says exactly when a tuple followed by
other fields can be misread, and that it cannot at the only call site (`InvariantCacheKey`).
-/
import OpenFGAVerif.Proofs.KeysPb

namespace OpenFGAVerif.Proofs.KeysTuple
open OpenFGAVerif.Model.Keys OpenFGAVerif.Proofs.KeysCodec OpenFGAVerif.Proofs.KeysSort OpenFGAVerif.Proofs.KeysPb

/-! ## a tuple as a sequence of builder values -/

def condVals : Option Cond → List Val
  | none => []
  | some c => [.str c.name, pbToVal (.struct c.ctx)]

def tupleVals (t : Tup) : List Val :=
  .str t.object :: .str t.relation :: .str t.user :: condVals t.cond

theorem encList_append (T : Tags) (xs ys : List Val) : encList T (xs ++ ys) = encList T xs ++ encList T ys := by
  simp [encList_eq_flatten]

theorem encTuple_eq (T : Tags) (t : Tup) : encTuple T t = encList T (tupleVals t) := by
  cases hc : t.cond <;> simp [encTuple, tupleVals, condVals, encCond, encList, enc, hc]

theorem encTuples_eq (T : Tags) : ∀ ts : List Tup, encTuples T ts = encList T (ts.flatMap tupleVals)
  | [] => by simp [encTuples, encList]
  | t :: ts => by simp [encTuples, encTuple_eq, encTuples_eq T ts, encList_append]

theorem pbToVal_struct_isMap (fs : List (Bytes × PbV)) : ∃ es, pbToVal (.struct fs) = .map es :=
  ⟨pbRawFields (sortByKey (pbNormFields fs)), by simp [pbToVal, pbNorm, pbRaw]⟩

/-- the fields that follow do not look like a condition (string, then map) -/
def NoCondStart (r : List Val) : Prop := ∀ s m tl, r ≠ .str s :: .map m :: tl

/-- **Tuple followed by fields.**  If what follows neither tuple starts with "string, map", the
tuples (as field sequences) and the continuations coincide. -/
theorem tupleVals_prefix (t1 t2 : Tup) (r1 r2 : List Val) (h1 : NoCondStart r1) (h2 : NoCondStart r2)
    (h : tupleVals t1 ++ r1 = tupleVals t2 ++ r2) : tupleVals t1 = tupleVals t2 ∧ r1 = r2 := by
  unfold tupleVals at *
  cases hc1 : t1.cond with
  | none =>
    cases hc2 : t2.cond with
    | none => simp_all [condVals]
    | some c2 =>
      exfalso
      obtain ⟨es, hes⟩ := pbToVal_struct_isMap c2.ctx
      simp only [hc1, hc2, condVals, List.cons_append, List.nil_append, List.cons.injEq] at h
      exact h1 c2.name es r2 (by rw [h.2.2.2, hes])
  | some c1 =>
    cases hc2 : t2.cond with
    | none =>
      exfalso
      obtain ⟨es, hes⟩ := pbToVal_struct_isMap c1.ctx
      simp only [hc1, hc2, condVals, List.cons_append, List.nil_append, List.cons.injEq] at h
      exact h2 c1.name es r1 (by rw [← h.2.2.2, hes])
    | some c2 => simp_all [condVals]

/-- **When a tuple CAN be misread**: a tuple without condition followed by a string and a map is
byte-identical to the same tuple with that string as condition name and that map as context. -/
theorem tuple_suffix_ambiguity (T : Tags) (o r u name : Bytes) (ctx : List (Bytes × PbV)) :
    encTuple T ⟨o, r, u, none⟩ ++ (encStr T name ++ enc T (pbToVal (.struct ctx))) =
      encTuple T ⟨o, r, u, some ⟨name, ctx⟩⟩ := by
  simp [encTuple, encCond]

/-! ## normal form of a tuple -/

def normCond (c : Cond) : Cond := ⟨c.name, sortByKey (pbNormFields c.ctx)⟩

/-- context fields sorted at every level; nothing else changes -/
def tupNorm (t : Tup) : Tup := ⟨t.object, t.relation, t.user, t.cond.map normCond⟩

theorem pbToVal_struct_eq_iff (f g : List (Bytes × PbV)) :
    pbToVal (.struct f) = pbToVal (.struct g) ↔ sortByKey (pbNormFields f) = sortByKey (pbNormFields g) := by
  constructor
  · intro h
    have := pbRaw_inj _ _ h
    simpa [pbNorm] using this
  · intro h
    simp [pbToVal, pbNorm, h]

theorem tupleVals_eq_iff (t1 t2 : Tup) : tupleVals t1 = tupleVals t2 ↔ tupNorm t1 = tupNorm t2 := by
  obtain ⟨o1, r1, u1, c1⟩ := t1
  obtain ⟨o2, r2, u2, c2⟩ := t2
  cases c1 with
  | none =>
    cases c2 with
    | none => simp [tupleVals, condVals, tupNorm]
    | some c2 => simp [tupleVals, condVals, tupNorm]
  | some c1 =>
    cases c2 with
    | none => simp [tupleVals, condVals, tupNorm]
    | some c2 =>
      obtain ⟨n1, x1⟩ := c1
      obtain ⟨n2, x2⟩ := c2
      simp [tupleVals, condVals, tupNorm, normCond, pbToVal_struct_eq_iff]

/-- **`Tuple.WriteTo` alone is injective** (up to the order of context fields). -/
theorem encTuple_injective (T : Tags) (hT : TagsOK T) (t1 t2 : Tup) (h : encTuple T t1 = encTuple T t2) :
    tupNorm t1 = tupNorm t2 := by
  rw [encTuple_eq, encTuple_eq] at h
  exact (tupleVals_eq_iff t1 t2).mp (encList_injective T hT _ _ h)

theorem encTuple_congr (T : Tags) (t1 t2 : Tup) (h : tupNorm t1 = tupNorm t2) : encTuple T t1 = encTuple T t2 := by
  rw [encTuple_eq, encTuple_eq, (tupleVals_eq_iff t1 t2).mpr h]

/-! ## the tuple array of `InvariantCacheKey`: tuples, then a map -/

theorem noCondStart_rest (ts : List Tup) (m : List (Val × Val)) :
    NoCondStart (ts.flatMap tupleVals ++ [.map m]) := by
  intro s m' tl h
  cases ts with
  | nil => simp at h
  | cons t ts => simp [tupleVals] at h

theorem tuplesVals_inj : ∀ (ts1 ts2 : List Tup) (m1 m2 : List (Val × Val)),
    ts1.flatMap tupleVals ++ [.map m1] = ts2.flatMap tupleVals ++ [.map m2] →
    ts1.map tupleVals = ts2.map tupleVals ∧ m1 = m2 := by
  intro ts1
  induction ts1 with
  | nil =>
    intro ts2 m1 m2 h
    cases ts2 with
    | nil => simpa using h
    | cons t ts => simp [tupleVals] at h
  | cons t1 ts1 ih =>
    intro ts2 m1 m2 h
    cases ts2 with
    | nil => simp [tupleVals] at h
    | cons t2 ts2 =>
      simp only [List.flatMap_cons, List.append_assoc] at h
      obtain ⟨e1, e2⟩ := tupleVals_prefix t1 t2 _ _ (noCondStart_rest ts1 m1) (noCondStart_rest ts2 m2) h
      obtain ⟨e3, e4⟩ := ih ts2 m1 m2 e2
      exact ⟨by simp [e1, e3], e4⟩

/-! ## `TupleKeys.Less` and `sort.Sort` -/

/-- the strict order `TupleKeys.Less` implements on different sort keys -/
def tupLt (a b : Tup) : Bool := lexLt bytesLt (tupleKey a) (tupleKey b)

theorem lex_step_ne (x y : Bytes) (rest : Bool) (h : x ≠ y) :
    (if bytesLt x y then true else if bytesLt y x then false else rest) = bytesLt x y := by
  cases hxy : bytesLt x y with
  | true => simp
  | false =>
    cases hyx : bytesLt y x with
    | true => simp
    | false => exact absurd (bytesLt_sto.tri x y hxy hyx) h

theorem lex_step_eq (x : Bytes) (rest : Bool) :
    (if bytesLt x x then true else if bytesLt x x then false else rest) = rest := by
  simp [bytesLt_sto.irrefl]

/-- On tuples with different sort keys `Less` is the lexicographic order of
(object, relation, user, condition name); on equal sort keys it answers `true` both ways. -/
theorem tupleLess_eq_tupLt (a b : Tup) (h : tupleKey a ≠ tupleKey b) : tupleLess a b = tupLt a b := by
  unfold tupleLess tupLt tupleKey at *
  simp only [lexLt_cons]
  by_cases ho : a.object = b.object
  · by_cases hr : a.relation = b.relation
    · by_cases hu : a.user = b.user
      · have hc : condName a.cond ≠ condName b.cond := by
          intro e; apply h; simp [ho, hr, hu, e]
        have hs : (a.cond.isSome || b.cond.isSome) = true := by
          cases ha : a.cond <;> cases hb : b.cond <;> simp_all [condName]
        simp only [ho, hr, hu, ne_eq, not_true_eq_false, if_false, lex_step_eq, hs, Bool.true_and, hc,
          if_true, not_false_eq_true, decide_true]
        rw [lex_step_ne _ _ _ hc]
      · simp only [ho, hr, ne_eq, not_true_eq_false, if_false, lex_step_eq, hu, not_false_eq_true, if_true]
        rw [lex_step_ne _ _ _ hu]
    · simp only [ho, ne_eq, not_true_eq_false, if_false, lex_step_eq, hr, not_false_eq_true, if_true]
      rw [lex_step_ne _ _ _ hr]
  · simp only [ne_eq, ho, not_false_eq_true, if_true]
    rw [lex_step_ne _ _ _ ho]

theorem tupleLess_of_key_eq (a b : Tup) (h : tupleKey a = tupleKey b) : tupleLess a b = true := by
  unfold tupleKey at h
  simp only [List.cons.injEq, and_true] at h
  obtain ⟨ho, hr, hu, hc⟩ := h
  simp [tupleLess, ho, hr, hu, hc]

/-- the sort keys of the contextual tuples are pairwise different -/
def KeysDistinct (ts : List Tup) : Prop := (ts.map tupleKey).Nodup

theorem nodup_of_map_nodup {α β : Type} (f : α → β) : ∀ l : List α, (l.map f).Nodup → l.Nodup ∧
    ∀ x ∈ l, ∀ y ∈ l, f x = f y → x = y := by
  intro l
  induction l with
  | nil => intro _; simp
  | cons a t ih =>
    intro h
    simp only [List.map_cons, List.nodup_cons, List.mem_map, not_exists, not_and] at h
    obtain ⟨ih1, ih2⟩ := ih h.2
    refine ⟨List.nodup_cons.mpr ⟨fun hm => h.1 a hm rfl, ih1⟩, ?_⟩
    intro x hx y hy e
    rcases List.mem_cons.mp hx with rfl | hx'
    · rcases List.mem_cons.mp hy with rfl | hy'
      · rfl
      · exact absurd e.symm (h.1 y hy')
    · rcases List.mem_cons.mp hy with rfl | hy'
      · exact absurd e (h.1 x hx')
      · exact ih2 x hx' y hy' e

/-- what the theorems need from `sort.Sort(TupleKeys)`: it permutes, and on pairwise different sort
keys the result is ascending.  Proved for the insertion sort used for n ≤ 12; for longer lists this
is the documented contract of `sort.Sort` (pdqsort is not modelled). -/
structure SortContract (srt : List Tup → List Tup) : Prop where
  perm : ∀ ts, (srt ts).Perm ts
  sorted : ∀ ts, KeysDistinct ts → (srt ts).Pairwise (fun a b => tupLt a b = true)

theorem goSort_contract : SortContract (goSort tupleLess) where
  perm ts := goSort_perm tupleLess ts
  sorted ts hd := by
    obtain ⟨hnd, hinj⟩ := nodup_of_map_nodup tupleKey ts hd
    apply goSort_sorted tupleLess tupLt (fun a b c => keyLt_sto.trans _ _ _) ts hnd
    intro x hx y hy hne
    have hk : tupleKey x ≠ tupleKey y := fun e => hne (hinj x hx y hy e)
    rw [tupleLess_eq_tupLt x y hk]
    refine ⟨id, fun hf => ?_⟩
    cases hyx : tupLt y x with
    | true => rfl
    | false => exact absurd (keyLt_sto.tri _ _ hf hyx) hk

/-- **Order of contextual tuples does not matter** when their sort keys are pairwise different. -/
theorem sort_perm_eq (srt : List Tup → List Tup) (hs : SortContract srt) (ts1 ts2 : List Tup)
    (hp : ts1.Perm ts2) (hd : KeysDistinct ts1) : srt ts1 = srt ts2 := by
  have hd2 : KeysDistinct ts2 := (hp.map tupleKey).nodup_iff.mp hd
  apply sorted_perm_unique (fun a b => tupLt a b = true)
  · exact (hs.perm ts1).trans (hp.trans (hs.perm ts2).symm)
  · intro a _ b _ r1 r2
    have := keyLt_sto.asymm _ _ r1
    unfold tupLt at r2
    rw [r2] at this
    exact absurd this (by simp)
  · exact hs.sorted ts1 hd
  · exact hs.sorted ts2 hd2

/-! ## InvariantCacheKey -/

theorem invariantPre_eq (T : Tags) (srt : List Tup → List Tup) (store model : Bytes) (ctx : List (Bytes × PbV))
    (ts : List Tup) :
    invariantPre T srt store model ctx ts =
      enc T (.str store) ++ (enc T (.str model) ++ (arrHdr T (srt ts).length ++
        encList T ((srt ts).flatMap tupleVals ++ [pbToVal (.struct ctx)]))) := by
  simp [invariantPre, enc, encTuples_eq, encList_append, encList]

/-- **The bytes `InvariantCacheKey` hashes determine its inputs**: store id, model id, the sorted
contextual tuples (each up to context field order) and the request context (up to field order). -/
theorem invariantPre_injective (T : Tags) (hT : TagsOK T) (srt : List Tup → List Tup)
    (s1 m1 : Bytes) (c1 : List (Bytes × PbV)) (ts1 : List Tup)
    (s2 m2 : Bytes) (c2 : List (Bytes × PbV)) (ts2 : List Tup)
    (h : invariantPre T srt s1 m1 c1 ts1 = invariantPre T srt s2 m2 c2 ts2) :
    s1 = s2 ∧ m1 = m2 ∧ (srt ts1).map tupNorm = (srt ts2).map tupNorm ∧
      pbNorm (.struct c1) = pbNorm (.struct c2) := by
  rw [invariantPre_eq, invariantPre_eq] at h
  obtain ⟨e1, h⟩ := encode_prefix_free T hT _ _ _ _ h
  obtain ⟨e2, h⟩ := encode_prefix_free T hT _ _ _ _ h
  simp only [arrHdr, List.cons_append, List.cons.injEq, true_and] at h
  obtain ⟨_, h⟩ := uvarint_prefix_free _ _ _ _ h
  have hl := encList_injective T hT _ _ h
  obtain ⟨x1, hx1⟩ := pbToVal_struct_isMap c1
  obtain ⟨x2, hx2⟩ := pbToVal_struct_isMap c2
  rw [hx1, hx2] at hl
  obtain ⟨e3, e4⟩ := tuplesVals_inj _ _ _ _ hl
  refine ⟨by simpa using e1, by simpa using e2, ?_, ?_⟩
  · apply List.ext_getElem
    · have := congrArg List.length e3; simpa using this
    · intro i h1 h2
      have := List.getElem_of_eq e3 (i := i) (by simpa using h1)
      simp only [List.getElem_map] at this ⊢
      exact (tupleVals_eq_iff _ _).mp this
  · apply pbRaw_inj
    show pbToVal (.struct c1) = pbToVal (.struct c2)
    rw [hx1, hx2, e4]

/-- conversely, semantically equal inputs hash the same bytes -/
theorem invariantPre_congr (T : Tags) (srt : List Tup → List Tup) (s m : Bytes)
    (c1 c2 : List (Bytes × PbV)) (ts1 ts2 : List Tup)
    (ht : (srt ts1).map tupNorm = (srt ts2).map tupNorm) (hc : pbNorm (.struct c1) = pbNorm (.struct c2)) :
    invariantPre T srt s m c1 ts1 = invariantPre T srt s m c2 ts2 := by
  have hlen : (srt ts1).length = (srt ts2).length := by
    have := congrArg List.length ht; simpa using this
  have hv : (srt ts1).map tupleVals = (srt ts2).map tupleVals := by
    apply List.ext_getElem
    · simpa using hlen
    · intro i h1 h2
      have := List.getElem_of_eq ht (i := i) (by simpa using h1)
      simp only [List.getElem_map] at this ⊢
      exact (tupleVals_eq_iff _ _).mpr this
  have hf : (srt ts1).flatMap tupleVals = (srt ts2).flatMap tupleVals := by
    rw [List.flatMap_def, List.flatMap_def, hv]
  rw [invariantPre_eq, invariantPre_eq, hlen, hf]
  unfold pbToVal
  rw [hc]

/-- **perm_invariant for InvariantCacheKey** (partial: sort keys pairwise different): reordering the
contextual tuples and the request-context fields leaves the hashed bytes unchanged. -/
theorem invariant_perm_invariant_partial (T : Tags) (srt : List Tup → List Tup) (hs : SortContract srt)
    (s m : Bytes) (c1 c2 : List (Bytes × PbV)) (ts1 ts2 : List Tup)
    (hp : ts1.Perm ts2) (hd : KeysDistinct ts1) (hc : c1.Perm c2) (hcn : (keysOf c1).Nodup) :
    invariantPre T srt s m c1 ts1 = invariantPre T srt s m c2 ts2 := by
  apply invariantPre_congr
  · rw [sort_perm_eq srt hs ts1 ts2 hp hd]
  · exact pbNorm_perm c1 c2 hc hcn

end OpenFGAVerif.Proofs.KeysTuple
