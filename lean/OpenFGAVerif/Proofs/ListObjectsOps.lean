/-
Proofs about Model/ListObjectsOps.

§1  worker.Intersection: `scan_covers` (the smallest bag plus `inputs` is the list of ALL bags — induction over
    the scan, any sizes / order), `scan_min`, `interExec_spec` (result = intersection of all operand sets),
    `interExec_nodup`; negative witnesses for the variants that append `bags[i-1]` / `bags[i]`.
§2  weighted residual-check errors: `weighted_residual_error_reported`, `weighted_no_silent_truncation`,
    `weighted_error_or_full_page` (linked to the consumer theorems `zero_limit_complete`,
    `limit_exact_partial` of Proofs/RevExpandConsumer); `elide_all_truncates` is the witness for the filter
    without its guard.
-/
import OpenFGAVerif.Model.ListObjectsOps
import OpenFGAVerif.Proofs.RevExpandConsumer

namespace OpenFGAVerif.LoOps

section
variable {α : Type}

theorem foldl_scan_mem (rest : List (List α)) (s : Scan α) (b : List α) :
    b ∈ (rest.foldl (scanStep .indexMin) s).minBag :: (rest.foldl (scanStep .indexMin) s).inputs ↔
    b ∈ s.minBag :: s.inputs ∨ b ∈ rest := by
  induction rest generalizing s with
  | nil => simp
  | cons r rs ih =>
    rw [List.foldl_cons, ih]
    unfold scanStep
    by_cases h : r.length < s.minBag.length
    · simp only [h, if_true, List.mem_cons, List.mem_append, List.not_mem_nil, or_false]
      constructor
      · rintro ((h1 | h1 | h1) | h1)
        · exact Or.inr (Or.inl h1)
        · exact Or.inl (Or.inr h1)
        · exact Or.inl (Or.inl h1)
        · exact Or.inr (Or.inr h1)
      · rintro ((h1 | h1) | h1 | h1)
        · exact Or.inl (Or.inr (Or.inr h1))
        · exact Or.inl (Or.inr (Or.inl h1))
        · exact Or.inl (Or.inl h1)
        · exact Or.inr h1
    · simp only [h, if_false, List.mem_cons, List.mem_append, List.not_mem_nil, or_false]
      constructor
      · rintro ((h1 | h1 | h1) | h1)
        · exact Or.inl (Or.inl h1)
        · exact Or.inl (Or.inr h1)
        · exact Or.inr (Or.inl h1)
        · exact Or.inr (Or.inr h1)
      · rintro ((h1 | h1) | h1 | h1)
        · exact Or.inl (Or.inl h1)
        · exact Or.inl (Or.inr (Or.inl h1))
        · exact Or.inl (Or.inr (Or.inr h1))
        · exact Or.inr h1

/-- **every operand is consulted**: the smallest bag together with the list `inputs` is exactly the list of
all bags, whatever their sizes and order -/
theorem scan_covers (b0 : List α) (rest : List (List α)) (b : List α) :
    b ∈ (scan .indexMin b0 rest).minBag :: (scan .indexMin b0 rest).inputs ↔ b ∈ b0 :: rest := by
  unfold scan
  rw [foldl_scan_mem]
  simp

theorem foldl_scan_min (v : Push) (rest : List (List α)) (s : Scan α) :
    (rest.foldl (scanStep v) s).minBag.length ≤ s.minBag.length ∧
    ∀ b ∈ rest, (rest.foldl (scanStep v) s).minBag.length ≤ b.length := by
  induction rest generalizing s with
  | nil => simp
  | cons r rs ih =>
    rw [List.foldl_cons]
    obtain ⟨h1, h2⟩ := ih (scanStep v s r)
    have hs : (scanStep v s r).minBag.length ≤ s.minBag.length ∧ (scanStep v s r).minBag.length ≤ r.length := by
      unfold scanStep
      by_cases h : r.length < s.minBag.length
      · simp only [h, if_true]; omega
      · simp only [h, if_false]; omega
    refine ⟨by omega, ?_⟩
    intro b hb
    rcases List.mem_cons.mp hb with rfl | hb
    · omega
    · exact h2 b hb

/-- the bag that is filtered is a smallest one (for every variant of the append) -/
theorem scan_min (v : Push) (b0 : List α) (rest : List (List α)) :
    ∀ b ∈ b0 :: rest, (scan v b0 rest).minBag.length ≤ b.length := by
  intro b hb
  obtain ⟨h1, h2⟩ := foldl_scan_min v rest { inputs := [], minBag := b0, prev := b0 }
  rcases List.mem_cons.mp hb with rfl | hb
  · exact h1
  · exact h2 b hb

variable [DecidableEq α]

theorem mem_filterOut (output : List α) (inputs : List (List α)) (x : α) :
    x ∈ filterOut output inputs ↔ ∀ b ∈ output :: inputs, x ∈ b := by
  unfold filterOut
  simp only [List.mem_filter, List.all_eq_true, List.contains_iff_mem, List.mem_cons]
  constructor
  · rintro ⟨h1, h2⟩ b (rfl | hb)
    · exact h1
    · exact h2 b hb
  · intro h
    exact ⟨h _ (Or.inl rfl), fun b hb => h b (Or.inr hb)⟩

/-- **worker.Intersection computes the intersection of ALL operand sets** — any number of operands, any
sizes, any order (induction over the scan) -/
theorem interExec_spec (bags : List (List α)) (x : α) :
    x ∈ interExec .indexMin bags ↔ bags ≠ [] ∧ ∀ b ∈ bags, x ∈ b := by
  cases bags with
  | nil => simp [interExec]
  | cons b0 rest =>
    simp only [interExec]
    by_cases he : (b0 :: rest).any (·.isEmpty) = true
    · rw [if_pos he]
      simp only [List.not_mem_nil, ne_eq, reduceCtorEq, not_false_eq_true, true_and, false_iff]
      intro h
      obtain ⟨b, hb, hbe⟩ := List.any_eq_true.mp he
      have := h b hb
      rw [List.isEmpty_iff.mp hbe] at this
      cases this
    · rw [if_neg he, mem_filterOut]
      simp only [ne_eq, reduceCtorEq, not_false_eq_true, true_and]
      constructor
      · intro h b hb
        exact h b ((scan_covers b0 rest b).mpr hb)
      · intro h b hb
        exact h b ((scan_covers b0 rest b).mp hb)

theorem interExec_nodup (v : Push) (bags : List (List α)) (h : ∀ b ∈ bags, b.Nodup) :
    (interExec v bags).Nodup := by
  cases bags with
  | nil => simp [interExec]
  | cons b0 rest =>
    simp only [interExec]
    split
    · exact List.nodup_nil
    · unfold filterOut
      refine List.Nodup.sublist List.filter_sublist ?_
      have hm : (scan v b0 rest).minBag ∈ b0 :: rest := by
        unfold scan
        generalize hs : ({ inputs := [], minBag := b0, prev := b0 } : Scan α) = s
        have h0 : s.minBag ∈ b0 :: rest := by subst hs; simp
        clear hs
        have key : ∀ (l : List (List α)) (s : Scan α) (bs : List (List α)), s.minBag ∈ bs → (∀ b ∈ l, b ∈ bs) →
            (l.foldl (scanStep v) s).minBag ∈ bs := by
          intro l
          induction l with
          | nil => intro s bs h _; exact h
          | cons r rs ih =>
            intro s bs hs hl
            rw [List.foldl_cons]
            apply ih
            · unfold scanStep
              split
              · exact hl r (by simp)
              · exact hs
            · intro b hb; exact hl b (List.mem_cons_of_mem _ hb)
        exact key rest s _ h0 (fun b hb => List.mem_cons_of_mem _ hb)
      exact h _ hm
end

/-- the variant that appends the bag before the new minimum (`w.bags[i-1]`): sizes 2,3,1 — the first
operand is never consulted, `3` is returned although it is not in the first set -/
theorem interExec_prev_unsound :
    3 ∈ interExec .prev [[1, 2], [1, 2, 3], [3]] ∧ ¬ (∀ b ∈ [[1, 2], [1, 2, 3], [3]], 3 ∈ b) := by decide

theorem interExec_cur_unsound :
    1 ∈ interExec .cur [[2, 3], [1]] ∧ ¬ (∀ b ∈ [[2, 3], [1]], 1 ∈ b) := by decide

example : interExec .indexMin [[1, 2], [1, 2, 3], [3]] = [] := by decide
example : interExec .indexMin [[1, 2, 4], [1, 2, 3, 4], [4, 9], [7, 4, 2]] = [4] := by decide

theorem codeFilter_elides (c : Cause) : codeFilter.elides c = c.cancellation := by
  cases c <;> decide

/-- an error of the residual-check pool that is not a cancellation leaves `loopOverEdges` -/
theorem loopResult_reports (c : Cause) (hc : c.cancellation = false) :
    loopResult codeFilter (some (.exec c)) = some (.exec c) := by
  simp [loopResult, codeFilter_elides, hc]

theorem residual_err (rchk : String → RRes) (late : String → Bool) (cands : List String) :
    (residual rchk late cands).2 = none ∨ ∃ o ∈ cands, ∃ c, rchk o = .fail c ∧ (residual rchk late cands).2 = some (.exec c) := by
  induction cands with
  | nil => left; rfl
  | cons o os ih =>
    unfold residual
    cases h : rchk o with
    | allow =>
      simp only
      rcases ih with h1 | ⟨o', ho', c, hc, he⟩
      · left; exact h1
      · right; exact ⟨o', List.mem_cons_of_mem _ ho', c, hc, he⟩
    | deny =>
      simp only
      rcases ih with h1 | ⟨o', ho', c, hc, he⟩
      · left; exact h1
      · right; exact ⟨o', List.mem_cons_of_mem _ ho', c, hc, he⟩
    | fail c =>
      right; exact ⟨o, by simp, c, h, rfl⟩

theorem residual_none (rchk : String → RRes) (late : String → Bool) (cands : List String)
    (h : (residual rchk late cands).2 = none) :
    (∀ o ∈ cands, ∀ c, rchk o ≠ .fail c) ∧ (residual rchk late cands).1 = cands.filter (fun o => decide (rchk o = .allow)) := by
  induction cands with
  | nil => simp [residual]
  | cons o os ih =>
    unfold residual at h ⊢
    cases hr : rchk o with
    | allow =>
      simp only [hr] at h ⊢
      obtain ⟨h1, h2⟩ := ih h
      refine ⟨?_, ?_⟩
      · intro o' ho' c
        rcases List.mem_cons.mp ho' with rfl | ho'
        · rw [hr]; simp
        · exact h1 o' ho' c
      · rw [h2]; simp [hr]
    | deny =>
      simp only [hr] at h ⊢
      obtain ⟨h1, h2⟩ := ih h
      refine ⟨?_, ?_⟩
      · intro o' ho' c
        rcases List.mem_cons.mp ho' with rfl | ho'
        · rw [hr]; simp
        · exact h1 o' ho' c
      · rw [h2]; simp [hr]
    | fail c => simp [hr] at h

/-- when the residual Check of some candidate fails the pool reports a failure (the first one) -/
theorem residual_fail_some (rchk : String → RRes) (late : String → Bool) (cands : List String)
    (o : String) (ho : o ∈ cands) (c : Cause) (hc : rchk o = .fail c) :
    ∃ c', (residual rchk late cands).2 = some (.exec c') ∧ ∃ o' ∈ cands, rchk o' = .fail c' := by
  rcases residual_err rchk late cands with h | ⟨o', ho', c', hc', he⟩
  · exact absurd hc ((residual_none rchk late cands h).1 o ho c)
  · exact ⟨c', he, o', ho', hc'⟩

open OpenFGAVerif.RevExpand

/-- **A failed residual Check is reported.**  The filter as `loopOverEdges` has it: when the residual Check
of some candidate fails and no failure is a cancellation / deadline, the call returns an error — for every
completion order of the candidates, every set of late completions, every limit and consumer schedule. -/
theorem weighted_residual_error_reported (zeroErr : Bool) (rchk : String → RRes) (late : String → Bool)
    (cands : List String) (limit : Nat) (evs : List Ev)
    (hnc : ∀ o ∈ cands, ∀ c, rchk o = .fail c → c.cancellation = false)
    (o : String) (ho : o ∈ cands) (c : Cause) (hc : rchk o = .fail c) :
    wResponse zeroErr codeFilter rchk late cands limit evs = none := by
  obtain ⟨c', he, o', ho', hc'⟩ := residual_fail_some rchk late cands o ho c hc
  unfold wResponse
  rw [he, loopResult_reports c' (hnc o' ho' c' hc')]
  simp [PoolErr.reported]

theorem zero_out_complete (chk : String → CheckRes) (res : List (String × Bool)) (evs : List Ev)
    (hev : ∀ e ∈ evs, e ≠ .deadline ∧ e ≠ .stop) (hq : (crun 0 chk evs (CSt.init res)).quiescent = true)
    (herr : (crun 0 chk evs (CSt.init res)).err = false) (hnd : (res.map Prod.fst).Nodup) :
    ∀ p ∈ res, isConf chk p = true → p.1 ∈ (crun 0 chk evs (CSt.init res)).out := by
  have hlen' := zero_limit_complete chk res evs hev hq herr
  have hsub : ∀ a ∈ (crun 0 chk evs (CSt.init res)).out, a ∈ (res.filter (isConf chk)).map Prod.fst := by
    intro a ha
    rcases crun_out_confirmed 0 chk res evs a ha with h | ⟨h, hallow⟩
    · exact List.mem_map.mpr ⟨(a, false), List.mem_filter.mpr ⟨h, by simp [isConf]⟩, rfl⟩
    · exact List.mem_map.mpr ⟨(a, true), List.mem_filter.mpr ⟨h, by simp [isConf, hallow]⟩, rfl⟩
  have hcl : ((res.filter (isConf chk)).map Prod.fst).length ≤ (crun 0 chk evs (CSt.init res)).out.length := by
    rw [hlen', List.length_map, nConf, List.countP_eq_length_filter]
    exact Nat.le_refl _
  intro p hp hc
  exact subset_of_nodup_length _ (crun_nodup 0 chk res evs hnd) hsub hcl p.1
    (List.mem_map.mpr ⟨p, List.mem_filter.mpr ⟨hp, hc⟩, rfl⟩)

/-- **No silent truncation through the weighted engine** (`maxResults = 0`, rule of `Execute` as regenerated):
no failure of a residual Check is a cancellation, the consumer schedule has no deadline, every goroutine has
returned — then a response that is returned without error holds every candidate whose residual Check allows. -/
theorem weighted_no_silent_truncation (rchk : String → RRes) (late : String → Bool) (cands : List String)
    (hnd : cands.Nodup) (evs : List Ev)
    (hnc : ∀ o ∈ cands, ∀ c, rchk o = .fail c → c.cancellation = false)
    (hev : ∀ e ∈ evs, e ≠ .deadline ∧ e ≠ .stop)
    (hq : (crun 0 (fun _ => .allow) evs (CSt.init ((residual rchk late cands).1.map (fun o => (o, false))))).quiescent = true)
    (l : List String) (hl : wResponse true codeFilter rchk late cands 0 evs = some l) :
    ∀ o ∈ cands, rchk o = .allow → o ∈ l := by
  -- no residual Check failed: otherwise the call had reported an error
  have hnone : (residual rchk late cands).2 = none := by
    rcases residual_err rchk late cands with h | ⟨o', ho', c', hc', _⟩
    · exact h
    · rw [weighted_residual_error_reported true rchk late cands 0 evs hnc o' ho' c' hc'] at hl
      cases hl
  obtain ⟨_, hsent⟩ := residual_none rchk late cands hnone
  unfold wResponse at hl
  rw [hnone] at hl
  simp only [loopResult] at hl
  generalize hres : (residual rchk late cands).1.map (fun o => (o, false)) = res at hl hq
  have herr : (crun 0 (fun _ => CheckRes.allow) evs (CSt.init res)).err = false := by
    unfold finalResult at hl
    cases he : (crun 0 (fun _ => CheckRes.allow) evs (CSt.init res)).err with
    | false => rfl
    | true => simp [he] at hl
  have hout : l = (crun 0 (fun _ => CheckRes.allow) evs (CSt.init res)).out := by
    unfold finalResult at hl
    rw [herr] at hl
    simpa using hl.symm
  have hndr : (res.map Prod.fst).Nodup := by
    rw [← hres, hsent, List.map_map]
    have : (Prod.fst ∘ fun o : String => (o, false)) = id := by funext o; rfl
    rw [this, List.map_id]
    exact hnd.filter _
  intro o ho hallow
  rw [hout]
  have hp : (o, false) ∈ res := by
    rw [← hres, hsent]
    exact List.mem_map.mpr ⟨o, List.mem_filter.mpr ⟨ho, by simp [hallow]⟩, rfl⟩
  exact zero_out_complete _ res evs hev hq herr hndr (o, false) hp (by simp [isConf])

/-- **Error or full page** (any limit): no failure of a residual Check is a cancellation, clean consumer
schedule (no deadline, no lost send), every goroutine returned — a response that is returned without error
holds exactly `min limit |allowed|` objects (`limit = 0`: all of them): never a short list. -/
theorem weighted_error_or_full_page (zeroErr : Bool) (rchk : String → RRes) (late : String → Bool) (cands : List String)
    (limit : Nat) (evs : List Ev)
    (hnc : ∀ o ∈ cands, ∀ c, rchk o = .fail c → c.cancellation = false)
    (hclean : ∀ e ∈ evs, e.clean = true)
    (hq : (crun limit (fun _ => .allow) evs (CSt.init ((residual rchk late cands).1.map (fun o => (o, false))))).quiescent = true)
    (l : List String) (hl : wResponse zeroErr codeFilter rchk late cands limit evs = some l) :
    l.length = (if limit = 0 then (cands.filter (fun o => decide (rchk o = .allow))).length
                else min limit (cands.filter (fun o => decide (rchk o = .allow))).length) := by
  have hnone : (residual rchk late cands).2 = none := by
    rcases residual_err rchk late cands with h | ⟨o', ho', c', hc', _⟩
    · exact h
    · rw [weighted_residual_error_reported zeroErr rchk late cands limit evs hnc o' ho' c' hc'] at hl
      cases hl
  obtain ⟨_, hsent⟩ := residual_none rchk late cands hnone
  unfold wResponse at hl
  rw [hnone] at hl
  simp only [loopResult] at hl
  generalize hres : (residual rchk late cands).1.map (fun o => (o, false)) = res at hl hq
  have hchk : ∀ p ∈ res, p.2 = true → NoCheckErr (fun _ => CheckRes.allow) p.1 := fun _ _ _ => Or.inl rfl
  obtain ⟨hlen, herr⟩ := limit_exact_partial limit (fun _ => CheckRes.allow) res evs hclean hchk hq
  have hout : l = (crun limit (fun _ => CheckRes.allow) evs (CSt.init res)).out := by
    unfold finalResult at hl
    rw [herr] at hl
    simpa using hl.symm
  have hn : nConf (fun _ => CheckRes.allow) res = (cands.filter (fun o => decide (rchk o = .allow))).length := by
    unfold nConf
    rw [List.countP_eq_length.mpr (by intro p _; simp [isConf]), ← hres, List.length_map, hsent]
  rw [hout, hlen, hn]

/-- the filter that elides every ExecutionError (the guard dropped): one failed residual Check, and a short
list is returned as a complete answer -/
theorem elide_all_truncates :
    wResponse true { returnsNil := true, disjuncts := [] }
      (fun o => if o = "doc:1" then .fail .condition else .allow) (fun _ => false) ["doc:1", "doc:2", "doc:3"] 0 [.recv false] = some [] := by
  decide

example : wResponse true codeFilter
      (fun o => if o = "doc:1" then .fail .condition else .allow) (fun _ => false) ["doc:1", "doc:2", "doc:3"] 0 [.recv false] = none := by
  decide

example : wResponse true codeFilter (fun _ => .allow) (fun _ => false) ["doc:1", "doc:2"] 0 [.recv false, .recv false, .recv false]
    = some ["doc:1", "doc:2"] := by decide

end OpenFGAVerif.LoOps
