/-
Proofs for the model of `MemoryBackend.ListStores` (C14): the slice the paging tail cuts is the list of matching stores
in id order — for EVERY order the map iteration can produce and EVERY order of the caller's (duplicate-free) id list —
and therefore following the offset tokens delivers every matching store exactly once, in id order, even when every
page request sees another map order and carries another permutation of the id list.

  insertion sort:   `sortById_perm`, `sortById_sorted`;  uniqueness of the sorted permutation: core `List.Perm.eq_of_pairwise`
  IDs filter:       `idsFilter_perm` (nested loops in caller order ~ a plain filter, ids duplicate-free)
  main:             `filteredSorted_eq`, `cutPage_eq`, `listStores_eq`, `followListStores_eq`
-/
import OpenFGAVerif.Model.ListStoresMem

namespace OpenFGAVerif.Proofs.ListStoresMem
open OpenFGAVerif.Model.Paging OpenFGAVerif.Model.ListStoresMem

/-! ### the stable insertion sort: a permutation, sorted -/

theorem insertById_perm (x : Store) (l : List Store) : (insertById x l).Perm (x :: l) := by
  induction l with
  | nil => exact List.Perm.refl _
  | cons y ys ih =>
    simp only [insertById]
    split
    · exact List.Perm.refl _
    · exact (List.Perm.cons y ih).trans (List.Perm.swap x y ys)

theorem sortById_perm (l : List Store) : (sortById l).Perm l := by
  induction l with
  | nil => exact List.Perm.refl _
  | cons x xs ih =>
    simp only [sortById]
    exact (insertById_perm x (sortById xs)).trans (List.Perm.cons x ih)

theorem insertById_sorted (x : Store) (l : List Store) (h : l.Pairwise (fun a b => a.id ≤ b.id)) :
    (insertById x l).Pairwise (fun a b => a.id ≤ b.id) := by
  induction l with
  | nil => simp [insertById]
  | cons y ys ih =>
    have hy := List.pairwise_cons.mp h
    simp only [insertById]
    split
    · rename_i hxy
      refine List.pairwise_cons.mpr ⟨?_, h⟩
      intro a ha
      rcases List.mem_cons.mp ha with rfl | ha
      · exact hxy
      · exact Nat.le_trans hxy (hy.1 a ha)
    · rename_i hxy
      refine List.pairwise_cons.mpr ⟨?_, ih hy.2⟩
      intro a ha
      have hm : a ∈ x :: ys := (insertById_perm x ys).subset ha
      rcases List.mem_cons.mp hm with rfl | ha
      · omega
      · exact hy.1 a ha

theorem sortById_sorted (l : List Store) : (sortById l).Pairwise (fun a b => a.id ≤ b.id) := by
  induction l with
  | nil => simp [sortById]
  | cons x xs ih =>
    simp only [sortById]
    exact insertById_sorted x _ ih

/-- store ids are map keys: along the id-ordered value list they are strictly increasing, hence injective -/
theorem id_inj_of_sorted (values : List Store) (hs : values.Pairwise (fun a b => a.id < b.id)) :
    ∀ a, a ∈ values → ∀ b, b ∈ values → a.id = b.id → a = b := by
  induction values with
  | nil => intro a ha; cases ha
  | cons v vs ih =>
    have h := List.pairwise_cons.mp hs
    intro a ha b hb hab
    rcases List.mem_cons.mp ha with h1 | h1
    · rcases List.mem_cons.mp hb with h2 | h2
      · rw [h1, h2]
      · have := h.1 b h2; rw [h1] at hab; omega
    · rcases List.mem_cons.mp hb with h2 | h2
      · have := h.1 a h1; rw [h2] at hab; omega
      · exact ih h.2 a h1 b h2 hab

/-! ### the IDs filter (nested loops in caller order) is a permutation of a plain filter -/

theorem filter_or_perm {α : Type} (p q : α → Bool) (l : List α) (hd : ∀ x, x ∈ l → ¬ (p x = true ∧ q x = true)) :
    (l.filter (fun x => p x || q x)).Perm (l.filter p ++ l.filter q) := by
  induction l with
  | nil => exact List.Perm.refl _
  | cons x xs ih =>
    have ih' := ih (fun y hy => hd y (List.mem_cons_of_mem _ hy))
    have hx := hd x List.mem_cons_self
    cases hp : p x <;> cases hq : q x
    · simpa [List.filter_cons, hp, hq] using ih'
    · simp only [List.filter_cons, hp, hq, Bool.or_true, if_true]
      exact (List.Perm.cons x ih').trans List.perm_middle.symm
    · simp only [List.filter_cons, hp, hq, Bool.or_false, if_true, List.cons_append]
      exact List.Perm.cons x ih'
    · exact absurd ⟨hp, hq⟩ hx

theorem idsFilter_cons (i : Nat) (is : List Nat) (l : List Store) :
    idsFilter (i :: is) l = l.filter (fun s => s.id == i) ++ idsFilter is l := by
  simp [idsFilter, List.flatMap_cons]

theorem idsFilter_perm (ids : List Nat) (hnd : ids.Nodup) (l : List Store) :
    (idsFilter ids l).Perm (l.filter (fun s => ids.contains s.id)) := by
  induction ids with
  | nil => simp [idsFilter]
  | cons i is ih =>
    have hn := List.nodup_cons.mp hnd
    rw [idsFilter_cons]
    have h2 : l.filter (fun s => (i :: is).contains s.id) = l.filter (fun s => (s.id == i) || is.contains s.id) := by
      apply List.filter_congr
      intro s _
      rw [Bool.eq_iff_iff]
      simp
    rw [h2]
    refine (List.Perm.append_left _ (ih hn.2)).trans (filter_or_perm _ _ l ?_).symm
    intro s _ hpq
    have h1 : s.id = i := by simpa using hpq.1
    have h3 : s.id ∈ is := by simpa using hpq.2
    exact hn.1 (h1 ▸ h3)

/-! ### collect → IDs filter → name filter is a permutation of `values.filter keep` -/

def keepIds (f : Filter) (s : Store) : Bool := f.ids.isEmpty || f.ids.contains s.id
def keepName (f : Filter) (s : Store) : Bool := f.name == "" || s.name == f.name

theorem keep_eq (f : Filter) : keep f = fun s => keepName f s && keepIds f s := by
  funext s
  simp [keep, keepIds, keepName, Bool.and_comm]

theorem applyIds_perm (f : Filter) (values collected : List Store) (hperm : collected.Perm values) (hids : f.ids.Nodup) :
    (applyIds f collected).Perm (values.filter (keepIds f)) := by
  unfold applyIds
  by_cases h : f.ids.length > 0
  · rw [if_pos h]
    have hne : f.ids.isEmpty = false := by
      cases hi : f.ids with
      | nil => simp [hi] at h
      | cons _ _ => rfl
    have hk : keepIds f = fun s => f.ids.contains s.id := by
      funext s; simp [keepIds, hne]
    rw [hk]
    exact (idsFilter_perm f.ids hids collected).trans (hperm.filter _)
  · rw [if_neg h]
    have hnil : f.ids = [] := by
      cases hi : f.ids with
      | nil => rfl
      | cons _ _ => simp [hi] at h
    have hk : keepIds f = fun _ => true := by
      funext s; simp [keepIds, hnil]
    rw [hk, List.filter_eq_self.mpr (fun _ _ => rfl)]
    exact hperm

theorem applyName_perm (f : Filter) (xs ys : List Store) (hperm : xs.Perm ys) :
    (applyName f xs).Perm (ys.filter (keepName f)) := by
  unfold applyName
  by_cases h : f.name ≠ ""
  · rw [if_pos h]
    have hk : keepName f = fun s => s.name == f.name := by
      funext s
      have : (f.name == "") = false := by simpa using h
      simp [keepName, this]
    rw [hk]
    exact hperm.filter _
  · rw [if_neg h]
    have hk : keepName f = fun _ => true := by
      funext s
      have : f.name = "" := by simpa using h
      simp [keepName, this]
    rw [hk, List.filter_eq_self.mpr (fun _ _ => rfl)]
    exact hperm

theorem filters_perm (f : Filter) (values collected : List Store) (hperm : collected.Perm values) (hids : f.ids.Nodup) :
    (applyName f (applyIds f collected)).Perm (values.filter (keep f)) := by
  rw [keep_eq, ← List.filter_filter]
  exact applyName_perm f _ _ (applyIds_perm f values collected hperm hids)

/-- **the slice handed to the paging tail is `values.filter keep` in id order** — whatever order the map iteration
produced (`collected`) and whatever order the caller's id list has -/
theorem filteredSorted_eq (f : Filter) (values collected : List Store)
    (hs : values.Pairwise (fun a b => a.id < b.id)) (hperm : collected.Perm values) (hids : f.ids.Nodup) :
    filteredSorted f collected = values.filter (keep f) := by
  have hp : (filteredSorted f collected).Perm (values.filter (keep f)) :=
    (sortById_perm _).trans (filters_perm f values collected hperm hids)
  refine List.Perm.eq_of_pairwise (le := fun a b => a.id ≤ b.id) ?_ (sortById_sorted _) ?_ hp
  · intro a b ha hb hab hba
    have ha' : a ∈ values := (List.mem_filter.mp (hp.subset ha)).1
    have hb' : b ∈ values := (List.mem_filter.mp hb).1
    exact id_inj_of_sorted values hs a ha' b hb' (Nat.le_antisymm hab hba)
  · exact (hs.sublist List.filter_sublist).imp (fun h => Nat.le_of_lt h)

/-! ### the early return on an empty window does not change the answer -/

theorem cutPage_eq (l : List Store) (ps : Nat) (hps : 1 ≤ ps) (frm : Int) : cutPage l ps frm = memClampPage l ps frm := by
  unfold cutPage
  by_cases he : (memClampPage l ps frm).1.isEmpty
  · simp only [he, if_true]
    have hnil : (memClampPage l ps frm).1 = [] := by simpa using he
    unfold memClampPage at hnil ⊢
    simp only at hnil ⊢
    generalize hf : (max 0 (min frm (l.length : Int))).toNat = f at hnil ⊢
    have hfl : f ≤ l.length := by omega
    have hlen : ((l.drop f).take (min l.length (f + ps) - f)).length = 0 := by rw [hnil]; rfl
    simp only [List.length_take, List.length_drop] at hlen
    have hfe : f = l.length := by omega
    have hto : min l.length (f + ps) = l.length := by omega
    rw [hnil, hto]
    simp
  · simp [he]

theorem listStores_eq (f : Filter) (values collected : List Store)
    (hs : values.Pairwise (fun a b => a.id < b.id)) (hperm : collected.Perm values) (hids : f.ids.Nodup)
    (ps : Nat) (hps : 1 ≤ ps) (frm : Int) :
    listStores f collected ps frm = memClampPage (values.filter (keep f)) ps frm := by
  unfold listStores
  rw [cutPage_eq _ ps hps, filteredSorted_eq f values collected hs hperm hids]

/-! ### paging: every call may see another map order and another order of the id list -/

theorem keep_perm_ids (ids ids' : List Nat) (name : String) (hp : ids'.Perm ids) :
    keep { ids := ids', name := name } = keep { ids := ids, name := name } := by
  funext s
  have h1 : ids'.isEmpty = ids.isEmpty := by
    have := hp.length_eq
    cases ids' <;> cases ids <;> simp_all
  have h2 : ids'.contains s.id = ids.contains s.id := by
    rw [Bool.eq_iff_iff]
    simp [hp.mem_iff]
  show ((ids'.isEmpty || ids'.contains s.id) && (name == "" || s.name == name)) =
    ((ids.isEmpty || ids.contains s.id) && (name == "" || s.name == name))
  rw [h1, h2]

theorem followListStores_eq (values : List Store) (hs : values.Pairwise (fun a b => a.id < b.id))
    (ids : List Nat) (hids : ids.Nodup) (name : String)
    (coll : Nat → List Store) (hcoll : ∀ c, (coll c).Perm values)
    (idsAt : Nat → List Nat) (hidsAt : ∀ c, (idsAt c).Perm ids) (ps : Nat) (hps : 1 ≤ ps) :
    ∀ fuel c k, followListStores listStores coll idsAt name ps fuel c k =
      followMemClamp (values.filter (keep { ids := ids, name := name })) ps fuel k := by
  intro fuel
  induction fuel with
  | zero => intro c k; rfl
  | succ fuel ih =>
    intro c k
    unfold followListStores followMemClamp
    have hnd : (idsAt c).Nodup := (hidsAt c).nodup_iff.mpr hids
    rw [listStores_eq { ids := idsAt c, name := name } values (coll c) hs (hcoll c) hnd ps hps,
      keep_perm_ids ids (idsAt c) name (hidsAt c)]
    cases hm : memClampPage (values.filter (keep { ids := ids, name := name })) ps (k : Int) with
    | mk xs tok =>
      cases tok with
      | none => rfl
      | some n => simp only [ih]

end OpenFGAVerif.Proofs.ListStoresMem
