/-
Basic facts about the ListUsers model (`Model/ListUsers.lean`): the map helpers, the executable
instance is one of the schedules of the relation, no result is returned twice.
-/
import OpenFGAVerif.Model.ListUsers

set_option linter.unusedSectionVars false

namespace OpenFGAVerif.ListUsers

section
variable {K : Type} [DecidableEq K]

theorem mem_dedup {l : List K} {a : K} : a ∈ dedup l ↔ a ∈ l := by
  induction l with
  | nil => simp [dedup]
  | cons b l ih =>
    simp only [dedup]
    split
    · rename_i h
      constructor
      · intro h'; exact List.mem_cons_of_mem _ (ih.mp h')
      · intro h'
        rcases List.mem_cons.mp h' with rfl | h'
        · exact h
        · exact ih.mpr h'
    · simp [ih]

theorem nodup_dedup (l : List K) : (dedup l).Nodup := by
  induction l with
  | nil => simp [dedup]
  | cons b l ih =>
    simp only [dedup]
    split
    · exact ih
    · rename_i h; exact List.nodup_cons.mpr ⟨h, ih⟩

theorem mem_keysOf {l : List (Found K)} {k : K} : k ∈ keysOf l ↔ ∃ f ∈ l, f.user = k := by
  simp [keysOf, mem_dedup]

theorem pick_some {lw : Bool} {l : List (Found K)} {k : K} {f : Found K} (h : pick lw l k = some f) :
    f ∈ l ∧ f.user = k := by
  unfold pick at h
  split at h
  · have h1 := List.mem_of_find?_eq_some h
    have h2 := List.find?_some h
    exact ⟨List.mem_reverse.mp h1, by simpa using h2⟩
  · have h1 := List.mem_of_find?_eq_some h
    have h2 := List.find?_some h
    exact ⟨h1, by simpa using h2⟩

theorem pick_isSome {lw : Bool} {l : List (Found K)} {k : K} (h : ∃ f ∈ l, f.user = k) :
    ∃ g, pick lw l k = some g := by
  obtain ⟨f, hf, hk⟩ := h
  unfold pick
  split
  · cases hfind : l.reverse.find? (fun x => decide (x.user = k)) with
    | some g => exact ⟨g, rfl⟩
    | none =>
      have := List.find?_eq_none.mp hfind f (List.mem_reverse.mpr hf)
      simp [hk] at this
  · cases hfind : l.find? (fun x => decide (x.user = k)) with
    | some g => exact ⟨g, rfl⟩
    | none =>
      have := List.find?_eq_none.mp hfind f hf
      simp [hk] at this

/-- the executable map builder produces one of the maps the schedule-free relation allows -/
theorem isMapOf_mapOf (lw : Bool) (l : List (Found K)) : IsMapOf l (mapOf lw l) := by
  refine ⟨?_, ?_, ?_⟩
  · intro f hf
    obtain ⟨k, _, hk⟩ := List.mem_filterMap.mp hf
    exact (pick_some hk).1
  · intro f hf
    obtain ⟨g, hg⟩ := pick_isSome (lw := lw) ⟨f, hf, rfl⟩
    exact ⟨g, List.mem_filterMap.mpr ⟨f.user, mem_keysOf.mpr ⟨f, hf, rfl⟩, hg⟩, (pick_some hg).2⟩
  · unfold mapOf
    have hnd := nodup_dedup (l.map (·.user))
    have key : ∀ ks : List K, ks.Nodup → ((ks.filterMap (pick lw l)).map (·.user)).Nodup ∧
        ∀ k, k ∈ (ks.filterMap (pick lw l)).map (·.user) → k ∈ ks := by
      intro ks
      induction ks with
      | nil => intro _; simp
      | cons a ks ih =>
        intro hn
        have ⟨ha, hks⟩ := List.nodup_cons.mp hn
        obtain ⟨ih1, ih2⟩ := ih hks
        cases hp : pick lw l a with
        | none =>
          simp only [List.filterMap_cons, hp]
          exact ⟨ih1, fun k hk => List.mem_cons_of_mem _ (ih2 k hk)⟩
        | some g =>
          simp only [List.filterMap_cons, hp, List.map_cons]
          have hg := (pick_some hp).2
          refine ⟨List.nodup_cons.mpr ⟨?_, ih1⟩, ?_⟩
          · intro hmem; rw [hg] at hmem; exact ha (ih2 a hmem)
          · intro k hk
            rcases List.mem_cons.mp hk with rfl | hk
            · rw [hg]; exact List.mem_cons_self
            · exact List.mem_cons_of_mem _ (ih2 k hk)
    exact (key _ hnd).1

omit [DecidableEq K] in
/-- **no duplicates**: the users of an answer are the keys of a map -/
theorem finalOf_nodup {l m : List (Found K)} (h : IsMapOf l m) : (finalOf m).Nodup := by
  unfold finalOf
  have h3 := h.2.2
  have : ∀ m : List (Found K), (m.map (·.user)).Nodup → ((m.filter (·.status = .has)).map (·.user)).Nodup := by
    intro m
    induction m with
    | nil => simp
    | cons a m ih =>
      intro hn
      simp only [List.map_cons] at hn
      have ⟨ha, hm⟩ := List.nodup_cons.mp hn
      simp only [List.filter_cons]
      split
      · simp only [List.map_cons]
        refine List.nodup_cons.mpr ⟨?_, ih hm⟩
        intro hmem
        apply ha
        obtain ⟨g, hg, hgu⟩ := List.mem_map.mp hmem
        exact List.mem_map.mpr ⟨g, (List.mem_filter.mp hg).1, hgu⟩
      · exact ih hm
  exact this m h3

omit [DecidableEq K] in
theorem mem_finalOf {m : List (Found K)} {k : K} :
    k ∈ finalOf m ↔ ∃ f ∈ m, f.user = k ∧ f.status = .has := by
  simp [finalOf, List.mem_map, List.mem_filter]
  constructor
  · rintro ⟨f, ⟨hf, hs⟩, hk⟩; exact ⟨f, hf, hk, hs⟩
  · rintro ⟨f, hf, hk, hs⟩; exact ⟨f, ⟨hf, hs⟩, hk⟩

end

/-- The executable evaluator is one of the evaluations the relation allows. -/
theorem expandF_expand {N K : Type} [DecidableEq N] [DecidableEq K] (sys : LSys N K) (limit : Nat) (sc : Sched) :
    ∀ (fuel d : Nat) (V : List N) (e : LExpr N K), Expand sys limit d V e (expandF sys limit sc fuel d V e) := by
  intro fuel
  induction fuel with
  | zero => intro d V e; exact .abort e
  | succ fuel ih =>
    intro d V e
    cases e with
    | send ks => exact .send ks
    | fail => exact .fail
    | note s => exact .note s
    | node n =>
      simp only [expandF]
      by_cases hd : d ≥ limit
      · rw [if_pos hd]; exact .node_depth n hd
      · rw [if_neg hd]
        by_cases hm : n ∈ V
        · rw [if_pos hm]; exact .node_cycle n (Nat.lt_of_not_ge hd) hm
        · rw [if_neg hm]; exact .node_eval n _ (Nat.lt_of_not_ge hd) hm (ih _ _ _)
    | bag keep es =>
      simp only [expandF]
      refine .bag keep es _ (by simp) ?_
      intro i h1 h2; simp only [List.getElem_map]; exact ih _ _ _
    | union es =>
      simp only [expandF]
      refine .union es _ (by simp) ?_
      intro i h1 h2; simp only [List.getElem_map]; exact ih _ _ _
    | inter es =>
      simp only [expandF]
      refine .inter es _ (by simp) ?_
      intro i h1 h2; simp only [List.getElem_map]; exact ih _ _ _
    | diff b s =>
      simp only [expandF]
      split
      · rename_i hc; exact .diff_cycle b s _ _ (ih _ _ _) (ih _ _ _) hc
      · rename_i hc
        exact .diff b s _ _ _ _ (ih _ _ _) (ih _ _ _) (by simpa using hc) (isMapOf_mapOf _ _) (isMapOf_mapOf _ _)

/-- … and so is the executable `ListUsers`. -/
theorem listUsersF_rel {N K : Type} [DecidableEq N] [DecidableEq K] (sys : LSys N K) (limit : Nat) (sc : Sched)
    (fuel : Nat) (root : N) : ListUsersRel sys limit root (listUsersF sys limit sc fuel root) :=
  ⟨_, _, expandF_expand sys limit sc fuel 0 [] (.node root), isMapOf_mapOf _ _, rfl⟩

/-- **lu_nodup**, every schedule: no user is returned twice -/
theorem lu_nodup {N K : Type} [DecidableEq N] [DecidableEq K] (sys : LSys N K) (limit : Nat) (root : N) (a : Answer K)
    (h : ListUsersRel sys limit root a) : a.users.Nodup := by
  obtain ⟨r, m, _, hm, rfl⟩ := h
  exact finalOf_nodup hm

end OpenFGAVerif.ListUsers
