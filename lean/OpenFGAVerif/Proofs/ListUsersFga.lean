/-
C06 for the FGA instance (`luRule`, `luSys`, `listUsers` of `Model/ListUsers.lean`):

  * `luRule_sendsOnly`   what the expansion leaves of the FGA rules write: the self userset `object#relation`
                         when type and relation of the sub-problem equal the filter, and — only for a filter
                         without relation — directly assigned objects / wildcards of the filter type (`EntryOK`);
  * `lu_filter_fga`      hence every user returned by any schedule satisfies `EntryOK`;
  * `lu_filter_full`     the full filter statement (`LU_Filter_Full`: type and relation of every returned user
                         equal the filter), given the string fact that `object#relation` keys split back into
                         their parts (finding LU-D is fixed);
  * `luSys_stage1`       worlds without a wildcard tuple of the filter type (and without empty intersections)
                         are in the wildcard-free stage;
  * `lu_exact1_fga`      so `lu_exact1` applies to them;
  * `luSys_stage2`, `lu_exact2_fga`   worlds with wildcards: the hypotheses of the wildcard stage are string
                         facts about `tuple.IsTypedWildcard` / `tuple.TypedPublicWildcard` on the keys that occur
                         (C29's domain) plus "no empty intersection".
-/
import OpenFGAVerif.Proofs.ListUsersStage1
import OpenFGAVerif.Proofs.ListUsersStage2
import OpenFGAVerif.Proofs.ListUsersFilter
import OpenFGAVerif.Proofs.RefRules

set_option linter.unusedSectionVars false

namespace OpenFGAVerif.ListUsers
open OpenFGAVerif.Vocab OpenFGAVerif.CheckV1 OpenFGAVerif.BoolSys

/-- what an entry of an answer can be -/
def EntryOK (f : Filter) (k : String) : Prop :=
  (∃ n : Node, k = usersetKey n ∧ typeOf n.1 = f.typ ∧ n.2 = f.rel) ∨
  (f.rel = "" ∧ isUserset k = false ∧ userType k = f.typ)

theorem directL_sendsOnly (w : World) (f : Filter) (o r : String) :
    SendsOnly (N := Node) (EntryOK f) (directL w f o r) := by
  unfold directL
  refine .bag _ _ ?_
  intro e he
  obtain ⟨⟨t, c⟩, _, rfl⟩ := List.mem_map.mp he
  cases c with
  | err => exact .fail
  | ff => exact .send _ (fun k hk => by cases hk)
  | tt =>
    simp only
    by_cases hu : isUserset t.user = true
    · rw [if_pos hu]; exact .node _
    · rw [if_neg hu]
      by_cases hc : (decide (userType t.user = f.typ) && decide (f.rel = "")) = true
      · rw [if_pos hc]
        simp only [Bool.and_eq_true, decide_eq_true_eq] at hc
        have hok : EntryOK f t.user := .inr ⟨hc.2, by simpa using hu, hc.1⟩
        exact .send _ (fun k hk => by rw [List.mem_singleton.mp hk]; exact hok)
      · rw [if_neg hc]; exact .send _ (fun k hk => by cases hk)

theorem ttuL_sendsOnly (w : World) (f : Filter) (o ts cr : String) :
    SendsOnly (N := Node) (EntryOK f) (ttuL w o ts cr) := by
  unfold ttuL
  refine .bag _ _ ?_
  intro e he
  obtain ⟨⟨t, c⟩, _, rfl⟩ := List.mem_map.mp he
  cases c with
  | err => exact .fail
  | ff => exact .send _ (fun k hk => by cases hk)
  | tt => exact .node _

theorem rewriteL_sendsOnly (w : World) (f : Filter) (o r : String) :
    ∀ rw, SendsOnly (N := Node) (EntryOK f) (rewriteL w f o r rw) := by
  apply RefRules.Rewrite.ind
  · simp only [rewriteL]; exact directL_sendsOnly w f o r
  · intro r'; simp only [rewriteL]; exact .node _
  · intro ts cr; simp only [rewriteL]; exact ttuL_sendsOnly w f o ts cr
  · intro cs ih
    simp only [rewriteL]
    refine .union _ ?_
    intro e he
    obtain ⟨c, hc, rfl⟩ := List.mem_map.mp he
    exact ih c hc
  · intro cs ih
    simp only [rewriteL]
    refine .inter _ ?_
    intro e he
    obtain ⟨c, hc, rfl⟩ := List.mem_map.mp he
    exact ih c hc
  · intro b s ihb ihs
    simp only [rewriteL]
    exact .diff _ _ ihb ihs

theorem luRule_sendsOnly (w : World) (f : Filter) (n : Node) :
    SendsOnly (N := Node) (EntryOK f) (luRule w f n) := by
  obtain ⟨o, r⟩ := n
  unfold luRule
  refine .bag _ _ ?_
  intro e he
  simp only [List.mem_cons, List.not_mem_nil, or_false] at he
  rcases he with rfl | rfl
  · refine .send _ ?_
    intro k hk
    split at hk
    · rename_i hc
      simp only [Bool.and_eq_true, decide_eq_true_eq] at hc
      rw [List.mem_singleton.mp hk]
      exact .inl ⟨(o, r), rfl, hc.1, hc.2⟩
    · cases hk
  · cases hfr : w.model.findRel (typeOf o) r with
    | none => exact .send _ (fun k hk => by cases hk)
    | some rd => exact rewriteL_sendsOnly w f o r rd.rewrite

/-- **lu_filter** for the FGA rules, every schedule: every returned user is the self userset of a
sub-problem matching the filter in type and relation, or a directly assigned object / wildcard of the
filter type -/
theorem lu_filter_fga (w : World) (f : Filter) (limit : Nat) (root : Node) (a : Answer String)
    (h : ListUsersRel (luSys w f) limit root a) : ∀ k ∈ a.users, EntryOK f k :=
  lu_filter (luSys w f) limit (EntryOK f) (luRule_sendsOnly w f) root a h

/-- the full statement: every returned user matches the filter in type and relation.  `hkey` is the string
fact (C29's domain) that a key `object#relation` built for a sub-problem matching the filter splits back into
that type and relation. -/
def LU_Filter_Full : Prop :=
  ∀ (w : World) (f : Filter) (limit : Nat) (root : Node) (a : Answer String),
    (∀ n : Node, typeOf n.1 = f.typ → n.2 = f.rel →
      userType (usersetKey n) = f.typ ∧ userRel (usersetKey n) = f.rel) →
    ListUsersRel (luSys w f) limit root a → ∀ k ∈ a.users, userType k = f.typ ∧ userRel k = f.rel

/-- **lu_filter at full strength** (LU-D fixed): every schedule, every world -/
theorem lu_filter_full : LU_Filter_Full := by
  intro w f limit root a hkey h k hk
  rcases lu_filter_fga w f limit root a h k hk with ⟨n, rfl, h1, h2⟩ | ⟨hr, hu, ht⟩
  · exact hkey n h1 h2
  · refine ⟨ht, ?_⟩
    rw [hr]
    simpa [isUserset, userRel] using hu

/-! ### the wildcard-free stage -/

/-- no intersection of the model is empty -/
inductive InterNonempty : Rewrite → Prop
  | this : InterNonempty .this
  | computed (r : String) : InterNonempty (.computed r)
  | ttu (ts cr : String) : InterNonempty (.ttu ts cr)
  | union {cs : List Rewrite} : (∀ c ∈ cs, InterNonempty c) → InterNonempty (.union cs)
  | inter {cs : List Rewrite} : cs ≠ [] → (∀ c ∈ cs, InterNonempty c) → InterNonempty (.inter cs)
  | diff {b s : Rewrite} : InterNonempty b → InterNonempty s → InterNonempty (.diff b s)

/-- hypotheses of the wildcard-free stage for a world and a filter:
  `tuples`  no tuple assigns a wildcard of the filter type (a non-userset user of the filter type is neither
            the wildcard key nor a typed wildcard);
  `selfKey` string fact about `object#relation` keys (C29's domain): they are not wildcards;
  `inter`   no empty intersection in the model. -/
structure WildFree (w : World) (f : Filter) : Prop where
  tuples : ∀ t ∈ w.all, isUserset t.user = false → userType t.user = f.typ →
    t.user ≠ f.typ ++ ":*" ∧ isTypedWildcard t.user = false
  selfKey : ∀ n : Node, typeOf n.1 = f.typ → n.2 = f.rel →
    usersetKey n ≠ f.typ ++ ":*" ∧ isTypedWildcard (usersetKey n) = false
  inter : ∀ typ rel rd, w.model.findRel typ rel = some rd → InterNonempty rd.rewrite

theorem mem_readTuples {w : World} {o r : String} {t : Tuple} {c : CondVal} (h : (t, c) ∈ readTuples w o r) :
    t ∈ w.all := by
  unfold readTuples at h
  obtain ⟨t', ht', heq⟩ := List.mem_map.mp h
  simp only [Prod.mk.injEq] at heq
  rw [← heq.1]
  exact (List.mem_filter.mp (List.mem_filter.mp ht').1).1

theorem stage1_sendNil {sys : LSys Node String} : Stage1E sys (.send []) :=
  .send _ (by simp) (by simp)

theorem directL_stage1 (w : World) (f : Filter) (hw : WildFree w f) (o r : String) :
    Stage1E (luSys w f) (directL w f o r) := by
  unfold directL
  refine .bag _ _ ?_
  intro e he
  obtain ⟨⟨t, c⟩, htc, rfl⟩ := List.mem_map.mp he
  cases c with
  | err => exact .fail
  | ff => exact stage1_sendNil
  | tt =>
    simp only
    by_cases hu : isUserset t.user = true
    · rw [if_pos hu]; exact .node _
    · rw [if_neg hu]
      by_cases hc : (decide (userType t.user = f.typ) && decide (f.rel = "")) = true
      · rw [if_pos hc]
        simp only [Bool.and_eq_true, decide_eq_true_eq] at hc
        obtain ⟨h1, h2⟩ := hw.tuples t (mem_readTuples htc) (by simpa using hu) hc.1
        exact .send _ (by simp only [luSys, List.mem_singleton]; exact fun h => h1 h.symm)
          (fun k hk => by rw [List.mem_singleton.mp hk]; exact h2)
      · rw [if_neg hc]; exact stage1_sendNil

theorem ttuL_stage1 (w : World) (f : Filter) (o ts cr : String) : Stage1E (luSys w f) (ttuL w o ts cr) := by
  unfold ttuL
  refine .bag _ _ ?_
  intro e he
  obtain ⟨⟨t, c⟩, _, rfl⟩ := List.mem_map.mp he
  cases c with
  | err => exact .fail
  | ff => exact stage1_sendNil
  | tt => exact .node _

theorem rewriteL_stage1 (w : World) (f : Filter) (hw : WildFree w f) (o r : String) :
    ∀ rw, InterNonempty rw → Stage1E (luSys w f) (rewriteL w f o r rw) := by
  apply RefRules.Rewrite.ind
  · intro _; simp only [rewriteL]; exact directL_stage1 w f hw o r
  · intro r' _; simp only [rewriteL]; exact .node _
  · intro ts cr _; simp only [rewriteL]; exact ttuL_stage1 w f o ts cr
  · intro cs ih hn
    cases hn with
    | union hcs =>
      simp only [rewriteL]
      refine .union _ ?_
      intro e he
      obtain ⟨c, hc, rfl⟩ := List.mem_map.mp he
      exact ih c hc (hcs c hc)
  · intro cs ih hn
    cases hn with
    | inter hne hcs =>
      simp only [rewriteL]
      refine .inter _ (by simpa using hne) ?_
      intro e he
      obtain ⟨c, hc, rfl⟩ := List.mem_map.mp he
      exact ih c hc (hcs c hc)
  · intro b s ihb ihs hn
    cases hn with
    | diff hb hs =>
      simp only [rewriteL]
      exact .diff _ _ (ihb hb) (ihs hs)

theorem luSys_stage1 (w : World) (f : Filter) (hw : WildFree w f) : Stage1 (luSys w f) := by
  intro n
  obtain ⟨o, r⟩ := n
  show Stage1E (luSys w f) (luRule w f (o, r))
  unfold luRule
  refine .bag _ _ ?_
  intro e he
  simp only [List.mem_cons, List.not_mem_nil, or_false] at he
  rcases he with rfl | rfl
  · by_cases hc : (decide (typeOf o = f.typ) && decide (r = f.rel)) = true
    · rw [if_pos hc]
      simp only [Bool.and_eq_true, decide_eq_true_eq] at hc
      obtain ⟨h1, h2⟩ := hw.selfKey (o, r) hc.1 hc.2
      exact .send _ (by simp only [luSys, List.mem_singleton]; exact fun h => h1 h.symm)
        (fun k hk => by rw [List.mem_singleton.mp hk]; exact h2)
    · rw [if_neg hc]; exact stage1_sendNil
  · cases hfr : w.model.findRel (typeOf o) r with
    | none => exact stage1_sendNil
    | some rd => exact rewriteL_stage1 w f hw o r rd.rewrite (hw.inter _ _ rd hfr)

/-- **C06 for wildcard-free worlds, every schedule**: an answer of the FGA rules without error and without
ghost note returns `u` only if `u` definitely holds the relation, and returns every `u` that possibly
holds it. -/
theorem lu_exact1_fga (w : World) (f : Filter) (hw : WildFree w f) (limit : Nat) (u : String) (cw : Bool)
    (I : Interp Node) (hc : Coherent (specSys (luSys w f) u cw) I) (root : Node) (a : Answer String)
    (h : ListUsersRel (luSys w f) limit root a) (he : a.errs = []) (hn : a.notes = []) :
    (u ∈ a.users → D (specSys (luSys w f) u cw) I [] root) ∧
    (P (specSys (luSys w f) u cw) I [] root → u ∈ a.users) :=
  lu_exact1 (luSys w f) limit u cw I (luSys_stage1 w f hw) hc root a h he hn

/-! ### the wildcard stage -/

/-- hypotheses of the wildcard stage for a world and a filter (string facts about the keys that occur):
  `wk`       `type:*` is a typed wildcard;
  `tuples`   a directly assigned non-userset user of the filter type that is a typed wildcard is `type:*`;
  `selfKey`  `object#relation` keys are not typed wildcards;
  `inter`    no empty intersection in the model. -/
structure WildOK (w : World) (f : Filter) : Prop where
  wk : isTypedWildcard (f.typ ++ ":*") = true
  tuples : ∀ t ∈ w.all, isUserset t.user = false → userType t.user = f.typ →
    isTypedWildcard t.user = true → t.user = f.typ ++ ":*"
  selfKey : ∀ n : Node, typeOf n.1 = f.typ → n.2 = f.rel → isTypedWildcard (usersetKey n) = false
  inter : ∀ typ rel rd, w.model.findRel typ rel = some rd → InterNonempty rd.rewrite

theorem stage2_sendNil {sys : LSys Node String} : Stage2E sys (.send []) :=
  .send _ (fun k hk => by cases hk)

theorem directL_stage2 (w : World) (f : Filter) (hw : WildOK w f) (o r : String) :
    Stage2E (luSys w f) (directL w f o r) := by
  unfold directL
  refine .bag _ _ ?_
  intro e he
  obtain ⟨⟨t, c⟩, htc, rfl⟩ := List.mem_map.mp he
  cases c with
  | err => exact .fail
  | ff => exact stage2_sendNil
  | tt =>
    simp only
    by_cases hu : isUserset t.user = true
    · rw [if_pos hu]; exact .node _
    · rw [if_neg hu]
      by_cases hc : (decide (userType t.user = f.typ) && decide (f.rel = "")) = true
      · rw [if_pos hc]
        simp only [Bool.and_eq_true, decide_eq_true_eq] at hc
        exact .send _ (fun k hk hwild => by
          rw [List.mem_singleton.mp hk] at hwild ⊢
          exact hw.tuples t (mem_readTuples htc) (by simpa using hu) hc.1 hwild)
      · rw [if_neg hc]; exact stage2_sendNil

theorem ttuL_stage2 (w : World) (f : Filter) (o ts cr : String) : Stage2E (luSys w f) (ttuL w o ts cr) := by
  unfold ttuL
  refine .bag _ _ ?_
  intro e he
  obtain ⟨⟨t, c⟩, _, rfl⟩ := List.mem_map.mp he
  cases c with
  | err => exact .fail
  | ff => exact stage2_sendNil
  | tt => exact .node _

theorem rewriteL_stage2 (w : World) (f : Filter) (hw : WildOK w f) (o r : String) :
    ∀ rw, InterNonempty rw → Stage2E (luSys w f) (rewriteL w f o r rw) := by
  apply RefRules.Rewrite.ind
  · intro _; simp only [rewriteL]; exact directL_stage2 w f hw o r
  · intro r' _; simp only [rewriteL]; exact .node _
  · intro ts cr _; simp only [rewriteL]; exact ttuL_stage2 w f o ts cr
  · intro cs ih hn
    cases hn with
    | union hcs =>
      simp only [rewriteL]
      refine .union _ ?_
      intro e he
      obtain ⟨c, hc, rfl⟩ := List.mem_map.mp he
      exact ih c hc (hcs c hc)
  · intro cs ih hn
    cases hn with
    | inter hne hcs =>
      simp only [rewriteL]
      refine .inter _ (by simpa using hne) ?_
      intro e he
      obtain ⟨c, hc, rfl⟩ := List.mem_map.mp he
      exact ih c hc (hcs c hc)
  · intro b s ihb ihs hn
    cases hn with
    | diff hb hs =>
      simp only [rewriteL]
      exact .diff _ _ (ihb hb) (ihs hs)

theorem luSys_stage2 (w : World) (f : Filter) (hw : WildOK w f) : Stage2 (luSys w f) := by
  refine ⟨hw.wk, ?_⟩
  intro n
  obtain ⟨o, r⟩ := n
  show Stage2E (luSys w f) (luRule w f (o, r))
  unfold luRule
  refine .bag _ _ ?_
  intro e he
  simp only [List.mem_cons, List.not_mem_nil, or_false] at he
  rcases he with rfl | rfl
  · by_cases hc : (decide (typeOf o = f.typ) && decide (r = f.rel)) = true
    · rw [if_pos hc]
      simp only [Bool.and_eq_true, decide_eq_true_eq] at hc
      refine .send _ (fun k hk hwild => ?_)
      rw [List.mem_singleton.mp hk] at hwild
      have := hw.selfKey (o, r) hc.1 hc.2
      simp only [luSys] at hwild
      rw [this] at hwild; cases hwild
    · rw [if_neg hc]; exact stage2_sendNil
  · cases hfr : w.model.findRel (typeOf o) r with
    | none => exact stage2_sendNil
    | some rd => exact rewriteL_stage2 w f hw o r rd.rewrite (hw.inter _ _ rd hfr)

/-- **C06 with wildcards for the FGA rules, every schedule**: an answer without error and without ghost note
returns a concrete subject `u` of the filter type (or the wildcard subject) only if it definitely holds the
relation, and every such subject that possibly holds it is returned, explicitly or through the returned
wildcard `type:*`. -/
theorem lu_exact2_fga (w : World) (f : Filter) (hw : WildOK w f) (limit : Nat) (u : String)
    (I : Interp Node) (hc : Coherent (specSys (luSys w f) u true) I) (root : Node) (a : Answer String)
    (h : ListUsersRel (luSys w f) limit root a) (he : a.errs = []) (hn : a.notes = []) :
    (u ∈ a.users → D (specSys (luSys w f) u true) I [] root) ∧
    (P (specSys (luSys w f) u true) I [] root → u ∈ a.users ∨ (f.typ ++ ":*") ∈ a.users) :=
  lu_exact2 (luSys w f) limit u I (luSys_stage2 w f hw) hc root a h he hn

end OpenFGAVerif.ListUsers
