/-
FGA instance of `Proofs/ListUsersStrat.lean`: no leaf of the FGA rules writes a ghost marker, so for a world whose Check-side system is stratified no answer carries `excl-sub-cut`, and the
exactness theorems hold with the hypothesis "no ghost note" restricted to the notes that are defects.
-/
import OpenFGAVerif.Proofs.ListUsersFga
import OpenFGAVerif.Proofs.ListUsersStrat

set_option linter.unusedSectionVars false

namespace OpenFGAVerif.ListUsers
open OpenFGAVerif.Vocab OpenFGAVerif.CheckV1 OpenFGAVerif.BoolSys

theorem directL_noteLeaf {w : World} {f : Filter} {o r s : String}
    (h : NoteLeaf (N := Node) s (directL w f o r)) : False := by
  unfold directL at h
  cases h with
  | bag hmem hn =>
    obtain ⟨⟨t, c⟩, _, rfl⟩ := List.mem_map.mp hmem
    cases c with
    | err => cases hn
    | ff => cases hn
    | tt =>
      simp only at hn
      split at hn
      · cases hn
      · split at hn <;> cases hn

theorem ttuL_noteLeaf {w : World} {o ts cr s : String}
    (h : NoteLeaf (N := Node) (K := String) s (ttuL w o ts cr)) : False := by
  unfold ttuL at h
  cases h with
  | bag hmem hn =>
    obtain ⟨⟨t, c⟩, _, rfl⟩ := List.mem_map.mp hmem
    cases c <;> cases hn

theorem rewriteL_noteLeaf (w : World) (f : Filter) (o r s : String) :
    ∀ rw, NoteLeaf (N := Node) s (rewriteL w f o r rw) → False := by
  apply RefRules.Rewrite.ind
  · intro h; simp only [rewriteL] at h; exact directL_noteLeaf h
  · intro r' h; simp only [rewriteL] at h; cases h
  · intro ts cr h; simp only [rewriteL] at h; exact ttuL_noteLeaf h
  · intro cs ih h
    simp only [rewriteL] at h
    cases h with
    | union hmem hn =>
      obtain ⟨c, hc, rfl⟩ := List.mem_map.mp hmem
      exact ih c hc hn
  · intro cs ih h
    simp only [rewriteL] at h
    cases h with
    | inter hmem hn =>
      obtain ⟨c, hc, rfl⟩ := List.mem_map.mp hmem
      exact ih c hc hn
  · intro b t ihb iht h
    simp only [rewriteL] at h
    cases h with
    | diffB hn => exact ihb hn
    | diffS hn => exact iht hn

/-- the FGA rules write no ghost marker at all -/
theorem luRule_noteLeaf {w : World} {f : Filter} {n : Node} {s : String}
    (h : NoteLeaf s (luRule w f n)) : False := by
  obtain ⟨o, r⟩ := n
  unfold luRule at h
  cases h with
  | bag hmem hn =>
    simp only [List.mem_cons, List.not_mem_nil, or_false] at hmem
    rcases hmem with rfl | rfl
    · cases hn
    · cases hfr : w.model.findRel (typeOf o) r with
      | none => rw [hfr] at hn; cases hn
      | some rd => rw [hfr] at hn; exact rewriteL_noteLeaf w f o r s rd.rewrite hn

/-- no answer of the FGA rules carries `excl-sub-cut` when the Check-side system is stratified -/
theorem answer_no_sub_cut_fga (w : World) (f : Filter) (limit : Nat) (u : String) (cw : Bool) (rk : Node → Nat)
    (hs : Stratified (specSys (luSys w f) u cw) rk) (root : Node) (a : Answer String)
    (h : ListUsersRel (luSys w f) limit root a) : "excl-sub-cut" ∉ a.notes :=
  answer_no_sub_cut (luSys w f) limit u cw rk hs
    (fun _ hl => luRule_noteLeaf hl) root a h

end OpenFGAVerif.ListUsers
