/-
C06, `lu_filter` at the abstract layer, every schedule: whatever property the keys written by the leaves
(`send`) have, every entry of every response — and every key in an `excludedUsers` list — has it.  The
reducers never invent a key.
-/
import OpenFGAVerif.Proofs.ListUsersSem

set_option linter.unusedSectionVars false

namespace OpenFGAVerif.ListUsers

section
variable {N K : Type} [DecidableEq N] [DecidableEq K]

/-- every key written by a leaf of the expression satisfies `P` -/
inductive SendsOnly (P : K → Prop) : LExpr N K → Prop
  | send (ks : List K) : (∀ k ∈ ks, P k) → SendsOnly P (.send ks)
  | fail : SendsOnly P .fail
  | note (s : String) : SendsOnly P (.note s)
  | node (n : N) : SendsOnly P (.node n)
  | bag (keep : Bool) (es : List (LExpr N K)) : (∀ e ∈ es, SendsOnly P e) → SendsOnly P (.bag keep es)
  | union (es : List (LExpr N K)) : (∀ e ∈ es, SendsOnly P e) → SendsOnly P (.union es)
  | inter (es : List (LExpr N K)) : (∀ e ∈ es, SendsOnly P e) → SendsOnly P (.inter es)
  | diff (b s : LExpr N K) : SendsOnly P b → SendsOnly P s → SendsOnly P (.diff b s)

def KeysOK (P : K → Prop) (l : List (Found K)) : Prop := ∀ f ∈ l, P f.user ∧ ∀ k ∈ f.excluded, P k

theorem mem_flipList {st st' : Status} {u : K} {f : Found K}
    (h : f ∈ (if st = .has then [({ user := u, status := .no } : Found K)] else []) ++
             (if st = .no then [({ user := u, status := st' } : Found K)] else [])) :
    f.user = u ∧ f.excluded = [] := by
  cases st <;> simp at h <;> subst h <;> exact ⟨rfl, rfl⟩

theorem mem_exclStep {wk : K} {isWild : K → Bool} {bm sm : List (Found K)} {fu f : Found K}
    (h : f ∈ exclStep wk isWild bm sm fu) :
    (f.user = fu.user ∨ ∃ s ∈ sm, f.user = s.user) ∧ ∀ k ∈ f.excluded, ∃ s ∈ sm, k = s.user := by
  unfold exclStep at h
  simp only at h
  split at h
  · rcases List.mem_append.mp h with h | h
    · split at h
      · simp only [List.mem_singleton] at h; subst h; exact ⟨.inl rfl, fun k hk => by cases hk⟩
      · cases h
    · obtain ⟨s, hs, hf⟩ := List.mem_flatMap.mp h
      split at hf
      · split at hf
        · simp only [List.mem_singleton] at hf; subst hf; exact ⟨.inl rfl, fun k hk => by cases hk⟩
        · cases hf
      · rcases List.mem_append.mp hf with hf | hf
        · split at hf
          · simp only [List.mem_singleton] at hf; subst hf
            exact ⟨.inr ⟨s, hs, rfl⟩, fun k hk => by cases hk⟩
          · cases hf
        · split at hf
          · simp only [List.mem_singleton] at hf; subst hf
            refine ⟨.inr ⟨s, hs, rfl⟩, fun k hk => ?_⟩
            simp only [List.mem_singleton] at hk
            exact ⟨s, hs, hk⟩
          · cases hf
  · split at h
    · obtain ⟨h1, h2⟩ := mem_flipList h
      exact ⟨.inl h1, fun k hk => by rw [h2] at hk; cases hk⟩
    · simp only [List.mem_singleton] at h; subst h; exact ⟨.inl rfl, fun k hk => by cases hk⟩

theorem keysOK_exclR {P : K → Prop} {wk : K} {isWild : K → Bool} {bm sm : List (Found K)}
    (hb : KeysOK P bm) (hs : KeysOK P sm) : KeysOK P (exclR wk isWild bm sm) := by
  intro f hf
  unfold exclR at hf
  obtain ⟨fu, hfu, hmem⟩ := List.mem_flatMap.mp hf
  obtain ⟨h1, h2⟩ := mem_exclStep hmem
  constructor
  · rcases h1 with h1 | ⟨s, hs', h1⟩
    · rw [h1]; exact (hb fu hfu).1
    · rw [h1]; exact (hs s hs').1
  · intro k hk
    obtain ⟨s, hs', rfl⟩ := h2 k hk
    exact (hs s hs').1

theorem keysOK_unionR {P : K → Prop} {chans : List (List (Found K))} (h : ∀ ch ∈ chans, KeysOK P ch) :
    KeysOK P (unionR chans) := by
  intro f hf
  obtain ⟨_, ⟨ch, hch, g, hg, hgu, _⟩, hex⟩ := mem_unionR hf
  refine ⟨hgu ▸ (h ch hch g hg).1, fun k hk => ?_⟩
  obtain ⟨ch', hch', g', hg', hkg⟩ := hex k hk
  exact (h ch' hch' g' hg').2 k hkg

theorem keysOK_interR {P : K → Prop} {wk : K} {chans : List (List (Found K))} (h : ∀ ch ∈ chans, KeysOK P ch) :
    KeysOK P (interR wk chans) := by
  intro f hf
  obtain ⟨_, ⟨ch, hch, hhas⟩, hex, _, _⟩ := mem_interR hf
  obtain ⟨g, hg, hgu, _⟩ := hasK_iff.mp hhas
  refine ⟨hgu ▸ (h ch hch g hg).1, fun k hk => ?_⟩
  obtain ⟨ch', hch', g', hg', hkg⟩ := hex k hk
  exact (h ch' hch' g' hg').2 k hkg

/-- every response of every schedule only contains keys written by some leaf -/
theorem expand_keys (sys : LSys N K) (limit : Nat) (P : K → Prop) (hsys : ∀ n, SendsOnly P (sys.rule n)) :
    ∀ {d : Nat} {V : List N} {e : LExpr N K} {r : Resp N K}, Expand sys limit d V e r →
      SendsOnly P e → KeysOK P r.found := by
  intro d V e r h
  induction h with
  | abort e => intro _ f hf; simp [abortResp] at hf
  | send ks =>
    intro hs f hf
    cases hs with
    | send _ hks =>
      simp only [sendResp, List.mem_map] at hf
      obtain ⟨k, hk, rfl⟩ := hf
      exact ⟨hks k hk, fun k' hk' => by cases hk'⟩
  | fail => intro _ f hf; simp [failResp] at hf
  | note s => intro _ f hf; simp [noteResp] at hf
  | node_depth n _ => intro _ f hf; simp [depthResp] at hf
  | node_cycle n _ _ => intro _ f hf; simp [cycleResp] at hf
  | node_eval n r _ _ _ ih => intro _; exact ih (hsys n)
  | @bag d V keep es rs hlen _ ih =>
    intro hs
    cases hs with
    | bag _ _ hes =>
      intro f hf
      simp only [bagResp] at hf
      obtain ⟨r', hr', hfr⟩ := List.mem_flatMap.mp hf
      obtain ⟨i, h2, rfl⟩ := List.getElem_of_mem hr'
      exact ih i (hlen ▸ h2) h2 (hes _ (List.getElem_mem _)) f hfr
  | @union d V es rs hlen _ ih =>
    intro hs
    cases hs with
    | union _ hes =>
      simp only [unionResp]
      apply keysOK_unionR
      intro ch hch
      obtain ⟨r', hr', rfl⟩ := List.mem_map.mp hch
      obtain ⟨i, h2, rfl⟩ := List.getElem_of_mem hr'
      exact ih i (hlen ▸ h2) h2 (hes _ (List.getElem_mem _))
  | @inter d V es rs hlen _ ih =>
    intro hs
    cases hs with
    | inter _ hes =>
      simp only [interResp]
      apply keysOK_interR
      intro ch hch
      obtain ⟨r', hr', rfl⟩ := List.mem_map.mp hch
      obtain ⟨i, h2, rfl⟩ := List.getElem_of_mem hr'
      exact ih i (hlen ▸ h2) h2 (hes _ (List.getElem_mem _))
  | diff_cycle b s rb rs _ _ _ _ _ => intro _ f hf; simp [diffCycleResp] at hf
  | diff b s rb rs bm sm _ _ _ hbm hsm ihb ihs =>
    intro hs
    cases hs with
    | diff _ _ hsb hss =>
      simp only [diffResp]
      exact keysOK_exclR (fun f hf => ihb hsb f (hbm.1 f hf)) (fun f hf => ihs hss f (hsm.1 f hf))

/-- **lu_filter**, every schedule: every returned user is a key written by a leaf -/
theorem lu_filter (sys : LSys N K) (limit : Nat) (P : K → Prop) (hsys : ∀ n, SendsOnly P (sys.rule n))
    (root : N) (a : Answer K) (h : ListUsersRel sys limit root a) : ∀ k ∈ a.users, P k := by
  obtain ⟨r, m, hexp, hm, rfl⟩ := h
  intro k hk
  obtain ⟨f, hf, hfu, _⟩ := mem_finalOf.mp hk
  exact hfu ▸ (expand_keys sys limit P hsys hexp (.node root) f (hm.1 f hf)).1

end
end OpenFGAVerif.ListUsers
