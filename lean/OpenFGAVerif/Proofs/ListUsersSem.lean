/-
Specification side of C06 at the abstract layer: the Check-side reading `proj u e` of an expansion
expression for one subject `u` (an expression of `Spec.BoolSys`), the system `specSys` whose least
fixpoint is "subject `u` holds the relation", and the reducer lemmas for the wildcard-free stage.
-/
import OpenFGAVerif.Proofs.ListUsersBasic
import OpenFGAVerif.Spec.BoolSys

set_option linter.unusedSectionVars false

namespace OpenFGAVerif.ListUsers
open OpenFGAVerif.BoolSys

section
variable {N K : Type} [DecidableEq K]

/-- what the expansion expression says about subject `u`.  `cw`: `u` is a concrete subject of the filter
type, i.e. one that a wildcard tuple `T:*` stands for (objects, not usersets, not the wildcard itself). -/
def proj (wk : K) (u : K) (cw : Bool) : LExpr N K → Expr N
  | .send ks => .lit (if ks.contains u || (cw && ks.contains wk) then .tt else .ff)
  | .fail => .lit .err
  | .note _ => .lit .ff
  | .node n => .node true n
  | .bag _ es => .or (es.map (proj wk u cw))
  | .union es => .or (es.map (proj wk u cw))
  | .inter es => .and (es.map (proj wk u cw))
  | .diff b s => .diff (proj wk u cw b) (proj wk u cw s)

/-- the equation system "subject `u` holds relation … on object …" -/
def specSys (sys : LSys N K) (u : K) (cw : Bool) : Sys N := { rule := fun n => proj sys.wk u cw (sys.rule n) }

/-! ### reducer lemmas -/

theorem hasK_iff {l : List (Found K)} {u : K} :
    hasK l u = true ↔ ∃ f ∈ l, f.user = u ∧ f.status = .has := by
  simp [hasK, List.any_eq_true]

theorem noK_iff {l : List (Found K)} {u : K} :
    noK l u = true ↔ ∃ f ∈ l, f.user = u ∧ f.status = .no := by
  simp [noK, List.any_eq_true]

theorem clash_false {l : List (Found K)} (h : clash l = false) {f g : Found K} (hf : f ∈ l) (hg : g ∈ l)
    (hu : f.user = g.user) : f.status = g.status := by
  unfold clash at h
  have h1 := List.any_eq_false.mp h f hf
  have h2 : ∀ x ∈ l, f.user = x.user → f.status = x.status := by simpa using h1
  exact h2 g hg hu

theorem noteIf_nil {b : Bool} {s : String} (h : noteIf b s = []) : b = false := by
  cases b <;> simp [noteIf] at h ⊢

theorem filter_length_eq {α : Type} (p : α → Bool) (l : List α) :
    (l.filter p).length = l.length ↔ ∀ x ∈ l, p x = true := by
  induction l with
  | nil => simp
  | cons a l ih =>
    simp only [List.filter_cons]
    split
    · rename_i ha
      simp only [List.length_cons, Nat.add_right_cancel_iff, ih]
      constructor
      · intro h x hx
        rcases List.mem_cons.mp hx with rfl | hx
        · exact ha
        · exact h x hx
      · intro h x hx; exact h x (List.mem_cons_of_mem _ hx)
    · rename_i ha
      constructor
      · intro h
        have := List.length_filter_le p l
        simp only [List.length_cons] at h
        omega
      · intro h; exact absurd (h a List.mem_cons_self) ha

/-- wildcard-free stage: no entry is the wildcard, no entry carries exclusions -/
def PlainL (wk : K) (isWild : K → Bool) (l : List (Found K)) : Prop :=
  ∀ f ∈ l, f.excluded = [] ∧ f.user ≠ wk ∧ isWild f.user = false

theorem mem_unionR {chans : List (List (Found K))} {f : Found K} (h : f ∈ unionR chans) :
    f.status = .has ∧ (∃ ch ∈ chans, ∃ g ∈ ch, g.user = f.user ∧ g.status = .has) ∧
    ∀ k ∈ f.excluded, ∃ ch ∈ chans, ∃ g ∈ ch, k ∈ g.excluded := by
  unfold unionR at h
  simp only [List.mem_map] at h
  obtain ⟨k, hk, rfl⟩ := h
  refine ⟨rfl, ?_, ?_⟩
  · obtain ⟨g, hg, hgu⟩ := mem_keysOf.mp hk
    obtain ⟨hg1, hg2⟩ := List.mem_filter.mp hg
    obtain ⟨ch, hch, hgch⟩ := List.mem_flatMap.mp hg1
    exact ⟨ch, hch, g, hgch, hgu, by simpa using hg2⟩
  · intro k' hk'
    have h1 := (List.mem_filter.mp hk').1
    have h2 := mem_dedup.mp h1
    obtain ⟨g, hg, hkg⟩ := List.mem_flatMap.mp h2
    obtain ⟨ch, hch, hgch⟩ := List.mem_flatMap.mp hg
    exact ⟨ch, hch, g, hgch, hkg⟩

theorem hasK_unionR {chans : List (List (Found K))} {u : K} :
    hasK (unionR chans) u = true ↔ ∃ ch ∈ chans, hasK ch u = true := by
  constructor
  · intro h
    obtain ⟨f, hf, hu, _⟩ := hasK_iff.mp h
    obtain ⟨_, ⟨ch, hch, g, hg, hgu, hgs⟩, _⟩ := mem_unionR hf
    exact ⟨ch, hch, hasK_iff.mpr ⟨g, hg, hgu.trans hu, hgs⟩⟩
  · rintro ⟨ch, hch, h⟩
    obtain ⟨g, hg, hgu, hgs⟩ := hasK_iff.mp h
    apply hasK_iff.mpr
    unfold unionR
    simp only [List.mem_map]
    refine ⟨_, ⟨u, mem_keysOf.mpr ⟨g, List.mem_filter.mpr ⟨List.mem_flatMap.mpr ⟨ch, hch, hg⟩, by simpa using hgs⟩, hgu⟩, rfl⟩, rfl, rfl⟩

theorem unionR_plain {wk : K} {isWild : K → Bool} {chans : List (List (Found K))}
    (h : ∀ ch ∈ chans, PlainL wk isWild ch) : PlainL wk isWild (unionR chans) := by
  intro f hf
  obtain ⟨_, ⟨ch, hch, g, hg, hgu, _⟩, hex⟩ := mem_unionR hf
  refine ⟨?_, ?_, ?_⟩
  · apply List.eq_nil_iff_forall_not_mem.mpr
    intro k hk
    obtain ⟨ch', hch', g', hg', hkg⟩ := hex k hk
    rw [(h ch' hch' g' hg').1] at hkg
    cases hkg
  · rw [← hgu]; exact (h ch hch g hg).2.1
  · rw [← hgu]; exact (h ch hch g hg).2.2

theorem mem_hasKeys {ch : List (Found K)} {k : K} : k ∈ hasKeys ch ↔ hasK ch k = true := by
  unfold hasKeys
  rw [mem_keysOf, hasK_iff]
  constructor
  · rintro ⟨f, hf, hu⟩
    obtain ⟨h1, h2⟩ := List.mem_filter.mp hf
    exact ⟨f, h1, hu, by simpa using h2⟩
  · rintro ⟨f, hf, hu, hs⟩
    exact ⟨f, List.mem_filter.mpr ⟨hf, by simpa using hs⟩, hu⟩

theorem mem_interR {wk : K} {chans : List (List (Found K))} {f : Found K} (h : f ∈ interR wk chans) :
    f.status = .has ∧ (∃ ch ∈ chans, hasK ch f.user = true) ∧
    (∀ k ∈ f.excluded, ∃ ch ∈ chans, ∃ g ∈ ch, k ∈ g.excluded) ∧
    interCount wk chans f.user + wildcardCount wk chans = chans.length ∧
    ¬ (∃ ch ∈ chans, ∃ g ∈ ch, f.user ∈ g.excluded) := by
  unfold interR at h
  simp only [List.mem_map] at h
  obtain ⟨k, hk, rfl⟩ := h
  obtain ⟨hk1, hk2⟩ := List.mem_filter.mp hk
  simp only [Bool.and_eq_true, Bool.not_eq_true', decide_eq_true_eq] at hk2
  refine ⟨rfl, ?_, ?_, hk2.2, ?_⟩
  · obtain ⟨ch, hch, hkc⟩ := List.mem_flatMap.mp (mem_dedup.mp hk1)
    exact ⟨ch, hch, mem_hasKeys.mp hkc⟩
  · intro k' hk'
    obtain ⟨g, hg, hkg⟩ := List.mem_flatMap.mp (mem_dedup.mp hk')
    obtain ⟨ch, hch, hgch⟩ := List.mem_flatMap.mp hg
    exact ⟨ch, hch, g, hgch, hkg⟩
  · rintro ⟨ch, hch, g, hg, hkg⟩
    have : k ∈ dedup ((chans.flatMap id).flatMap (·.excluded)) :=
      mem_dedup.mpr (List.mem_flatMap.mpr ⟨g, List.mem_flatMap.mpr ⟨ch, hch, hg⟩, hkg⟩)
    have h1 := hk2.1
    simp only [List.contains_eq_mem, decide_eq_false_iff_not] at h1
    exact h1 this

theorem interR_plain {wk : K} {isWild : K → Bool} {chans : List (List (Found K))}
    (h : ∀ ch ∈ chans, PlainL wk isWild ch) : PlainL wk isWild (interR wk chans) := by
  intro f hf
  obtain ⟨_, ⟨ch, hch, hhas⟩, hex, _, _⟩ := mem_interR hf
  obtain ⟨g, hg, hgu, _⟩ := hasK_iff.mp hhas
  refine ⟨?_, ?_, ?_⟩
  · apply List.eq_nil_iff_forall_not_mem.mpr
    intro k hk
    obtain ⟨ch', hch', g', hg', hkg⟩ := hex k hk
    rw [(h ch' hch' g' hg').1] at hkg
    cases hkg
  · rw [← hgu]; exact (h ch hch g hg).2.1
  · rw [← hgu]; exact (h ch hch g hg).2.2

/-- wildcard-free stage: the counting comparison of `expandIntersection` is "found by every operand" -/
theorem hasK_interR_plain {wk : K} {isWild : K → Bool} {chans : List (List (Found K))} (hne : chans ≠ [])
    (h : ∀ ch ∈ chans, PlainL wk isWild ch) {u : K} :
    hasK (interR wk chans) u = true ↔ ∀ ch ∈ chans, hasK ch u = true := by
  have hwk : ∀ ch ∈ chans, wk ∉ hasKeys ch := by
    intro ch hch
    intro hm
    obtain ⟨g, hg, hgu, _⟩ := hasK_iff.mp (mem_hasKeys.mp hm)
    exact (h ch hch g hg).2.1 hgu
  have hwc : wildcardCount wk chans = 0 := by
    unfold wildcardCount
    rw [List.length_eq_zero_iff, List.filter_eq_nil_iff]
    intro ch hch; simp [hwk ch hch]
  have hcount : ∀ k, interCount wk chans k = chans.length ↔ ∀ ch ∈ chans, hasK ch k = true := by
    intro k
    unfold interCount
    rw [filter_length_eq]
    constructor
    · intro hall ch hch
      have := hall ch hch
      simp only [Bool.and_eq_true, List.contains_eq_mem, decide_eq_true_eq] at this
      exact mem_hasKeys.mp this.1
    · intro hall ch hch
      simp only [Bool.and_eq_true, List.contains_eq_mem, decide_eq_true_eq, Bool.not_eq_true',
        decide_eq_false_iff_not]
      exact ⟨mem_hasKeys.mpr (hall ch hch), hwk ch hch⟩
  constructor
  · intro hh
    obtain ⟨f, hf, hu, _⟩ := hasK_iff.mp hh
    obtain ⟨_, _, _, hc, _⟩ := mem_interR hf
    rw [hwc, Nat.add_zero, hu] at hc
    exact (hcount u).mp hc
  · intro hall
    apply hasK_iff.mpr
    unfold interR
    simp only [List.mem_map]
    have hex : dedup ((chans.flatMap id).flatMap (·.excluded)) = [] := by
      apply List.eq_nil_iff_forall_not_mem.mpr
      intro k hk
      obtain ⟨g, hg, hkg⟩ := List.mem_flatMap.mp (mem_dedup.mp hk)
      obtain ⟨ch, hch, hgch⟩ := List.mem_flatMap.mp hg
      rw [(h ch hch g hgch).1] at hkg
      cases hkg
    obtain ⟨ch0, hch0⟩ := List.exists_mem_of_ne_nil chans hne
    refine ⟨_, ⟨u, List.mem_filter.mpr ⟨?_, ?_⟩, rfl⟩, rfl, rfl⟩
    · exact mem_dedup.mpr (List.mem_flatMap.mpr ⟨ch0, hch0, mem_hasKeys.mpr (hall ch0 hch0)⟩)
    · simp only [hex, List.contains_nil, Bool.not_false, Bool.true_and, decide_eq_true_eq]
      rw [hwc, Nat.add_zero]
      exact (hcount u).mpr hall

/-- status of a base entry once the status of the subtracted entry for the same key is known:
subtracted `HasRelationship` ⇒ `NoRelationship`; subtracted `NoRelationship` ⇒ the base status is kept -/
def Status.minus (sub base : Status) : Status :=
  match sub with
  | .has => .no
  | .no => base

/-- wildcard-free stage: `expandExclusion` only uses its second and third case -/
theorem exclStep_plain {wk : K} {isWild : K → Bool} {bm sm : List (Found K)}
    (hb : ∀ f ∈ bm, f.user ≠ wk) (hs : ∀ f ∈ sm, f.user ≠ wk) (fu : Found K) :
    exclStep wk isWild bm sm fu =
      match sm.find? (fun s => s.user = fu.user) with
      | some s => [{ user := fu.user, status := s.status.minus fu.status }]
      | none => [{ user := fu.user, status := fu.status }] := by
  have h1 : bm.any (fun f => decide (f.user = wk)) = false := by
    rw [List.any_eq_false]; intro f hf; simpa using hb f hf
  have h2 : sm.any (fun f => decide (f.user = wk)) = false := by
    rw [List.any_eq_false]; intro f hf; simpa using hs f hf
  unfold exclStep
  simp only [h1, h2, Bool.false_eq_true, if_false, Bool.false_or]
  cases hfind : sm.find? (fun s => decide (s.user = fu.user)) with
  | none => simp
  | some s => cases hst : s.status <;> simp [hst, Status.minus]

theorem hasK_exclR_plain {wk : K} {isWild : K → Bool} {bm sm : List (Found K)}
    (hb : ∀ f ∈ bm, f.user ≠ wk) (hs : ∀ f ∈ sm, f.user ≠ wk) {u : K} :
    hasK (exclR wk isWild bm sm) u = true ↔
      ∃ fu ∈ bm, fu.user = u ∧
        (match sm.find? (fun s => s.user = u) with
         | some s => s.status = .no ∧ fu.status = .has
         | none => fu.status = .has) := by
  rw [hasK_iff]
  unfold exclR
  constructor
  · rintro ⟨f, hf, hu, hst⟩
    obtain ⟨fu, hfu, hmem⟩ := List.mem_flatMap.mp hf
    rw [exclStep_plain hb hs] at hmem
    refine ⟨fu, hfu, ?_⟩
    cases hfind : sm.find? (fun s => decide (s.user = fu.user)) with
    | none =>
      rw [hfind] at hmem
      simp only [List.mem_singleton] at hmem
      subst hmem
      simp only at hu hst
      subst hu
      exact ⟨rfl, by rw [hfind]; exact hst⟩
    | some s =>
      rw [hfind] at hmem
      simp only [List.mem_singleton] at hmem
      subst hmem
      simp only at hu hst
      subst hu
      refine ⟨rfl, ?_⟩
      rw [hfind]
      cases hs' : s.status <;> simp [hs', Status.minus] at hst ⊢
      exact hst
  · rintro ⟨fu, hfu, hu, hcase⟩
    subst hu
    cases hfind : sm.find? (fun s => decide (s.user = fu.user)) with
    | none =>
      rw [hfind] at hcase
      refine ⟨{ user := fu.user, status := fu.status }, List.mem_flatMap.mpr ⟨fu, hfu, ?_⟩, rfl, hcase⟩
      rw [exclStep_plain hb hs, hfind]; simp
    | some s =>
      rw [hfind] at hcase
      refine ⟨{ user := fu.user, status := s.status.minus fu.status }, List.mem_flatMap.mpr ⟨fu, hfu, ?_⟩, rfl, ?_⟩
      · rw [exclStep_plain hb hs, hfind]; simp
      · simp only at hcase ⊢; rw [hcase.1]; exact hcase.2

theorem exclR_plain {wk : K} {isWild : K → Bool} {bm sm : List (Found K)}
    (hb : PlainL wk isWild bm) (hs : PlainL wk isWild sm) : PlainL wk isWild (exclR wk isWild bm sm) := by
  intro f hf
  unfold exclR at hf
  obtain ⟨fu, hfu, hmem⟩ := List.mem_flatMap.mp hf
  rw [exclStep_plain (fun f hf => (hb f hf).2.1) (fun f hf => (hs f hf).2.1)] at hmem
  have : f.user = fu.user ∧ f.excluded = [] := by
    cases hfind : sm.find? (fun s => decide (s.user = fu.user)) <;> rw [hfind] at hmem <;>
      simp only [List.mem_singleton] at hmem <;> subst hmem <;> exact ⟨rfl, rfl⟩
  exact ⟨this.2, by rw [this.1]; exact (hb fu hfu).2.1, by rw [this.1]; exact (hb fu hfu).2.2⟩

end
end OpenFGAVerif.ListUsers
