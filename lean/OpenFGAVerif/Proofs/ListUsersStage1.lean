/-
C06, wildcard-free stage, every schedule: a ListUsers answer without error and without ghost notes is
*exactly* the set of permitted subjects.

`Stage1 sys`: no expansion leaf sends the wildcard key (no `T:*` tuple of the filter type is reachable)
and no intersection is empty.  For every subject `u`, with the Check-side system `specSys sys u cw`
(`Proofs/ListUsersSem.lean`) and a coherent interpretation of its subtracted operands:

  * `expand_exact1`   invariant of every response of the relation `Expand` (all survivor choices of the
                      assignment maps): entries are plain; `HasRelationship` for `u` ⇒ `u` definitely holds
                      (relative to the path `V`); `u` possibly holds relative to `W` ⇒ `HasRelationship`
                      entry, for every part `W` of the path that contains the sub-problems at which the
                      cycle guard actually cut the expansion (so: relative to the whole path always, and
                      globally when no cut hit the path);
  * `lu_exact1`       for the answer of `ListUsers`: `u` returned ⇒ definitely holds, possibly holds ⇒ returned.

The proof uses the path lemma `BoolSys.lfp_path` at every dispatch, exactly like `Dfs.eval_sound`.
-/
import OpenFGAVerif.Proofs.ListUsersSem
import OpenFGAVerif.Proofs.DfsSound

set_option linter.unusedSectionVars false

namespace OpenFGAVerif.ListUsers
open OpenFGAVerif.BoolSys

section
variable {N K : Type} [DecidableEq N] [DecidableEq K]

/-- the wildcard-free stage, for an expression -/
inductive Stage1E (sys : LSys N K) : LExpr N K → Prop
  | send (ks : List K) : sys.wk ∉ ks → (∀ k ∈ ks, sys.isWild k = false) → Stage1E sys (.send ks)
  | fail : Stage1E sys .fail
  | note (s : String) : Stage1E sys (.note s)
  | node (n : N) : Stage1E sys (.node n)
  | bag (keep : Bool) (es : List (LExpr N K)) : (∀ e ∈ es, Stage1E sys e) → Stage1E sys (.bag keep es)
  | union (es : List (LExpr N K)) : (∀ e ∈ es, Stage1E sys e) → Stage1E sys (.union es)
  | inter (es : List (LExpr N K)) : es ≠ [] → (∀ e ∈ es, Stage1E sys e) → Stage1E sys (.inter es)
  | diff (b s : LExpr N K) : Stage1E sys b → Stage1E sys s → Stage1E sys (.diff b s)

def Stage1 (sys : LSys N K) : Prop := ∀ n, Stage1E sys (sys.rule n)

theorem hasK_flatMap {rs : List (Resp N K)} {u : K} :
    hasK (rs.flatMap (·.found)) u = true ↔ ∃ r ∈ rs, hasK r.found u = true := by
  simp only [hasK_iff, List.mem_flatMap]
  constructor
  · rintro ⟨f, ⟨r, hr, hf⟩, h⟩; exact ⟨r, hr, f, hf, h⟩
  · rintro ⟨r, hr, f, hf, h⟩; exact ⟨f, ⟨r, hr, hf⟩, h⟩

omit [DecidableEq N] [DecidableEq K] in
theorem plainL_of_isMapOf {wk : K} {isWild : K → Bool} {l m : List (Found K)} (h : IsMapOf l m)
    (hp : PlainL wk isWild l) : PlainL wk isWild m := fun f hf => hp f (h.1 f hf)

omit [DecidableEq N] [DecidableEq K] in
/-- children of a list reducer: what `errs = []`, `notes = []` of the parent say about them -/
theorem child_clean {rs : List (Resp N K)} {extra : List String}
    (he : rs.flatMap (·.errs) = []) (hn : rs.flatMap (·.notes) ++ extra = []) :
    ∀ r ∈ rs, r.errs = [] ∧ r.notes = [] := by
  intro r hr
  exact ⟨List.flatMap_eq_nil_iff.mp he r hr, List.flatMap_eq_nil_iff.mp (List.append_eq_nil_iff.mp hn).1 r hr⟩

omit [DecidableEq N] [DecidableEq K] in
theorem cutAt_child {rs : List (Resp N K)} {V W : List N}
    (h : ∀ x ∈ rs.flatMap (·.cutAt), x ∈ V → x ∈ W) {r : Resp N K} (hr : r ∈ rs) :
    ∀ x ∈ r.cutAt, x ∈ V → x ∈ W :=
  fun x hx => h x (List.mem_flatMap.mpr ⟨r, hr, hx⟩)

variable (sys : LSys N K) (limit : Nat) (u : K) (cw : Bool) (I : Interp N)

theorem proj_send_holds {leaf : Leaf → Prop} {neg : Expr N → Prop} {S : N → Prop} {ks : List K}
    (hl : ∀ v, leaf v → v ≠ .ff) (hwk : sys.wk ∉ ks)
    (h : Holds leaf neg S (proj sys.wk u cw (.send ks : LExpr N K))) : u ∈ ks := by
  simp only [proj] at h
  cases h with
  | lit hv =>
    have := hl _ hv
    by_cases hu : u ∈ ks
    · exact hu
    · exfalso
      apply this
      have h2 : (ks.contains u || (cw && ks.contains sys.wk)) = false := by
        simp [hu, hwk]
      rw [h2]; rfl

theorem expand_exact1 (hst : Stage1 sys) (hc : Coherent (specSys sys u cw) I) :
    ∀ {d : Nat} {V : List N} {e : LExpr N K} {r : Resp N K}, Expand sys limit d V e r →
      Stage1E sys e → r.errs = [] → r.notes = [] →
      PlainL sys.wk sys.isWild r.found ∧
      (hasK r.found u = true → HoldsD (specSys sys u cw) I V (proj sys.wk u cw e)) ∧
      (∀ W : List N, (∀ x ∈ W, x ∈ V) → (∀ x ∈ r.cutAt, x ∈ V → x ∈ W) →
        HoldsP (specSys sys u cw) I W (proj sys.wk u cw e) → hasK r.found u = true) := by
  intro d V e r h
  induction h with
  | abort e => intro _ he _; simp [abortResp] at he
  | send ks =>
    intro hs _ _
    cases hs with
    | send _ hwk hw =>
      refine ⟨?_, ?_, ?_⟩
      · intro f hf
        simp only [sendResp, List.mem_map] at hf
        obtain ⟨k, hk, rfl⟩ := hf
        exact ⟨rfl, fun hkw => hwk (hkw ▸ hk), hw k hk⟩
      · intro hh
        obtain ⟨f, hf, hfu, _⟩ := hasK_iff.mp hh
        simp only [sendResp, List.mem_map] at hf
        obtain ⟨k, hk, rfl⟩ := hf
        simp only at hfu
        subst hfu
        simp only [proj]
        have : (ks.contains k || (cw && ks.contains sys.wk)) = true := by simp [hk]
        rw [this]
        exact .lit rfl
      · intro W _ _ hp
        have hu := proj_send_holds sys u cw (fun v hv => hv) hwk hp
        exact hasK_iff.mpr ⟨{ user := u }, by simp [sendResp, hu], rfl, rfl⟩
  | fail => intro _ he _; simp [failResp] at he
  | note s => intro _ _ hn; simp [noteResp] at hn
  | node_depth n _ => intro _ he _; simp [depthResp] at he
  | @node_cycle d V n _ hm =>
    intro _ _ _
    refine ⟨fun f hf => by simp [cycleResp] at hf, ?_, ?_⟩
    · intro hh; simp [cycleResp, hasK] at hh
    · intro W _ hcutW hp
      simp only [proj] at hp
      have hnW : n ∈ W := hcutW n (by simp [cycleResp]) hm
      cases hp with
      | node hn => exact absurd hnW (lfp_unfold _ _ _ W n hn).1
  | @node_eval d V n r _ hm _ ih =>
    intro _ he hn
    obtain ⟨h1, h2, h3⟩ := ih (hst n) he hn
    refine ⟨h1, ?_, ?_⟩
    · intro hh
      have hD := h2 hh
      simp only [proj]
      refine .node ?_
      apply lfp_closed _ _ _ V n hm
      exact Holds.mono leafD I.negD
        (lfp_antitone (specSys sys u cw) leafD I.negD (fun x hx => List.mem_cons_of_mem n hx)) hD
    · intro W hWV hcutW hp
      simp only [proj] at hp
      cases hp with
      | node hnP =>
        refine h3 (n :: W) ?_ ?_ (lfp_path (specSys sys u cw) leafP I.negP W n hnP)
        · intro x hx
          rcases List.mem_cons.mp hx with rfl | hx
          · exact List.mem_cons_self
          · exact List.mem_cons_of_mem _ (hWV x hx)
        · intro x hxc hx
          rcases List.mem_cons.mp hx with rfl | hx
          · exact List.mem_cons_self
          · exact List.mem_cons_of_mem _ (hcutW x hxc hx)
  | @bag d V keep es rs hlen _ ih =>
    intro hs he hn
    cases hs with
    | bag _ _ hes =>
      simp only [bagResp] at he hn ⊢
      have hclean := child_clean he hn
      have hi : ∀ i (h1 : i < es.length) (h2 : i < rs.length), _ := fun i h1 h2 =>
        ih i h1 h2 (hes _ (List.getElem_mem h1)) (hclean _ (List.getElem_mem h2)).1 (hclean _ (List.getElem_mem h2)).2
      refine ⟨?_, ?_, ?_⟩
      · intro f hf
        obtain ⟨r', hr', hfr⟩ := List.mem_flatMap.mp hf
        obtain ⟨i, h2, rfl⟩ := List.getElem_of_mem hr'
        exact (hi i (hlen ▸ h2) h2).1 f hfr
      · intro hh
        obtain ⟨r', hr', hhr⟩ := hasK_flatMap.mp hh
        obtain ⟨i, h2, rfl⟩ := List.getElem_of_mem hr'
        simp only [proj]
        exact .or (List.mem_map.mpr ⟨es[i]'(hlen ▸ h2), List.getElem_mem _, rfl⟩) ((hi i (hlen ▸ h2) h2).2.1 hhr)
      · intro W hWV hcutW hp
        simp only [proj] at hp
        cases hp with
        | or hmem hhold =>
          obtain ⟨e', he', rfl⟩ := List.mem_map.mp hmem
          obtain ⟨i, h1, rfl⟩ := List.getElem_of_mem he'
          exact hasK_flatMap.mpr ⟨rs[i]'(hlen ▸ h1), List.getElem_mem _,
            (hi i h1 (hlen ▸ h1)).2.2 W hWV (cutAt_child hcutW (List.getElem_mem _)) hhold⟩
  | @union d V es rs hlen _ ih =>
    intro hs he hn
    cases hs with
    | union _ hes =>
      simp only [unionResp] at he hn ⊢
      have hclean := child_clean he hn
      have hi : ∀ i (h1 : i < es.length) (h2 : i < rs.length), _ := fun i h1 h2 =>
        ih i h1 h2 (hes _ (List.getElem_mem h1)) (hclean _ (List.getElem_mem h2)).1 (hclean _ (List.getElem_mem h2)).2
      have hplain : ∀ ch ∈ rs.map (·.found), PlainL sys.wk sys.isWild ch := by
        intro ch hch
        obtain ⟨r', hr', rfl⟩ := List.mem_map.mp hch
        obtain ⟨i, h2, rfl⟩ := List.getElem_of_mem hr'
        exact (hi i (hlen ▸ h2) h2).1
      refine ⟨unionR_plain hplain, ?_, ?_⟩
      · intro hh
        obtain ⟨ch, hch, hhr⟩ := hasK_unionR.mp hh
        obtain ⟨r', hr', rfl⟩ := List.mem_map.mp hch
        obtain ⟨i, h2, rfl⟩ := List.getElem_of_mem hr'
        simp only [proj]
        exact .or (List.mem_map.mpr ⟨es[i]'(hlen ▸ h2), List.getElem_mem _, rfl⟩) ((hi i (hlen ▸ h2) h2).2.1 hhr)
      · intro W hWV hcutW hp
        simp only [proj] at hp
        cases hp with
        | or hmem hhold =>
          obtain ⟨e', he', rfl⟩ := List.mem_map.mp hmem
          obtain ⟨i, h1, rfl⟩ := List.getElem_of_mem he'
          exact hasK_unionR.mpr ⟨_, List.mem_map.mpr ⟨rs[i]'(hlen ▸ h1), List.getElem_mem _, rfl⟩,
            (hi i h1 (hlen ▸ h1)).2.2 W hWV (cutAt_child hcutW (List.getElem_mem _)) hhold⟩
  | @inter d V es rs hlen _ ih =>
    intro hs he hn
    cases hs with
    | inter _ hne hes =>
      simp only [interResp] at he hn ⊢
      have hclean := child_clean he hn
      have hi : ∀ i (h1 : i < es.length) (h2 : i < rs.length), _ := fun i h1 h2 =>
        ih i h1 h2 (hes _ (List.getElem_mem h1)) (hclean _ (List.getElem_mem h2)).1 (hclean _ (List.getElem_mem h2)).2
      have hplain : ∀ ch ∈ rs.map (·.found), PlainL sys.wk sys.isWild ch := by
        intro ch hch
        obtain ⟨r', hr', rfl⟩ := List.mem_map.mp hch
        obtain ⟨i, h2, rfl⟩ := List.getElem_of_mem hr'
        exact (hi i (hlen ▸ h2) h2).1
      have hne' : rs.map (·.found) ≠ [] := by
        intro h0
        have : rs = [] := List.map_eq_nil_iff.mp h0
        rw [this] at hlen
        exact hne (List.length_eq_zero_iff.mp hlen.symm)
      refine ⟨interR_plain hplain, ?_, ?_⟩
      · intro hh
        have hall := (hasK_interR_plain hne' hplain).mp hh
        simp only [proj]
        refine .and ?_
        intro e' hmem
        obtain ⟨e0, he0, rfl⟩ := List.mem_map.mp hmem
        obtain ⟨i, h1, rfl⟩ := List.getElem_of_mem he0
        exact (hi i h1 (hlen ▸ h1)).2.1
          (hall _ (List.mem_map.mpr ⟨rs[i]'(hlen ▸ h1), List.getElem_mem _, rfl⟩))
      · intro W hWV hcutW hp
        simp only [proj] at hp
        cases hp with
        | and hall =>
          apply (hasK_interR_plain hne' hplain).mpr
          intro ch hch
          obtain ⟨r', hr', rfl⟩ := List.mem_map.mp hch
          obtain ⟨i, h2, rfl⟩ := List.getElem_of_mem hr'
          exact (hi i (hlen ▸ h2) h2).2.2 W hWV (cutAt_child hcutW (List.getElem_mem _))
            (hall _ (List.mem_map.mpr ⟨es[i]'(hlen ▸ h2), List.getElem_mem _, rfl⟩))
  | diff_cycle b s rb rs _ _ _ _ _ =>
    intro _ _ hn
    simp [diffCycleResp] at hn
  | @diff d V b s rb rs bm sm _ _ hcyc hbm hsm ihb ihs =>
    intro hs he hn
    cases hs with
    | diff _ _ hsb hss =>
      simp only [diffResp] at he hn ⊢
      obtain ⟨heb, hes⟩ := List.append_eq_nil_iff.mp he
      -- unpack the notes
      obtain ⟨hn0, hcutn⟩ := List.append_eq_nil_iff.mp hn
      obtain ⟨hn00, _⟩ := List.append_eq_nil_iff.mp hn0
      obtain ⟨hn1, _⟩ := List.append_eq_nil_iff.mp hn00
      obtain ⟨hn2, hexn⟩ := List.append_eq_nil_iff.mp hn1
      obtain ⟨hn3, hclS⟩ := List.append_eq_nil_iff.mp hn2
      obtain ⟨hn4, hclB⟩ := List.append_eq_nil_iff.mp hn3
      obtain ⟨hnb, hns⟩ := List.append_eq_nil_iff.mp hn4
      have hscut : ∀ x ∈ rs.cutAt, x ∉ V := by
        have h0 := noteIf_nil hcutn
        intro x hx hxV
        have := List.any_eq_false.mp h0 x hx
        simp [hxV] at this
      have hclashB : clash rb.found = false := noteIf_nil hclB
      have hclashS : clash rs.found = false := noteIf_nil hclS
      obtain ⟨pb, ab, bb⟩ := ihb hsb heb hnb
      obtain ⟨ps, as, cs⟩ := ihs hss hes hns
      have pbm := plainL_of_isMapOf hbm pb
      have psm := plainL_of_isMapOf hsm ps
      have hbwk : ∀ f ∈ bm, f.user ≠ sys.wk := fun f hf => (pbm f hf).2.1
      have hswk : ∀ f ∈ sm, f.user ≠ sys.wk := fun f hf => (psm f hf).2.1
      -- `u` is not found by the subtracted operand ⇒ the oracle says "does not hold"
      have negD_of : hasK rs.found u = false → I.negD (proj sys.wk u cw s) := by
        intro hnot
        apply (hc _).1.mpr
        intro hp
        have := cs [] (fun x hx => absurd hx List.not_mem_nil) (fun x hx hxV => absurd hxV (hscut x hx)) hp
        rw [hnot] at this; cases this
      have notHas_of_negP : I.negP (proj sys.wk u cw s) → hasK rs.found u = false := by
        intro hneg
        cases hh : hasK rs.found u with
        | false => rfl
        | true =>
          exfalso
          exact (hc _).2.mp hneg (Dfs.holdsD_to_global _ _ V _ (as hh))
      -- key facts about the chosen maps
      have sub_none : sm.find? (fun x => decide (x.user = u)) = none → hasK rs.found u = false := by
        intro hfind
        cases hh : hasK rs.found u with
        | false => rfl
        | true =>
          exfalso
          obtain ⟨g, hg, hgu, _⟩ := hasK_iff.mp hh
          obtain ⟨g', hg', hgu'⟩ := hsm.2.1 g hg
          have := List.find?_eq_none.mp hfind g' hg'
          simp [hgu', hgu] at this
      have sub_some : ∀ x, sm.find? (fun x => decide (x.user = u)) = some x →
          x ∈ rs.found ∧ x.user = u := by
        intro x hfind
        exact ⟨hsm.1 x (List.mem_of_find?_eq_some hfind), by simpa using List.find?_some hfind⟩
      have base_has : hasK rb.found u = true → ∃ fu ∈ bm, fu.user = u ∧ fu.status = .has := by
        intro hh
        obtain ⟨g, hg, hgu, hgs⟩ := hasK_iff.mp hh
        obtain ⟨fu, hfu, hfuu⟩ := hbm.2.1 g hg
        refine ⟨fu, hfu, hfuu.trans hgu, ?_⟩
        rw [clash_false hclashB (hbm.1 fu hfu) hg hfuu]; exact hgs
      have out_of_base : (∃ fu ∈ bm, fu.user = u ∧ fu.status = .has) → hasK rs.found u = false →
          hasK (exclR sys.wk sys.isWild bm sm) u = true := by
        rintro ⟨fu, hfu, hfuu, hfus⟩ hnot
        apply (hasK_exclR_plain hbwk hswk).mpr
        refine ⟨fu, hfu, hfuu, ?_⟩
        cases hfind : sm.find? (fun x => decide (x.user = u)) with
        | none => exact hfus
        | some x =>
          obtain ⟨hx, hxu⟩ := sub_some x hfind
          show x.status = .no ∧ fu.status = .has
          refine ⟨?_, hfus⟩
          cases hxs : x.status with
          | no => rfl
          | has =>
            exfalso
            have : hasK rs.found u = true := hasK_iff.mpr ⟨x, hx, hxu, hxs⟩
            rw [hnot] at this; cases this
      refine ⟨exclR_plain pbm psm, ?_, ?_⟩
      · intro hh
        obtain ⟨fu, hfu, hfuu, hcase⟩ := (hasK_exclR_plain hbwk hswk).mp hh
        simp only [proj]
        cases hfind : sm.find? (fun x => decide (x.user = u)) with
        | none =>
          rw [hfind] at hcase
          exact .diff (ab (hasK_iff.mpr ⟨fu, hbm.1 fu hfu, hfuu, hcase⟩)) (negD_of (sub_none hfind))
        | some x =>
          rw [hfind] at hcase
          obtain ⟨hx, hxu⟩ := sub_some x hfind
          have hnot : hasK rs.found u = false := by
            cases hh2 : hasK rs.found u with
            | false => rfl
            | true =>
              exfalso
              obtain ⟨g, hg, hgu, hgs⟩ := hasK_iff.mp hh2
              have := clash_false hclashS hx hg (hxu.trans hgu.symm)
              rw [hcase.1, hgs] at this; cases this
          exact .diff (ab (hasK_iff.mpr ⟨fu, hbm.1 fu hfu, hfuu, hcase.2⟩)) (negD_of hnot)
      · intro W hWV hcutW hp
        simp only [proj] at hp
        cases hp with
        | diff hb hneg =>
          exact out_of_base (base_has (bb W hWV (fun x hx => hcutW x (List.mem_append_left _ hx)) hb))
            (notHas_of_negP hneg)

/-- **C06, wildcard-free stage, every schedule.**  An answer of `ListUsers` without error and without
ghost note returns `u` only if `u` definitely holds the relation and returns every `u` that possibly
holds it (so, when no condition is unevaluable, exactly the permitted subjects). -/
theorem lu_exact1 (hst : Stage1 sys) (hc : Coherent (specSys sys u cw) I) (root : N) (a : Answer K)
    (h : ListUsersRel sys limit root a) (he : a.errs = []) (hn : a.notes = []) :
    (u ∈ a.users → D (specSys sys u cw) I [] root) ∧ (P (specSys sys u cw) I [] root → u ∈ a.users) := by
  obtain ⟨r, m, hexp, hm, rfl⟩ := h
  simp only [answerOf] at he hn ⊢
  obtain ⟨hnr, hcl⟩ := List.append_eq_nil_iff.mp hn
  have hclash : clash r.found = false := noteIf_nil hcl
  obtain ⟨_, hA, hB⟩ := expand_exact1 sys limit u cw I hst hc hexp (.node root) he hnr
  constructor
  · intro hu
    obtain ⟨f, hf, hfu, hfs⟩ := mem_finalOf.mp hu
    have hD := hA (hasK_iff.mpr ⟨f, hm.1 f hf, hfu, hfs⟩)
    simp only [proj] at hD
    cases hD with
    | node hn' => exact hn'
  · intro hp
    have hh := hB [] (fun x hx => absurd hx List.not_mem_nil) (fun x _ hxV => absurd hxV List.not_mem_nil)
      (by simp only [proj]; exact .node hp)
    obtain ⟨g, hg, hgu, hgs⟩ := hasK_iff.mp hh
    obtain ⟨f, hf, hfu⟩ := hm.2.1 g hg
    refine mem_finalOf.mpr ⟨f, hf, hfu.trans hgu, ?_⟩
    rw [clash_false hclash (hm.1 f hf) hg hfu]; exact hgs

end
end OpenFGAVerif.ListUsers
