/-
C06 with wildcards, every schedule: an answer without error and without ghost note is exactly the
semantics, for a subject `u` that a wildcard tuple stands for (`cw = true`: a concrete object of the
filter type — or the wildcard subject itself).

`Stage2 sys`: `isWild` recognises the wildcard key and nothing else among the keys written by the leaves
(all entries have the filter type), no intersection is empty.  The meaning of a channel is
`covers wk l u` (`Model/ListUsers.lean`): an entry `HasRelationship` for `u`, or the wildcard entry and no
negative information about `u`.

  * `expand_exact2`   invariant of every response of `Expand`: `covers` ⇒ definitely holds (relative to
                      the path), possibly holds relative to `W` ⇒ `covers`, for every part `W` of the path
                      that contains the sub-problems at which the cycle guard actually cut the expansion;
  * `lu_exact2`       for the answer: a returned `u` definitely holds the relation; a `u` that possibly
                      holds it is returned explicitly or the wildcard is returned.

The reducer steps are `covers_bag`, `covers_unionR`, `covers_interR` (wildcard correction) and
`covers_exclR` (case table with the relationship status) of `Proofs/ListUsersWild.lean`.
-/
import OpenFGAVerif.Proofs.ListUsersWild
import OpenFGAVerif.Proofs.ListUsersStage1

set_option linter.unusedSectionVars false

namespace OpenFGAVerif.ListUsers
open OpenFGAVerif.BoolSys

section
variable {N K : Type} [DecidableEq N] [DecidableEq K]

inductive Stage2E (sys : LSys N K) : LExpr N K → Prop
  | send (ks : List K) : (∀ k ∈ ks, sys.isWild k = true → k = sys.wk) → Stage2E sys (.send ks)
  | fail : Stage2E sys .fail
  | note (s : String) : Stage2E sys (.note s)
  | node (n : N) : Stage2E sys (.node n)
  | bag (keep : Bool) (es : List (LExpr N K)) : (∀ e ∈ es, Stage2E sys e) → Stage2E sys (.bag keep es)
  | union (es : List (LExpr N K)) : (∀ e ∈ es, Stage2E sys e) → Stage2E sys (.union es)
  | inter (es : List (LExpr N K)) : es ≠ [] → (∀ e ∈ es, Stage2E sys e) → Stage2E sys (.inter es)
  | diff (b s : LExpr N K) : Stage2E sys b → Stage2E sys s → Stage2E sys (.diff b s)

def Stage2 (sys : LSys N K) : Prop := sys.isWild sys.wk = true ∧ ∀ n, Stage2E sys (sys.rule n)

/-- invariant of every channel content -/
def ChanInv (wk : K) (isWild : K → Bool) (l : List (Found K)) : Prop :=
  ∀ f ∈ l, (isWild f.user = true → f.user = wk) ∧ (f.user = wk → f.status = .has) ∧
    (∀ k ∈ f.excluded, isWild k = false)

theorem chanInv_flat {wk : K} {isWild : K → Bool} {rs : List (Resp N K)}
    (h : ∀ r ∈ rs, ChanInv wk isWild r.found) : ChanInv wk isWild (rs.flatMap (·.found)) := by
  intro f hf
  obtain ⟨r, hr, hfr⟩ := List.mem_flatMap.mp hf
  exact h r hr f hfr

theorem chanInv_unionR {wk : K} {isWild : K → Bool} {chans : List (List (Found K))}
    (h : ∀ ch ∈ chans, ChanInv wk isWild ch) : ChanInv wk isWild (unionR chans) := by
  intro f hf
  obtain ⟨hs, ⟨ch, hch, g, hg, hgu, _⟩, hex⟩ := mem_unionR hf
  refine ⟨fun hw => hgu ▸ (h ch hch g hg).1 (hgu ▸ hw), fun _ => hs, fun k hk => ?_⟩
  obtain ⟨ch', hch', g', hg', hkg⟩ := hex k hk
  exact (h ch' hch' g' hg').2.2 k hkg

theorem chanInv_interR {wk : K} {isWild : K → Bool} {chans : List (List (Found K))}
    (h : ∀ ch ∈ chans, ChanInv wk isWild ch) : ChanInv wk isWild (interR wk chans) := by
  intro f hf
  obtain ⟨hs, ⟨ch, hch, hhas⟩, hex, _, _⟩ := mem_interR hf
  obtain ⟨g, hg, hgu, _⟩ := hasK_iff.mp hhas
  refine ⟨fun hw => hgu ▸ (h ch hch g hg).1 (hgu ▸ hw), fun _ => hs, fun k hk => ?_⟩
  obtain ⟨ch', hch', g', hg', hkg⟩ := hex k hk
  exact (h ch' hch' g' hg').2.2 k hkg

theorem mapInv_of {wk : K} {isWild : K → Bool} {l m : List (Found K)} (hm : IsMapOf l m)
    (h : ChanInv wk isWild l) : MapInv wk isWild m :=
  ⟨hm.2.2, fun f hf => (h f (hm.1 f hf)).1, fun f hf => (h f (hm.1 f hf)).2.1⟩

theorem chanInv_exclR {wk : K} {isWild : K → Bool} {bm sm : List (Found K)} (hw : isWild wk = true)
    (ib : ChanInv wk isWild bm) (is : ChanInv wk isWild sm) : ChanInv wk isWild (exclR wk isWild bm sm) := by
  intro g hg
  by_cases hbw : ∃ f ∈ bm, f.user = wk
  · rcases (mem_exclR_BW hbw).mp hg with ⟨fu, hfu, _, _, rfl⟩ | ⟨fu, hfu, sfu, hsfu, hwild, hns, rfl⟩ |
        ⟨sfu, hsfu, hnw, _, rfl⟩ | ⟨sfu, hsfu, hnw, _, rfl⟩
    · exact ⟨(ib fu hfu).1, fun _ => rfl, fun k hk => by cases hk⟩
    · refine ⟨(ib fu hfu).1, fun h => ?_, fun k hk => by cases hk⟩
      exact absurd ((is sfu hsfu).1 hwild) (h ▸ hns sfu hsfu)
    · refine ⟨fun h => ?_, fun _ => rfl, fun k hk => by cases hk⟩
      simp only at h; rw [hnw] at h; cases h
    · refine ⟨fun h => ?_, fun h => ?_, fun k hk => ?_⟩
      · simp only at h; rw [hnw] at h; cases h
      · simp only at h; rw [h, hw] at hnw; cases hnw
      · simp only [List.mem_singleton] at hk; rw [hk]; exact hnw
  · have hb : ∀ f ∈ bm, f.user ≠ wk := fun f hf h => hbw ⟨f, hf, h⟩
    unfold exclR at hg
    obtain ⟨fu, hfu, hmem⟩ := List.mem_flatMap.mp hg
    rw [exclStep_noBW hb] at hmem
    split at hmem <;> simp only [List.mem_singleton] at hmem <;> subst hmem
    · exact ⟨(ib fu hfu).1, fun h => absurd h (hb fu hfu), fun k hk => by cases hk⟩
    · exact ⟨(ib fu hfu).1, fun h => absurd h (hb fu hfu), fun k hk => by cases hk⟩

theorem hasK_map_iff {l m : List (Found K)} (hm : IsMapOf l m) (hcl : clash l = false) {x : K} :
    hasK m x = true ↔ hasK l x = true := by
  constructor
  · intro h
    obtain ⟨f, hf, hu, hs⟩ := hasK_iff.mp h
    exact hasK_iff.mpr ⟨f, hm.1 f hf, hu, hs⟩
  · intro h
    obtain ⟨g, hg, hgu, hgs⟩ := hasK_iff.mp h
    obtain ⟨f, hf, hfu⟩ := hm.2.1 g hg
    exact hasK_iff.mpr ⟨f, hf, hfu.trans hgu, by rw [clash_false hcl (hm.1 f hf) hg hfu]; exact hgs⟩

theorem noK_map_iff {l m : List (Found K)} (hm : IsMapOf l m) (hcl : clash l = false) {x : K} :
    noK m x = true ↔ noK l x = true := by
  constructor
  · intro h
    obtain ⟨f, hf, hu, hs⟩ := noK_iff.mp h
    exact noK_iff.mpr ⟨f, hm.1 f hf, hu, hs⟩
  · intro h
    obtain ⟨g, hg, hgu, hgs⟩ := noK_iff.mp h
    obtain ⟨f, hf, hfu⟩ := hm.2.1 g hg
    exact noK_iff.mpr ⟨f, hf, hfu.trans hgu, by rw [clash_false hcl (hm.1 f hf) hg hfu]; exact hgs⟩

theorem exclK_map_sub {l m : List (Found K)} (hm : IsMapOf l m) {x : K} (h : exclK m x = true) :
    exclK l x = true := by
  obtain ⟨f, hf, hk⟩ := exclK_iff.mp h
  exact exclK_iff.mpr ⟨f, hm.1 f hf, hk⟩

theorem bool_eq_of_iff {a b : Bool} (h : a = true ↔ b = true) : a = b := by
  cases a <;> cases b <;> simp_all

/-- a clash-free channel whose exclusions are backed by `NoRelationship` entries means the same as any of
its survivor maps -/
theorem map_unread {l m : List (Found K)} (hm : IsMapOf l m) (hcl : clash l = false)
    (hun : ∀ k, exclK l k = true → noK l k = true) : ∀ k, exclK m k = true → noK m k = true :=
  fun k hk => (noK_map_iff hm hcl).mpr (hun k (exclK_map_sub hm hk))

theorem covers_map_eq {wk : K} {l m : List (Found K)} (hm : IsMapOf l m) (hcl : clash l = false)
    (hun : ∀ k, exclK l k = true → noK l k = true) (k : K) : covers wk m k = covers wk l k := by
  apply bool_eq_of_iff
  rw [covers_map (map_unread hm hcl hun), covers_map hun]
  have h1 := @hasK_map_iff K _ l m hm hcl
  have h2 := @noK_map_iff K _ l m hm hcl
  have h3 : noK m k = false ↔ noK l k = false := by
    constructor
    · intro h; exact bool_false_of_not (fun hh => by rw [h2.mpr hh] at h; cases h)
    · intro h; exact bool_false_of_not (fun hh => by rw [h2.mp hh] at h; cases h)
  rw [h1, h1, h3]

theorem covers_send {wk : K} {ks : List K} {u : K} :
    covers wk (sendResp (N := N) ks).found u = true ↔ (u ∈ ks ∨ wk ∈ ks) := by
  have hm : u ∉ mentioned (sendResp (N := N) ks).found := by
    intro h
    rcases mem_mentioned.mp h with h | h
    · obtain ⟨f, hf, hk⟩ := exclK_iff.mp h
      simp only [sendResp, List.mem_map] at hf
      obtain ⟨k, _, rfl⟩ := hf
      cases hk
    · obtain ⟨f, hf, _, hs⟩ := noK_iff.mp h
      simp only [sendResp, List.mem_map] at hf
      obtain ⟨k, _, rfl⟩ := hf
      cases hs
  rw [covers_unmentioned hm]
  have : ∀ x, hasK (sendResp (N := N) ks).found x = true ↔ x ∈ ks := by
    intro x
    rw [hasK_iff]
    simp only [sendResp, List.mem_map]
    constructor
    · rintro ⟨f, ⟨k, hk, rfl⟩, hu, _⟩; exact hu ▸ hk
    · intro hx; exact ⟨_, ⟨x, hx, rfl⟩, rfl, rfl⟩
  rw [this, this]

variable (sys : LSys N K) (limit : Nat) (u : K) (I : Interp N)

theorem expand_exact2 (hst : Stage2 sys) (hc : Coherent (specSys sys u true) I) :
    ∀ {d : Nat} {V : List N} {e : LExpr N K} {r : Resp N K}, Expand sys limit d V e r →
      Stage2E sys e → r.errs = [] → r.notes = [] →
      ChanInv sys.wk sys.isWild r.found ∧
      (covers sys.wk r.found u = true → HoldsD (specSys sys u true) I V (proj sys.wk u true e)) ∧
      (∀ W : List N, (∀ x ∈ W, x ∈ V) → (∀ x ∈ r.cutAt, x ∈ V → x ∈ W) →
        HoldsP (specSys sys u true) I W (proj sys.wk u true e) → covers sys.wk r.found u = true) := by
  intro d V e r h
  induction h with
  | abort e => intro _ he _; simp [abortResp] at he
  | send ks =>
    intro hs _ _
    cases hs with
    | send _ hwild =>
      have hleaf : ∀ {leaf : Leaf → Prop} {neg : Expr N → Prop} {S : N → Prop}, (∀ v, leaf v → v ≠ .ff) →
          Holds leaf neg S (proj sys.wk u true (.send ks : LExpr N K)) → (u ∈ ks ∨ sys.wk ∈ ks) := by
        intro leaf neg S hl h
        simp only [proj] at h
        cases h with
        | lit hv =>
          have := hl _ hv
          by_cases hu : u ∈ ks ∨ sys.wk ∈ ks
          · exact hu
          · exfalso
            apply this
            have h2 : (ks.contains u || (true && ks.contains sys.wk)) = false := by
              simp only [not_or] at hu
              simp [hu.1, hu.2]
            rw [h2]; rfl
      refine ⟨?_, ?_, ?_⟩
      · intro f hf
        simp only [sendResp, List.mem_map] at hf
        obtain ⟨k, hk, rfl⟩ := hf
        exact ⟨hwild k hk, fun _ => rfl, fun k' hk' => by cases hk'⟩
      · intro hh
        have := covers_send.mp hh
        simp only [proj]
        have h2 : (ks.contains u || (true && ks.contains sys.wk)) = true := by
          rcases this with h | h <;> simp [h]
        rw [h2]
        exact .lit rfl
      · intro W _ _ hp; exact covers_send.mpr (hleaf (fun v hv => hv) hp)
  | fail => intro _ he _; simp [failResp] at he
  | note s => intro _ _ hn; simp [noteResp] at hn
  | node_depth n _ => intro _ he _; simp [depthResp] at he
  | @node_cycle d V n _ hm =>
    intro _ _ _
    refine ⟨fun f hf => by simp [cycleResp] at hf, ?_, ?_⟩
    · intro hh; simp [cycleResp, covers, hasK] at hh
    · intro W _ hcutW hp
      simp only [proj] at hp
      have hnW : n ∈ W := hcutW n (by simp [cycleResp]) hm
      cases hp with
      | node hn => exact absurd hnW (lfp_unfold _ _ _ W n hn).1
  | @node_eval d V n r _ hm _ ih =>
    intro _ he hn
    obtain ⟨h1, h2, h3⟩ := ih (hst.2 n) he hn
    refine ⟨h1, ?_, ?_⟩
    · intro hh
      have hD := h2 hh
      simp only [proj]
      refine .node ?_
      apply lfp_closed _ _ _ V n hm
      exact Holds.mono leafD I.negD
        (lfp_antitone (specSys sys u true) leafD I.negD (fun x hx => List.mem_cons_of_mem n hx)) hD
    · intro W hWV hcutW hp
      simp only [proj] at hp
      cases hp with
      | node hnP =>
        refine h3 (n :: W) ?_ ?_ (lfp_path (specSys sys u true) leafP I.negP W n hnP)
        · intro x hx
          rcases List.mem_cons.mp hx with rfl | hx
          · exact List.mem_cons_self
          · exact List.mem_cons_of_mem _ (hWV x hx)
        · intro x hxc hx
          rcases List.mem_cons.mp hx with rfl | hx
          · exact List.mem_cons_self
          · exact List.mem_cons_of_mem _ (hcutW x hxc hx)
  | @bag d V keep es rs hlen _ ih =>
    intro hs he hn
    cases hs with
    | bag _ _ hes =>
      simp only [bagResp] at he hn ⊢
      have hclean := child_clean he hn
      have hbn : bagNotes sys.wk (rs.map (·.found)) = [] := (List.append_eq_nil_iff.mp hn).2
      have hi : ∀ i (h1 : i < es.length) (h2 : i < rs.length), _ := fun i h1 h2 =>
        ih i h1 h2 (hes _ (List.getElem_mem h1)) (hclean _ (List.getElem_mem h2)).1 (hclean _ (List.getElem_mem h2)).2
      have hflat : rs.flatMap (·.found) = (rs.map (·.found)).flatMap id := by
        rw [List.flatMap_map]; rfl
      have hcov := @covers_bag K _ sys.wk (rs.map (·.found)) u
      rw [← hflat] at hcov
      refine ⟨?_, ?_, ?_⟩
      · apply chanInv_flat
        intro r' hr'
        obtain ⟨i, h2, rfl⟩ := List.getElem_of_mem hr'
        exact (hi i (hlen ▸ h2) h2).1
      · intro hh
        obtain ⟨ch, hch, hhr⟩ := hcov.1 hh
        obtain ⟨r', hr', rfl⟩ := List.mem_map.mp hch
        obtain ⟨i, h2, rfl⟩ := List.getElem_of_mem hr'
        simp only [proj]
        exact .or (List.mem_map.mpr ⟨es[i]'(hlen ▸ h2), List.getElem_mem _, rfl⟩) ((hi i (hlen ▸ h2) h2).2.1 hhr)
      · intro W hWV hcutW hp
        simp only [proj] at hp
        cases hp with
        | or hmem hhold =>
          obtain ⟨e', he', rfl⟩ := List.mem_map.mp hmem
          obtain ⟨i, h1, rfl⟩ := List.getElem_of_mem he'
          exact hcov.2 hbn ⟨_, List.mem_map.mpr ⟨rs[i]'(hlen ▸ h1), List.getElem_mem _, rfl⟩,
            (hi i h1 (hlen ▸ h1)).2.2 W hWV (cutAt_child hcutW (List.getElem_mem _)) hhold⟩
  | @union d V es rs hlen _ ih =>
    intro hs he hn
    cases hs with
    | union _ hes =>
      simp only [unionResp] at he hn ⊢
      have hclean := child_clean he hn
      have hun : unionNotes sys.wk (rs.map (·.found)) = [] := (List.append_eq_nil_iff.mp hn).2
      have hi : ∀ i (h1 : i < es.length) (h2 : i < rs.length), _ := fun i h1 h2 =>
        ih i h1 h2 (hes _ (List.getElem_mem h1)) (hclean _ (List.getElem_mem h2)).1 (hclean _ (List.getElem_mem h2)).2
      have hcov := @covers_unionR K _ sys.wk (rs.map (·.found)) hun u
      refine ⟨?_, ?_, ?_⟩
      · apply chanInv_unionR
        intro ch hch
        obtain ⟨r', hr', rfl⟩ := List.mem_map.mp hch
        obtain ⟨i, h2, rfl⟩ := List.getElem_of_mem hr'
        exact (hi i (hlen ▸ h2) h2).1
      · intro hh
        obtain ⟨ch, hch, hhr⟩ := hcov.mp hh
        obtain ⟨r', hr', rfl⟩ := List.mem_map.mp hch
        obtain ⟨i, h2, rfl⟩ := List.getElem_of_mem hr'
        simp only [proj]
        exact .or (List.mem_map.mpr ⟨es[i]'(hlen ▸ h2), List.getElem_mem _, rfl⟩) ((hi i (hlen ▸ h2) h2).2.1 hhr)
      · intro W hWV hcutW hp
        simp only [proj] at hp
        cases hp with
        | or hmem hhold =>
          obtain ⟨e', he', rfl⟩ := List.mem_map.mp hmem
          obtain ⟨i, h1, rfl⟩ := List.getElem_of_mem he'
          exact hcov.mpr ⟨_, List.mem_map.mpr ⟨rs[i]'(hlen ▸ h1), List.getElem_mem _, rfl⟩,
            (hi i h1 (hlen ▸ h1)).2.2 W hWV (cutAt_child hcutW (List.getElem_mem _)) hhold⟩
  | @inter d V es rs hlen _ ih =>
    intro hs he hn
    cases hs with
    | inter _ hne hes =>
      simp only [interResp] at he hn ⊢
      have hclean := child_clean he hn
      have hin : interNotes sys.wk (rs.map (·.found)) = [] := (List.append_eq_nil_iff.mp hn).2
      have hi : ∀ i (h1 : i < es.length) (h2 : i < rs.length), _ := fun i h1 h2 =>
        ih i h1 h2 (hes _ (List.getElem_mem h1)) (hclean _ (List.getElem_mem h2)).1 (hclean _ (List.getElem_mem h2)).2
      have hinv : ∀ ch ∈ rs.map (·.found), ChanInv sys.wk sys.isWild ch := by
        intro ch hch
        obtain ⟨r', hr', rfl⟩ := List.mem_map.mp hch
        obtain ⟨i, h2, rfl⟩ := List.getElem_of_mem hr'
        exact (hi i (hlen ▸ h2) h2).1
      have hne' : rs.map (·.found) ≠ [] := by
        intro h0
        have : rs = [] := List.map_eq_nil_iff.mp h0
        rw [this] at hlen
        exact hne (List.length_eq_zero_iff.mp hlen.symm)
      have hwk : exclK ((rs.map (·.found)).flatMap id) sys.wk = false := by
        apply bool_false_of_not
        intro h
        obtain ⟨ch, hch, hx⟩ := exclK_flat.mp h
        obtain ⟨f, hf, hk⟩ := exclK_iff.mp hx
        have := (hinv ch hch f hf).2.2 _ hk
        rw [hst.1] at this; cases this
      have hcov := @covers_interR K _ sys.wk (rs.map (·.found)) hne' hwk hin u
      refine ⟨chanInv_interR hinv, ?_, ?_⟩
      · intro hh
        have hall := hcov.mp hh
        simp only [proj]
        refine .and ?_
        intro e' hmem
        obtain ⟨e0, he0, rfl⟩ := List.mem_map.mp hmem
        obtain ⟨i, h1, rfl⟩ := List.getElem_of_mem he0
        exact (hi i h1 (hlen ▸ h1)).2.1
          (hall _ (List.mem_map.mpr ⟨rs[i]'(hlen ▸ h1), List.getElem_mem _, rfl⟩))
      · intro W hWV hcutW hp
        simp only [proj] at hp
        cases hp with
        | and hall =>
          apply hcov.mpr
          intro ch hch
          obtain ⟨r', hr', rfl⟩ := List.mem_map.mp hch
          obtain ⟨i, h2, rfl⟩ := List.getElem_of_mem hr'
          exact (hi i (hlen ▸ h2) h2).2.2 W hWV (cutAt_child hcutW (List.getElem_mem _))
            (hall _ (List.mem_map.mpr ⟨es[i]'(hlen ▸ h2), List.getElem_mem _, rfl⟩))
  | diff_cycle b s rb rs _ _ _ _ _ =>
    intro _ _ hn
    simp [diffCycleResp] at hn
  | @diff d V b s rb rs bm sm _ _ hcyc hbm hsm ihb ihs =>
    intro hs he hn
    cases hs with
    | diff _ _ hsb hss =>
      simp only [diffResp] at he hn ⊢
      obtain ⟨heb, hes⟩ := List.append_eq_nil_iff.mp he
      obtain ⟨hn0, hcutn⟩ := List.append_eq_nil_iff.mp hn
      obtain ⟨hn00, hurS⟩ := List.append_eq_nil_iff.mp hn0
      obtain ⟨hn1, hurB⟩ := List.append_eq_nil_iff.mp hn00
      obtain ⟨hn2, hexn⟩ := List.append_eq_nil_iff.mp hn1
      obtain ⟨hn3, hclS⟩ := List.append_eq_nil_iff.mp hn2
      obtain ⟨hn4, hclB⟩ := List.append_eq_nil_iff.mp hn3
      obtain ⟨hnb, hns⟩ := List.append_eq_nil_iff.mp hn4
      have hscut : ∀ x ∈ rs.cutAt, x ∉ V := by
        have h0 := noteIf_nil hcutn
        intro x hx hxV
        have := List.any_eq_false.mp h0 x hx
        simp [hxV] at this
      have hclashB : clash rb.found = false := noteIf_nil hclB
      have hclashS : clash rs.found = false := noteIf_nil hclS
      obtain ⟨ib, ab, bb⟩ := ihb hsb heb hnb
      obtain ⟨is, as, cs⟩ := ihs hss hes hns
      have hunB := unread_nil hurB
      have hunS := unread_nil hurS
      have mib := mapInv_of hbm ib
      have mis := mapInv_of hsm is
      have hclean := exclClean_of_notes hexn (map_unread hbm hclashB hunB) (map_unread hsm hclashS hunS)
      have hcov := @covers_exclR K _ sys.wk sys.isWild bm sm hst.1 mib mis hclean u
      rw [covers_map_eq hbm hclashB hunB, covers_map_eq hsm hclashS hunS] at hcov
      have negD_of : covers sys.wk rs.found u = false → I.negD (proj sys.wk u true s) := by
        intro hnot
        apply (hc _).1.mpr
        intro hp
        have := cs [] (fun x hx => absurd hx List.not_mem_nil) (fun x hx hxV => absurd hxV (hscut x hx)) hp
        rw [hnot] at this; cases this
      have notCov_of_negP : I.negP (proj sys.wk u true s) → covers sys.wk rs.found u = false := by
        intro hneg
        cases hh : covers sys.wk rs.found u with
        | false => rfl
        | true =>
          exfalso
          exact (hc _).2.mp hneg (Dfs.holdsD_to_global _ _ V _ (as hh))
      refine ⟨chanInv_exclR hst.1 (fun f hf => ib f (hbm.1 f hf)) (fun f hf => is f (hsm.1 f hf)), ?_, ?_⟩
      · intro hh
        obtain ⟨h1, h2⟩ := hcov.mp hh
        simp only [proj]
        exact .diff (ab h1) (negD_of h2)
      · intro W hWV hcutW hp
        simp only [proj] at hp
        cases hp with
        | diff hb hneg =>
          exact hcov.mpr ⟨bb W hWV (fun x hx => hcutW x (List.mem_append_left _ hx)) hb, notCov_of_negP hneg⟩

/-- **C06 with wildcards, every schedule.**  An answer without error and without ghost note returns `u`
only if `u` definitely holds the relation; a `u` that possibly holds it is returned explicitly or through
the returned wildcard. -/
theorem lu_exact2 (hst : Stage2 sys) (hc : Coherent (specSys sys u true) I) (root : N) (a : Answer K)
    (h : ListUsersRel sys limit root a) (he : a.errs = []) (hn : a.notes = []) :
    (u ∈ a.users → D (specSys sys u true) I [] root) ∧
    (P (specSys sys u true) I [] root → u ∈ a.users ∨ sys.wk ∈ a.users) := by
  obtain ⟨r, m, hexp, hm, rfl⟩ := h
  simp only [answerOf] at he hn ⊢
  obtain ⟨hnr, hcl⟩ := List.append_eq_nil_iff.mp hn
  have hclash : clash r.found = false := noteIf_nil hcl
  obtain ⟨_, hA, hB⟩ := expand_exact2 sys limit u I hst hc hexp (.node root) he hnr
  have inUsers : ∀ x, hasK r.found x = true → x ∈ finalOf m := by
    intro x hx
    obtain ⟨f, hf, hfu, hfs⟩ := hasK_iff.mp ((hasK_map_iff hm hclash).mpr hx)
    exact mem_finalOf.mpr ⟨f, hf, hfu, hfs⟩
  constructor
  · intro hu
    obtain ⟨f, hf, hfu, hfs⟩ := mem_finalOf.mp hu
    have hD := hA (covers_iff.mpr (.inl (hasK_iff.mpr ⟨f, hm.1 f hf, hfu, hfs⟩)))
    simp only [proj] at hD
    cases hD with
    | node hn' => exact hn'
  · intro hp
    have hh := hB [] (fun x hx => absurd hx List.not_mem_nil) (fun x _ hxV => absurd hxV List.not_mem_nil)
      (by simp only [proj]; exact .node hp)
    rcases covers_imp hh with h | h
    · exact .inl (inUsers u h)
    · exact .inr (inUsers sys.wk h)

end
end OpenFGAVerif.ListUsers
