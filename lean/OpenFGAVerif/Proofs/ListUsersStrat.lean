/-
The ghost note `excl-sub-cut` ("the subtracted operand of an exclusion was cut by the cycle guard at a
sub-problem of the exclusion's own path") is not a defect of the code: it marks negation through recursion.
This file proves that it never appears for a system without negation through recursion
(`BoolSys.Stratified` of the Check-side system): every sub-problem at which the expansion of a subtracted
operand is cut has a strictly smaller rank than every sub-problem of the path.

Consequence: for stratified systems the hypothesis "no ghost note" of `lu_exact1` / `lu_exact2` only
excludes the steps that are confirmed defects of the code.
-/
import OpenFGAVerif.Proofs.ListUsersStage2
import OpenFGAVerif.Proofs.Stratified

set_option linter.unusedSectionVars false

namespace OpenFGAVerif.ListUsers
open OpenFGAVerif.BoolSys

section
variable {N K : Type} [DecidableEq N] [DecidableEq K]

/-- `s` is written as a ghost marker by a leaf of the expression -/
inductive NoteLeaf (s : String) : LExpr N K → Prop
  | here : NoteLeaf s (.note s)
  | bag {keep : Bool} {es : List (LExpr N K)} {e : LExpr N K} : e ∈ es → NoteLeaf s e → NoteLeaf s (.bag keep es)
  | union {es : List (LExpr N K)} {e : LExpr N K} : e ∈ es → NoteLeaf s e → NoteLeaf s (.union es)
  | inter {es : List (LExpr N K)} {e : LExpr N K} : e ∈ es → NoteLeaf s e → NoteLeaf s (.inter es)
  | diffB {b t : LExpr N K} : NoteLeaf s b → NoteLeaf s (.diff b t)
  | diffS {b t : LExpr N K} : NoteLeaf s t → NoteLeaf s (.diff b t)

/-- `a < c` or `a ≤ c` -/
def Rk (strict : Bool) (a c : Nat) : Prop := if strict then a < c else a ≤ c

theorem Rk.le {b : Bool} {a c : Nat} (h : Rk b a c) : a ≤ c := by
  unfold Rk at h; split at h <;> omega

theorem Rk.of_lt {b : Bool} {a c : Nat} (h : a < c) : Rk b a c := by
  unfold Rk; split <;> omega

theorem Rk.trans_le {b : Bool} {a m c : Nat} (h1 : a ≤ m) (h2 : Rk b m c) : Rk b a c := by
  unfold Rk at *; split at h2 <;> simp_all <;> omega

theorem not_mem_noteIf {b : Bool} {s t : String} (h : s ≠ t) : t ∉ noteIf b s := by
  cases b <;> simp [noteIf]
  exact fun h' => h h'.symm

variable (sys : LSys N K) (limit : Nat) (u : K) (cw : Bool) (rk : N → Nat)

theorem no_sub_cut (hs : Stratified (specSys sys u cw) rk)
    (hleaf : ∀ n, ¬ NoteLeaf "excl-sub-cut" (sys.rule n)) :
    ∀ {d : Nat} {V : List N} {e : LExpr N K} {r : Resp N K}, Expand sys limit d V e r →
      ¬ NoteLeaf "excl-sub-cut" e → ∀ strict : Bool,
      (∀ m, Occurs m (proj sys.wk u cw e) → ∀ x ∈ V, Rk strict (rk m) (rk x)) →
      (∀ m, OccursNeg m (proj sys.wk u cw e) → ∀ x ∈ V, rk m < rk x) →
      "excl-sub-cut" ∉ r.notes ∧ ∀ c ∈ r.cutAt, ∀ x ∈ V, Rk strict (rk c) (rk x) := by
  intro d V e r h
  induction h with
  | abort e => intro _ _ _ _; exact ⟨by simp [abortResp], by simp [abortResp]⟩
  | send ks => intro _ _ _ _; exact ⟨by simp [sendResp], by simp [sendResp]⟩
  | fail => intro _ _ _ _; exact ⟨by simp [failResp], by simp [failResp]⟩
  | note s =>
    intro hl _ _ _
    refine ⟨?_, by simp [noteResp]⟩
    simp only [noteResp, List.mem_singleton]
    intro h; exact hl (h ▸ .here)
  | node_depth n _ => intro _ _ _ _; exact ⟨by simp [depthResp], by simp [depthResp]⟩
  | node_cycle n _ hm =>
    intro _ strict ho _
    refine ⟨by simp [cycleResp], ?_⟩
    intro c hc x hx
    simp only [cycleResp, List.mem_singleton] at hc
    subst hc
    exact ho c (by simp only [proj]; exact .node) x hx
  | @node_eval d V n r _ _ _ ih =>
    intro _ strict ho _
    have hn : ∀ x ∈ V, Rk strict (rk n) (rk x) := fun x hx => ho n (by simp only [proj]; exact .node) x hx
    obtain ⟨h1, h2⟩ := ih (hleaf n) false
      (by
        intro m hm x hx
        have hmn := (hs n m hm).1
        rcases List.mem_cons.mp hx with rfl | hx
        · exact hmn
        · exact Nat.le_trans hmn (hn x hx).le)
      (by
        intro m hm x hx
        have hmn := (hs n m hm.occurs).2 hm
        rcases List.mem_cons.mp hx with rfl | hx
        · exact hmn
        · exact Nat.lt_of_lt_of_le hmn (hn x hx).le)
    refine ⟨h1, ?_⟩
    intro c hc x hx
    exact Rk.trans_le (h2 c hc n List.mem_cons_self) (hn x hx)
  | @bag d V keep es rs hlen _ ih =>
    intro hl strict ho hneg
    have hi : ∀ i (h1 : i < es.length) (h2 : i < rs.length), _ := fun i h1 h2 =>
      ih i h1 h2 (fun h => hl (.bag (List.getElem_mem h1) h)) strict
        (fun m hm => ho m (by simp only [proj]; exact .or (List.mem_map.mpr ⟨_, List.getElem_mem h1, rfl⟩) hm))
        (fun m hm => hneg m (by simp only [proj]; exact .or (List.mem_map.mpr ⟨_, List.getElem_mem h1, rfl⟩) hm))
    simp only [bagResp]
    constructor
    · intro hmem
      rcases List.mem_append.mp hmem with hmem | hmem
      · obtain ⟨r', hr', hx⟩ := List.mem_flatMap.mp hmem
        obtain ⟨i, h2, rfl⟩ := List.getElem_of_mem hr'
        exact (hi i (hlen ▸ h2) h2).1 hx
      · exact not_mem_noteIf (by decide) hmem
    · intro c hc
      obtain ⟨r', hr', hx⟩ := List.mem_flatMap.mp hc
      obtain ⟨i, h2, rfl⟩ := List.getElem_of_mem hr'
      exact (hi i (hlen ▸ h2) h2).2 c hx
  | @union d V es rs hlen _ ih =>
    intro hl strict ho hneg
    have hi : ∀ i (h1 : i < es.length) (h2 : i < rs.length), _ := fun i h1 h2 =>
      ih i h1 h2 (fun h => hl (.union (List.getElem_mem h1) h)) strict
        (fun m hm => ho m (by simp only [proj]; exact .or (List.mem_map.mpr ⟨_, List.getElem_mem h1, rfl⟩) hm))
        (fun m hm => hneg m (by simp only [proj]; exact .or (List.mem_map.mpr ⟨_, List.getElem_mem h1, rfl⟩) hm))
    simp only [unionResp]
    constructor
    · intro hmem
      rcases List.mem_append.mp hmem with hmem | hmem
      · obtain ⟨r', hr', hx⟩ := List.mem_flatMap.mp hmem
        obtain ⟨i, h2, rfl⟩ := List.getElem_of_mem hr'
        exact (hi i (hlen ▸ h2) h2).1 hx
      · unfold unionNotes at hmem
        rcases List.mem_append.mp hmem with hmem | hmem
        · exact not_mem_noteIf (by decide) hmem
        · exact not_mem_noteIf (by decide) hmem
    · intro c hc
      obtain ⟨r', hr', hx⟩ := List.mem_flatMap.mp hc
      obtain ⟨i, h2, rfl⟩ := List.getElem_of_mem hr'
      exact (hi i (hlen ▸ h2) h2).2 c hx
  | @inter d V es rs hlen _ ih =>
    intro hl strict ho hneg
    have hi : ∀ i (h1 : i < es.length) (h2 : i < rs.length), _ := fun i h1 h2 =>
      ih i h1 h2 (fun h => hl (.inter (List.getElem_mem h1) h)) strict
        (fun m hm => ho m (by simp only [proj]; exact .and (List.mem_map.mpr ⟨_, List.getElem_mem h1, rfl⟩) hm))
        (fun m hm => hneg m (by simp only [proj]; exact .and (List.mem_map.mpr ⟨_, List.getElem_mem h1, rfl⟩) hm))
    simp only [interResp]
    constructor
    · intro hmem
      rcases List.mem_append.mp hmem with hmem | hmem
      · obtain ⟨r', hr', hx⟩ := List.mem_flatMap.mp hmem
        obtain ⟨i, h2, rfl⟩ := List.getElem_of_mem hr'
        exact (hi i (hlen ▸ h2) h2).1 hx
      · unfold interNotes at hmem
        rcases List.mem_append.mp hmem with hmem | hmem
        · exact not_mem_noteIf (by decide) hmem
        · exact not_mem_noteIf (by decide) hmem
    · intro c hc
      obtain ⟨r', hr', hx⟩ := List.mem_flatMap.mp hc
      obtain ⟨i, h2, rfl⟩ := List.getElem_of_mem hr'
      exact (hi i (hlen ▸ h2) h2).2 c hx
  | diff_cycle b s rb rs _ _ _ ihb ihs =>
    intro hl strict ho hneg
    obtain ⟨hb1, hb2⟩ := ihb (fun h => hl (.diffB h)) strict
      (fun m hm => ho m (by simp only [proj]; exact .diffB hm))
      (fun m hm => hneg m (by simp only [proj]; exact .diffB hm))
    obtain ⟨hs1, hs2⟩ := ihs (fun h => hl (.diffS h)) true
      (fun m hm x hx => by
        show Rk true (rk m) (rk x)
        exact Rk.of_lt (hneg m (by simp only [proj]; exact .diffS hm) x hx))
      (fun m hm => hneg m (by simp only [proj]; exact .diffS hm.occurs))
    simp only [diffCycleResp]
    constructor
    · intro hmem
      simp only [List.mem_append, List.mem_singleton] at hmem
      rcases hmem with (h | h) | h
      · exact hb1 h
      · exact hs1 h
      · exact absurd h (by decide)
    · intro c hc x hx
      rcases List.mem_append.mp hc with hc | hc
      · exact hb2 c hc x hx
      · exact Rk.of_lt (by have := hs2 c hc x hx; simpa [Rk] using this)
  | @diff d V b s rb rs bm sm _ _ _ _ _ ihb ihs =>
    intro hl strict ho hneg
    obtain ⟨hb1, hb2⟩ := ihb (fun h => hl (.diffB h)) strict
      (fun m hm => ho m (by simp only [proj]; exact .diffB hm))
      (fun m hm => hneg m (by simp only [proj]; exact .diffB hm))
    obtain ⟨hs1, hs2⟩ := ihs (fun h => hl (.diffS h)) true
      (fun m hm x hx => by
        show Rk true (rk m) (rk x)
        exact Rk.of_lt (hneg m (by simp only [proj]; exact .diffS hm) x hx))
      (fun m hm => hneg m (by simp only [proj]; exact .diffS hm.occurs))
    have hs2' : ∀ c ∈ rs.cutAt, ∀ x ∈ V, rk c < rk x := fun c hc x hx => by
      have := hs2 c hc x hx; simpa [Rk] using this
    simp only [diffResp]
    constructor
    · intro hmem
      simp only [List.mem_append] at hmem
      rcases hmem with ((((((h | h) | h) | h) | h) | h) | h) | h
      · exact hb1 h
      · exact hs1 h
      · exact not_mem_noteIf (by decide) h
      · exact not_mem_noteIf (by decide) h
      · unfold exclNotes at h
        simp only [List.mem_append] at h
        rcases h with h | h
        · exact not_mem_noteIf (by decide) h
        · exact not_mem_noteIf (by decide) h
      · exact not_mem_noteIf (by decide) h
      · exact not_mem_noteIf (by decide) h
      · -- the note itself: the subtracted operand was not cut at a sub-problem of the path
        have hany : rs.cutAt.any (fun n => V.contains n) = false := by
          rw [List.any_eq_false]
          intro c hc
          simp only [List.contains_eq_mem, decide_eq_true_eq]
          intro hcV
          exact Nat.lt_irrefl _ (hs2' c hc c hcV)
        rw [hany] at h
        simp [noteIf] at h
    · intro c hc x hx
      rcases List.mem_append.mp hc with hc | hc
      · exact hb2 c hc x hx
      · exact Rk.of_lt (hs2' c hc x hx)

/-- for a system without negation through recursion no answer carries the note `excl-sub-cut` -/
theorem answer_no_sub_cut (hs : Stratified (specSys sys u cw) rk)
    (hleaf : ∀ n, ¬ NoteLeaf "excl-sub-cut" (sys.rule n)) (root : N) (a : Answer K)
    (h : ListUsersRel sys limit root a) : "excl-sub-cut" ∉ a.notes := by
  obtain ⟨r, m, hexp, _, rfl⟩ := h
  have := (no_sub_cut sys limit u cw rk hs hleaf hexp (fun h => by cases h) false
    (fun _ _ x hx => absurd hx List.not_mem_nil) (fun _ _ x hx => absurd hx List.not_mem_nil)).1
  simp only [answerOf, List.mem_append]
  rintro (h | h)
  · exact this h
  · exact not_mem_noteIf (by decide) h

end
end OpenFGAVerif.ListUsers
