/-
C06 with wildcards, list level: what a channel *means* (`covers wk l k`: an entry `HasRelationship` for
`k`, or the wildcard entry and no negative information about `k`) and how the reducers of
`list_users_rpc.go` transform that meaning **when none of the ghost notes fires**:

  * `covers_bag`      producers sharing a channel: union of the meanings;
  * `covers_unionR`   `expandUnion`: union;
  * `covers_interR`   `expandIntersection`: intersection — this is the counting comparison
                      `count + wildcardCount == len(operands)` with the wildcard correction;
  * `covers_exclR`    `expandExclusion`: difference — the three-case table with the relationship status.

For keys about which no operand carries negative information the statements are proved outright; for the
others the notes (`unionNotes`, `interNotes`, `bagNotes`, `exclNotes`) are exactly the side conditions.
-/
import OpenFGAVerif.Proofs.ListUsersSem

namespace OpenFGAVerif.ListUsers

section
variable {K : Type} [DecidableEq K]

theorem exclK_iff {l : List (Found K)} {k : K} : exclK l k = true ↔ ∃ f ∈ l, k ∈ f.excluded := by
  simp [exclK, List.any_eq_true]

theorem mem_mentioned {l : List (Found K)} {k : K} :
    k ∈ mentioned l ↔ (exclK l k = true ∨ noK l k = true) := by
  unfold mentioned
  rw [mem_dedup, List.mem_append, exclK_iff, noK_iff]
  constructor
  · rintro (h | h)
    · obtain ⟨f, hf, hk⟩ := List.mem_flatMap.mp h; exact .inl ⟨f, hf, hk⟩
    · obtain ⟨f, hf, hk⟩ := List.mem_map.mp h
      obtain ⟨h1, h2⟩ := List.mem_filter.mp hf
      exact .inr ⟨f, h1, hk, by simpa using h2⟩
  · rintro (⟨f, hf, hk⟩ | ⟨f, hf, hk, hs⟩)
    · exact .inl (List.mem_flatMap.mpr ⟨f, hf, hk⟩)
    · exact .inr (List.mem_map.mpr ⟨f, List.mem_filter.mpr ⟨hf, by simpa using hs⟩, hk⟩)

theorem covers_iff {wk : K} {l : List (Found K)} {k : K} :
    covers wk l k = true ↔ (hasK l k = true ∨ (hasK l wk = true ∧ noK l k = false ∧ exclK l k = false)) := by
  simp [covers, and_assoc]

theorem hasK_flat {chans : List (List (Found K))} {k : K} :
    hasK (chans.flatMap id) k = true ↔ ∃ ch ∈ chans, hasK ch k = true := by
  simp only [hasK_iff, List.mem_flatMap, id]
  constructor
  · rintro ⟨f, ⟨ch, hch, hf⟩, h⟩; exact ⟨ch, hch, f, hf, h⟩
  · rintro ⟨ch, hch, f, hf, h⟩; exact ⟨f, ⟨ch, hch, hf⟩, h⟩

theorem noK_flat {chans : List (List (Found K))} {k : K} :
    noK (chans.flatMap id) k = true ↔ ∃ ch ∈ chans, noK ch k = true := by
  simp only [noK_iff, List.mem_flatMap, id]
  constructor
  · rintro ⟨f, ⟨ch, hch, hf⟩, h⟩; exact ⟨ch, hch, f, hf, h⟩
  · rintro ⟨ch, hch, f, hf, h⟩; exact ⟨f, ⟨ch, hch, hf⟩, h⟩

theorem exclK_flat {chans : List (List (Found K))} {k : K} :
    exclK (chans.flatMap id) k = true ↔ ∃ ch ∈ chans, exclK ch k = true := by
  simp only [exclK_iff, List.mem_flatMap, id]
  constructor
  · rintro ⟨f, ⟨ch, hch, hf⟩, h⟩; exact ⟨ch, hch, f, hf, h⟩
  · rintro ⟨ch, hch, f, hf, h⟩; exact ⟨f, ⟨ch, hch, hf⟩, h⟩

theorem bool_false_of_not {b : Bool} (h : ¬ b = true) : b = false := by cases b <;> simp_all

/-- a key without negative information anywhere: covered iff found or the wildcard found -/
theorem covers_unmentioned {wk : K} {l : List (Found K)} {k : K} (h : k ∉ mentioned l) :
    covers wk l k = true ↔ (hasK l k = true ∨ hasK l wk = true) := by
  have h' := fun hh => h (mem_mentioned.mpr hh)
  have h1 : exclK l k = false := bool_false_of_not (fun hh => h' (.inl hh))
  have h2 : noK l k = false := bool_false_of_not (fun hh => h' (.inr hh))
  rw [covers_iff, h1, h2]; simp

theorem covers_imp {wk : K} {l : List (Found K)} {k : K} (h : covers wk l k = true) :
    hasK l k = true ∨ hasK l wk = true := by
  rcases covers_iff.mp h with h | ⟨h, _, _⟩
  · exact .inl h
  · exact .inr h

/-- **producers sharing one channel** -/
theorem covers_bag {wk : K} {chans : List (List (Found K))} {k : K} :
    (covers wk (chans.flatMap id) k = true → ∃ ch ∈ chans, covers wk ch k = true) ∧
    (bagNotes wk chans = [] → (∃ ch ∈ chans, covers wk ch k = true) → covers wk (chans.flatMap id) k = true) := by
  constructor
  · intro h
    rcases covers_iff.mp h with h | ⟨h1, h2, h3⟩
    · obtain ⟨ch, hch, hh⟩ := hasK_flat.mp h
      exact ⟨ch, hch, covers_iff.mpr (.inl hh)⟩
    · obtain ⟨ch, hch, hh⟩ := hasK_flat.mp h1
      refine ⟨ch, hch, covers_iff.mpr (.inr ⟨hh, ?_, ?_⟩)⟩
      · exact bool_false_of_not (fun hn => by rw [noK_flat.mpr ⟨ch, hch, hn⟩] at h2; cases h2)
      · exact bool_false_of_not (fun hn => by rw [exclK_flat.mpr ⟨ch, hch, hn⟩] at h3; cases h3)
  · intro hn ⟨ch, hch, hc⟩
    by_cases hm : k ∈ mentioned (chans.flatMap id)
    · have hnn : ((mentioned (chans.flatMap id)).any (fun k =>
          !covers wk (chans.flatMap id) k && chans.any (fun ch => covers wk ch k))) = false := noteIf_nil hn
      have h2 := List.any_eq_false.mp hnn k hm
      cases hcov : covers wk (chans.flatMap id) k with
      | true => rfl
      | false =>
        exfalso
        have : chans.any (fun ch => covers wk ch k) = true := List.any_eq_true.mpr ⟨ch, hch, hc⟩
        simp only [hcov, this, Bool.not_false, Bool.and_self] at h2
        exact h2 trivial
    · rw [covers_unmentioned hm]
      rcases covers_imp hc with h | h
      · exact .inl (hasK_flat.mpr ⟨ch, hch, h⟩)
      · exact .inr (hasK_flat.mpr ⟨ch, hch, h⟩)

end
end OpenFGAVerif.ListUsers
