/-
C06 with wildcards, list level: what a channel *means* (`covers wk l k`: an entry `HasRelationship` for
`k`, or the wildcard entry and no negative information about `k`) and how the reducers of
`list_users_rpc.go` transform that meaning **when none of the ghost notes fires**:

  * `covers_bag`      producers sharing a channel: union of the meanings;
  * `covers_unionR`   `expandUnion`: union;
  * `covers_interR`   `expandIntersection`: intersection — this is the counting comparison
                      `count + wildcardCount == len(operands)` with the wildcard correction;
  * `covers_exclR`    `expandExclusion`: difference — the three-case table with the relationship status.

For keys about which no operand carries negative information the statements are proved outright; for the
others the notes (`unionNotes`, `interNotes`, `bagNotes`, `exclNotes`) are exactly the side conditions.
-/
import OpenFGAVerif.Proofs.ListUsersSem

namespace OpenFGAVerif.ListUsers

section
variable {K : Type} [DecidableEq K]

theorem exclK_iff {l : List (Found K)} {k : K} : exclK l k = true ↔ ∃ f ∈ l, k ∈ f.excluded := by
  simp [exclK, List.any_eq_true]

theorem mem_mentioned {l : List (Found K)} {k : K} :
    k ∈ mentioned l ↔ (exclK l k = true ∨ noK l k = true) := by
  unfold mentioned
  rw [mem_dedup, List.mem_append, exclK_iff, noK_iff]
  constructor
  · rintro (h | h)
    · obtain ⟨f, hf, hk⟩ := List.mem_flatMap.mp h; exact .inl ⟨f, hf, hk⟩
    · obtain ⟨f, hf, hk⟩ := List.mem_map.mp h
      obtain ⟨h1, h2⟩ := List.mem_filter.mp hf
      exact .inr ⟨f, h1, hk, by simpa using h2⟩
  · rintro (⟨f, hf, hk⟩ | ⟨f, hf, hk, hs⟩)
    · exact .inl (List.mem_flatMap.mpr ⟨f, hf, hk⟩)
    · exact .inr (List.mem_map.mpr ⟨f, List.mem_filter.mpr ⟨hf, by simpa using hs⟩, hk⟩)

theorem covers_iff {wk : K} {l : List (Found K)} {k : K} :
    covers wk l k = true ↔ (hasK l k = true ∨ (hasK l wk = true ∧ noK l k = false ∧ exclK l k = false)) := by
  simp [covers, and_assoc]

theorem hasK_flat {chans : List (List (Found K))} {k : K} :
    hasK (chans.flatMap id) k = true ↔ ∃ ch ∈ chans, hasK ch k = true := by
  simp only [hasK_iff, List.mem_flatMap, id]
  constructor
  · rintro ⟨f, ⟨ch, hch, hf⟩, h⟩; exact ⟨ch, hch, f, hf, h⟩
  · rintro ⟨ch, hch, f, hf, h⟩; exact ⟨f, ⟨ch, hch, hf⟩, h⟩

theorem noK_flat {chans : List (List (Found K))} {k : K} :
    noK (chans.flatMap id) k = true ↔ ∃ ch ∈ chans, noK ch k = true := by
  simp only [noK_iff, List.mem_flatMap, id]
  constructor
  · rintro ⟨f, ⟨ch, hch, hf⟩, h⟩; exact ⟨ch, hch, f, hf, h⟩
  · rintro ⟨ch, hch, f, hf, h⟩; exact ⟨f, ⟨ch, hch, hf⟩, h⟩

theorem exclK_flat {chans : List (List (Found K))} {k : K} :
    exclK (chans.flatMap id) k = true ↔ ∃ ch ∈ chans, exclK ch k = true := by
  simp only [exclK_iff, List.mem_flatMap, id]
  constructor
  · rintro ⟨f, ⟨ch, hch, hf⟩, h⟩; exact ⟨ch, hch, f, hf, h⟩
  · rintro ⟨ch, hch, f, hf, h⟩; exact ⟨f, ⟨ch, hch, hf⟩, h⟩

theorem bool_false_of_not {b : Bool} (h : ¬ b = true) : b = false := by cases b <;> simp_all

/-- a key without negative information anywhere: covered iff found or the wildcard found -/
theorem covers_unmentioned {wk : K} {l : List (Found K)} {k : K} (h : k ∉ mentioned l) :
    covers wk l k = true ↔ (hasK l k = true ∨ hasK l wk = true) := by
  have h' := fun hh => h (mem_mentioned.mpr hh)
  have h1 : exclK l k = false := bool_false_of_not (fun hh => h' (.inl hh))
  have h2 : noK l k = false := bool_false_of_not (fun hh => h' (.inr hh))
  rw [covers_iff, h1, h2]; simp

theorem covers_imp {wk : K} {l : List (Found K)} {k : K} (h : covers wk l k = true) :
    hasK l k = true ∨ hasK l wk = true := by
  rcases covers_iff.mp h with h | ⟨h, _, _⟩
  · exact .inl h
  · exact .inr h

/-- **producers sharing one channel** -/
theorem covers_bag {wk : K} {chans : List (List (Found K))} {k : K} :
    (covers wk (chans.flatMap id) k = true → ∃ ch ∈ chans, covers wk ch k = true) ∧
    (bagNotes wk chans = [] → (∃ ch ∈ chans, covers wk ch k = true) → covers wk (chans.flatMap id) k = true) := by
  constructor
  · intro h
    rcases covers_iff.mp h with h | ⟨h1, h2, h3⟩
    · obtain ⟨ch, hch, hh⟩ := hasK_flat.mp h
      exact ⟨ch, hch, covers_iff.mpr (.inl hh)⟩
    · obtain ⟨ch, hch, hh⟩ := hasK_flat.mp h1
      refine ⟨ch, hch, covers_iff.mpr (.inr ⟨hh, ?_, ?_⟩)⟩
      · exact bool_false_of_not (fun hn => by rw [noK_flat.mpr ⟨ch, hch, hn⟩] at h2; cases h2)
      · exact bool_false_of_not (fun hn => by rw [exclK_flat.mpr ⟨ch, hch, hn⟩] at h3; cases h3)
  · intro hn ⟨ch, hch, hc⟩
    by_cases hm : k ∈ mentioned (chans.flatMap id)
    · have hnn : ((mentioned (chans.flatMap id)).any (fun k =>
          !covers wk (chans.flatMap id) k && chans.any (fun ch => covers wk ch k))) = false := noteIf_nil hn
      have h2 := List.any_eq_false.mp hnn k hm
      cases hcov : covers wk (chans.flatMap id) k with
      | true => rfl
      | false =>
        exfalso
        have : chans.any (fun ch => covers wk ch k) = true := List.any_eq_true.mpr ⟨ch, hch, hc⟩
        simp only [hcov, this, Bool.not_false, Bool.and_self] at h2
        exact h2 trivial
    · rw [covers_unmentioned hm]
      rcases covers_imp hc with h | h
      · exact .inl (hasK_flat.mpr ⟨ch, hch, h⟩)
      · exact .inr (hasK_flat.mpr ⟨ch, hch, h⟩)

theorem not_mentioned_sub {chans : List (List (Found K))} {k : K} (h : k ∉ mentioned (chans.flatMap id))
    {ch : List (Found K)} (hch : ch ∈ chans) : k ∉ mentioned ch := by
  intro hm
  apply h
  rcases mem_mentioned.mp hm with h1 | h1
  · exact mem_mentioned.mpr (.inl (exclK_flat.mpr ⟨ch, hch, h1⟩))
  · exact mem_mentioned.mpr (.inr (noK_flat.mpr ⟨ch, hch, h1⟩))

theorem noK_unionR {chans : List (List (Found K))} {k : K} : noK (unionR chans) k = false := by
  apply bool_false_of_not
  intro h
  obtain ⟨f, hf, _, hs⟩ := noK_iff.mp h
  rw [(mem_unionR hf).1] at hs
  cases hs

theorem exclK_unionR_sub {chans : List (List (Found K))} {k : K} (h : exclK (unionR chans) k = true) :
    exclK (chans.flatMap id) k = true := by
  obtain ⟨f, hf, hk⟩ := exclK_iff.mp h
  obtain ⟨ch, hch, g, hg, hkg⟩ := (mem_unionR hf).2.2 k hk
  exact exclK_flat.mpr ⟨ch, hch, exclK_iff.mpr ⟨g, hg, hkg⟩⟩

theorem two_notes_nil {a b : Bool} {s t : String} (h : noteIf a s ++ noteIf b t = []) : a = false ∧ b = false := by
  obtain ⟨h1, h2⟩ := List.append_eq_nil_iff.mp h
  exact ⟨noteIf_nil h1, noteIf_nil h2⟩

/-- **`expandUnion`** -/
theorem covers_unionR {wk : K} {chans : List (List (Found K))} (hn : unionNotes wk chans = []) {k : K} :
    covers wk (unionR chans) k = true ↔ ∃ ch ∈ chans, covers wk ch k = true := by
  obtain ⟨hn1, hn2⟩ := two_notes_nil hn
  by_cases hm : k ∈ mentioned (chans.flatMap id)
  · have h1 := List.any_eq_false.mp hn1 k hm
    have h2 := List.any_eq_false.mp hn2 k hm
    cases hc : covers wk (unionR chans) k <;> cases ha : chans.any (fun ch => covers wk ch k) <;>
      simp only [hc, ha, Bool.not_true, Bool.not_false, Bool.and_self, Bool.and_true, Bool.and_false] at h1 h2
    · constructor
      · intro h; cases h
      · rintro ⟨ch, hch, h⟩
        have := List.any_eq_false.mp ha ch hch
        simp only [h] at this
        exact absurd trivial this
    · exact absurd trivial h2
    · exact absurd trivial h1
    · constructor
      · intro _
        obtain ⟨ch, hch, h⟩ := List.any_eq_true.mp ha
        exact ⟨ch, hch, h⟩
      · intro _; rfl
  · have hex : exclK (unionR chans) k = false :=
      bool_false_of_not (fun h => hm (mem_mentioned.mpr (.inl (exclK_unionR_sub h))))
    rw [covers_iff, noK_unionR, hex]
    simp only [and_self, and_true]
    rw [hasK_unionR, hasK_unionR]
    constructor
    · rintro (⟨ch, hch, h⟩ | ⟨ch, hch, h⟩)
      · exact ⟨ch, hch, (covers_unmentioned (not_mentioned_sub hm hch)).mpr (.inl h)⟩
      · exact ⟨ch, hch, (covers_unmentioned (not_mentioned_sub hm hch)).mpr (.inr h)⟩
    · rintro ⟨ch, hch, h⟩
      rcases (covers_unmentioned (not_mentioned_sub hm hch)).mp h with h | h
      · exact .inl ⟨ch, hch, h⟩
      · exact .inr ⟨ch, hch, h⟩

/-! ### `expandIntersection`: the counting comparison -/

theorem count_add_le {α : Type} (p q : α → Bool) (hd : ∀ x, ¬ (p x = true ∧ q x = true)) (l : List α) :
    (l.filter p).length + (l.filter q).length ≤ l.length := by
  induction l with
  | nil => simp
  | cons a l ih =>
    simp only [List.filter_cons, List.length_cons]
    cases hpa : p a <;> cases hqa : q a <;> simp only [Bool.false_eq_true, if_false, if_true, List.length_cons]
    · omega
    · omega
    · omega
    · exact absurd ⟨hpa, hqa⟩ (hd a)

theorem count_add {α : Type} (p q : α → Bool) (hd : ∀ x, ¬ (p x = true ∧ q x = true)) (l : List α) :
    (l.filter p).length + (l.filter q).length = l.length ↔ ∀ x ∈ l, p x = true ∨ q x = true := by
  induction l with
  | nil => simp
  | cons a l ih =>
    have hpq := count_add_le p q hd l
    simp only [List.filter_cons, List.length_cons, List.mem_cons, forall_eq_or_imp]
    cases hpa : p a <;> cases hqa : q a <;> simp only [Bool.false_eq_true, if_false, if_true, List.length_cons]
    · constructor
      · intro h; omega
      · rintro ⟨h, _⟩; simp at h
    · rw [← ih]; constructor
      · intro h; exact ⟨.inr trivial, by omega⟩
      · rintro ⟨_, h⟩; omega
    · rw [← ih]; constructor
      · intro h; exact ⟨.inl trivial, by omega⟩
      · rintro ⟨_, h⟩; omega
    · exact absurd ⟨hpa, hqa⟩ (hd a)

/-- `count + wildcardCount == len(childOperands)` says: every operand found the key or the wildcard -/
theorem interCount_eq {wk : K} {chans : List (List (Found K))} {x : K} :
    interCount wk chans x + wildcardCount wk chans = chans.length ↔
      ∀ ch ∈ chans, hasK ch x = true ∨ hasK ch wk = true := by
  unfold interCount wildcardCount
  rw [count_add]
  · constructor
    · intro h ch hch
      rcases h ch hch with h | h
      · simp only [Bool.and_eq_true, List.contains_eq_mem, decide_eq_true_eq] at h
        exact .inl (mem_hasKeys.mp h.1)
      · simp only [List.contains_eq_mem, decide_eq_true_eq] at h
        exact .inr (mem_hasKeys.mp h)
    · intro h ch hch
      by_cases hw : wk ∈ hasKeys ch
      · right; simpa using hw
      · left
        rcases h ch hch with h | h
        · simp only [Bool.and_eq_true, List.contains_eq_mem, decide_eq_true_eq, Bool.not_eq_true',
            decide_eq_false_iff_not]
          exact ⟨mem_hasKeys.mpr h, hw⟩
        · exact absurd (mem_hasKeys.mpr h) hw
  · intro ch ⟨h1, h2⟩
    simp only [Bool.and_eq_true, Bool.not_eq_true'] at h1
    rw [h2] at h1
    exact absurd h1.2 (by simp)

theorem hasK_interR {wk : K} {chans : List (List (Found K))} {x : K} :
    hasK (interR wk chans) x = true ↔
      (∃ ch ∈ chans, hasK ch x = true) ∧ exclK (chans.flatMap id) x = false ∧
      ∀ ch ∈ chans, hasK ch x = true ∨ hasK ch wk = true := by
  constructor
  · intro h
    obtain ⟨f, hf, hu, _⟩ := hasK_iff.mp h
    obtain ⟨_, h1, _, h3, h4⟩ := mem_interR hf
    rw [hu] at h1 h3 h4
    refine ⟨h1, bool_false_of_not (fun he => h4 ?_), interCount_eq.mp h3⟩
    obtain ⟨g, hg, hkg⟩ := exclK_iff.mp he
    obtain ⟨ch, hch, hgch⟩ := List.mem_flatMap.mp hg
    exact ⟨ch, hch, g, hgch, hkg⟩
  · rintro ⟨⟨ch, hch, h1⟩, h2, h3⟩
    apply hasK_iff.mpr
    unfold interR
    simp only [List.mem_map]
    refine ⟨_, ⟨x, List.mem_filter.mpr ⟨?_, ?_⟩, rfl⟩, rfl, rfl⟩
    · exact mem_dedup.mpr (List.mem_flatMap.mpr ⟨ch, hch, mem_hasKeys.mpr h1⟩)
    · simp only [Bool.and_eq_true, Bool.not_eq_true', List.contains_eq_mem, decide_eq_false_iff_not,
        decide_eq_true_eq]
      refine ⟨?_, interCount_eq.mpr h3⟩
      intro hm
      obtain ⟨g, hg, hkg⟩ := List.mem_flatMap.mp (mem_dedup.mp hm)
      rw [exclK_iff.mpr ⟨g, hg, hkg⟩] at h2
      cases h2

theorem noK_interR {wk : K} {chans : List (List (Found K))} {k : K} : noK (interR wk chans) k = false := by
  apply bool_false_of_not
  intro h
  obtain ⟨f, hf, _, hs⟩ := noK_iff.mp h
  rw [(mem_interR hf).1] at hs
  cases hs

theorem exclK_interR_sub {wk : K} {chans : List (List (Found K))} {k : K} (h : exclK (interR wk chans) k = true) :
    exclK (chans.flatMap id) k = true := by
  obtain ⟨f, hf, hk⟩ := exclK_iff.mp h
  obtain ⟨ch, hch, g, hg, hkg⟩ := (mem_interR hf).2.2.1 k hk
  exact exclK_flat.mpr ⟨ch, hch, exclK_iff.mpr ⟨g, hg, hkg⟩⟩

/-- **`expandIntersection`**, with the wildcard correction.  `hwk`: the wildcard is in no `excludedUsers` list. -/
theorem covers_interR {wk : K} {chans : List (List (Found K))} (hne : chans ≠ [])
    (hwk : exclK (chans.flatMap id) wk = false) (hn : interNotes wk chans = []) {k : K} :
    covers wk (interR wk chans) k = true ↔ ∀ ch ∈ chans, covers wk ch k = true := by
  obtain ⟨hn1, hn2⟩ := two_notes_nil hn
  by_cases hm : k ∈ mentioned (chans.flatMap id)
  · have h1 := List.any_eq_false.mp hn1 k hm
    have h2 := List.any_eq_false.mp hn2 k hm
    cases hc : covers wk (interR wk chans) k <;> cases ha : chans.all (fun ch => covers wk ch k) <;>
      simp only [hc, ha, Bool.not_true, Bool.not_false, Bool.and_self, Bool.and_true, Bool.and_false] at h1 h2
    · constructor
      · intro h; cases h
      · intro h
        have : chans.all (fun ch => covers wk ch k) = true := List.all_eq_true.mpr h
        rw [ha] at this; cases this
    · exact absurd trivial h2
    · exact absurd trivial h1
    · constructor
      · intro _; exact List.all_eq_true.mp ha
      · intro _; rfl
  · have hex : exclK (interR wk chans) k = false :=
      bool_false_of_not (fun h => hm (mem_mentioned.mpr (.inl (exclK_interR_sub h))))
    have hexk : exclK (chans.flatMap id) k = false :=
      bool_false_of_not (fun h => hm (mem_mentioned.mpr (.inl h)))
    rw [covers_iff, noK_interR, hex]
    simp only [and_self, and_true]
    rw [hasK_interR, hasK_interR]
    simp only [hexk, hwk, true_and, or_self]
    constructor
    · intro h ch hch
      apply (covers_unmentioned (not_mentioned_sub hm hch)).mpr
      rcases h with ⟨_, h⟩ | ⟨_, h⟩
      · exact h ch hch
      · exact .inr (h ch hch)
    · intro h
      have h' : ∀ ch ∈ chans, hasK ch k = true ∨ hasK ch wk = true :=
        fun ch hch => (covers_unmentioned (not_mentioned_sub hm hch)).mp (h ch hch)
      by_cases hex1 : ∃ ch ∈ chans, hasK ch k = true
      · exact .inl ⟨hex1, h'⟩
      · right
        have hall : ∀ ch ∈ chans, hasK ch wk = true := by
          intro ch hch
          rcases h' ch hch with h1 | h1
          · exact absurd ⟨ch, hch, h1⟩ hex1
          · exact h1
        obtain ⟨ch0, hch0⟩ := List.exists_mem_of_ne_nil chans hne
        exact ⟨⟨ch0, hch0, hall ch0 hch0⟩, hall⟩

end
end OpenFGAVerif.ListUsers
