/-
C06 with wildcards, list level: what a channel *means* (`covers wk l k`: an entry `HasRelationship` for
`k`, or the wildcard entry and no negative information about `k`) and how the reducers of
`list_users_rpc.go` transform that meaning **when none of the ghost notes fires**:

  * `covers_bag`      producers sharing a channel: union of the meanings;
  * `covers_unionR`   `expandUnion`: union;
  * `covers_interR`   `expandIntersection`: intersection — this is the counting comparison
                      `count + wildcardCount == len(operands)` with the wildcard correction;
  * `covers_exclR`    `expandExclusion`: difference — the three-case table with the relationship status.

For keys about which no operand carries negative information the statements are proved outright; for the
others the notes (`unionNotes`, `interNotes`, `bagNotes`, `exclNotes`) are exactly the side conditions.
-/
import OpenFGAVerif.Proofs.ListUsersSem

set_option linter.unusedSectionVars false

namespace OpenFGAVerif.ListUsers

section
variable {K : Type} [DecidableEq K]

theorem exclK_iff {l : List (Found K)} {k : K} : exclK l k = true ↔ ∃ f ∈ l, k ∈ f.excluded := by
  simp [exclK, List.any_eq_true]

theorem mem_mentioned {l : List (Found K)} {k : K} :
    k ∈ mentioned l ↔ (exclK l k = true ∨ noK l k = true) := by
  unfold mentioned
  rw [mem_dedup, List.mem_append, exclK_iff, noK_iff]
  constructor
  · rintro (h | h)
    · obtain ⟨f, hf, hk⟩ := List.mem_flatMap.mp h; exact .inl ⟨f, hf, hk⟩
    · obtain ⟨f, hf, hk⟩ := List.mem_map.mp h
      obtain ⟨h1, h2⟩ := List.mem_filter.mp hf
      exact .inr ⟨f, h1, hk, by simpa using h2⟩
  · rintro (⟨f, hf, hk⟩ | ⟨f, hf, hk, hs⟩)
    · exact .inl (List.mem_flatMap.mpr ⟨f, hf, hk⟩)
    · exact .inr (List.mem_map.mpr ⟨f, List.mem_filter.mpr ⟨hf, by simpa using hs⟩, hk⟩)

theorem covers_iff {wk : K} {l : List (Found K)} {k : K} :
    covers wk l k = true ↔ (hasK l k = true ∨ (hasK l wk = true ∧ noK l k = false ∧ exclK l k = false)) := by
  simp [covers, and_assoc]

theorem hasK_flat {chans : List (List (Found K))} {k : K} :
    hasK (chans.flatMap id) k = true ↔ ∃ ch ∈ chans, hasK ch k = true := by
  simp only [hasK_iff, List.mem_flatMap, id]
  constructor
  · rintro ⟨f, ⟨ch, hch, hf⟩, h⟩; exact ⟨ch, hch, f, hf, h⟩
  · rintro ⟨ch, hch, f, hf, h⟩; exact ⟨f, ⟨ch, hch, hf⟩, h⟩

theorem noK_flat {chans : List (List (Found K))} {k : K} :
    noK (chans.flatMap id) k = true ↔ ∃ ch ∈ chans, noK ch k = true := by
  simp only [noK_iff, List.mem_flatMap, id]
  constructor
  · rintro ⟨f, ⟨ch, hch, hf⟩, h⟩; exact ⟨ch, hch, f, hf, h⟩
  · rintro ⟨ch, hch, f, hf, h⟩; exact ⟨f, ⟨ch, hch, hf⟩, h⟩

theorem exclK_flat {chans : List (List (Found K))} {k : K} :
    exclK (chans.flatMap id) k = true ↔ ∃ ch ∈ chans, exclK ch k = true := by
  simp only [exclK_iff, List.mem_flatMap, id]
  constructor
  · rintro ⟨f, ⟨ch, hch, hf⟩, h⟩; exact ⟨ch, hch, f, hf, h⟩
  · rintro ⟨ch, hch, f, hf, h⟩; exact ⟨f, ⟨ch, hch, hf⟩, h⟩

theorem bool_false_of_not {b : Bool} (h : ¬ b = true) : b = false := by cases b <;> simp_all

/-- a key without negative information anywhere: covered iff found or the wildcard found -/
theorem covers_unmentioned {wk : K} {l : List (Found K)} {k : K} (h : k ∉ mentioned l) :
    covers wk l k = true ↔ (hasK l k = true ∨ hasK l wk = true) := by
  have h' := fun hh => h (mem_mentioned.mpr hh)
  have h1 : exclK l k = false := bool_false_of_not (fun hh => h' (.inl hh))
  have h2 : noK l k = false := bool_false_of_not (fun hh => h' (.inr hh))
  rw [covers_iff, h1, h2]; simp

theorem covers_imp {wk : K} {l : List (Found K)} {k : K} (h : covers wk l k = true) :
    hasK l k = true ∨ hasK l wk = true := by
  rcases covers_iff.mp h with h | ⟨h, _, _⟩
  · exact .inl h
  · exact .inr h

/-- **producers sharing one channel** -/
theorem covers_bag {wk : K} {chans : List (List (Found K))} {k : K} :
    (covers wk (chans.flatMap id) k = true → ∃ ch ∈ chans, covers wk ch k = true) ∧
    (bagNotes wk chans = [] → (∃ ch ∈ chans, covers wk ch k = true) → covers wk (chans.flatMap id) k = true) := by
  constructor
  · intro h
    rcases covers_iff.mp h with h | ⟨h1, h2, h3⟩
    · obtain ⟨ch, hch, hh⟩ := hasK_flat.mp h
      exact ⟨ch, hch, covers_iff.mpr (.inl hh)⟩
    · obtain ⟨ch, hch, hh⟩ := hasK_flat.mp h1
      refine ⟨ch, hch, covers_iff.mpr (.inr ⟨hh, ?_, ?_⟩)⟩
      · exact bool_false_of_not (fun hn => by rw [noK_flat.mpr ⟨ch, hch, hn⟩] at h2; cases h2)
      · exact bool_false_of_not (fun hn => by rw [exclK_flat.mpr ⟨ch, hch, hn⟩] at h3; cases h3)
  · intro hn ⟨ch, hch, hc⟩
    by_cases hm : k ∈ mentioned (chans.flatMap id)
    · have hnn : ((mentioned (chans.flatMap id)).any (fun k =>
          !covers wk (chans.flatMap id) k && chans.any (fun ch => covers wk ch k))) = false := noteIf_nil hn
      have h2 := List.any_eq_false.mp hnn k hm
      cases hcov : covers wk (chans.flatMap id) k with
      | true => rfl
      | false =>
        exfalso
        have : chans.any (fun ch => covers wk ch k) = true := List.any_eq_true.mpr ⟨ch, hch, hc⟩
        simp only [hcov, this, Bool.not_false, Bool.and_self] at h2
        exact h2 trivial
    · rw [covers_unmentioned hm]
      rcases covers_imp hc with h | h
      · exact .inl (hasK_flat.mpr ⟨ch, hch, h⟩)
      · exact .inr (hasK_flat.mpr ⟨ch, hch, h⟩)

theorem not_mentioned_sub {chans : List (List (Found K))} {k : K} (h : k ∉ mentioned (chans.flatMap id))
    {ch : List (Found K)} (hch : ch ∈ chans) : k ∉ mentioned ch := by
  intro hm
  apply h
  rcases mem_mentioned.mp hm with h1 | h1
  · exact mem_mentioned.mpr (.inl (exclK_flat.mpr ⟨ch, hch, h1⟩))
  · exact mem_mentioned.mpr (.inr (noK_flat.mpr ⟨ch, hch, h1⟩))

theorem noK_unionR {chans : List (List (Found K))} {k : K} : noK (unionR chans) k = false := by
  apply bool_false_of_not
  intro h
  obtain ⟨f, hf, _, hs⟩ := noK_iff.mp h
  rw [(mem_unionR hf).1] at hs
  cases hs

theorem exclK_unionR_sub {chans : List (List (Found K))} {k : K} (h : exclK (unionR chans) k = true) :
    exclK (chans.flatMap id) k = true := by
  obtain ⟨f, hf, hk⟩ := exclK_iff.mp h
  obtain ⟨ch, hch, g, hg, hkg⟩ := (mem_unionR hf).2.2 k hk
  exact exclK_flat.mpr ⟨ch, hch, exclK_iff.mpr ⟨g, hg, hkg⟩⟩

theorem two_notes_nil {a b : Bool} {s t : String} (h : noteIf a s ++ noteIf b t = []) : a = false ∧ b = false := by
  obtain ⟨h1, h2⟩ := List.append_eq_nil_iff.mp h
  exact ⟨noteIf_nil h1, noteIf_nil h2⟩

/-- **`expandUnion`** -/
theorem covers_unionR {wk : K} {chans : List (List (Found K))} (hn : unionNotes wk chans = []) {k : K} :
    covers wk (unionR chans) k = true ↔ ∃ ch ∈ chans, covers wk ch k = true := by
  obtain ⟨hn1, hn2⟩ := two_notes_nil hn
  by_cases hm : k ∈ mentioned (chans.flatMap id)
  · have h1 := List.any_eq_false.mp hn1 k hm
    have h2 := List.any_eq_false.mp hn2 k hm
    cases hc : covers wk (unionR chans) k <;> cases ha : chans.any (fun ch => covers wk ch k) <;>
      simp only [hc, ha, Bool.not_true, Bool.not_false, Bool.and_self, Bool.and_true, Bool.and_false] at h1 h2
    · constructor
      · intro h; cases h
      · rintro ⟨ch, hch, h⟩
        have := List.any_eq_false.mp ha ch hch
        simp only [h] at this
        exact absurd trivial this
    · exact absurd trivial h2
    · exact absurd trivial h1
    · constructor
      · intro _
        obtain ⟨ch, hch, h⟩ := List.any_eq_true.mp ha
        exact ⟨ch, hch, h⟩
      · intro _; rfl
  · have hex : exclK (unionR chans) k = false :=
      bool_false_of_not (fun h => hm (mem_mentioned.mpr (.inl (exclK_unionR_sub h))))
    rw [covers_iff, noK_unionR, hex]
    simp only [and_self, and_true]
    rw [hasK_unionR, hasK_unionR]
    constructor
    · rintro (⟨ch, hch, h⟩ | ⟨ch, hch, h⟩)
      · exact ⟨ch, hch, (covers_unmentioned (not_mentioned_sub hm hch)).mpr (.inl h)⟩
      · exact ⟨ch, hch, (covers_unmentioned (not_mentioned_sub hm hch)).mpr (.inr h)⟩
    · rintro ⟨ch, hch, h⟩
      rcases (covers_unmentioned (not_mentioned_sub hm hch)).mp h with h | h
      · exact .inl ⟨ch, hch, h⟩
      · exact .inr ⟨ch, hch, h⟩

/-! ### `expandIntersection`: the counting comparison -/

theorem count_add_le {α : Type} (p q : α → Bool) (hd : ∀ x, ¬ (p x = true ∧ q x = true)) (l : List α) :
    (l.filter p).length + (l.filter q).length ≤ l.length := by
  induction l with
  | nil => simp
  | cons a l ih =>
    simp only [List.filter_cons, List.length_cons]
    cases hpa : p a <;> cases hqa : q a <;> simp only [Bool.false_eq_true, if_false, if_true, List.length_cons]
    · omega
    · omega
    · omega
    · exact absurd ⟨hpa, hqa⟩ (hd a)

theorem count_add {α : Type} (p q : α → Bool) (hd : ∀ x, ¬ (p x = true ∧ q x = true)) (l : List α) :
    (l.filter p).length + (l.filter q).length = l.length ↔ ∀ x ∈ l, p x = true ∨ q x = true := by
  induction l with
  | nil => simp
  | cons a l ih =>
    have hpq := count_add_le p q hd l
    simp only [List.filter_cons, List.length_cons, List.mem_cons, forall_eq_or_imp]
    cases hpa : p a <;> cases hqa : q a <;> simp only [Bool.false_eq_true, if_false, if_true, List.length_cons]
    · constructor
      · intro h; omega
      · rintro ⟨h, _⟩; simp at h
    · rw [← ih]; constructor
      · intro h; exact ⟨.inr trivial, by omega⟩
      · rintro ⟨_, h⟩; omega
    · rw [← ih]; constructor
      · intro h; exact ⟨.inl trivial, by omega⟩
      · rintro ⟨_, h⟩; omega
    · exact absurd ⟨hpa, hqa⟩ (hd a)

/-- `count + wildcardCount == len(childOperands)` says: every operand found the key or the wildcard -/
theorem interCount_eq {wk : K} {chans : List (List (Found K))} {x : K} :
    interCount wk chans x + wildcardCount wk chans = chans.length ↔
      ∀ ch ∈ chans, hasK ch x = true ∨ hasK ch wk = true := by
  unfold interCount wildcardCount
  rw [count_add]
  · constructor
    · intro h ch hch
      rcases h ch hch with h | h
      · simp only [Bool.and_eq_true, List.contains_eq_mem, decide_eq_true_eq] at h
        exact .inl (mem_hasKeys.mp h.1)
      · simp only [List.contains_eq_mem, decide_eq_true_eq] at h
        exact .inr (mem_hasKeys.mp h)
    · intro h ch hch
      by_cases hw : wk ∈ hasKeys ch
      · right; simpa using hw
      · left
        rcases h ch hch with h | h
        · simp only [Bool.and_eq_true, List.contains_eq_mem, decide_eq_true_eq, Bool.not_eq_true',
            decide_eq_false_iff_not]
          exact ⟨mem_hasKeys.mpr h, hw⟩
        · exact absurd (mem_hasKeys.mpr h) hw
  · intro ch ⟨h1, h2⟩
    simp only [Bool.and_eq_true, Bool.not_eq_true'] at h1
    rw [h2] at h1
    exact absurd h1.2 (by simp)

theorem hasK_interR {wk : K} {chans : List (List (Found K))} {x : K} :
    hasK (interR wk chans) x = true ↔
      (∃ ch ∈ chans, hasK ch x = true) ∧ exclK (chans.flatMap id) x = false ∧
      ∀ ch ∈ chans, hasK ch x = true ∨ hasK ch wk = true := by
  constructor
  · intro h
    obtain ⟨f, hf, hu, _⟩ := hasK_iff.mp h
    obtain ⟨_, h1, _, h3, h4⟩ := mem_interR hf
    rw [hu] at h1 h3 h4
    refine ⟨h1, bool_false_of_not (fun he => h4 ?_), interCount_eq.mp h3⟩
    obtain ⟨g, hg, hkg⟩ := exclK_iff.mp he
    obtain ⟨ch, hch, hgch⟩ := List.mem_flatMap.mp hg
    exact ⟨ch, hch, g, hgch, hkg⟩
  · rintro ⟨⟨ch, hch, h1⟩, h2, h3⟩
    apply hasK_iff.mpr
    unfold interR
    simp only [List.mem_map]
    refine ⟨_, ⟨x, List.mem_filter.mpr ⟨?_, ?_⟩, rfl⟩, rfl, rfl⟩
    · exact mem_dedup.mpr (List.mem_flatMap.mpr ⟨ch, hch, mem_hasKeys.mpr h1⟩)
    · simp only [Bool.and_eq_true, Bool.not_eq_true', List.contains_eq_mem, decide_eq_false_iff_not,
        decide_eq_true_eq]
      refine ⟨?_, interCount_eq.mpr h3⟩
      intro hm
      obtain ⟨g, hg, hkg⟩ := List.mem_flatMap.mp (mem_dedup.mp hm)
      rw [exclK_iff.mpr ⟨g, hg, hkg⟩] at h2
      cases h2

theorem noK_interR {wk : K} {chans : List (List (Found K))} {k : K} : noK (interR wk chans) k = false := by
  apply bool_false_of_not
  intro h
  obtain ⟨f, hf, _, hs⟩ := noK_iff.mp h
  rw [(mem_interR hf).1] at hs
  cases hs

theorem exclK_interR_sub {wk : K} {chans : List (List (Found K))} {k : K} (h : exclK (interR wk chans) k = true) :
    exclK (chans.flatMap id) k = true := by
  obtain ⟨f, hf, hk⟩ := exclK_iff.mp h
  obtain ⟨ch, hch, g, hg, hkg⟩ := (mem_interR hf).2.2.1 k hk
  exact exclK_flat.mpr ⟨ch, hch, exclK_iff.mpr ⟨g, hg, hkg⟩⟩

/-- **`expandIntersection`**, with the wildcard correction.  `hwk`: the wildcard is in no `excludedUsers` list. -/
theorem covers_interR {wk : K} {chans : List (List (Found K))} (hne : chans ≠ [])
    (hwk : exclK (chans.flatMap id) wk = false) (hn : interNotes wk chans = []) {k : K} :
    covers wk (interR wk chans) k = true ↔ ∀ ch ∈ chans, covers wk ch k = true := by
  obtain ⟨hn1, hn2⟩ := two_notes_nil hn
  by_cases hm : k ∈ mentioned (chans.flatMap id)
  · have h1 := List.any_eq_false.mp hn1 k hm
    have h2 := List.any_eq_false.mp hn2 k hm
    cases hc : covers wk (interR wk chans) k <;> cases ha : chans.all (fun ch => covers wk ch k) <;>
      simp only [hc, ha, Bool.not_true, Bool.not_false, Bool.and_self, Bool.and_true, Bool.and_false] at h1 h2
    · constructor
      · intro h; cases h
      · intro h
        have : chans.all (fun ch => covers wk ch k) = true := List.all_eq_true.mpr h
        rw [ha] at this; cases this
    · exact absurd trivial h2
    · exact absurd trivial h1
    · constructor
      · intro _; exact List.all_eq_true.mp ha
      · intro _; rfl
  · have hex : exclK (interR wk chans) k = false :=
      bool_false_of_not (fun h => hm (mem_mentioned.mpr (.inl (exclK_interR_sub h))))
    have hexk : exclK (chans.flatMap id) k = false :=
      bool_false_of_not (fun h => hm (mem_mentioned.mpr (.inl h)))
    rw [covers_iff, noK_interR, hex]
    simp only [and_self, and_true]
    rw [hasK_interR, hasK_interR]
    simp only [hexk, hwk, true_and, or_self]
    constructor
    · intro h ch hch
      apply (covers_unmentioned (not_mentioned_sub hm hch)).mpr
      rcases h with ⟨_, h⟩ | ⟨_, h⟩
      · exact h ch hch
      · exact .inr (h ch hch)
    · intro h
      have h' : ∀ ch ∈ chans, hasK ch k = true ∨ hasK ch wk = true :=
        fun ch hch => (covers_unmentioned (not_mentioned_sub hm hch)).mp (h ch hch)
      by_cases hex1 : ∃ ch ∈ chans, hasK ch k = true
      · exact .inl ⟨hex1, h'⟩
      · right
        have hall : ∀ ch ∈ chans, hasK ch wk = true := by
          intro ch hch
          rcases h' ch hch with h1 | h1
          · exact absurd ⟨ch, hch, h1⟩ hex1
          · exact h1
        obtain ⟨ch0, hch0⟩ := List.exists_mem_of_ne_nil chans hne
        exact ⟨⟨ch0, hch0, hall ch0 hch0⟩, hall⟩

/-! ### `expandExclusion`: the case table -/

/-- keys of a Go map are unique -/
def Uniq (m : List (Found K)) : Prop := (m.map (·.user)).Nodup

omit [DecidableEq K] in
theorem Uniq.eq {m : List (Found K)} (h : Uniq m) {f g : Found K} (hf : f ∈ m) (hg : g ∈ m)
    (hu : f.user = g.user) : f = g := by
  unfold Uniq at h
  induction m with
  | nil => cases hf
  | cons a m ih =>
    simp only [List.map_cons, List.nodup_cons] at h
    rcases List.mem_cons.mp hf with rfl | hf' <;> rcases List.mem_cons.mp hg with rfl | hg'
    · rfl
    · exact absurd (List.mem_map.mpr ⟨g, hg', hu.symm⟩) h.1
    · exact absurd (List.mem_map.mpr ⟨f, hf', hu⟩) h.1
    · exact ih h.2 hf' hg'

theorem find_some_iff {m : List (Found K)} (h : Uniq m) {k : K} {s : Found K} :
    m.find? (fun x => decide (x.user = k)) = some s ↔ s ∈ m ∧ s.user = k := by
  constructor
  · intro hf
    exact ⟨List.mem_of_find?_eq_some hf, by simpa using List.find?_some hf⟩
  · rintro ⟨hs, hk⟩
    cases hfind : m.find? (fun x => decide (x.user = k)) with
    | none =>
      have := List.find?_eq_none.mp hfind s hs
      simp [hk] at this
    | some s' =>
      have h1 := List.mem_of_find?_eq_some hfind
      have h2 : s'.user = k := by simpa using List.find?_some hfind
      rw [h.eq h1 hs (h2.trans hk.symm)]

theorem find_none_iff {m : List (Found K)} {k : K} :
    m.find? (fun x => decide (x.user = k)) = none ↔ ∀ s ∈ m, s.user ≠ k := by
  rw [List.find?_eq_none]
  constructor
  · intro h s hs; simpa using h s hs
  · intro h s hs; simpa using h s hs

theorem any_user_iff {m : List (Found K)} {k : K} :
    m.any (fun x => decide (x.user = k)) = true ↔ ∃ s ∈ m, s.user = k := by
  simp [List.any_eq_true]

/-- status of the entry of a key in a map -/
theorem hasK_uniq {m : List (Found K)} (h : Uniq m) {s : Found K} (hs : s ∈ m) :
    hasK m s.user = true ↔ s.status = .has := by
  rw [hasK_iff]
  constructor
  · rintro ⟨f, hf, hu, hst⟩; rw [← h.eq hf hs hu]; exact hst
  · intro hst; exact ⟨s, hs, rfl, hst⟩

theorem noK_uniq {m : List (Found K)} (h : Uniq m) {s : Found K} (hs : s ∈ m) :
    noK m s.user = true ↔ s.status = .no := by
  rw [noK_iff]
  constructor
  · rintro ⟨f, hf, hu, hst⟩; rw [← h.eq hf hs hu]; exact hst
  · intro hst; exact ⟨s, hs, rfl, hst⟩

theorem hasK_absent {m : List (Found K)} {k : K} (h : ∀ s ∈ m, s.user ≠ k) : hasK m k = false :=
  bool_false_of_not (fun hh => by obtain ⟨f, hf, hu, _⟩ := hasK_iff.mp hh; exact h f hf hu)

theorem noK_absent {m : List (Found K)} {k : K} (h : ∀ s ∈ m, s.user ≠ k) : noK m k = false :=
  bool_false_of_not (fun hh => by obtain ⟨f, hf, hu, _⟩ := noK_iff.mp hh; exact h f hf hu)

/-- zero value of `subtractedUser` when the key is absent -/
def subStatus (sm : List (Found K)) (k : K) : Status :=
  match sm.find? (fun s => decide (s.user = k)) with
  | some s => s.status
  | none => .has

/-- the base does not hold the wildcard: second and third case of the table -/
theorem exclStep_noBW {wk : K} {isWild : K → Bool} {bm sm : List (Found K)}
    (hb : ∀ f ∈ bm, f.user ≠ wk) (fu : Found K) :
    exclStep wk isWild bm sm fu =
      if (sm.any (fun f => decide (f.user = wk)) || (sm.find? (fun s => decide (s.user = fu.user))).isSome) = true then
        [{ user := fu.user, status := (subStatus sm fu.user).minus fu.status }]
      else [{ user := fu.user, status := fu.status }] := by
  have h1 : bm.any (fun f => decide (f.user = wk)) = false := by
    rw [List.any_eq_false]; intro f hf; simpa using hb f hf
  unfold exclStep subStatus
  simp only [h1, Bool.false_eq_true, if_false]
  split
  · cases hfind : sm.find? (fun s => decide (s.user = fu.user)) with
    | none => simp [Status.minus]
    | some s => cases hst : s.status <;> simp [hst, Status.minus]
  · rfl

/-- the base holds the wildcard: first case of the table, entry by entry -/
theorem mem_exclR_BW {wk : K} {isWild : K → Bool} {bm sm : List (Found K)}
    (hbw : ∃ f ∈ bm, f.user = wk) {g : Found K} :
    g ∈ exclR wk isWild bm sm ↔
      (∃ fu ∈ bm, (∀ s ∈ sm, s.user ≠ fu.user) ∧ (∀ s ∈ sm, s.user ≠ wk) ∧ g = { user := fu.user }) ∨
      (∃ fu ∈ bm, ∃ sfu ∈ sm, isWild sfu.user = true ∧ (∀ s ∈ sm, s.user ≠ fu.user) ∧
          g = { user := fu.user, status := .no }) ∨
      (∃ sfu ∈ sm, isWild sfu.user = false ∧ sfu.status = .no ∧ g = { user := sfu.user, status := .has }) ∨
      (∃ sfu ∈ sm, isWild sfu.user = false ∧ sfu.status = .has ∧
          g = { user := sfu.user, status := .no, excluded := [sfu.user] }) := by
  have h1 : bm.any (fun f => decide (f.user = wk)) = true := any_user_iff.mpr hbw
  have hstep : ∀ fu, g ∈ exclStep wk isWild bm sm fu ↔
      ((∀ s ∈ sm, s.user ≠ fu.user) ∧ (∀ s ∈ sm, s.user ≠ wk) ∧ g = { user := fu.user }) ∨
      (∃ sfu ∈ sm, isWild sfu.user = true ∧ (∀ s ∈ sm, s.user ≠ fu.user) ∧ g = { user := fu.user, status := .no }) ∨
      (∃ sfu ∈ sm, isWild sfu.user = false ∧ sfu.status = .no ∧ g = { user := sfu.user, status := .has }) ∨
      (∃ sfu ∈ sm, isWild sfu.user = false ∧ sfu.status = .has ∧
          g = { user := sfu.user, status := .no, excluded := [sfu.user] }) := by
    intro fu
    unfold exclStep
    simp only [h1, if_true, List.mem_append, List.mem_flatMap]
    have hsub : (sm.find? (fun s => decide (s.user = fu.user))).isSome = false ↔ ∀ s ∈ sm, s.user ≠ fu.user := by
      rw [← find_none_iff]
      cases sm.find? (fun s => decide (s.user = fu.user)) <;> simp
    have hsw : sm.any (fun f => decide (f.user = wk)) = false ↔ ∀ s ∈ sm, s.user ≠ wk := by
      rw [List.any_eq_false]
      constructor
      · intro h s hs; simpa using h s hs
      · intro h s hs; simpa using h s hs
    constructor
    · rintro (h | ⟨sfu, hsfu, h⟩)
      · split at h
        · rename_i hc
          simp only [Bool.and_eq_true, Bool.not_eq_true'] at hc
          simp only [List.mem_singleton] at h
          exact .inl ⟨hsub.mp hc.1, hsw.mp hc.2, h⟩
        · cases h
      · by_cases hw : isWild sfu.user = true
        · rw [if_pos hw] at h
          split at h
          · rename_i hc
            simp only [Bool.not_eq_true'] at hc
            simp only [List.mem_singleton] at h
            exact .inr (.inl ⟨sfu, hsfu, hw, hsub.mp hc, h⟩)
          · cases h
        · rw [if_neg hw] at h
          have hw' : isWild sfu.user = false := bool_false_of_not hw
          rcases List.mem_append.mp h with h | h
          · split at h
            · rename_i hst; simp only [List.mem_singleton] at h
              exact .inr (.inr (.inl ⟨sfu, hsfu, hw', hst, h⟩))
            · cases h
          · split at h
            · rename_i hst; simp only [List.mem_singleton] at h
              exact .inr (.inr (.inr ⟨sfu, hsfu, hw', hst, h⟩))
            · cases h
    · rintro (⟨h1', h2', rfl⟩ | ⟨sfu, hsfu, hw, h1', rfl⟩ | ⟨sfu, hsfu, hw, hst, rfl⟩ | ⟨sfu, hsfu, hw, hst, rfl⟩)
      · left
        have : (!(sm.find? (fun s => decide (s.user = fu.user))).isSome && !sm.any (fun f => decide (f.user = wk))) = true := by
          simp only [Bool.and_eq_true, Bool.not_eq_true']
          exact ⟨hsub.mpr h1', hsw.mpr h2'⟩
        rw [if_pos this]; simp
      · right
        refine ⟨sfu, hsfu, ?_⟩
        rw [if_pos hw]
        have : (!(sm.find? (fun s => decide (s.user = fu.user))).isSome) = true := by
          simp only [Bool.not_eq_true']; exact hsub.mpr h1'
        rw [if_pos this]; simp
      · right
        refine ⟨sfu, hsfu, ?_⟩
        rw [if_neg (by rw [hw]; simp)]
        simp [hst]
      · right
        refine ⟨sfu, hsfu, ?_⟩
        rw [if_neg (by rw [hw]; simp)]
        simp [hst]
  unfold exclR
  rw [List.mem_flatMap]
  constructor
  · rintro ⟨fu, hfu, hg⟩
    rcases (hstep fu).mp hg with h | h | h | h
    · exact .inl ⟨fu, hfu, h⟩
    · exact .inr (.inl ⟨fu, hfu, h⟩)
    · exact .inr (.inr (.inl h))
    · exact .inr (.inr (.inr h))
  · obtain ⟨f0, hf0, _⟩ := hbw
    rintro (⟨fu, hfu, h⟩ | ⟨fu, hfu, h⟩ | h | h)
    · exact ⟨fu, hfu, (hstep fu).mpr (.inl h)⟩
    · exact ⟨fu, hfu, (hstep fu).mpr (.inr (.inl h))⟩
    · exact ⟨f0, hf0, (hstep f0).mpr (.inr (.inr (.inl h)))⟩
    · exact ⟨f0, hf0, (hstep f0).mpr (.inr (.inr (.inr h)))⟩

/-- invariants of the two assignment maps of `expandExclusion` -/
structure MapInv (wk : K) (isWild : K → Bool) (m : List (Found K)) : Prop where
  uniq : Uniq m
  wild : ∀ f ∈ m, isWild f.user = true → f.user = wk
  wkHas : ∀ f ∈ m, f.user = wk → f.status = .has

theorem MapInv.hasWk {wk : K} {isWild : K → Bool} {m : List (Found K)} (h : MapInv wk isWild m) :
    hasK m wk = true ↔ ∃ s ∈ m, s.user = wk := by
  rw [hasK_iff]
  constructor
  · rintro ⟨f, hf, hu, _⟩; exact ⟨f, hf, hu⟩
  · rintro ⟨f, hf, hu⟩; exact ⟨f, hf, hu, h.wkHas f hf hu⟩

/-- the notes of `expandExclusion`, unpacked -/
structure ExclClean (wk : K) (bm sm : List (Found K)) : Prop where
  wildHas : (∃ f ∈ bm, f.user = wk) → (∀ s ∈ sm, s.user ≠ wk) → ∀ fu ∈ bm, fu.status = .no → hasK sm fu.user = true
  wildFlip : (∃ f ∈ bm, f.user = wk) → ∀ fu ∈ bm, fu.status = .no → noK sm fu.user = false
  exclB : ∀ k, exclK bm k = true → noK bm k = true
  exclS : ∀ k, exclK sm k = true → noK sm k = true

theorem exclClean_of_notes {wk : K} {bm sm : List (Found K)} (hn : exclNotes wk bm sm = [])
    (hexB : ∀ k, exclK bm k = true → noK bm k = true) (hexS : ∀ k, exclK sm k = true → noK sm k = true) :
    ExclClean wk bm sm := by
  unfold exclNotes at hn
  obtain ⟨h2, h3⟩ := List.append_eq_nil_iff.mp hn
  have n2 := noteIf_nil h2
  have n3 := noteIf_nil h3
  have anyF : ∀ (m : List (Found K)), (∀ f ∈ m, f.user ≠ wk) → m.any (fun f => decide (f.user = wk)) = false := by
    intro m h; rw [List.any_eq_false]; intro f hf; simpa using h f hf
  refine ⟨?_, ?_, hexB, hexS⟩
  · intro hb hs fu hfu hst
    rw [any_user_iff.mpr hb, anyF sm hs] at n2
    simp only [Bool.not_false, Bool.true_and] at n2
    have := List.any_eq_false.mp n2 fu hfu
    simp only [hst, decide_true, Bool.true_and, Bool.not_eq_true'] at this
    cases h : hasK sm fu.user with
    | true => rfl
    | false => exact absurd h this
  · intro hb fu hfu hst
    rw [any_user_iff.mpr hb] at n3
    simp only [Bool.true_and] at n3
    have := List.any_eq_false.mp n3 fu hfu
    simp only [hst, decide_true, Bool.true_and] at this
    exact bool_false_of_not this

theorem unread_nil {l : List (Found K)} (hn : unreadNote l = []) : ∀ k, exclK l k = true → noK l k = true := by
  intro k hk
  obtain ⟨f, hf, hkf⟩ := exclK_iff.mp hk
  have := List.any_eq_false.mp (noteIf_nil hn) f hf
  have h2 : ∀ x ∈ f.excluded, noK l x = true := by simpa using this
  exact h2 k hkf

/-- meaning of a map whose `excludedUsers` are all backed by `NoRelationship` entries -/
theorem covers_map {wk : K} {m : List (Found K)} (hex : ∀ k, exclK m k = true → noK m k = true) {k : K} :
    covers wk m k = true ↔ (hasK m k = true ∨ (hasK m wk = true ∧ noK m k = false)) := by
  rw [covers_iff]
  constructor
  · rintro (h | ⟨h1, h2, _⟩)
    · exact .inl h
    · exact .inr ⟨h1, h2⟩
  · rintro (h | ⟨h1, h2⟩)
    · exact .inl h
    · refine .inr ⟨h1, h2, bool_false_of_not (fun he => ?_)⟩
      rw [hex k he] at h2; cases h2

/-- **`expandExclusion`**: when none of its notes fires, the entries it writes mean "covered by the base
and not covered by the subtracted operand" — all three cases of the table, wildcards on either side,
`NoRelationship` entries on either side. -/
theorem covers_exclR {wk : K} {isWild : K → Bool} {bm sm : List (Found K)} (hw : isWild wk = true)
    (ib : MapInv wk isWild bm) (is : MapInv wk isWild sm) (hc : ExclClean wk bm sm) {k : K} :
    covers wk (exclR wk isWild bm sm) k = true ↔ (covers wk bm k = true ∧ covers wk sm k = false) := by
  rw [covers_map hc.exclB]
  have cs : covers wk sm k = false ↔ ¬ (hasK sm k = true ∨ (hasK sm wk = true ∧ noK sm k = false)) := by
    rw [← covers_map hc.exclS]; cases covers wk sm k <;> simp
  rw [cs]
  by_cases hbw : ∃ f ∈ bm, f.user = wk
  · -- the base holds the wildcard
    have hBW : hasK bm wk = true := ib.hasWk.mpr hbw
    have mem := @mem_exclR_BW K _ wk isWild bm sm hbw
    -- is the wildcard in the result?
    have outWk : hasK (exclR wk isWild bm sm) wk = true ↔ ∀ s ∈ sm, s.user ≠ wk := by
      rw [hasK_iff]
      constructor
      · rintro ⟨g, hg, hgu, hgs⟩
        rcases mem.mp hg with ⟨fu, _, _, h2, rfl⟩ | ⟨fu, _, _, _, _, _, rfl⟩ | ⟨sfu, _, hwild, _, rfl⟩ | ⟨sfu, _, _, _, rfl⟩
        · exact h2
        · cases hgs
        · simp only at hgu; rw [hgu, hw] at hwild; cases hwild
        · cases hgs
      · intro hs
        obtain ⟨f, hf, hfu⟩ := hbw
        exact ⟨{ user := f.user }, mem.mpr (.inl ⟨f, hf, fun s hs' => by rw [hfu]; exact hs s hs', hs, rfl⟩), hfu, rfl⟩
    by_cases hks : ∃ s ∈ sm, s.user = k
    · obtain ⟨s, hs, hsk⟩ := hks
      by_cases hkw : k = wk
      · -- the wildcard itself, subtracted
        subst hkw
        have hSW : hasK sm k = true := is.hasWk.mpr ⟨s, hs, hsk⟩
        constructor
        · intro hcov
          exfalso
          rcases covers_imp hcov with h | h <;> exact (outWk.mp h) s hs hsk
        · rintro ⟨_, hns⟩; exact absurd (.inl hSW) hns
      · have hnw : isWild k = false := bool_false_of_not (fun h => hkw (hsk ▸ is.wild s hs (hsk ▸ h)))
        cases hst : s.status with
        | no =>
          have hno : noK sm k = true := hsk ▸ (noK_uniq is.uniq hs).mpr hst
          have hnh : hasK sm k = false := bool_false_of_not (fun h => by
            have := (hasK_uniq is.uniq hs).mp (hsk ▸ h); rw [hst] at this; cases this)
          have hout : hasK (exclR wk isWild bm sm) k = true :=
            hasK_iff.mpr ⟨{ user := s.user, status := .has },
              mem.mpr (.inr (.inr (.inl ⟨s, hs, hsk ▸ hnw, hst, rfl⟩))), hsk, rfl⟩
          constructor
          · intro _
            refine ⟨?_, fun h => ?_⟩
            · right
              refine ⟨hBW, bool_false_of_not (fun hnb => ?_)⟩
              obtain ⟨fu, hfu, hfuk, hfus⟩ := noK_iff.mp hnb
              have := hc.wildFlip hbw fu hfu hfus
              rw [hfuk, hno] at this; cases this
            · rcases h with h | ⟨_, h⟩
              · rw [hnh] at h; cases h
              · rw [hno] at h; cases h
          · intro _; exact covers_iff.mpr (.inl hout)
        | has =>
          have hh : hasK sm k = true := hsk ▸ (hasK_uniq is.uniq hs).mpr hst
          constructor
          · intro hcov
            exfalso
            rcases covers_iff.mp hcov with h | ⟨_, h2, _⟩
            · obtain ⟨g, hg, hgu, hgs⟩ := hasK_iff.mp h
              rcases mem.mp hg with ⟨fu, _, h1, _, rfl⟩ | ⟨fu, _, _, _, _, _, rfl⟩ | ⟨sfu, hsfu, _, hno, rfl⟩ | ⟨sfu, _, _, _, rfl⟩
              · exact h1 s hs (hsk.trans hgu.symm)
              · cases hgs
              · simp only at hgu
                have := is.uniq.eq hsfu hs (hgu.trans hsk.symm)
                rw [this, hst] at hno; cases hno
              · cases hgs
            · have : noK (exclR wk isWild bm sm) k = true :=
                noK_iff.mpr ⟨{ user := s.user, status := .no, excluded := [s.user] },
                  mem.mpr (.inr (.inr (.inr ⟨s, hs, hsk ▸ hnw, hst, rfl⟩))), hsk, rfl⟩
              rw [this] at h2; cases h2
          · rintro ⟨_, hns⟩; exact absurd (.inl hh) hns
    · -- `k` is not a key of the subtract map
      have hks' : ∀ s ∈ sm, s.user ≠ k := fun s hs h => hks ⟨s, hs, h⟩
      have hnh : hasK sm k = false := hasK_absent hks'
      have hnn : noK sm k = false := noK_absent hks'
      by_cases hsw : ∃ s ∈ sm, s.user = wk
      · have hSW : hasK sm wk = true := is.hasWk.mpr hsw
        constructor
        · intro hcov
          exfalso
          obtain ⟨s0, hs0, hs0u⟩ := hsw
          rcases covers_iff.mp hcov with h | ⟨h, _, _⟩
          · obtain ⟨g, hg, hgu, hgs⟩ := hasK_iff.mp h
            rcases mem.mp hg with ⟨fu, _, _, h2, rfl⟩ | ⟨fu, _, _, _, _, _, rfl⟩ | ⟨sfu, hsfu, _, _, rfl⟩ | ⟨sfu, _, _, _, rfl⟩
            · exact h2 s0 hs0 hs0u
            · cases hgs
            · exact hks' sfu hsfu hgu
            · cases hgs
          · exact (outWk.mp h) s0 hs0 hs0u
        · rintro ⟨_, hns⟩; exact absurd (.inr ⟨hSW, hnn⟩) hns
      · have hsw' : ∀ s ∈ sm, s.user ≠ wk := fun s hs h => hsw ⟨s, hs, h⟩
        have hnSW : hasK sm wk = false := hasK_absent hsw'
        have houtWk := outWk.mpr hsw'
        have hnoOut : noK (exclR wk isWild bm sm) k = false := by
          apply bool_false_of_not
          intro h
          obtain ⟨g, hg, hgu, hgs⟩ := noK_iff.mp h
          rcases mem.mp hg with ⟨fu, _, _, _, rfl⟩ | ⟨fu, _, sfu, hsfu, hwild, _, rfl⟩ | ⟨sfu, _, _, _, rfl⟩ | ⟨sfu, hsfu, _, _, rfl⟩
          · cases hgs
          · exact hsw' sfu hsfu (is.wild sfu hsfu hwild)
          · cases hgs
          · exact hks' sfu hsfu hgu
        have hexOut : exclK (exclR wk isWild bm sm) k = false := by
          apply bool_false_of_not
          intro h
          obtain ⟨g, hg, hkg⟩ := exclK_iff.mp h
          rcases mem.mp hg with ⟨fu, _, _, _, rfl⟩ | ⟨fu, _, sfu, _, _, _, rfl⟩ | ⟨sfu, _, _, _, rfl⟩ | ⟨sfu, hsfu, _, _, rfl⟩
          · cases hkg
          · cases hkg
          · cases hkg
          · simp only [List.mem_singleton] at hkg; exact hks' sfu hsfu hkg.symm
        constructor
        · intro _
          refine ⟨?_, fun h => ?_⟩
          · right
            refine ⟨hBW, bool_false_of_not (fun hnb => ?_)⟩
            obtain ⟨fu, hfu, hfuk, hfus⟩ := noK_iff.mp hnb
            have := hc.wildHas hbw hsw' fu hfu hfus
            rw [hfuk, hnh] at this; cases this
          · rcases h with h | ⟨h, _⟩
            · rw [hnh] at h; cases h
            · rw [hnSW] at h; cases h
        · intro _; exact covers_iff.mpr (.inr ⟨houtWk, hnoOut, hexOut⟩)
  · -- the base does not hold the wildcard
    have hb : ∀ f ∈ bm, f.user ≠ wk := fun f hf h => hbw ⟨f, hf, h⟩
    have hnBW : hasK bm wk = false := hasK_absent hb
    have step := @exclStep_noBW K _ wk isWild bm sm hb
    have outKeys : ∀ g ∈ exclR wk isWild bm sm, ∃ fu ∈ bm, g.user = fu.user := by
      intro g hg
      unfold exclR at hg
      obtain ⟨fu, hfu, hmem⟩ := List.mem_flatMap.mp hg
      rw [step] at hmem
      split at hmem <;> (simp only [List.mem_singleton] at hmem; subst hmem; exact ⟨fu, hfu, rfl⟩)
    have outNoWk : hasK (exclR wk isWild bm sm) wk = false := by
      apply bool_false_of_not
      intro h
      obtain ⟨g, hg, hgu, _⟩ := hasK_iff.mp h
      obtain ⟨fu, hfu, hgf⟩ := outKeys g hg
      exact hb fu hfu (hgf ▸ hgu)
    have covOut : covers wk (exclR wk isWild bm sm) k = true ↔ hasK (exclR wk isWild bm sm) k = true := by
      rw [covers_iff, outNoWk]; simp
    rw [covOut, hnBW]
    simp only [Bool.false_eq_true, false_and, or_false]
    -- entries for `k`
    have outK : hasK (exclR wk isWild bm sm) k = true ↔ ∃ fu ∈ bm, fu.user = k ∧
        (if (sm.any (fun f => decide (f.user = wk)) || (sm.find? (fun s => decide (s.user = k))).isSome) = true then
          (subStatus sm k).minus fu.status = .has else fu.status = .has) := by
      rw [hasK_iff]
      unfold exclR
      constructor
      · rintro ⟨g, hg, hgu, hgs⟩
        obtain ⟨fu, hfu, hmem⟩ := List.mem_flatMap.mp hg
        rw [step] at hmem
        split at hmem
        · rename_i hcnd
          simp only [List.mem_singleton] at hmem; subst hmem
          simp only at hgu hgs; subst hgu
          exact ⟨fu, hfu, rfl, by rw [if_pos hcnd]; exact hgs⟩
        · rename_i hcnd
          simp only [List.mem_singleton] at hmem; subst hmem
          simp only at hgu hgs; subst hgu
          exact ⟨fu, hfu, rfl, by rw [if_neg hcnd]; exact hgs⟩
      · rintro ⟨fu, hfu, hfuk, hcase⟩
        subst hfuk
        by_cases hcnd : (sm.any (fun f => decide (f.user = wk)) || (sm.find? (fun s => decide (s.user = fu.user))).isSome) = true
        · rw [if_pos hcnd] at hcase
          refine ⟨{ user := fu.user, status := (subStatus sm fu.user).minus fu.status }, List.mem_flatMap.mpr ⟨fu, hfu, ?_⟩, rfl, hcase⟩
          rw [step, if_pos hcnd]; exact List.mem_singleton.mpr rfl
        · rw [if_neg hcnd] at hcase
          refine ⟨{ user := fu.user, status := fu.status }, List.mem_flatMap.mpr ⟨fu, hfu, ?_⟩, rfl, hcase⟩
          rw [step, if_neg hcnd]; exact List.mem_singleton.mpr rfl
    rw [outK]
    by_cases hks : ∃ s ∈ sm, s.user = k
    · obtain ⟨s, hs, hsk⟩ := hks
      have hfind : sm.find? (fun x => decide (x.user = k)) = some s := (find_some_iff is.uniq).mpr ⟨hs, hsk⟩
      have hsub : subStatus sm k = s.status := by unfold subStatus; rw [hfind]
      simp only [hfind, Option.isSome_some, Bool.or_true, if_true, hsub]
      cases hst : s.status with
      | no =>
        have hno : noK sm k = true := hsk ▸ (noK_uniq is.uniq hs).mpr hst
        have hnh : hasK sm k = false := bool_false_of_not (fun h => by
          have := (hasK_uniq is.uniq hs).mp (hsk ▸ h); rw [hst] at this; cases this)
        constructor
        · rintro ⟨fu, hfu, hfuk, hfs⟩
          simp only [Status.minus] at hfs
          refine ⟨hasK_iff.mpr ⟨fu, hfu, hfuk, hfs⟩, fun h => ?_⟩
          rcases h with h | ⟨_, h⟩
          · rw [hnh] at h; cases h
          · rw [hno] at h; cases h
        · rintro ⟨hbk, _⟩
          obtain ⟨fu, hfu, hfuk, hfs⟩ := hasK_iff.mp hbk
          exact ⟨fu, hfu, hfuk, by simp only [Status.minus]; exact hfs⟩
      | has =>
        have hh : hasK sm k = true := hsk ▸ (hasK_uniq is.uniq hs).mpr hst
        constructor
        · rintro ⟨_, _, _, h⟩; simp [Status.minus] at h
        · rintro ⟨_, hns⟩; exact absurd (.inl hh) hns
    · have hks' : ∀ s ∈ sm, s.user ≠ k := fun s hs h => hks ⟨s, hs, h⟩
      have hfind : sm.find? (fun x => decide (x.user = k)) = none := find_none_iff.mpr hks'
      have hsub : subStatus sm k = .has := by unfold subStatus; rw [hfind]
      have hnh : hasK sm k = false := hasK_absent hks'
      have hnn : noK sm k = false := noK_absent hks'
      simp only [hfind, Option.isSome_none, Bool.or_false, hsub]
      by_cases hsw : ∃ s ∈ sm, s.user = wk
      · have hSW : hasK sm wk = true := is.hasWk.mpr hsw
        have hany : sm.any (fun f => decide (f.user = wk)) = true := any_user_iff.mpr hsw
        simp only [hany, if_true]
        constructor
        · rintro ⟨_, _, _, h⟩; simp [Status.minus] at h
        · rintro ⟨_, hns⟩; exact absurd (.inr ⟨hSW, hnn⟩) hns
      · have hsw' : ∀ s ∈ sm, s.user ≠ wk := fun s hs h => hsw ⟨s, hs, h⟩
        have hnSW : hasK sm wk = false := hasK_absent hsw'
        have hany : sm.any (fun f => decide (f.user = wk)) = false := by
          rw [List.any_eq_false]; intro f hf; simpa using hsw' f hf
        simp only [hany, Bool.false_eq_true, if_false]
        constructor
        · rintro ⟨fu, hfu, hfuk, hfs⟩
          refine ⟨hasK_iff.mpr ⟨fu, hfu, hfuk, hfs⟩, fun h => ?_⟩
          rcases h with h | ⟨h, _⟩
          · rw [hnh] at h; cases h
          · rw [hnSW] at h; cases h
        · rintro ⟨hbk, _⟩
          obtain ⟨fu, hfu, hfuk, hfs⟩ := hasK_iff.mp hbk
          exact ⟨fu, hfu, hfuk, hfs⟩

end
end OpenFGAVerif.ListUsers
