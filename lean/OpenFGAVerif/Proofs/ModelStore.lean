/-
C17, proofs part 1: invariants of the model table / model cache / typesystem cache state machine, by induction over
histories that include cache evictions at arbitrary points.
-/
import OpenFGAVerif.Model.ModelStore

namespace OpenFGAVerif.Proofs.ModelStore
open OpenFGAVerif.Model.ModelStore

variable {M T : Type}

/-! ### the table is append-only -/

theorem rows_append (st : State M T) (s s' id : Nat) (m : M) :
    rows { st with table := st.table ++ [(s', id, m)] } s = rows st s ++ (if s' = s then [(id, m)] else []) := by
  unfold rows
  simp only [List.filterMap_append, List.filterMap_cons, List.filterMap_nil]
  by_cases h : s' = s <;> simp [h]

theorem find?_append_of_some {α : Type} (l l' : List α) (p : α → Bool) (a : α) (h : l.find? p = some a) :
    (l ++ l').find? p = some a := by
  rw [List.find?_append, h]; rfl

theorem backendRead_append (st : State M T) (s s' id id' : Nat) (m m' : M) (h : backendRead st s id = some m) :
    backendRead { st with table := st.table ++ [(s', id', m')] } s id = some m := by
  unfold backendRead at h ⊢
  rw [rows_append]
  cases hf : (rows st s).find? (·.1 = id) with
  | none => rw [hf] at h; simp at h
  | some r => rw [find?_append_of_some _ _ _ r hf]; rw [hf] at h; exact h

/-! ### the invariant: caches only hold what the backend holds -/

structure Inv (build : M → T) (st : State M T) : Prop where
  mcache : ∀ k m, (k, m) ∈ st.mcache → backendRead st k.1 k.2 = some m
  tcache : ∀ k t, (k, t) ∈ st.tcache → ∃ m, backendRead st k.1 k.2 = some m ∧ t = build m

theorem inv_empty (build : M → T) : Inv build (State.empty : State M T) :=
  ⟨fun _ _ h => by simp [State.empty] at h, fun _ _ h => by simp [State.empty] at h⟩

theorem cacheGet_mem {V : Type} (c : List ((Nat × Nat) × V)) (k : Nat × Nat) (v : V) (h : cacheGet c k = some v) :
    (k, v) ∈ c := by
  unfold cacheGet at h
  cases hf : c.find? (·.1 = k) with
  | none => rw [hf] at h; simp at h
  | some p =>
    rw [hf] at h
    simp only [Option.map_some, Option.some.injEq] at h
    have hm := List.mem_of_find?_eq_some hf
    have hk := List.find?_some hf
    simp only [decide_eq_true_eq] at hk
    obtain ⟨pk, pv⟩ := p
    simp only at hk h
    subst hk; subst h; exact hm

theorem inv_write (build : M → T) (valid : M → Bool) (fresh : State M T → Nat) (st : State M T) (s : Nat) (m : M)
    (h : Inv build st) : Inv build (writeModel valid fresh st s m).1 := by
  unfold writeModel
  by_cases hv : valid m = true
  · simp only [hv, ↓reduceIte]
    exact ⟨fun k x hx => backendRead_append st k.1 s k.2 _ x m (h.mcache k x hx),
      fun k t ht => by
        obtain ⟨x, h1, h2⟩ := h.tcache k t ht
        exact ⟨x, backendRead_append st k.1 s k.2 _ x m h1, h2⟩⟩
  · simp only [hv, Bool.false_eq_true, ↓reduceIte]; exact h

theorem backendRead_mcache (st : State M T) (c : List ((Nat × Nat) × M)) (s id : Nat) :
    backendRead { st with mcache := c } s id = backendRead st s id := rfl

theorem backendRead_tcache (st : State M T) (c : List ((Nat × Nat) × T)) (s id : Nat) :
    backendRead { st with tcache := c } s id = backendRead st s id := rfl

theorem inv_read (build : M → T) (st : State M T) (s id : Nat) (h : Inv build st) : Inv build (readModel st s id).1 := by
  unfold readModel
  cases hc : cacheGet st.mcache (s, id) with
  | some m => exact h
  | none =>
    dsimp only
    cases hb : backendRead st s id with
    | none => exact h
    | some m =>
      dsimp only
      refine ⟨fun k x hx => ?_, fun k t ht => h.tcache k t ht⟩
      simp only [List.mem_cons] at hx
      rcases hx with hx | hx
      · simp only [Prod.mk.injEq] at hx; obtain ⟨rfl, rfl⟩ := hx; exact hb
      · exact h.mcache k x hx

/-- what `readModel` returns is what the backend holds -/
theorem readModel_eq (build : M → T) (st : State M T) (s id : Nat) (h : Inv build st) :
    (readModel st s id).2 = backendRead st s id := by
  unfold readModel
  cases hc : cacheGet st.mcache (s, id) with
  | some m =>
    have := h.mcache (s, id) m (cacheGet_mem _ _ _ hc)
    simp [this]
  | none =>
    dsimp only
    cases hb : backendRead st s id <;> rfl

theorem readModel_table (st : State M T) (s id : Nat) : (readModel st s id).1.table = st.table := by
  unfold readModel
  cases cacheGet st.mcache (s, id) with
  | some m => rfl
  | none =>
    dsimp only
    cases backendRead st s id <;> rfl

theorem backendRead_of_table (st st' : State M T) (h : st'.table = st.table) (s id : Nat) :
    backendRead st' s id = backendRead st s id := by
  unfold backendRead rows; rw [h]

theorem latestByFlag_mem (st : State M T) (s lid : Nat) (m : M) (h : latestByFlag st s = some (lid, m)) :
    (lid, m) ∈ rows st s := by
  unfold latestByFlag at h
  exact List.mem_of_getLast? h

theorem eq_of_nodup_fst {α β : Type} (l : List (α × β)) (h : (l.map (·.1)).Nodup) (a b : α × β)
    (ha : a ∈ l) (hb : b ∈ l) (e : a.1 = b.1) : a = b := by
  induction l with
  | nil => simp at ha
  | cons x xs ih =>
    simp only [List.map_cons, List.nodup_cons, List.mem_map, not_exists, not_and] at h
    rcases List.mem_cons.mp ha with rfl | ha' <;> rcases List.mem_cons.mp hb with rfl | hb'
    · rfl
    · exact absurd e.symm (h.1 b hb')
    · exact absurd e (h.1 a ha')
    · exact ih h.2 ha' hb'

/-- with distinct ids, the latest row is what a read by its id returns -/
theorem backendRead_latest (st : State M T) (s lid : Nat) (m : M) (hd : ((rows st s).map (·.1)).Nodup)
    (hl : latestByFlag st s = some (lid, m)) : backendRead st s lid = some m := by
  have hm := latestByFlag_mem st s lid m hl
  unfold backendRead
  cases hf : (rows st s).find? (·.1 = lid) with
  | none =>
    have := List.find?_eq_none.mp hf (lid, m) hm
    simp at this
  | some r =>
    have hr := List.mem_of_find?_eq_some hf
    have hk := List.find?_some hf
    simp only [decide_eq_true_eq] at hk
    have : r = (lid, m) := eq_of_nodup_fst _ hd r (lid, m) hr hm hk
    simp [this]

theorem inv_resolve (build : M → T) (st : State M T) (s : Nat) (id : Option Nat) (h : Inv build st)
    (hd : ((rows st s).map (·.1)).Nodup) : Inv build (resolve build st s id).1 := by
  unfold resolve
  cases id with
  | none =>
    dsimp only
    cases hl : latestByFlag st s with
    | none => exact h
    | some p =>
      obtain ⟨lid, m⟩ := p
      dsimp only
      cases hc : cacheGet st.tcache (s, lid) with
      | some ts => exact h
      | none =>
        dsimp only
        refine ⟨h.mcache, fun k t ht => ?_⟩
        simp only [List.mem_cons] at ht
        rcases ht with ht | ht
        · simp only [Prod.mk.injEq] at ht
          obtain ⟨rfl, rfl⟩ := ht
          exact ⟨m, backendRead_latest st s lid m hd hl, rfl⟩
        · exact h.tcache k t ht
  | some i =>
    dsimp only
    cases hc : cacheGet st.tcache (s, i) with
    | some ts => exact h
    | none =>
      dsimp only
      have hi := inv_read build st s i h
      have hre := readModel_eq build st s i h
      have htab := readModel_table st s i
      cases hr : readModel st s i with
      | mk st' res =>
        rw [hr] at hi hre htab
        simp only at hi hre htab
        cases res with
        | none => exact hi
        | some m =>
          dsimp only
          refine ⟨hi.mcache, fun k t ht => ?_⟩
          simp only [List.mem_cons] at ht
          rcases ht with ht | ht
          · simp only [Prod.mk.injEq] at ht
            obtain ⟨rfl, rfl⟩ := ht
            exact ⟨m, by rw [backendRead_tcache, backendRead_of_table st st' htab]; exact hre.symm, rfl⟩
          · exact hi.tcache k t ht

theorem inv_evictModel (build : M → T) (st : State M T) (k : Nat × Nat) (h : Inv build st) : Inv build (evictModel st k) :=
  ⟨fun k' m hm => h.mcache k' m (List.mem_filter.mp hm).1, h.tcache⟩

theorem inv_evictTs (build : M → T) (st : State M T) (k : Nat × Nat) (h : Inv build st) : Inv build (evictTs st k) :=
  ⟨h.mcache, fun k' t ht => h.tcache k' t (List.mem_filter.mp ht).1⟩

/-! ### identifiers -/

/-- ULID monotonicity (trusted): a new id is greater than every id issued so far -/
def FreshAbove (fresh : State M T → Nat) : Prop := ∀ st : State M T, ∀ r ∈ st.table, r.2.1 < fresh st

/-- the ids of every store strictly increase in write order -/
def Sorted (st : State M T) : Prop := ∀ s, ((rows st s).map (·.1)).Pairwise (· < ·)

theorem rows_mem_table (st : State M T) (s id : Nat) (m : M) (h : (id, m) ∈ rows st s) : (s, id, m) ∈ st.table := by
  unfold rows at h
  obtain ⟨r, hr, he⟩ := List.mem_filterMap.mp h
  by_cases hs : r.1 = s
  · simp only [hs, ↓reduceIte, Option.some.injEq, Prod.mk.injEq] at he
    obtain ⟨r1, r2, r3⟩ := r
    simp only at hs he
    obtain ⟨rfl, rfl⟩ := he
    subst hs; exact hr
  · simp [hs] at he

theorem sorted_empty : Sorted (State.empty : State M T) := fun s => by simp [rows, State.empty]

theorem sorted_write (valid : M → Bool) (fresh : State M T → Nat) (hf : FreshAbove fresh) (st : State M T) (s : Nat) (m : M)
    (h : Sorted st) : Sorted (writeModel valid fresh st s m).1 := by
  unfold writeModel
  by_cases hv : valid m = true
  · simp only [hv, ↓reduceIte]
    intro s'
    rw [rows_append]
    by_cases hs : s = s'
    · simp only [hs, ↓reduceIte, List.map_append, List.map_cons, List.map_nil]
      rw [List.pairwise_append]
      refine ⟨h s', by simp, fun a ha b hb => ?_⟩
      simp only [List.mem_cons, List.not_mem_nil, or_false] at hb
      subst hb
      obtain ⟨p, hp, rfl⟩ := List.mem_map.mp ha
      exact hf st (s', p.1, p.2) (rows_mem_table st s' p.1 p.2 hp)
    · simp only [hs, ↓reduceIte, List.append_nil]; exact h s'
  · simp only [hv, Bool.false_eq_true, ↓reduceIte]; exact h

theorem nodup_of_sorted (st : State M T) (h : Sorted st) (s : Nat) : ((rows st s).map (·.1)).Nodup :=
  (h s).imp (fun hab => Nat.ne_of_lt hab)

theorem resolve_table (build : M → T) (st : State M T) (s : Nat) (id : Option Nat) :
    (resolve build st s id).1.table = st.table := by
  unfold resolve
  cases id with
  | none =>
    dsimp only
    cases latestByFlag st s with
    | none => rfl
    | some p =>
      obtain ⟨lid, m⟩ := p
      dsimp only
      cases cacheGet st.tcache (s, lid) <;> rfl
  | some i =>
    dsimp only
    cases cacheGet st.tcache (s, i) with
    | some ts => rfl
    | none =>
      dsimp only
      have := readModel_table st s i
      cases hr : readModel st s i with
      | mk st' res =>
        rw [hr] at this
        cases res <;> exact this

theorem sorted_of_table (st st' : State M T) (h : st'.table = st.table) (hs : Sorted st) : Sorted st' := by
  intro s; have := hs s; unfold rows at this ⊢; rw [h]; exact this

/-- memory (`latest` flag) and sqlite (`ORDER BY id DESC LIMIT 1`) pick the same row when ids increase -/
theorem maxById_cons (r : Nat × M) (rs : List (Nat × M)) :
    maxById (r :: rs) = (match maxById rs with | none => some r | some b => if b.1 > r.1 then some b else some r) := rfl

theorem maxById_cons_ne_none (r : Nat × M) (rs : List (Nat × M)) : maxById (r :: rs) ≠ none := by
  rw [maxById_cons]
  cases maxById rs with
  | none => simp
  | some b => dsimp only; split <;> simp

theorem maxById_eq_getLast (l : List (Nat × M)) (h : (l.map (·.1)).Pairwise (· < ·)) : maxById l = l.getLast? := by
  induction l with
  | nil => rfl
  | cons r rs ih =>
    simp only [List.map_cons, List.pairwise_cons] at h
    have ih' := ih h.2
    cases rs with
    | nil => simp [maxById]
    | cons r2 rs2 =>
      rw [List.getLast?_cons_cons, ← ih', maxById_cons r]
      cases hm : maxById (r2 :: rs2) with
      | none => exact absurd hm (maxById_cons_ne_none r2 rs2)
      | some b =>
        dsimp only
        have hb : b ∈ r2 :: rs2 := by
          rw [hm] at ih'
          exact List.mem_of_getLast? ih'.symm
        have : r.1 < b.1 := h.1 _ (List.mem_map.mpr ⟨b, hb, rfl⟩)
        rw [if_pos this]

end OpenFGAVerif.Proofs.ModelStore
