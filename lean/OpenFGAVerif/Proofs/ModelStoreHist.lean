/-
C17, proofs part 2: induction over histories (writes, reads, resolutions and cache evictions in any order).
-/
import OpenFGAVerif.Proofs.ModelStore

namespace OpenFGAVerif.Proofs.ModelStore
open OpenFGAVerif.Model.ModelStore

variable {M T : Type}

/-- both invariants -/
structure Good (build : M → T) (st : State M T) : Prop where
  inv : Inv build st
  sorted : Sorted st

theorem good_empty (build : M → T) : Good build (State.empty : State M T) := ⟨inv_empty build, sorted_empty⟩

theorem evict_table_m (st : State M T) (k : Nat × Nat) : (evictModel st k).table = st.table := rfl
theorem evict_table_t (st : State M T) (k : Nat × Nat) : (evictTs st k).table = st.table := rfl

theorem good_step (valid : M → Bool) (build : M → T) (fresh : State M T → Nat) (hf : FreshAbove fresh)
    (st : State M T) (op : Op M) (h : Good build st) : Good build (step valid build fresh st op) := by
  cases op with
  | write s m => exact ⟨inv_write build valid fresh st s m h.inv, sorted_write valid fresh hf st s m h.sorted⟩
  | read s id => exact ⟨inv_read build st s id h.inv, sorted_of_table st _ (readModel_table st s id) h.sorted⟩
  | resolve s id =>
    exact ⟨inv_resolve build st s id h.inv (nodup_of_sorted st h.sorted s),
      sorted_of_table st _ (resolve_table build st s id) h.sorted⟩
  | evictModel k => exact ⟨inv_evictModel build st k h.inv, sorted_of_table st _ (evict_table_m st k) h.sorted⟩
  | evictTs k => exact ⟨inv_evictTs build st k h.inv, sorted_of_table st _ (evict_table_t st k) h.sorted⟩

theorem good_run (valid : M → Bool) (build : M → T) (fresh : State M T → Nat) (hf : FreshAbove fresh)
    (st : State M T) (ops : List (Op M)) (h : Good build st) : Good build (run valid build fresh st ops) := by
  induction ops generalizing st with
  | nil => exact h
  | cons op ops ih => exact ih _ (good_step valid build fresh hf st op h)

/-! ### what a request without model id is evaluated against -/

/-- in a good state, resolving "no model id" yields the typesystem of the last row of the store -/
theorem resolve_none_eq (build : M → T) (st : State M T) (s : Nat) (h : Good build st) :
    (resolve build st s none).2 = (latestByFlag st s).map (fun p => (p.1, build p.2)) := by
  unfold resolve
  dsimp only
  cases hl : latestByFlag st s with
  | none => rfl
  | some p =>
    obtain ⟨lid, m⟩ := p
    dsimp only
    cases hc : cacheGet st.tcache (s, lid) with
    | none => rfl
    | some ts =>
      dsimp only
      obtain ⟨m', h1, h2⟩ := h.inv.tcache (s, lid) ts (cacheGet_mem _ _ _ hc)
      have := backendRead_latest st s lid m (nodup_of_sorted st h.sorted s) hl
      simp only at h1
      rw [this] at h1
      cases h1
      simp [h2]

/-- the models accepted for store `s` along a history, in order -/
def acceptedWrites (valid : M → Bool) (s : Nat) : List (Op M) → List M
  | [] => []
  | .write s' m :: ops => (if s' = s ∧ valid m = true then [m] else []) ++ acceptedWrites valid s ops
  | _ :: ops => acceptedWrites valid s ops

theorem step_rows (valid : M → Bool) (build : M → T) (fresh : State M T → Nat) (st : State M T) (op : Op M) (s : Nat) :
    (rows (step valid build fresh st op) s).map (·.2) = (rows st s).map (·.2) ++ acceptedWrites valid s [op] := by
  cases op with
  | write s' m =>
    simp only [step, writeModel, acceptedWrites, List.append_nil]
    by_cases hv : valid m = true
    · simp only [hv, ↓reduceIte, and_true]
      rw [rows_append]
      by_cases hs : s' = s <;> simp [hs]
    · simp [hv]
  | read s' id =>
    have := readModel_table st s' id
    simp only [step, acceptedWrites, List.append_nil]
    unfold rows; rw [this]
  | resolve s' id =>
    have := resolve_table build st s' id
    simp only [step, acceptedWrites, List.append_nil]
    unfold rows; rw [this]
  | evictModel k => simp [step, acceptedWrites, rows, evictModel]
  | evictTs k => simp [step, acceptedWrites, rows, evictTs]

theorem acceptedWrites_cons (valid : M → Bool) (s : Nat) (op : Op M) (ops : List (Op M)) :
    acceptedWrites valid s (op :: ops) = acceptedWrites valid s [op] ++ acceptedWrites valid s ops := by
  cases op <;> simp [acceptedWrites]

theorem run_rows (valid : M → Bool) (build : M → T) (fresh : State M T → Nat) (st : State M T) (ops : List (Op M)) (s : Nat) :
    (rows (run valid build fresh st ops) s).map (·.2) = (rows st s).map (·.2) ++ acceptedWrites valid s ops := by
  induction ops generalizing st with
  | nil => simp [run, acceptedWrites]
  | cons op ops ih =>
    show (rows (run valid build fresh (step valid build fresh st op) ops) s).map (·.2) = _
    rw [ih, step_rows, List.append_assoc, ← acceptedWrites_cons]

/-- **latest_after_write**: after ANY history from the empty server (cache evictions, reads and resolutions anywhere in
between), a request without model id on store `s` is evaluated against the model of the LAST accepted write to `s`. -/
theorem latest_after_history (valid : M → Bool) (build : M → T) (fresh : State M T → Nat) (hf : FreshAbove fresh)
    (ops : List (Op M)) (s : Nat) :
    ((resolve build (run valid build fresh State.empty ops) s none).2).map (·.2) =
      ((acceptedWrites valid s ops).getLast?).map build := by
  have hg := good_run valid build fresh hf State.empty ops (good_empty build)
  rw [resolve_none_eq build _ s hg]
  have hr := run_rows valid build fresh State.empty ops s
  have h0 : rows (State.empty : State M T) s = [] := rfl
  rw [h0] at hr
  simp only [List.map_nil, List.nil_append] at hr
  unfold latestByFlag
  rw [← hr, List.getLast?_map]
  simp [Option.map_map, Function.comp_def]

/-! ### reads return what was written -/

theorem backendRead_step (valid : M → Bool) (build : M → T) (fresh : State M T → Nat) (st : State M T) (op : Op M)
    (s id : Nat) (m : M) (h : backendRead st s id = some m) : backendRead (step valid build fresh st op) s id = some m := by
  cases op with
  | write s' m' =>
    simp only [step, writeModel]
    by_cases hv : valid m' = true
    · simp only [hv, ↓reduceIte]; exact backendRead_append st s s' id _ m m' h
    · simp only [hv, Bool.false_eq_true, ↓reduceIte]; exact h
  | read s' id' => rw [show step valid build fresh st (.read s' id') = (readModel st s' id').1 from rfl,
      backendRead_of_table st _ (readModel_table st s' id')]; exact h
  | resolve s' id' => rw [show step valid build fresh st (.resolve s' id') = (resolve build st s' id').1 from rfl,
      backendRead_of_table st _ (resolve_table build st s' id')]; exact h
  | evictModel k => exact h
  | evictTs k => exact h

theorem backendRead_run (valid : M → Bool) (build : M → T) (fresh : State M T → Nat) (st : State M T) (ops : List (Op M))
    (s id : Nat) (m : M) (h : backendRead st s id = some m) : backendRead (run valid build fresh st ops) s id = some m := by
  induction ops generalizing st with
  | nil => exact h
  | cons op ops ih => exact ih _ (backendRead_step valid build fresh st op s id m h)

theorem backendRead_after_write (valid : M → Bool) (fresh : State M T → Nat) (hf : FreshAbove fresh) (st : State M T)
    (s : Nat) (m : M) (id : Nat) (h : (writeModel valid fresh st s m).2 = some id) :
    backendRead (writeModel valid fresh st s m).1 s id = some m := by
  unfold writeModel at h ⊢
  by_cases hv : valid m = true
  · simp only [hv, ↓reduceIte, Option.some.injEq] at h ⊢
    subst h
    unfold backendRead
    rw [rows_append]
    simp only [↓reduceIte]
    rw [List.find?_append]
    have : (rows st s).find? (fun x => decide (x.1 = fresh st)) = none := by
      apply List.find?_eq_none.mpr
      intro p hp
      have := hf st (s, p.1, p.2) (rows_mem_table st s p.1 p.2 hp)
      simp only at this
      simp; omega
    simp [this]
  · simp [hv] at h

/-- **read_returns_written**: once WriteAuthorizationModel returned `id`, every later ReadAuthorizationModel of that id
returns the written model unchanged, whatever happens in between (other writes, cache evictions, …). -/
theorem read_returns_written (valid : M → Bool) (build : M → T) (fresh : State M T → Nat) (hf : FreshAbove fresh)
    (st : State M T) (hg : Good build st) (s : Nat) (m : M) (id : Nat)
    (hw : (writeModel valid fresh st s m).2 = some id) (ops : List (Op M)) :
    (readModel (run valid build fresh (writeModel valid fresh st s m).1 ops) s id).2 = some m := by
  have h1 := backendRead_after_write valid fresh hf st s m id hw
  have hg1 : Good build (writeModel valid fresh st s m).1 :=
    ⟨inv_write build valid fresh st s m hg.inv, sorted_write valid fresh hf st s m hg.sorted⟩
  have hg2 := good_run valid build fresh hf _ ops hg1
  rw [readModel_eq build _ s id hg2.inv]
  exact backendRead_run valid build fresh _ ops s id m h1

end OpenFGAVerif.Proofs.ModelStore
