/-
C17, proofs part 3: consequences of `validate m = ok` that other proofs rely on.
-/
import OpenFGAVerif.Model.ModelValidate

namespace OpenFGAVerif.Proofs.ModelValidate
open OpenFGAVerif.Vocab OpenFGAVerif.Model.ModelValidate

/-! ### plumbing -/

theorem bind_ok_iff (x : V) (f : Unit → V) : (x >>= f) = .ok () ↔ x = .ok () ∧ f () = .ok () := by
  cases x with
  | error e => simp [bind, Except.bind]
  | ok u => cases u; simp [bind, Except.bind]

theorem checkAll_ok_iff {α : Type} (f : α → V) (l : List α) : checkAll f l = .ok () ↔ ∀ x ∈ l, f x = .ok () := by
  induction l with
  | nil => simp [checkAll]
  | cons a as ih => simp [checkAll, bind_ok_iff, ih]

theorem hasDup_false_nodup (l : List String) (h : hasDup l = false) : l.Nodup := by
  induction l with
  | nil => exact List.nodup_nil
  | cons x xs ih =>
    simp only [hasDup, Bool.or_eq_false_iff] at h
    exact List.nodup_cons.mpr ⟨by simpa using h.1, ih h.2⟩

theorem mem_insertBy {α : Type} (key : α → String) (a b : α) (l : List α) : b ∈ insertBy key a l ↔ b = a ∨ b ∈ l := by
  induction l with
  | nil => simp [insertBy]
  | cons x xs ih =>
    unfold insertBy
    split
    · simp
    · simp only [List.mem_cons, ih]
      constructor
      · rintro (h | h | h)
        · exact Or.inr (Or.inl h)
        · exact Or.inl h
        · exact Or.inr (Or.inr h)
      · rintro (h | h | h)
        · exact Or.inr (Or.inl h)
        · exact Or.inl h
        · exact Or.inr (Or.inr h)

theorem mem_isort {α : Type} (key : α → String) (b : α) (l : List α) : b ∈ isort key l ↔ b ∈ l := by
  induction l with
  | nil => simp [isort]
  | cons x xs ih => simp [isort, mem_insertBy, ih]

/-! ### validate = every relation of every type passes validateRelation, names are unique -/

structure Validated (m : Model) : Prop where
  typesNodup : (m.types.map (·.name)).Nodup
  relsNodup : ∀ td ∈ m.types, (td.rels.map (·.name)).Nodup
  relations : ∀ td ∈ m.types, ∀ rd ∈ td.rels, validateRelation m td.name rd = .ok ()

theorem validate_ok (m : Model) (h : validate m = .ok ()) : Validated m := by
  unfold validate at h
  by_cases h1 : hasDup (m.types.map (·.name)) = true
  · simp [h1] at h
  · simp only [h1, Bool.false_eq_true, ↓reduceIte] at h
    cases hn : validateNames m with
    | error e => rw [hn] at h; simp at h
    | ok u =>
      rw [hn] at h
      dsimp only at h
      by_cases h2 : m.types.any (fun t => hasDup (t.rels.map (·.name))) = true
      · simp [h2] at h
      · simp only [h2, Bool.false_eq_true, ↓reduceIte] at h
        rw [checkAll_ok_iff] at h
        refine ⟨hasDup_false_nodup _ (by simpa using h1), fun td htd => ?_, fun td htd rd hrd => ?_⟩
        · apply hasDup_false_nodup
          have := h2
          simp only [List.any_eq_true, not_exists, not_and, Bool.not_eq_true] at this
          exact this td htd
        · have htd' : td ∈ sortedTypes m := (mem_isort _ _ _).mpr htd
          have := h td htd'
          rw [checkAll_ok_iff] at this
          exact this rd ((mem_isort _ _ _).mpr hrd)

theorem validateRelation_parts (m : Model) (typ : String) (rd : RelDef) (h : validateRelation m typ rd = .ok ()) :
    rewriteValid m typ rd.name rd.rewrite = .ok () ∧ typeRestrictionsValid m typ rd = .ok () ∧
    entrypointsValid m typ rd = .ok () ∧ noCycle m typ rd = .ok () := by
  unfold validateRelation at h
  simp only [bind_ok_iff] at h
  exact ⟨h.1, h.2.1, h.2.2.1, h.2.2.2⟩

theorem find_nodup {α : Type} (l : List α) (key : α → String) (a : α) (hn : (l.map key).Nodup) (ha : a ∈ l) :
    l.find? (fun x => decide (key x = key a)) = some a := by
  induction l with
  | nil => simp at ha
  | cons x xs ih =>
    simp only [List.map_cons, List.nodup_cons, List.mem_map, not_exists, not_and] at hn
    rcases List.mem_cons.mp ha with rfl | ha'
    · simp
    · have : key x ≠ key a := fun e => hn.1 a ha' e.symm
      simp [this, ih hn.2 ha']

theorem findType_of_mem (m : Model) (hv : Validated m) (td : TypeDef) (htd : td ∈ m.types) :
    m.types.find? (·.name = td.name) = some td := find_nodup m.types (·.name) td hv.typesNodup htd

/-- in a validated model a relation is found under its own name -/
theorem findRel_of_mem (m : Model) (hv : Validated m) (td : TypeDef) (htd : td ∈ m.types) (rd : RelDef) (hrd : rd ∈ td.rels) :
    m.findRel td.name rd.name = some rd := by
  unfold Model.findRel
  rw [findType_of_mem m hv td htd]
  exact find_nodup td.rels (·.name) rd (hv.relsNodup td htd) hrd

/-! ### consequence: type restrictions reference declared things (C18's `RestrsWF`) -/

theorem restrsOK_ok_iff (m : Model) (typ rel : String) (l : List Restr) :
    restrsOK m typ rel l = .ok () ↔ ∀ x ∈ l, restrOK m typ rel x = .ok () := by
  induction l with
  | nil => simp [restrsOK]
  | cons a as ih => simp [restrsOK, bind_ok_iff, ih]

theorem restrOK_facts (m : Model) (typ rel : String) (x : Restr) (h : restrOK m typ rel x = .ok ()) :
    (findType m x.typ).isSome = true ∧ (x.rel ≠ "" → (m.findRel x.typ x.rel).isSome = true) ∧
    (x.cond ≠ "" → (m.findCond x.cond).isSome = true) ∧
    ((x.rel ≠ "" ∨ x.wild = true) → m.isTuplesetRelation typ rel = false) := by
  unfold restrOK at h
  split at h
  · cases h
  · rename_i h1
    split at h
    · cases h
    · rename_i h2
      split at h
      · cases h
      · rename_i h3
        split at h
        · cases h
        · rename_i h4
          refine ⟨by cases hf : findType m x.typ <;> simp_all, fun hr => ?_, fun hc => ?_, fun hk => ?_⟩
          · cases hf : m.findRel x.typ x.rel <;> simp_all
          · cases hf : m.findCond x.cond <;> simp_all
          · cases ht : m.isTuplesetRelation typ rel with
            | false => rfl
            | true => rcases hk with hk | hk <;> simp_all

/-- **restrictions are well-formed** -/
theorem restrs_defined (m : Model) (h : validate m = .ok ()) (td : TypeDef) (htd : td ∈ m.types) (rd : RelDef)
    (hrd : rd ∈ td.rels) (x : Restr) (hx : x ∈ rd.restrs) :
    (findType m x.typ).isSome = true ∧ (x.rel ≠ "" → (m.findRel x.typ x.rel).isSome = true) ∧
    (x.cond ≠ "" → (m.findCond x.cond).isSome = true) ∧
    ((x.rel ≠ "" ∨ x.wild = true) → m.isTuplesetRelation td.name rd.name = false) := by
  have hv := validate_ok m h
  have hp := (validateRelation_parts m td.name rd (hv.relations td htd rd hrd)).2.1
  unfold typeRestrictionsValid at hp
  dsimp only at hp
  by_cases h1 : (containsThis rd.rewrite && rd.restrs.isEmpty) = true
  · simp [h1] at hp
  · simp only [h1, Bool.false_eq_true, ↓reduceIte] at hp
    by_cases h2 : (!containsThis rd.rewrite && !rd.restrs.isEmpty) = true
    · simp [h2] at hp
    · simp only [h2, Bool.false_eq_true, ↓reduceIte] at hp
      exact restrOK_facts m td.name rd.name x ((restrsOK_ok_iff m td.name rd.name rd.restrs).mp hp x hx)

/-! ### consequence: tupleset relations are direct-only -/

theorem rewritesValid_ok_iff (m : Model) (typ rel : String) (cs : List Rewrite) :
    rewritesValid m typ rel cs = .ok () ↔ ∀ c ∈ cs, rewriteValid m typ rel c = .ok () := by
  induction cs with
  | nil => simp [rewritesValid]
  | cons c cs ih => simp [rewritesValid, bind_ok_iff, ih]

theorem ttu_direct (m : Model) (typ rel : String) (rw : Rewrite) (h : rewriteValid m typ rel rw = .ok ()) :
    ∀ p ∈ rw.ttus, ∃ tsRel, m.findRel typ p.1 = some tsRel ∧ isThis tsRel.rewrite = true := by
  match rw, h with
  | .this, _ => simp [Rewrite.ttus]
  | .computed _, _ => simp [Rewrite.ttus]
  | .ttu ts c, h =>
    intro p hp
    simp only [Rewrite.ttus, List.mem_cons, List.not_mem_nil, or_false] at hp
    subst hp
    simp only [rewriteValid] at h
    cases hf : m.findRel typ ts with
    | none => simp [hf] at h
    | some tsRel =>
      simp only [hf] at h
      refine ⟨tsRel, rfl, ?_⟩
      cases hd : isThis tsRel.rewrite with
      | true => rfl
      | false => simp [hd] at h
  | .union cs, h =>
    intro p hp
    simp only [Rewrite.ttus, List.mem_flatMap] at hp
    obtain ⟨c, hc, hpc⟩ := hp
    simp only [rewriteValid] at h
    have : sizeOf c < sizeOf (Rewrite.union cs) := by
      have := List.sizeOf_lt_of_mem hc; simp; omega
    exact ttu_direct m typ rel c ((rewritesValid_ok_iff m typ rel cs).mp h c hc) p hpc
  | .inter cs, h =>
    intro p hp
    simp only [Rewrite.ttus, List.mem_flatMap] at hp
    obtain ⟨c, hc, hpc⟩ := hp
    simp only [rewriteValid] at h
    have : sizeOf c < sizeOf (Rewrite.inter cs) := by
      have := List.sizeOf_lt_of_mem hc; simp; omega
    exact ttu_direct m typ rel c ((rewritesValid_ok_iff m typ rel cs).mp h c hc) p hpc
  | .diff b s, h =>
    intro p hp
    simp only [Rewrite.ttus, List.mem_append] at hp
    simp only [rewriteValid] at h
    rw [bind_ok_iff] at h
    rcases hp with hp | hp
    · exact ttu_direct m typ rel b h.1 p hp
    · exact ttu_direct m typ rel s h.2 p hp
termination_by sizeOf rw

theorem isThis_eq (rw : Rewrite) (h : isThis rw = true) : rw = .this := by
  cases rw <;> simp [isThis] at h ⊢

/-- **tupleset relations are direct-only**: every `X from ts` of a validated model names a relation `ts` of the same
type whose rewrite is exactly `this` and whose type restrictions are plain object types (no usersets, no wildcards) -/
theorem tupleset_direct_only (m : Model) (h : validate m = .ok ()) (td : TypeDef) (htd : td ∈ m.types) (rd : RelDef)
    (hrd : rd ∈ td.rels) (p : String × String) (hp : p ∈ rd.rewrite.ttus) :
    ∃ tsRel, m.findRel td.name p.1 = some tsRel ∧ tsRel.rewrite = .this ∧
      ∀ x ∈ tsRel.restrs, x.rel = "" ∧ x.wild = false := by
  have hv := validate_ok m h
  have hp1 := (validateRelation_parts m td.name rd (hv.relations td htd rd hrd)).1
  obtain ⟨tsRel, hf, hd⟩ := ttu_direct m td.name rd.name rd.rewrite hp1 p hp
  refine ⟨tsRel, hf, isThis_eq _ hd, fun x hx => ?_⟩
  -- tsRel is a relation of td, named p.1, and p.1 is a tupleset relation of the type
  have hts : tsRel ∈ td.rels ∧ tsRel.name = p.1 := by
    unfold Model.findRel at hf
    rw [findType_of_mem m hv td htd] at hf
    exact ⟨List.mem_of_find?_eq_some hf, by simpa using List.find?_some hf⟩
  have hist : m.isTuplesetRelation td.name tsRel.name = true := by
    unfold Model.isTuplesetRelation
    rw [findType_of_mem m hv td htd]
    simp only [List.any_eq_true, decide_eq_true_eq]
    exact ⟨rd, hrd, p, hp, hts.2.symm⟩
  have hr := restrs_defined m h td htd tsRel hts.1 x hx
  have h4 := hr.2.2.2
  constructor
  · apply Decidable.byContradiction
    intro hne
    have := h4 (Or.inl hne)
    rw [hist] at this; cases this
  · cases hw : x.wild with
    | false => rfl
    | true =>
      have := h4 (Or.inr hw)
      rw [hist] at this; cases this

/-! ### consequence: no cycle of computed usersets (what makes depth-free evaluation of computed usersets terminate) -/

theorem hasCycleL_no (m : Model) (typ : String) (fuel : Nat) (visited : List String) (cs : List Rewrite)
    (h : hasCycleL m typ fuel visited cs = .no) : ∀ c ∈ cs, ∃ f, hasCycleRw m typ f visited c = .no := by
  induction cs generalizing fuel with
  | nil => simp
  | cons c cs ih =>
    cases fuel with
    | zero => simp [hasCycleL] at h
    | succ f =>
      simp only [hasCycleL] at h
      cases hc : hasCycleRw m typ f visited c with
      | no =>
        rw [hc] at h
        intro c' hc'
        rcases List.mem_cons.mp hc' with rfl | hc''
        · exact ⟨f, hc⟩
        · exact ih f h c' hc''
      | yes => rw [hc] at h; cases h
      | err e => rw [hc] at h; cases h

theorem cuLeavesL_mem (cs : List Rewrite) (x : String) : x ∈ cuLeavesL cs ↔ ∃ c ∈ cs, x ∈ cuLeaves c := by
  induction cs with
  | nil => simp [cuLeavesL]
  | cons c cs ih => simp [cuLeavesL, ih]

/-- what a negative answer of `hasCycle` establishes, one level down -/
theorem hc_sound (m : Model) (typ : String) (rw : Rewrite) (fuel : Nat) (visited : List String)
    (h : hasCycleRw m typ fuel visited rw = .no) :
    ∀ c ∈ cuLeaves rw, c ∉ visited ∧
      ∃ crd fuel', m.findRel typ c = some crd ∧ hasCycleRw m typ fuel' (c :: visited) crd.rewrite = .no := by
  match rw, h with
  | .this, _ => simp [cuLeaves]
  | .ttu _ _, _ => simp [cuLeaves]
  | .computed c, h =>
    intro x hx
    simp only [cuLeaves, List.mem_cons, List.not_mem_nil, or_false] at hx
    subst hx
    cases fuel with
    | zero => simp [hasCycleRw] at h
    | succ f =>
      simp only [hasCycleRw] at h
      split at h
      · cases h
      · rename_i hv
        cases hf : m.findRel typ x with
        | none => simp [hf] at h
        | some crd =>
          simp only [hf] at h
          exact ⟨by simpa using hv, crd, f, rfl, h⟩
  | .union cs, h =>
    intro x hx
    simp only [cuLeaves] at hx
    obtain ⟨c, hc, hxc⟩ := (cuLeavesL_mem cs x).mp hx
    have : sizeOf c < sizeOf (Rewrite.union cs) := by
      have := List.sizeOf_lt_of_mem hc; simp; omega
    cases fuel with
    | zero => simp [hasCycleRw] at h
    | succ f =>
      simp only [hasCycleRw] at h
      obtain ⟨f', hf'⟩ := hasCycleL_no m typ f visited cs h c hc
      exact hc_sound m typ c f' visited hf' x hxc
  | .inter cs, h =>
    intro x hx
    simp only [cuLeaves] at hx
    obtain ⟨c, hc, hxc⟩ := (cuLeavesL_mem cs x).mp hx
    have : sizeOf c < sizeOf (Rewrite.inter cs) := by
      have := List.sizeOf_lt_of_mem hc; simp; omega
    cases fuel with
    | zero => simp [hasCycleRw] at h
    | succ f =>
      simp only [hasCycleRw] at h
      obtain ⟨f', hf'⟩ := hasCycleL_no m typ f visited cs h c hc
      exact hc_sound m typ c f' visited hf' x hxc
  | .diff b s, h =>
    intro x hx
    simp only [cuLeaves, List.mem_append] at hx
    cases fuel with
    | zero => simp [hasCycleRw] at h
    | succ f =>
      simp only [hasCycleRw] at h
      cases hb : hasCycleRw m typ f visited b with
      | no =>
        rw [hb] at h
        rcases hx with hx | hx
        · exact hc_sound m typ b f visited hb x hx
        · exact hc_sound m typ s f visited h x hx
      | yes => rw [hb] at h; cases h
      | err e => rw [hb] at h; cases h
termination_by sizeOf rw

/-- a chain of computed usersets starting at a relation whose `hasCycle` walk said "no" never comes back into the
visited set -/
theorem path_avoids_visited (m : Model) (typ : String) {a x : String} (hp : Path m typ a x) :
    ∀ (fuel : Nat) (visited : List String) (rd : RelDef), m.findRel typ a = some rd →
      hasCycleRw m typ fuel visited rd.rewrite = .no → x ∉ visited := by
  induction hp with
  | single he =>
    intro fuel visited rd hf hno
    obtain ⟨rd', hf', hb⟩ := he
    rw [hf] at hf'; cases hf'
    exact (hc_sound m typ rd.rewrite fuel visited hno _ hb).1
  | cons he _ ih =>
    intro fuel visited rd hf hno
    obtain ⟨rd', hf', hb⟩ := he
    rw [hf] at hf'; cases hf'
    obtain ⟨_, crd, fuel', hfc, hnc⟩ := hc_sound m typ rd.rewrite fuel visited hno _ hb
    have := ih fuel' _ crd hfc hnc
    exact fun hx => this (List.mem_cons_of_mem _ hx)

/-- **no computed-userset cycle**: in a validated model no relation reaches itself through computed usersets (under
union, intersection or difference) on the same object -/
theorem no_computed_cycle (m : Model) (h : validate m = .ok ()) (td : TypeDef) (htd : td ∈ m.types) (rd : RelDef)
    (hrd : rd ∈ td.rels) : ¬ Path m td.name rd.name rd.name := by
  have hv := validate_ok m h
  have hn := (validateRelation_parts m td.name rd (hv.relations td htd rd hrd)).2.2.2
  unfold noCycle at hn
  intro hp
  cases hc : hasCycleRw m td.name heFuel [rd.name] rd.rewrite with
  | no =>
    exact path_avoids_visited m td.name hp _ [rd.name] rd (findRel_of_mem m hv td htd rd hrd) hc (by simp)
  | yes => rw [hc] at hn; cases hn
  | err e => rw [hc] at hn; cases hn

end OpenFGAVerif.Proofs.ModelValidate
