/-
Delivery bookkeeping of the mpmc queue: every claimed position is read exactly once, the value
read is the one linearised at that position, each receiver returns what it read, each producer's
successful sends appear in `sent` in program order.
-/
import OpenFGAVerif.Proofs.MpmcWake

namespace OpenFGAVerif.Proofs.Mpmc
open OpenFGAVerif.Model.Mpmc

/-- position a receiver is about to read -/
def rdr : Pc → Option Nat
  | .rRead q => some q
  | _ => none

/-- value a receiver has read and not yet returned -/
def inflight : Pc → List Val
  | .rZero _ v | .rRecycle _ v | .rSig v => [v]
  | _ => []

/-- value a sender has linearised and whose `Send` has not yet returned -/
def pendingS : Pc → List Val
  | .sWrite _ v | .sPub _ v | .sSig v => [v]
  | _ => []

def recvVal (t : Tid) : Ev → Option Val
  | .recvRet t' (some v) => if t' = t then some v else none
  | _ => none

def sendVal (t : Tid) : Ev → Option Val
  | .sendRet t' v true => if t' = t then some v else none
  | _ => none

/-- values returned by `t`'s successful `Recv`s, in program order -/
def retsOf (t : Tid) (log : List Ev) : List Val := log.filterMap (recvVal t)
/-- values of `t`'s successful `Send`s, in program order -/
def sendsOf (t : Tid) (log : List Ev) : List Val := log.filterMap (sendVal t)

/-- an action without a ghost-visible effect -/
structure Quiet (s s' : State) : Prop where
  taken : s'.taken = s.taken
  sent : s'.sent = s.sent
  sentT : s'.sentT = s.sentT
  abs : s'.off + s'.tail = s.off + s.tail
  off : s'.off = s.off ∨ s.cs = []
  rdr : ∀ t, rdr (s'.pc t) = rdr (s.pc t)
  infl : ∀ t, inflight (s'.pc t) = inflight (s.pc t)
  pend : ∀ t, pendingS (s'.pc t) = pendingS (s.pc t)
  rets : ∀ t, retsOf t s'.log = retsOf t s.log
  sends : ∀ t, sendsOf t s'.log = sendsOf t s.log

/-- the ghost-visible effects -/
inductive Eff (s s' : State) : Prop
  | quiet (q : Quiet s s')
  | enq (t : Tid) (pos : Nat) (v : Val) (hpc : s.pc t = .sCas pos v) (hh : s.head = pos)
      (e : s' = { setPc s t (.sWrite pos v) with head := pos + 1, sent := s.sent ++ [v], sentT := s.sentT ++ [t] })
  | deq (t : Tid) (pos : Nat) (hpc : s.pc t = .rCas pos) (hh : s.tail = pos)
      (e : s' = { setPc s t (.rRead pos) with tail := pos + 1 })
  | read (t : Tid) (pos : Nat) (hpc : s.pc t = .rRead pos)
      (e : s' = { setPc s t (.rZero pos (dt s pos)) with taken := s.taken ++ [(t, s.off + pos, dt s pos)] })
  | rret (t : Tid) (v : Val) (hpc : s.pc t = .rSig v)
      (h1 : s'.taken = s.taken ∧ s'.sent = s.sent ∧ s'.sentT = s.sentT ∧ s'.off = s.off ∧ s'.tail = s.tail)
      (h2 : s'.pc = upd s.pc t .idle) (h3 : s'.log = s.log ++ [.recvRet t (some v)])
  | sret (t : Tid) (v : Val) (hpc : s.pc t = .sSig v)
      (h1 : s'.taken = s.taken ∧ s'.sent = s.sent ∧ s'.sentT = s.sentT ∧ s'.off = s.off ∧ s'.tail = s.tail)
      (h2 : s'.pc = upd s.pc t .idle) (h3 : s'.log = s.log ++ [.sendRet t v true])

theorem quiet_of {s s' : State} {t : Tid} {p' : Pc}
    (h1 : s'.taken = s.taken) (h2 : s'.sent = s.sent) (h3 : s'.sentT = s.sentT)
    (h4 : s'.off + s'.tail = s.off + s.tail) (h5 : s'.off = s.off ∨ s.cs = [])
    (hp : s'.pc = upd s.pc t p')
    (hl : s'.log = s.log ∨ ∃ e, s'.log = s.log ++ [e] ∧ (∀ t', recvVal t' e = none) ∧ ∀ t', sendVal t' e = none)
    (r : rdr p' = rdr (s.pc t)) (i : inflight p' = inflight (s.pc t)) (pd : pendingS p' = pendingS (s.pc t)) :
    Quiet s s' := by
  have pc' : ∀ t', s'.pc t' = if t' = t then p' else s.pc t' := fun t' => by rw [hp]; rfl
  refine ⟨h1, h2, h3, h4, h5, ?_, ?_, ?_, ?_, ?_⟩
  · intro t'; rw [pc']; split
    · rename_i e; subst e; exact r
    · rfl
  · intro t'; rw [pc']; split
    · rename_i e; subst e; exact i
    · rfl
  · intro t'; rw [pc']; split
    · rename_i e; subst e; exact pd
    · rfl
  · intro t'
    rcases hl with hl | ⟨e, hl, e1, _⟩
    · rw [hl]
    · simp [retsOf, hl, e1]
  · intro t'
    rcases hl with hl | ⟨e, hl, _, e2⟩
    · rw [hl]
    · simp [sendsOf, hl, e2]

macro "qlog" : tactic =>
  `(tactic| first | exact Or.inl rfl | exact Or.inr ⟨_, rfl, fun _ => rfl, fun _ => rfl⟩)

/-- quiet step that changes `pc t` only (plus reader set, tokens, flags, log) -/
macro "quiet" hpc:ident : tactic =>
  `(tactic| exact Eff.quiet (quiet_of rfl rfl rfl rfl (Or.inl rfl) rfl (by qlog)
      (by simp [$hpc:ident, rdr]) (by simp [$hpc:ident, inflight]) (by simp [$hpc:ident, pendingS])))

theorem eff_stepT {s s' : State} {t : Tid} (e : stepT s t = some s') : Eff s s' := by
  unfold stepT at e
  split at e
  · simp at e
  · rename_i v hpc  -- sEnter
    split at e <;> (simp only [Option.some.injEq] at e; subst e) <;> quiet hpc
  · rename_i pos v hpc  -- sLoop
    dsimp only at e
    repeat' (split at e)
    all_goals (simp only [Option.some.injEq] at e; subst e)
    all_goals quiet hpc
  · rename_i v hpc; simp only [Option.some.injEq] at e; subst e; quiet hpc
  · rename_i pos v hpc  -- sCas
    split at e <;> (simp only [Option.some.injEq] at e; subst e)
    · rename_i hh; exact .enq t pos v hpc hh rfl
    · quiet hpc
  · rename_i pos v hpc; simp only [Option.some.injEq] at e; subst e; quiet hpc
  · rename_i pos v hpc; simp only [Option.some.injEq] at e; subst e; quiet hpc
  · rename_i v hpc  -- sSig
    simp only [Option.some.injEq] at e; subst e
    refine .sret t v hpc ?_ ?_ ?_ <;> split <;> simp [addLog, leave]
  · rename_i v c hpc  -- sExt
    split at e
    · simp at e
    · rename_i hcs
      have hcs : s.cs = [] := by simpa using hcs
      simp only [Option.some.injEq] at e; subst e
      split
      · have hx := extend_abs s (s.cap * 2)
        have hk : (extend s (s.cap * 2)).taken = s.taken ∧ (extend s (s.cap * 2)).sentT = s.sentT := by
          unfold extend; split <;> simp
        exact .quiet (quiet_of (t := t) (p' := .sRelock v) hk.1 hx.1 hk.2 hx.2.1 (Or.inr hcs) (by simp [setPc, hx]) (Or.inl hx.2.2.2.1)
          (by simp [hpc, rdr]) (by simp [hpc, inflight]) (by simp [hpc, pendingS]))
      · quiet hpc
  · rename_i v hpc  -- sPark
    repeat' (split at e)
    all_goals (try (simp at e; done))
    all_goals (simp only [Option.some.injEq] at e; subst e)
    all_goals quiet hpc
  · rename_i v hpc; simp only [Option.some.injEq] at e; subst e; quiet hpc
  · rename_i hpc; simp only [Option.some.injEq] at e; subst e; quiet hpc
  · rename_i pos hpc  -- rLoop
    dsimp only at e
    repeat' (split at e)
    all_goals (simp only [Option.some.injEq] at e; subst e)
    all_goals quiet hpc
  · rename_i hpc; simp only [Option.some.injEq] at e; subst e; quiet hpc
  · rename_i pos hpc  -- rCas
    split at e <;> (simp only [Option.some.injEq] at e; subst e)
    · rename_i hh; exact .deq t pos hpc hh rfl
    · quiet hpc
  · rename_i pos hpc  -- rRead
    simp only [Option.some.injEq] at e; subst e
    exact .read t pos hpc rfl
  · rename_i pos v hpc; simp only [Option.some.injEq] at e; subst e; quiet hpc
  · rename_i pos v hpc; simp only [Option.some.injEq] at e; subst e; quiet hpc
  · rename_i v hpc  -- rSig
    simp only [Option.some.injEq] at e; subst e
    refine .rret t v hpc ?_ ?_ ?_ <;> split <;> simp [addLog, leave]
  · rename_i hpc  -- rPark
    repeat' (split at e)
    all_goals (try (simp at e; done))
    all_goals (simp only [Option.some.injEq] at e; subst e)
    all_goals quiet hpc
  · rename_i hpc  -- cEnter
    split at e
    · simp at e
    · simp only [Option.some.injEq] at e; subst e; quiet hpc
  · rename_i n hpc  -- gEnter
    repeat' (split at e)
    all_goals (try (simp at e; done))
    · simp only [Option.some.injEq] at e; subst e; quiet hpc
    · rename_i hcs
      have hcs : s.cs = [] := by simpa using hcs
      simp only [Option.some.injEq] at e; subst e
      have hx := extend_abs s n
      have hk : (extend s n).taken = s.taken ∧ (extend s n).sentT = s.sentT := by
        unfold extend; split <;> simp
      exact .quiet (quiet_of (t := t) (p' := .idle) hk.1 hx.1 hk.2 hx.2.1 (Or.inr hcs) (by simp [addLog, setPc, hx])
        (Or.inr ⟨.growRet t true, by simp [addLog, setPc, hx], fun _ => rfl, fun _ => rfl⟩)
        (by simp [hpc, rdr]) (by simp [hpc, inflight]) (by simp [hpc, pendingS]))

theorem eff_act {s s' : State} {a : Action} (e : act s a = some s') : Eff s s' := by
  cases a with
  | step t => exact eff_stepT e
  | call t op =>
    simp only [act] at e
    split at e
    · rename_i hpc
      simp only [Option.some.injEq] at e; subst e
      exact .quiet (quiet_of rfl rfl rfl rfl (Or.inl rfl) rfl (by qlog)
        (by cases op <;> simp [hpc, rdr, startPc]) (by cases op <;> simp [hpc, inflight, startPc])
        (by cases op <;> simp [hpc, pendingS, startPc]))
    · simp at e
  | ctxWake t =>
    simp only [act] at e
    split at e
    · split at e
      · rename_i v hpc; simp only [Option.some.injEq] at e; subst e; quiet hpc
      · rename_i hpc; simp only [Option.some.injEq] at e; subst e; quiet hpc
      · simp at e
    · simp at e
  | cancel t =>
    simp only [act, Option.some.injEq] at e; subst e
    exact .quiet ⟨rfl, rfl, rfl, rfl, Or.inl rfl, fun _ => rfl, fun _ => rfl, fun _ => rfl, fun _ => rfl, fun _ => rfl⟩

end OpenFGAVerif.Proofs.Mpmc
