/-
Delivery bookkeeping of the mpmc queue: every claimed position is read exactly once, the value
read is the one linearised at that position, each receiver returns what it read, each producer's
successful sends appear in `sent` in program order.
-/
import OpenFGAVerif.Proofs.MpmcWake

namespace OpenFGAVerif.Proofs.Mpmc
open OpenFGAVerif.Model.Mpmc

/-- position a receiver is about to read -/
def rdr : Pc → Option Nat
  | .rRead q => some q
  | _ => none

/-- value a receiver has read and not yet returned -/
def inflight : Pc → List Val
  | .rZero _ v | .rRecycle _ v | .rSig v => [v]
  | _ => []

/-- value a sender has linearised and whose `Send` has not yet returned -/
def pendingS : Pc → List Val
  | .sWrite _ v | .sPub _ v | .sSig v => [v]
  | _ => []

def recvVal (t : Tid) : Ev → Option Val
  | .recvRet t' (some v) => if t' = t then some v else none
  | _ => none

def sendVal (t : Tid) : Ev → Option Val
  | .sendRet t' v true => if t' = t then some v else none
  | _ => none

/-- values returned by `t`'s successful `Recv`s, in program order -/
def retsOf (t : Tid) (log : List Ev) : List Val := log.filterMap (recvVal t)
/-- values of `t`'s successful `Send`s, in program order -/
def sendsOf (t : Tid) (log : List Ev) : List Val := log.filterMap (sendVal t)

/-- an action without a ghost-visible effect -/
structure Quiet (s s' : State) : Prop where
  taken : s'.taken = s.taken
  sent : s'.sent = s.sent
  sentT : s'.sentT = s.sentT
  abs : s'.off + s'.tail = s.off + s.tail
  off : s'.off = s.off ∨ s.cs = []
  rdr : ∀ t, rdr (s'.pc t) = rdr (s.pc t)
  infl : ∀ t, inflight (s'.pc t) = inflight (s.pc t)
  pend : ∀ t, pendingS (s'.pc t) = pendingS (s.pc t)
  rets : ∀ t, retsOf t s'.log = retsOf t s.log
  sends : ∀ t, sendsOf t s'.log = sendsOf t s.log

/-- the ghost-visible effects -/
inductive Eff (s s' : State) : Prop
  | quiet (q : Quiet s s')
  | enq (t : Tid) (pos : Nat) (v : Val) (hpc : s.pc t = .sCas pos v) (hh : s.head = pos)
      (e : s' = { setPc s t (.sWrite pos v) with head := pos + 1, sent := s.sent ++ [v], sentT := s.sentT ++ [t] })
  | deq (t : Tid) (pos : Nat) (hpc : s.pc t = .rCas pos) (hh : s.tail = pos)
      (e : s' = { setPc s t (.rRead pos) with tail := pos + 1 })
  | read (t : Tid) (pos : Nat) (hpc : s.pc t = .rRead pos)
      (e : s' = { setPc s t (.rZero pos (dt s pos)) with taken := s.taken ++ [(t, s.off + pos, dt s pos)] })
  | rret (t : Tid) (v : Val) (hpc : s.pc t = .rSig v)
      (h1 : s'.taken = s.taken ∧ s'.sent = s.sent ∧ s'.sentT = s.sentT ∧ s'.off = s.off ∧ s'.tail = s.tail)
      (h2 : s'.pc = upd s.pc t .idle) (h3 : s'.log = s.log ++ [.recvRet t (some v)])
  | sret (t : Tid) (v : Val) (hpc : s.pc t = .sSig v)
      (h1 : s'.taken = s.taken ∧ s'.sent = s.sent ∧ s'.sentT = s.sentT ∧ s'.off = s.off ∧ s'.tail = s.tail)
      (h2 : s'.pc = upd s.pc t .idle) (h3 : s'.log = s.log ++ [.sendRet t v true])

theorem quiet_of {s s' : State} {t : Tid} {p' : Pc}
    (h1 : s'.taken = s.taken) (h2 : s'.sent = s.sent) (h3 : s'.sentT = s.sentT)
    (h4 : s'.off + s'.tail = s.off + s.tail) (h5 : s'.off = s.off ∨ s.cs = [])
    (hp : s'.pc = upd s.pc t p')
    (hl : s'.log = s.log ∨ ∃ e, s'.log = s.log ++ [e] ∧ (∀ t', recvVal t' e = none) ∧ ∀ t', sendVal t' e = none)
    (r : rdr p' = rdr (s.pc t)) (i : inflight p' = inflight (s.pc t)) (pd : pendingS p' = pendingS (s.pc t)) :
    Quiet s s' := by
  have pc' : ∀ t', s'.pc t' = if t' = t then p' else s.pc t' := fun t' => by rw [hp]; rfl
  refine ⟨h1, h2, h3, h4, h5, ?_, ?_, ?_, ?_, ?_⟩
  · intro t'; rw [pc']; split
    · rename_i e; subst e; exact r
    · rfl
  · intro t'; rw [pc']; split
    · rename_i e; subst e; exact i
    · rfl
  · intro t'; rw [pc']; split
    · rename_i e; subst e; exact pd
    · rfl
  · intro t'
    rcases hl with hl | ⟨e, hl, e1, _⟩
    · rw [hl]
    · simp [retsOf, hl, e1]
  · intro t'
    rcases hl with hl | ⟨e, hl, _, e2⟩
    · rw [hl]
    · simp [sendsOf, hl, e2]

macro "qlog" : tactic =>
  `(tactic| first | exact Or.inl rfl | exact Or.inr ⟨_, rfl, fun _ => rfl, fun _ => rfl⟩)

/-- quiet step that changes `pc t` only (plus reader set, tokens, flags, log) -/
macro "quiet" hpc:ident : tactic =>
  `(tactic| exact Eff.quiet (quiet_of rfl rfl rfl rfl (Or.inl rfl) rfl (by qlog)
      (by simp [$hpc:ident, rdr]) (by simp [$hpc:ident, inflight]) (by simp [$hpc:ident, pendingS])))

theorem eff_stepT {s s' : State} {t : Tid} (e : stepT s t = some s') : Eff s s' := by
  unfold stepT at e
  split at e
  · simp at e
  · rename_i v hpc  -- sEnter
    split at e <;> (simp only [Option.some.injEq] at e; subst e) <;> quiet hpc
  · rename_i pos v hpc  -- sLoop
    dsimp only at e
    repeat' (split at e)
    all_goals (simp only [Option.some.injEq] at e; subst e)
    all_goals quiet hpc
  · rename_i v hpc; simp only [Option.some.injEq] at e; subst e; quiet hpc
  · rename_i pos v hpc  -- sCas
    split at e <;> (simp only [Option.some.injEq] at e; subst e)
    · rename_i hh; exact .enq t pos v hpc hh rfl
    · quiet hpc
  · rename_i pos v hpc; simp only [Option.some.injEq] at e; subst e; quiet hpc
  · rename_i pos v hpc; simp only [Option.some.injEq] at e; subst e; quiet hpc
  · rename_i v hpc  -- sSig
    simp only [Option.some.injEq] at e; subst e
    refine .sret t v hpc ?_ ?_ ?_ <;> split <;> simp [addLog, leave]
  · rename_i v c hpc  -- sExt
    split at e
    · simp at e
    · rename_i hcs
      have hcs : s.cs = [] := by simpa using hcs
      simp only [Option.some.injEq] at e; subst e
      split
      · have hx := extend_abs s (s.cap * 2)
        have hk : (extend s (s.cap * 2)).taken = s.taken ∧ (extend s (s.cap * 2)).sentT = s.sentT := by
          unfold extend; split <;> simp
        exact .quiet (quiet_of (t := t) (p' := .sRelock v) hk.1 hx.1 hk.2 hx.2.1 (Or.inr hcs) (by simp [setPc, hx]) (Or.inl hx.2.2.2.1)
          (by simp [hpc, rdr]) (by simp [hpc, inflight]) (by simp [hpc, pendingS]))
      · quiet hpc
  · rename_i v hpc  -- sPark
    repeat' (split at e)
    all_goals (try (simp at e; done))
    all_goals (simp only [Option.some.injEq] at e; subst e)
    all_goals quiet hpc
  · rename_i v hpc; simp only [Option.some.injEq] at e; subst e; quiet hpc
  · rename_i hpc; simp only [Option.some.injEq] at e; subst e; quiet hpc
  · rename_i pos hpc  -- rLoop
    dsimp only at e
    repeat' (split at e)
    all_goals (simp only [Option.some.injEq] at e; subst e)
    all_goals quiet hpc
  · rename_i hpc; simp only [Option.some.injEq] at e; subst e; quiet hpc
  · rename_i pos hpc  -- rCas
    split at e <;> (simp only [Option.some.injEq] at e; subst e)
    · rename_i hh; exact .deq t pos hpc hh rfl
    · quiet hpc
  · rename_i pos hpc  -- rRead
    simp only [Option.some.injEq] at e; subst e
    exact .read t pos hpc rfl
  · rename_i pos v hpc; simp only [Option.some.injEq] at e; subst e; quiet hpc
  · rename_i pos v hpc; simp only [Option.some.injEq] at e; subst e; quiet hpc
  · rename_i v hpc  -- rSig
    simp only [Option.some.injEq] at e; subst e
    refine .rret t v hpc ?_ ?_ ?_ <;> split <;> simp [addLog, leave]
  · rename_i hpc  -- rPark
    repeat' (split at e)
    all_goals (try (simp at e; done))
    all_goals (simp only [Option.some.injEq] at e; subst e)
    all_goals quiet hpc
  · rename_i hpc  -- cEnter
    split at e
    · simp at e
    · simp only [Option.some.injEq] at e; subst e; quiet hpc
  · rename_i n hpc  -- gEnter
    repeat' (split at e)
    all_goals (try (simp at e; done))
    · simp only [Option.some.injEq] at e; subst e; quiet hpc
    · rename_i hcs
      have hcs : s.cs = [] := by simpa using hcs
      simp only [Option.some.injEq] at e; subst e
      have hx := extend_abs s n
      have hk : (extend s n).taken = s.taken ∧ (extend s n).sentT = s.sentT := by
        unfold extend; split <;> simp
      exact .quiet (quiet_of (t := t) (p' := .idle) hk.1 hx.1 hk.2 hx.2.1 (Or.inr hcs) (by simp [addLog, setPc, hx])
        (Or.inr ⟨.growRet t true, by simp [addLog, setPc, hx], fun _ => rfl, fun _ => rfl⟩)
        (by simp [hpc, rdr]) (by simp [hpc, inflight]) (by simp [hpc, pendingS]))

theorem eff_act {s s' : State} {a : Action} (e : act s a = some s') : Eff s s' := by
  cases a with
  | step t => exact eff_stepT e
  | call t op =>
    simp only [act] at e
    split at e
    · rename_i hpc
      simp only [Option.some.injEq] at e; subst e
      exact .quiet (quiet_of rfl rfl rfl rfl (Or.inl rfl) rfl (by qlog)
        (by cases op <;> simp [hpc, rdr, startPc]) (by cases op <;> simp [hpc, inflight, startPc])
        (by cases op <;> simp [hpc, pendingS, startPc]))
    · simp at e
  | ctxWake t =>
    simp only [act] at e
    split at e
    · split at e
      · rename_i v hpc; simp only [Option.some.injEq] at e; subst e; quiet hpc
      · rename_i hpc; simp only [Option.some.injEq] at e; subst e; quiet hpc
      · simp at e
    · simp at e
  | cancel t =>
    simp only [act, Option.some.injEq] at e; subst e
    exact .quiet ⟨rfl, rfl, rfl, rfl, Or.inl rfl, fun _ => rfl, fun _ => rfl, fun _ => rfl, fun _ => rfl, fun _ => rfl⟩

def positions (s : State) : List Nat := s.taken.map (fun x => x.2.1)
def takenOf (t : Tid) (tk : List (Tid × Nat × Val)) : List Val :=
  tk.filterMap (fun x => if x.1 = t then some x.2.2 else none)
def posOf (t : Tid) (tk : List (Tid × Nat × Val)) : List Nat :=
  tk.filterMap (fun x => if x.1 = t then some x.2.1 else none)
def sentOf (t : Tid) (s : State) : List Val :=
  (s.sentT.zip s.sent).filterMap (fun x => if x.1 = t then some x.2 else none)

structure Dlv (s : State) : Prop where
  val : ∀ x ∈ s.taken, s.sent[x.2.1]? = some x.2.2
  lt : ∀ x ∈ s.taken, x.2.1 < s.off + s.tail
  nodup : (positions s).Nodup
  reading : ∀ t q, s.pc t = .rRead q → s.off + q ∉ positions s
  cover : ∀ k, k < s.off + s.tail → k ∈ positions s ∨ ∃ t q, s.pc t = .rRead q ∧ s.off + q = k
  rets : ∀ t, retsOf t s.log ++ inflight (s.pc t) = takenOf t s.taken
  order : ∀ t, (posOf t s.taken).Pairwise (· < ·)
  orderR : ∀ t q, s.pc t = .rRead q → ∀ x ∈ s.taken, x.1 = t → x.2.1 < s.off + q
  lenT : s.sentT.length = s.sent.length
  prod : ∀ t, sendsOf t s.log ++ pendingS (s.pc t) = sentOf t s

theorem rdr_iff {p : Pc} {q : Nat} : rdr p = some q ↔ p = .rRead q := by
  cases p <;> simp [rdr]

theorem dlv_quiet {s s' : State} (h : Inv s) (d : Dlv s) (q : Quiet s s') : Dlv s' := by
  obtain ⟨q1, q2, q3, q4, q5, q6, q7, q8, q9, q10⟩ := q
  have rd : ∀ t p, s'.pc t = .rRead p → s.pc t = .rRead p ∧ s'.off = s.off := by
    intro t p e
    have e1 : s.pc t = .rRead p := by rw [← rdr_iff, ← q6, rdr_iff]; exact e
    refine ⟨e1, ?_⟩
    rcases q5 with q5 | q5
    · exact q5
    · have := noCS h q5 t; simp [e1, Pc.inCS] at this
  constructor
  · rw [q1, q2]; exact d.val
  · rw [q1, q4]; exact d.lt
  · simp only [positions, q1]; exact d.nodup
  · intro t p e
    obtain ⟨e1, e2⟩ := rd t p e
    simp only [positions, q1, e2]; exact d.reading t p e1
  · intro k hk
    rw [q4] at hk
    rcases d.cover k hk with c | ⟨t, p, c1, c2⟩
    · left; simp only [positions, q1]; exact c
    · right
      have e1 : s'.pc t = .rRead p := by rw [← rdr_iff, q6, rdr_iff]; exact c1
      exact ⟨t, p, e1, by rw [(rd t p e1).2]; exact c2⟩
  · intro t; rw [q9, q7, q1]; exact d.rets t
  · intro t; rw [q1]; exact d.order t
  · intro t p e x hx
    obtain ⟨e1, e2⟩ := rd t p e
    rw [q1] at hx; rw [e2]; exact d.orderR t p e1 x hx
  · rw [q2, q3]; exact d.lenT
  · intro t; rw [q10, q8]; simp only [sentOf, q2, q3]; exact d.prod t

theorem upd_pc {f : Nat → Pc} {t t' : Tid} {p : Pc} : upd f t p t' = if t' = t then p else f t' := rfl

/-- steps that keep `taken`, `off`, `tail` and only move `t` between two non-reading points -/
theorem dlv_frame {s s' : State} {t : Tid} {p' : Pc} (d : Dlv s)
    (h1 : s'.taken = s.taken) (h4 : s'.off = s.off) (h5 : s'.tail = s.tail)
    (hp : s'.pc = upd s.pc t p') (r0 : rdr (s.pc t) = none) (r1 : rdr p' = none)
    (hs : ∀ x ∈ s.taken, s'.sent[x.2.1]? = some x.2.2)
    (hr : ∀ t', retsOf t' s'.log ++ inflight (s'.pc t') = takenOf t' s.taken)
    (hl : s'.sentT.length = s'.sent.length)
    (hd : ∀ t', sendsOf t' s'.log ++ pendingS (s'.pc t') = sentOf t' s') : Dlv s' := by
  have rd : ∀ t' q, s'.pc t' = .rRead q ↔ s.pc t' = .rRead q := by
    intro t' q; rw [hp, upd_pc]; split
    · rename_i e; subst e
      constructor
      · intro e; rw [e] at r1; simp [rdr] at r1
      · intro e; rw [e] at r0; simp [rdr] at r0
    · rfl
  constructor
  · rw [h1]; exact hs
  · rw [h1, h4, h5]; exact d.lt
  · simp only [positions, h1]; exact d.nodup
  · intro t' q e; simp only [positions, h1, h4]; exact d.reading t' q ((rd t' q).1 e)
  · intro k hk; rw [h4, h5] at hk
    rcases d.cover k hk with c | ⟨t', q, c1, c2⟩
    · left; simp only [positions, h1]; exact c
    · exact Or.inr ⟨t', q, (rd t' q).2 c1, by rw [h4]; exact c2⟩
  · rw [h1]; exact hr
  · intro t'; rw [h1]; exact d.order t'
  · intro t' q e x hx; rw [h1] at hx; rw [h4]; exact d.orderR t' q ((rd t' q).1 e) x hx
  · exact hl
  · exact hd

theorem dlv_enq {s : State} {t : Tid} {pos : Nat} {v : Val} (d : Dlv s) (hpc : s.pc t = .sCas pos v) :
    Dlv { setPc s t (.sWrite pos v) with head := pos + 1, sent := s.sent ++ [v], sentT := s.sentT ++ [t] } := by
  refine dlv_frame (t := t) (p' := .sWrite pos v) d rfl rfl rfl rfl (by simp [hpc, rdr]) (by simp [rdr]) ?_ ?_ ?_ ?_
  · intro x hx
    have := d.val x hx
    show (s.sent ++ [v])[x.2.1]? = some x.2.2
    rw [List.getElem?_append_left]
    · exact this
    · by_cases e : x.2.1 < s.sent.length
      · exact e
      · rw [List.getElem?_eq_none (by omega)] at this; simp at this
  · intro t'
    show retsOf t' s.log ++ inflight (upd s.pc t (.sWrite pos v) t') = _
    rw [upd_pc]; split
    · rename_i e; subst e; have := d.rets t'; rw [hpc] at this; exact this
    · exact d.rets t'
  · show (s.sentT ++ [t]).length = (s.sent ++ [v]).length
    simp [d.lenT]
  · intro t'
    show sendsOf t' s.log ++ pendingS (upd s.pc t (.sWrite pos v) t') =
      ((s.sentT ++ [t]).zip (s.sent ++ [v])).filterMap (fun x => if x.1 = t' then some x.2 else none)
    rw [List.zip_append d.lenT, List.filterMap_append, upd_pc]
    have := d.prod t'
    simp only [sentOf] at this
    split
    · rename_i e; subst e
      rw [hpc] at this
      simp [pendingS] at this ⊢
      exact this
    · rename_i e
      rw [← this]
      have : ¬ t = t' := fun e2 => e e2.symm
      simp [this]

theorem dlv_deq {s : State} {t : Tid} {pos : Nat} (d : Dlv s) (hpc : s.pc t = .rCas pos) (hh : s.tail = pos) :
    Dlv { setPc s t (.rRead pos) with tail := pos + 1 } := by
  subst hh
  have pcs : ∀ t', t' ≠ t → upd s.pc t (.rRead s.tail) t' = s.pc t' := fun t' e => by simp [upd, e]
  constructor
  · exact d.val
  · intro x hx; have := d.lt x hx; show x.2.1 < s.off + (s.tail + 1); omega
  · exact d.nodup
  · intro t' q e
    show s.off + q ∉ positions s
    by_cases a : t' = t
    · subst a
      have : q = s.tail := by simp [setPc, upd] at e; exact e.symm
      subst this
      intro m
      simp only [positions, List.mem_map] at m
      obtain ⟨x, hx, e2⟩ := m
      have := d.lt x hx; omega
    · have e : s.pc t' = .rRead q := by simpa [setPc, upd, a] using e
      exact d.reading t' q e
  · intro k hk
    have hk : k < s.off + (s.tail + 1) := hk
    by_cases e : k = s.off + s.tail
    · right; exact ⟨t, s.tail, by simp [setPc, upd], e.symm⟩
    · rcases d.cover k (by omega) with c | ⟨t', q, c1, c2⟩
      · exact Or.inl c
      · right
        have a : t' ≠ t := fun a => by subst a; rw [hpc] at c1; simp at c1
        exact ⟨t', q, by simp [setPc, upd, a]; exact c1, c2⟩
  · intro t'
    show retsOf t' s.log ++ inflight (upd s.pc t (.rRead s.tail) t') = _
    rw [upd_pc]; split
    · rename_i e; subst e; have := d.rets t'; rw [hpc] at this; exact this
    · exact d.rets t'
  · exact d.order
  · intro t' q e x hx hx1
    show x.2.1 < s.off + q
    by_cases a : t' = t
    · subst a
      have : q = s.tail := by simp [setPc, upd] at e; exact e.symm
      subst this
      exact d.lt x hx
    · have e : s.pc t' = .rRead q := by simpa [setPc, upd, a] using e
      exact d.orderR t' q e x hx hx1
  · exact d.lenT
  · intro t'
    show sendsOf t' s.log ++ pendingS (upd s.pc t (.rRead s.tail) t') = _
    rw [upd_pc]; split
    · rename_i e; subst e; have := d.prod t'; rw [hpc] at this; exact this
    · exact d.prod t'
theorem dlv_read {s : State} {t : Tid} {pos : Nat} (h : Inv s) (d : Dlv s) (hpc : s.pc t = .rRead pos) :
    Dlv { setPc s t (.rZero pos (dt s pos)) with taken := s.taken ++ [(t, s.off + pos, dt s pos)] } := by
  obtain ⟨o1, _, o3⟩ := h.rOwnR t pos hpc
  generalize dt s pos = v at *
  have pcs : ∀ t', t' ≠ t → upd s.pc t (.rZero pos v) t' = s.pc t' := fun t' e => by simp [upd, e]
  have other : ∀ t' q, t' ≠ t → s.pc t' = .rRead q → q ≠ pos := by
    intro t' q a e e2; subst e2
    exact a (h.rUniq t' t q (by simp [e, rOwn]) (by simp [hpc, rOwn]))
  have posE : positions { setPc s t (.rZero pos v) with taken := s.taken ++ [(t, s.off + pos, v)] }
      = positions s ++ [s.off + pos] := by simp [positions]
  constructor
  · intro x hx
    have hx : x ∈ s.taken ++ [(t, s.off + pos, v)] := hx
    rw [List.mem_append] at hx
    rcases hx with hx | hx
    · exact d.val x hx
    · simp at hx; subst hx; exact o3
  · intro x hx
    have hx : x ∈ s.taken ++ [(t, s.off + pos, v)] := hx
    rw [List.mem_append] at hx
    rcases hx with hx | hx
    · exact d.lt x hx
    · simp at hx; subst hx; show s.off + pos < s.off + s.tail; omega
  · rw [posE]
    refine List.nodup_append.2 ⟨d.nodup, by simp, ?_⟩
    intro a ha b hb
    simp at hb; subst hb
    intro e; subst e
    exact d.reading t pos hpc ha
  · intro t' q e
    have a : t' ≠ t := fun a => by subst a; simp [setPc, upd] at e
    have e : s.pc t' = .rRead q := by simpa [setPc, upd, a] using e
    rw [posE]
    show s.off + q ∉ positions s ++ [s.off + pos]
    rw [List.mem_append]
    rintro (m | m)
    · exact d.reading t' q e m
    · simp at m; exact other t' q a e m
  · intro k hk
    rw [posE]
    rcases d.cover k hk with c | ⟨t', q, c1, c2⟩
    · left; exact List.mem_append_left _ c
    · by_cases a : t' = t
      · subst a; rw [hpc] at c1; injection c1 with c1; subst c1
        left; rw [← c2]; simp
      · right; exact ⟨t', q, by simp [setPc, upd, a]; exact c1, c2⟩
  · intro t'
    show retsOf t' s.log ++ inflight (upd s.pc t (.rZero pos v) t') = takenOf t' (s.taken ++ [(t, s.off + pos, v)])
    have := d.rets t'
    simp only [takenOf, List.filterMap_append] at this ⊢
    rw [upd_pc]; split
    · rename_i e; subst e
      rw [hpc] at this
      simp [inflight] at this ⊢
      exact this
    · rename_i e
      have : ¬ t = t' := fun e2 => e e2.symm
      simp [this]
      exact d.rets t'
  · intro t'
    show (posOf t' (s.taken ++ [(t, s.off + pos, v)])).Pairwise (· < ·)
    simp only [posOf, List.filterMap_append]
    by_cases e : t = t'
    · subst e
      simp
      rw [List.pairwise_append]
      refine ⟨d.order t, by simp, ?_⟩
      intro a ha b hb
      simp at hb; subst hb
      simp only [List.mem_filterMap] at ha
      obtain ⟨x, hx, e2⟩ := ha
      split at e2
      · rename_i e3; simp at e2; subst e2; exact d.orderR t pos hpc x hx e3
      · simp at e2
    · simp [e]; exact d.order t'
  · intro t' q e x hx hx1
    have a : t' ≠ t := fun a => by subst a; simp [setPc, upd] at e
    have e : s.pc t' = .rRead q := by simpa [setPc, upd, a] using e
    have hx : x ∈ s.taken ++ [(t, s.off + pos, v)] := hx
    rw [List.mem_append] at hx
    rcases hx with hx | hx
    · exact d.orderR t' q e x hx hx1
    · simp at hx; subst hx; exact absurd hx1.symm a
  · exact d.lenT
  · intro t'
    show sendsOf t' s.log ++ pendingS (upd s.pc t (.rZero pos v) t') = _
    rw [upd_pc]; split
    · rename_i e; subst e; have := d.prod t'; rw [hpc] at this; exact this
    · exact d.prod t'

theorem dlv_ret {s s' : State} {t : Tid} {ev : Ev} (d : Dlv s)
    (h1 : s'.taken = s.taken ∧ s'.sent = s.sent ∧ s'.sentT = s.sentT ∧ s'.off = s.off ∧ s'.tail = s.tail)
    (h2 : s'.pc = upd s.pc t .idle) (h3 : s'.log = s.log ++ [ev])
    (hrd : rdr (s.pc t) = none)
    (hr : ∀ t', (recvVal t' ev).toList ++ inflight (if t' = t then .idle else s.pc t') = inflight (s.pc t'))
    (hs : ∀ t', (sendVal t' ev).toList ++ pendingS (if t' = t then .idle else s.pc t') = pendingS (s.pc t')) :
    Dlv s' := by
  obtain ⟨k1, k2, k3, k4, k5⟩ := h1
  refine dlv_frame (t := t) (p' := .idle) d k1 k4 k5 h2 hrd rfl ?_ ?_ ?_ ?_
  · rw [k2]; exact d.val
  · intro t'
    rw [h3, h2, upd_pc, ← d.rets t', ← hr t']
    simp only [retsOf, List.filterMap_append, List.append_assoc]
    congr 1
  · rw [k2, k3]; exact d.lenT
  · intro t'
    have : sentOf t' s' = sentOf t' s := by simp only [sentOf, k2, k3]
    rw [this, h3, h2, upd_pc, ← d.prod t', ← hs t']
    simp only [sendsOf, List.filterMap_append, List.append_assoc]
    congr 1

theorem dlv_act {s s' : State} {a : Action} (h : Inv s) (d : Dlv s) (e : act s a = some s') : Dlv s' := by
  cases eff_act e with
  | quiet q => exact dlv_quiet h d q
  | enq t pos v hpc hh e => subst e; exact dlv_enq d hpc
  | deq t pos hpc hh e => subst e; exact dlv_deq d hpc hh
  | read t pos hpc e => subst e; exact dlv_read h d hpc
  | rret t v hpc h1 h2 h3 =>
    refine dlv_ret d h1 h2 h3 (by simp [hpc, rdr]) ?_ ?_
    · intro t'; by_cases e : t' = t
      · subst e; simp [recvVal, hpc, inflight]
      · have : ¬ t = t' := fun e2 => e e2.symm
        simp [recvVal, e, this]
    · intro t'; by_cases e : t' = t
      · subst e; simp [sendVal, hpc, pendingS]
      · simp [sendVal, e]
  | sret t v hpc h1 h2 h3 =>
    refine dlv_ret d h1 h2 h3 (by simp [hpc, rdr]) ?_ ?_
    · intro t'; by_cases e : t' = t
      · subst e; simp [recvVal, hpc, inflight]
      · simp [recvVal, e]
    · intro t'; by_cases e : t' = t
      · subst e; simp [sendVal, hpc, pendingS]
      · have : ¬ t = t' := fun e2 => e e2.symm
        simp [sendVal, e, this]

theorem dlv_init {c : Nat} {x : Int} {s : State} (h : init c x = some s) : Dlv s := by
  unfold init at h
  split at h
  · simp at h
  · simp at h; subst h
    constructor <;> simp [positions, retsOf, sendsOf, inflight, pendingS, takenOf, posOf, sentOf]

theorem dlv_run {c : Nat} {x : Int} {s0 : State} (h : init c x = some s0) (as : List Action) :
    Inv (run s0 as) ∧ Dlv (run s0 as) :=
  run_induction (P := fun s => Inv s ∧ Dlv s) ⟨inv_init h, dlv_init h⟩
    (fun _ _ _ hs e => ⟨inv_act hs.1 e, dlv_act hs.1 hs.2 e⟩) as

end OpenFGAVerif.Proofs.Mpmc
