/-
Inductive invariant of the mpmc transition system (`Model.Mpmc`): the Vyukov slot-sequence
invariant with in-flight owners, for any number of threads and any interleaving.
-/
import OpenFGAVerif.Model.Mpmc

namespace OpenFGAVerif.Proofs.Mpmc
open OpenFGAVerif.Model.Mpmc

/-! ### arithmetic of ring indices -/

theorem succ_mod_ne (c p : Nat) (h : 2 ≤ c) : (p + 1) % c ≠ p % c := by
  have hr : p % c < c := Nat.mod_lt _ (by omega)
  rw [Nat.add_mod, Nat.mod_eq_of_lt (show 1 < c by omega)]
  by_cases h1 : p % c + 1 < c
  · rw [Nat.mod_eq_of_lt h1]; omega
  · have : p % c + 1 = c := by omega
    rw [this, Nat.mod_self]; omega

/-- two positions that share a slot cannot be neighbours -/
theorem alias1 {c a b : Nat} (h : 2 ≤ c) (e : a % c = b % c) (hb : b = a + 1) : False := by
  subst hb; exact succ_mod_ne c a h e.symm

/-- ... nor one lap minus one apart -/
theorem alias2 {c a b : Nat} (h : 2 ≤ c) (e : a % c = b % c) (hb : a + c = b + 1) : False := by
  have : (b + 1) % c = a % c := by rw [← hb, Nat.add_mod_right]
  exact succ_mod_ne c b h (by rw [this, e])

/-! ### the invariant -/

/-- senders past the `done` test of the current loop iteration -/
def sDeep : Pc → Bool
  | .sReload .. | .sCas .. | .sWrite .. | .sPub .. | .sSig .. => true
  | _ => false

/-- position owned by a sender between its head CAS and its publish -/
def sOwn : Pc → Option Nat
  | .sWrite p _ | .sPub p _ => some p
  | _ => none

/-- position owned by a receiver between its tail CAS and its recycle -/
def rOwn : Pc → Option Nat
  | .rRead q | .rZero q _ | .rRecycle q _ => some q
  | _ => none

abbrev sq (s : State) (p : Nat) : Nat := (s.slots (p % s.cap)).seq
abbrev dt (s : State) (p : Nat) : Val := (s.slots (p % s.cap)).data

structure Inv (s : State) : Prop where
  cap2 : 2 ≤ s.cap
  csNodup : s.cs.Nodup
  csIff : ∀ t, t ∈ s.cs ↔ (s.pc t).inCS = true
  ht : s.tail ≤ s.head
  len : s.sent.length = s.off + s.head
  doneDeep : s.done = true → ∀ t, sDeep (s.pc t) = false
  sPosL : ∀ t p v, s.pc t = .sLoop p v → p ≤ s.head
  sPosC : ∀ t p v, s.pc t = .sCas p v → p ≤ s.head ∧ (s.head = p → sq s p = p)
  rPosL : ∀ t p, s.pc t = .rLoop p → p ≤ s.tail
  rPosC : ∀ t p, s.pc t = .rCas p → p ≤ s.tail ∧ (s.tail = p → sq s p = p + 1)
  sOwnW : ∀ t p v, s.pc t = .sWrite p v →
    s.tail ≤ p ∧ p < s.head ∧ sq s p = p ∧ s.sent[s.off + p]? = some v
  sOwnP : ∀ t p v, s.pc t = .sPub p v →
    s.tail ≤ p ∧ p < s.head ∧ sq s p = p ∧ s.sent[s.off + p]? = some v ∧ dt s p = v
  rOwnR : ∀ t q, s.pc t = .rRead q →
    q < s.tail ∧ sq s q = q + 1 ∧ s.sent[s.off + q]? = some (dt s q)
  rOwnZ : ∀ t q v, (s.pc t = .rZero q v ∨ s.pc t = .rRecycle q v) →
    q < s.tail ∧ sq s q = q + 1 ∧ s.sent[s.off + q]? = some v
  sUniq : ∀ t1 t2 p, sOwn (s.pc t1) = some p → sOwn (s.pc t2) = some p → t1 = t2
  rUniq : ∀ t1 t2 q, rOwn (s.pc t1) = some q → rOwn (s.pc t2) = some q → t1 = t2
  queue : ∀ p, s.tail ≤ p → p < s.head →
    (sq s p = p + 1 ∧ s.sent[s.off + p]? = some (dt s p)) ∨ (sq s p = p ∧ ∃ t, sOwn (s.pc t) = some p)
  free : ∀ p, s.head ≤ p → sq s p ≠ p + 1
  old : ∀ p, p < s.tail → p + 1 ≤ sq s p


/-! ### reader-set bookkeeping -/

theorem cs_setPc {s : State} (h : Inv s) (t : Tid) (p' : Pc) (hin : p'.inCS = (s.pc t).inCS) :
    ∀ t', t' ∈ s.cs ↔ (upd s.pc t p' t').inCS = true := by
  intro t'
  by_cases e : t' = t
  · subst e; simp only [upd, if_pos]; rw [hin]; exact h.csIff t'
  · simp only [upd, e, if_false]; exact h.csIff t'

theorem cs_enter {s : State} (h : Inv s) (t : Tid) (p' : Pc) (h0 : (s.pc t).inCS = false)
    (h1 : p'.inCS = true) :
    (t :: s.cs).Nodup ∧ ∀ t', t' ∈ t :: s.cs ↔ (upd s.pc t p' t').inCS = true := by
  have hn : t ∉ s.cs := fun m => by have := (h.csIff t).1 m; simp [h0] at this
  refine ⟨List.nodup_cons.2 ⟨hn, h.csNodup⟩, ?_⟩
  intro t'
  by_cases e : t' = t
  · subst e; simp [upd, h1]
  · simp only [upd, e, if_false, List.mem_cons, false_or]; exact h.csIff t'

theorem cs_leave {s : State} (h : Inv s) (t : Tid) (p' : Pc) (h1 : p'.inCS = false) :
    (s.cs.erase t).Nodup ∧ ∀ t', t' ∈ s.cs.erase t ↔ (upd s.pc t p' t').inCS = true := by
  refine ⟨h.csNodup.erase t, ?_⟩
  intro t'
  rw [h.csNodup.mem_erase_iff]
  by_cases e : t' = t
  · subst e; simp [upd, h1]
  · simp only [upd, e, if_false, ne_eq, not_false_eq_true, true_and]; exact h.csIff t'

/-! ### steps that change only `pc t` (to a non-owner point), the reader set, tokens, flags, log -/

/-- what must hold of the new program point -/
structure NewOk (s : State) (p' : Pc) : Prop where
  deep : s.done = true → sDeep p' = false
  sL : ∀ p v, p' = .sLoop p v → p ≤ s.head
  sC : ∀ p v, p' = .sCas p v → p ≤ s.head ∧ (s.head = p → sq s p = p)
  rL : ∀ p, p' = .rLoop p → p ≤ s.tail
  rC : ∀ p, p' = .rCas p → p ≤ s.tail ∧ (s.tail = p → sq s p = p + 1)
  sO : sOwn p' = none
  rO : rOwn p' = none

/-- `s'` differs from `s` at most in `pc t`, `cs`, tokens, `cancelled`, `panicked`, `taken`, `log` -/
structure Local (s s' : State) (t : Tid) (p' : Pc) : Prop where
  slots : s'.slots = s.slots
  cap : s'.cap = s.cap
  head : s'.head = s.head
  tail : s'.tail = s.tail
  done : s'.done = s.done
  sent : s'.sent = s.sent
  off : s'.off = s.off
  pc : s'.pc = upd s.pc t p'

theorem inv_local {s s' : State} {t : Tid} {p' : Pc} (h : Inv s) (l : Local s s' t p')
    (n : NewOk s p') (hso : sOwn (s.pc t) = none) (hro : rOwn (s.pc t) = none)
    (hcs : s'.cs.Nodup ∧ ∀ t', t' ∈ s'.cs ↔ (upd s.pc t p' t').inCS = true) : Inv s' := by
  obtain ⟨l1, l2, l3, l4, l5, l6, l7, l8⟩ := l
  have pcne : ∀ t', t' ≠ t → upd s.pc t p' t' = s.pc t' := fun t' e => by simp [upd, e]
  have pceq : upd s.pc t p' t = p' := by simp [upd]
  constructor <;> (try simp only [sq, dt, l1, l2, l3, l4, l5, l6, l7, l8])
  · exact h.cap2
  · exact hcs.1
  · exact hcs.2
  · exact h.ht
  · exact h.len
  · intro hd t'
    by_cases e : t' = t
    · subst e; rw [pceq]; exact n.deep hd
    · rw [pcne _ e]; exact h.doneDeep hd t'
  · intro t' p v
    by_cases e : t' = t
    · subst e; rw [pceq]; exact n.sL p v
    · rw [pcne _ e]; exact h.sPosL t' p v
  · intro t' p v
    by_cases e : t' = t
    · subst e; rw [pceq]; exact n.sC p v
    · rw [pcne _ e]; exact h.sPosC t' p v
  · intro t' p
    by_cases e : t' = t
    · subst e; rw [pceq]; exact n.rL p
    · rw [pcne _ e]; exact h.rPosL t' p
  · intro t' p
    by_cases e : t' = t
    · subst e; rw [pceq]; exact n.rC p
    · rw [pcne _ e]; exact h.rPosC t' p
  · intro t' p v
    by_cases e : t' = t
    · subst e; rw [pceq]; intro e2; have := n.sO; rw [e2] at this; simp [sOwn] at this
    · rw [pcne _ e]; exact h.sOwnW t' p v
  · intro t' p v
    by_cases e : t' = t
    · subst e; rw [pceq]; intro e2; have := n.sO; rw [e2] at this; simp [sOwn] at this
    · rw [pcne _ e]; exact h.sOwnP t' p v
  · intro t' q
    by_cases e : t' = t
    · subst e; rw [pceq]; intro e2; have := n.rO; rw [e2] at this; simp [rOwn] at this
    · rw [pcne _ e]; exact h.rOwnR t' q
  · intro t' q v
    by_cases e : t' = t
    · subst e; rw [pceq]; intro e2; have := n.rO; rcases e2 with e2 | e2 <;> rw [e2] at this <;> simp [rOwn] at this
    · rw [pcne _ e]; exact h.rOwnZ t' q v
  · intro t1 t2 p e1 e2
    by_cases a : t1 = t
    · subst a; rw [pceq, n.sO] at e1; simp at e1
    · by_cases b : t2 = t
      · subst b; rw [pceq, n.sO] at e2; simp at e2
      · rw [pcne _ a] at e1; rw [pcne _ b] at e2; exact h.sUniq t1 t2 p e1 e2
  · intro t1 t2 p e1 e2
    by_cases a : t1 = t
    · subst a; rw [pceq, n.rO] at e1; simp at e1
    · by_cases b : t2 = t
      · subst b; rw [pceq, n.rO] at e2; simp at e2
      · rw [pcne _ a] at e1; rw [pcne _ b] at e2; exact h.rUniq t1 t2 p e1 e2
  · intro p hp1 hp2
    rcases h.queue p hp1 hp2 with q | ⟨q1, t', q2⟩
    · exact Or.inl q
    · refine Or.inr ⟨q1, t', ?_⟩
      have : t' ≠ t := fun e => by subst e; rw [hso] at q2; simp at q2
      rw [pcne _ this]; exact q2
  · exact h.free
  · exact h.old


/-! ### the steps that touch head, tail or a slot -/

theorem inv_sCas {s : State} {t : Tid} {pos : Nat} {v : Val} (h : Inv s)
    (hpc : s.pc t = .sCas pos v) (hh : s.head = pos) :
    Inv { setPc s t (.sWrite pos v) with head := pos + 1, sent := s.sent ++ [v], sentT := s.sentT ++ [t] } := by
  obtain ⟨_, hsq⟩ := h.sPosC t pos v hpc
  have hsq := hsq hh
  subst hh
  have c2 := h.cap2
  have hlen := h.len
  have hht := h.ht
  have pcne : ∀ t', t' ≠ t → upd s.pc t (.sWrite s.head v) t' = s.pc t' := fun t' e => by simp [upd, e]
  have pceq : upd s.pc t (.sWrite s.head v) t = .sWrite s.head v := by simp [upd]
  have sentOld : ∀ k, k < s.off + s.head → (s.sent ++ [v])[k]? = s.sent[k]? := fun k hk =>
    List.getElem?_append_left (by omega)
  constructor <;> (try simp only [setPc, sq, dt])
  · exact c2
  · exact h.csNodup
  · exact cs_setPc h t _ (by simp [hpc, Pc.inCS])
  · omega
  · simp [hlen]; omega
  · intro hd; have := h.doneDeep hd t; simp [hpc, sDeep] at this
  · intro t' p v' e
    by_cases a : t' = t
    · subst a; simp [pceq] at e
    · rw [pcne _ a] at e; have := h.sPosL t' p v' e; omega
  · intro t' p v' e
    by_cases a : t' = t
    · subst a; simp [pceq] at e
    · rw [pcne _ a] at e; have := (h.sPosC t' p v' e).1; constructor <;> omega
  · intro t' p e
    by_cases a : t' = t
    · subst a; simp [pceq] at e
    · rw [pcne _ a] at e; exact h.rPosL t' p e
  · intro t' p e
    by_cases a : t' = t
    · subst a; simp [pceq] at e
    · rw [pcne _ a] at e; exact h.rPosC t' p e
  · intro t' p v' e
    by_cases a : t' = t
    · subst a; rw [pceq] at e; injection e with e1 e2; subst e1 e2
      refine ⟨hht, by omega, hsq, ?_⟩
      rw [List.getElem?_append_right (by omega)]; simp [hlen]
    · rw [pcne _ a] at e; obtain ⟨h1, h2, h3, h4⟩ := h.sOwnW t' p v' e
      exact ⟨h1, by omega, h3, by rw [sentOld _ (by omega)]; exact h4⟩
  · intro t' p v' e
    by_cases a : t' = t
    · subst a; simp [pceq] at e
    · rw [pcne _ a] at e; obtain ⟨h1, h2, h3, h4, h5⟩ := h.sOwnP t' p v' e
      exact ⟨h1, by omega, h3, by rw [sentOld _ (by omega)]; exact h4, h5⟩
  · intro t' q e
    by_cases a : t' = t
    · subst a; simp [pceq] at e
    · rw [pcne _ a] at e; obtain ⟨h1, h2, h3⟩ := h.rOwnR t' q e
      exact ⟨h1, h2, by rw [sentOld _ (by omega)]; exact h3⟩
  · intro t' q v' e
    by_cases a : t' = t
    · subst a; simp [pceq] at e
    · rw [pcne _ a] at e; obtain ⟨h1, h2, h3⟩ := h.rOwnZ t' q v' e
      exact ⟨h1, h2, by rw [sentOld _ (by omega)]; exact h3⟩
  · intro t1 t2 p e1 e2
    have key : ∀ t', t' ≠ t → sOwn (s.pc t') = some p → p < s.head := by
      intro t' _ e
      cases hp : s.pc t' <;> rw [hp] at e <;> simp [sOwn] at e
      · subst e; exact (h.sOwnW t' _ _ hp).2.1
      · subst e; exact (h.sOwnP t' _ _ hp).2.1
    by_cases a : t1 = t
    · by_cases b : t2 = t
      · rw [a, b]
      · subst a; rw [pceq] at e1; simp [sOwn] at e1; rw [pcne _ b] at e2
        have := key t2 b e2; omega
    · by_cases b : t2 = t
      · subst b; rw [pceq] at e2; simp [sOwn] at e2; rw [pcne _ a] at e1
        have := key t1 a e1; omega
      · rw [pcne _ a] at e1; rw [pcne _ b] at e2; exact h.sUniq t1 t2 p e1 e2
  · intro t1 t2 p e1 e2
    by_cases a : t1 = t
    · subst a; rw [pceq] at e1; simp [rOwn] at e1
    · by_cases b : t2 = t
      · subst b; rw [pceq] at e2; simp [rOwn] at e2
      · rw [pcne _ a] at e1; rw [pcne _ b] at e2; exact h.rUniq t1 t2 p e1 e2
  · intro p hp1 hp2
    by_cases hp : p = s.head
    · subst hp; exact Or.inr ⟨hsq, t, by simp [pceq, sOwn]⟩
    · rcases h.queue p hp1 (by omega) with ⟨q1, q2⟩ | ⟨q1, t', q2⟩
      · exact Or.inl ⟨q1, by rw [sentOld _ (by omega)]; exact q2⟩
      · refine Or.inr ⟨q1, t', ?_⟩
        have : t' ≠ t := fun e => by subst e; rw [hpc] at q2; simp [sOwn] at q2
        rw [pcne _ this]; exact q2
  · intro p hp; exact h.free p (by omega)
  · exact h.old

theorem slot_eq {f : Nat → Slot} {i : Nat} {c : Slot} : upd f i c i = c := by simp [upd]
theorem slot_ne {f : Nat → Slot} {i j : Nat} {c : Slot} (e : j ≠ i) : upd f i c j = f j := by simp [upd, e]

theorem inv_sWrite {s : State} {t : Tid} {pos : Nat} {v : Val} (h : Inv s)
    (hpc : s.pc t = .sWrite pos v) :
    Inv (setPc (setSlot s (pos % s.cap) { s.slots (pos % s.cap) with data := v }) t (.sPub pos v)) := by
  obtain ⟨o1, o2, o3, o4⟩ := h.sOwnW t pos v hpc
  have c2 := h.cap2
  have pcne : ∀ t', t' ≠ t → upd s.pc t (.sPub pos v) t' = s.pc t' := fun t' e => by simp [upd, e]
  have pceq : upd s.pc t (.sPub pos v) t = .sPub pos v := by simp [upd]
  have sown : ∀ t', sOwn (upd s.pc t (.sPub pos v) t') = sOwn (s.pc t') := by
    intro t'; by_cases a : t' = t
    · subst a; rw [pceq, hpc]; rfl
    · rw [pcne _ a]
  have rown : ∀ t', rOwn (upd s.pc t (.sPub pos v) t') = rOwn (s.pc t') := by
    intro t'; by_cases a : t' = t
    · subst a; rw [pceq, hpc]; rfl
    · rw [pcne _ a]
  have seqs : ∀ j, (upd s.slots (pos % s.cap) { s.slots (pos % s.cap) with data := v } j).seq = (s.slots j).seq := by
    intro j; by_cases e : j = pos % s.cap
    · subst e; simp [upd]
    · rw [slot_ne e]
  have datas : ∀ j, j ≠ pos % s.cap →
      (upd s.slots (pos % s.cap) { s.slots (pos % s.cap) with data := v } j).data = (s.slots j).data := by
    intro j e; rw [slot_ne e]
  constructor <;> (try simp only [setPc, setSlot, sq, dt, seqs])
  · exact c2
  · exact h.csNodup
  · exact cs_setPc h t _ (by simp [hpc, Pc.inCS])
  · exact h.ht
  · exact h.len
  · intro hd; have := h.doneDeep hd t; simp [hpc, sDeep] at this
  · intro t' p v' e
    by_cases a : t' = t
    · subst a; simp [pceq] at e
    · rw [pcne _ a] at e; exact h.sPosL t' p v' e
  · intro t' p v' e
    by_cases a : t' = t
    · subst a; simp [pceq] at e
    · rw [pcne _ a] at e; exact h.sPosC t' p v' e
  · intro t' p e
    by_cases a : t' = t
    · subst a; simp [pceq] at e
    · rw [pcne _ a] at e; exact h.rPosL t' p e
  · intro t' p e
    by_cases a : t' = t
    · subst a; simp [pceq] at e
    · rw [pcne _ a] at e; exact h.rPosC t' p e
  · intro t' p v' e
    by_cases a : t' = t
    · subst a; simp [pceq] at e
    · rw [pcne _ a] at e; exact h.sOwnW t' p v' e
  · intro t' p v' e
    by_cases a : t' = t
    · subst a; rw [pceq] at e; injection e with e1 e2; subst e1 e2
      exact ⟨o1, o2, o3, o4, by simp [upd]⟩
    · rw [pcne _ a] at e; obtain ⟨h1, h2, h3, h4, h5⟩ := h.sOwnP t' p v' e
      refine ⟨h1, h2, h3, h4, ?_⟩
      by_cases sl : p % s.cap = pos % s.cap
      · exfalso; rw [sq, sl] at h3; rw [sq] at o3
        have : p = pos := by omega
        subst this
        exact a (h.sUniq t' t p (by simp [e, sOwn]) (by simp [hpc, sOwn]))
      · rw [datas _ sl]; exact h5
  · intro t' q e
    by_cases a : t' = t
    · subst a; simp [pceq] at e
    · rw [pcne _ a] at e; obtain ⟨h1, h2, h3⟩ := h.rOwnR t' q e
      refine ⟨h1, h2, ?_⟩
      by_cases sl : q % s.cap = pos % s.cap
      · exfalso; rw [sq, sl] at h2; rw [sq] at o3
        exact alias1 c2 sl (by omega)
      · rw [datas _ sl]; exact h3
  · intro t' q v' e
    have e' : s.pc t' = .rZero q v' ∨ s.pc t' = .rRecycle q v' := by
      by_cases a : t' = t
      · subst a; simp [pceq] at e
      · rw [pcne _ a] at e; exact e
    exact h.rOwnZ t' q v' e'
  · intro t1 t2 p e1 e2; rw [sown] at e1 e2; exact h.sUniq t1 t2 p e1 e2
  · intro t1 t2 p e1 e2; rw [rown] at e1 e2; exact h.rUniq t1 t2 p e1 e2
  · intro p hp1 hp2
    rcases h.queue p hp1 hp2 with ⟨q1, q2⟩ | ⟨q1, t', q2⟩
    · refine Or.inl ⟨q1, ?_⟩
      by_cases sl : p % s.cap = pos % s.cap
      · exfalso; rw [sq, sl] at q1; rw [sq] at o3
        exact alias1 c2 sl (by omega)
      · rw [datas _ sl]; exact q2
    · exact Or.inr ⟨q1, t', by rw [sown]; exact q2⟩
  · exact h.free
  · exact h.old

theorem inv_sPub {s : State} {t : Tid} {pos : Nat} {v : Val} (h : Inv s)
    (hpc : s.pc t = .sPub pos v) :
    Inv (setPc (setSlot s (pos % s.cap) { s.slots (pos % s.cap) with seq := pos + 1 }) t (.sSig v)) := by
  obtain ⟨o1, o2, o3, o4, o5⟩ := h.sOwnP t pos v hpc
  rw [sq] at o3
  have c2 := h.cap2
  have pcne : ∀ t', t' ≠ t → upd s.pc t (.sSig v) t' = s.pc t' := fun t' e => by simp [upd, e]
  have pceq : upd s.pc t (.sSig v) t = .sSig v := by simp [upd]
  have seqE : (upd s.slots (pos % s.cap) { s.slots (pos % s.cap) with seq := pos + 1 } (pos % s.cap)).seq = pos + 1 := by
    simp [upd]
  have seqN : ∀ j, j ≠ pos % s.cap →
      (upd s.slots (pos % s.cap) { s.slots (pos % s.cap) with seq := pos + 1 } j).seq = (s.slots j).seq := by
    intro j e; rw [slot_ne e]
  have datas : ∀ j, (upd s.slots (pos % s.cap) { s.slots (pos % s.cap) with seq := pos + 1 } j).data = (s.slots j).data := by
    intro j; by_cases e : j = pos % s.cap
    · subst e; simp [upd]
    · rw [slot_ne e]
  constructor <;> (try simp only [setPc, setSlot, sq, dt, datas])
  · exact c2
  · exact h.csNodup
  · exact cs_setPc h t _ (by simp [hpc, Pc.inCS])
  · exact h.ht
  · exact h.len
  · intro hd; have := h.doneDeep hd t; simp [hpc, sDeep] at this
  · intro t' p v' e
    by_cases a : t' = t
    · subst a; simp [pceq] at e
    · rw [pcne _ a] at e; exact h.sPosL t' p v' e
  · intro t' p v' e
    by_cases a : t' = t
    · subst a; simp [pceq] at e
    · rw [pcne _ a] at e; obtain ⟨h1, h2⟩ := h.sPosC t' p v' e
      refine ⟨h1, fun hh => ?_⟩
      have h2 := h2 hh; rw [sq] at h2
      by_cases sl : p % s.cap = pos % s.cap
      · exfalso; rw [sl] at h2; omega
      · rw [seqN _ sl]; exact h2
  · intro t' p e
    by_cases a : t' = t
    · subst a; simp [pceq] at e
    · rw [pcne _ a] at e; exact h.rPosL t' p e
  · intro t' p e
    by_cases a : t' = t
    · subst a; simp [pceq] at e
    · rw [pcne _ a] at e; obtain ⟨h1, h2⟩ := h.rPosC t' p e
      refine ⟨h1, fun hh => ?_⟩
      have h2 := h2 hh; rw [sq] at h2
      by_cases sl : p % s.cap = pos % s.cap
      · exfalso; rw [sl] at h2; exact alias1 c2 sl (by omega)
      · rw [seqN _ sl]; exact h2
  · intro t' p v' e
    by_cases a : t' = t
    · subst a; simp [pceq] at e
    · rw [pcne _ a] at e; obtain ⟨h1, h2, h3, h4⟩ := h.sOwnW t' p v' e
      refine ⟨h1, h2, ?_, h4⟩
      rw [sq] at h3
      by_cases sl : p % s.cap = pos % s.cap
      · exfalso; rw [sl] at h3
        have : p = pos := by omega
        subst this
        exact a (h.sUniq t' t p (by simp [e, sOwn]) (by simp [hpc, sOwn]))
      · rw [seqN _ sl]; exact h3
  · intro t' p v' e
    by_cases a : t' = t
    · subst a; simp [pceq] at e
    · rw [pcne _ a] at e; obtain ⟨h1, h2, h3, h4, h5⟩ := h.sOwnP t' p v' e
      refine ⟨h1, h2, ?_, h4, h5⟩
      rw [sq] at h3
      by_cases sl : p % s.cap = pos % s.cap
      · exfalso; rw [sl] at h3
        have : p = pos := by omega
        subst this
        exact a (h.sUniq t' t p (by simp [e, sOwn]) (by simp [hpc, sOwn]))
      · rw [seqN _ sl]; exact h3
  · intro t' q e
    by_cases a : t' = t
    · subst a; simp [pceq] at e
    · rw [pcne _ a] at e; obtain ⟨h1, h2, h3⟩ := h.rOwnR t' q e
      refine ⟨h1, ?_, h3⟩
      rw [sq] at h2
      by_cases sl : q % s.cap = pos % s.cap
      · exfalso; rw [sl] at h2; exact alias1 c2 sl (by omega)
      · rw [seqN _ sl]; exact h2
  · intro t' q v' e
    have e' : s.pc t' = .rZero q v' ∨ s.pc t' = .rRecycle q v' := by
      by_cases a : t' = t
      · subst a; simp [pceq] at e
      · rw [pcne _ a] at e; exact e
    obtain ⟨h1, h2, h3⟩ := h.rOwnZ t' q v' e'
    refine ⟨h1, ?_, h3⟩
    rw [sq] at h2
    by_cases sl : q % s.cap = pos % s.cap
    · exfalso; rw [sl] at h2; exact alias1 c2 sl (by omega)
    · rw [seqN _ sl]; exact h2
  · intro t1 t2 p e1 e2
    by_cases a : t1 = t
    · subst a; rw [pceq] at e1; simp [sOwn] at e1
    · by_cases b : t2 = t
      · subst b; rw [pceq] at e2; simp [sOwn] at e2
      · rw [pcne _ a] at e1; rw [pcne _ b] at e2; exact h.sUniq t1 t2 p e1 e2
  · intro t1 t2 p e1 e2
    by_cases a : t1 = t
    · subst a; rw [pceq] at e1; simp [rOwn] at e1
    · by_cases b : t2 = t
      · subst b; rw [pceq] at e2; simp [rOwn] at e2
      · rw [pcne _ a] at e1; rw [pcne _ b] at e2; exact h.rUniq t1 t2 p e1 e2
  · intro p hp1 hp2
    by_cases hp : p = pos
    · subst hp; exact Or.inl ⟨seqE, by rw [dt] at o5; rw [o5]; exact o4⟩
    · by_cases sl : p % s.cap = pos % s.cap
      · exfalso
        rcases h.queue p hp1 hp2 with ⟨q1, _⟩ | ⟨q1, _⟩ <;> rw [sq, sl] at q1
        · exact alias1 c2 sl (by omega)
        · omega
      · rw [seqN _ sl]
        rcases h.queue p hp1 hp2 with q | ⟨q1, t', q2⟩
        · exact Or.inl q
        · refine Or.inr ⟨q1, t', ?_⟩
          have : t' ≠ t := fun e => by subst e; rw [hpc] at q2; simp [sOwn] at q2; exact hp q2.symm
          rw [pcne _ this]; exact q2
  · intro p hp
    by_cases sl : p % s.cap = pos % s.cap
    · rw [sl, seqE]; omega
    · rw [seqN _ sl]; exact h.free p hp
  · intro p hp
    by_cases sl : p % s.cap = pos % s.cap
    · rw [sl, seqE]; have := h.old p hp; rw [sq, sl] at this; omega
    · rw [seqN _ sl]; exact h.old p hp

theorem inv_rCas {s : State} {t : Tid} {pos : Nat} (h : Inv s)
    (hpc : s.pc t = .rCas pos) (hh : s.tail = pos) :
    Inv { setPc s t (.rRead pos) with tail := pos + 1 } := by
  obtain ⟨_, hsq⟩ := h.rPosC t pos hpc
  have hsq := hsq hh
  subst hh
  have c2 := h.cap2
  have hlt : s.tail < s.head := by
    have := h.ht
    by_cases e : s.head ≤ s.tail
    · exact absurd hsq (h.free _ e)
    · omega
  have pcne : ∀ t', t' ≠ t → upd s.pc t (.rRead s.tail) t' = s.pc t' := fun t' e => by simp [upd, e]
  have pceq : upd s.pc t (.rRead s.tail) t = .rRead s.tail := by simp [upd]
  rw [sq] at hsq
  constructor <;> (try simp only [setPc, sq, dt])
  · exact c2
  · exact h.csNodup
  · exact cs_setPc h t _ (by simp [hpc, Pc.inCS])
  · omega
  · exact h.len
  · intro hd t'
    by_cases a : t' = t
    · subst a; simp [pceq, sDeep]
    · rw [pcne _ a]; exact h.doneDeep hd t'
  · intro t' p v' e
    by_cases a : t' = t
    · subst a; simp [pceq] at e
    · rw [pcne _ a] at e; exact h.sPosL t' p v' e
  · intro t' p v' e
    by_cases a : t' = t
    · subst a; simp [pceq] at e
    · rw [pcne _ a] at e; exact h.sPosC t' p v' e
  · intro t' p e
    by_cases a : t' = t
    · subst a; simp [pceq] at e
    · rw [pcne _ a] at e; have := h.rPosL t' p e; omega
  · intro t' p e
    by_cases a : t' = t
    · subst a; simp [pceq] at e
    · rw [pcne _ a] at e; have := (h.rPosC t' p e).1; constructor <;> omega
  · intro t' p v' e
    by_cases a : t' = t
    · subst a; simp [pceq] at e
    · rw [pcne _ a] at e; obtain ⟨h1, h2, h3, h4⟩ := h.sOwnW t' p v' e
      refine ⟨?_, h2, h3, h4⟩
      by_cases e2 : p = s.tail
      · subst e2; rw [sq] at h3; omega
      · omega
  · intro t' p v' e
    by_cases a : t' = t
    · subst a; simp [pceq] at e
    · rw [pcne _ a] at e; obtain ⟨h1, h2, h3, h4, h5⟩ := h.sOwnP t' p v' e
      refine ⟨?_, h2, h3, h4, h5⟩
      by_cases e2 : p = s.tail
      · subst e2; rw [sq] at h3; omega
      · omega
  · intro t' q e
    by_cases a : t' = t
    · subst a; rw [pceq] at e; injection e with e1; subst e1
      refine ⟨by omega, hsq, ?_⟩
      rcases h.queue s.tail (Nat.le_refl _) hlt with ⟨_, q2⟩ | ⟨q1, _⟩
      · exact q2
      · rw [sq] at q1; omega
    · rw [pcne _ a] at e; obtain ⟨h1, h2, h3⟩ := h.rOwnR t' q e
      exact ⟨by omega, h2, h3⟩
  · intro t' q v' e
    have e' : s.pc t' = .rZero q v' ∨ s.pc t' = .rRecycle q v' := by
      by_cases a : t' = t
      · subst a; simp [pceq] at e
      · rw [pcne _ a] at e; exact e
    obtain ⟨h1, h2, h3⟩ := h.rOwnZ t' q v' e'
    exact ⟨by omega, h2, h3⟩
  · intro t1 t2 p e1 e2
    by_cases a : t1 = t
    · subst a; rw [pceq] at e1; simp [sOwn] at e1
    · by_cases b : t2 = t
      · subst b; rw [pceq] at e2; simp [sOwn] at e2
      · rw [pcne _ a] at e1; rw [pcne _ b] at e2; exact h.sUniq t1 t2 p e1 e2
  · intro t1 t2 p e1 e2
    have key : ∀ t', t' ≠ t → rOwn (s.pc t') = some p → p < s.tail := by
      intro t' _ e
      cases hp : s.pc t' <;> rw [hp] at e <;> simp [rOwn] at e
      · subst e; exact (h.rOwnR t' _ hp).1
      · subst e; exact (h.rOwnZ t' _ _ (Or.inl hp)).1
      · subst e; exact (h.rOwnZ t' _ _ (Or.inr hp)).1
    by_cases a : t1 = t
    · by_cases b : t2 = t
      · rw [a, b]
      · subst a; rw [pceq] at e1; simp [rOwn] at e1; rw [pcne _ b] at e2
        have := key t2 b e2; omega
    · by_cases b : t2 = t
      · subst b; rw [pceq] at e2; simp [rOwn] at e2; rw [pcne _ a] at e1
        have := key t1 a e1; omega
      · rw [pcne _ a] at e1; rw [pcne _ b] at e2; exact h.rUniq t1 t2 p e1 e2
  · intro p hp1 hp2
    rcases h.queue p (by omega) hp2 with q | ⟨q1, t', q2⟩
    · exact Or.inl q
    · refine Or.inr ⟨q1, t', ?_⟩
      have : t' ≠ t := fun e => by subst e; rw [hpc] at q2; simp [sOwn] at q2
      rw [pcne _ this]; exact q2
  · exact h.free
  · intro p hp
    by_cases e : p = s.tail
    · subst e; omega
    · exact h.old p (by omega)

theorem inv_rRead {s : State} {t : Tid} {pos : Nat} (h : Inv s) (hpc : s.pc t = .rRead pos) :
    Inv { setPc s t (.rZero pos (s.slots (pos % s.cap)).data) with
          taken := s.taken ++ [(t, s.off + pos, (s.slots (pos % s.cap)).data)] } := by
  obtain ⟨o1, o2, o3⟩ := h.rOwnR t pos hpc
  rw [dt] at o3
  generalize hv : (s.slots (pos % s.cap)).data = v at *
  have pcne : ∀ t', t' ≠ t → upd s.pc t (.rZero pos v) t' = s.pc t' := fun t' e => by simp [upd, e]
  have pceq : upd s.pc t (.rZero pos v) t = .rZero pos v := by simp [upd]
  have sown : ∀ t', sOwn (upd s.pc t (.rZero pos v) t') = sOwn (s.pc t') := by
    intro t'; by_cases a : t' = t
    · subst a; rw [pceq, hpc]; rfl
    · rw [pcne _ a]
  have rown : ∀ t', rOwn (upd s.pc t (.rZero pos v) t') = rOwn (s.pc t') := by
    intro t'; by_cases a : t' = t
    · subst a; rw [pceq, hpc]; rfl
    · rw [pcne _ a]
  constructor <;> (try simp only [setPc, sq, dt])
  · exact h.cap2
  · exact h.csNodup
  · exact cs_setPc h t _ (by simp [hpc, Pc.inCS])
  · exact h.ht
  · exact h.len
  · intro hd t'
    by_cases a : t' = t
    · subst a; simp [pceq, sDeep]
    · rw [pcne _ a]; exact h.doneDeep hd t'
  · intro t' p v' e
    by_cases a : t' = t
    · subst a; simp [pceq] at e
    · rw [pcne _ a] at e; exact h.sPosL t' p v' e
  · intro t' p v' e
    by_cases a : t' = t
    · subst a; simp [pceq] at e
    · rw [pcne _ a] at e; exact h.sPosC t' p v' e
  · intro t' p e
    by_cases a : t' = t
    · subst a; simp [pceq] at e
    · rw [pcne _ a] at e; exact h.rPosL t' p e
  · intro t' p e
    by_cases a : t' = t
    · subst a; simp [pceq] at e
    · rw [pcne _ a] at e; exact h.rPosC t' p e
  · intro t' p v' e
    by_cases a : t' = t
    · subst a; simp [pceq] at e
    · rw [pcne _ a] at e; exact h.sOwnW t' p v' e
  · intro t' p v' e
    by_cases a : t' = t
    · subst a; simp [pceq] at e
    · rw [pcne _ a] at e; exact h.sOwnP t' p v' e
  · intro t' q e
    by_cases a : t' = t
    · subst a; simp [pceq] at e
    · rw [pcne _ a] at e; exact h.rOwnR t' q e
  · intro t' q v' e
    by_cases a : t' = t
    · subst a; rw [pceq] at e; simp at e; obtain ⟨e1, e2⟩ := e; subst e1 e2
      exact ⟨o1, o2, o3⟩
    · rw [pcne _ a] at e; exact h.rOwnZ t' q v' e
  · intro t1 t2 p e1 e2; rw [sown] at e1 e2; exact h.sUniq t1 t2 p e1 e2
  · intro t1 t2 p e1 e2; rw [rown] at e1 e2; exact h.rUniq t1 t2 p e1 e2
  · intro p hp1 hp2
    rcases h.queue p hp1 hp2 with q | ⟨q1, t', q2⟩
    · exact Or.inl q
    · exact Or.inr ⟨q1, t', by rw [sown]; exact q2⟩
  · exact h.free
  · exact h.old

theorem inv_rZero {s : State} {t : Tid} {pos : Nat} {v : Val} (h : Inv s)
    (hpc : s.pc t = .rZero pos v) :
    Inv (setPc (setSlot s (pos % s.cap) { s.slots (pos % s.cap) with data := 0 }) t (.rRecycle pos v)) := by
  obtain ⟨o1, o2, o3⟩ := h.rOwnZ t pos v (Or.inl hpc)
  rw [sq] at o2
  have c2 := h.cap2
  have pcne : ∀ t', t' ≠ t → upd s.pc t (.rRecycle pos v) t' = s.pc t' := fun t' e => by simp [upd, e]
  have pceq : upd s.pc t (.rRecycle pos v) t = .rRecycle pos v := by simp [upd]
  have sown : ∀ t', sOwn (upd s.pc t (.rRecycle pos v) t') = sOwn (s.pc t') := by
    intro t'; by_cases a : t' = t
    · subst a; rw [pceq, hpc]; rfl
    · rw [pcne _ a]
  have rown : ∀ t', rOwn (upd s.pc t (.rRecycle pos v) t') = rOwn (s.pc t') := by
    intro t'; by_cases a : t' = t
    · subst a; rw [pceq, hpc]; rfl
    · rw [pcne _ a]
  have seqs : ∀ j, (upd s.slots (pos % s.cap) { s.slots (pos % s.cap) with data := 0 } j).seq = (s.slots j).seq := by
    intro j; by_cases e : j = pos % s.cap
    · subst e; simp [upd]
    · rw [slot_ne e]
  have datas : ∀ j, j ≠ pos % s.cap →
      (upd s.slots (pos % s.cap) { s.slots (pos % s.cap) with data := 0 } j).data = (s.slots j).data := by
    intro j e; rw [slot_ne e]
  constructor <;> (try simp only [setPc, setSlot, sq, dt, seqs])
  · exact c2
  · exact h.csNodup
  · exact cs_setPc h t _ (by simp [hpc, Pc.inCS])
  · exact h.ht
  · exact h.len
  · intro hd t'
    by_cases a : t' = t
    · subst a; simp [pceq, sDeep]
    · rw [pcne _ a]; exact h.doneDeep hd t'
  · intro t' p v' e
    by_cases a : t' = t
    · subst a; simp [pceq] at e
    · rw [pcne _ a] at e; exact h.sPosL t' p v' e
  · intro t' p v' e
    by_cases a : t' = t
    · subst a; simp [pceq] at e
    · rw [pcne _ a] at e; exact h.sPosC t' p v' e
  · intro t' p e
    by_cases a : t' = t
    · subst a; simp [pceq] at e
    · rw [pcne _ a] at e; exact h.rPosL t' p e
  · intro t' p e
    by_cases a : t' = t
    · subst a; simp [pceq] at e
    · rw [pcne _ a] at e; exact h.rPosC t' p e
  · intro t' p v' e
    by_cases a : t' = t
    · subst a; simp [pceq] at e
    · rw [pcne _ a] at e; exact h.sOwnW t' p v' e
  · intro t' p v' e
    by_cases a : t' = t
    · subst a; simp [pceq] at e
    · rw [pcne _ a] at e; obtain ⟨h1, h2, h3, h4, h5⟩ := h.sOwnP t' p v' e
      refine ⟨h1, h2, h3, h4, ?_⟩
      by_cases sl : p % s.cap = pos % s.cap
      · exfalso; rw [sq, sl] at h3; exact alias1 c2 sl.symm (by omega)
      · rw [datas _ sl]; exact h5
  · intro t' q e
    by_cases a : t' = t
    · subst a; simp [pceq] at e
    · rw [pcne _ a] at e; obtain ⟨h1, h2, h3⟩ := h.rOwnR t' q e
      refine ⟨h1, h2, ?_⟩
      by_cases sl : q % s.cap = pos % s.cap
      · exfalso; rw [sq, sl] at h2
        have : q = pos := by omega
        subst this
        exact a (h.rUniq t' t q (by simp [e, rOwn]) (by simp [hpc, rOwn]))
      · rw [datas _ sl]; exact h3
  · intro t' q v' e
    by_cases a : t' = t
    · subst a; rw [pceq] at e; simp at e; obtain ⟨e1, e2⟩ := e; subst e1 e2
      exact ⟨o1, o2, o3⟩
    · rw [pcne _ a] at e; exact h.rOwnZ t' q v' e
  · intro t1 t2 p e1 e2; rw [sown] at e1 e2; exact h.sUniq t1 t2 p e1 e2
  · intro t1 t2 p e1 e2; rw [rown] at e1 e2; exact h.rUniq t1 t2 p e1 e2
  · intro p hp1 hp2
    rcases h.queue p hp1 hp2 with ⟨q1, q2⟩ | ⟨q1, t', q2⟩
    · refine Or.inl ⟨q1, ?_⟩
      by_cases sl : p % s.cap = pos % s.cap
      · exfalso; rw [sq, sl] at q1; omega
      · rw [datas _ sl]; exact q2
    · exact Or.inr ⟨q1, t', by rw [sown]; exact q2⟩
  · exact h.free
  · exact h.old

theorem inv_rRecycle {s : State} {t : Tid} {pos : Nat} {v : Val} (h : Inv s)
    (hpc : s.pc t = .rRecycle pos v) :
    Inv (setPc (setSlot s (pos % s.cap) { s.slots (pos % s.cap) with seq := pos + s.cap }) t (.rSig v)) := by
  obtain ⟨o1, o2, o3⟩ := h.rOwnZ t pos v (Or.inr hpc)
  rw [sq] at o2
  have c2 := h.cap2
  have pcne : ∀ t', t' ≠ t → upd s.pc t (.rSig v) t' = s.pc t' := fun t' e => by simp [upd, e]
  have pceq : upd s.pc t (.rSig v) t = .rSig v := by simp [upd]
  have seqE : (upd s.slots (pos % s.cap) { s.slots (pos % s.cap) with seq := pos + s.cap } (pos % s.cap)).seq = pos + s.cap := by
    simp [upd]
  have seqN : ∀ j, j ≠ pos % s.cap →
      (upd s.slots (pos % s.cap) { s.slots (pos % s.cap) with seq := pos + s.cap } j).seq = (s.slots j).seq := by
    intro j e; rw [slot_ne e]
  have datas : ∀ j, j ≠ pos % s.cap → (upd s.slots (pos % s.cap) { s.slots (pos % s.cap) with seq := pos + s.cap } j).data = (s.slots j).data := by
    intro j e; rw [slot_ne e]
  constructor <;> (try simp only [setPc, setSlot, sq, dt])
  · exact c2
  · exact h.csNodup
  · exact cs_setPc h t _ (by simp [hpc, Pc.inCS])
  · exact h.ht
  · exact h.len
  · intro hd t'
    by_cases a : t' = t
    · subst a; simp [pceq, sDeep]
    · rw [pcne _ a]; exact h.doneDeep hd t'
  · intro t' p v' e
    by_cases a : t' = t
    · subst a; simp [pceq] at e
    · rw [pcne _ a] at e; exact h.sPosL t' p v' e
  · intro t' p v' e
    by_cases a : t' = t
    · subst a; simp [pceq] at e
    · rw [pcne _ a] at e; obtain ⟨h1, h2⟩ := h.sPosC t' p v' e
      refine ⟨h1, fun hh => ?_⟩
      have h2 := h2 hh; rw [sq] at h2
      by_cases sl : p % s.cap = pos % s.cap
      · exfalso; rw [sl] at h2; exact alias1 c2 sl.symm (by omega)
      · rw [seqN _ sl]; exact h2
  · intro t' p e
    by_cases a : t' = t
    · subst a; simp [pceq] at e
    · rw [pcne _ a] at e; exact h.rPosL t' p e
  · intro t' p e
    by_cases a : t' = t
    · subst a; simp [pceq] at e
    · rw [pcne _ a] at e; obtain ⟨h1, h2⟩ := h.rPosC t' p e
      refine ⟨h1, fun hh => ?_⟩
      have h2 := h2 hh; rw [sq] at h2
      by_cases sl : p % s.cap = pos % s.cap
      · exfalso; rw [sl] at h2; omega
      · rw [seqN _ sl]; exact h2
  · intro t' p v' e
    by_cases a : t' = t
    · subst a; simp [pceq] at e
    · rw [pcne _ a] at e; obtain ⟨h1, h2, h3, h4⟩ := h.sOwnW t' p v' e
      refine ⟨h1, h2, ?_, h4⟩
      rw [sq] at h3
      by_cases sl : p % s.cap = pos % s.cap
      · exfalso; rw [sl] at h3; exact alias1 c2 sl.symm (by omega)
      · rw [seqN _ sl]; exact h3
  · intro t' p v' e
    by_cases a : t' = t
    · subst a; simp [pceq] at e
    · rw [pcne _ a] at e; obtain ⟨h1, h2, h3, h4, h5⟩ := h.sOwnP t' p v' e
      rw [sq] at h3
      have sl : p % s.cap ≠ pos % s.cap := fun sl => by
        rw [sl] at h3; exact alias1 c2 sl.symm (by omega)
      refine ⟨h1, h2, ?_, h4, ?_⟩
      · rw [seqN _ sl]; exact h3
      · rw [datas _ sl]; exact h5
  · intro t' q e
    by_cases a : t' = t
    · subst a; simp [pceq] at e
    · rw [pcne _ a] at e; obtain ⟨h1, h2, h3⟩ := h.rOwnR t' q e
      rw [sq] at h2
      have sl : q % s.cap ≠ pos % s.cap := fun sl => by
        rw [sl] at h2
        have : q = pos := by omega
        subst this
        exact a (h.rUniq t' t q (by simp [e, rOwn]) (by simp [hpc, rOwn]))
      refine ⟨h1, ?_, ?_⟩
      · rw [seqN _ sl]; exact h2
      · rw [datas _ sl]; exact h3
  · intro t' q v' e
    have a : t' ≠ t := fun a => by subst a; simp [pceq] at e
    rw [pcne _ a] at e; obtain ⟨h1, h2, h3⟩ := h.rOwnZ t' q v' e
    rw [sq] at h2
    have sl : q % s.cap ≠ pos % s.cap := fun sl => by
      rw [sl] at h2
      have : q = pos := by omega
      subst this
      refine a (h.rUniq t' t q ?_ (by simp [hpc, rOwn]))
      rcases e with e | e <;> simp [e, rOwn]
    refine ⟨h1, ?_, h3⟩
    rw [seqN _ sl]; exact h2
  · intro t1 t2 p e1 e2
    by_cases a : t1 = t
    · subst a; rw [pceq] at e1; simp [sOwn] at e1
    · by_cases b : t2 = t
      · subst b; rw [pceq] at e2; simp [sOwn] at e2
      · rw [pcne _ a] at e1; rw [pcne _ b] at e2; exact h.sUniq t1 t2 p e1 e2
  · intro t1 t2 p e1 e2
    by_cases a : t1 = t
    · subst a; rw [pceq] at e1; simp [rOwn] at e1
    · by_cases b : t2 = t
      · subst b; rw [pceq] at e2; simp [rOwn] at e2
      · rw [pcne _ a] at e1; rw [pcne _ b] at e2; exact h.rUniq t1 t2 p e1 e2
  · intro p hp1 hp2
    have sl : p % s.cap ≠ pos % s.cap := fun sl => by
      rcases h.queue p hp1 hp2 with ⟨q1, _⟩ | ⟨q1, _⟩ <;> rw [sq, sl] at q1
      · omega
      · exact alias1 c2 sl.symm (by omega)
    rw [seqN _ sl, datas _ sl]
    rcases h.queue p hp1 hp2 with q | ⟨q1, t', q2⟩
    · exact Or.inl q
    · refine Or.inr ⟨q1, t', ?_⟩
      have : t' ≠ t := fun e => by subst e; rw [hpc] at q2; simp [sOwn] at q2
      rw [pcne _ this]; exact q2
  · intro p hp
    by_cases sl : p % s.cap = pos % s.cap
    · rw [sl, seqE]; intro e; exact alias2 c2 sl.symm e
    · rw [seqN _ sl]; exact h.free p hp
  · intro p hp
    by_cases sl : p % s.cap = pos % s.cap
    · rw [sl, seqE]; have := h.old p hp; rw [sq, sl] at this; omega
    · rw [seqN _ sl]; exact h.old p hp
end OpenFGAVerif.Proofs.Mpmc
