/-
Consequences of `Inv` for the mpmc transition system: refinement of an abstract FIFO queue with
the linearisation points at the head/tail CAS, close semantics, absence of the
send-on-closed-channel panic.
-/
import OpenFGAVerif.Proofs.MpmcStep

namespace OpenFGAVerif.Proofs.Mpmc
open OpenFGAVerif.Model.Mpmc

theorem drop_of_getElem? {α : Type} {l : List α} {k : Nat} {x : α} (h : l[k]? = some x) :
    l.drop k = x :: l.drop (k + 1) := by
  induction l generalizing k with
  | nil => simp at h
  | cons y ys ih =>
    cases k with
    | zero => simp at h; simp [h]
    | succ k => simp at h; simpa using ih h

/-- abstract FIFO content: what has been linearised as sent and not yet claimed by a receiver -/
def absQ (s : State) : List Val := s.sent.drop (s.off + s.tail)

/-- linearisation label of an action in a state: `some (some v)` = enqueue v (successful head CAS),
`some none` = dequeue (successful tail CAS), `none` = internal step -/
def lin (s : State) : Action → Option (Option Val)
  | .step t =>
    match s.pc t with
    | .sCas pos v => if s.head = pos then some (some v) else none
    | .rCas pos => if s.tail = pos then some none else none
    | _ => none
  | _ => none

theorem extend_abs (s : State) (n : Nat) :
    (extend s n).sent = s.sent ∧ (extend s n).off + (extend s n).tail = s.off + s.tail ∧
    (extend s n).done = s.done ∧ (extend s n).log = s.log ∧ (extend s n).panicked = s.panicked ∧
    (extend s n).pc = s.pc := by
  unfold extend; split <;> simp

theorem internal_abs {s s' : State} {a : Action} (e : act s a = some s')
    (hl : lin s a = none) : s'.sent = s.sent ∧ s'.off + s'.tail = s.off + s.tail := by
  have hx := fun n => extend_abs s n
  cases a with
  | call t op => simp only [act] at e; split at e <;> simp at e; subst e; simp [addLog, setPc]
  | cancel t => simp only [act] at e; simp at e; subst e; simp
  | ctxWake t =>
    simp only [act] at e
    split at e
    · split at e <;> simp at e <;> subst e <;> simp [setPc]
    · simp at e
  | step t =>
    simp only [act] at e
    simp only [lin] at hl
    unfold stepT at e
    split at e <;> rename_i hpc <;> simp only [hpc] at hl
    all_goals (try dsimp only at e)
    all_goals (repeat' (split at e))
    all_goals (try (simp at e))
    all_goals (try subst e)
    all_goals (try simp [addLog, setPc, enter, leave, setSlot, hx])
    all_goals simp_all

/-- **Refinement of a FIFO queue.**  Every enabled action either leaves the abstract queue
unchanged, or is the successful head CAS of `Send(v)` and appends `v`, or is the successful tail
CAS of a `Recv` and removes the first element — which is exactly the value that receiver is about
to read from its slot (and, by `Inv.rOwnZ`, carries to its return). -/
theorem refines_fifo {s s' : State} {a : Action} (h : Inv s) (e : act s a = some s') :
    match lin s a with
    | some (some v) => absQ s' = absQ s ++ [v]
    | some none => ∃ t pos, a = .step t ∧ s'.pc t = .rRead pos ∧ absQ s = dt s' pos :: absQ s'
    | none => absQ s' = absQ s := by
  cases hl : lin s a with
  | none =>
    obtain ⟨h1, h2⟩ := internal_abs e hl
    simp only [absQ, h1, h2]
  | some l =>
    cases a with
    | call t op => simp [lin] at hl
    | cancel t => simp [lin] at hl
    | ctxWake t => simp [lin] at hl
    | step t =>
      simp only [lin] at hl
      have h' := inv_act h e
      simp only [act] at e
      unfold stepT at e
      split at hl
      · rename_i pos v hpc
        split at hl
        · rename_i hh
          simp at hl; subst hl
          simp only [hpc, hh, if_true, Option.some.injEq] at e
          subst e
          simp only [absQ, setPc]
          rw [List.drop_append_of_le_length (by rw [h.len]; have := h.ht; omega)]
        · simp at hl
      · rename_i pos hpc
        split at hl
        · rename_i hh
          simp at hl; subst hl
          simp only [hpc, hh, if_true, Option.some.injEq] at e
          subst e
          refine ⟨t, pos, rfl, by simp [setPc, upd], ?_⟩
          have hr := h'.rOwnR t pos (by simp [setPc, upd])
          obtain ⟨_, _, r3⟩ := hr
          simp only [absQ, setPc] at r3 ⊢
          rw [← Nat.add_assoc, hh]
          exact drop_of_getElem? r3
        · simp at hl
      · simp at hl

/-- `Recv` reports "closed and drained" only when the queue is closed and every linearised item has
been claimed by a receiver (or the caller's context is cancelled). -/
theorem recv_false_drained {s s' : State} {a : Action} {t : Tid} (h : Inv s) (e : act s a = some s')
    (hlog : s'.log = s.log ++ [.recvRet t none]) :
    s.cancelled t = true ∨ (s.done = true ∧ s.tail = s.head ∧ absQ s = []) := by
  have hx := fun n => extend_abs s n
  cases a with
  | call t op => simp only [act] at e; split at e <;> simp at e; subst e; simp [addLog, setPc] at hlog
  | cancel t => simp only [act] at e; simp at e; subst e; simp at hlog
  | ctxWake t =>
    simp only [act] at e
    split at e
    · split at e <;> simp at e <;> subst e <;> simp [setPc] at hlog
    · simp at e
  | step t' =>
    simp only [act] at e
    unfold stepT at e
    split at e <;> rename_i hpc
    all_goals (try dsimp only at e)
    all_goals (repeat' (split at e))
    all_goals (try (simp at e))
    all_goals (try subst e)
    all_goals (try (simp [addLog, setPc, enter, leave, setSlot, hx] at hlog))
    all_goals (try (exfalso; split at hlog <;> simp at hlog))
    -- the one remaining case: rLoop, diff < 0, done ∨ cancelled
    rename_i pos hne hlt hdc
    subst hlog
    by_cases hc : s.cancelled t' = true
    · exact Or.inl hc
    · right
      have hd : s.done = true := by simpa [hc] using hdc
      have hp := h.rPosL t' pos hpc
      have ht : pos = s.tail := by
        by_cases e2 : pos < s.tail
        · have := h.old pos e2; simp only [sq] at this; omega
        · omega
      have hh : s.tail = s.head := by
        by_cases e2 : s.tail < s.head
        · rcases h.queue s.tail (Nat.le_refl _) e2 with ⟨q1, _⟩ | ⟨_, t2, q2⟩
          · simp only [sq] at q1; rw [← ht] at q1; omega
          · have := h.doneDeep hd t2
            cases e3 : s.pc t2 <;> simp [e3, sOwn, sDeep] at q2 this
        · have := h.ht; omega
      refine ⟨hd, hh, ?_⟩
      have := h.len
      simp only [absQ]
      exact List.drop_eq_nil_of_le (by omega)

/-- **Sends after close fail.**  Once `done` is set no action linearises a send, `done` stays set,
no `Send` returns true, and no goroutine sends on a closed wake-up channel. -/
theorem closed_no_enq {s s' : State} {a : Action} (h : Inv s) (hd : s.done = true)
    (e : act s a = some s') :
    s'.sent = s.sent ∧ s'.done = true ∧ s'.panicked = s.panicked ∧
    (∀ t v, s'.log ≠ s.log ++ [.sendRet t v true]) := by
  have hx := fun n => extend_abs s n
  cases a with
  | call t op => simp only [act] at e; split at e <;> simp at e; subst e; simp [addLog, setPc, hd]
  | cancel t => simp only [act] at e; simp at e; subst e; simp [hd]
  | ctxWake t =>
    simp only [act] at e
    split at e
    · split at e <;> simp at e <;> subst e <;> simp [setPc, hd]
    · simp at e
  | step t' =>
    have hdeep := h.doneDeep hd t'
    simp only [act] at e
    unfold stepT at e
    split at e <;> rename_i hpc <;> simp only [hpc, sDeep] at hdeep
    all_goals (try dsimp only at e)
    all_goals (repeat' (split at e))
    all_goals (try (simp at e))
    all_goals (try subst e)
    all_goals (try (simp [addLog, setPc, enter, leave, setSlot, hx, hd]))
    all_goals simp_all

/-- the send-on-closed-channel panic is unreachable: `panicked` never changes -/
theorem panicked_const {s s' : State} {a : Action} (h : Inv s) (e : act s a = some s') :
    s'.panicked = s.panicked := by
  have hx := fun n => extend_abs s n
  cases a with
  | call t op => simp only [act] at e; split at e <;> simp at e; subst e; simp [addLog, setPc]
  | cancel t => simp only [act] at e; simp at e; subst e; simp
  | ctxWake t =>
    simp only [act] at e
    split at e
    · split at e <;> simp at e <;> subst e <;> simp [setPc]
    · simp at e
  | step t' =>
    have hdeep := fun hd => h.doneDeep hd t'
    simp only [act] at e
    unfold stepT at e
    split at e <;> rename_i hpc <;> simp only [hpc, sDeep] at hdeep
    all_goals (try dsimp only at e)
    all_goals (repeat' (split at e))
    all_goals (try (simp at e))
    all_goals (try subst e)
    all_goals (try (simp [addLog, setPc, enter, leave, setSlot, hx]))
    all_goals simp_all

end OpenFGAVerif.Proofs.Mpmc
