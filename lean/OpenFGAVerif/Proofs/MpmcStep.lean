/-
Every enabled action of the mpmc transition system preserves `Inv`; `Inv` holds initially; hence
it holds after every action list (`inv_run`).
-/
import OpenFGAVerif.Proofs.MpmcInv

namespace OpenFGAVerif.Proofs.Mpmc
open OpenFGAVerif.Model.Mpmc

theorem noCS {s : State} (h : Inv s) (hc : s.cs = []) (t : Tid) : (s.pc t).inCS = false := by
  have := h.csIff t
  rw [hc] at this
  cases e : (s.pc t).inCS
  · rfl
  · exact absurd (this.2 e) (by simp)

/-- the ring never holds more than `cap` positions -/
theorem bound {s : State} (h : Inv s) : s.head ≤ s.tail + s.cap := by
  have c2 := h.cap2
  by_cases e : s.head ≤ s.tail + s.cap
  · exact e
  · exfalso
    have e1 : (s.tail + s.cap) % s.cap = s.tail % s.cap := Nat.add_mod_right _ _
    have q1 := h.queue s.tail (Nat.le_refl _) (by omega)
    have q2 := h.queue (s.tail + s.cap) (by omega) (by omega)
    simp only [sq] at q1 q2
    rw [e1] at q2
    rcases q1 with ⟨a, _⟩ | ⟨a, _⟩ <;> rcases q2 with ⟨b, _⟩ | ⟨b, _⟩ <;> omega

theorem inv_setDone {s : State} (h : Inv s) (hc : s.cs = []) : Inv { s with done := true } := by
  constructor
  · exact h.cap2
  · exact h.csNodup
  · exact h.csIff
  · exact h.ht
  · exact h.len
  · intro _ t
    have := noCS h hc t
    cases e : s.pc t <;> simp [e, Pc.inCS] at this <;> simp [sDeep]
  · exact h.sPosL
  · exact h.sPosC
  · exact h.rPosL
  · exact h.rPosC
  · exact h.sOwnW
  · exact h.sOwnP
  · exact h.rOwnR
  · exact h.rOwnZ
  · exact h.sUniq
  · exact h.rUniq
  · exact h.queue
  · exact h.free
  · exact h.old

theorem inv_extend {s : State} (h : Inv s) (hc : s.cs = []) (n : Nat) : Inv (extend s n) := by
  unfold extend
  split
  · exact h
  · rename_i hn
    have c2 := h.cap2
    have hb := bound h
    have hht := h.ht
    have nc := noCS h hc
    have nown : ∀ t p, sOwn (s.pc t) ≠ some p := by
      intro t p e
      have := nc t
      cases e2 : s.pc t <;> simp [e2, Pc.inCS, sOwn] at this e
    constructor <;> (try simp only [sq, dt])
    · show 2 ≤ n; omega
    · exact h.csNodup
    · exact h.csIff
    · show 0 ≤ s.head - s.tail; omega
    · show s.sent.length = s.off + s.tail + (s.head - s.tail); rw [h.len]; omega
    · exact h.doneDeep
    · intro t p v e; have := nc t; simp [e, Pc.inCS] at this
    · intro t p v e; have := nc t; simp [e, Pc.inCS] at this
    · intro t p e; have := nc t; simp [e, Pc.inCS] at this
    · intro t p e; have := nc t; simp [e, Pc.inCS] at this
    · intro t p v e; have := nc t; simp [e, Pc.inCS] at this
    · intro t p v e; have := nc t; simp [e, Pc.inCS] at this
    · intro t p e; have := nc t; simp [e, Pc.inCS] at this
    · intro t p v e; have := nc t; rcases e with e | e <;> simp [e, Pc.inCS] at this
    · exact h.sUniq
    · exact h.rUniq
    · intro p _ hp
      have hp : p < s.head - s.tail := hp
      have pm : p % n = p := Nat.mod_eq_of_lt (by omega)
      refine Or.inl ?_
      simp only [pm, hp, if_true, true_and]
      rcases h.queue (s.tail + p) (by omega) (by omega) with ⟨_, q2⟩ | ⟨_, t, q2⟩
      · simp only [dt] at q2
        rw [← q2]; congr 1; omega
      · exact absurd q2 (nown t _)
    · intro p hp
      have hp : s.head - s.tail ≤ p := hp
      have hj : p % n ≤ p := Nat.mod_le _ _
      show (if p % n < s.head - s.tail then (⟨p % n + 1, _⟩ : Slot) else ⟨p % n, 0⟩).seq ≠ p + 1
      split <;> simp <;> omega
    · intro p hp; exact absurd hp (Nat.not_lt_zero _)

theorem inv_init {c : Nat} {e : Int} {s : State} (h : init c e = some s) : Inv s := by
  unfold init at h
  split at h
  · simp at h
  · rename_i hc
    simp at hc
    simp at h; subst h
    constructor <;> (try simp only [sq, dt])
    · exact hc.1
    · exact List.nodup_nil
    · intro t; simp [Pc.inCS]
    · exact Nat.le_refl _
    · rfl
    · intro _ t; rfl
    · intro t p v e; simp at e
    · intro t p v e; simp at e
    · intro t p e; simp at e
    · intro t p e; simp at e
    · intro t p v e; simp at e
    · intro t p v e; simp at e
    · intro t p e; simp at e
    · intro t p v e; simp at e
    · intro t1 t2 p e; simp [sOwn] at e
    · intro t1 t2 p e; simp [rOwn] at e
    · intro p _ hp; exact absurd hp (Nat.not_lt_zero _)
    · intro p _; have := Nat.mod_le p c; simp; omega
    · intro p hp; exact absurd hp (Nat.not_lt_zero _)


/-! ### dispatch over the program points -/

theorem local_same {s s' : State} {t : Tid} {p' : Pc} (h : Inv s) (l : Local s s' t p')
    (hc : s'.cs = s.cs) (n : NewOk s p') (hso : sOwn (s.pc t) = none) (hro : rOwn (s.pc t) = none)
    (hin : p'.inCS = (s.pc t).inCS) : Inv s' :=
  inv_local h l n hso hro (by rw [hc]; exact ⟨h.csNodup, cs_setPc h t p' hin⟩)

theorem local_enter {s s' : State} {t : Tid} {p' : Pc} (h : Inv s) (l : Local s s' t p')
    (hc : s'.cs = t :: s.cs) (n : NewOk s p') (hso : sOwn (s.pc t) = none) (hro : rOwn (s.pc t) = none)
    (h0 : (s.pc t).inCS = false) (h1 : p'.inCS = true) : Inv s' :=
  inv_local h l n hso hro (by rw [hc]; exact cs_enter h t p' h0 h1)

theorem local_leave {s s' : State} {t : Tid} {p' : Pc} (h : Inv s) (l : Local s s' t p')
    (hc : s'.cs = s.cs.erase t) (n : NewOk s p') (hso : sOwn (s.pc t) = none) (hro : rOwn (s.pc t) = none)
    (h1 : p'.inCS = false) : Inv s' :=
  inv_local h l n hso hro (by rw [hc]; exact cs_leave h t p' h1)

/-- program points that need no side condition when entered -/
theorem newOk_plain {s : State} {p' : Pc} (hd : sDeep p' = false)
    (h1 : ∀ p v, p' ≠ .sLoop p v) (h2 : ∀ p v, p' ≠ .sCas p v) (h3 : ∀ p, p' ≠ .rLoop p)
    (h4 : ∀ p, p' ≠ .rCas p) (h5 : sOwn p' = none) (h6 : rOwn p' = none) : NewOk s p' :=
  ⟨fun _ => hd, fun p v e => absurd e (h1 p v), fun p v e => absurd e (h2 p v),
   fun p e => absurd e (h3 p), fun p e => absurd e (h4 p), h5, h6⟩

macro "plain" : tactic =>
  `(tactic| exact newOk_plain (by simp [sDeep]) (by simp) (by simp) (by simp) (by simp) (by simp [sOwn]) (by simp [rOwn]))

macro "loc" : tactic => `(tactic| exact ⟨rfl, rfl, rfl, rfl, rfl, rfl, rfl, rfl⟩)

theorem inv_stepT {s s' : State} {t : Tid} (h : Inv s) (e : stepT s t = some s') : Inv s' := by
  unfold stepT at e
  split at e
  · simp at e
  · -- sEnter
    rename_i v hpc
    split at e <;> (simp only [Option.some.injEq] at e; subst e)
    · exact local_same h (p' := .idle) (by loc) rfl (by plain) (by simp [hpc, sOwn]) (by simp [hpc, rOwn]) (by simp [hpc, Pc.inCS])
    · rename_i hd
      refine local_enter h (p' := .sLoop s.head v) (by loc) rfl ?_ (by simp [hpc, sOwn]) (by simp [hpc, rOwn]) (by simp [hpc, Pc.inCS]) (by simp [Pc.inCS])
      exact ⟨fun _ => rfl, fun p v e => by injection e with e1; omega, fun p v e => by simp at e,
        fun p e => by simp at e, fun p e => by simp at e, rfl, rfl⟩
  · -- sLoop
    rename_i pos v hpc
    dsimp only at e
    by_cases c1 : (s.done || s.cancelled t) = true
    · rw [if_pos c1] at e
      simp only [Option.some.injEq] at e; subst e
      exact local_leave h (p' := .idle) (by loc) rfl (by plain) (by simp [hpc, sOwn]) (by simp [hpc, rOwn]) (by simp [Pc.inCS])
    · rw [if_neg c1] at e
      have hdone : s.done = false := by
        cases hh : s.done <;> simp [hh] at c1 ⊢
      by_cases c2 : (s.slots (pos % s.cap)).seq = pos
      · rw [if_pos c2] at e
        simp only [Option.some.injEq] at e; subst e
        refine local_same h (p' := .sCas pos v) (by loc) rfl ?_ (by simp [hpc, sOwn]) (by simp [hpc, rOwn]) (by simp [hpc, Pc.inCS])
        exact ⟨fun hh => by simp [hdone] at hh, fun p v e => by simp at e,
          fun p v' e => by
            injection e with e1 e2; subst e1
            exact ⟨h.sPosL t _ _ hpc, fun _ => c2⟩,
          fun p e => by simp at e, fun p e => by simp at e, rfl, rfl⟩
      · rw [if_neg c2] at e
        by_cases c3 : (s.slots (pos % s.cap)).seq < pos
        · rw [if_pos c3] at e
          split at e <;> (simp only [Option.some.injEq] at e; subst e)
          · exact local_leave h (p' := .sExt v s.cap) (by loc) rfl (by plain) (by simp [hpc, sOwn]) (by simp [hpc, rOwn]) (by simp [Pc.inCS])
          · exact local_leave h (p' := .sPark v) (by loc) rfl (by plain) (by simp [hpc, sOwn]) (by simp [hpc, rOwn]) (by simp [Pc.inCS])
        · rw [if_neg c3] at e
          simp only [Option.some.injEq] at e; subst e
          refine local_same h (p' := .sReload v) (by loc) rfl ?_ (by simp [hpc, sOwn]) (by simp [hpc, rOwn]) (by simp [hpc, Pc.inCS])
          exact ⟨fun hh => by simp [hdone] at hh, fun p v e => by simp at e, fun p v e => by simp at e,
            fun p e => by simp at e, fun p e => by simp at e, rfl, rfl⟩
  · -- sReload
    rename_i v hpc
    simp only [Option.some.injEq] at e; subst e
    refine local_same h (p' := .sLoop s.head v) (by loc) rfl ?_ (by simp [hpc, sOwn]) (by simp [hpc, rOwn]) (by simp [hpc, Pc.inCS])
    exact ⟨fun _ => rfl, fun p v e => by injection e with e1; omega, fun p v e => by simp at e,
      fun p e => by simp at e, fun p e => by simp at e, rfl, rfl⟩
  · -- sCas
    rename_i pos v hpc
    split at e <;> (simp only [Option.some.injEq] at e; subst e)
    · rename_i hh; exact inv_sCas h hpc hh
    · refine local_same h (p' := .sLoop pos v) (by loc) rfl ?_ (by simp [hpc, sOwn]) (by simp [hpc, rOwn]) (by simp [hpc, Pc.inCS])
      exact ⟨fun _ => rfl, fun p v' e => by injection e with e1; subst e1; exact (h.sPosC t _ _ hpc).1,
        fun p v e => by simp at e, fun p e => by simp at e, fun p e => by simp at e, rfl, rfl⟩
  · -- sWrite
    rename_i pos v hpc
    simp only [Option.some.injEq] at e; subst e
    exact inv_sWrite h hpc
  · -- sPub
    rename_i pos v hpc
    simp only [Option.some.injEq] at e; subst e
    exact inv_sPub h hpc
  · -- sSig
    rename_i v hpc
    simp only [Option.some.injEq] at e; subst e
    split
    · exact local_leave h (p' := .idle) (by loc) rfl (by plain) (by simp [hpc, sOwn]) (by simp [hpc, rOwn]) (by simp [Pc.inCS])
    · exact local_leave h (p' := .idle) (by loc) rfl (by plain) (by simp [hpc, sOwn]) (by simp [hpc, rOwn]) (by simp [Pc.inCS])
  · -- sExt
    rename_i v c hpc
    split at e
    · simp at e
    · rename_i hcs
      have hcs : s.cs = [] := by simpa using hcs
      simp only [Option.some.injEq] at e; subst e
      split
      · have h2 := inv_extend h hcs (s.cap * 2)
        have hpc2 : (extend s (s.cap * 2)).pc = s.pc := by unfold extend; split <;> rfl
        have hcs2 : (extend s (s.cap * 2)).cs = s.cs := by unfold extend; split <;> rfl
        exact local_same h2 (p' := .sRelock v) (by loc) rfl (by plain) (by simp [hpc2, hpc, sOwn]) (by simp [hpc2, hpc, rOwn]) (by simp [hpc2, hpc, Pc.inCS])
      · exact local_same h (p' := .sRelock v) (by loc) rfl (by plain) (by simp [hpc, sOwn]) (by simp [hpc, rOwn]) (by simp [hpc, Pc.inCS])
  · -- sPark
    rename_i v hpc
    split at e
    · simp only [Option.some.injEq] at e; subst e
      exact local_same h (p' := .sRelock v) (by loc) rfl (by plain) (by simp [hpc, sOwn]) (by simp [hpc, rOwn]) (by simp [hpc, Pc.inCS])
    · split at e
      · simp only [Option.some.injEq] at e; subst e
        exact local_same h (p' := .sRelock v) (by loc) rfl (by plain) (by simp [hpc, sOwn]) (by simp [hpc, rOwn]) (by simp [hpc, Pc.inCS])
      · simp at e
  · -- sRelock
    rename_i v hpc
    simp only [Option.some.injEq] at e; subst e
    refine local_enter h (p' := .sLoop s.head v) (by loc) rfl ?_ (by simp [hpc, sOwn]) (by simp [hpc, rOwn]) (by simp [hpc, Pc.inCS]) (by simp [Pc.inCS])
    exact ⟨fun _ => rfl, fun p v e => by injection e with e1; omega, fun p v e => by simp at e,
      fun p e => by simp at e, fun p e => by simp at e, rfl, rfl⟩
  · -- rEnter
    rename_i hpc
    simp only [Option.some.injEq] at e; subst e
    refine local_enter h (p' := .rLoop s.tail) (by loc) rfl ?_ (by simp [hpc, sOwn]) (by simp [hpc, rOwn]) (by simp [hpc, Pc.inCS]) (by simp [Pc.inCS])
    exact ⟨fun _ => rfl, fun p v e => by simp at e, fun p v e => by simp at e,
      fun p e => by injection e with e1; omega, fun p e => by simp at e, rfl, rfl⟩
  · -- rLoop
    rename_i pos hpc
    dsimp only at e
    by_cases c2 : (s.slots (pos % s.cap)).seq = pos + 1
    · rw [if_pos c2] at e
      simp only [Option.some.injEq] at e; subst e
      refine local_same h (p' := .rCas pos) (by loc) rfl ?_ (by simp [hpc, sOwn]) (by simp [hpc, rOwn]) (by simp [hpc, Pc.inCS])
      exact ⟨fun _ => rfl, fun p v e => by simp at e, fun p v e => by simp at e, fun p e => by simp at e,
        fun p e => by
          injection e with e1; subst e1
          exact ⟨h.rPosL t _ hpc, fun _ => c2⟩, rfl, rfl⟩
    · rw [if_neg c2] at e
      by_cases c3 : (s.slots (pos % s.cap)).seq < pos + 1
      · rw [if_pos c3] at e
        split at e <;> (simp only [Option.some.injEq] at e; subst e)
        · exact local_leave h (p' := .idle) (by loc) rfl (by plain) (by simp [hpc, sOwn]) (by simp [hpc, rOwn]) (by simp [Pc.inCS])
        · exact local_leave h (p' := .rPark) (by loc) rfl (by plain) (by simp [hpc, sOwn]) (by simp [hpc, rOwn]) (by simp [Pc.inCS])
      · rw [if_neg c3] at e
        simp only [Option.some.injEq] at e; subst e
        exact local_same h (p' := .rReload) (by loc) rfl (by plain) (by simp [hpc, sOwn]) (by simp [hpc, rOwn]) (by simp [hpc, Pc.inCS])
  · -- rReload
    rename_i hpc
    simp only [Option.some.injEq] at e; subst e
    refine local_same h (p' := .rLoop s.tail) (by loc) rfl ?_ (by simp [hpc, sOwn]) (by simp [hpc, rOwn]) (by simp [hpc, Pc.inCS])
    exact ⟨fun _ => rfl, fun p v e => by simp at e, fun p v e => by simp at e,
      fun p e => by injection e with e1; omega, fun p e => by simp at e, rfl, rfl⟩
  · -- rCas
    rename_i pos hpc
    split at e <;> (simp only [Option.some.injEq] at e; subst e)
    · rename_i hh; exact inv_rCas h hpc hh
    · refine local_same h (p' := .rLoop pos) (by loc) rfl ?_ (by simp [hpc, sOwn]) (by simp [hpc, rOwn]) (by simp [hpc, Pc.inCS])
      exact ⟨fun _ => rfl, fun p v e => by simp at e, fun p v e => by simp at e,
        fun p e => by injection e with e1; subst e1; exact (h.rPosC t _ hpc).1, fun p e => by simp at e, rfl, rfl⟩
  · -- rRead
    rename_i pos hpc
    simp only [Option.some.injEq] at e; subst e
    exact inv_rRead h hpc
  · -- rZero
    rename_i pos v hpc
    simp only [Option.some.injEq] at e; subst e
    exact inv_rZero h hpc
  · -- rRecycle
    rename_i pos v hpc
    simp only [Option.some.injEq] at e; subst e
    exact inv_rRecycle h hpc
  · -- rSig
    rename_i v hpc
    simp only [Option.some.injEq] at e; subst e
    split
    · exact local_leave h (p' := .idle) (by loc) rfl (by plain) (by simp [hpc, sOwn]) (by simp [hpc, rOwn]) (by simp [Pc.inCS])
    · exact local_leave h (p' := .idle) (by loc) rfl (by plain) (by simp [hpc, sOwn]) (by simp [hpc, rOwn]) (by simp [Pc.inCS])
  · -- rPark
    rename_i hpc
    split at e
    · simp only [Option.some.injEq] at e; subst e
      exact local_same h (p' := .rEnter) (by loc) rfl (by plain) (by simp [hpc, sOwn]) (by simp [hpc, rOwn]) (by simp [hpc, Pc.inCS])
    · split at e
      · simp only [Option.some.injEq] at e; subst e
        exact local_same h (p' := .rEnter) (by loc) rfl (by plain) (by simp [hpc, sOwn]) (by simp [hpc, rOwn]) (by simp [hpc, Pc.inCS])
      · simp at e
  · -- cEnter
    rename_i hpc
    split at e
    · simp at e
    · rename_i hcs
      have hcs : s.cs = [] := by simpa using hcs
      simp only [Option.some.injEq] at e; subst e
      have h2 := inv_setDone h hcs
      exact local_same h2 (p' := .idle) (by loc) rfl (by plain) (by simp [hpc, sOwn]) (by simp [hpc, rOwn]) (by simp [hpc, Pc.inCS])
  · -- gEnter
    rename_i n hpc
    split at e
    · simp only [Option.some.injEq] at e; subst e
      exact local_same h (p' := .idle) (by loc) rfl (by plain) (by simp [hpc, sOwn]) (by simp [hpc, rOwn]) (by simp [hpc, Pc.inCS])
    · split at e
      · simp at e
      · rename_i hcs
        have hcs : s.cs = [] := by simpa using hcs
        simp only [Option.some.injEq] at e; subst e
        have h2 := inv_extend h hcs n
        have hpc2 : (extend s n).pc = s.pc := by unfold extend; split <;> rfl
        exact local_same h2 (p' := .idle) (by loc) rfl (by plain) (by simp [hpc2, hpc, sOwn]) (by simp [hpc2, hpc, rOwn]) (by simp [hpc2, hpc, Pc.inCS])


theorem inv_cancel {s : State} (h : Inv s) (t : Tid) : Inv { s with cancelled := upd s.cancelled t true } :=
  ⟨h.cap2, h.csNodup, h.csIff, h.ht, h.len, h.doneDeep, h.sPosL, h.sPosC, h.rPosL, h.rPosC, h.sOwnW,
   h.sOwnP, h.rOwnR, h.rOwnZ, h.sUniq, h.rUniq, h.queue, h.free, h.old⟩

theorem inv_act {s s' : State} {a : Action} (h : Inv s) (e : act s a = some s') : Inv s' := by
  cases a with
  | call t op =>
    simp only [act] at e
    split at e
    · rename_i hpc
      simp only [Option.some.injEq] at e; subst e
      have : NewOk s (startPc op) := by cases op <;> (simp only [startPc]; plain)
      exact local_same h (p' := startPc op) (by loc) rfl this (by simp [hpc, sOwn]) (by simp [hpc, rOwn])
        (by cases op <;> simp [hpc, startPc, Pc.inCS])
    · simp at e
  | step t => exact inv_stepT h e
  | ctxWake t =>
    simp only [act] at e
    split at e
    · split at e
      · rename_i v hpc
        simp only [Option.some.injEq] at e; subst e
        exact local_same h (p' := .sRelock v) (by loc) rfl (by plain) (by simp [hpc, sOwn]) (by simp [hpc, rOwn]) (by simp [hpc, Pc.inCS])
      · rename_i hpc
        simp only [Option.some.injEq] at e; subst e
        exact local_same h (p' := .rEnter) (by loc) rfl (by plain) (by simp [hpc, sOwn]) (by simp [hpc, rOwn]) (by simp [hpc, Pc.inCS])
      · simp at e
    · simp at e
  | cancel t =>
    simp only [act, Option.some.injEq] at e; subst e
    exact inv_cancel h t

/-- generic induction principle: a predicate that holds initially and is preserved by every enabled
action holds after every action list -/
theorem run_induction {P : State → Prop} {s : State} (h0 : P s)
    (hstep : ∀ s a s', P s → act s a = some s' → P s') (as : List Action) : P (run s as) := by
  induction as generalizing s with
  | nil => exact h0
  | cons a as ih =>
    simp only [run, runCount]
    cases e : act s a with
    | some s' => exact ih (hstep s a s' h0 e)
    | none =>
      have := ih h0
      simp only [run] at this
      exact this

theorem inv_run {c : Nat} {x : Int} {s0 : State} (h : init c x = some s0) (as : List Action) :
    Inv (run s0 as) :=
  run_induction (inv_init h) (fun _ _ _ hs e => inv_act hs e) as

end OpenFGAVerif.Proofs.Mpmc
