/-
Wake-up safety of the mpmc queue for the single-consumer discipline, and frame lemmas about `act`.
-/
import OpenFGAVerif.Proofs.MpmcProps
namespace OpenFGAVerif.Proofs.Mpmc
open OpenFGAVerif.Model.Mpmc

/-- program points of `Recv` -/
def isRecvPc : Pc → Bool
  | .rEnter | .rLoop .. | .rReload | .rCas .. | .rRead .. | .rZero .. | .rRecycle .. | .rSig .. | .rPark => true
  | _ => false

def actor : Action → Tid
  | .call t _ | .step t | .ctxWake t | .cancel t => t

/-- an action changes the program point of its actor only -/
theorem act_pc_other {s s' : State} {a : Action} (e : act s a = some s') (t' : Tid) (ht : t' ≠ actor a) :
    s'.pc t' = s.pc t' := by
  have hx := fun n => extend_abs s n
  cases a with
  | call t op => simp only [act] at e; split at e <;> simp at e; subst e; simp [actor] at ht; simp [addLog, setPc, upd, ht]
  | cancel t => simp only [act] at e; simp at e; subst e; rfl
  | ctxWake t =>
    simp only [act] at e; simp [actor] at ht
    split at e
    · split at e <;> simp at e <;> subst e <;> simp [setPc, upd, ht]
    · simp at e
  | step t =>
    simp [actor] at ht
    simp only [act] at e
    unfold stepT at e
    split at e
    all_goals (try dsimp only at e)
    all_goals (repeat' (split at e))
    all_goals (try (simp at e))
    all_goals (try subst e)
    all_goals (simp [addLog, setPc, enter, leave, setSlot, hx, upd, ht])

/-- a thread is at a `Recv` program point only if it was before or it has just called `Recv` -/
theorem act_recv_mono {s s' : State} {a : Action} (e : act s a = some s') (t : Tid)
    (hr : isRecvPc (s'.pc t) = true) : isRecvPc (s.pc t) = true ∨ a = .call t .recv := by
  by_cases ht : t = actor a
  · have hx := fun n => extend_abs s n
    cases a with
    | call t0 op =>
      simp [actor] at ht; subst ht
      simp only [act] at e; split at e <;> simp at e; subst e
      cases op <;> simp [addLog, setPc, upd, startPc, isRecvPc] at hr ⊢
    | cancel t0 => simp only [act] at e; simp at e; subst e; exact Or.inl hr
    | ctxWake t0 =>
      simp [actor] at ht; subst ht
      simp only [act] at e
      split at e
      · split at e <;> simp at e <;> subst e <;> simp_all [setPc, upd, isRecvPc]
      · simp at e
    | step t0 =>
      simp [actor] at ht; subst ht
      left
      simp only [act] at e
      unfold stepT at e
      split at e <;> rename_i hpc <;> simp only [hpc, isRecvPc]
      all_goals (try dsimp only at e)
      all_goals (repeat' (split at e))
      all_goals (try (simp at e))
      all_goals (try subst e)
      all_goals (simp [addLog, setPc, enter, leave, setSlot, hx, upd, isRecvPc] at hr)
  · rw [act_pc_other e t ht] at hr; exact Or.inl hr
/-- program points whose step writes head, tail, a slot, the capacity, `done`, or consumes an `empty` token -/
def touches : Pc → Bool
  | .sCas .. | .sWrite .. | .sPub .. | .rCas .. | .rZero .. | .rRecycle .. | .sExt .. | .gEnter .. | .cEnter | .rPark => true
  | _ => false

theorem act_frame {s s' : State} {a : Action} (e : act s a = some s')
    (hn : touches (s.pc (actor a)) = false ∨ ∃ t, a = .cancel t ∨ a = .ctxWake t) :
    s'.tail = s.tail ∧ s'.head = s.head ∧ s'.slots = s.slots ∧ s'.cap = s.cap ∧ s'.done = s.done ∧
    (s.emptyTok = true → s'.emptyTok = true) := by
  cases a with
  | call t op => simp only [act] at e; split at e <;> simp at e; subst e; simp [addLog, setPc]
  | cancel t => simp only [act] at e; simp at e; subst e; simp
  | ctxWake t =>
    simp only [act] at e
    split at e
    · split at e <;> simp at e <;> subst e <;> simp [setPc]
    · simp at e
  | step t =>
    simp [actor] at hn
    simp only [act] at e
    unfold stepT at e
    split at e <;> rename_i hpc <;> simp only [hpc, touches] at hn
    all_goals (try dsimp only at e)
    all_goals (repeat' (split at e))
    all_goals (try (simp at e))
    all_goals (try subst e)
    all_goals (try (simp [addLog, setPc, enter, leave, setSlot]))
    all_goals (try (split <;> simp))
    all_goals simp_all
/-- the item at the tail position is published: a `Recv` that looked now would succeed -/
def itemReady (s : State) : Prop := s.tail < s.head ∧ sq s s.tail = s.tail + 1

/-- a wake-up is on its way: a token is buffered in `empty`, the channel is closed, or a sender
has published and is about to signal -/
def wakePending (s : State) : Prop :=
  s.emptyTok = true ∨ s.done = true ∨ ∃ t v, s.pc t = .sSig v

theorem sig_other {s s' : State} {a : Action} (e : act s a = some s')
    (hn : ∀ v, s.pc (actor a) ≠ .sSig v) (h : ∃ t v, s.pc t = .sSig v) : ∃ t v, s'.pc t = .sSig v := by
  obtain ⟨t, v, ht⟩ := h
  refine ⟨t, v, ?_⟩
  rw [act_pc_other e t (fun e2 => hn v (e2 ▸ ht))]; exact ht

theorem extend_ready {s : State} (h : Inv s) (hcs : s.cs = []) (n : Nat) :
    itemReady (extend s n) → itemReady s := by
  unfold extend
  split
  · exact fun r => r
  · rintro ⟨r1, _⟩
    have hlt : s.tail < s.head := by simp only at r1; omega
    refine ⟨hlt, ?_⟩
    rcases h.queue s.tail (Nat.le_refl _) hlt with ⟨q1, _⟩ | ⟨_, t2, q2⟩
    · exact q1
    · have := noCS h hcs t2
      cases e3 : s.pc t2 <;> simp [e3, sOwn, Pc.inCS] at q2 this

theorem extend_tok (s : State) (n : Nat) :
    (extend s n).emptyTok = s.emptyTok ∧ (extend s n).fullTok = s.fullTok := by
  unfold extend; split <;> simp

theorem ready_setPc {s : State} {t : Tid} {p : Pc} : itemReady (setPc s t p) ↔ itemReady s := Iff.rfl
theorem ready_addLog {s : State} {e : Ev} : itemReady (addLog s e) ↔ itemReady s := Iff.rfl

/-- effect of an action by a thread that is not inside `Recv` on readiness and pending wake-ups -/
theorem wake_step {s s' : State} {a : Action} (h : Inv s) (e : act s a = some s')
    (hr : isRecvPc (s.pc (actor a)) = false) :
    (itemReady s' → wakePending s') ∨ ((itemReady s' → itemReady s) ∧ (wakePending s → wakePending s')) := by
  by_cases hto : touches (s.pc (actor a)) = false ∨ ∃ t, a = .cancel t ∨ a = .ctxWake t
  · obtain ⟨f1, f2, f3, f4, f5, f6⟩ := act_frame e hto
    by_cases hs : ∃ v, s.pc (actor a) = .sSig v
    · -- the signalling step itself
      left; intro _
      obtain ⟨v, hs⟩ := hs
      cases a with
      | call t op => simp only [act, actor] at e hs; simp [hs] at e
      | cancel t => simp only [act] at e; simp at e; subst e; exact Or.inr (Or.inr ⟨t, v, hs⟩)
      | ctxWake t => simp only [act, actor] at e hs; simp [hs] at e
      | step t =>
        simp only [act, actor] at e hs
        unfold stepT at e; simp only [hs] at e
        simp at e; subst e
        split
        · rename_i hd; exact Or.inr (Or.inl (by simp [addLog, leave, hd]))
        · exact Or.inl (by simp [addLog, leave])
    · right
      refine ⟨fun ⟨r1, r2⟩ => ⟨by omega, by simp only [sq, f1, f3, f4] at r2 ⊢; exact r2⟩, ?_⟩
      rintro (w | w | w)
      · exact Or.inl (f6 w)
      · exact Or.inr (Or.inl (by rw [f5]; exact w))
      · exact Or.inr (Or.inr (sig_other e (fun v hv => hs ⟨v, hv⟩) w))
  · -- the actor's step writes shared state
    have hto : touches (s.pc (actor a)) = true ∧ ∀ t, a ≠ .cancel t ∧ a ≠ .ctxWake t := by
      constructor
      · cases hh : touches (s.pc (actor a)) <;> simp_all
      · intro t; constructor <;> intro e2 <;> exact hto (Or.inr ⟨t, by simp [e2]⟩)
    cases a with
    | call t op => simp only [act, actor] at e hto; split at e <;> simp_all [touches]
    | cancel t => exact absurd rfl (hto.2 t).1
    | ctxWake t => exact absurd rfl (hto.2 t).2
    | step t =>
      have hto := hto.1
      simp only [actor] at hto hr
      have hsig : ∀ v, s.pc t ≠ .sSig v := fun v hv => by simp [hv, touches] at hto
      have keepSig : (∃ t v, s.pc t = .sSig v) → ∃ t' v, s'.pc t' = .sSig v := sig_other e hsig
      simp only [act] at e
      unfold stepT at e
      split at e <;> rename_i hpc <;> simp only [hpc, touches, isRecvPc] at hto hr
      all_goals (try contradiction)
      · -- sCas
        rename_i pos v
        split at e <;> (simp only [Option.some.injEq] at e; subst e)
        · rename_i hh
          right
          refine ⟨?_, ?_⟩
          · rintro ⟨r1, r2⟩
            simp only [sq, setPc] at r1 r2
            have := (h.sPosC t pos v hpc).2 hh
            simp only [sq] at this
            refine ⟨?_, r2⟩
            by_cases e2 : s.tail = s.head
            · rw [e2, hh] at r2; omega
            · have := h.ht; omega
          · rintro (w | w | w)
            · exact Or.inl w
            · exact Or.inr (Or.inl w)
            · exact Or.inr (Or.inr (keepSig w))
        · right
          exact ⟨fun r => r, fun w => by
            rcases w with w | w | w
            · exact Or.inl w
            · exact Or.inr (Or.inl w)
            · exact Or.inr (Or.inr (keepSig w))⟩
      · -- sWrite
        rename_i pos v
        simp only [Option.some.injEq] at e; subst e
        right
        refine ⟨?_, ?_⟩
        · rintro ⟨r1, r2⟩
          refine ⟨r1, ?_⟩
          simp only [sq, setPc, setSlot, upd] at r2 ⊢
          split at r2
          · rename_i e2; rw [e2]; exact r2
          · exact r2
        · rintro (w | w | w)
          · exact Or.inl w
          · exact Or.inr (Or.inl w)
          · exact Or.inr (Or.inr (keepSig w))
      · -- sPub
        rename_i pos v
        simp only [Option.some.injEq] at e; subst e
        left; intro _
        exact Or.inr (Or.inr ⟨t, v, by simp [setPc, upd]⟩)
      · -- sExt
        rename_i v c
        split at e
        · simp at e
        · rename_i hcs
          have hcs : s.cs = [] := by simpa using hcs
          simp only [Option.some.injEq] at e
          right
          refine ⟨?_, ?_⟩
          · subst e
            split
            · exact fun r => extend_ready h hcs _ (ready_setPc.1 r)
            · exact fun r => r
          · rintro (w | w | w)
            · left; subst e; split <;> simp [setPc, extend_tok, w]
            · right; left; subst e; split <;> simp [setPc, extend_abs, w]
            · exact Or.inr (Or.inr (keepSig w))
      · -- cEnter
        split at e
        · simp at e
        · simp only [Option.some.injEq] at e; subst e
          left; intro _; exact Or.inr (Or.inl rfl)
      · -- gEnter
        rename_i n
        split at e
        · simp only [Option.some.injEq] at e
          right
          refine ⟨by subst e; exact fun r => r, ?_⟩
          rintro (w | w | w)
          · left; subst e; exact w
          · right; left; subst e; exact w
          · exact Or.inr (Or.inr (keepSig w))
        · split at e
          · simp at e
          · rename_i hcs
            have hcs : s.cs = [] := by simpa using hcs
            simp only [Option.some.injEq] at e
            right
            refine ⟨by subst e; exact fun r => extend_ready h hcs _ r, ?_⟩
            rintro (w | w | w)
            · left; subst e; simp [addLog, setPc, extend_tok, w]
            · right; left; subst e; simp [addLog, setPc, extend_abs, w]
            · exact Or.inr (Or.inr (keepSig w))
theorem act_tail {s s' : State} {a : Action} (e : act s a = some s') :
    s'.tail = s.tail ∨ (∃ pos, s.pc (actor a) = .rCas pos) ∨ s.cs = [] := by
  cases a with
  | call t op => simp only [act] at e; split at e <;> simp at e; subst e; simp [addLog, setPc]
  | cancel t => simp only [act] at e; simp at e; subst e; simp
  | ctxWake t =>
    simp only [act] at e
    split at e
    · split at e <;> simp at e <;> subst e <;> simp [setPc]
    · simp at e
  | step t =>
    simp only [act, actor] at e ⊢
    unfold stepT at e
    split at e <;> rename_i hpc <;> simp only [hpc]
    all_goals (try dsimp only at e)
    all_goals (repeat' (split at e))
    all_goals (try (simp at e))
    all_goals (try subst e)
    all_goals (try (simp [addLog, setPc, enter, leave, setSlot]))
    all_goals (try (split <;> simp))
    all_goals simp_all

/-- only thread `c` ever calls `Recv` -/
def SingleConsumer (c : Tid) (as : List Action) : Prop := ∀ t, Action.call t .recv ∈ as → t = c

/-- invariant of the single-consumer discipline -/
structure WInv (c : Tid) (s : State) : Prop where
  single : ∀ t, isRecvPc (s.pc t) = true → t = c
  posTail : ∀ p, (s.pc c = .rLoop p ∨ s.pc c = .rCas p) → p = s.tail
  wake : s.pc c = .rPark → itemReady s → wakePending s

theorem winv_act {c : Tid} {s s' : State} {a : Action} (h : Inv s) (w : WInv c s)
    (hsc : ∀ t, a = .call t .recv → t = c) (e : act s a = some s') : WInv c s' := by
  have single' : ∀ t, isRecvPc (s'.pc t) = true → t = c := by
    intro t hr
    rcases act_recv_mono e t hr with h1 | h1
    · exact w.single t h1
    · exact hsc t h1
  by_cases hc : c = actor a
  · -- the consumer itself moves
    refine ⟨single', ?_, ?_⟩
    · cases a with
      | call t op =>
        simp only [actor] at hc; subst hc
        simp only [act] at e; split at e <;> simp at e; subst e
        intro p; cases op <;> simp [addLog, setPc, upd, startPc]
      | cancel t => simp only [act] at e; simp at e; subst e; exact w.posTail
      | ctxWake t =>
        simp only [actor] at hc; subst hc
        simp only [act] at e
        split at e
        · split at e <;> simp at e <;> subst e <;> intro p <;> simp [setPc, upd]
        · simp at e
      | step t =>
        simp only [actor] at hc; subst hc
        have wp := w.posTail
        simp only [act] at e
        unfold stepT at e
        split at e <;> rename_i hpc <;> simp only [hpc] at wp
        all_goals (try dsimp only at e)
        all_goals (repeat' (split at e))
        all_goals (try (simp at e))
        all_goals (try subst e)
        all_goals (intro p)
        all_goals (try (simp [addLog, setPc, enter, leave, setSlot, upd]))
        all_goals (try (split <;> simp [extend_abs]))
        all_goals (try simp_all)
    · intro hp hr
      cases a with
      | call t op =>
        simp only [actor] at hc; subst hc
        simp only [act] at e; split at e <;> simp at e; subst e
        cases op <;> simp [addLog, setPc, upd, startPc] at hp
      | cancel t => simp only [act] at e; simp at e; subst e; exact w.wake hp hr
      | ctxWake t =>
        simp only [actor] at hc; subst hc
        simp only [act] at e
        split at e
        · split at e <;> simp at e <;> subst e <;> simp [setPc, upd] at hp
        · simp at e
      | step t =>
        simp only [actor] at hc; subst hc
        have wp := w.posTail
        simp only [act] at e
        unfold stepT at e
        split at e <;> rename_i hpc <;> simp only [hpc] at wp
        all_goals (try dsimp only at e)
        all_goals (repeat' (split at e))
        all_goals (try (simp at e))
        all_goals (try subst e)
        all_goals (try (simp [addLog, setPc, enter, leave, setSlot, upd] at hp))
        -- remaining: rLoop → rPark
        rename_i pos hne hlt hd
        have := wp pos (Or.inl rfl)
        subst this
        obtain ⟨_, r2⟩ := hr
        simp only [sq, leave] at r2
        omega
  · -- another thread moves
    have hpcc : s'.pc c = s.pc c := act_pc_other e c hc
    have hnr : isRecvPc (s.pc (actor a)) = false := by
      cases hh : isRecvPc (s.pc (actor a))
      · rfl
      · exact absurd (w.single _ hh).symm hc
    refine ⟨single', ?_, ?_⟩
    · intro p hp
      rw [hpcc] at hp
      have hpt := w.posTail p hp
      rcases act_tail e with h1 | ⟨pos, h1⟩ | h1
      · rw [h1]; exact hpt
      · simp [h1, isRecvPc] at hnr
      · have := noCS h h1 c
        rcases hp with hp | hp <;> simp [hp, Pc.inCS] at this
    · intro hp hr
      rw [hpcc] at hp
      rcases wake_step h e hnr with h1 | ⟨h1, h2⟩
      · exact h1 hr
      · exact h2 (w.wake hp (h1 hr))

theorem winv_init {c : Tid} {cap : Nat} {x : Int} {s : State} (h : init cap x = some s) : WInv c s := by
  unfold init at h
  split at h
  · simp at h
  · simp at h; subst h
    exact ⟨fun t hr => by simp [isRecvPc] at hr, fun p hp => by simp at hp, fun hp => by simp at hp⟩

/-- `Inv` and `WInv c` after every action list in which only `c` calls `Recv` -/
theorem winv_run {c : Tid} {s : State} (as : List Action) (hi : Inv s) (hw : WInv c s)
    (hsc : SingleConsumer c as) : Inv (run s as) ∧ WInv c (run s as) := by
  induction as generalizing s with
  | nil => exact ⟨hi, hw⟩
  | cons a as ih =>
    have hsc' : SingleConsumer c as := fun t m => hsc t (List.mem_cons_of_mem _ m)
    simp only [run, runCount]
    cases e : act s a with
    | some s' =>
      exact ih (inv_act hi e) (winv_act hi hw (fun t e2 => hsc t (by simp [e2])) e) hsc'
    | none =>
      have := ih hi hw hsc'
      simp only [run] at this
      exact this
end OpenFGAVerif.Proofs.Mpmc
