/-
Inductive invariant of the mpsc transition system (`Model.Mpsc`): CAS-then-link list structure,
the consumer has received exactly a prefix of the linearised sends, end sentinel only after the
last node, single-consumer wake-up safety.
-/
import OpenFGAVerif.Model.Mpsc

namespace OpenFGAVerif.Proofs.Mpsc
open OpenFGAVerif.Model.Mpsc

/-- program points of `Close` after winning `closed.Swap` -/
def inClose : Pc → Bool
  | .cSwap | .cLink _ | .cDone => true
  | _ => false

structure MInv (s : State) : Prop where
  len : s.vals.length = s.cnt
  lenT : s.valsT.length = s.cnt
  tailLe : s.tail ≤ s.cnt
  linked : ∀ k, k < s.cnt → s.nxt k = .node ∨ (s.nxt k = .nil ∧ ∃ t v, s.pc t = .mLink v k)
  last : s.nxt s.cnt = .nil ∨ (s.nxt s.cnt = .endN ∧ s.headNil = true)
  beyond : ∀ k, s.cnt < k → s.nxt k = .nil
  linkLt : ∀ t v cur, s.pc t = .mLink v cur → cur < s.cnt ∧ s.nxt cur = .nil
  linkU : ∀ t1 t2 v1 v2 cur, s.pc t1 = .mLink v1 cur → s.pc t2 = .mLink v2 cur → t1 = t2
  closer : ∀ t, inClose (s.pc t) = true → s.closed = true
  closeU : ∀ t1 t2, inClose (s.pc t1) = true → inClose (s.pc t2) = true → t1 = t2
  swap : ∀ t, s.pc t = .cSwap → s.headNil = false
  cl : ∀ t old, s.pc t = .cLink old → old = s.cnt ∧ s.headNil = true ∧ s.nxt s.cnt = .nil
  cd : ∀ t, s.pc t = .cDone → s.nxt s.cnt = .endN ∧ s.headNil = true
  nilClosed : s.headNil = true → s.closed = true
  dn : s.doneClosed = true → s.nxt s.cnt = .endN ∧ s.headNil = true
  got : s.recvd = s.vals.take s.tail
  ok : s.bad = false

theorem minv_init : MInv init := by
  constructor <;> simp [init, inClose]

theorem pc_upd {f : Nat → Pc} {t t' : Tid} {p : Pc} : upd f t p t' = if t' = t then p else f t' := rfl
theorem nxt_upd {f : Nat → Link} {i j : Nat} {l : Link} : upd f i l j = if j = i then l else f j := rfl

macro "auto" : tactic =>
  `(tactic| (constructor <;> simp only [setPc, addLog, pc_upd, nxt_upd] <;> (try grind [inClose])))

set_option maxHeartbeats 1600000 in
theorem minv_stepT {s s' : State} {t : Tid} (h : MInv s) (e : stepT s t = some s') : MInv s' := by
  obtain ⟨i1, i2, i3, i4, i5, i6, i7, iu, i8, i9, i10, i11, i12, i13, i14, i15, i16⟩ := h
  unfold stepT at e
  split at e
  · simp at e
  · rename_i v hpc
    split at e <;> (simp only [Option.some.injEq] at e; subst e) <;> auto
  · rename_i v cur hpc
    split at e <;> (simp only [Option.some.injEq] at e; subst e) <;> auto
    -- linked, after the CAS
    rename_i hc
    have hc : s.headNil = false ∧ s.cnt = cur := by simpa using hc
    intro k hk
    by_cases e : k = cur
    · subst e
      right
      refine ⟨?_, t, v, by simp⟩
      rcases i5 with i5 | i5
      · rw [← hc.2]; exact i5
      · rw [hc.1] at i5; simp at i5
    · rcases i4 k (by omega) with a | ⟨a, t', v', b⟩
      · exact Or.inl a
      · refine Or.inr ⟨a, t', v', ?_⟩
        have : t' ≠ t := fun e2 => by subst e2; rw [hpc] at b; simp at b
        simp [this, b]
  · rename_i v cur hpc
    simp only [Option.some.injEq] at e; subst e; auto
  · rename_i v hpc
    simp only [Option.some.injEq] at e; subst e; auto
  · rename_i hpc
    split at e <;> (simp only [Option.some.injEq] at e; subst e) <;> auto
  · rename_i hpc
    simp only [Option.some.injEq] at e; subst e; auto
  · rename_i old hpc
    simp only [Option.some.injEq] at e; subst e; auto
  · rename_i hpc
    simp only [Option.some.injEq] at e; subst e; auto
  · rename_i hpc
    simp only [Option.some.injEq] at e; subst e
    unfold look
    split
    · simp only [if_true]; auto
    · auto
    · split
      · auto
        rename_i v hv
        rw [i15, List.take_add_one, hv]; rfl
      · auto
  · rename_i hpc
    simp only [Option.some.injEq] at e; subst e
    unfold look
    split
    · simp only [Bool.false_eq_true, if_false]; auto
    · auto
    · split
      · auto
        rename_i v hv
        rw [i15, List.take_add_one, hv]; rfl
      · auto
  · rename_i hpc
    split at e
    · simp only [Option.some.injEq] at e; subst e; auto
    · split at e
      · simp only [Option.some.injEq] at e; subst e; auto
      · simp at e

theorem minv_act {s s' : State} {a : Action} (h : MInv s) (e : act s a = some s') : MInv s' := by
  cases a with
  | step t => exact minv_stepT h e
  | call t op =>
    obtain ⟨i1, i2, i3, i4, i5, i6, i7, iu, i8, i9, i10, i11, i12, i13, i14, i15, i16⟩ := h
    simp only [act] at e
    split at e
    · rename_i hpc
      simp only [Option.some.injEq] at e; subst e
      cases op <;> simp only [startPc] <;> auto
    · simp at e
  | ctxWake t =>
    obtain ⟨i1, i2, i3, i4, i5, i6, i7, iu, i8, i9, i10, i11, i12, i13, i14, i15, i16⟩ := h
    simp only [act] at e
    split at e
    · rename_i hc
      have hpc : s.pc t = .vPark := by simp at hc; exact hc.2
      simp only [Option.some.injEq] at e; subst e; auto
    · simp at e
  | cancel t =>
    simp only [act, Option.some.injEq] at e; subst e
    exact ⟨h.len, h.lenT, h.tailLe, h.linked, h.last, h.beyond, h.linkLt, h.linkU, h.closer, h.closeU,
      h.swap, h.cl, h.cd, h.nilClosed, h.dn, h.got, h.ok⟩

theorem run_induction {P : State → Prop} {s : State} (h0 : P s)
    (hstep : ∀ s a s', P s → act s a = some s' → P s') (as : List Action) : P (run s as) := by
  induction as generalizing s with
  | nil => exact h0
  | cons a as ih =>
    simp only [run, runCount]
    cases e : act s a with
    | some s' => exact ih (hstep s a s' h0 e)
    | none =>
      have := ih h0
      simp only [run] at this
      exact this

theorem minv_run (as : List Action) : MInv (run init as) :=
  run_induction minv_init (fun _ _ _ hs e => minv_act hs e) as

end OpenFGAVerif.Proofs.Mpsc
