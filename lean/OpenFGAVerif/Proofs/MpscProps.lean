/-
Consequences of `MInv` for the mpsc accumulator: prefix delivery, end sentinel, close semantics,
single-consumer wake-up safety, per-producer order.
-/
import OpenFGAVerif.Proofs.Mpsc
namespace OpenFGAVerif.Proofs.Mpsc
open OpenFGAVerif.Model.Mpsc

/-! ### consequences -/

/-- `Recv`/`TryRecv` hand out exactly the linearised sends, in CAS order, without gaps or repeats -/
theorem recvd_prefix {s : State} (h : MInv s) : s.recvd = s.vals.take s.tail ∧ s.tail ≤ s.vals.length := by
  exact ⟨h.got, by rw [h.len]; exact h.tailLe⟩

/-- the end sentinel is only ever found behind the last linearised node -/
theorem end_only_last {s : State} (h : MInv s) (k : Nat) (e : s.nxt k = .endN) : k = s.cnt ∧ s.headNil = true := by
  by_cases h1 : k < s.cnt
  · rcases h.linked k h1 with a | ⟨a, _⟩ <;> rw [e] at a <;> simp at a
  · by_cases h2 : s.cnt < k
    · have := h.beyond k h2; rw [e] at this; simp at this
    · have : k = s.cnt := by omega
      subst this
      rcases h.last with a | ⟨_, a⟩
      · rw [e] at a; simp at a
      · exact ⟨rfl, a⟩

def actor : Action → Tid
  | .call t _ | .step t | .ctxWake t | .cancel t => t

/-- `Recv` returns "closed" (not through its context) only after `Close` swapped `head` to nil and
the consumer has received every linearised value; `TryRecv` may also report "nothing linked yet". -/
theorem recv_false_drained {s s' : State} {t : Tid} (h : MInv s) (hpc : s.pc t = .vLoad)
    (e : stepT s t = some s') (hl : s'.log = s.log ++ [.recvRet t none]) :
    s.headNil = true ∧ s.recvd = s.vals := by
  unfold stepT at e
  simp only [hpc, Option.some.injEq] at e
  subst e
  unfold look at hl
  split at hl
  · simp [setPc] at hl
  · rename_i he
    obtain ⟨e1, e2⟩ := end_only_last h _ he
    refine ⟨e2, ?_⟩
    rw [h.got, e1, ← h.len, List.take_length]
  · split at hl
    · simp [addLog, setPc] at hl
    · simp at hl

/-- **Sends after close fail**: once `head` is nil nothing is linearised any more -/
theorem closed_no_enq {s s' : State} {a : Action} (hd : s.headNil = true) (e : act s a = some s') :
    s'.vals = s.vals ∧ s'.headNil = true ∧ (∀ t v, s'.log ≠ s.log ++ [.sendRet t v true] ∨ s.pc t = .mSig v) := by
  cases a with
  | call t op => simp only [act] at e; split at e <;> simp at e; subst e; simp [addLog, setPc, hd]
  | cancel t => simp only [act] at e; simp at e; subst e; simp [hd]
  | ctxWake t => simp only [act] at e; split at e <;> simp at e; subst e; simp [addLog, setPc, hd]
  | step t =>
    simp only [act] at e
    unfold stepT at e
    split at e <;> rename_i hpc
    all_goals (try unfold look at e)
    all_goals (repeat' (split at e))
    all_goals (try (simp at e))
    all_goals (try subst e)
    all_goals (try (simp [addLog, setPc, hd]))
    all_goals (try simp_all)
    rename_i v0
    intro t1 v1
    by_cases e1 : t = t1
    · subst e1
      by_cases e2 : v0 = v1
      · subst e2; exact Or.inr hpc
      · exact Or.inl (fun _ => e2)
    · exact Or.inl (fun h => absurd h e1)

/-- program points of the consumer -/
def isConsPc : Pc → Bool
  | .vLoad | .vPark | .tLoad => true
  | _ => false

def SingleConsumer (c : Tid) (as : List Action) : Prop :=
  ∀ t, (Action.call t .recv ∈ as ∨ Action.call t .tryRecv ∈ as) → t = c

/-- a wake-up is on its way to a parked consumer -/
def wakePending (s : State) : Prop :=
  s.sigTok = true ∨ s.doneClosed = true ∨ (∃ t v, s.pc t = .mSig v) ∨ ∃ t, s.pc t = .cDone

structure WInv (c : Tid) (s : State) : Prop where
  single : ∀ t, isConsPc (s.pc t) = true → t = c
  wake : s.pc c = .vPark → s.nxt s.tail ≠ .nil → wakePending s

macro "wauto" : tactic =>
  `(tactic| (constructor <;> simp only [setPc, addLog, pc_upd, nxt_upd, wakePending] <;> (try grind [isConsPc])))

set_option maxHeartbeats 1600000 in
theorem winv_stepT {c : Tid} {s s' : State} {t : Tid} (w : WInv c s) (e : stepT s t = some s') : WInv c s' := by
  obtain ⟨w1, w2⟩ := w
  simp only [wakePending] at w2
  unfold stepT at e
  split at e <;> rename_i hpc
  all_goals (try unfold look at e)
  all_goals (repeat' (split at e))
  all_goals (try (simp at e; done))
  all_goals (simp only [Option.some.injEq] at e; subst e)
  all_goals wauto
  -- mLink → mSig: the linking sender is now the pending signaller
  rename_i v cur
  intro _ _
  exact Or.inr (Or.inr (Or.inl ⟨t, v, by simp⟩))

theorem winv_act {c : Tid} {s s' : State} {a : Action} (w : WInv c s)
    (hsc : ∀ t, (a = .call t .recv ∨ a = .call t .tryRecv) → t = c) (e : act s a = some s') : WInv c s' := by
  cases a with
  | step t => exact winv_stepT w e
  | call t op =>
    obtain ⟨w1, w2⟩ := w
    simp only [wakePending] at w2
    simp only [act] at e
    split at e
    · rename_i hpc
      simp only [Option.some.injEq] at e; subst e
      have h1 := hsc t
      cases op <;> simp only [startPc] <;> wauto
    · simp at e
  | ctxWake t =>
    obtain ⟨w1, w2⟩ := w
    simp only [wakePending] at w2
    simp only [act] at e
    split at e
    · rename_i hc
      have hpc : s.pc t = .vPark := by simp at hc; exact hc.2
      simp only [Option.some.injEq] at e; subst e; wauto
    · simp at e
  | cancel t =>
    simp only [act, Option.some.injEq] at e; subst e
    exact ⟨w.single, w.wake⟩

theorem winv_init {c : Tid} : WInv c init :=
  ⟨fun t h => by simp [init, isConsPc] at h, fun h => by simp [init] at h⟩

theorem winv_run {c : Tid} {s : State} (as : List Action) (hw : WInv c s)
    (hsc : SingleConsumer c as) : WInv c (run s as) := by
  induction as generalizing s with
  | nil => exact hw
  | cons a as ih =>
    have hsc' : SingleConsumer c as := fun t m => hsc t (by
      rcases m with m | m
      · exact Or.inl (List.mem_cons_of_mem _ m)
      · exact Or.inr (List.mem_cons_of_mem _ m))
    simp only [run, runCount]
    cases e : act s a with
    | some s' =>
      refine ih (winv_act hw (fun t e2 => hsc t ?_) e) hsc'
      rcases e2 with e2 | e2 <;> simp [e2]
    | none =>
      have := ih hw hsc'
      simp only [run] at this
      exact this

/-! ### per-producer order -/

def pendingS : Pc → List Val
  | .mLink v _ | .mSig v => [v]
  | _ => []

def sendVal (t : Tid) : Ev → Option Val
  | .sendRet t' v true => if t' = t then some v else none
  | _ => none

/-- values of `t`'s successful `Send`s in program order -/
def sendsOf (t : Tid) (log : List Ev) : List Val := log.filterMap (sendVal t)
/-- values linearised by `t`, in linearisation order -/
def sentOf (t : Tid) (s : State) : List Val :=
  (s.valsT.zip s.vals).filterMap (fun x => if x.1 = t then some x.2 else none)

def PInv (s : State) : Prop := ∀ t, sendsOf t s.log ++ pendingS (s.pc t) = sentOf t s

theorem pinv_stepT {s s' : State} {t : Tid} (h : MInv s) (p : PInv s) (e : stepT s t = some s') : PInv s' := by
  have hl : s.valsT.length = s.vals.length := by rw [h.len, h.lenT]
  unfold stepT at e
  split at e <;> rename_i hpc
  all_goals (try unfold look at e)
  all_goals (repeat' (split at e))
  all_goals (try (simp at e; done))
  all_goals (simp only [Option.some.injEq] at e; subst e)
  all_goals (intro t'; have pt := p t'; by_cases e1 : t' = t)
  all_goals (simp only [sendsOf, sentOf, setPc, addLog, pc_upd, List.filterMap_append] at pt ⊢)
  all_goals (try rw [List.zip_append hl])
  all_goals
    first
    | (subst e1; rw [hpc] at pt
       simp [pendingS, sendVal, List.filterMap_append, List.filterMap_cons] at pt ⊢
       first | exact pt | skip)
    | (have e2 : ¬ t = t' := fun e2 => e1 e2.symm
       simp [pendingS, sendVal, e1, e2, List.filterMap_append, List.filterMap_cons] at pt ⊢
       first | exact pt | skip)
  all_goals (rw [hpc]; simpa [pendingS] using pt)

theorem pinv_act {s s' : State} {a : Action} (h : MInv s) (p : PInv s) (e : act s a = some s') : PInv s' := by
  cases a with
  | step t => exact pinv_stepT h p e
  | call t op =>
    simp only [act] at e
    split at e
    · rename_i hpc
      simp only [Option.some.injEq] at e; subst e
      intro t'; have pt := p t'
      simp only [sendsOf, sentOf, setPc, addLog, pc_upd, List.filterMap_append] at pt ⊢
      by_cases e1 : t' = t
      · subst e1; rw [hpc] at pt
        cases op <;> simpa [pendingS, sendVal, startPc, List.filterMap_cons] using pt
      · simpa [pendingS, sendVal, e1, List.filterMap_cons] using pt
    · simp at e
  | ctxWake t =>
    simp only [act] at e
    split at e
    · rename_i hc
      have hpc : s.pc t = .vPark := by simp at hc; exact hc.2
      simp only [Option.some.injEq] at e; subst e
      intro t'; have pt := p t'
      simp only [sendsOf, sentOf, setPc, addLog, pc_upd, List.filterMap_append] at pt ⊢
      by_cases e1 : t' = t
      · subst e1; rw [hpc] at pt
        simpa [pendingS, sendVal, List.filterMap_cons] using pt
      · simpa [pendingS, sendVal, e1, List.filterMap_cons] using pt
    · simp at e
  | cancel t =>
    simp only [act, Option.some.injEq] at e; subst e
    exact p

theorem pinv_run (as : List Action) : MInv (run init as) ∧ PInv (run init as) :=
  run_induction (P := fun s => MInv s ∧ PInv s)
    ⟨minv_init, fun t => by simp [sendsOf, sentOf, pendingS, init]⟩
    (fun _ _ _ hs e => ⟨minv_act hs.1 e, pinv_act hs.1 hs.2 e⟩) as

end OpenFGAVerif.Proofs.Mpsc
