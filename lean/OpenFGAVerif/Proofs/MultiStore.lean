/-
C16, proofs: the generic interleaving theorem and locality of the concrete shared state.
-/
import OpenFGAVerif.Model.MultiStore

namespace OpenFGAVerif.Proofs.MultiStore
open OpenFGAVerif.Model.MultiStore

/-! ### interleaving = product (generic) -/

theorem onStore_cons_same {α : Type} (b : Nat) (x : α) (l : List (Nat × α)) : onStore b ((b, x) :: l) = x :: onStore b l := by
  simp [onStore]

theorem onStore_cons_other {α : Type} (a b : Nat) (x : α) (l : List (Nat × α)) (h : a ≠ b) :
    onStore b ((a, x) :: l) = onStore b l := by
  simp [onStore, h]

/-- **store_frame over histories**: run any interleaved history on the shared implementation; the projection on store `b`
and the answers given to store `b` are exactly what `b`'s own part of the history produces when run alone on `b`'s
initial projection. -/
theorem interleaving {G S O R : Type} (impl : Impl G S O R) (spec : Spec S O R) (h : Local impl spec)
    (hist : List (Nat × O)) (g : G) (b : Nat) :
    impl.proj (runImpl impl g hist).1 b = (runSpec spec (impl.proj g b) (onStore b hist)).1 ∧
    onStore b (runImpl impl g hist).2 = (runSpec spec (impl.proj g b) (onStore b hist)).2 := by
  induction hist generalizing g with
  | nil => simp [runImpl, runSpec, onStore]
  | cons p rest ih =>
    obtain ⟨a, o⟩ := p
    simp only [runImpl]
    by_cases hab : a = b
    · subst hab
      rw [onStore_cons_same]
      simp only [runSpec]
      have ih' := ih (impl.step g a o).1
      rw [h.own g a o] at ih'
      refine ⟨ih'.1, ?_⟩
      rw [onStore_cons_same, h.res g a o, ih'.2]
    · rw [onStore_cons_other a b o rest hab]
      have ih' := ih (impl.step g a o).1
      rw [h.frame g a b o (fun e => hab e.symm)] at ih'
      refine ⟨ih'.1, ?_⟩
      rw [onStore_cons_other a b _ _ hab]
      exact ih'.2

/-! ### tables with a store column -/

theorem sel_append {α : Type} (tbl : List (Nat × α)) (a b : Nat) (x : α) :
    sel (tbl ++ [(a, x)]) b = sel tbl b ++ (if a = b then [x] else []) := by
  unfold sel
  by_cases h : a = b <;> simp [h]

theorem sel_dropWhere_same {α : Type} (tbl : List (Nat × α)) (a : Nat) (p : α → Bool) :
    sel (dropWhere tbl a p) a = (sel tbl a).filter (fun x => !p x) := by
  unfold sel dropWhere
  induction tbl with
  | nil => rfl
  | cons r rs ih =>
    obtain ⟨s, x⟩ := r
    by_cases hs : s = a
    · subst hs
      cases hp : p x <;> simp_all
    · simp_all

theorem sel_dropWhere_other {α : Type} (tbl : List (Nat × α)) (a b : Nat) (p : α → Bool) (h : b ≠ a) :
    sel (dropWhere tbl a p) b = sel tbl b := by
  unfold sel dropWhere
  induction tbl with
  | nil => rfl
  | cons r rs ih =>
    obtain ⟨s, x⟩ := r
    by_cases hs : s = a
    · subst hs
      have : ¬ s = b := fun e => h e.symm
      cases hp : p x <;> simp_all
    · by_cases hb : s = b <;> simp_all

variable {Tup Q Ans : Type} [DecidableEq Tup] [DecidableEq Q]

/-- **every operation of the shared implementation is local to its store** -/
theorem shared_local (eval : List Tup → Option Nat → Q → Ans) : Local (shared eval) (one eval) where
  own := by
    intro g a o
    cases o with
    | create =>
      simp only [shared, one, sharedStep, oneStep, proj]
      rw [sel_append, sel_dropWhere_same]
      simp
    | write t =>
      show proj (sharedStep eval g a (.write t)).1 a = (oneStep eval (proj g a) (.write t)).1
      simp only [sharedStep, oneStep]
      by_cases hc : (sel g.tuples a).contains t = true
      · have hc' : (proj g a).tuples.contains t = true := hc
        rw [if_pos hc, if_pos hc']
      · have hc' : ¬ (proj g a).tuples.contains t = true := hc
        rw [if_neg hc, if_neg hc']
        simp only [proj, sel_append, ↓reduceIte]
    | delete t =>
      show proj (sharedStep eval g a (.delete t)).1 a = (oneStep eval (proj g a) (.delete t)).1
      simp only [sharedStep, oneStep]
      by_cases hc : (sel g.tuples a).contains t = true
      · have hc' : (proj g a).tuples.contains t = true := hc
        rw [if_pos hc, if_pos hc']
        simp only [proj, sel_append, ↓reduceIte, sel_dropWhere_same]
        congr 1
        apply List.filter_congr
        intro x _
        by_cases hx : x = t <;> simp [hx]
      · have hc' : ¬ (proj g a).tuples.contains t = true := hc
        rw [if_neg hc, if_neg hc']
    | read => rfl
    | readChanges => rfl
    | query q =>
      show proj (sharedStep eval g a (.query q)).1 a = (oneStep eval (proj g a) (.query q)).1
      simp only [sharedStep, oneStep]
      have hcache : (proj g a).cache = sel g.cache a := rfl
      rw [hcache]
      cases hf : (sel g.cache a).find? (·.1 = q) with
      | some e => rfl
      | none => simp only [proj, sel_append, ↓reduceIte]
    | queryFresh q => rfl
    | writeModel v =>
      simp only [shared, one, sharedStep, oneStep, proj, sel_append, ↓reduceIte]
    | readModels => rfl
    | writeAsserts as =>
      simp only [shared, one, sharedStep, oneStep, proj, sel_append, ↓reduceIte, sel_dropWhere_same]
      congr 2
      apply List.filter_congr
      intro x _
      by_cases hx : x.1 = (sel g.models a).length <;> simp [hx]
    | readAsserts => rfl
    | getStore => rfl
    | deleteStore =>
      simp only [shared, one, sharedStep, oneStep, proj]
      rw [sel_dropWhere_same]
      simp
  res := by
    intro g a o
    cases o with
    | write t =>
      show (sharedStep eval g a (.write t)).2 = (oneStep eval (proj g a) (.write t)).2
      simp only [sharedStep, oneStep]
      by_cases hc : (sel g.tuples a).contains t = true
      · have hc' : (proj g a).tuples.contains t = true := hc
        rw [if_pos hc, if_pos hc']
      · have hc' : ¬ (proj g a).tuples.contains t = true := hc
        rw [if_neg hc, if_neg hc']
    | delete t =>
      show (sharedStep eval g a (.delete t)).2 = (oneStep eval (proj g a) (.delete t)).2
      simp only [sharedStep, oneStep]
      by_cases hc : (sel g.tuples a).contains t = true
      · have hc' : (proj g a).tuples.contains t = true := hc
        rw [if_pos hc, if_pos hc']
      · have hc' : ¬ (proj g a).tuples.contains t = true := hc
        rw [if_neg hc, if_neg hc']
    | query q =>
      show (sharedStep eval g a (.query q)).2 = (oneStep eval (proj g a) (.query q)).2
      simp only [sharedStep, oneStep]
      have hcache : (proj g a).cache = sel g.cache a := rfl
      rw [hcache]
      cases hf : (sel g.cache a).find? (·.1 = q) <;> rfl
    | _ => rfl
  frame := by
    intro g a b o hb
    have hab : ¬ a = b := fun e => hb e.symm
    cases o with
    | create =>
      simp only [shared, sharedStep, proj]
      rw [sel_append, sel_dropWhere_other _ _ _ _ hb]
      simp [hab]
    | write t =>
      show proj (sharedStep eval g a (.write t)).1 b = proj g b
      simp only [sharedStep]
      by_cases hc : (sel g.tuples a).contains t = true
      · rw [if_pos hc]
      · rw [if_neg hc]
        simp only [proj, sel_append, hab, ↓reduceIte, List.append_nil]
    | delete t =>
      show proj (sharedStep eval g a (.delete t)).1 b = proj g b
      simp only [sharedStep]
      by_cases hc : (sel g.tuples a).contains t = true
      · rw [if_pos hc]
        simp only [proj, sel_append, hab, ↓reduceIte, List.append_nil, sel_dropWhere_other _ _ _ _ hb]
      · rw [if_neg hc]
    | read => rfl
    | readChanges => rfl
    | query q =>
      show proj (sharedStep eval g a (.query q)).1 b = proj g b
      simp only [sharedStep]
      cases hf : (sel g.cache a).find? (·.1 = q) with
      | some e => rfl
      | none => simp only [proj, sel_append, hab, ↓reduceIte, List.append_nil]
    | queryFresh q => rfl
    | writeModel v => simp only [shared, sharedStep, proj, sel_append, hab, ↓reduceIte, List.append_nil]
    | readModels => rfl
    | writeAsserts as =>
      simp only [shared, sharedStep, proj, sel_append, hab, ↓reduceIte, List.append_nil, sel_dropWhere_other _ _ _ _ hb]
    | readAsserts => rfl
    | getStore => rfl
    | deleteStore =>
      simp only [shared, sharedStep, proj]
      rw [sel_dropWhere_other _ _ _ _ hb]

end OpenFGAVerif.Proofs.MultiStore
