/-
Proofs for C14: following continuation tokens concatenates to exactly the item list — for EVERY list and EVERY page
size ≥ 1 (induction on the fuel / the remaining suffix), for the three token disciplines of the code:
offset tokens (memory `read`; clamped variant of ListStores / ReadAuthorizationModels), key tokens with a look-ahead
row (SQL ReadPage / ListStores / ReadAuthorizationModels) and "strictly after the last returned key" (ReadChanges).
-/
import OpenFGAVerif.Model.Paging

namespace OpenFGAVerif.Proofs.Paging
open OpenFGAVerif.Model.Paging


theorem memReadPage_nat {α : Type} (items : List α) (ps k : Nat) (hk : k ≤ items.length) :
    memReadPage items ps (k : Int) =
      if ps ≠ 0 ∧ ps < (items.drop k).length then .page ((items.drop k).take ps) (some ((k + ps : Nat) : Int))
      else .page (items.drop k) none := by
  unfold memReadPage
  have h0 : ¬ ((k : Int) < 0 ∨ (k : Int) > (items.length : Int)) := by omega
  have h1 : ((k : Int)).toNat = k := by omega
  have h2 : (k : Int) + (ps : Int) = ((k + ps : Nat) : Int) := by omega
  simp only [h0, if_false, h1, h2]

theorem followMemRead_flatten {α : Type} (items : List α) (ps : Nat) (hps : 1 ≤ ps) :
    ∀ fuel k, k ≤ items.length → items.length - k < fuel →
      (followMemRead items ps fuel k).map List.flatten = some (items.drop k) := by
  intro fuel
  induction fuel with
  | zero => intro k _ h; omega
  | succ fuel ih =>
    intro k hk hf
    unfold followMemRead
    rw [memReadPage_nat items ps k hk]
    by_cases hlt : ps ≠ 0 ∧ ps < (items.drop k).length
    · rw [if_pos hlt]
      have hlen : ps < items.length - k := by simpa using hlt.2
      have hn : ¬ (((k + ps : Nat) : Int) < 0) := by omega
      have e : (((k + ps : Nat) : Int)).toNat = k + ps := by omega
      simp only [hn, if_false, e]
      have := ih (k + ps) (by omega) (by omega)
      cases hrec : followMemRead items ps fuel (k + ps) with
      | none => simp [hrec] at this
      | some pages =>
        simp only [hrec, Option.map_some, Option.some.injEq] at this
        simp only [Option.map_some, List.flatten_cons, this, Option.some.injEq]
        rw [← List.drop_drop, List.take_append_drop]
    · rw [if_neg hlt]
      simp

theorem paging_offset {α : Type} (items : List α) (ps : Nat) (hps : 1 ≤ ps) :
    (followMemRead items ps (items.length + 1) 0).map List.flatten = some items := by
  have := followMemRead_flatten items ps hps (items.length + 1) 0 (by omega) (by omega)
  simpa using this


theorem memClampPage_nat {α : Type} (items : List α) (ps k : Nat) (hk : k ≤ items.length) :
    memClampPage items ps (k : Int) =
      ((items.drop k).take (min items.length (k + ps) - k),
       if min items.length (k + ps) ≠ items.length then some (min items.length (k + ps)) else none) := by
  unfold memClampPage
  have h1 : (max 0 (min (k : Int) (items.length : Int))).toNat = k := by omega
  simp only [h1]

theorem followMemClamp_flatten {α : Type} (items : List α) (ps : Nat) (hps : 1 ≤ ps) :
    ∀ fuel k, k ≤ items.length → items.length - k < fuel →
      (followMemClamp items ps fuel k).map List.flatten = some (items.drop k) := by
  intro fuel
  induction fuel with
  | zero => intro k _ h; omega
  | succ fuel ih =>
    intro k hk hf
    unfold followMemClamp
    rw [memClampPage_nat items ps k hk]
    by_cases hlt : min items.length (k + ps) ≠ items.length
    · simp only [hlt, ne_eq, not_false_eq_true, if_true]
      have hlen : k + ps < items.length := by omega
      have hmin : min items.length (k + ps) = k + ps := by omega
      rw [hmin]
      have := ih (k + ps) (by omega) (by omega)
      cases hrec : followMemClamp items ps fuel (k + ps) with
      | none => simp [hrec] at this
      | some pages =>
        simp only [hrec, Option.map_some, Option.some.injEq] at this
        simp only [Option.map_some, List.flatten_cons, this, Option.some.injEq]
        have : k + ps - k = ps := by omega
        rw [this, ← List.drop_drop, List.take_append_drop]
    · simp only [hlt, if_false]
      have hmin : min items.length (k + ps) = items.length := by omega
      have : (items.drop k).take (items.length - k) = items.drop k := by
        apply List.take_of_length_le; simp
      simp [hmin, this]

theorem paging_offset_clamp {α : Type} (items : List α) (ps : Nat) (hps : 1 ≤ ps) :
    (followMemClamp items ps (items.length + 1) 0).map List.flatten = some items := by
  have := followMemClamp_flatten items ps hps (items.length + 1) 0 (by omega) (by omega)
  simpa using this

/-! SQL -/

theorem filter_ge_suffix {α K : Type} (key : α → K) (lt : K → K → Bool) (hirr : ∀ k, lt k k = false)
    (pre : List α) (x : α) (post : List α) (hs : StrictSorted key lt (pre ++ x :: post)) :
    (pre ++ x :: post).filter (fun y => !lt (key y) (key x)) = x :: post := by
  unfold StrictSorted at hs
  rw [List.pairwise_append] at hs
  obtain ⟨_, hxp, hcross⟩ := hs
  rw [List.filter_append]
  have h1 : pre.filter (fun y => !lt (key y) (key x)) = [] := by
    rw [List.filter_eq_nil_iff]
    intro a ha
    have := (hcross a ha x (by simp)).1
    simp [this]
  have hx := List.pairwise_cons.mp hxp
  have h2 : (x :: post).filter (fun y => !lt (key y) (key x)) = x :: post := by
    rw [List.filter_eq_self]
    intro a ha
    rcases List.mem_cons.mp ha with rfl | ha
    · simp [hirr]
    · simp [(hx.1 a ha).2]
  rw [h1, h2, List.nil_append]

theorem filter_gt_suffix {α K : Type} (key : α → K) (lt : K → K → Bool) (hirr : ∀ k, lt k k = false)
    (pre : List α) (x : α) (post : List α) (hs : StrictSorted key lt (pre ++ x :: post)) :
    (pre ++ x :: post).filter (fun y => lt (key x) (key y)) = post := by
  unfold StrictSorted at hs
  rw [List.pairwise_append] at hs
  obtain ⟨_, hxp, hcross⟩ := hs
  rw [List.filter_append]
  have h1 : pre.filter (fun y => lt (key x) (key y)) = [] := by
    rw [List.filter_eq_nil_iff]
    intro a ha
    have := (hcross a ha x (by simp)).2
    simp [this]
  have hx := List.pairwise_cons.mp hxp
  have h2 : (x :: post).filter (fun y => lt (key x) (key y)) = post := by
    rw [List.filter_cons]
    simp only [hirr, Bool.false_eq_true, if_false]
    rw [List.filter_eq_self]
    intro a ha
    exact (hx.1 a ha).1
  rw [h1, h2, List.nil_append]

/-- one step of the SQL pager on the rows `suf` selected by the current token -/
theorem followSql_flatten {α K : Type} (key : α → K) (lt : K → K → Bool) (hirr : ∀ k, lt k k = false)
    (items : List α) (hs : StrictSorted key lt items) (ps : Nat) (hps : 1 ≤ ps) :
    ∀ fuel tok suf, rowsFrom key lt items tok = suf → suf <:+ items → suf.length < fuel →
      (followSql key lt items ps fuel tok).map List.flatten = some suf := by
  intro fuel
  induction fuel with
  | zero => intro _ _ _ _ h; omega
  | succ fuel ih =>
    intro tok suf hrows hsuf hlen
    unfold followSql sqlPage
    rw [hrows]
    have htake : (suf.take (ps + 1)).take ps = suf.take ps := by
      rw [List.take_take]; congr 1; omega
    have hdrop : (suf.take (ps + 1)).drop ps = (suf.drop ps).take 1 := by
      rw [List.drop_take]; congr 1; omega
    simp only [htake, hdrop]
    cases hd : suf.drop ps with
    | nil =>
      have : suf.take ps = suf := by
        have := List.take_append_drop ps suf
        rw [hd, List.append_nil] at this; exact this
      simp [this]
    | cons x post =>
      simp only [List.take_succ_cons, List.take_zero, List.head?_cons, Option.map_some]
      obtain ⟨pre0, hpre0⟩ := hsuf
      have hitems : items = (pre0 ++ suf.take ps) ++ x :: post := by
        rw [← hpre0, List.append_assoc, ← hd, List.take_append_drop]
      have hrows' : rowsFrom key lt items (some (key x)) = x :: post := by
        unfold rowsFrom
        simp only
        rw [hitems]
        exact filter_ge_suffix key lt hirr _ x post (hitems ▸ hs)
      have hsuf' : (x :: post) <:+ items := ⟨pre0 ++ suf.take ps, hitems.symm⟩
      have hlen' : (x :: post).length < fuel := by
        have h1 : (suf.drop ps).length = suf.length - ps := List.length_drop
        rw [hd] at h1
        have : suf.length - ps < suf.length := by
          have : 0 < suf.length := by
            cases suf with
            | nil => simp at hd
            | cons _ _ => simp
          omega
        omega
      have := ih (some (key x)) (x :: post) hrows' hsuf' hlen'
      cases hrec : followSql key lt items ps fuel (some (key x)) with
      | none => simp [hrec] at this
      | some pages =>
        simp only [hrec, Option.map_some, Option.some.injEq] at this
        simp only [Option.map_some, List.flatten_cons, this, Option.some.injEq]
        rw [← hd, List.take_append_drop]

theorem paging_ulid {α K : Type} (key : α → K) (lt : K → K → Bool) (hirr : ∀ k, lt k k = false)
    (items : List α) (hs : StrictSorted key lt items) (ps : Nat) (hps : 1 ≤ ps) :
    (followSql key lt items ps (items.length + 1) none).map List.flatten = some items :=
  followSql_flatten key lt hirr items hs ps hps (items.length + 1) none items rfl (List.suffix_refl _) (by omega)


def rowsAfter {α K : Type} (key : α → K) (lt : K → K → Bool) (items : List α) (tok : Option K) : List α :=
  match tok with
  | none => items
  | some k => items.filter (fun x => lt k (key x))

theorem changesPage_eq {α K : Type} (key : α → K) (lt : K → K → Bool) (items : List α) (ps : Nat) (tok : Option K) :
    changesPage key lt items ps tok =
      ((rowsAfter key lt items tok).take ps, ((rowsAfter key lt items tok).take ps).getLast?.map key) := by
  unfold changesPage rowsAfter
  cases tok <;> rfl

theorem followChanges_flatten {α K : Type} (key : α → K) (lt : K → K → Bool) (hirr : ∀ k, lt k k = false)
    (items : List α) (hs : StrictSorted key lt items) (ps : Nat) (hps : 1 ≤ ps) :
    ∀ fuel tok suf, rowsAfter key lt items tok = suf → suf <:+ items → suf.length < fuel →
      (followChanges key lt items ps fuel tok).map List.flatten = some suf := by
  intro fuel
  induction fuel with
  | zero => intro _ _ _ _ h; omega
  | succ fuel ih =>
    intro tok suf hrows hsuf hlen
    unfold followChanges
    rw [changesPage_eq, hrows]
    cases hl : (suf.take ps).getLast? with
    | none =>
      have : suf.take ps = [] := List.getLast?_eq_none_iff.mp hl
      have hnil : suf = [] := by
        cases suf with
        | nil => rfl
        | cons a as =>
          have : ps = 0 := by
            cases ps with
            | zero => rfl
            | succ n => simp at this
          omega
      simp [hnil]
    | some x =>
      simp only [Option.map_some]
      obtain ⟨ini, hini⟩ := List.getLast?_eq_some_iff.mp hl
      obtain ⟨pre0, hpre0⟩ := hsuf
      have hsplit : suf = ini ++ x :: suf.drop ps := by
        have := List.take_append_drop ps suf
        rw [hini] at this
        simpa [List.append_assoc] using this.symm
      have hitems : items = (pre0 ++ ini) ++ x :: suf.drop ps := by
        rw [← hpre0, List.append_assoc, ← hsplit]
      have hrows' : rowsAfter key lt items (some (key x)) = suf.drop ps := by
        unfold rowsAfter
        simp only
        rw [hitems]
        exact filter_gt_suffix key lt hirr _ x _ (hitems ▸ hs)
      have hsuf' : (suf.drop ps) <:+ items := ⟨(pre0 ++ ini) ++ [x], by rw [hitems]; simp [List.append_assoc]⟩
      have hlen' : (suf.drop ps).length < fuel := by
        have h1 : (suf.drop ps).length = suf.length - ps := List.length_drop
        have : 0 < suf.length := by
          cases suf with
          | nil => simp at hl
          | cons _ _ => simp
        omega
      have := ih (some (key x)) (suf.drop ps) hrows' hsuf' hlen'
      cases hrec : followChanges key lt items ps fuel (some (key x)) with
      | none => simp [hrec] at this
      | some pages =>
        simp only [hrec, Option.map_some, Option.some.injEq] at this
        simp only [Option.map_some, List.flatten_cons, this, Option.some.injEq]
        exact List.take_append_drop ps suf

theorem paging_changes {α K : Type} (key : α → K) (lt : K → K → Bool) (hirr : ∀ k, lt k k = false)
    (items : List α) (hs : StrictSorted key lt items) (ps : Nat) (hps : 1 ≤ ps) :
    (followChanges key lt items ps (items.length + 1) none).map List.flatten = some items :=
  followChanges_flatten key lt hirr items hs ps hps (items.length + 1) none items rfl (List.suffix_refl _) (by omega)

end OpenFGAVerif.Proofs.Paging
