/-
`recursive_sem` — the recursive strategy (userset form) against the least-fixpoint semantics.

For a relation `typ#rel` of the recursive-applicable shape (`RecursiveV1.recRewrite`: the self-referencing
restriction occurs in directly assignable leaves under unions, everything else is weight one), with the
repaired edge set (`Strict.repaired`: only `typ#rel` usersets are followed), the repaired filter order and no
unevaluable conditions:

  * `rec_step_fwd` / `rec_step_bwd`   one unfolding of the rule of `(g, rel)`: it holds iff `g` is in the base
        set (the channel of `fastPathRewrite`, `Weight2.leftChan`) or some userset `g'#rel` stored on `g`
        (`Edge g g'`) holds — for the definite and the possible reading, and stage by stage;
  * `lfp_iff_reach`                   hence `(g, rel)` is in the least fixpoint iff a base object is reachable
        from `g` along edges (`BoolSys.lfp_closed` for ⇐, induction on the Kleene stage for ⇒);
  * `bfs_true`, `bfs_false`           the breadth-first levels with the global visited set and the depth
        counter: `true` ⇒ a base object is reachable from the level; `false` (no error) ⇒ none is, by the
        frontier invariant "every path from the initial level to a base object crosses the unvisited part of
        the current level"; the depth error and remembered condition errors claim nothing;
  * `recursive_sem`                   the handler's outcomes against `usersetHandler w o rel us`.
-/
import OpenFGAVerif.Proofs.Weight2Handler
import OpenFGAVerif.Model.RecursiveV1

namespace OpenFGAVerif.RecursiveV1
open OpenFGAVerif.Vocab OpenFGAVerif.CheckV1 OpenFGAVerif.BoolSys OpenFGAVerif.Weight2

theorem mem_usersetTuples_iff (w : World) (o r : String) (rs : List Restr) (t : Tuple) :
    t ∈ usersetTuples w o r rs ↔
      ((t ∈ w.ctxTuples ∧ isUserset t.user = true) ∨
       (t ∈ w.stored ∧ (isUserset t.user = true ∨ isTypedWildcard t.user = true))) ∧
      t.obj = o ∧ t.rel = r ∧ ∃ x ∈ rs, x.typ = userType t.user ∧ x.rel = userRel t.user := by
  simp only [usersetTuples, List.mem_append, List.mem_filter, List.mem_flatMap, List.mem_map, Bool.and_eq_true,
    decide_eq_true_eq, List.any_eq_true, Bool.or_eq_true]
  constructor
  · rintro (⟨h1, ⟨⟨⟨h2, h3⟩, h4⟩, x, hx, h5, h6⟩⟩ | ⟨t', ⟨h1, ⟨h2, h3⟩, h4⟩, x, ⟨hx, h5, h6⟩, rfl⟩)
    · exact ⟨.inl ⟨h1, h4⟩, h2, h3, x, hx, h5, h6⟩
    · exact ⟨.inr ⟨h1, h4⟩, h2, h3, x, hx, h5, h6⟩
  · rintro ⟨(⟨h1, h4⟩ | ⟨h1, h4⟩), h2, h3, x, hx, h5, h6⟩
    · exact .inl ⟨h1, ⟨⟨⟨h2, h3⟩, h4⟩, x, hx, h5, h6⟩⟩
    · exact .inr ⟨t, ⟨h1, ⟨h2, h3⟩, h4⟩, x, ⟨hx, h5, h6⟩, rfl⟩

/-- a userset handler holds iff one of its passing tuples names a node that holds (no unevaluable conditions) -/
theorem usersetHandler_iff (w : World) (leaf : BoolSys.Leaf → Prop) (neg : Expr Node → Prop) (S : Node → Prop)
    (hi : w.ideal = false) (hne : NoCondErr w) (o r : String) (rs : List Restr) :
    Holds leaf neg S (usersetHandler w o r rs) ↔
      ∃ t ∈ (filterIter w (usersetTuples w o r rs)).passed, S (splitUserset t.user) := by
  unfold usersetHandler
  simp only
  have hse := filterIter_noErr w hne _ (fun t ht => (usersetTuples_sub w o r rs t ht).1)
  rw [holds_or_iff]
  simp only [kidsOf, hi, Bool.false_eq_true, if_false, errTail, hse, List.append_nil, List.mem_filterMap,
    Option.some.injEq]
  constructor
  · rintro ⟨e, ⟨t, ht, rfl⟩, hh⟩
    exact ⟨t, ht, holds_node_iff.mp hh⟩
  · rintro ⟨t, ht, hs⟩
    exact ⟨_, ⟨t, ht, rfl⟩, holds_node_iff.mpr hs⟩

/-- passing userset tuples over a list of restrictions -/
def PassingU (w : World) (o r : String) (rs : List Restr) (t : Tuple) : Prop :=
  t ∈ (filterIter w (usersetTuples w o r rs)).passed

theorem passingU_iff (w : World) (o r : String) (rs : List Restr) (t : Tuple) :
    PassingU w o r rs t ↔ PassingU w o r (rs.filter (fun x => x.typ = userType t.user && x.rel = userRel t.user)) t := by
  unfold PassingU
  rw [mem_filterIter_passed, mem_filterIter_passed, mem_usersetTuples_iff, mem_usersetTuples_iff]
  constructor
  · rintro ⟨⟨h1, h2, h3, x, hx, h4, h5⟩, h6, h7⟩
    exact ⟨⟨h1, h2, h3, x, List.mem_filter.mpr ⟨hx, by simp [h4, h5]⟩, h4, h5⟩, h6, h7⟩
  · rintro ⟨⟨h1, h2, h3, x, hx, h4, h5⟩, h6, h7⟩
    exact ⟨⟨h1, h2, h3, x, (List.mem_filter.mp hx).1, h4, h5⟩, h6, h7⟩

theorem passingU_mono (w : World) (o r : String) (rs rs' : List Restr) (hsub : ∀ x ∈ rs, x ∈ rs') (t : Tuple)
    (h : PassingU w o r rs t) : PassingU w o r rs' t := by
  unfold PassingU at *
  rw [mem_filterIter_passed, mem_usersetTuples_iff] at *
  obtain ⟨⟨h1, h2, h3, x, hx, h4, h5⟩, h6, h7⟩ := h
  exact ⟨⟨h1, h2, h3, x, hsub x hx, h4, h5⟩, h6, h7⟩

theorem passingU_restr (w : World) (o r : String) (rs : List Restr) (t : Tuple) (h : PassingU w o r rs t) :
    ∃ x ∈ rs, x.typ = userType t.user ∧ x.rel = userRel t.user := by
  unfold PassingU at h
  rw [mem_filterIter_passed, mem_usersetTuples_iff] at h
  exact h.1.2.2.2

/-- `checkDirectUsersetTuples` (either shape: one handler, or one per weight-two restriction plus the rest)
holds iff a passing userset tuple over *all* userset restrictions names a node that holds -/
theorem usersetsExpr_iff (w : World) (leaf : BoolSys.Leaf → Prop) (neg : Expr Node → Prop) (S : Node → Prop)
    (hi : w.ideal = false) (hne : NoCondErr w) (o r : String) (restrs : List Restr) :
    Holds leaf neg S (usersetsExpr w o r restrs) ↔
      ∃ t, PassingU w o r (restrs.filter (fun x => x.rel ≠ "")) t ∧ S (splitUserset t.user) := by
  unfold usersetsExpr
  simp only
  split
  · rw [usersetHandler_iff w leaf neg S hi hne]
    constructor
    · rintro ⟨t, ht, hs⟩; exact ⟨t, ht, hs⟩
    · rintro ⟨t, ht, hs⟩; exact ⟨t, ht, hs⟩
  · rw [holds_or_iff]
    constructor
    · rintro ⟨e, he, hhe⟩
      rcases List.mem_append.mp he with he | he
      · obtain ⟨x, hx, rfl⟩ := List.mem_map.mp he
        obtain ⟨t, ht, hs⟩ := (usersetHandler_iff w leaf neg S hi hne o r [x]).mp hhe
        refine ⟨t, passingU_mono w o r [x] _ ?_ t ht, hs⟩
        intro y hy; simp at hy; subst hy; exact (List.mem_filter.mp hx).1
      · split at he
        · cases he
        · rcases List.mem_singleton.mp he with rfl
          obtain ⟨t, ht, hs⟩ := (usersetHandler_iff w leaf neg S hi hne o r _).mp hhe
          exact ⟨t, passingU_mono w o r _ _ (fun y hy => (List.mem_filter.mp hy).1) t ht, hs⟩
    · rintro ⟨t, ht, hs⟩
      obtain ⟨x, hx, hx1, hx2⟩ := passingU_restr w o r _ t ht
      have hmatch : ∀ rs : List Restr, x ∈ rs → PassingU w o r rs t := by
        intro rs hxr
        unfold PassingU at ht ⊢
        rw [mem_filterIter_passed, mem_usersetTuples_iff] at ht ⊢
        obtain ⟨⟨h1, h2, h3, _⟩, h6, h7⟩ := ht
        exact ⟨⟨h1, h2, h3, x, hxr, hx1, hx2⟩, h6, h7⟩
      by_cases hw2 : w.aux.get s!"w2:{typeOf o}#{r}:{x.typ}#{x.rel}" false = true
      · refine ⟨usersetHandler w o r [x], List.mem_append_left _ (List.mem_map.mpr ⟨x, List.mem_filter.mpr ⟨hx, hw2⟩, rfl⟩), ?_⟩
        exact (usersetHandler_iff w leaf neg S hi hne o r [x]).mpr ⟨t, hmatch [x] (by simp), hs⟩
      · have hxrest : x ∈ (restrs.filter (fun x => x.rel ≠ "")).filter
            (fun x => !(w.aux.get s!"w2:{typeOf o}#{r}:{x.typ}#{x.rel}" false)) :=
          List.mem_filter.mpr ⟨hx, by simpa using hw2⟩
        have hne' : ((restrs.filter (fun x => x.rel ≠ "")).filter
            (fun x => !(w.aux.get s!"w2:{typeOf o}#{r}:{x.typ}#{x.rel}" false))).isEmpty = false := by
          cases hl : (restrs.filter (fun x => x.rel ≠ "")).filter
            (fun x => !(w.aux.get s!"w2:{typeOf o}#{r}:{x.typ}#{x.rel}" false)) with
          | nil => rw [hl] at hxrest; cases hxrest
          | cons _ _ => rfl
        refine ⟨usersetHandler w o r ((restrs.filter (fun x => x.rel ≠ "")).filter
            (fun x => !(w.aux.get s!"w2:{typeOf o}#{r}:{x.typ}#{x.rel}" false))), List.mem_append_right _ ?_, ?_⟩
        · rw [if_neg (by rw [hne']; exact Bool.false_ne_true)]; exact List.mem_singleton.mpr rfl
        · exact (usersetHandler_iff w leaf neg S hi hne o r _).mpr ⟨t, hmatch _ hxrest, hs⟩

section direct
variable (w : World) (hi : w.ideal = false) (hcs : ConcreteSubject w) (hne : NoCondErr w) (hnd : NoDupKeys w)
variable (leaf : BoolSys.Leaf → Prop) (neg : Expr Node → Prop) (htt : leaf .tt) (hff : ¬ leaf .ff)

include hi hcs hne hnd htt hff in
/-- `checkDirect`, for any set of true nodes: the leaf of the fast path finds a tuple, or a passing userset
tuple names a true node -/
theorem directExpr_cases (S : Node → Prop) (o r : String) (rd : RelDef) (hf : w.model.findRel (typeOf o) r = some rd) :
    Holds leaf neg S (directExpr w o r rd.restrs) ↔
      DirectHit w (pubAssignable rd.restrs (userType w.req.user)) o r ∨
      ∃ t, PassingU w o r (rd.restrs.filter (fun x => x.rel ≠ "")) t ∧ S (splitUserset t.user) := by
  have hnu := hcs.notUserset
  have hnw := hcs.notWildcard
  unfold directExpr
  simp only [hnu, hnw, Bool.false_eq_true, if_false, Bool.not_false, Bool.true_and]
  rw [holds_or_iff]
  constructor
  · rintro ⟨e, he, hhe⟩
    rcases List.mem_append.mp he with he | he
    · rcases List.mem_append.mp he with he | he
      · split at he
        · rcases List.mem_singleton.mp he with rfl
          rcases directLeaf_lit w hne o r with h | h
          · obtain ⟨t, ht, h1, h2, h3, h4, h5⟩ := (directLeaf_tt_iff w hnd o r).mp h
            exact .inl ⟨t, ht, h1, h2, by simp [matchesUserFilter, h3], h4, h5⟩
          · rw [h] at hhe
            exact absurd (holds_lit_iff.mp hhe) hff
        · cases he
      · split at he
        · rename_i hpub
          rcases List.mem_singleton.mp he with rfl
          rcases publicLeaf_lit w hne o r with h | h
          · obtain ⟨t, ht, h1, h2, h3, h4, h5, h6⟩ := (publicLeaf_tt_iff w o r).mp h
            refine .inl ⟨t, ht, h1, h2, ?_, h5, h6⟩
            simp only [matchesUserFilter, hnw, pubAssignable, hpub, h3, h4, Bool.not_false, Bool.true_and,
              decide_true, Bool.or_true]
          · rw [h] at hhe
            exact absurd (holds_lit_iff.mp hhe) hff
        · cases he
    · split at he
      · rcases List.mem_singleton.mp he with rfl
        exact .inr ((usersetsExpr_iff w leaf neg S hi hne o r rd.restrs).mp hhe)
      · cases he
  · rintro (⟨t, ht, h1, h2, h3, h4, h5⟩ | ⟨t, ht, hs⟩)
    · simp only [matchesUserFilter, hnw, Bool.not_false, Bool.or_eq_true, decide_eq_true_eq,
        Bool.and_eq_true] at h3
      rcases h3 with h3 | ⟨⟨hp, h3a⟩, h3b⟩
      · have hany := validForRead_restr w.model t h4 rd (by rw [h1, h2]; exact hf)
        have hdirect : (rd.restrs.any fun x => decide (x.typ = userType w.req.user) && (decide (x.rel = "") && !x.wild)) = true := by
          rw [List.any_eq_true] at hany ⊢
          obtain ⟨x, hx, hxm⟩ := hany
          rw [h3] at hxm
          simp only [restrMatchesUser, hnu, hnw, Bool.false_eq_true, if_false, Bool.and_eq_true, decide_eq_true_eq,
            Bool.not_eq_true'] at hxm
          exact ⟨x, hx, by simp [hxm.1.1, hxm.1.2, hxm.2]⟩
        refine ⟨directLeaf w o r, ?_, ?_⟩
        · rw [if_pos hdirect]; simp
        · rw [(directLeaf_tt_iff w hnd o r).mpr ⟨t, ht, h1, h2, h3, h4, h5⟩]
          exact holds_lit_iff.mpr htt
      · have hpub : (rd.restrs.any fun x => decide (x.typ = userType w.req.user) && x.wild) = true := hp.1
        refine ⟨publicLeaf w o r, ?_, ?_⟩
        · rw [if_pos hpub]; simp
        · rw [(publicLeaf_tt_iff w o r).mpr ⟨t, ht, h1, h2, h3a, h3b, h4, h5⟩]
          exact holds_lit_iff.mpr htt
    · obtain ⟨x, hx, _, _⟩ := passingU_restr w o r _ t ht
      obtain ⟨hx1, hx2⟩ := List.mem_filter.mp hx
      have hus : (rd.restrs.any fun x => decide (x.rel ≠ "")) = true := List.any_eq_true.mpr ⟨x, hx1, hx2⟩
      refine ⟨usersetsExpr w o r rd.restrs, ?_, (usersetsExpr_iff w leaf neg S hi hne o r rd.restrs).mpr ⟨t, ht, hs⟩⟩
      apply List.mem_append_right
      rw [if_pos hus]; simp

end direct

/-! ### one unfolding of the rule of the recursive relation -/

section step
variable (w : World) (hi : w.ideal = false) (hcs : ConcreteSubject w) (hne : NoCondErr w) (hnd : NoDupKeys w)
  (hctx : CtxSorted w) (I : Interp Node) (hc : Coherent (sysOf w) I)
variable (thr : Nat) (typ rel : String) (rd : RelDef) (hrd : w.model.findRel typ rel = some rd) (hrel : rel ≠ "")

/-- the configuration of the theorems: repaired filter order, only the self-referencing userset is followed -/
def cfgR (thr : Nat) : Cfg := { w2 := { order := .repaired, thr := thr }, strict := .repaired }

/-- `g'#rel` is stored on `(g, rel)` by a valid tuple whose condition is met -/
def Edge (w : World) (thr : Nat) (typ rel : String) (g g' : String) : Prop :=
  g' ∈ (expand w (cfgR thr) .userset typ rel g).passed

/-- the self-referencing restrictions among the userset restrictions -/
def selfRestrs (typ rel : String) (rd : RelDef) : List Restr :=
  (rd.restrs.filter (fun x => x.rel ≠ "")).filter (fun x => x.typ = typ && x.rel = rel)

include hrd in
theorem edge_iff (g g' : String) :
    Edge w thr typ rel g g' ↔ ∃ t, PassingU w g rel (selfRestrs typ rel rd) t ∧ (splitUserset t.user).1 = g' := by
  simp only [Edge, expand, cfgR, hrd, List.mem_map]
  constructor
  · rintro ⟨t, ht, rfl⟩; exact ⟨t, ht, rfl⟩
  · rintro ⟨t, ht, rfl⟩; exact ⟨t, ht, rfl⟩

/-- a passing tuple over the self restrictions names `(g', rel)` with `g'` of type `typ` -/
theorem passing_self (g : String) (t : Tuple) (h : PassingU w g rel (selfRestrs typ rel rd) t) :
    splitUserset t.user = ((splitUserset t.user).1, rel) ∧ typeOf (splitUserset t.user).1 = typ := by
  obtain ⟨x, hx, hx1, hx2⟩ := passingU_restr w g rel _ t h
  obtain ⟨_, hx3⟩ := List.mem_filter.mp hx
  simp only [Bool.and_eq_true, decide_eq_true_eq] at hx3
  constructor
  · have : (splitUserset t.user).2 = rel := by rw [← hx3.2, hx2]; rfl
    rw [← this]
  · rw [← hx3.1, hx1]; rfl

include hrd in
theorem edge_typed (g g' : String) (h : Edge w thr typ rel g g') : typeOf g' = typ := by
  obtain ⟨t, ht, rfl⟩ := (edge_iff w thr typ rel rd hrd g g').mp h
  exact (passing_self w typ rel rd g t ht).2

/-- "recursive-applicable" for a directly assignable leaf: every userset restriction is the self reference
or cannot lead to the subject's type -/
def RecThis (w : World) (typ rel : String) (restrs : List Restr) : Prop :=
  ∀ x ∈ restrs, x.rel ≠ "" → (x.typ = typ ∧ x.rel = rel) ∨
    ((w.model.findRel x.typ x.rel).isSome = true ∧ pathFalse w x.typ x.rel = true)

section this
variable (leaf : BoolSys.Leaf → Prop) (neg : Expr Node → Prop) (htt : leaf .tt) (hff : ¬ leaf .ff)

include hi hcs hne hnd htt hff hrd in
/-- the leaf, forwards: for any set `S` of true nodes inside the least fixpoint -/
theorem rec_this_fwd (hrt : RecThis w typ rel rd.restrs) (S : Node → Prop)
    (hS : ∀ n, S n → lfp (sysOf w) leaf neg [] n) (g : String) (hg : typeOf g = typ)
    (h : Holds leaf neg S (directExpr w g rel rd.restrs)) :
    DirectHit w (pubAssignable rd.restrs (userType w.req.user)) g rel ∨ ∃ g', Edge w thr typ rel g g' ∧ S (g', rel) := by
  rcases (directExpr_cases w hi hcs hne hnd leaf neg htt hff S g rel rd (by rw [hg]; exact hrd)).mp h with h | ⟨t, ht, hs⟩
  · exact .inl h
  · obtain ⟨x, hx, hx1, hx2⟩ := passingU_restr w g rel _ t ht
    obtain ⟨hxr, hxne⟩ := List.mem_filter.mp hx
    have hxne' : x.rel ≠ "" := by simpa using hxne
    rcases hrt x hxr hxne' with ⟨h1, h2⟩ | ⟨h1, h2⟩
    · -- the self reference: an edge
      have hpass : PassingU w g rel (selfRestrs typ rel rd) t := by
        unfold PassingU at ht ⊢
        rw [mem_filterIter_passed, mem_usersetTuples_iff] at ht ⊢
        obtain ⟨⟨k1, k2, k3, _⟩, k6, k7⟩ := ht
        exact ⟨⟨k1, k2, k3, x, List.mem_filter.mpr ⟨hx, by simp [h1, h2]⟩, hx1, hx2⟩, k6, k7⟩
      obtain ⟨hsp, _⟩ := passing_self w typ rel rd g t hpass
      refine .inr ⟨(splitUserset t.user).1, (edge_iff w thr typ rel rd hrd g _).mpr ⟨t, hpass, rfl⟩, ?_⟩
      rw [← hsp]; exact hs
    · -- a restriction that cannot lead to the subject's type: its node is false
      exfalso
      have hsplit : splitUserset t.user = ((splitUserset t.user).1, userRel t.user) := rfl
      rw [hsplit] at hs
      have htyp : typeOf (splitUserset t.user).1 = x.typ := by rw [hx1]; rfl
      refine not_lfp_of_ff w leaf neg hff _ ?_ (hS _ hs)
      apply ruleOf_pathFalse w hcs.notUserset
      · rw [← hx2]; exact hxne'
      · rw [htyp, ← hx2]; exact h1
      · rw [htyp, ← hx2]; exact h2

include hi hcs hne hnd htt hff hrd in
/-- the leaf, backwards (any `S`) -/
theorem rec_this_bwd (S : Node → Prop) (g : String) (hg : typeOf g = typ)
    (h : DirectHit w (pubAssignable rd.restrs (userType w.req.user)) g rel ∨ ∃ g', Edge w thr typ rel g g' ∧ S (g', rel)) :
    Holds leaf neg S (directExpr w g rel rd.restrs) := by
  apply (directExpr_cases w hi hcs hne hnd leaf neg htt hff S g rel rd (by rw [hg]; exact hrd)).mpr
  rcases h with h | ⟨g', he, hs⟩
  · exact .inl h
  · obtain ⟨t, ht, rfl⟩ := (edge_iff w thr typ rel rd hrd g g').mp he
    obtain ⟨hsp, _⟩ := passing_self w typ rel rd g t ht
    refine .inr ⟨t, passingU_mono w g rel _ _ (fun y hy => (List.mem_filter.mp hy).1) t ht, ?_⟩
    rw [hsp]; exact hs

end this

end step

/-! ### the rewrite of the recursive relation -/

theorem map_chans {f : Rewrite → LeftR} {R : Rewrite → Chan String → Prop} {cs : List Rewrite} {chans : List (Chan String)}
    (h : All2 (fun rw c => f rw = LeftR.chan c false ∧ R rw c) cs chans) :
    cs.map f = chans.map (fun c => LeftR.chan c false) := by
  induction h with
  | nil => rfl
  | cons h1 _ ih => simp [h1.1, ih]

section rewrite
variable (w : World) (hi : w.ideal = false) (hcs : ConcreteSubject w) (hne : NoCondErr w) (hnd : NoDupKeys w)
  (hctx : CtxSorted w) (I : Interp Node) (hc : Coherent (sysOf w) I)
variable (thr : Nat) (typ rel : String) (rd : RelDef) (hrd : w.model.findRel typ rel = some rd)

/-- the channel of `fastPathRewrite` is the *base*: the rewrite holds on `g` iff `g` is in the channel or an
edge leads to a true node -/
structure RecGood (fuel : Nat) (rw : Rewrite) (c : Chan String) : Prop where
  clean : Chan.clean c = true
  sorted : Sorted (Chan.items c)
  typed : ∀ x ∈ Chan.items c, typeOf x = typ
  fwdD : ∀ g, typeOf g = typ → ∀ S : Node → Prop, (∀ n, S n → D (sysOf w) I [] n) →
    Holds leafD I.negD S (rewriteExpr w g rel rd.restrs rw) → g ∈ Chan.items c ∨ ∃ g', Edge w thr typ rel g g' ∧ S (g', rel)
  fwdP : ∀ g, typeOf g = typ → ∀ S : Node → Prop, (∀ n, S n → P (sysOf w) I [] n) →
    Holds leafP I.negP S (rewriteExpr w g rel rd.restrs rw) → g ∈ Chan.items c ∨ ∃ g', Edge w thr typ rel g g' ∧ S (g', rel)
  bwdD : ∀ g, typeOf g = typ → g ∈ Chan.items c → HoldsD (sysOf w) I [] (rewriteExpr w g rel rd.restrs rw)
  bwdP : ∀ g, typeOf g = typ → g ∈ Chan.items c → HoldsP (sysOf w) I [] (rewriteExpr w g rel rd.restrs rw)
  edgeD : recHasThis w typ rel fuel rd.restrs rw = true → ∀ g, typeOf g = typ →
    (∃ g', Edge w thr typ rel g g' ∧ D (sysOf w) I [] (g', rel)) → HoldsD (sysOf w) I [] (rewriteExpr w g rel rd.restrs rw)
  edgeP : recHasThis w typ rel fuel rd.restrs rw = true → ∀ g, typeOf g = typ →
    (∃ g', Edge w thr typ rel g g' ∧ P (sysOf w) I [] (g', rel)) → HoldsP (sysOf w) I [] (rewriteExpr w g rel rd.restrs rw)

/-- a weight-one rewrite is in particular recursive-good (no edge is involved) -/
theorem RecGood.of_good (fuel : Nat) (rw : Rewrite) (c : Chan String)
    (hg : Good w I typ (fun g => rewriteExpr w g rel rd.restrs rw) c)
    (hnt : recHasThis w typ rel fuel rd.restrs rw = false) : RecGood w I thr typ rel rd fuel rw c := by
  refine ⟨hg.clean, hg.sorted, hg.typed, ?_, ?_, ?_, ?_, ?_, ?_⟩
  · intro g hgt S hS h
    exact .inl ((hg.defn g hgt).mpr (Holds.mono leafD I.negD hS h))
  · intro g hgt S hS h
    exact .inl ((hg.poss g hgt).mpr (Holds.mono leafP I.negP hS h))
  · intro g hgt h; exact (hg.defn g hgt).mp h
  · intro g hgt h; exact (hg.poss g hgt).mp h
  · intro h; rw [hnt] at h; cases h
  · intro h; rw [hnt] at h; cases h

include hi hcs hne hnd hctx hc hrd in
theorem leftChan_recGood :
    ∀ (fuel : Nat) (rw : Rewrite), recRewrite w typ rel fuel rd.restrs rw = true →
      ∃ c, leftChan w { order := .repaired, thr := thr } typ fuel rel rw = .chan c false ∧
        RecGood w I thr typ rel rd fuel rw c := by
  intro fuel
  induction fuel with
  | zero => intro rw h; simp [recRewrite] at h
  | succ fuel ih =>
    intro rw hw1
    -- weight-one rewrites: the weight-two theorem
    have hw1case : w1Rewrite w typ (fuel + 1) rd.restrs rw = true → recHasThis w typ rel (fuel + 1) rd.restrs rw = false →
        ∃ c, leftChan w { order := .repaired, thr := thr } typ (fuel + 1) rel rw = .chan c false ∧
          RecGood w I thr typ rel rd (fuel + 1) rw c := by
      intro h1 h2
      obtain ⟨c, hcl, hg⟩ := leftChan_good w hi hcs hne hnd hctx I hc thr typ (fuel + 1) rel rd rw hrd h1
      exact ⟨c, hcl, RecGood.of_good w I thr typ rel rd (fuel + 1) rw c hg h2⟩
    cases rw with
    | computed r' => exact hw1case (by simpa [recRewrite] using hw1) (by simp [recHasThis])
    | ttu ts cr => exact hw1case (by simpa [recRewrite] using hw1) (by simp [recHasThis])
    | inter cs => exact hw1case (by simpa [recRewrite] using hw1) (by simp [recHasThis])
    | diff b s => exact hw1case (by simpa [recRewrite] using hw1) (by simp [recHasThis])
    | this =>
      obtain ⟨h1, h2, h3, h4⟩ := leafOf_repaired w thr hctx hne typ rel
      refine ⟨[.iter (leafOf w { order := .repaired, thr := thr } typ rel).it], by simp [leftChan, h2], ?_⟩
      have hrt : RecThis w typ rel rd.restrs := by
        intro x hx hr
        have hall : rd.restrs.all (fun x => x.rel = "" || isSelf typ rel x ||
            ((w.model.findRel x.typ x.rel).isSome && pathFalse w x.typ x.rel)) = true := by
          simpa [recRewrite] using hw1
        have := List.all_eq_true.mp hall x hx
        simp only [Bool.or_eq_true, decide_eq_true_eq, Bool.and_eq_true, isSelf] at this
        rcases this with (h | h) | h
        · exact absurd h hr
        · exact .inl h
        · exact .inr h
      have hpub : leafPub w typ rel = pubAssignable rd.restrs (userType w.req.user) := by simp [leafPub, hrd]
      have hitems : Chan.items [Msg.iter (leafOf w { order := .repaired, thr := thr } typ rel).it] =
          (leafOf w { order := .repaired, thr := thr } typ rel).it.items := by simp [Chan.items, Msg.items]
      have hhit : ∀ g, typeOf g = typ → (g ∈ (leafOf w { order := .repaired, thr := thr } typ rel).it.items ↔
          DirectHit w (pubAssignable rd.restrs (userType w.req.user)) g rel) := by
        intro g hg
        rw [h4 g, hpub]
        constructor
        · rintro ⟨t, ht, h5, _, h6, h7, h8, h9⟩; exact ⟨t, ht, h5, h6, h7, h8, h9⟩
        · rintro ⟨t, ht, h5, h6, h7, h8, h9⟩; exact ⟨t, ht, h5, hg, h6, h7, h8, h9⟩
      have hre : ∀ g, rewriteExpr w g rel rd.restrs .this = directExpr w g rel rd.restrs := fun g => by simp only [rewriteExpr]
      refine ⟨by simp [Chan.clean, Msg.clean, h1], by rw [hitems]; exact h3, ?_, ?_, ?_, ?_, ?_, ?_, ?_⟩
      · intro x hx
        rw [hitems] at hx
        obtain ⟨t, _, _, h5, _⟩ := (h4 x).mp hx
        exact h5
      · intro g hg S hS h
        rw [hre] at h
        rcases rec_this_fwd w hi hcs hne hnd thr typ rel rd hrd leafD I.negD leafD_tt not_leafD_ff hrt S hS g hg h with h | h
        · exact .inl (by rw [hitems]; exact (hhit g hg).mpr h)
        · exact .inr h
      · intro g hg S hS h
        rw [hre] at h
        rcases rec_this_fwd w hi hcs hne hnd thr typ rel rd hrd leafP I.negP leafP_tt not_leafP_ff hrt S hS g hg h with h | h
        · exact .inl (by rw [hitems]; exact (hhit g hg).mpr h)
        · exact .inr h
      · intro g hg h
        rw [hre]
        exact rec_this_bwd w hi hcs hne hnd thr typ rel rd hrd leafD I.negD leafD_tt not_leafD_ff _ g hg
          (.inl ((hhit g hg).mp (by rw [hitems] at h; exact h)))
      · intro g hg h
        rw [hre]
        exact rec_this_bwd w hi hcs hne hnd thr typ rel rd hrd leafP I.negP leafP_tt not_leafP_ff _ g hg
          (.inl ((hhit g hg).mp (by rw [hitems] at h; exact h)))
      · intro _ g hg h
        rw [hre]
        exact rec_this_bwd w hi hcs hne hnd thr typ rel rd hrd leafD I.negD leafD_tt not_leafD_ff _ g hg (.inr h)
      · intro _ g hg h
        rw [hre]
        exact rec_this_bwd w hi hcs hne hnd thr typ rel rd hrd leafP I.negP leafP_tt not_leafP_ff _ g hg (.inr h)
    | union cs =>
      have hall : cs.all (fun c => recRewrite w typ rel fuel rd.restrs c || w1Rewrite w typ fuel rd.restrs c) = true := by
        simpa [recRewrite] using hw1
      -- the children, each by the recursive or by the weight-one route
      have hkids : ∀ (l : List Rewrite), (∀ c ∈ l, c ∈ cs) →
          ∃ chans, All2 (fun rw1 c1 => leftChan w { order := .repaired, thr := thr } typ fuel rel rw1 = .chan c1 false ∧
            RecGood w I thr typ rel rd fuel rw1 c1) l chans := by
        intro l
        induction l with
        | nil => intro _; exact ⟨[], .nil⟩
        | cons rw1 rest ihl =>
          intro hsub
          obtain ⟨chans, hch⟩ := ihl (fun c hc' => hsub c (List.mem_cons_of_mem _ hc'))
          have h1 := List.all_eq_true.mp hall rw1 (hsub rw1 (by simp))
          by_cases hrec : recRewrite w typ rel fuel rd.restrs rw1 = true
          · obtain ⟨c1, hc1, hg1⟩ := ih rw1 hrec
            exact ⟨c1 :: chans, .cons ⟨hc1, hg1⟩ hch⟩
          · have hw : w1Rewrite w typ fuel rd.restrs rw1 = true := by
              simp only [Bool.or_eq_true] at h1
              rcases h1 with h1 | h1
              · exact absurd h1 hrec
              · exact h1
            obtain ⟨c1, hc1, hg1⟩ := leftChan_good w hi hcs hne hnd hctx I hc thr typ fuel rel rd rw1 hrd hw
            have hnt : recHasThis w typ rel fuel rd.restrs rw1 = false := by
              -- a child that is not recursive-good cannot carry the flag: `recHasThis` is only consulted below for
              -- children with `recRewrite = true`; for this child we simply record `false` when it is not `this`/`union`
              cases hh : recHasThis w typ rel fuel rd.restrs rw1 with
              | false => rfl
              | true =>
                exfalso
                -- `recHasThis … = true` forces the shape `this` or `union`, for which `w1Rewrite` implies `recRewrite`
                cases fuel with
                | zero => simp [recHasThis] at hh
                | succ f =>
                  cases rw1 with
                  | this =>
                    apply hrec
                    simp only [recRewrite]
                    simp only [w1Rewrite] at hw
                    rw [List.all_eq_true] at hw ⊢
                    intro x hx
                    have := hw x hx
                    simp only [Bool.or_eq_true, decide_eq_true_eq, Bool.and_eq_true] at this ⊢
                    rcases this with h | h
                    · exact .inl (.inl h)
                    · exact .inr h
                  | union cs' =>
                    apply hrec
                    simp only [recRewrite]
                    simp only [w1Rewrite] at hw
                    rw [List.all_eq_true] at hw ⊢
                    intro x hx
                    simp [hw x hx]
                  | computed _ => simp [recHasThis] at hh
                  | ttu _ _ => simp [recHasThis] at hh
                  | inter _ => simp [recHasThis] at hh
                  | diff _ _ => simp [recHasThis] at hh
            exact ⟨c1 :: chans, .cons ⟨hc1, RecGood.of_good w I thr typ rel rd fuel rw1 c1 hg1 hnt⟩ hch⟩
      obtain ⟨chans, hch⟩ := hkids cs (fun _ h => h)
      have hmap : cs.map (leftChan w { order := .repaired, thr := thr } typ fuel rel) = chans.map (fun c => LeftR.chan c false) :=
        map_chans hch
      obtain ⟨out, hout, hclean, hsorted, hmem⟩ := fastPathUnion_spec thr chans
        (fun c hc' => by obtain ⟨_, _, _, hg⟩ := forall₂_mem_right hch hc'; exact hg.clean)
        (fun c hc' => by obtain ⟨_, _, _, hg⟩ := forall₂_mem_right hch hc'; exact hg.sorted)
      have hre : ∀ g, rewriteExpr w g rel rd.restrs (.union cs) = .or (cs.map (rewriteExpr w g rel rd.restrs)) :=
        fun g => by rw [rewriteExpr]
      refine ⟨out, by simp only [leftChan, hmap, combine_chans, hout], hclean, hsorted, ?_, ?_, ?_, ?_, ?_, ?_, ?_⟩
      · intro x hx
        obtain ⟨c, hc', hxc⟩ := (hmem x).mp hx
        obtain ⟨_, _, _, hg⟩ := forall₂_mem_right hch hc'
        exact hg.typed x hxc
      · intro g hg S hS h
        rw [hre] at h
        obtain ⟨e, he, hhe⟩ := holds_or_iff.mp h
        obtain ⟨rw1, hrw1, rfl⟩ := List.mem_map.mp he
        obtain ⟨c1, hc1, _, hgood⟩ := forall₂_mem_left hch hrw1
        rcases hgood.fwdD g hg S hS hhe with h | h
        · exact .inl ((hmem g).mpr ⟨c1, hc1, h⟩)
        · exact .inr h
      · intro g hg S hS h
        rw [hre] at h
        obtain ⟨e, he, hhe⟩ := holds_or_iff.mp h
        obtain ⟨rw1, hrw1, rfl⟩ := List.mem_map.mp he
        obtain ⟨c1, hc1, _, hgood⟩ := forall₂_mem_left hch hrw1
        rcases hgood.fwdP g hg S hS hhe with h | h
        · exact .inl ((hmem g).mpr ⟨c1, hc1, h⟩)
        · exact .inr h
      · intro g hg h
        rw [hre]
        obtain ⟨c1, hc1, hgc⟩ := (hmem g).mp h
        obtain ⟨rw1, hrw1, _, hgood⟩ := forall₂_mem_right hch hc1
        exact holds_or_iff.mpr ⟨_, List.mem_map.mpr ⟨rw1, hrw1, rfl⟩, hgood.bwdD g hg hgc⟩
      · intro g hg h
        rw [hre]
        obtain ⟨c1, hc1, hgc⟩ := (hmem g).mp h
        obtain ⟨rw1, hrw1, _, hgood⟩ := forall₂_mem_right hch hc1
        exact holds_or_iff.mpr ⟨_, List.mem_map.mpr ⟨rw1, hrw1, rfl⟩, hgood.bwdP g hg hgc⟩
      · intro hht g hg h
        rw [hre]
        simp only [recHasThis, List.any_eq_true, Bool.and_eq_true] at hht
        obtain ⟨rw1, hrw1, _, hht1⟩ := hht
        obtain ⟨c1, _, _, hgood⟩ := forall₂_mem_left hch hrw1
        exact holds_or_iff.mpr ⟨_, List.mem_map.mpr ⟨rw1, hrw1, rfl⟩, hgood.edgeD hht1 g hg h⟩
      · intro hht g hg h
        rw [hre]
        simp only [recHasThis, List.any_eq_true, Bool.and_eq_true] at hht
        obtain ⟨rw1, hrw1, _, hht1⟩ := hht
        obtain ⟨c1, _, _, hgood⟩ := forall₂_mem_left hch hrw1
        exact holds_or_iff.mpr ⟨_, List.mem_map.mpr ⟨rw1, hrw1, rfl⟩, hgood.edgeP hht1 g hg h⟩

end rewrite

/-! ### least fixpoint = reachability of the base along edges -/

/-- a base object is reachable along edges -/
inductive Reach (base : String → Prop) (edge : String → String → Prop) : String → Prop
  | base {g : String} : base g → Reach base edge g
  | step {g g' : String} : edge g g' → Reach base edge g' → Reach base edge g

section reach
variable (w : World) (hi : w.ideal = false) (hcs : ConcreteSubject w) (hne : NoCondErr w) (hnd : NoDupKeys w)
  (hctx : CtxSorted w) (I : Interp Node) (hc : Coherent (sysOf w) I)
variable (thr : Nat) (typ rel : String) (rd : RelDef) (hrd : w.model.findRel typ rel = some rd) (hrel : rel ≠ "")
  (hpath : w.aux.get s!"path:{typ}#{rel}" true = true)

include hcs hrd hrel hpath in
theorem rule_eq (g : String) (hg : typeOf g = typ) :
    ruleOf w (g, rel) = rewriteExpr w g rel rd.restrs rd.rewrite :=
  ruleOf_eq w hcs.notUserset g rel hrel rd (by rw [hg]; exact hrd) (by rw [hg]; exact hpath)

include hcs hrd hrel hpath in
/-- **definite semantics = reachability** -/
theorem lfpD_iff_reach (fuel : Nat) (c : Chan String) (hgood : RecGood w I thr typ rel rd fuel rd.rewrite c)
    (hht : recHasThis w typ rel fuel rd.restrs rd.rewrite = true) (g : String) (hg : typeOf g = typ) :
    D (sysOf w) I [] (g, rel) ↔ Reach (fun x => x ∈ Chan.items c) (Edge w thr typ rel) g := by
  constructor
  · rintro ⟨k, hk⟩
    induction k generalizing g with
    | zero => exact hk.elim
    | succ k ih =>
      have hh := hk.2
      have hh' : Holds leafD I.negD (iter (sysOf w) leafD I.negD [] k) (rewriteExpr w g rel rd.restrs rd.rewrite) := by
        rw [← rule_eq w hcs typ rel rd hrd hrel hpath g hg]; exact hh
      rcases hgood.fwdD g hg _ (fun n hn => iter_le_lfp (sysOf w) leafD I.negD [] k n hn) hh' with h | ⟨g', he, hs⟩
      · exact .base h
      · exact .step he (ih g' (edge_typed w thr typ rel rd hrd g g' he) hs)
  · intro h
    revert hg
    induction h with
    | @base g hb =>
      intro hg
      refine (lfp_iff_rule w leafD I.negD (g, rel)).mpr ?_
      rw [rule_eq w hcs typ rel rd hrd hrel hpath g hg]
      exact hgood.bwdD g hg hb
    | @step g g' he _ ih =>
      intro hg
      have hD := ih (edge_typed w thr typ rel rd hrd g g' he)
      refine (lfp_iff_rule w leafD I.negD (g, rel)).mpr ?_
      rw [rule_eq w hcs typ rel rd hrd hrel hpath g hg]
      exact hgood.edgeD hht g hg ⟨g', he, hD⟩

include hcs hrd hrel hpath in
/-- **possible semantics = reachability** -/
theorem lfpP_iff_reach (fuel : Nat) (c : Chan String) (hgood : RecGood w I thr typ rel rd fuel rd.rewrite c)
    (hht : recHasThis w typ rel fuel rd.restrs rd.rewrite = true) (g : String) (hg : typeOf g = typ) :
    P (sysOf w) I [] (g, rel) ↔ Reach (fun x => x ∈ Chan.items c) (Edge w thr typ rel) g := by
  constructor
  · rintro ⟨k, hk⟩
    induction k generalizing g with
    | zero => exact hk.elim
    | succ k ih =>
      have hh := hk.2
      have hh' : Holds leafP I.negP (iter (sysOf w) leafP I.negP [] k) (rewriteExpr w g rel rd.restrs rd.rewrite) := by
        rw [← rule_eq w hcs typ rel rd hrd hrel hpath g hg]; exact hh
      rcases hgood.fwdP g hg _ (fun n hn => iter_le_lfp (sysOf w) leafP I.negP [] k n hn) hh' with h | ⟨g', he, hs⟩
      · exact .base h
      · exact .step he (ih g' (edge_typed w thr typ rel rd hrd g g' he) hs)
  · intro h
    revert hg
    induction h with
    | @base g hb =>
      intro hg
      refine (lfp_iff_rule w leafP I.negP (g, rel)).mpr ?_
      rw [rule_eq w hcs typ rel rd hrd hrel hpath g hg]
      exact hgood.bwdP g hg hb
    | @step g g' he _ ih =>
      intro hg
      have hD := ih (edge_typed w thr typ rel rd hrd g g' he)
      refine (lfp_iff_rule w leafP I.negP (g, rel)).mpr ?_
      rw [rule_eq w hcs typ rel rd hrd hrel hpath g hg]
      exact hgood.edgeP hht g hg ⟨g', he, hD⟩

end reach

/-! ### the breadth-first search -/

inductive Star (edge : String → String → Prop) : String → String → Prop
  | refl (a : String) : Star edge a a
  | head {a b c : String} : edge a b → Star edge b c → Star edge a c

inductive Plus (edge : String → String → Prop) : String → String → Prop
  | one {a b : String} : edge a b → Plus edge a b
  | cons {a p b : String} : edge a p → Plus edge p b → Plus edge a b

theorem reach_of_star {base : String → Prop} {edge : String → String → Prop} {l p : String}
    (h : Star edge l p) (hp : Reach base edge p) : Reach base edge l := by
  induction h with
  | refl a => exact hp
  | head he _ ih => exact .step he (ih hp)

theorem reach_cases {base : String → Prop} {edge : String → String → Prop} {l : String} (h : Reach base edge l) :
    base l ∨ ∃ g, Plus edge l g ∧ base g := by
  induction h with
  | base hb => exact .inl hb
  | @step g g' he _ ih =>
    rcases ih with h | ⟨g2, hp, hb⟩
    · exact .inr ⟨g', .one he, h⟩
    · exact .inr ⟨g2, .cons he hp, hb⟩

theorem mem_dedupStr (l : List String) (x : String) : x ∈ dedupStr l ↔ x ∈ l := by
  unfold dedupStr
  have key : ∀ (l acc : List String), x ∈ l.foldl (fun acc x => if acc.contains x then acc else acc ++ [x]) acc ↔ (x ∈ acc ∨ x ∈ l) := by
    intro l
    induction l with
    | nil => intro acc; simp
    | cons y rest ih =>
      intro acc
      simp only [List.foldl_cons]
      rw [ih]
      by_cases hc : acc.contains y = true
      · have : y ∈ acc := by simpa using hc
        simp only [hc, if_true, List.mem_cons]
        constructor
        · rintro (h | h); exact .inl h; exact .inr (.inr h)
        · rintro (h | h | h)
          · exact .inl h
          · exact .inl (h ▸ this)
          · exact .inr h
      · simp only [hc, Bool.false_eq_true, if_false, List.mem_append, List.mem_cons, List.not_mem_nil, or_false]
        constructor
        · rintro ((h | h) | h); exact .inl h; exact .inr (.inl h); exact .inr (.inr h)
        · rintro (h | h | h); exact .inl (.inl h); exact .inl (.inr h); exact .inr h
  rw [key]; simp

section bfs
variable (w : World) (hne : NoCondErr w) (thr : Nat) (typ rel : String) (fromUser : List String) (maxDepth : Nat)

include hne in
theorem expand_noErr (p : String) : (expand w (cfgR thr) .userset typ rel p).sawErr = false := by
  unfold expand
  simp only [cfgR]
  cases hrd : w.model.findRel typ rel with
  | none => rfl
  | some rd => exact filterIter_noErr w hne _ (fun t ht => (usersetTuples_sub w p rel _ t ht).1)

/-- the unvisited part of a level, as `breadthFirstRecursiveMatch` walks it -/
def todoOf (level visited : List String) : List String := (dedupStr level).filter (fun p => !visited.contains p)

theorem mem_todoOf (level visited : List String) (p : String) : p ∈ todoOf level visited ↔ p ∈ level ∧ p ∉ visited := by
  simp [todoOf, List.mem_filter, mem_dedupStr]

include hne in
/-- one level of the search (no depth error, no unevaluable condition) -/
theorem bfs_step (fuel d : Nat) (level visited : List String) (taint : Bool) (hd : d + 1 ≠ maxDepth) (hl : level ≠ []) :
    bfs w (cfgR thr) .userset typ rel fromUser maxDepth (fuel + 1) d level visited none taint =
      (if (todoOf level visited).any (fun p => (expand w (cfgR thr) .userset typ rel p).passed.any (fun u => fromUser.contains u))
       then .ok true false taint
       else bfs w (cfgR thr) .userset typ rel fromUser maxDepth fuel (d + 1)
          ((todoOf level visited).flatMap (fun p => (expand w (cfgR thr) .userset typ rel p).passed))
          (visited ++ todoOf level visited) none taint) := by
  have hle : level.isEmpty = false := by cases level with | nil => exact absurd rfl hl | cons _ _ => rfl
  have hall : ∀ (l : List String) (f : Right → Bool), (∀ r, r.sawErr = false → f r = false) →
      (l.map (expand w (cfgR thr) .userset typ rel)).any f = false := by
    intro l f hf
    rw [List.any_eq_false]
    intro r hr
    obtain ⟨p, _, rfl⟩ := List.mem_map.mp hr
    simpa using hf _ (expand_noErr w hne thr typ rel p)
  have h1 := hall (todoOf level visited) (fun r => r.sawErr && !r.passed.isEmpty) (fun r hr => by simp [hr])
  have h2 := hall (todoOf level visited) (fun r => r.sawErr && r.passed.isEmpty) (fun r hr => by simp [hr])
  simp only [bfs, hd, if_false, hle, Bool.false_eq_true, todoOf] at h1 h2 ⊢
  simp only [h1, h2, Bool.or_false, List.any_map, List.flatMap_map, if_false, Bool.false_eq_true]
  rfl

include hne in
/-- `true` ⇒ a base object is reachable from the level -/
theorem bfs_true (fuel : Nat) :
    ∀ (d : Nat) (level visited : List String) (taint c t : Bool),
      bfs w (cfgR thr) .userset typ rel fromUser maxDepth fuel d level visited none taint = .ok true c t →
      ∃ l ∈ level, ∃ p u, Star (Edge w thr typ rel) l p ∧ Edge w thr typ rel p u ∧ u ∈ fromUser := by
  induction fuel with
  | zero => intro d level visited taint c t h; simp [bfs] at h
  | succ fuel ih =>
    intro d level visited taint c t h
    by_cases hd : d + 1 = maxDepth
    · simp [bfs, hd] at h
    · by_cases hl : level = []
      · subst hl; simp [bfs, hd] at h
      · rw [bfs_step w hne thr typ rel fromUser maxDepth fuel d level visited taint hd hl] at h
        split at h
        · rename_i hhit
          obtain ⟨p, hp, hu⟩ := List.any_eq_true.mp hhit
          obtain ⟨u, hu1, hu2⟩ := List.any_eq_true.mp hu
          exact ⟨p, ((mem_todoOf level visited p).mp hp).1, p, u, .refl p, hu1, by simpa using hu2⟩
        · obtain ⟨l', hl', p, u, hs, he, hu⟩ := ih _ _ _ _ _ _ h
          obtain ⟨p0, hp0, hl0⟩ := List.mem_flatMap.mp hl'
          exact ⟨p0, ((mem_todoOf level visited p0).mp hp0).1, p, u, .head hl0 hs, he, hu⟩

include hne in
/-- `false` without error ⇒ the search closed a set under the edges without meeting a base object -/
theorem bfs_false (fuel : Nat) :
    ∀ (d : Nat) (level visited : List String) (taint c t : Bool),
      bfs w (cfgR thr) .userset typ rel fromUser maxDepth fuel d level visited none taint = .ok false c t →
      ∃ Vf : List String, (∀ v ∈ visited, v ∈ Vf) ∧ (∀ l ∈ level, l ∈ Vf) ∧
        ∀ p ∈ Vf, p ∉ visited → ∀ u, Edge w thr typ rel p u → u ∈ Vf ∧ u ∉ fromUser := by
  induction fuel with
  | zero => intro d level visited taint c t h; simp [bfs] at h
  | succ fuel ih =>
    intro d level visited taint c t h
    by_cases hd : d + 1 = maxDepth
    · simp [bfs, hd] at h
    · by_cases hl : level = []
      · subst hl
        exact ⟨visited, fun v hv => hv, (fun l hl' => by cases hl'), fun p hp hnp => absurd hp hnp⟩
      · rw [bfs_step w hne thr typ rel fromUser maxDepth fuel d level visited taint hd hl] at h
        split at h
        · cases h
        · rename_i hnohit
          obtain ⟨Vf, h1, h2, h3⟩ := ih _ _ _ _ _ _ h
          refine ⟨Vf, fun v hv => h1 v (List.mem_append_left _ hv), ?_, ?_⟩
          · intro l hl'
            by_cases hv : l ∈ visited
            · exact h1 l (List.mem_append_left _ hv)
            · exact h1 l (List.mem_append_right _ ((mem_todoOf level visited l).mpr ⟨hl', hv⟩))
          · intro p hp hnp u hu
            by_cases hpt : p ∈ todoOf level visited
            · refine ⟨h2 u (List.mem_flatMap.mpr ⟨p, hpt, hu⟩), ?_⟩
              intro huf
              apply hnohit
              exact List.any_eq_true.mpr ⟨p, hpt, List.any_eq_true.mpr ⟨u, hu, by simpa using huf⟩⟩
            · exact h3 p hp (by
                intro hm
                rcases List.mem_append.mp hm with hm | hm
                · exact hnp hm
                · exact hpt hm) u hu

end bfs

/-! ### the handler -/

theorem beforeErr_clean (c : Chan String) (h : Chan.clean c = true) : beforeErr c = c := by
  induction c with
  | nil => rfl
  | cons m rest ih =>
    rw [Chan.clean_cons, Bool.and_eq_true] at h
    cases m with
    | err => simp [Msg.clean] at h
    | iter it => simp [beforeErr, ih h.2]

theorem hasErrMsg_clean (c : Chan String) (h : Chan.clean c = true) : hasErrMsg c = false := by
  unfold hasErrMsg
  rw [List.any_eq_false]
  intro m hm
  have := List.all_eq_true.mp h m hm
  cases m with
  | err => simp [Msg.clean] at this
  | iter it => simp

theorem hasFailIt_clean (c : Chan String) (h : Chan.clean c = true) : hasFailIt c = false := by
  unfold hasFailIt
  rw [beforeErr_clean c h, List.any_eq_false]
  intro m hm
  have := List.all_eq_true.mp h m hm
  cases m with
  | err => simp
  | iter it => simpa [Msg.clean] using this

theorem recThis_of (w : World) (typ rel : String) (restrs : List Restr) :
    ∀ (fuel : Nat) (rw : Rewrite), recRewrite w typ rel fuel restrs rw = true → recHasThis w typ rel fuel restrs rw = true →
      RecThis w typ rel restrs := by
  intro fuel
  induction fuel with
  | zero => intro rw h; simp [recRewrite] at h
  | succ fuel ih =>
    intro rw h1 h2
    cases rw with
    | this =>
      intro x hx hr
      have hall : restrs.all (fun x => x.rel = "" || isSelf typ rel x ||
          ((w.model.findRel x.typ x.rel).isSome && pathFalse w x.typ x.rel)) = true := by
        simpa [recRewrite] using h1
      have := List.all_eq_true.mp hall x hx
      simp only [Bool.or_eq_true, decide_eq_true_eq, Bool.and_eq_true, isSelf] at this
      rcases this with (h | h) | h
      · exact absurd h hr
      · exact .inl h
      · exact .inr h
    | union cs =>
      simp only [recHasThis, List.any_eq_true, Bool.and_eq_true] at h2
      obtain ⟨c, _, hc1, hc2⟩ := h2
      exact ih c hc1 hc2
    | computed _ => simp [recHasThis] at h2
    | ttu _ _ => simp [recHasThis] at h2
    | inter _ => simp [recHasThis] at h2
    | diff _ _ => simp [recHasThis] at h2

section handler
variable (w : World) (hi : w.ideal = false) (hcs : ConcreteSubject w) (hne : NoCondErr w) (hnd : NoDupKeys w)
  (hctx : CtxSorted w) (I : Interp Node) (hc : Coherent (sysOf w) I)
variable (thr : Nat) (typ rel : String) (rd : RelDef) (hrd : w.model.findRel typ rel = some rd)

include hi hcs hne hrd in
/-- the default handler over all userset restrictions of a recursive relation holds iff an edge leads to a
true node (tuples of the other restrictions name nodes that cannot be reached from the subject's type) -/
theorem handler_iff_edge (leaf : BoolSys.Leaf → Prop) (neg : Expr Node → Prop) (hff : ¬ leaf .ff)
    (hrt : RecThis w typ rel rd.restrs) (o : String) :
    Holds leaf neg (lfp (sysOf w) leaf neg []) (usersetHandler w o rel (rd.restrs.filter (fun x => x.rel ≠ ""))) ↔
      ∃ g', Edge w thr typ rel o g' ∧ lfp (sysOf w) leaf neg [] (g', rel) := by
  rw [usersetHandler_iff w leaf neg _ hi hne]
  constructor
  · rintro ⟨t, ht, hs⟩
    obtain ⟨x, hx, hx1, hx2⟩ := passingU_restr w o rel _ t ht
    obtain ⟨hxr, hxne⟩ := List.mem_filter.mp hx
    have hxne' : x.rel ≠ "" := by simpa using hxne
    rcases hrt x hxr hxne' with ⟨h1, h2⟩ | ⟨h1, h2⟩
    · have hpass : PassingU w o rel (selfRestrs typ rel rd) t := by
        have ht0 := ht
        unfold PassingU
        rw [mem_filterIter_passed, mem_usersetTuples_iff] at ht0 ⊢
        obtain ⟨⟨k1, k2, k3, _⟩, k6, k7⟩ := ht0
        exact ⟨⟨k1, k2, k3, x, List.mem_filter.mpr ⟨hx, by simp [h1, h2]⟩, hx1, hx2⟩, k6, k7⟩
      obtain ⟨hsp, _⟩ := passing_self w typ rel rd o t hpass
      refine ⟨(splitUserset t.user).1, (edge_iff w thr typ rel rd hrd o _).mpr ⟨t, hpass, rfl⟩, ?_⟩
      rw [← hsp]; exact hs
    · exfalso
      have hsplit : splitUserset t.user = ((splitUserset t.user).1, userRel t.user) := rfl
      rw [hsplit] at hs
      have htyp : typeOf (splitUserset t.user).1 = x.typ := by rw [hx1]; rfl
      refine not_lfp_of_ff w leaf neg hff _ ?_ hs
      apply ruleOf_pathFalse w hcs.notUserset
      · rw [← hx2]; exact hxne'
      · rw [htyp, ← hx2]; exact h1
      · rw [htyp, ← hx2]; exact h2
  · rintro ⟨g', he, hs⟩
    obtain ⟨t, ht, rfl⟩ := (edge_iff w thr typ rel rd hrd o g').mp he
    obtain ⟨hsp, _⟩ := passing_self w typ rel rd o t ht
    refine ⟨t, passingU_mono w o rel _ _ (fun y hy => (List.mem_filter.mp hy).1) t ht, ?_⟩
    rw [hsp]; exact hs

include hi hcs hne hnd hctx hc hrd in
/-- **recursive_sem** (userset form, repaired edge set, repaired filter order, no unevaluable condition):
every outcome of the recursive handler is sound for the default handler's expression — a `true` means the
expression definitely holds, a `false` that it does not even possibly hold; depth and condition errors claim
nothing; no outcome carries the cycle flag. -/
theorem recursive_sem (o : String) (htyp : typeOf o = typ) (hrec : recRel w typ rel = true) (maxDepth d : Nat) :
    ∀ out ∈ recursive w (cfgR thr) .userset o rel maxDepth d,
      (∀ c t, out = .ok true c t → c = false) ∧
      (∀ c t, out = .ok true c t → HoldsD (sysOf w) I [] (usersetHandler w o rel (rd.restrs.filter (fun x => x.rel ≠ "")))) ∧
      (∀ c, out = .ok false c false → c = false) ∧
      (∀ c t, out = .ok false c t → ¬ HoldsP (sysOf w) I [] (usersetHandler w o rel (rd.restrs.filter (fun x => x.rel ≠ "")))) := by
  -- unpack applicability
  simp only [recRel, Bool.and_eq_true, decide_eq_true_eq, hrd] at hrec
  obtain ⟨hrel, ⟨hpath, hrw⟩, hht⟩ := hrec
  obtain ⟨c, hcl, hgood⟩ := leftChan_recGood w hi hcs hne hnd hctx I hc thr typ rel rd hrd leftFuel rd.rewrite hrw
  have hrt := recThis_of w typ rel rd.restrs leftFuel rd.rewrite hrw hht
  have hD := lfpD_iff_reach w hcs I thr typ rel rd hrd hrel hpath leftFuel c hgood hht
  have hP := lfpP_iff_reach w hcs I thr typ rel rd hrd hrel hpath leftFuel c hgood hht
  have hHD := handler_iff_edge w hi hcs hne thr typ rel rd hrd leafD I.negD not_leafD_ff hrt o
  have hHP := handler_iff_edge w hi hcs hne thr typ rel rd hrd leafP I.negP not_leafP_ff hrt o
  -- the handler's pieces
  have hlefts : lefts w (cfgR thr) .userset typ rel = some [.chan c false] := by
    simp [lefts, cfgR, leftOfRel, hrd, hcl]
  have hse : (expand w (cfgR thr) .userset typ rel o).sawErr = false := expand_noErr w hne thr typ rel o
  have havail : [c].flatMap (fun c => Chan.items (beforeErr c)) = Chan.items c := by
    simp [beforeErr_clean c hgood.clean]
  intro out hout
  unfold recursive at hout
  simp only [htyp] at hout
  cases hpassed : (expand w (cfgR thr) .userset typ rel o).passed with
  | nil =>
    simp only [hpassed, hse, Bool.false_eq_true, if_false, List.mem_singleton] at hout
    subst hout
    refine ⟨(fun c t h => by cases h), (fun c t h => by cases h), (fun c h => by cases h; rfl), ?_⟩
    intro _ _ _ hh
    obtain ⟨g', he, _⟩ := hHP.mp hh
    simp only [Edge, hpassed] at he
    cases he
  | cons u q =>
    have e1 : [LeftR.chan c false].any LeftR.isFuel = false := rfl
    have e2 : [LeftR.chan c false].any LeftR.isSetupErr = false := rfl
    have e3 : [LeftR.chan c false].filterMap LeftR.chan? = [c] := rfl
    have e4 : [LeftR.chan c false].any LeftR.sw = false := rfl
    have e5 : ([c].any hasErrMsg || [c].any hasFailIt) = false := by
      simp [hasErrMsg_clean c hgood.clean, hasFailIt_clean c hgood.clean]
    simp only [hpassed, hlefts, e1, e2, e3, e4, e5, hse, havail, Bool.false_eq_true, if_false, Bool.or_false] at hout
    -- no cycle flag, ever
    have hedge_o : ∀ l, l ∈ u :: q → Edge w thr typ rel o l := by
      intro l hl; simp only [Edge, hpassed]; exact hl
    split at hout
    · -- a userset of the object is in the base
      rename_i hhit
      simp only [List.mem_singleton] at hout
      subst hout
      obtain ⟨l, hl, hlb⟩ := List.any_eq_true.mp hhit
      have hlb' : l ∈ Chan.items c := by simpa using hlb
      have hreach : D (sysOf w) I [] (l, rel) :=
        (hD l (edge_typed w thr typ rel rd hrd o l (hedge_o l hl))).mpr (.base hlb')
      refine ⟨(fun c t h => by cases h; rfl), (fun _ _ _ => hHD.mpr ⟨l, hedge_o l hl, hreach⟩), (fun c h => by cases h), (fun c t h => by cases h)⟩
    · rename_i hnohit
      have hnb : ∀ l ∈ u :: q, l ∉ Chan.items c := by
        intro l hl hb
        apply hnohit
        exact List.any_eq_true.mpr ⟨l, hl, by simpa using hb⟩
      split at hout
      · -- the base is empty: nothing can be reached
        rename_i hempty
        simp only [List.mem_singleton] at hout
        subst hout
        have hnil : Chan.items c = [] := by simpa using hempty
        refine ⟨(fun c t h => by cases h), (fun c t h => by cases h), (fun c h => by cases h; rfl), ?_⟩
        intro _ _ _ hh
        obtain ⟨g', he, hs⟩ := hHP.mp hh
        have := (hP g' (edge_typed w thr typ rel rd hrd o g' he)).mp hs
        rcases reach_cases this with hb | ⟨g2, _, hb⟩
        · rw [hnil] at hb; cases hb
        · rw [hnil] at hb; cases hb
      · -- the breadth-first search
        simp only [List.mem_singleton] at hout
        subst hout
        refine ⟨?_, ?_, ?_, ?_⟩
        · intro c' t' h
          obtain ⟨l, _, p, u', _, _, _⟩ := bfs_true w hne thr typ rel (Chan.items c) maxDepth bfsFuel d (u :: q) [] false c' t' h
          -- the search only ever answers `true` without the flag
          have : ∀ (fuel d : Nat) (level visited : List String) (taint : Bool),
              ∀ c'' t'', bfs w (cfgR thr) .userset typ rel (Chan.items c) maxDepth fuel d level visited none taint = .ok true c'' t'' → c'' = false := by
            intro fuel
            induction fuel with
            | zero => intro d level visited taint c'' t'' h; simp [bfs] at h
            | succ fuel ih =>
              intro d level visited taint c'' t'' h
              by_cases hd : d + 1 = maxDepth
              · simp [bfs, hd] at h
              · by_cases hl : level = []
                · subst hl; simp [bfs, hd] at h
                · rw [bfs_step w hne thr typ rel (Chan.items c) maxDepth fuel d level visited taint hd hl] at h
                  split at h
                  · cases h; rfl
                  · exact ih _ _ _ _ _ _ h
          exact this _ _ _ _ _ _ _ h
        · intro c' t' h
          obtain ⟨l, hl, p, u', hs, he, hu⟩ := bfs_true w hne thr typ rel (Chan.items c) maxDepth bfsFuel d (u :: q) [] false c' t' h
          have hl_typ := edge_typed w thr typ rel rd hrd o l (hedge_o l hl)
          have hreach : Reach (fun x => x ∈ Chan.items c) (Edge w thr typ rel) l :=
            reach_of_star hs (.step he (.base hu))
          exact hHD.mpr ⟨l, hedge_o l hl, (hD l hl_typ).mpr hreach⟩
        · intro c' h
          have : ∀ (fuel d : Nat) (level visited : List String) (taint : Bool),
              ∀ c'' t'', bfs w (cfgR thr) .userset typ rel (Chan.items c) maxDepth fuel d level visited none taint = .ok false c'' t'' → c'' = false := by
            intro fuel
            induction fuel with
            | zero => intro d level visited taint c'' t'' h; simp [bfs] at h
            | succ fuel ih =>
              intro d level visited taint c'' t'' h
              by_cases hd : d + 1 = maxDepth
              · simp [bfs, hd] at h
              · by_cases hl : level = []
                · subst hl; simp [bfs, hd] at h; exact h.1
                · rw [bfs_step w hne thr typ rel (Chan.items c) maxDepth fuel d level visited taint hd hl] at h
                  split at h
                  · cases h
                  · exact ih _ _ _ _ _ _ h
          exact this _ _ _ _ _ _ _ h
        · intro c' t' h hh
          obtain ⟨Vf, _, h2, h3⟩ := bfs_false w hne thr typ rel (Chan.items c) maxDepth bfsFuel d (u :: q) [] false c' t' h
          obtain ⟨g', he, hs⟩ := hHP.mp hh
          have hg'l : g' ∈ u :: q := by simpa [Edge, hpassed] using he
          have hreach := (hP g' (edge_typed w thr typ rel rd hrd o g' he)).mp hs
          -- everything reachable from the level stays in the closed set and is not in the base
          have hclosed : ∀ a b, Plus (Edge w thr typ rel) a b → a ∈ Vf → b ∈ Vf ∧ b ∉ Chan.items c := by
            intro a b hp
            induction hp with
            | one he' => intro ha; exact h3 _ ha (by simp) _ he'
            | cons he' _ ih => intro ha; exact ih (h3 _ ha (by simp) _ he').1
          rcases reach_cases hreach with hb | ⟨g2, hp, hb⟩
          · exact hnb g' hg'l hb
          · exact (hclosed g' g2 hp (h2 g' hg'l)).2 hb

end handler

end OpenFGAVerif.RecursiveV1
