/-
C20 (b): the reducer protocol (`Model.Reducer`) — for EVERY interleaving of the consumer, the `n` producers,
the closer and the environment (parent cancellation at any time):

* `no_blocked_sender`   : with `cap ≥ n` (the source: `make(chan checkOutcome, len(handlers))`) a producer that
                          reaches its send can always complete it at once — it is never blocked, not even while
                          the consumer is still stuck in `pool.Go` or has already returned;
* `progress`            : no deadlock — in every reachable state in which some goroutine has not finished, a
                          step of one of the goroutines is enabled (`1 ≤ limit`);
* `step_decreases`, `no_infinite_run`: every execution is finite (explicit measure);
* `all_goroutines_finish`: an execution can only stop in the state where the consumer has returned, all
                          producers are done and the closer has closed the channel;
* `unbuffered_blocks`   : the capacity is load-bearing — with an unbuffered channel, two handlers and a pool of
                          one the system reaches a state in which nothing can move until the parent context
                          is cancelled (the consumer waits in `pool.Go`, the producer waits in its send).
-/
import OpenFGAVerif.Model.Reducer

namespace OpenFGAVerif.ReducerProofs
open OpenFGAVerif.Model.Reducer

structure Inv (c : Cfg) (s : St) : Prop where
  sub_le : s.submitted ≤ c.n
  submit : ∀ k, s.cons = .submit k → s.submitted = k ∧ s.closerStarted = false
  later : (∀ k, s.cons ≠ .submit k) → s.submitted = c.n ∧ s.closerStarted = true
  recv_le : ∀ i, s.cons = .recv i → i ≤ c.n
  buf_le : s.buf ≤ s.done
  closer : s.closerDone = true → s.done = c.n ∧ s.closed = true
  closer_started : s.closerDone = true → s.closerStarted = true

theorem inv_init (c : Cfg) : Inv c init := by
  constructor <;> simp [init, St.submitted]

theorem inv_istep {c : Cfg} {s s' : St} (hi : Inv c s) (h : IStep c s s') : Inv c s' := by
  obtain ⟨h1, h2, h3, h4, h5, h6, h7⟩ := hi
  cases h with
  | submit k hc hk ha =>
    obtain ⟨e, cs⟩ := h2 k hc
    constructor <;> simp_all [St.submitted] <;> omega
  | submitDone hc =>
    obtain ⟨e, cs⟩ := h2 c.n hc
    constructor <;> simp_all [St.submitted]
  | compute hr =>
    constructor <;> simp_all [St.submitted]
    all_goals first | omega | (intro k hk; have := h2 k hk; omega) | (intro hk; have := h3 hk; omega) | skip
    all_goals (try (intro k hk; have := (h2 k hk).1; omega))
  | send hs hb =>
    constructor <;> simp_all [St.submitted]
    all_goals first | omega | (intro k hk; have := h2 k hk; omega) | (intro hk; have := h3 hk; omega) | skip
    · cases hcd : s.closerDone with
      | false => rfl
      | true => have := (h6 hcd).1; omega
  | sendCancelled ht hs hc =>
    constructor <;> simp_all [St.submitted]
    all_goals first | omega | (intro k hk; have := h2 k hk; omega) | (intro hk; have := h3 hk; omega) | skip
    · cases hcd : s.closerDone with
      | false => rfl
      | true => have := (h6 hcd).1; omega
  | closerClose hst hd hn =>
    constructor <;> simp_all [St.submitted]
  | recvNext i hc hi hb =>
    have := h3 (by intro k; rw [hc]; simp)
    constructor <;> simp_all [St.submitted] <;> omega
  | recvReturn i hc hi hb =>
    have := h3 (by intro k; rw [hc]; simp)
    constructor <;> simp_all [St.submitted, St.ret] <;> omega
  | recvClosed i hc hi hcl hb =>
    have := h3 (by intro k; rw [hc]; simp)
    constructor <;> simp_all [St.submitted] <;> omega
  | recvCtxDone i hc hi hp =>
    have := h3 (by intro k; rw [hc]; simp)
    constructor <;> simp_all [St.submitted, St.ret]
  | loopEnd hc =>
    have := h3 (by intro k; rw [hc]; simp)
    constructor <;> simp_all [St.submitted, St.ret]

theorem inv_estep {c : Cfg} {s s' : St} (hi : Inv c s) (h : EStep s s') : Inv c s' := by
  obtain ⟨h1, h2, h3, h4, h5, h6, h7⟩ := hi
  cases h with
  | parentCancel hp => constructor <;> simp_all [St.submitted]

theorem inv_reachable {c : Cfg} {s : St} (h : Reachable c s) : Inv c s := by
  induction h with
  | init => exact inv_init c
  | step _ hs ih =>
    rcases hs with hs | hs
    · exact inv_istep ih hs
    · exact inv_estep ih hs

/-- **No blocked sender.** With a buffer of at least `len(handlers)` slots, in every reachable state a
producer at its send can complete it immediately. -/
theorem no_blocked_sender (c : Cfg) (hcap : c.n ≤ c.cap) {s : St} (hr : Reachable c s) (hs : 0 < s.sending) :
    s.buf < c.cap ∧ ∃ s', IStep c s s' ∧ s'.sending = s.sending - 1 ∧ s'.done = s.done + 1 := by
  have hi := inv_reachable hr
  have h1 := hi.sub_le
  have h2 := hi.buf_le
  simp only [St.submitted] at h1
  have hb : s.buf < c.cap := by omega
  exact ⟨hb, _, IStep.send s hs hb, rfl, rfl⟩

/-- the same without the capacity fact, once cancellation is visible (the `TrySendThroughChannel` branch) -/
theorem sender_enabled_after_cancel (c : Cfg) (ht : c.trySend = true) {s : St} (hs : 0 < s.sending)
    (hc : s.cancelled = true) : ∃ s', IStep c s s' ∧ s'.sending = s.sending - 1 :=
  ⟨_, IStep.sendCancelled s ht hs hc, rfl⟩

/-- **No deadlock.** -/
theorem progress (c : Cfg) (hcap : c.n ≤ c.cap) (hl : 1 ≤ c.limit) {s : St} (hr : Reachable c s)
    (hf : ¬ Final c s) : ∃ s', IStep c s s' := by
  have hi := inv_reachable hr
  have sendOK : 0 < s.sending → ∃ s', IStep c s s' := fun h => by
    obtain ⟨_, s', hs', _⟩ := no_blocked_sender c hcap hr h; exact ⟨s', hs'⟩
  by_cases hrun : 0 < s.running
  · exact ⟨_, IStep.compute s hrun⟩
  by_cases hsend : 0 < s.sending
  · exact sendOK hsend
  have hr0 : s.running = 0 := by omega
  have hs0 : s.sending = 0 := by omega
  cases hc : s.cons with
  | submit k =>
    obtain ⟨hk, hcs⟩ := hi.submit k hc
    have hle := hi.sub_le
    by_cases hkn : k = c.n
    · subst hkn; exact ⟨_, IStep.submitDone s hc⟩
    · have : s.active < c.limit := by simp [St.active, hr0, hs0]; omega
      exact ⟨_, IStep.submit s k hc (by omega) this⟩
  | recv i =>
    have hle := hi.recv_le i hc
    obtain ⟨hsub, hst⟩ := hi.later (by intro k; rw [hc]; simp)
    by_cases hin : i = c.n
    · subst hin; exact ⟨_, IStep.loopEnd s hc⟩
    · have hlt : i < c.n := by omega
      by_cases hb : 0 < s.buf
      · exact ⟨_, IStep.recvNext s i hc hlt hb⟩
      · have hdone : s.done = c.n := by simp [St.submitted, hr0, hs0] at hsub; exact hsub
        cases hcd : s.closerDone with
        | false => exact ⟨_, IStep.closerClose s hst hcd hdone⟩
        | true =>
          have := (hi.closer hcd).2
          exact ⟨_, IStep.recvClosed s i hc hlt this (by omega)⟩
  | returned =>
    obtain ⟨hsub, hst⟩ := hi.later (by intro k; rw [hc]; simp)
    have hdone : s.done = c.n := by simp [St.submitted, hr0, hs0] at hsub; exact hsub
    cases hcd : s.closerDone with
    | false => exact ⟨_, IStep.closerClose s hst hcd hdone⟩
    | true => exact absurd ⟨hc, hr0, hs0, hdone, hcd⟩ hf

/-- **Every step makes progress towards the end** (explicit measure). -/
theorem step_decreases (c : Cfg) {s s' : St} (hi : Inv c s) (h : Step c s s') : mu c s' < mu c s := by
  have hsub := hi.sub_le
  rcases h with h | h
  · cases h with
    | submit k hc hk ha =>
      have := (hi.submit k hc).1
      simp only [mu, St.submitted, consWeight, hc] at *
      by_cases hb1 : s.closerDone = true <;> by_cases hb2 : s.parentCancelled = true <;> simp [hb1, hb2] <;> omega
    | submitDone hc =>
      simp only [mu, St.submitted, consWeight, hc] at *
      by_cases hb1 : s.closerDone = true <;> by_cases hb2 : s.parentCancelled = true <;> simp [hb1, hb2] <;> omega
    | compute hr =>
      simp only [mu, St.submitted] at *
      have e : s.running - 1 + (s.sending + 1) + s.done = s.running + s.sending + s.done := by omega
      rw [e]
      by_cases hb1 : s.closerDone = true <;> by_cases hb2 : s.parentCancelled = true <;> simp [hb1, hb2] <;> omega
    | send hs hb =>
      simp only [mu, St.submitted] at *
      have e : s.running + (s.sending - 1) + (s.done + 1) = s.running + s.sending + s.done := by omega
      rw [e]
      by_cases hb1 : s.closerDone = true <;> by_cases hb2 : s.parentCancelled = true <;> simp [hb1, hb2] <;> omega
    | sendCancelled ht hs hcn =>
      simp only [mu, St.submitted] at *
      have e : s.running + (s.sending - 1) + (s.done + 1) = s.running + s.sending + s.done := by omega
      rw [e]
      by_cases hb1 : s.closerDone = true <;> by_cases hb2 : s.parentCancelled = true <;> simp [hb1, hb2] <;> omega
    | closerClose hst hd hn =>
      simp only [mu, St.submitted, hd] at *
      split <;> simp <;> omega
    | recvNext i hc hi' hb =>
      simp only [mu, St.submitted, consWeight, hc] at *
      by_cases hb1 : s.closerDone = true <;> by_cases hb2 : s.parentCancelled = true <;> simp [hb1, hb2] <;> omega
    | recvReturn i hc hi' hb =>
      simp only [mu, St.submitted, consWeight, hc, St.ret] at *
      by_cases hb1 : s.closerDone = true <;> by_cases hb2 : s.parentCancelled = true <;> simp [hb1, hb2] <;> omega
    | recvClosed i hc hi' hcl hb =>
      simp only [mu, St.submitted, consWeight, hc] at *
      by_cases hb1 : s.closerDone = true <;> by_cases hb2 : s.parentCancelled = true <;> simp [hb1, hb2] <;> omega
    | recvCtxDone i hc hi' hp =>
      simp only [mu, St.submitted, consWeight, hc, St.ret] at *
      by_cases hb1 : s.closerDone = true <;> by_cases hb2 : s.parentCancelled = true <;> simp [hb1, hb2] <;> omega
    | loopEnd hc =>
      simp only [mu, St.submitted, consWeight, hc, St.ret] at *
      by_cases hb1 : s.closerDone = true <;> by_cases hb2 : s.parentCancelled = true <;> simp [hb1, hb2] <;> omega
  · cases h with
    | parentCancel hp =>
      simp only [mu, St.submitted, hp] at *
      split <;> simp <;> omega

/-- **Termination**: there is no infinite execution, whatever the scheduler and the environment do. -/
theorem no_infinite_run (c : Cfg) (f : Nat → St) (h0 : Reachable c (f 0)) (hstep : ∀ i, Step c (f i) (f (i + 1))) :
    False := by
  have reach : ∀ i, Reachable c (f i) := by
    intro i
    induction i with
    | zero => exact h0
    | succ i ih => exact .step ih (hstep i)
  have bound : ∀ i, mu c (f i) + i ≤ mu c (f 0) := by
    intro i
    induction i with
    | zero => simp
    | succ i ih =>
      have := step_decreases c (inv_reachable (reach i)) (hstep i)
      omega
  have := bound (mu c (f 0) + 1)
  omega

/-- **All goroutines finish**: an execution can stop only when the consumer has returned, every producer is
done and the closer has run (no goroutine of the invocation is left behind). -/
theorem all_goroutines_finish (c : Cfg) (hcap : c.n ≤ c.cap) (hl : 1 ≤ c.limit) {s : St} (hr : Reachable c s)
    (hstuck : ∀ s', ¬ IStep c s s') : Final c s := by
  apply Classical.byContradiction
  intro hf
  obtain ⟨s', hs'⟩ := progress c hcap hl hr hf
  exact hstuck s' hs'

/-- in the final state nothing of the invocation is running and the channel is closed -/
theorem final_quiescent (c : Cfg) {s : St} (hr : Reachable c s) (hf : Final c s) :
    s.active = 0 ∧ s.closed = true ∧ s.submitted = c.n := by
  obtain ⟨_, h2, h3, h4, h5⟩ := hf
  have hi := inv_reachable hr
  exact ⟨by simp [St.active, h2, h3], (hi.closer h5).2, by simp [St.submitted, h2, h3, h4]⟩

/-! ### the capacity is load-bearing -/

def unbufferedCfg : Cfg := { n := 2, cap := 0, limit := 1, trySend := true, deferCancel := true }

def stuckState : St := { running := 0, sending := 1, cons := .submit 1 }

/-- With an unbuffered channel (`make(chan checkOutcome)`), two handlers and a pool of one: the consumer sits
in `pool.Go` for the second handler, the first producer sits in its send, nobody receives — no goroutine can
move (only a cancellation of the parent context unblocks them). -/
theorem unbuffered_blocks :
    Reachable unbufferedCfg stuckState ∧ ¬ Final unbufferedCfg stuckState ∧ ∀ s', ¬ IStep unbufferedCfg stuckState s' := by
  refine ⟨?_, ?_, ?_⟩
  · have s1 : Reachable unbufferedCfg { running := 1, cons := .submit 1 } :=
      .step .init (Or.inl (IStep.submit init 0 rfl (by decide) (by decide)))
    exact .step s1 (Or.inl (IStep.compute _ (by decide)))
  · intro h; exact absurd h.1 (by decide)
  · intro s' h
    cases h <;> simp_all [stuckState, unbufferedCfg, St.active]

/-- the same configuration with the capacity of the source (`len(handlers)`) cannot get stuck -/
example : ∀ s, Reachable { unbufferedCfg with cap := 2 } s → (∀ s', ¬ IStep { unbufferedCfg with cap := 2 } s s') →
    Final { unbufferedCfg with cap := 2 } s :=
  fun _ hr hs => all_goroutines_finish _ (by decide) (by decide) hr hs

end OpenFGAVerif.ReducerProofs
