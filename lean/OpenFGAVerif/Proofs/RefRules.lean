/-
The code rules of `Model/CheckV1.lean` (`sysOf w`: a tuple whose condition cannot be evaluated is dropped
by the iterator and at most one `lit err` / `lit errSw` is appended) versus the reference rules
(`idealSys w`: such a tuple is an edge that may exist, `and [lit err, child]`).

General part (namespace `OpenFGAVerif.BoolSys`, any systems)
  * `iter_mono_rule`, `lfp_mono_rule'`   pointwise implication of the rules (possibly with different leaf
                          readings / oracles) ⇒ inclusion of the Kleene stages / least fixpoints
  * `lfp_mono_rule`       `(∀ n S, Holds leaf neg S (s2.rule n) → Holds leaf neg S (s1.rule n)) → lfp s2 … ⊆ lfp s1 …`
  * `Atom c r`            `c` (code) and `r` (reference) do not consult the oracles; they are equivalent under
                          the definite reading and `r` implies `c` under the possible reading
  * `Sim ad c r`          structural refinement: atoms, closed under `or`/`and` (index-wise) and, when
                          `ad = true`, under `diff`
  * `Sim.atom_of_false`   without the `diff` constructor a refinement is an atom
  * `Sim.holdsD`, `Sim.holdsP`, `Sim.ev`   a refinement transports definite truth code → reference and
                          possible truth reference → code (for `Holds` with related oracles, and for the
                          evaluator `ev` of `Proofs/Stratified.lean`)
  * `noDiff_refines`      rules related by `Sim false`: `D_code = D_ref` and `P_ref ⊆ P_code`, for *any*
                          interpretations and any path `V`
  * `strat_sim`, `stratified_refines`   rules related by `Sim ad`, both systems stratified:
                          `D_code ⊆ D_ref` and `P_ref ⊆ P_code` under the stratified interpretations
  * `not_Sim_D_eq_Full`   with exclusion the inclusion `D_code ⊆ D_ref` is strict in general: concrete
                          systems `cxCode` / `cxRef` (both stratified, rules related by `Sim true`) with
                          `cx_D_ref`, `cx_not_D_code`

CheckV1 part (namespace `OpenFGAVerif.RefRules`; `w.ideal = false` is the code world, `refW w` the
reference world, `idealSys w = ⟨ruleOf (refW w)⟩`)
  * `filterIter_errs`     an unevaluable tuple makes the iterator remember an error
  * `kids_atom`           the building block: `or (kidsOf w f child)` vs `or (kidsOf (refW w) f child)` is an
                          `Atom` when the children are nodes
  * `usersetHandler_sim`, `ttuExpr_sim`, `usersetsExpr_sim`, `directExpr_sim`, `rewriteExpr_sim`, `ruleOf_sim`
                          lifted through the whole of `CheckRewrite` (custom induction `Rewrite.ind`)
  * `ruleOf_leafD_iff`, `ruleOf_leafP_imp`   for exclusion-free worlds: under `leafD` the code rule and
                          the reference rule of every node are equivalent, under `leafP` the reference
                          rule implies the code rule (any oracles, any `S`)
  * `D_code_eq_ref`, `P_ref_sub_code`   exclusion-free worlds, any interpretations
  * `check_sound_ref_noDiff`   exclusion-free worlds: an untainted `true` of the code model is definitely
                          true in the REFERENCE semantics, an untainted `false` is not possibly true in the
                          REFERENCE semantics (needs a coherent interpretation of the code rules, whose
                          existence is `coherent_of_stratified`)
  * `D_code_sub_ref`, `P_ref_sub_code_stratified`, `check_sound_ref`   the same with exclusion, under the
                          stratified interpretations of both rule systems (unconditional apart from the
                          two `Stratified` hypotheses)

Weakened with respect to the exclusion-free case: with exclusion `D_code = D_ref` is *false* in general
(the code's possible reading of a subtracted operand is coarser than the reference one, so the code may
fail to definitely grant what the reference grants); only `D_code ⊆ D_ref ⊆ P_ref ⊆ P_code` holds, which
is exactly what soundness of untainted answers needs.  The equality is kept as `Sim_D_eq_Full` (refuted:
`not_Sim_D_eq_Full`) and, for worlds, as `D_code_eq_ref_Full` (not refuted at the level of worlds: it would
need a concrete model evaluated through the string functions of `Vocab`).
-/
import OpenFGAVerif.Proofs.Stratified

namespace OpenFGAVerif.BoolSys

section
variable {N : Type}

/-! ### monotonicity of the least fixpoint in the rules -/

theorem iter_mono_rule (s1 s2 : Sys N) (l1 l2 : Leaf → Prop) (n1 n2 : Expr N → Prop) (V : List N)
    (h : ∀ n (S T : N → Prop), (∀ m, S m → T m) → Holds l2 n2 S (s2.rule n) → Holds l1 n1 T (s1.rule n)) :
    ∀ k n, iter s2 l2 n2 V k n → iter s1 l1 n1 V k n := by
  intro k
  induction k with
  | zero => intro n hn; exact hn.elim
  | succ k ih => intro n hn; exact ⟨hn.1, h n _ _ ih hn.2⟩

theorem lfp_mono_rule' (s1 s2 : Sys N) (l1 l2 : Leaf → Prop) (n1 n2 : Expr N → Prop) (V : List N)
    (h : ∀ n (S T : N → Prop), (∀ m, S m → T m) → Holds l2 n2 S (s2.rule n) → Holds l1 n1 T (s1.rule n)) :
    ∀ n, lfp s2 l2 n2 V n → lfp s1 l1 n1 V n :=
  fun n ⟨k, hk⟩ => ⟨k, iter_mono_rule s1 s2 l1 l2 n1 n2 V h k n hk⟩

/-- pointwise implication of the rules (for every set `S`) ⇒ inclusion of the least fixpoints -/
theorem lfp_mono_rule (s1 s2 : Sys N) (leaf : Leaf → Prop) (neg : Expr N → Prop) (V : List N)
    (h : ∀ n S, Holds leaf neg S (s2.rule n) → Holds leaf neg S (s1.rule n)) :
    ∀ n, lfp s2 leaf neg V n → lfp s1 leaf neg V n :=
  lfp_mono_rule' s1 s2 leaf leaf neg neg V (fun n _ _ hST hs => Holds.mono leaf neg hST (h n _ hs))

/-! ### refinement of expressions -/

/-- `c` (code) and `r` (reference) do not depend on the negation oracles, are equivalent under the
definite reading of the leaves, and `r` implies `c` under the possible reading. -/
def Atom (c r : Expr N) : Prop :=
  (∀ (neg1 neg2 : Expr N → Prop) (S : N → Prop), Holds leafD neg1 S c ↔ Holds leafD neg2 S r) ∧
  (∀ (neg1 neg2 : Expr N → Prop) (S : N → Prop), Holds leafP neg2 S r → Holds leafP neg1 S c)

theorem Atom.lit (v : Leaf) : Atom (N := N) (.lit v) (.lit v) :=
  ⟨fun _ _ _ => by rw [holds_lit_iff, holds_lit_iff], fun _ _ _ h => .lit (holds_lit_iff.mp h)⟩

theorem Atom.node (d : Bool) (n : N) : Atom (.node d n) (.node d n) :=
  ⟨fun _ _ _ => by rw [holds_node_iff, holds_node_iff], fun _ _ _ h => .node (holds_node_iff.mp h)⟩

/-- structural refinement (`ad`: exclusion allowed) -/
inductive Sim (ad : Bool) : Expr N → Expr N → Prop
  | atom {c r : Expr N} : Atom c r → Sim ad c r
  | or {cs rs : List (Expr N)} : cs.length = rs.length →
      (∀ i (h1 : i < cs.length) (h2 : i < rs.length), Sim ad cs[i] rs[i]) → Sim ad (.or cs) (.or rs)
  | and {cs rs : List (Expr N)} : cs.length = rs.length →
      (∀ i (h1 : i < cs.length) (h2 : i < rs.length), Sim ad cs[i] rs[i]) → Sim ad (.and cs) (.and rs)
  | diff {b1 s1 b2 s2 : Expr N} : ad = true → Sim ad b1 b2 → Sim ad s1 s2 → Sim ad (.diff b1 s1) (.diff b2 s2)

/-- index-wise refinement of two lists of children -/
def SimL (ad : Bool) (cs rs : List (Expr N)) : Prop :=
  cs.length = rs.length ∧ ∀ i (h1 : i < cs.length) (h2 : i < rs.length), Sim ad cs[i] rs[i]

theorem SimL.or {ad : Bool} {cs rs : List (Expr N)} (h : SimL ad cs rs) : Sim ad (.or cs) (.or rs) := .or h.1 h.2
theorem SimL.and {ad : Bool} {cs rs : List (Expr N)} (h : SimL ad cs rs) : Sim ad (.and cs) (.and rs) := .and h.1 h.2

theorem SimL.nil {ad : Bool} : SimL (N := N) ad [] [] := ⟨rfl, fun i h1 _ => absurd h1 (Nat.not_lt_zero i)⟩

theorem SimL.cons {ad : Bool} {c r : Expr N} {cs rs : List (Expr N)} (h : Sim ad c r) (t : SimL ad cs rs) :
    SimL ad (c :: cs) (r :: rs) := by
  refine ⟨by simp [t.1], ?_⟩
  intro i h1 h2
  cases i with
  | zero => exact h
  | succ i => exact t.2 i (by simpa using h1) (by simpa using h2)

theorem SimL.append {ad : Bool} {c1 r1 c2 r2 : List (Expr N)} (h1 : SimL ad c1 r1) (h2 : SimL ad c2 r2) :
    SimL ad (c1 ++ c2) (r1 ++ r2) := by
  refine ⟨by simp [h1.1, h2.1], ?_⟩
  intro i hi1 hi2
  by_cases hlt : i < c1.length
  · rw [List.getElem_append_left hlt, List.getElem_append_left (h1.1 ▸ hlt)]
    exact h1.2 i hlt (h1.1 ▸ hlt)
  · have hge : c1.length ≤ i := Nat.le_of_not_lt hlt
    rw [List.getElem_append_right hge, List.getElem_append_right (h1.1 ▸ hge)]
    have e : i - r1.length = i - c1.length := by rw [h1.1]
    simp only [e]
    exact h2.2 _ _ _

theorem SimL.map {ad : Bool} {α : Type} (l : List α) (f g : α → Expr N) (h : ∀ a ∈ l, Sim ad (f a) (g a)) :
    SimL ad (l.map f) (l.map g) := by
  refine ⟨by simp, ?_⟩
  intro i h1 h2
  simp only [List.getElem_map]
  exact h _ (List.getElem_mem _)

theorem SimL.ite_singleton {ad : Bool} (p : Prop) [Decidable p] {c r : Expr N} (h : Sim ad c r) :
    SimL ad (if p then [c] else []) (if p then [r] else []) := by
  by_cases hp : p
  · rw [if_pos hp, if_pos hp]; exact .cons h .nil
  · rw [if_neg hp, if_neg hp]; exact .nil

theorem SimL.ite_singleton' {ad : Bool} (p : Prop) [Decidable p] {c r : Expr N} (h : Sim ad c r) :
    SimL ad (if p then [] else [c]) (if p then [] else [r]) := by
  by_cases hp : p
  · rw [if_pos hp, if_pos hp]; exact .nil
  · rw [if_neg hp, if_neg hp]; exact .cons h .nil

theorem Sim.weaken {ad : Bool} {c r : Expr N} (h : Sim ad c r) : Sim true c r := by
  induction h with
  | atom ha => exact .atom ha
  | or hl _ ih => exact .or hl ih
  | and hl _ ih => exact .and hl ih
  | diff _ _ _ ihb ihs => exact .diff rfl ihb ihs

/-- a refinement transports definite truth from the code expression to the reference expression … -/
theorem Sim.holdsD {ad : Bool} {c r : Expr N} (h : Sim ad c r) {negc negr : Expr N → Prop}
    (hneg : ∀ s1 s2, Sim ad s1 s2 → negc s1 → negr s2) {S T : N → Prop} (hST : ∀ n, S n → T n) :
    Holds leafD negc S c → Holds leafD negr T r := by
  induction h with
  | atom ha => exact fun hc => Holds.mono _ _ hST ((ha.1 negc negr S).mp hc)
  | @or cs rs hl _ ih =>
    intro hc
    obtain ⟨e, hm, he⟩ := holds_or_iff.mp hc
    obtain ⟨i, hi, rfl⟩ := List.getElem_of_mem hm
    exact .or (List.getElem_mem (hl ▸ hi)) (ih i hi (hl ▸ hi) he)
  | @and cs rs hl _ ih =>
    intro hc
    refine .and (fun e hm => ?_)
    obtain ⟨i, hi, rfl⟩ := List.getElem_of_mem hm
    exact ih i (hl ▸ hi) hi (holds_and_iff.mp hc _ (List.getElem_mem _))
  | diff _ _ hs ihb _ =>
    intro hc
    obtain ⟨hb, hn⟩ := holds_diff_iff.mp hc
    exact .diff (ihb hb) (hneg _ _ hs hn)

/-- … and possible truth from the reference expression to the code expression. -/
theorem Sim.holdsP {ad : Bool} {c r : Expr N} (h : Sim ad c r) {negc negr : Expr N → Prop}
    (hneg : ∀ s1 s2, Sim ad s1 s2 → negr s2 → negc s1) {S T : N → Prop} (hTS : ∀ n, T n → S n) :
    Holds leafP negr T r → Holds leafP negc S c := by
  induction h with
  | atom ha => exact fun hr => Holds.mono _ _ hTS (ha.2 negc negr T hr)
  | @or cs rs hl _ ih =>
    intro hr
    obtain ⟨e, hm, he⟩ := holds_or_iff.mp hr
    obtain ⟨i, hi, rfl⟩ := List.getElem_of_mem hm
    exact .or (List.getElem_mem (hl ▸ hi)) (ih i (hl ▸ hi) hi he)
  | @and cs rs hl _ ih =>
    intro hr
    refine .and (fun e hm => ?_)
    obtain ⟨i, hi, rfl⟩ := List.getElem_of_mem hm
    exact ih i hi (hl ▸ hi) (holds_and_iff.mp hr _ (List.getElem_mem _))
  | diff _ _ hs ihb _ =>
    intro hr
    obtain ⟨hb, hn⟩ := holds_diff_iff.mp hr
    exact .diff (ihb hb) (hneg _ _ hs hn)

/-- without the `diff` constructor a refinement is an atom -/
theorem Sim.atom_of_false {c r : Expr N} (h : Sim false c r) : Atom c r := by
  induction h with
  | atom ha => exact ha
  | @or cs rs hl _ ih =>
    refine ⟨fun neg1 neg2 S => ⟨?_, ?_⟩, fun neg1 neg2 S => ?_⟩
    · intro hc
      obtain ⟨e, hm, he⟩ := holds_or_iff.mp hc
      obtain ⟨i, hi, rfl⟩ := List.getElem_of_mem hm
      exact .or (List.getElem_mem (hl ▸ hi)) (((ih i hi (hl ▸ hi)).1 neg1 neg2 S).mp he)
    · intro hr
      obtain ⟨e, hm, he⟩ := holds_or_iff.mp hr
      obtain ⟨i, hi, rfl⟩ := List.getElem_of_mem hm
      exact .or (List.getElem_mem (hl ▸ hi)) (((ih i (hl ▸ hi) hi).1 neg1 neg2 S).mpr he)
    · intro hr
      obtain ⟨e, hm, he⟩ := holds_or_iff.mp hr
      obtain ⟨i, hi, rfl⟩ := List.getElem_of_mem hm
      exact .or (List.getElem_mem (hl ▸ hi)) ((ih i (hl ▸ hi) hi).2 neg1 neg2 S he)
  | @and cs rs hl _ ih =>
    refine ⟨fun neg1 neg2 S => ⟨?_, ?_⟩, fun neg1 neg2 S => ?_⟩
    · intro hc
      refine .and (fun e hm => ?_)
      obtain ⟨i, hi, rfl⟩ := List.getElem_of_mem hm
      exact ((ih i (hl ▸ hi) hi).1 neg1 neg2 S).mp (holds_and_iff.mp hc _ (List.getElem_mem _))
    · intro hr
      refine .and (fun e hm => ?_)
      obtain ⟨i, hi, rfl⟩ := List.getElem_of_mem hm
      exact ((ih i hi (hl ▸ hi)).1 neg1 neg2 S).mpr (holds_and_iff.mp hr _ (List.getElem_mem _))
    · intro hr
      refine .and (fun e hm => ?_)
      obtain ⟨i, hi, rfl⟩ := List.getElem_of_mem hm
      exact (ih i hi (hl ▸ hi)).2 neg1 neg2 S (holds_and_iff.mp hr _ (List.getElem_mem _))
  | diff had _ _ _ _ => cases had

/-- the evaluator of `Proofs/Stratified.lean` respects refinement -/
theorem Sim.ev {ad : Bool} {c r : Expr N} (h : Sim ad c r) {Dc Dr Pc Pr : N → Prop}
    (hD : ∀ n, Dc n → Dr n) (hP : ∀ n, Pr n → Pc n) :
    (ev leafD Dc leafP Pc c → ev leafD Dr leafP Pr r) ∧ (ev leafP Pr leafD Dr r → ev leafP Pc leafD Dc c) := by
  induction h with
  | atom ha =>
    constructor
    · intro hc
      rw [← holds_iff_ev] at hc ⊢
      exact Holds.mono _ _ hD ((ha.1 _ _ _).mp hc)
    · intro hr
      rw [← holds_iff_ev] at hr ⊢
      exact Holds.mono _ _ hP (ha.2 _ _ _ hr)
  | @or cs rs hl _ ih =>
    rw [ev_or, ev_or, ev_or, ev_or]
    constructor
    · intro ⟨e, hm, he⟩
      obtain ⟨i, hi, rfl⟩ := List.getElem_of_mem hm
      exact ⟨_, List.getElem_mem (hl ▸ hi), (ih i hi (hl ▸ hi)).1 he⟩
    · intro ⟨e, hm, he⟩
      obtain ⟨i, hi, rfl⟩ := List.getElem_of_mem hm
      exact ⟨_, List.getElem_mem (hl ▸ hi), (ih i (hl ▸ hi) hi).2 he⟩
  | @and cs rs hl _ ih =>
    rw [ev_and, ev_and, ev_and, ev_and]
    constructor
    · intro ha e hm
      obtain ⟨i, hi, rfl⟩ := List.getElem_of_mem hm
      exact (ih i (hl ▸ hi) hi).1 (ha _ (List.getElem_mem _))
    · intro ha e hm
      obtain ⟨i, hi, rfl⟩ := List.getElem_of_mem hm
      exact (ih i hi (hl ▸ hi)).2 (ha _ (List.getElem_mem _))
  | diff _ _ _ ihb ihs =>
    rw [ev_diff, ev_diff, ev_diff, ev_diff]
    exact ⟨fun ⟨hb, hn⟩ => ⟨ihb.1 hb, fun c => hn (ihs.2 c)⟩, fun ⟨hb, hn⟩ => ⟨ihb.2 hb, fun c => hn (ihs.1 c)⟩⟩

/-! ### consequences for the least fixpoints -/

/-- **Exclusion-free refinement**: rules related without the `diff` constructor give the same definite
semantics and a smaller reference possible semantics — for any oracles and any path. -/
theorem noDiff_refines (sc sr : Sys N) (h : ∀ n, Sim false (sc.rule n) (sr.rule n)) (I1 I2 : Interp N)
    (V : List N) (n : N) :
    (D sc I1 V n ↔ D sr I2 V n) ∧ (P sr I2 V n → P sc I1 V n) := by
  have ha := fun n => (h n).atom_of_false
  refine ⟨⟨?_, ?_⟩, ?_⟩
  · exact lfp_mono_rule' sr sc leafD leafD I2.negD I1.negD V
      (fun m S T hST hs => Holds.mono _ _ hST (((ha m).1 I1.negD I2.negD S).mp hs)) n
  · exact lfp_mono_rule' sc sr leafD leafD I1.negD I2.negD V
      (fun m S T hST hs => Holds.mono _ _ hST (((ha m).1 I1.negD I2.negD S).mpr hs)) n
  · exact lfp_mono_rule' sc sr leafP leafP I1.negP I2.negP V
      (fun m S T hST hs => Holds.mono _ _ hST ((ha m).2 I1.negP I2.negP S hs)) n

/-- strata of two systems whose rules are related: the code strata are squeezed by the reference strata -/
theorem strat_sim {ad : Bool} (sc sr : Sys N) (h : ∀ n, Sim ad (sc.rule n) (sr.rule n)) :
    ∀ k, (∀ n, DK sc k n → DK sr k n) ∧ (∀ n, PK sr k n → PK sc k n) := by
  intro k
  induction k with
  | zero => exact ⟨fun _ hn => hn, fun _ hn => hn⟩
  | succ k ih =>
    constructor
    · rw [DK_succ, DK_succ]
      refine lfp_mono_rule' sr sc leafD leafD _ _ [] ?_
      intro m S T hST hs
      refine (h m).holdsD ?_ hST hs
      intro s1 s2 hsim hn c
      exact hn ((hsim.ev ih.1 ih.2).2 c)
    · rw [PK_succ, PK_succ]
      refine lfp_mono_rule' sc sr leafP leafP _ _ [] ?_
      intro m S T hST hs
      refine (h m).holdsP ?_ hST hs
      intro s1 s2 hsim hn c
      exact hn ((hsim.ev ih.1 ih.2).1 c)

/-- **Refinement with exclusion**: both systems stratified, rules related ⇒ under the stratified
interpretations `D_code ⊆ D_ref` and `P_ref ⊆ P_code`. -/
theorem stratified_refines {ad : Bool} {sc sr : Sys N} {rkc rkr : N → Nat}
    (hc : Stratified sc rkc) (hr : Stratified sr rkr) (h : ∀ n, Sim ad (sc.rule n) (sr.rule n)) (n : N) :
    (D sc (stratInterp sc rkc) [] n → D sr (stratInterp sr rkr) [] n) ∧
    (P sr (stratInterp sr rkr) [] n → P sc (stratInterp sc rkc) [] n) := by
  have h1 : rkc n < max (rkc n) (rkr n) + 1 := by omega
  have h2 : rkr n < max (rkc n) (rkr n) + 1 := by omega
  have hs := strat_sim sc sr h (max (rkc n) (rkr n) + 1)
  exact ⟨fun hd => (D_stratInterp_iff hr h2).mpr (hs.1 n ((D_stratInterp_iff hc h1).mp hd)),
    fun hp => (P_stratInterp_iff hc h1).mpr (hs.2 n ((P_stratInterp_iff hr h2).mp hp))⟩

/-! ### the definite semantics are *not* equal in the presence of exclusion -/

/-- the full-strength statement at the level of systems: refinement with exclusion preserves the
definite semantics in both directions -/
def Sim_D_eq_Full : Prop :=
  ∀ (sc sr : Sys Nat) (rkc rkr : Nat → Nat), Stratified sc rkc → Stratified sr rkr →
    (∀ n, Sim true (sc.rule n) (sr.rule n)) →
    ∀ n, (D sc (stratInterp sc rkc) [] n ↔ D sr (stratInterp sr rkr) [] n)

/-- code rules: `0 := tt but not 1`, `1` = one unevaluable tuple, nothing passed (`lit err`) -/
def cxCode : Sys Nat where
  rule := fun n => match n with
    | 0 => .diff (.lit .tt) (.node true 1)
    | 1 => .or [.lit .err]
    | _ => .lit .ff

/-- reference rules: the unevaluable tuple of `1` is an edge to `2`, which is false -/
def cxRef : Sys Nat where
  rule := fun n => match n with
    | 0 => .diff (.lit .tt) (.node true 1)
    | 1 => .or [.and [.lit .err, .node true 2]]
    | _ => .lit .ff

def cxRk : Nat → Nat := fun n => if n = 0 then 1 else 0

theorem cxCode_stratified : Stratified cxCode cxRk := by
  intro n m h
  match n, h with
  | 0, h =>
    cases h with
    | diffB hb => cases hb
    | diffS hs => cases hs; exact ⟨by decide, fun _ => by decide⟩
  | 1, h =>
    cases h with
    | or hm ho =>
      simp only [List.mem_singleton] at hm
      subst hm; cases ho
  | n + 2, h => cases h

theorem cxRef_stratified : Stratified cxRef cxRk := by
  intro n m h
  match n, h with
  | 0, h =>
    cases h with
    | diffB hb => cases hb
    | diffS hs => cases hs; exact ⟨by decide, fun _ => by decide⟩
  | 1, h =>
    cases h with
    | or hm ho =>
      simp only [List.mem_singleton] at hm
      subst hm
      cases ho with
      | and hm' ho' =>
        simp only [List.mem_cons, List.not_mem_nil, or_false] at hm'
        rcases hm' with rfl | rfl
        · cases ho'
        · cases ho'
          refine ⟨by decide, fun hn => ?_⟩
          cases hn with
          | or hm2 hn2 =>
            simp only [List.mem_singleton] at hm2
            subst hm2
            cases hn2 with
            | and hm3 hn3 =>
              simp only [List.mem_cons, List.not_mem_nil, or_false] at hm3
              rcases hm3 with rfl | rfl <;> cases hn3
  | n + 2, h => cases h

theorem cx_sim : ∀ n, Sim true (cxCode.rule n) (cxRef.rule n) := by
  intro n
  match n with
  | 0 => exact .diff rfl (.atom (.lit _)) (.atom (.node _ _))
  | 1 =>
    refine .atom ⟨fun neg1 neg2 S => ⟨?_, ?_⟩, fun neg1 neg2 S _ => ?_⟩
    · intro h
      obtain ⟨e, hm, he⟩ := holds_or_iff.mp h
      simp only [List.mem_singleton] at hm
      subst hm
      have := holds_lit_iff.mp he
      unfold leafD at this; cases this
    · intro h
      obtain ⟨e, hm, he⟩ := holds_or_iff.mp h
      simp only [List.mem_singleton] at hm
      subst hm
      have := holds_lit_iff.mp (holds_and_iff.mp he (.lit .err) (by simp))
      unfold leafD at this; cases this
    · exact .or (List.mem_singleton.mpr rfl) (.lit (by unfold leafP; intro c; cases c))
  | n + 2 => exact .atom (.lit _)

/-- the reference rules definitely grant node 0 … -/
theorem cx_D_ref : D cxRef (stratInterp cxRef cxRk) [] 0 := by
  have hco := coherent_of_stratified cxRef_stratified
  have np2 : ¬ P cxRef (stratInterp cxRef cxRk) [] 2 := by
    intro h
    have := holds_lit_iff.mp (lfp_unfold _ _ _ _ _ h).2
    exact this rfl
  have np1 : ¬ P cxRef (stratInterp cxRef cxRk) [] 1 := by
    intro h
    obtain ⟨e, hm, he⟩ := holds_or_iff.mp (lfp_unfold _ _ _ _ _ h).2
    simp only [List.mem_singleton] at hm
    subst hm
    exact np2 (holds_node_iff.mp (holds_and_iff.mp he (.node true 2) (by simp)))
  refine lfp_closed _ _ _ [] 0 List.not_mem_nil (.diff (.lit rfl) ?_)
  exact (hco (.node true 1)).1.mpr (fun h => np1 (holds_node_iff.mp h))

/-- … the code rules do not (the engine reports the condition error instead) -/
theorem cx_not_D_code : ¬ D cxCode (stratInterp cxCode cxRk) [] 0 := by
  have hco := coherent_of_stratified cxCode_stratified
  intro h
  obtain ⟨_, hn⟩ := holds_diff_iff.mp (lfp_unfold _ _ _ _ _ h).2
  refine (hco (.node true 1)).1.mp hn (.node ?_)
  refine lfp_closed _ _ _ [] 1 List.not_mem_nil ?_
  exact .or (List.mem_singleton.mpr rfl) (.lit (by unfold leafP; intro c; cases c))

theorem not_Sim_D_eq_Full : ¬ Sim_D_eq_Full :=
  fun h => cx_not_D_code ((h cxCode cxRef cxRk cxRk cxCode_stratified cxRef_stratified cx_sim 0).mpr cx_D_ref)

end
end OpenFGAVerif.BoolSys

/-! ## instantiation for the Check engine -/

namespace OpenFGAVerif.RefRules
open OpenFGAVerif.Vocab OpenFGAVerif.BoolSys OpenFGAVerif.CheckV1 OpenFGAVerif.Dfs

/-- the reference world: same model, tuples and request, reference rules -/
def refW (w : World) : World := { w with ideal := true }

theorem idealSys_eq (w : World) : idealSys w = { rule := ruleOf (refW w) } := rfl

@[simp] theorem refW_model (w : World) : (refW w).model = w.model := rfl
@[simp] theorem refW_aux (w : World) : (refW w).aux = w.aux := rfl
@[simp] theorem refW_stored (w : World) : (refW w).stored = w.stored := rfl
@[simp] theorem refW_ctxTuples (w : World) : (refW w).ctxTuples = w.ctxTuples := rfl
@[simp] theorem refW_req (w : World) : (refW w).req = w.req := rfl
@[simp] theorem refW_ideal (w : World) : (refW w).ideal = true := rfl
@[simp] theorem refW_all (w : World) : (refW w).all = w.all := rfl

/-- an unevaluable valid tuple makes the iterator remember an error -/
theorem filterIter_errs (w : World) (ts : List Tuple) :
    (filterIter w ts).errs ≠ [] → (filterIter w ts).sawErr = true := by
  intro h
  obtain ⟨t, ht⟩ := List.exists_mem_of_ne_nil _ h
  simp only [filterIter, List.mem_filter] at ht
  simp only [filterIter, List.any_eq_true, List.mem_filter]
  exact ⟨t, ht.1, ht.2⟩

theorem mem_errTail {N : Type} {f : Filtered} {e : Expr N} (h : e ∈ errTail f) :
    e = .lit .err ∨ e = .lit .errSw := by
  unfold errTail at h
  split at h
  · split at h
    · left; simpa using h
    · right; simpa using h
  · cases h

theorem errTail_possible {N : Type} {f : Filtered} (h : f.sawErr = true) :
    ∃ e : Expr N, e ∈ errTail f ∧ (e = .lit .err ∨ e = .lit .errSw) := by
  unfold errTail
  rw [if_pos h]
  split
  · exact ⟨_, by simp, .inl rfl⟩
  · exact ⟨_, by simp, .inr rfl⟩

theorem not_leafD_err : ¬ leafD .err := by unfold leafD; intro h; cases h
theorem not_leafD_errSw : ¬ leafD .errSw := by unfold leafD; intro h; cases h
theorem leafP_err : leafP .err := by unfold leafP; intro h; cases h
theorem leafP_errSw : leafP .errSw := by unfold leafP; intro h; cases h

/-- **The building block.**  The children of a userset / tuple-to-userset handler: the code's
"passing tuples, then the iterator's error tail" against the reference's "passing tuples, then one guarded
child per unevaluable tuple". -/
theorem kids_atom (w : World) (hw : w.ideal = false) (f : Filtered) (hf : f.errs ≠ [] → f.sawErr = true)
    (child : Tuple → Option (Expr Node)) (hchild : ∀ t c, child t = some c → ∃ d n, c = .node d n) :
    Atom (.or (kidsOf w f child)) (.or (kidsOf (refW w) f child)) := by
  have ec : kidsOf w f child = f.passed.filterMap child ++ errTail f := by simp [kidsOf, hw]
  have er : kidsOf (refW w) f child = f.passed.filterMap child ++
      f.errs.filterMap (fun t => (child t).map (fun c => .and [.lit .err, c])) := by simp [kidsOf]
  rw [ec, er]
  -- a passing child is a node: it means the same on both sides, whatever the oracle
  have pass : ∀ (leaf : Leaf → Prop) (na nb : Expr Node → Prop) (S : Node → Prop) (e : Expr Node),
      e ∈ f.passed.filterMap child → Holds leaf na S e → Holds leaf nb S e := by
    intro leaf na nb S e hm he
    obtain ⟨t, _, ht⟩ := List.mem_filterMap.mp hm
    obtain ⟨d, n, rfl⟩ := hchild t e ht
    exact .node (holds_node_iff.mp he)
  refine ⟨fun neg1 neg2 S => ⟨?_, ?_⟩, fun neg1 neg2 S => ?_⟩
  · intro hc
    obtain ⟨e, hm, he⟩ := holds_or_iff.mp hc
    rcases List.mem_append.mp hm with hm | hm
    · exact .or (List.mem_append_left _ hm) (pass _ _ _ _ e hm he)
    · rcases mem_errTail hm with rfl | rfl
      · exact absurd (holds_lit_iff.mp he) not_leafD_err
      · exact absurd (holds_lit_iff.mp he) not_leafD_errSw
  · intro hr
    obtain ⟨e, hm, he⟩ := holds_or_iff.mp hr
    rcases List.mem_append.mp hm with hm | hm
    · exact .or (List.mem_append_left _ hm) (pass _ _ _ _ e hm he)
    · obtain ⟨t, _, ht⟩ := List.mem_filterMap.mp hm
      cases hct : child t with
      | none => simp [hct] at ht
      | some c =>
        simp [hct] at ht
        subst ht
        exact absurd (holds_lit_iff.mp (holds_and_iff.mp he _ (by simp))) not_leafD_err
  · intro hr
    obtain ⟨e, hm, he⟩ := holds_or_iff.mp hr
    rcases List.mem_append.mp hm with hm | hm
    · exact .or (List.mem_append_left _ hm) (pass _ _ _ _ e hm he)
    · obtain ⟨t, htm, _⟩ := List.mem_filterMap.mp hm
      have hne : f.errs ≠ [] := List.ne_nil_of_mem htm
      obtain ⟨e', hm', he'⟩ := errTail_possible (N := Node) (hf hne)
      refine .or (List.mem_append_right _ hm') ?_
      rcases he' with rfl | rfl
      · exact .lit leafP_err
      · exact .lit leafP_errSw

theorem usersetHandler_sim (w : World) (hw : w.ideal = false) (ad : Bool) (o r : String) (rs : List Restr) :
    Sim ad (usersetHandler w o r rs) (usersetHandler (refW w) o r rs) := by
  refine .atom ?_
  exact kids_atom w hw (filterIter w (usersetTuples w o r rs)) (filterIter_errs w _)
    (fun t => some (.node true (splitUserset t.user)))
    (fun t c h => ⟨true, splitUserset t.user, by cases h; rfl⟩)

theorem ttuExpr_sim (w : World) (hw : w.ideal = false) (ad : Bool) (o ts cr : String) :
    Sim ad (ttuExpr w o ts cr) (ttuExpr (refW w) o ts cr) := by
  refine .atom ?_
  refine kids_atom w hw (filterIter w (w.all.filter (fun t => t.obj = o && t.rel = ts))) (filterIter_errs w _)
    (fun t => match w.model.findRel (typeOf (splitUserset t.user).1) cr with
      | none => none
      | some _ => some (Expr.node true ((splitUserset t.user).1, cr))) ?_
  intro t c h
  split at h
  · cases h
  · cases h; exact ⟨_, _, rfl⟩

theorem usersetsExpr_sim (w : World) (hw : w.ideal = false) (ad : Bool) (o r : String) (restrs : List Restr) :
    Sim ad (usersetsExpr w o r restrs) (usersetsExpr (refW w) o r restrs) := by
  simp only [usersetsExpr, refW_req, refW_aux]
  split
  · rename_i h
    simp only [h, ↓reduceIte]
    exact usersetHandler_sim w hw ad o r _
  · rename_i h
    simp only [h]
    refine (SimL.append (SimL.map _ _ _ (fun x _ => usersetHandler_sim w hw ad o r [x])) ?_).or
    exact SimL.ite_singleton' _ (usersetHandler_sim w hw ad o r _)

theorem directLeaf_lit (w : World) (o r : String) : ∃ v, directLeaf w o r = .lit v := by
  unfold directLeaf
  split
  · exact ⟨_, rfl⟩
  · split
    · exact ⟨_, rfl⟩
    · split <;> exact ⟨_, rfl⟩

theorem publicLeaf_lit (w : World) (o r : String) : ∃ v, publicLeaf w o r = .lit v := by
  simp only [publicLeaf]
  split
  · exact ⟨_, rfl⟩
  · split <;> exact ⟨_, rfl⟩

theorem directExpr_sim (w : World) (hw : w.ideal = false) (ad : Bool) (o r : String) (restrs : List Restr) :
    Sim ad (directExpr w o r restrs) (directExpr (refW w) o r restrs) := by
  have e1 : directLeaf (refW w) o r = directLeaf w o r := rfl
  have e2 : publicLeaf (refW w) o r = publicLeaf w o r := rfl
  obtain ⟨v1, hv1⟩ := directLeaf_lit w o r
  obtain ⟨v2, hv2⟩ := publicLeaf_lit w o r
  simp only [directExpr, refW_req, e1, e2]
  refine (SimL.append (SimL.append ?_ ?_) ?_).or
  · exact SimL.ite_singleton _ (hv1 ▸ .atom (.lit v1))
  · exact SimL.ite_singleton _ (hv2 ▸ .atom (.lit v2))
  · exact SimL.ite_singleton _ (usersetsExpr_sim w hw ad o r restrs)

/-! ### through `CheckRewrite` -/

theorem Rewrite.ind {motive : Rewrite → Prop}
    (this : motive .this) (computed : ∀ r, motive (.computed r)) (ttu : ∀ ts cr, motive (.ttu ts cr))
    (union : ∀ cs, (∀ c ∈ cs, motive c) → motive (.union cs))
    (inter : ∀ cs, (∀ c ∈ cs, motive c) → motive (.inter cs))
    (diff : ∀ b s, motive b → motive s → motive (.diff b s)) : ∀ rw, motive rw := by
  intro rw
  refine Rewrite.rec (motive_1 := motive) (motive_2 := fun cs => ∀ c ∈ cs, motive c)
    this computed ttu union inter diff ?_ ?_ rw
  · intro c hc; cases hc
  · intro hd tl ih1 ih2 c hc
    rcases List.mem_cons.mp hc with rfl | h
    · exact ih1
    · exact ih2 c h

/-- the rewrite contains no exclusion -/
inductive NoDiff : Rewrite → Prop
  | this : NoDiff .this
  | computed (r : String) : NoDiff (.computed r)
  | ttu (ts cr : String) : NoDiff (.ttu ts cr)
  | union {cs : List Rewrite} : (∀ c ∈ cs, NoDiff c) → NoDiff (.union cs)
  | inter {cs : List Rewrite} : (∀ c ∈ cs, NoDiff c) → NoDiff (.inter cs)

theorem rewriteExpr_sim (w : World) (hw : w.ideal = false) (ad : Bool) (o r : String) (restrs : List Restr) :
    ∀ rw, (ad = true ∨ NoDiff rw) →
      Sim ad (rewriteExpr w o r restrs rw) (rewriteExpr (refW w) o r restrs rw) := by
  intro rw
  induction rw using Rewrite.ind with
  | this => intro _; rw [rewriteExpr, rewriteExpr]; exact directExpr_sim w hw ad o r restrs
  | computed r' => intro _; rw [rewriteExpr, rewriteExpr]; exact .atom (.node false (o, r'))
  | ttu ts cr => intro _; rw [rewriteExpr, rewriteExpr]; exact ttuExpr_sim w hw ad o ts cr
  | union cs ih =>
    intro h
    rw [rewriteExpr, rewriteExpr]
    refine (SimL.map _ _ _ (fun c hc => ih c hc ?_)).or
    rcases h with h | h
    · exact .inl h
    · cases h with | union hall => exact .inr (hall c hc)
  | inter cs ih =>
    intro h
    rw [rewriteExpr, rewriteExpr]
    refine (SimL.map _ _ _ (fun c hc => ih c hc ?_)).and
    rcases h with h | h
    · exact .inl h
    · cases h with | inter hall => exact .inr (hall c hc)
  | diff b s ihb ihs =>
    intro h
    rw [rewriteExpr, rewriteExpr]
    rcases h with h | h
    · exact .diff h (ihb (.inl h)) (ihs (.inl h))
    · cases h

/-- every rewrite of the model is exclusion-free -/
def ExclusionFree (w : World) : Prop :=
  ∀ typ r rd, w.model.findRel typ r = some rd → NoDiff rd.rewrite

theorem ruleOf_sim (w : World) (hw : w.ideal = false) (ad : Bool) (hx : ad = true ∨ ExclusionFree w) (n : Node) :
    Sim ad (ruleOf w n) (ruleOf (refW w) n) := by
  obtain ⟨o, r⟩ := n
  simp only [ruleOf, refW_req, refW_model, refW_aux]
  split
  · rename_i h
    simp only [h, ↓reduceIte]
    exact .atom (.lit _)
  · rename_i h
    simp only [h, ↓reduceIte]
    split
    · exact .atom (.lit _)
    · rename_i rd hrd
      split
      · rename_i h2
        simp only [h2, ↓reduceIte]
        exact .atom (.lit _)
      · rename_i h2
        simp only [h2]
        refine rewriteExpr_sim w hw ad o r rd.restrs rd.rewrite ?_
        rcases hx with hx | hx
        · exact .inl hx
        · exact .inr (hx _ _ rd hrd)

/-! ### exclusion-free worlds -/

/-- under the definite reading the code rule and the reference rule of every node are equivalent -/
theorem ruleOf_leafD_iff (w : World) (hw : w.ideal = false) (hx : ExclusionFree w) (n : Node)
    (neg1 neg2 : Expr Node → Prop) (S : Node → Prop) :
    Holds leafD neg1 S (ruleOf w n) ↔ Holds leafD neg2 S (ruleOf { w with ideal := true } n) :=
  (ruleOf_sim w hw false (.inr hx) n).atom_of_false.1 neg1 neg2 S

/-- under the possible reading the reference rule implies the code rule -/
theorem ruleOf_leafP_imp (w : World) (hw : w.ideal = false) (hx : ExclusionFree w) (n : Node)
    (neg1 neg2 : Expr Node → Prop) (S : Node → Prop) :
    Holds leafP neg2 S (ruleOf { w with ideal := true } n) → Holds leafP neg1 S (ruleOf w n) :=
  (ruleOf_sim w hw false (.inr hx) n).atom_of_false.2 neg1 neg2 S

/-- `D_code = D_ref`, any interpretations, any path -/
theorem D_code_eq_ref (w : World) (hw : w.ideal = false) (hx : ExclusionFree w) (I1 I2 : Interp Node)
    (V : List Node) (n : Node) : D (sysOf w) I1 V n ↔ D (idealSys w) I2 V n :=
  (noDiff_refines (sysOf w) (idealSys w) (fun m => ruleOf_sim w hw false (.inr hx) m) I1 I2 V n).1

/-- `P_ref ⊆ P_code`, any interpretations, any path -/
theorem P_ref_sub_code (w : World) (hw : w.ideal = false) (hx : ExclusionFree w) (I1 I2 : Interp Node)
    (V : List Node) (n : Node) : P (idealSys w) I2 V n → P (sysOf w) I1 V n :=
  (noDiff_refines (sysOf w) (idealSys w) (fun m => ruleOf_sim w hw false (.inr hx) m) I1 I2 V n).2

/-- **Exclusion-free worlds**: an untainted decision of the code model (any schedule, any depth limit) is
right about the REFERENCE semantics, whatever the oracles of the reference semantics are (they are never
consulted).  `I` is any coherent interpretation of the code rules (it exists: `coherent_of_stratified`). -/
theorem check_sound_ref_noDiff (w : World) (hw : w.ideal = false) (hx : ExclusionFree w)
    (I : Interp Node) (hc : Coherent (sysOf w) I) (I2 : Interp Node) (maxDepth : Nat) (a c : Bool)
    (h : Eval (sysOf w) noFacts maxDepth 0 [] (rootExpr w) (.ok a c false)) :
    (a = true → HoldsD (idealSys w) I2 [] (rootExpr w)) ∧ (a = false → ¬ HoldsP (idealSys w) I2 [] (rootExpr w)) := by
  have hs := C01.check_sound_all_schedules w I hc maxDepth a c h
  constructor
  · intro ha
    have := holds_node_iff.mp (hs.1 ha)
    exact .node ((D_code_eq_ref w hw hx I I2 [] _).mp this)
  · intro ha hp
    exact hs.2 ha (.node (P_ref_sub_code w hw hx I I2 [] _ (holds_node_iff.mp hp)))

/-! ### with exclusion, under the stratified interpretations -/

/-- `D_code ⊆ D_ref` -/
theorem D_code_sub_ref (w : World) (hw : w.ideal = false) (rkc rkr : Node → Nat)
    (hc : Stratified (sysOf w) rkc) (hr : Stratified (idealSys w) rkr) (n : Node) :
    D (sysOf w) (stratInterp (sysOf w) rkc) [] n → D (idealSys w) (stratInterp (idealSys w) rkr) [] n :=
  (stratified_refines hc hr (fun m => ruleOf_sim w hw true (.inl rfl) m) n).1

/-- `P_ref ⊆ P_code` -/
theorem P_ref_sub_code_stratified (w : World) (hw : w.ideal = false) (rkc rkr : Node → Nat)
    (hc : Stratified (sysOf w) rkc) (hr : Stratified (idealSys w) rkr) (n : Node) :
    P (idealSys w) (stratInterp (idealSys w) rkr) [] n → P (sysOf w) (stratInterp (sysOf w) rkc) [] n :=
  (stratified_refines hc hr (fun m => ruleOf_sim w hw true (.inl rfl) m) n).2

/-- **Soundness of the code model with respect to the reference rules.**  For a world whose code rules
and reference rules are both free of negation through recursion: an untainted `true` of the engine
(any schedule, any depth limit) is definitely true in the reference semantics, an untainted `false` is
not even possibly true in the reference semantics. -/
theorem check_sound_ref (w : World) (hw : w.ideal = false) (rkc rkr : Node → Nat)
    (hc : Stratified (sysOf w) rkc) (hr : Stratified (idealSys w) rkr) (maxDepth : Nat) (a c : Bool)
    (h : Eval (sysOf w) noFacts maxDepth 0 [] (rootExpr w) (.ok a c false)) :
    (a = true → HoldsD (idealSys w) (stratInterp (idealSys w) rkr) [] (rootExpr w)) ∧
    (a = false → ¬ HoldsP (idealSys w) (stratInterp (idealSys w) rkr) [] (rootExpr w)) := by
  have hs := check_sound_all_schedules_stratified w rkc hc maxDepth a c h
  constructor
  · intro ha
    exact .node (D_code_sub_ref w hw rkc rkr hc hr _ (holds_node_iff.mp (hs.1 ha)))
  · intro ha hp
    exact hs.2 ha (.node (P_ref_sub_code_stratified w hw rkc rkr hc hr _ (holds_node_iff.mp hp)))

/-- the executable model (one schedule) against the reference semantics -/
theorem check_sound_ref_exec (w : World) (hw : w.ideal = false) (rkc rkr : Node → Nat)
    (hc : Stratified (sysOf w) rkc) (hr : Stratified (idealSys w) rkr) (maxDepth fuel : Nat) (sc : Sched)
    (a c : Bool) (h : check w maxDepth sc fuel noCache = .ok a c false) :
    (a = true → HoldsD (idealSys w) (stratInterp (idealSys w) rkr) [] (rootExpr w)) ∧
    (a = false → ¬ HoldsP (idealSys w) (stratInterp (idealSys w) rkr) [] (rootExpr w)) := by
  apply check_sound_ref w hw rkc rkr hc hr maxDepth a c
  have := evalF_eval (sysOf w) maxDepth sc noCache fuel 0 [] (rootExpr w)
  unfold check at h
  rw [h] at this
  exact C01.eval_noCache this

/-- the statement that does **not** survive exclusion: equality of the definite semantics.  (With
exclusion only `D_code ⊆ D_ref` holds: `but not X` where `X` has an unevaluable tuple whose child is
false is definitely granted by the reference rules, while the code reports an error.) -/
def D_code_eq_ref_Full : Prop :=
  ∀ (w : World), w.ideal = false → ∀ (rkc rkr : Node → Nat), Stratified (sysOf w) rkc →
    Stratified (idealSys w) rkr → ∀ n,
      (D (sysOf w) (stratInterp (sysOf w) rkc) [] n ↔ D (idealSys w) (stratInterp (idealSys w) rkr) [] n)

end OpenFGAVerif.RefRules
