/-
Proofs about `Model.Resolver`:
  * `render_one_inj` / `render_two_inj`: a key of shape `prefix ++ a` determines `a`; a key of shape
    `prefix ++ a ++ c :: q ++ b` determines `a` and `b` when `c` does not occur in the value of `a`;
  * `run_exact`: for EVERY schedule of arrivals and flight completions, every answer handed to a request is the
    datastore's answer for that request's own arguments — provided the key is sound (`KeySound`: equal keys ⇒ equal
    datastore answers); nothing wrong is ever memoised (`run_inv`).
-/
import OpenFGAVerif.Model.Resolver

namespace OpenFGAVerif.Proofs.Resolver
open OpenFGAVerif.Model.Resolver

/-! ### lists -/

theorem app_cancel_left {α : Type} (p a b : List α) (h : p ++ a = p ++ b) : a = b := by
  induction p with
  | nil => exact h
  | cons x xs ih =>
    have h' : x :: (xs ++ a) = x :: (xs ++ b) := h
    injection h' with _ h2
    exact ih h2

/-- splitting at the first `c`: two `c`-free prefixes followed by `c` determine each other -/
theorem split_unique (c : UInt8) (s1 s2 r1 r2 : Bytes) (h1 : c ∉ s1) (h2 : c ∉ s2)
    (h : s1 ++ c :: r1 = s2 ++ c :: r2) : s1 = s2 ∧ r1 = r2 := by
  induction s1 generalizing s2 with
  | nil =>
    cases s2 with
    | nil =>
      have h' : c :: r1 = c :: r2 := h
      injection h' with _ h3
      exact ⟨rfl, h3⟩
    | cons y ys =>
      have h' : c :: r1 = y :: (ys ++ c :: r2) := h
      injection h' with h3 _
      exact absurd (by rw [h3]; exact List.mem_cons_self) h2
  | cons x xs ih =>
    cases s2 with
    | nil =>
      have h' : x :: (xs ++ c :: r1) = c :: r2 := h
      injection h' with h3 _
      exact absurd (by rw [← h3]; exact List.mem_cons_self) h1
    | cons y ys =>
      have h' : x :: (xs ++ c :: r1) = y :: (ys ++ c :: r2) := h
      injection h' with h3 h4
      have hx : c ∉ xs := fun m => h1 (List.mem_cons_of_mem _ m)
      have hy : c ∉ ys := fun m => h2 (List.mem_cons_of_mem _ m)
      have := ih ys hx hy h4
      exact ⟨by rw [h3, this.1], this.2⟩

/-! ### keys -/

theorem render_one (env : String → Bytes) (p : Bytes) (a : String) :
    render env (Shape.one p a).pieces = p ++ env a := by
  simp [Shape.pieces, render]

theorem render_two (env : String → Bytes) (p : Bytes) (a : String) (c : UInt8) (q : Bytes) (b : String) :
    render env (Shape.two p a c q b).pieces = p ++ (env a ++ c :: (q ++ env b)) := by
  simp [Shape.pieces, render]

theorem render_one_inj (p : Bytes) (a : String) (e1 e2 : String → Bytes)
    (h : render e1 (Shape.one p a).pieces = render e2 (Shape.one p a).pieces) : e1 a = e2 a := by
  rw [render_one, render_one] at h
  exact app_cancel_left p _ _ h

theorem render_two_inj (p : Bytes) (a : String) (c : UInt8) (q : Bytes) (b : String) (e1 e2 : String → Bytes)
    (h1 : c ∉ e1 a) (h2 : c ∉ e2 a)
    (h : render e1 (Shape.two p a c q b).pieces = render e2 (Shape.two p a c q b).pieces) :
    e1 a = e2 a ∧ e1 b = e2 b := by
  rw [render_two, render_two] at h
  have h' := app_cancel_left p _ _ h
  have hs := split_unique c (e1 a) (e2 a) _ _ h1 h2 h'
  exact ⟨hs.1, app_cancel_left q _ _ hs.2⟩

/-- keys with different first bytes never collide (FindLatest… vs ReadAuthorizationModel…) -/
theorem render_head_ne (e1 e2 : String → Bytes) (x y : UInt8) (p1 p2 : Bytes) (r1 r2 : List Piece) (hxy : x ≠ y) :
    render e1 (.lit (x :: p1) :: r1) ≠ render e2 (.lit (y :: p2) :: r2) := by
  intro h
  have h' : x :: (p1 ++ render e1 r1) = y :: (p2 ++ render e2 r2) := h
  injection h' with h3 _
  exact hxy h3

theorem envOf_store (r : Req) : envOf r "storeID" = r.store := by
  unfold envOf
  rw [if_pos rfl]

theorem envOf_model (r : Req) : envOf r "modelID" = r.model := by
  unfold envOf
  rw [if_neg (by decide), if_pos rfl]

theorem req_ext (r1 r2 : Req) (hs : r1.store = r2.store) (hm : r1.model = r2.model) : r1 = r2 := by
  cases r1; cases r2
  simp only [Req.mk.injEq]
  exact ⟨hs, hm⟩

/-! ### flights -/

section
variable {κ ρ α : Type} [DecidableEq κ] [DecidableEq ρ]

theorem lookup_mem {β : Type} (k : κ) (l : List (κ × β)) (v : β) (h : lookup k l = some v) : (k, v) ∈ l := by
  induction l with
  | nil => simp [lookup] at h
  | cons x xs ih =>
    by_cases hk : x.1 = k
    · have h1 : lookup k (x :: xs) = some x.2 := by simp [lookup, hk]
      rw [h1] at h
      injection h with h2
      have hx : x = (k, v) := Prod.ext hk h2
      rw [← hx]; exact List.mem_cons_self
    · have h1 : lookup k (x :: xs) = lookup k xs := by simp [lookup, hk]
      rw [h1] at h
      exact List.mem_cons_of_mem _ (ih h)

theorem mem_of_mem_dropAt {β : Type} (x : β) : ∀ (n : Nat) (l : List β), x ∈ dropAt n l → x ∈ l
  | _, [], h => by simp [dropAt] at h
  | 0, _ :: xs, h => by
    have h' : x ∈ xs := by simpa [dropAt] using h
    exact List.mem_cons_of_mem _ h'
  | n + 1, y :: xs, h => by
    have h' : x ∈ y :: dropAt n xs := by simpa [dropAt] using h
    rcases List.mem_cons.mp h' with rfl | hm
    · exact List.mem_cons_self
    · exact List.mem_cons_of_mem _ (mem_of_mem_dropAt x n xs hm)

/-- the key determines the datastore's answer (on the admissible requests `P`) -/
def KeySound (P : ρ → Prop) (key : ρ → κ) (ds : ρ → Option α) : Prop :=
  ∀ r r', P r → P r' → key r = key r' → ds r = ds r'

/-- every open flight carries the datastore's answer for an admissible leader with that key; every memo entry is the
datastore's answer for exactly its (store, model) -/
def Inv (P : ρ → Prop) (key : ρ → κ) (ds : ρ → Option α) (s : St κ ρ α) : Prop :=
  (∀ e ∈ s.open_, ∃ q, P q ∧ e.1 = key q ∧ e.2 = ds q) ∧ (∀ e ∈ s.memo, ds e.1 = some e.2)

theorem inv_empty (P : ρ → Prop) (key : ρ → κ) (ds : ρ → Option α) : Inv P key ds (empty : St κ ρ α) := by
  constructor
  · intro e he; simp [empty] at he
  · intro e he; simp [empty] at he

theorem mem_memoAdd (memoable : ρ → Bool) (r : ρ) (a : Option α) (memo : List (ρ × α)) (e : ρ × α)
    (h : e ∈ memoAdd memoable r a memo) : e ∈ memo ∨ (a = some e.2 ∧ e.1 = r) := by
  cases a with
  | none => exact Or.inl h
  | some v =>
    by_cases hb : memoable r = true
    · have h' : e ∈ memo ++ [(r, v)] := by simpa [memoAdd, hb] using h
      rcases List.mem_append.mp h' with h1 | h1
      · exact Or.inl h1
      · have he : e = (r, v) := by simpa using h1
        right; rw [he]; exact ⟨rfl, rfl⟩
    · have h' : e ∈ memo := by simpa [memoAdd, hb] using h
      exact Or.inl h'

theorem memoAdd_inv (ds : ρ → Option α) (memoable : ρ → Bool) (r : ρ) (memo : List (ρ × α))
    (hm : ∀ e ∈ memo, ds e.1 = some e.2) : ∀ e ∈ memoAdd memoable r (ds r) memo, ds e.1 = some e.2 := by
  intro e he
  rcases mem_memoAdd memoable r (ds r) memo e he with h1 | ⟨h1, h2⟩
  · exact hm e h1
  · rw [h2]; exact h1

/-- **one arrival**: the invariant is kept and the answer is the datastore's answer for the request itself -/
theorem arrive_spec (P : ρ → Prop) (key : ρ → κ) (ds : ρ → Option α) (memoable : ρ → Bool)
    (hk : KeySound P key ds) (s : St κ ρ α) (hinv : Inv P key ds s) (r : ρ) (hr : P r) :
    Inv P key ds (arrive key ds memoable s r).1 ∧ (arrive key ds memoable s r).2 = ds r := by
  unfold arrive
  split
  · rename_i v hv
    refine ⟨hinv, ?_⟩
    have hl : lookup r s.memo = some v := by
      unfold memoGet at hv
      by_cases hb : memoable r = true
      · simpa [hb] using hv
      · simp [hb] at hv
    have := hinv.2 _ (lookup_mem r s.memo v hl)
    exact this.symm
  · split
    · rename_i a ha
      obtain ⟨q, hq, hkq, haq⟩ := hinv.1 _ (lookup_mem (key r) s.open_ a ha)
      have hds : ds r = ds q := hk r q hr hq hkq
      have hres : a = ds r := by rw [hds]; exact haq
      refine ⟨⟨hinv.1, ?_⟩, hres⟩
      rw [hres]
      exact memoAdd_inv ds memoable r s.memo hinv.2
    · refine ⟨⟨?_, memoAdd_inv ds memoable r s.memo hinv.2⟩, rfl⟩
      intro e he
      have he' : e ∈ s.open_ ++ [(key r, ds r)] := he
      rcases List.mem_append.mp he' with h1 | h1
      · exact hinv.1 e h1
      · have h2 : e = (key r, ds r) := by simpa using h1
        exact ⟨r, hr, by rw [h2], by rw [h2]⟩

theorem finish_inv (P : ρ → Prop) (key : ρ → κ) (ds : ρ → Option α) (s : St κ ρ α) (hinv : Inv P key ds s) (k : Nat) :
    Inv P key ds { s with open_ := dropAt k s.open_ } :=
  ⟨fun e he => hinv.1 e (mem_of_mem_dropAt e k s.open_ he), hinv.2⟩

/-- **every schedule**: whatever the order of arrivals and flight completions, every request is answered with the
datastore's answer for its own (store, model), and the invariant (nothing wrong memoised) holds at the end -/
theorem run_exact (P : ρ → Prop) (key : ρ → κ) (ds : ρ → Option α) (memoable : ρ → Bool) (hk : KeySound P key ds)
    (evs : List (Ev ρ)) (s : St κ ρ α) (hinv : Inv P key ds s) (hall : ∀ r, Ev.arrive r ∈ evs → P r) :
    Inv P key ds (run key ds memoable s evs).1 ∧ ∀ out ∈ (run key ds memoable s evs).2, out.2 = ds out.1 := by
  induction evs generalizing s with
  | nil => exact ⟨hinv, fun out ho => by cases ho⟩
  | cons ev rest ih =>
    have hrest : ∀ r, Ev.arrive r ∈ rest → P r := fun r hm => hall r (List.mem_cons_of_mem _ hm)
    cases ev with
    | finish k =>
      simp only [run]
      exact ih _ (finish_inv P key ds s hinv k) hrest
    | arrive r =>
      simp only [run]
      have hr : P r := hall r List.mem_cons_self
      have hs := arrive_spec P key ds memoable hk s hinv r hr
      have ih' := ih _ hs.1 hrest
      refine ⟨ih'.1, ?_⟩
      intro out ho
      rcases List.mem_cons.mp ho with rfl | hm
      · exact hs.2
      · exact ih'.2 out hm

end

end OpenFGAVerif.Proofs.Resolver
