/-
Completeness of the classic reverse expansion with respect to the semantics: if the subject definitely
holds `o#r` (least fixpoint of the rules, code or reference) and `type(o)#r` is a relation the requested
relation depends on through pruned paths, then the expansion graph contains a node for `o#r` reachable
from the subject.  Induction on the Kleene stage (`BoolSys.iter`) at which `o#r` enters the fixpoint: the
rule of `o#r` holds one stage earlier, a pruned leaf of its rewrite holds (union: some child,
intersection: in particular the first child, exclusion: the base), the leaf names a tuple that passes the
filters and — unless the tuple names the subject itself — a userset that holds one stage earlier; the
edge for that leaf exists by `edges_complete`.
Together with `run_complete` (every schedule): every permitted object is sent as a result or candidate.
-/
import OpenFGAVerif.Proofs.RevExpandSem
import OpenFGAVerif.Proofs.RevExpandEdgesComplete

namespace OpenFGAVerif.RevExpand
open OpenFGAVerif.Vocab OpenFGAVerif.BoolSys OpenFGAVerif.CheckV1

def WellFormed (m : Model) : Prop := wellFormed m = true

theorem Rewrite.ind {motive : Rewrite → Prop} (this : motive .this) (computed : ∀ r, motive (.computed r))
    (ttu : ∀ ts c, motive (.ttu ts c)) (union : ∀ cs, (∀ c ∈ cs, motive c) → motive (.union cs))
    (inter : ∀ cs, (∀ c ∈ cs, motive c) → motive (.inter cs))
    (diff : ∀ b s, motive b → motive s → motive (.diff b s)) : ∀ rw, motive rw := by
  intro rw
  refine Rewrite.rec (motive_1 := motive) (motive_2 := fun cs => ∀ c ∈ cs, motive c)
    this computed ttu union inter diff ?_ ?_ rw
  · intro c hc; cases hc
  · intro hd tl ih1 ih2 c hc
    rcases List.mem_cons.mp hc with rfl | h
    · exact ih1
    · exact ih2 c h

theorem intersOKList_mem {cs : List Rewrite} (h : intersOKList cs = true) : ∀ c ∈ cs, intersOK c = true := by
  induction cs with
  | nil => intro c hc; cases hc
  | cons a as ih =>
    simp only [intersOKList, Bool.and_eq_true] at h
    intro c hc
    rcases List.mem_cons.mp hc with rfl | hc
    · exact h.1
    · exact ih h.2 c hc

theorem wellFormed_findRel {m : Model} (hwf : WellFormed m) {t r : String} {rd : RelDef}
    (h : m.findRel t r = some rd) : r ≠ "" ∧ refsOK rd.rewrite = true ∧ intersOK rd.rewrite = true := by
  unfold WellFormed wellFormed at hwf
  simp only [Bool.and_eq_true] at hwf
  obtain ⟨h1, h2⟩ := findRel_namesOK hwf.1 h
  refine ⟨h1, h2, ?_⟩
  unfold Model.findRel at h
  split at h
  · cases h
  · rename_i td htd
    have htm := List.mem_of_find?_eq_some htd
    have hrm := List.mem_of_find?_eq_some h
    exact (List.all_eq_true.mp ((List.all_eq_true.mp hwf.2) td htm)) rd hrm

theorem refsOK_pleaf {rw l : Rewrite} (h : PLeaf rw l) (hok : refsOK rw = true) : refsOK l = true := by
  induction h with
  | this => exact hok
  | computed _ => exact hok
  | ttu _ _ => exact hok
  | union hm _ ih => simp only [refsOK] at hok; exact ih (refsOKList_mem hok _ hm)
  | inter _ ih =>
    simp only [refsOK, refsOKList, Bool.and_eq_true] at hok
    exact ih hok.1
  | diff _ ih =>
    simp only [refsOK, Bool.and_eq_true] at hok
    exact ih hok.1

theorem pleaf_shape {rw l : Rewrite} (h : PLeaf rw l) :
    l = .this ∨ (∃ r, l = .computed r) ∨ ∃ ts c, l = .ttu ts c := by
  induction h with
  | this => exact Or.inl rfl
  | computed r => exact Or.inr (Or.inl ⟨r, rfl⟩)
  | ttu ts c => exact Or.inr (Or.inr ⟨ts, c, rfl⟩)
  | union _ _ ih => exact ih
  | inter _ ih => exact ih
  | diff _ ih => exact ih

theorem mem_ite_singleton {α : Type} {p : Prop} [Decidable p] {a e : α} (h : e ∈ (if p then [a] else [])) :
    p ∧ e = a := by
  split at h
  · rename_i hp; exact ⟨hp, List.mem_singleton.mp h⟩
  · cases h

theorem pleaf_ttus {rw : Rewrite} {ts c : String} (h : PLeaf rw (.ttu ts c)) : (ts, c) ∈ rw.ttus := by
  generalize hl : Rewrite.ttu ts c = l at h
  induction h with
  | this => cases hl
  | computed _ => cases hl
  | ttu ts' c' => cases hl; simp [Rewrite.ttus]
  | union hm _ ih =>
    simp only [Rewrite.ttus]
    exact List.mem_flatMap.mpr ⟨_, hm, ih hl⟩
  | inter _ ih =>
    simp only [Rewrite.ttus]
    exact List.mem_flatMap.mpr ⟨_, by simp, ih hl⟩
  | diff _ ih =>
    simp only [Rewrite.ttus]
    exact List.mem_append_left _ (ih hl)

/-- a rewrite that holds has a pruned leaf that holds -/
theorem pleaf_of_holds (w : World) (leaf : Leaf → Prop) (neg : Expr Node → Prop) (S : Node → Prop)
    (o r : String) (restrs : List Restr) :
    ∀ rw, intersOK rw = true → Holds leaf neg S (rewriteExpr w o r restrs rw) →
      ∃ l, PLeaf rw l ∧ Holds leaf neg S (rewriteExpr w o r restrs l) := by
  intro rw
  induction rw using Rewrite.ind with
  | this => intro _ h; exact ⟨_, PLeaf.this, h⟩
  | computed r' => intro _ h; exact ⟨_, PLeaf.computed r', h⟩
  | ttu ts c => intro _ h; exact ⟨_, PLeaf.ttu ts c, h⟩
  | union cs ih =>
    intro hok h
    simp only [rewriteExpr] at h
    simp only [intersOK] at hok
    cases h with
    | or hm he =>
      obtain ⟨c, hc, rfl⟩ := List.mem_map.mp hm
      obtain ⟨l, hl, hh⟩ := ih c hc (intersOKList_mem hok c hc) he
      exact ⟨l, PLeaf.union hc hl, hh⟩
  | inter cs ih =>
    intro hok h
    simp only [rewriteExpr] at h
    simp only [intersOK, Bool.and_eq_true, Bool.not_eq_true', List.isEmpty_eq_false_iff] at hok
    cases cs with
    | nil => exact absurd rfl hok.1
    | cons c rest =>
      cases h with
      | and hall =>
        have hc := hall _ (List.mem_map.mpr ⟨c, by simp, rfl⟩)
        obtain ⟨l, hl, hh⟩ := ih c (by simp) (intersOKList_mem hok.2 c (by simp)) hc
        exact ⟨l, PLeaf.inter hl, hh⟩
  | diff b s ihb _ =>
    intro hok h
    simp only [rewriteExpr] at h
    simp only [intersOK, Bool.and_eq_true] at hok
    cases h with
    | diff hb _ =>
      obtain ⟨l, hl, hh⟩ := ihb hok.1 hb
      exact ⟨l, PLeaf.diff hl, hh⟩

/-! ### inverting the leaves -/

theorem passed_mem {w : World} {ts : List Tuple} {t : Tuple} (h : t ∈ (filterIter w ts).passed) :
    t ∈ ts ∧ passes w t = true := by
  unfold filterIter at h
  simp only [List.mem_filter, decide_eq_true_eq] at h
  unfold passes
  simp only [Bool.and_eq_true, decide_eq_true_eq]
  exact ⟨h.1.1, h.1.2, h.2⟩

theorem kids_holds_inv {w : World} {neg : Expr Node → Prop} {S : Node → Prop} {f : Filtered}
    {child : Tuple → Option (Expr Node)} (h : Holds leafD neg S (.or (kidsOf w f child))) :
    ∃ t ∈ f.passed, ∃ e, child t = some e ∧ Holds leafD neg S e := by
  cases h with
  | or hm he =>
    unfold kidsOf at hm
    split at hm
    · rcases List.mem_append.mp hm with hm | hm
      · obtain ⟨t, ht, hc⟩ := List.mem_filterMap.mp hm
        exact ⟨t, ht, _, hc, he⟩
      · obtain ⟨t, _, hc⟩ := List.mem_filterMap.mp hm
        cases hct : child t with
        | none => rw [hct] at hc; cases hc
        | some c =>
          rw [hct] at hc
          simp only [Option.map_some, Option.some.injEq] at hc
          subst hc
          cases he with
          | and hall =>
            have := hall (.lit .err) (by simp)
            cases this with
            | lit hv => cases hv
    · rcases List.mem_append.mp hm with hm | hm
      · obtain ⟨t, ht, hc⟩ := List.mem_filterMap.mp hm
        exact ⟨t, ht, _, hc, he⟩
      · unfold errTail at hm
        split at hm
        · split at hm
          · simp at hm; subst hm
            cases he with
            | lit hv => cases hv
          · simp at hm; subst hm
            cases he with
            | lit hv => cases hv
        · cases hm

theorem handler_inv {w : World} {neg : Expr Node → Prop} {S : Node → Prop} {o r : String} {rs : List Restr}
    (hrs : ∀ x ∈ rs, x.rel ≠ "") (h : Holds leafD neg S (usersetHandler w o r rs)) :
    ∃ t ∈ w.all, t.obj = o ∧ t.rel = r ∧ isUserset t.user = true ∧ passes w t = true ∧ S (splitUserset t.user) := by
  unfold usersetHandler at h
  obtain ⟨t, ht, e, hc, he⟩ := kids_holds_inv h
  simp only [Option.some.injEq] at hc
  subst hc
  obtain ⟨htm, hpass⟩ := passed_mem ht
  have hS : S (splitUserset t.user) := by
    cases he with
    | node hn => exact hn
  unfold usersetTuples at htm
  simp only at htm
  rcases List.mem_append.mp htm with hm | hm
  · simp only [List.mem_filter, Bool.and_eq_true, decide_eq_true_eq] at hm
    exact ⟨t, List.mem_append_left _ hm.1, hm.2.1.1.1, hm.2.1.1.2, hm.2.1.2, hpass, hS⟩
  · obtain ⟨t', ht', hmap⟩ := List.mem_flatMap.mp hm
    obtain ⟨x, hx, htt⟩ := List.mem_map.mp hmap
    have htt' : t' = t := htt
    subst htt'
    simp only [List.mem_filter, Bool.and_eq_true, decide_eq_true_eq, Bool.or_eq_true] at ht' hx
    refine ⟨_, List.mem_append_right _ ht'.1, ht'.2.1.1, ht'.2.1.2, ?_, hpass, hS⟩
    unfold isUserset
    have := hrs x hx.1
    rw [hx.2.2] at this
    unfold userRel at this
    simpa using this

theorem usersets_inv {w : World} {neg : Expr Node → Prop} {S : Node → Prop} {o r : String} {restrs : List Restr}
    (h : Holds leafD neg S (usersetsExpr w o r restrs)) :
    ∃ t ∈ w.all, t.obj = o ∧ t.rel = r ∧ isUserset t.user = true ∧ passes w t = true ∧ S (splitUserset t.user) := by
  unfold usersetsExpr at h
  simp only at h
  have hus : ∀ x ∈ restrs.filter (fun x => x.rel ≠ ""), x.rel ≠ "" := by
    intro x hx; simpa using (List.mem_filter.mp hx).2
  split at h
  · exact handler_inv hus h
  · cases h with
    | or hm he =>
      rcases List.mem_append.mp hm with hm | hm
      · obtain ⟨x, hx, rfl⟩ := List.mem_map.mp hm
        refine handler_inv ?_ he
        intro y hy
        rw [List.mem_singleton.mp hy]
        exact hus x (List.mem_filter.mp hx).1
      · split at hm
        · cases hm
        · rw [List.mem_singleton] at hm; subst hm
          refine handler_inv ?_ he
          intro y hy
          exact hus y (List.mem_filter.mp hy).1

/-! ### the induction -/

section
variable (w : World) (I : Interp Node) (tT tR : String) (fuel : Nat)

/-- every node reachable in the expansion graph was expanded without error -/
def NoFail : Prop := ∀ n, Reach (fgaGraph w tT tR fuel) (rootNode w) n → ffails w tT tR fuel n = false

variable {w I tT tR fuel}

theorem edges_of_nofail (hnf : NoFail w tT tR fuel) {n : FNode} (hr : Reach (fgaGraph w tT tR fuel) (rootNode w) n) :
    ∃ es, edges w.model tT tR (srcRefOf w n) fuel = some es := by
  have := hnf n hr
  unfold ffails at this
  split at this
  · cases this
  · rename_i es hes; exact ⟨es, hes⟩

theorem succ_reach {n : FNode} (hr : Reach (fgaGraph w tT tR fuel) (rootNode w) n) {es : List Edge}
    (hes : edges w.model tT tR (srcRefOf w n) fuel = some es) {e : Edge} (he : e ∈ es) {o' : String}
    (ho : o' ∈ expandEdge w n e) :
    Reach (fgaGraph w tT tR fuel) (rootNode w) { o := o', r := e.rel, kind := some e.kind, ts := e.tupleset } := by
  have : (({ o := o', r := e.rel, kind := some e.kind, ts := e.tupleset } : FNode), e.flag) ∈
      (fgaGraph w tT tR fuel).succ n := by
    simp only [fgaGraph, fsucc, hes]
    exact List.mem_flatMap.mpr ⟨e, he, List.mem_map.mpr ⟨o', ho, rfl⟩⟩
  exact Reach.step hr this

/-- a tuple on a `this` leaf of `type(o)#r` leads from node `n` to a node for `o#r` -/
theorem direct_succ (hnf : NoFail w tT tR fuel) {n : FNode} (hr : Reach (fgaGraph w tT tR fuel) (rootNode w) n)
    {o r : String} (htr : TReach w.model (tT, tR) (typeOf o, r)) {rd : RelDef}
    (hrd : w.model.findRel (typeOf o) r = some rd) (hl : PLeaf rd.rewrite .this)
    (hguard : (directlyRelated w.model (typeOf o) r (srcRefOf w n) ||
               publiclyAssignable w.model (typeOf o) r (srcRefOf w n).typ) = true)
    {t : Tuple} (htm : t ∈ w.all) (hto : t.obj = o) (htrel : t.rel = r) (hpass : passes w t = true)
    (hmatch : ∀ e : Edge, e.typ = typeOf o → e.rel = r → directUserMatch w n e t = true) :
    ∃ n', Reach (fgaGraph w tT tR fuel) (rootNode w) n' ∧ n'.o = o ∧ n'.r = r := by
  obtain ⟨es, hes⟩ := edges_of_nofail hnf hr
  obtain ⟨rd', hrd', hleaf⟩ := edges_complete w.model tT tR (srcRefOf w n) fuel es hes _ _ htr
  rw [hrd] at hrd'; cases hrd'
  obtain ⟨e, he, hk, ht, hre, _⟩ := hleaf _ hl hguard
  have ho : o ∈ expandEdge w n e := by
    unfold expandEdge
    simp only [hk]
    refine List.mem_map.mpr ⟨t, List.mem_filter.mpr ⟨?_, hpass⟩, hto⟩
    unfold readEdge
    simp only [hk, List.mem_filter, Bool.and_eq_true, decide_eq_true_eq]
    exact ⟨htm, ⟨by rw [hto, ht], by rw [htrel, hre]⟩, hmatch e ht hre⟩
  exact ⟨_, succ_reach hr hes he ho, rfl, hre⟩

/-- the restriction that validates a tuple makes the source reference of its user directly related -/
theorem relationEquals_of_userset {x : Restr} {u : String} (hus : isUserset u = true)
    (hx : restrMatchesUser x u = true) :
    relationEquals { typ := userType u, rel := userRel u, wild := false } x = true := by
  unfold restrMatchesUser at hx
  rw [if_pos hus] at hx
  simp only [Bool.and_eq_true, decide_eq_true_eq, Bool.not_eq_true'] at hx
  have hne : userRel u ≠ "" := by
    unfold isUserset at hus; unfold userRel; simpa using hus
  unfold relationEquals
  simp only [Bool.and_eq_true, Bool.or_eq_true, decide_eq_true_eq, Bool.not_eq_true', ne_eq, decide_not]
  refine ⟨hx.1.1.symm, Or.inr ?_⟩
  refine ⟨⟨by simpa using hne, by rw [hx.1.2]; simpa using hne⟩, hx.1.2.symm⟩

theorem relationEquals_of_plain {x : Restr} {u : String} (hus : isUserset u = false)
    (hx : restrMatchesUser x u = true) :
    relationEquals { typ := userType u, rel := "", wild := isTypedWildcard u } x = true := by
  unfold restrMatchesUser at hx
  simp only [hus, Bool.false_eq_true, if_false] at hx
  unfold relationEquals
  split at hx
  · rename_i hw
    simp only [Bool.and_eq_true, decide_eq_true_eq] at hx
    simp [hx.1, hx.2, hw]
  · rename_i hw
    have hw' : isTypedWildcard u = false := by simpa using hw
    simp only [Bool.and_eq_true, decide_eq_true_eq, Bool.not_eq_true'] at hx
    simp [hx.1.1, hx.1.2, hx.2, hw']

theorem userType_split (u : String) : userType u = typeOf (splitUserset u).1 := rfl
theorem userRel_split (u : String) : userRel u = (splitUserset u).2 := rfl

theorem restr_typ_of_match {x : Restr} {u : String} (hx : restrMatchesUser x u = true) : x.typ = userType u := by
  unfold restrMatchesUser at hx
  split at hx
  · simp only [Bool.and_eq_true, decide_eq_true_eq] at hx; exact hx.1.1
  · split at hx
    · simp only [Bool.and_eq_true, decide_eq_true_eq] at hx; exact hx.1
    · simp only [Bool.and_eq_true, decide_eq_true_eq] at hx; exact hx.1.1

theorem isTupleset_of_pleaf {m : Model} {t r ts c : String} {rd : RelDef} (hrd : m.findRel t r = some rd)
    (hl : PLeaf rd.rewrite (.ttu ts c)) : m.isTuplesetRelation t ts = true := by
  unfold Model.findRel at hrd
  unfold Model.isTuplesetRelation
  split at hrd
  · cases hrd
  · rename_i td htd
    refine List.any_eq_true.mpr ⟨rd, List.mem_of_find?_eq_some hrd, ?_⟩
    exact List.any_eq_true.mpr ⟨(ts, c), pleaf_ttus hl, by simp⟩

/-- the main induction: every userset the subject definitely holds, of a relation the target depends
on through pruned paths, is a node of the expansion graph reachable from the subject -/
theorem reach_of_iter (hwf : WellFormed w.model) (hnf : NoFail w tT tR fuel) :
    ∀ (k : Nat) (o r : String), r ≠ "" → iter (sysOf w) leafD I.negD [] k (o, r) →
      TReach w.model (tT, tR) (typeOf o, r) →
      ∃ n, Reach (fgaGraph w tT tR fuel) (rootNode w) n ∧ n.o = o ∧ n.r = r := by
  intro k
  induction k with
  | zero => intro o r _ h; exact h.elim
  | succ k ih =>
    intro o r hrne hit htr
    have hrule : Holds leafD I.negD (iter (sysOf w) leafD I.negD [] k) (ruleOf w (o, r)) := hit.2
    unfold ruleOf at hrule
    simp only at hrule
    split at hrule
    · -- tuple.IsSelfDefining: the subject is this userset
      rename_i hself
      have hus : isUserset w.req.user = true := by
        unfold isUserset; rw [hself]; simpa using hrne
      refine ⟨rootNode w, Reach.refl, ?_, ?_⟩
      · unfold rootNode; rw [if_pos hus, hself]
      · unfold rootNode; rw [if_pos hus, hself]
    · cases hrd : w.model.findRel (typeOf o) r with
      | none =>
        rw [hrd] at hrule
        cases hrule with
        | lit hv => cases hv
      | some rd =>
        rw [hrd] at hrule
        simp only at hrule
        split at hrule
        · cases hrule with
          | lit hv => cases hv
        · obtain ⟨_, hrefs, hinters⟩ := wellFormed_findRel hwf hrd
          obtain ⟨l, hl, hh⟩ := pleaf_of_holds w _ _ _ o r rd.restrs rd.rewrite hinters hrule
          have hlrefs := refsOK_pleaf hl hrefs
          rcases pleaf_shape hl with hl' | ⟨r', hl'⟩ | ⟨ts, c, hl'⟩
          rotate_left
          · -- computed userset
            subst hl'
            simp only [rewriteExpr] at hh
            have hS : iter (sysOf w) leafD I.negD [] k (o, r') := by
              cases hh with
              | node hn => exact hn
            have hr'ne : r' ≠ "" := by simpa [refsOK] using hlrefs
            obtain ⟨n, hr, hno, hnr⟩ := ih o r' hr'ne hS (TReach.step htr (TStep.computed hrd hl))
            have hsrc : srcRefOf w n = { typ := typeOf o, rel := r', wild := false } := by
              unfold srcRefOf; rw [if_neg (by rw [hnr]; exact hr'ne), hno, hnr]
            obtain ⟨es, hes⟩ := edges_of_nofail hnf hr
            obtain ⟨rd', hrd', hleaf⟩ := edges_complete w.model tT tR (srcRefOf w n) fuel es hes _ _ htr
            rw [hrd] at hrd'; cases hrd'
            obtain ⟨e, he, hk, _, hre, _⟩ := hleaf _ hl (by rw [hsrc]; exact ⟨rfl, rfl⟩)
            have ho : o ∈ expandEdge w n e := by
              unfold expandEdge; simp [hk, hno]
            exact ⟨_, succ_reach hr hes he ho, rfl, hre⟩
          · -- tuple-to-userset
            subst hl'
            simp only [rewriteExpr] at hh
            unfold ttuExpr at hh
            obtain ⟨t, ht, e', hc, he'⟩ := kids_holds_inv hh
            obtain ⟨htm, hpass⟩ := passed_mem ht
            simp only [List.mem_filter, Bool.and_eq_true, decide_eq_true_eq] at htm
            obtain ⟨htall, hto, htrel⟩ := htm
            have hcne : c ≠ "" := by simpa [refsOK] using hlrefs
            -- the child: the userset `uo#c`
            cases hfr : w.model.findRel (typeOf (splitUserset t.user).1) c with
            | none => simp [hfr] at hc
            | some rdc =>
              simp only [hfr, Option.some.injEq] at hc
              subst hc
              have hS : iter (sysOf w) leafD I.negD [] k ((splitUserset t.user).1, c) := by
                cases he' with
                | node hn => exact hn
              have hv : validForRead w.model t = true := by
                unfold passes at hpass; simp only [Bool.and_eq_true] at hpass; exact hpass.1
              obtain ⟨rdt, hrdt, x, hx, hxm⟩ := valid_restr hv
              rw [hto, htrel] at hrdt
              have hxr : x ∈ restrsOf w.model (typeOf o) ts := by
                unfold restrsOf; rw [hrdt]; exact hx
              have hxt : x.typ = typeOf (splitUserset t.user).1 := restr_typ_of_match hxm
              have hstep : TStep w.model (typeOf o, r) (x.typ, c) :=
                TStep.ttu hrd hl hxr (by rw [hxt, hfr]; rfl)
              rw [hxt] at hstep
              obtain ⟨n, hr, hno, hnr⟩ := ih _ c hcne hS (TReach.step htr hstep)
              -- tuples of a tupleset relation name plain objects
              have hnus : isUserset t.user = false := by
                unfold validForRead at hv
                simp only [hto, htrel, hrdt, isTupleset_of_pleaf hrd hl, if_true, Bool.and_eq_true,
                  Bool.not_eq_true'] at hv
                exact hv.1.1.2
              have huo : userIsObject t n.o = true := by
                unfold userIsObject
                simp only [decide_eq_true_eq]
                unfold isUserset at hnus
                have h2 : (splitUserset t.user).2 = "" := by simpa using hnus
                rw [hno]
                exact Prod.ext rfl h2
              have hsrc : srcRefOf w n = { typ := typeOf (splitUserset t.user).1, rel := c, wild := false } := by
                unfold srcRefOf; rw [if_neg (by rw [hnr]; exact hcne), hno, hnr]
              obtain ⟨es, hes⟩ := edges_of_nofail hnf hr
              obtain ⟨rd', hrd', hleaf⟩ := edges_complete w.model tT tR (srcRefOf w n) fuel es hes _ _ htr
              rw [hrd] at hrd'; cases hrd'
              obtain ⟨e, he, hk, hty, hre, hts⟩ := hleaf _ hl x hxr (by rw [hxt, hfr]; rfl)
                (by rw [hsrc]; exact ⟨hxt, rfl⟩)
              have ho : o ∈ expandEdge w n e := by
                unfold expandEdge
                simp only [hk]
                refine List.mem_map.mpr ⟨t, List.mem_filter.mpr ⟨?_, hpass⟩, hto⟩
                unfold readEdge
                simp only [hk, List.mem_filter, Bool.and_eq_true, decide_eq_true_eq]
                exact ⟨htall, ⟨by rw [hto, hty], by rw [htrel, hts]⟩, huo⟩
              exact ⟨_, succ_reach hr hes he ho, rfl, hre⟩
          · -- this
            subst hl'
            simp only [rewriteExpr] at hh
            have hrestrs : restrsOf w.model (typeOf o) r = rd.restrs := by unfold restrsOf; rw [hrd]
            unfold directExpr at hh
            simp only at hh
            cases hh with
            | or hm he =>
              rcases List.mem_append.mp hm with hm | hm
              · rcases List.mem_append.mp hm with hm | hm
                · -- checkDirectUserTuple: the tuple names the subject itself
                  obtain ⟨_, hm⟩ := mem_ite_singleton hm
                  · subst hm
                    unfold directLeaf at he
                    split at he
                    · cases he with
                      | lit hv => cases hv
                    · rename_i t hfind
                      split at he
                      · cases he with
                        | lit hv => cases hv
                      · rename_i hvalid
                        have hv : validForRead w.model t = true := by simpa using hvalid
                        have htm := List.mem_of_find?_eq_some hfind
                        have hp := List.find?_some hfind
                        simp only [Bool.and_eq_true, decide_eq_true_eq] at hp
                        have hcond : evalCond w.model w.req.ctx t = .tt := by
                          split at he
                          · assumption
                          · cases he with
                            | lit hv => cases hv
                          · cases he with
                            | lit hv => cases hv
                        have hpass : passes w t = true := by
                          unfold passes; simp [hv, hcond]
                        obtain ⟨rdt, hrdt, x, hx, hxm⟩ := valid_restr hv
                        rw [hp.1.1, hp.1.2, hrd] at hrdt; cases hrdt
                        rw [hp.2] at hxm
                        by_cases hus : isUserset w.req.user = true
                        · -- the subject is a userset: the root node is that userset
                          have hroot : rootNode w = { o := (splitUserset w.req.user).1, r := (splitUserset w.req.user).2, kind := none, ts := "" } := by
                            unfold rootNode; rw [if_pos hus]
                          have hne : (splitUserset w.req.user).2 ≠ "" := by
                            unfold isUserset at hus; simpa using hus
                          have hsrc : srcRefOf w (rootNode w) = { typ := userType w.req.user, rel := userRel w.req.user, wild := false } := by
                            unfold srcRefOf; rw [hroot]; simp only; rw [if_neg hne]; rfl
                          refine direct_succ hnf Reach.refl htr hrd hl ?_ htm hp.1.1 hp.1.2 hpass ?_
                          · rw [hsrc]
                            simp only [Bool.or_eq_true]
                            left
                            unfold directlyRelated
                            rw [hrestrs]
                            exact List.any_eq_true.mpr ⟨x, hx, relationEquals_of_userset hus hxm⟩
                          · intro e _ _
                            unfold directUserMatch
                            rw [hroot]
                            simp only
                            rw [if_neg hne, hp.2]
                            simp [hus]
                        · have hus' : isUserset w.req.user = false := by simpa using hus
                          have hroot : rootNode w = { o := w.req.user, r := "", kind := none, ts := "" } := by
                            unfold rootNode; rw [if_neg hus]
                          have hsrc : srcRefOf w (rootNode w) = { typ := userType w.req.user, rel := "", wild := isTypedWildcard w.req.user } := by
                            unfold srcRefOf; rw [hroot]; simp
                          refine direct_succ hnf Reach.refl htr hrd hl ?_ htm hp.1.1 hp.1.2 hpass ?_
                          · rw [hsrc]
                            simp only [Bool.or_eq_true]
                            left
                            unfold directlyRelated
                            rw [hrestrs]
                            exact List.any_eq_true.mpr ⟨x, hx, relationEquals_of_plain hus' hxm⟩
                          · intro e _ _
                            unfold directUserMatch
                            rw [hroot]
                            simp [hp.2]
                · -- checkPublicAssignable: a wildcard tuple of the subject's type
                  obtain ⟨hpub, hm⟩ := mem_ite_singleton hm
                  · subst hm
                    simp only [Bool.and_eq_true, Bool.not_eq_true'] at hpub
                    unfold publicLeaf at he
                    simp only at he
                    split at he
                    · rename_i hne
                      have hne' : ¬ (filterIter w (w.all.filter (fun t => decide (t.obj = o) && decide (t.rel = r) &&
                          isTypedWildcard t.user && decide (userType t.user = userType w.req.user)))).passed = [] := by
                        intro h0; rw [h0] at hne; simp at hne
                      obtain ⟨t, ht⟩ := List.exists_mem_of_ne_nil _ hne'
                      obtain ⟨htm, hpass⟩ := passed_mem ht
                      simp only [List.mem_filter, Bool.and_eq_true, decide_eq_true_eq] at htm
                      obtain ⟨htall, ⟨⟨hto, htrel⟩, hwild⟩, hut⟩ := htm
                      have hroot : rootNode w = { o := w.req.user, r := "", kind := none, ts := "" } := by
                        unfold rootNode; rw [if_neg (by simp [hpub.1])]
                      have hsrc : srcRefOf w (rootNode w) = { typ := userType w.req.user, rel := "", wild := isTypedWildcard w.req.user } := by
                        unfold srcRefOf; rw [hroot]; simp
                      have hpa : publiclyAssignable w.model (typeOf o) r (userType w.req.user) = true := by
                        unfold publiclyAssignable; rw [hrestrs]; exact hpub.2
                      refine direct_succ hnf Reach.refl htr hrd hl ?_ htall hto htrel hpass ?_
                      · rw [hsrc]; simp [hpa]
                      · intro e hety here
                        unfold directUserMatch
                        rw [hroot]
                        simp only [if_true, hety, here, hpa, hwild, hut, decide_true, Bool.and_self, Bool.or_true]
                    · split at he
                      · cases he with
                        | lit hv => cases hv
                      · cases he with
                        | lit hv => cases hv
              · -- checkDirectUsersetTuples
                obtain ⟨_, hm⟩ := mem_ite_singleton hm
                · subst hm
                  obtain ⟨t, htall, hto, htrel, hus, hpass, hS⟩ := usersets_inv he
                  have hv : validForRead w.model t = true := by
                    unfold passes at hpass; simp only [Bool.and_eq_true] at hpass; exact hpass.1
                  obtain ⟨rdt, hrdt, x, hx, hxm⟩ := valid_restr hv
                  rw [hto, htrel, hrd] at hrdt; cases hrdt
                  have hxm' := hxm
                  unfold restrMatchesUser at hxm'
                  rw [if_pos hus] at hxm'
                  simp only [Bool.and_eq_true, decide_eq_true_eq, Bool.not_eq_true'] at hxm'
                  have hurne : (splitUserset t.user).2 ≠ "" := by
                    unfold isUserset at hus; simpa using hus
                  have hxne : x.rel ≠ "" := by rw [hxm'.1.2]; exact hurne
                  have hstep : TStep w.model (typeOf o, r) (x.typ, x.rel) :=
                    TStep.this hrd hl (by rw [hrestrs]; exact hx) hxne
                  rw [hxm'.1.1, hxm'.1.2] at hstep
                  obtain ⟨n, hr, hno, hnr⟩ := ih (splitUserset t.user).1 (splitUserset t.user).2 hurne hS
                    (TReach.step htr hstep)
                  have hsrc : srcRefOf w n = { typ := userType t.user, rel := userRel t.user, wild := false } := by
                    unfold srcRefOf; rw [if_neg (by rw [hnr]; exact hurne), hno, hnr]; rfl
                  refine direct_succ hnf hr htr hrd hl ?_ htall hto htrel hpass ?_
                  · rw [hsrc]
                    simp only [Bool.or_eq_true]
                    left
                    unfold directlyRelated
                    rw [hrestrs]
                    exact List.any_eq_true.mpr ⟨x, hx, relationEquals_of_userset hus hxm⟩
                  · intro e _ _
                    unfold directUserMatch
                    rw [if_neg (by rw [hnr]; exact hurne), hno, hnr]
                    simp [hus]

end

/-- **completeness against the rules** (`w.ideal` selects code or reference rules): the expansion ran to
the end without error ⇒ every object of the requested type on which the subject definitely holds the
relation was sent. -/
theorem complete_rules (w : World) (I : Interp Node) (hwf : WellFormed w.model)
    (hrel : (w.model.findRel (typeOf w.req.obj) w.req.rel).isSome = true) (fuel lim : Nat) (sched : List Nat)
    (hfin : (reverseExpand w fuel lim sched).work = []) (hne : (reverseExpand w fuel lim sched).err = false) :
    ∀ o, typeOf o = typeOf w.req.obj → D (sysOf w) I [] (o, w.req.rel) →
      o ∈ (reverseExpand w fuel lim sched).out.map Prod.fst := by
  intro o hty hD
  have hnf : NoFail w (typeOf w.req.obj) w.req.rel fuel :=
    run_nofail (fgaGraph w (typeOf w.req.obj) w.req.rel fuel) lim sched (rootNode w) hfin hne
  obtain ⟨k, hk⟩ := hD
  -- the requested relation exists (`Execute` rejects the request otherwise), so its name is not empty
  have hrne : w.req.rel ≠ "" := by
    cases hrd : w.model.findRel (typeOf w.req.obj) w.req.rel with
    | none => rw [hrd] at hrel; cases hrel
    | some rd => exact (wellFormed_findRel hwf hrd).1
  obtain ⟨n, hr, hno, hnr⟩ := reach_of_iter (I := I) hwf hnf k o w.req.rel hrne hk
    (by rw [hty]; exact TReach.refl)
  apply run_complete (fgaGraph w (typeOf w.req.obj) w.req.rel fuel) lim sched (rootNode w) hfin hne n hr o
  simp only [fgaGraph, ftarget]
  rw [hnr, hno, hty]
  simp [hrne]

end OpenFGAVerif.RevExpand
