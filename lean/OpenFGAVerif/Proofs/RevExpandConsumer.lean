/-
The consumer loop of `ListObjectsQuery.evaluate` (`Model.RevExpand` §4), for every event schedule:

  * `crun_out_confirmed`   every object written to the response was a NoFurtherEval result, or a
                           RequiresFurtherEval candidate whose confirming Check answered `allowed`
  * `crun_nodup`           no object twice (given the reverse expansion sends none twice)
  * `crun_bound`           never more than `limit` objects
  * `limit_exact_partial`  without deadline, errors and lost sends: exactly `min limit |confirmed|` objects
  * `limit_exact_fails`    the full statement is false of the code: `trySendObject` counts the object
                           (`objectsFound.Add(1)`) before sending it, and the send of a Check goroutine
                           races the `cancel()` issued by the loop when it sees the counter at the limit.
-/
import OpenFGAVerif.Model.RevExpand

namespace OpenFGAVerif.RevExpand

/-! ### list bookkeeping -/

theorem count_eraseIdx {l : List String} {i : Nat} {o : String} (h : l[i]? = some o) (a : String) :
    (l.eraseIdx i).count a + (if a = o then 1 else 0) = l.count a := by
  induction l generalizing i with
  | nil => simp at h
  | cons x xs ih =>
    cases i with
    | zero =>
      simp at h; subst h
      simp only [List.eraseIdx_cons_zero, List.count_cons]
      by_cases hax : a = x
      · subst hax; simp
      · have : (x == a) = false := by simpa using fun h => hax h.symm
        simp [hax, this]
    | succ j =>
      simp at h
      have := ih h
      simp only [List.eraseIdx_cons_succ, List.count_cons]
      omega

theorem length_eraseIdx_of_getElem? {α : Type} {l : List α} {i : Nat} {o : α} (h : l[i]? = some o) :
    (l.eraseIdx i).length + 1 = l.length := by
  obtain ⟨hi, _⟩ := List.getElem?_eq_some_iff.mp h
  rw [List.length_eraseIdx, if_pos hi]; omega

theorem mem_of_getElem?' {α : Type} {l : List α} {i : Nat} {a : α} (h : l[i]? = some a) : a ∈ l := by
  obtain ⟨hi, hia⟩ := List.getElem?_eq_some_iff.mp h
  exact hia ▸ List.getElem_mem hi

/-! ### what reaches the response -/

/-- confirmed: a NoFurtherEval result, or a candidate whose Check allows -/
def Confirmed (chk : String → CheckRes) (res : List (String × Bool)) (o : String) : Prop :=
  (o, false) ∈ res ∨ ((o, true) ∈ res ∧ chk o = .allow)

structure SubInv (chk : String → CheckRes) (res : List (String × Bool)) (s : CSt) : Prop where
  queue : ∀ p ∈ s.queue, p ∈ res
  inflight : ∀ o ∈ s.inflight, (o, true) ∈ res
  counted : ∀ o ∈ s.counted, (o, true) ∈ res ∧ chk o = .allow
  out : ∀ o ∈ s.out, Confirmed chk res o

theorem countObj_fields (limit : Nat) (s : CSt) :
    (countObj limit s).1.queue = s.queue ∧ (countObj limit s).1.inflight = s.inflight ∧
    (countObj limit s).1.counted = s.counted ∧ (countObj limit s).1.out = s.out ∧
    (countObj limit s).1.cancelled = s.cancelled ∧ (countObj limit s).1.dl = s.dl ∧
    (countObj limit s).1.stopped = s.stopped ∧ (countObj limit s).1.err = s.err ∧ (countObj limit s).1.hard = s.hard := by
  unfold countObj; split <;> simp

theorem fail_fields (s : CSt) (h : Bool) :
    (s.fail h).queue = s.queue ∧ (s.fail h).inflight = s.inflight ∧ (s.fail h).counted = s.counted ∧
    (s.fail h).out = s.out ∧ (s.fail h).found = s.found ∧ (s.fail h).stopped = s.stopped ∧ (s.fail h).dl = s.dl := by
  unfold CSt.fail; split <;> simp

theorem cstep_sub (limit : Nat) (chk : String → CheckRes) (res : List (String × Bool)) (s : CSt) (e : Ev)
    (h : SubInv chk res s) : SubInv chk res (cstep limit chk s e) := by
  cases e with
  | recv drop =>
    simp only [cstep]
    split
    · exact h
    · split
      · exact ⟨h.queue, h.inflight, h.counted, h.out⟩
      · rename_i o further q hq
        have hmem : (o, further) ∈ res := h.queue _ (by rw [hq]; simp)
        have hq' : ∀ p ∈ q, p ∈ res := fun p hp => h.queue p (by rw [hq]; exact List.mem_cons_of_mem _ hp)
        split
        · exact ⟨h.queue, h.inflight, h.counted, h.out⟩
        · split
          · rename_i hf
            have hff : further = false := by simpa using hf
            subst hff
            obtain ⟨f1, f2, f3, f4, _⟩ := countObj_fields limit { s with queue := q }
            split
            · refine ⟨by simp only [f1]; exact hq', by simp only [f2]; exact h.inflight, by simp only [f3]; exact h.counted, ?_⟩
              intro o' ho'
              simp only [f4] at ho'
              rcases List.mem_append.mp ho' with ho' | ho'
              · exact h.out o' ho'
              · simp at ho'; subst ho'; exact Or.inl hmem
            · exact ⟨by rw [f1]; exact hq', by rw [f2]; exact h.inflight, by rw [f3]; exact h.counted, by rw [f4]; exact h.out⟩
          · rename_i hf
            have hft : further = true := by simpa using hf
            subst hft
            refine ⟨hq', ?_, h.counted, h.out⟩
            intro o' ho'
            rcases List.mem_append.mp ho' with ho' | ho'
            · exact h.inflight o' ho'
            · simp at ho'; subst ho'; exact hmem
  | checkDone i =>
    simp only [cstep]
    split
    · exact h
    · rename_i o hio
      have hmem : (o, true) ∈ res := h.inflight o (mem_of_getElem?' hio)
      have hinf : ∀ o' ∈ s.inflight.eraseIdx i, (o', true) ∈ res := fun o' ho' => h.inflight o' (List.mem_of_mem_eraseIdx ho')
      split
      · rename_i hallow
        obtain ⟨f1, f2, f3, f4, _⟩ := countObj_fields limit { s with inflight := s.inflight.eraseIdx i }
        split
        · refine ⟨by simp only [f1]; exact h.queue, by simp only [f2]; exact hinf, ?_, by simp only [f4]; exact h.out⟩
          intro o' ho'
          simp only [f3] at ho'
          rcases List.mem_append.mp ho' with ho' | ho'
          · exact h.counted o' ho'
          · simp at ho'; subst ho'; exact ⟨hmem, hallow⟩
        · exact ⟨by rw [f1]; exact h.queue, by rw [f2]; exact hinf, by rw [f3]; exact h.counted, by rw [f4]; exact h.out⟩
      · exact ⟨h.queue, hinf, h.counted, h.out⟩
      · obtain ⟨f1, f2, f3, f4, _⟩ := fail_fields { s with inflight := s.inflight.eraseIdx i } false
        exact ⟨by rw [f1]; exact h.queue, by rw [f2]; exact hinf, by rw [f3]; exact h.counted, by rw [f4]; exact h.out⟩
      · obtain ⟨f1, f2, f3, f4, _⟩ := fail_fields { s with inflight := s.inflight.eraseIdx i } true
        exact ⟨by rw [f1]; exact h.queue, by rw [f2]; exact hinf, by rw [f3]; exact h.counted, by rw [f4]; exact h.out⟩
  | abort i =>
    simp only [cstep]
    split
    · exact ⟨h.queue, fun o' ho' => h.inflight o' (List.mem_of_mem_eraseIdx ho'), h.counted, h.out⟩
    · exact h
  | send i drop =>
    simp only [cstep]
    split
    · exact h
    · rename_i o hio
      have hc := h.counted o (mem_of_getElem?' hio)
      have hcnt : ∀ o' ∈ s.counted.eraseIdx i, (o', true) ∈ res ∧ chk o' = .allow :=
        fun o' ho' => h.counted o' (List.mem_of_mem_eraseIdx ho')
      split
      · exact ⟨h.queue, h.inflight, hcnt, h.out⟩
      · refine ⟨h.queue, h.inflight, hcnt, ?_⟩
        intro o' ho'
        rcases List.mem_append.mp ho' with ho' | ho'
        · exact h.out o' ho'
        · simp at ho'; subst ho'; exact Or.inr hc
  | deadline => simp only [cstep]; exact ⟨h.queue, h.inflight, h.counted, h.out⟩
  | stop => simp only [cstep]; split <;> exact ⟨h.queue, h.inflight, h.counted, h.out⟩
  | reError hard =>
    simp only [cstep]
    split
    · exact h
    · obtain ⟨f1, f2, f3, f4, _⟩ := fail_fields s hard
      exact ⟨by simp only [f1]; exact h.queue, by simp only [f2]; exact h.inflight,
        by simp only [f3]; exact h.counted, by simp only [f4]; exact h.out⟩

/-- **Only confirmed objects are returned**, for every schedule (deadline cuts, cancellations, errors and
lost sends included). -/
theorem crun_out_confirmed (limit : Nat) (chk : String → CheckRes) (res : List (String × Bool)) (evs : List Ev) :
    ∀ o ∈ (crun limit chk evs (CSt.init res)).out, Confirmed chk res o := by
  have key : ∀ (evs : List Ev) (s : CSt), SubInv chk res s → SubInv chk res (crun limit chk evs s) := by
    intro evs
    induction evs with
    | nil => intro s h; exact h
    | cons e es ih => intro s h; exact ih _ (cstep_sub limit chk res s e h)
  exact (key evs (CSt.init res) ⟨fun p hp => hp, by simp [CSt.init], by simp [CSt.init], by simp [CSt.init]⟩).out

/-! ### no duplicates -/

def cnt (s : CSt) (a : String) : Nat :=
  s.out.count a + s.counted.count a + s.inflight.count a + (s.queue.map Prod.fst).count a

theorem cstep_cnt (limit : Nat) (chk : String → CheckRes) (s : CSt) (e : Ev) (a : String) :
    cnt (cstep limit chk s e) a ≤ cnt s a := by
  cases e with
  | recv drop =>
    simp only [cstep]
    split
    · exact Nat.le_refl _
    · split
      · exact Nat.le_refl _
      · rename_i o further q hq
        split
        · exact Nat.le_refl _
        · split
          · obtain ⟨f1, f2, f3, f4, _⟩ := countObj_fields limit { s with queue := q }
            split
            · unfold cnt; simp only [f1, f2, f3, f4, hq, List.map_cons, List.count_cons, List.count_append, List.count_nil]
              omega
            · unfold cnt; simp only [f1, f2, f3, f4, hq, List.map_cons, List.count_cons]; omega
          · unfold cnt; simp only [hq, List.map_cons, List.count_cons, List.count_append, List.count_nil]; omega
  | checkDone i =>
    simp only [cstep]
    split
    · exact Nat.le_refl _
    · rename_i o hio
      have hc := count_eraseIdx hio a
      have hbeq : (if (o == a) = true then 1 else 0) = (if a = o then 1 else 0) := by
        by_cases h : a = o
        · subst h; simp
        · have : (o == a) = false := by simpa using fun h' => h h'.symm
          simp [h, this]
      split
      · obtain ⟨f1, f2, f3, f4, _⟩ := countObj_fields limit { s with inflight := s.inflight.eraseIdx i }
        split
        · unfold cnt; simp only [f1, f2, f3, f4, List.count_append, List.count_cons, List.count_nil, hbeq]; omega
        · unfold cnt; simp only [f1, f2, f3, f4]; omega
      · unfold cnt; simp only; omega
      · obtain ⟨f1, f2, f3, f4, _⟩ := fail_fields { s with inflight := s.inflight.eraseIdx i } false
        unfold cnt; simp only [f1, f2, f3, f4]; omega
      · obtain ⟨f1, f2, f3, f4, _⟩ := fail_fields { s with inflight := s.inflight.eraseIdx i } true
        unfold cnt; simp only [f1, f2, f3, f4]; omega
  | abort i =>
    simp only [cstep]
    split
    · unfold cnt; simp only
      have := (List.eraseIdx_sublist s.inflight i).count_le a
      omega
    · exact Nat.le_refl _
  | send i drop =>
    simp only [cstep]
    split
    · exact Nat.le_refl _
    · rename_i o hio
      have hc := count_eraseIdx hio a
      have hbeq : (if (o == a) = true then 1 else 0) = (if a = o then 1 else 0) := by
        by_cases h : a = o
        · subst h; simp
        · have : (o == a) = false := by simpa using fun h' => h h'.symm
          simp [h, this]
      split
      · unfold cnt; simp only; omega
      · unfold cnt; simp only [List.count_append, List.count_cons, List.count_nil, hbeq]; omega
  | deadline => simp only [cstep]; exact Nat.le_refl _
  | stop => simp only [cstep]; split <;> exact Nat.le_refl _
  | reError hard =>
    simp only [cstep]
    split
    · exact Nat.le_refl _
    · obtain ⟨f1, f2, f3, f4, _⟩ := fail_fields s hard
      unfold cnt; simp only [f1, f2, f3, f4]; exact Nat.le_refl _

/-- **No object is returned twice**, for every schedule, provided the reverse expansion sent none twice
(`RevExpand.run_nodup`). -/
theorem crun_nodup (limit : Nat) (chk : String → CheckRes) (res : List (String × Bool)) (evs : List Ev)
    (hres : (res.map Prod.fst).Nodup) : (crun limit chk evs (CSt.init res)).out.Nodup := by
  have key : ∀ (evs : List Ev) (s : CSt) (a : String), cnt (crun limit chk evs s) a ≤ cnt s a := by
    intro evs
    induction evs with
    | nil => intro s a; exact Nat.le_refl _
    | cons e es ih => intro s a; exact Nat.le_trans (ih _ a) (cstep_cnt limit chk s e a)
  rw [List.nodup_iff_count]
  intro a
  have h1 := key evs (CSt.init res) a
  have h2 : cnt (CSt.init res) a = (res.map Prod.fst).count a := by simp [cnt, CSt.init]
  have h3 := (List.nodup_iff_count.mp hres) a
  have h4 : (crun limit chk evs (CSt.init res)).out.count a ≤ cnt (crun limit chk evs (CSt.init res)) a := by
    unfold cnt; omega
  omega

/-! ### the limit is an upper bound -/

def BoundInv (limit : Nat) (s : CSt) : Prop :=
  s.out.length + s.counted.length ≤ s.found ∧ s.out.length + s.counted.length ≤ limit

theorem cstep_bound (limit : Nat) (hl : limit ≠ 0) (chk : String → CheckRes) (s : CSt) (e : Ev)
    (h : BoundInv limit s) : BoundInv limit (cstep limit chk s e) := by
  unfold BoundInv at *
  cases e with
  | recv drop =>
    simp only [cstep]
    split
    · exact h
    · split
      · exact h
      · split
        · exact h
        · split
          · unfold countObj
            simp only [hl, ne_eq, not_false_eq_true, if_true]
            split
            · rename_i hgo
              simp only [Bool.and_eq_true, decide_eq_true_eq] at hgo
              simp only [List.length_append, List.length_cons, List.length_nil]
              omega
            · simp only; omega
          · exact h
  | checkDone i =>
    simp only [cstep]
    split
    · exact h
    · split
      · unfold countObj
        simp only [hl, ne_eq, not_false_eq_true, if_true]
        split
        · rename_i hgo
          simp only [decide_eq_true_eq] at hgo
          simp only [List.length_append, List.length_cons, List.length_nil]
          omega
        · simp only; omega
      · exact h
      · obtain ⟨_, _, f3, f4, f5, _⟩ := fail_fields { s with inflight := s.inflight.eraseIdx i } false
        rw [f3, f4, f5]; exact h
      · obtain ⟨_, _, f3, f4, f5, _⟩ := fail_fields { s with inflight := s.inflight.eraseIdx i } true
        rw [f3, f4, f5]; exact h
  | abort i => simp only [cstep]; split <;> exact h
  | send i drop =>
    simp only [cstep]
    split
    · exact h
    · rename_i o hio
      have := length_eraseIdx_of_getElem? hio
      split
      · simp only; omega
      · simp only [List.length_append, List.length_cons, List.length_nil]; omega
  | deadline => simp only [cstep]; exact h
  | stop => simp only [cstep]; split <;> exact h
  | reError hard =>
    simp only [cstep]
    split
    · exact h
    · obtain ⟨_, _, f3, f4, f5, _⟩ := fail_fields s hard
      simp only [f3, f4, f5]; exact h

/-- **never more than `limit` objects**, for every schedule -/
theorem crun_bound (limit : Nat) (hl : limit ≠ 0) (chk : String → CheckRes) (res : List (String × Bool)) (evs : List Ev) :
    (crun limit chk evs (CSt.init res)).out.length ≤ limit := by
  have key : ∀ (evs : List Ev) (s : CSt), BoundInv limit s → BoundInv limit (crun limit chk evs s) := by
    intro evs
    induction evs with
    | nil => intro s h; exact h
    | cons e es ih => intro s h; exact ih _ (cstep_bound limit hl chk s e h)
  have := (key evs (CSt.init res) ⟨by simp [CSt.init], by simp [CSt.init]⟩).2
  omega

/-! ### exactly `limit` objects — when no send is lost -/

def Ev.clean : Ev → Bool
  | .recv drop => !drop
  | .send _ drop => !drop
  | .deadline => false
  | .stop => false
  | .reError _ => false
  | _ => true

def isConf (chk : String → CheckRes) (p : String × Bool) : Bool := !p.2 || decide (chk p.1 = .allow)
/-- number of confirmed results: NoFurtherEval results plus candidates whose Check allows -/
def nConf (chk : String → CheckRes) (l : List (String × Bool)) : Nat := l.countP (isConf chk)
def nAllow (chk : String → CheckRes) (l : List String) : Nat := l.countP (fun o => decide (chk o = .allow))

/-- number of `trySendObject` calls so far -/
def calls (limit : Nat) (s : CSt) : Nat := if limit ≠ 0 then s.found else s.out.length + s.counted.length

theorem countP_eraseIdx {α : Type} (p : α → Bool) {l : List α} {i : Nat} {o : α} (h : l[i]? = some o) :
    (l.eraseIdx i).countP p + (if p o = true then 1 else 0) = l.countP p := by
  induction l generalizing i with
  | nil => simp at h
  | cons x xs ih =>
    cases i with
    | zero =>
      simp at h; subst h
      simp only [List.eraseIdx_cons_zero, List.countP_cons]
    | succ j =>
      simp at h
      have := ih h
      simp only [List.eraseIdx_cons_succ, List.countP_cons]
      omega

theorem calls_pos {limit : Nat} (hl : limit ≠ 0) (s : CSt) : calls limit s = s.found := by
  unfold calls; rw [if_pos hl]

theorem calls_zero {limit : Nat} (hl : ¬ limit ≠ 0) (s : CSt) : calls limit s = s.out.length + s.counted.length := by
  unfold calls; rw [if_neg hl]

theorem countObj_pos {limit : Nat} (hl : limit ≠ 0) (s : CSt) :
    countObj limit s = ({ s with found := s.found + 1 }, decide (s.found + 1 ≤ limit)) := by
  unfold countObj; rw [if_pos hl]

theorem countObj_zero {limit : Nat} (hl : ¬ limit ≠ 0) (s : CSt) : countObj limit s = (s, true) := by
  unfold countObj; rw [if_neg hl]

def NoCheckErr (chk : String → CheckRes) (o : String) : Prop := chk o = .allow ∨ chk o = .deny

structure ExactInv (limit : Nat) (chk : String → CheckRes) (total : Nat) (s : CSt) : Prop where
  le : calls limit s + nAllow chk s.inflight + nConf chk s.queue ≤ total
  eq : s.cancelled = false → calls limit s + nAllow chk s.inflight + nConf chk s.queue = total
  len : limit ≠ 0 → s.out.length + s.counted.length = min s.found limit
  canc : s.cancelled = true → limit ≠ 0 ∧ s.found ≥ limit
  stop : s.stopped = true → s.cancelled = false → s.queue = []
  noerr : s.err = false ∧ s.dl = false
  chkI : ∀ o ∈ s.inflight, NoCheckErr chk o
  chkQ : ∀ p ∈ s.queue, p.2 = true → NoCheckErr chk p.1

theorem cstep_exact (limit : Nat) (chk : String → CheckRes) (total : Nat) (s : CSt) (e : Ev) (hc : e.clean = true)
    (h : ExactInv limit chk total s) : ExactInv limit chk total (cstep limit chk s e) := by
  cases e with
  | recv drop =>
    have hd : drop = false := by simpa [Ev.clean] using hc
    subst hd
    simp only [cstep]
    split
    · exact h
    · split
      · rename_i hq
        exact ⟨h.le, h.eq, h.len, h.canc, fun _ _ => hq, h.noerr, h.chkI, h.chkQ⟩
      · rename_i o further q hq
        have hchkq : ∀ p ∈ q, p.2 = true → NoCheckErr chk p.1 :=
          fun p hp => h.chkQ p (by rw [hq]; exact List.mem_cons_of_mem _ hp)
        split
        · rename_i hlim
          simp only [Bool.and_eq_true, decide_eq_true_eq, ne_eq, decide_not, Bool.not_eq_true'] at hlim
          refine ⟨h.le, fun hcf => by simp at hcf, h.len, fun _ => ⟨by simpa using hlim.1, hlim.2⟩,
            fun _ hcf => by simp at hcf, h.noerr, h.chkI, h.chkQ⟩
        · rename_i hlim
          have hlim' : limit ≠ 0 → s.found < limit := by
            intro hl
            simp only [Bool.and_eq_true, decide_eq_true_eq, not_and] at hlim
            have := hlim (by simpa using hl)
            omega
          split
          · -- NoFurtherEval: trySendObject in the loop
            rename_i hf
            have hff : further = false := by simpa using hf
            subst hff
            have hcq : nConf chk s.queue = nConf chk q + 1 := by
              rw [hq]; simp [nConf, isConf, List.countP_cons]
            simp only [Bool.false_and, Bool.not_false, Bool.and_true]
            by_cases hl : limit ≠ 0
            · rw [countObj_pos hl]
              have hlt := hlim' hl
              have hgo : decide (s.found + 1 ≤ limit) = true := by simp only [decide_eq_true_eq]; omega
              simp only [hgo, if_true]
              refine ⟨?_, ?_, ?_, ?_, ?_, h.noerr, h.chkI, hchkq⟩
              · have := h.le; rw [calls_pos hl] at this ⊢; simp only at this ⊢; omega
              · intro hcf
                have := h.eq hcf; rw [calls_pos hl] at this ⊢; simp only at this ⊢; omega
              · intro _
                have := h.len hl
                simp only [List.length_append, List.length_cons, List.length_nil]
                omega
              · intro hcf; have := h.canc hcf; exact ⟨hl, by omega⟩
              · intro hst hcf
                have := h.stop hst hcf; rw [this] at hq; cases hq
            · have hl0 : limit = 0 := by simpa using hl
              rw [countObj_zero hl]
              simp only [if_true]
              refine ⟨?_, ?_, fun hl' => absurd hl0 hl', ?_, ?_, h.noerr, h.chkI, hchkq⟩
              · have := h.le; rw [calls_zero hl] at this ⊢
                simp only [List.length_append, List.length_cons, List.length_nil] at this ⊢; omega
              · intro hcf
                have := h.eq hcf; rw [calls_zero hl] at this ⊢
                simp only [List.length_append, List.length_cons, List.length_nil] at this ⊢; omega
              · intro hcf; exact absurd hl0 (h.canc hcf).1
              · intro hst hcf
                have := h.stop hst hcf; rw [this] at hq; cases hq
          · -- candidate: a Check is started
            rename_i hf
            have hft : further = true := by simpa using hf
            subst hft
            have hcq : nConf chk s.queue = nConf chk q + (if chk o = .allow then 1 else 0) := by
              rw [hq]; simp [nConf, isConf, List.countP_cons]
            have hca : nAllow chk (s.inflight ++ [o]) = nAllow chk s.inflight + (if chk o = .allow then 1 else 0) := by
              simp [nAllow, List.countP_append, List.countP_cons]
            have hcalls : calls limit { s with queue := q, inflight := s.inflight ++ [o] } = calls limit s := rfl
            refine ⟨?_, ?_, h.len, h.canc, ?_, h.noerr, ?_, hchkq⟩
            · show calls limit { s with queue := q, inflight := s.inflight ++ [o] } + nAllow chk (s.inflight ++ [o]) + nConf chk q ≤ total
              rw [hcalls, hca]; have := h.le; omega
            · intro hcf
              show calls limit { s with queue := q, inflight := s.inflight ++ [o] } + nAllow chk (s.inflight ++ [o]) + nConf chk q = total
              rw [hcalls, hca]; have := h.eq hcf; omega
            · intro hst hcf
              have := h.stop hst hcf; rw [this] at hq; cases hq
            · intro o' ho'
              rcases List.mem_append.mp ho' with ho' | ho'
              · exact h.chkI o' ho'
              · simp at ho'; subst ho'
                exact h.chkQ (o', true) (by rw [hq]; simp) rfl
  | checkDone i =>
    simp only [cstep]
    split
    · exact h
    · rename_i o hio
      have hne := h.chkI o (mem_of_getElem?' hio)
      have hcp := countP_eraseIdx (fun o => decide (chk o = .allow)) hio
      have hchki : ∀ o' ∈ s.inflight.eraseIdx i, NoCheckErr chk o' :=
        fun o' ho' => h.chkI o' (List.mem_of_mem_eraseIdx ho')
      rcases hne with hallow | hdeny
      · simp only [hallow]
        simp only [hallow, decide_true, if_true] at hcp
        by_cases hl : limit ≠ 0
        · rw [countObj_pos hl]
          simp only
          split
          · rename_i hgo
            simp only [decide_eq_true_eq] at hgo
            refine ⟨?_, ?_, ?_, ?_, h.stop, h.noerr, hchki, h.chkQ⟩
            · have := h.le; rw [calls_pos hl] at this ⊢; unfold nAllow at this ⊢; simp only at this ⊢; omega
            · intro hcf; have := h.eq hcf; rw [calls_pos hl] at this ⊢; unfold nAllow at this ⊢; simp only at this ⊢; omega
            · intro _
              have := h.len hl
              simp only [List.length_append, List.length_cons, List.length_nil]
              omega
            · intro hcf; have := h.canc hcf; exact ⟨hl, by simp only; omega⟩
          · rename_i hgo
            simp only [decide_eq_true_eq] at hgo
            refine ⟨?_, ?_, ?_, ?_, h.stop, h.noerr, hchki, h.chkQ⟩
            · have := h.le; rw [calls_pos hl] at this ⊢; unfold nAllow at this ⊢; simp only at this ⊢; omega
            · intro hcf; have := h.eq hcf; rw [calls_pos hl] at this ⊢; unfold nAllow at this ⊢; simp only at this ⊢; omega
            · intro _; have := h.len hl; simp only; omega
            · intro hcf; have := h.canc hcf; exact ⟨hl, by simp only; omega⟩
        · have hl0 : limit = 0 := by simpa using hl
          rw [countObj_zero hl]
          simp only [if_true]
          refine ⟨?_, ?_, fun hl' => absurd hl0 hl', ?_, h.stop, h.noerr, hchki, h.chkQ⟩
          · have := h.le; rw [calls_zero hl] at this ⊢; unfold nAllow at this ⊢
            simp only [List.length_append, List.length_cons, List.length_nil] at this ⊢; omega
          · intro hcf; have := h.eq hcf; rw [calls_zero hl] at this ⊢; unfold nAllow at this ⊢
            simp only [List.length_append, List.length_cons, List.length_nil] at this ⊢; omega
          · intro hcf; exact absurd hl0 (h.canc hcf).1
      · simp only [hdeny]
        have : decide (CheckRes.deny = CheckRes.allow) = false := by decide
        simp only [hdeny, this, Bool.false_eq_true, if_false, Nat.add_zero] at hcp
        refine ⟨?_, ?_, h.len, h.canc, h.stop, h.noerr, hchki, h.chkQ⟩
        · have := h.le; unfold calls nAllow at this ⊢; simp only at this ⊢; omega
        · intro hcf; have := h.eq hcf; unfold calls nAllow at this ⊢; simp only at this ⊢; omega
  | abort i =>
    simp only [cstep]
    split
    · rename_i hcanc
      have hsub := (List.eraseIdx_sublist s.inflight i).countP_le (p := fun o => decide (chk o = .allow))
      refine ⟨?_, fun hcf => by simp [hcanc] at hcf, h.len, h.canc, h.stop, h.noerr,
        fun o' ho' => h.chkI o' (List.mem_of_mem_eraseIdx ho'), h.chkQ⟩
      have := h.le; unfold calls nAllow at this ⊢; simp only at this ⊢; omega
    · exact h
  | send i drop =>
    have hd : drop = false := by simpa [Ev.clean] using hc
    subst hd
    simp only [cstep]
    split
    · exact h
    · rename_i o hio
      have hlen := length_eraseIdx_of_getElem? hio
      simp only [Bool.false_and, Bool.false_eq_true, if_false]
      refine ⟨?_, ?_, ?_, h.canc, h.stop, h.noerr, h.chkI, h.chkQ⟩
      · have := h.le; unfold calls at this ⊢
        simp only [List.length_append, List.length_cons, List.length_nil] at this ⊢
        split at this <;> simp_all <;> omega
      · intro hcf
        have := h.eq hcf; unfold calls at this ⊢
        simp only [List.length_append, List.length_cons, List.length_nil] at this ⊢
        split at this <;> simp_all <;> omega
      · intro hl
        have := h.len hl
        simp only [List.length_append, List.length_cons, List.length_nil]
        omega
  | deadline => simp [Ev.clean] at hc
  | stop => simp [Ev.clean] at hc
  | reError hard => simp [Ev.clean] at hc

/-- **limit_exact (partial)**: for every schedule without deadline, without reverse-expansion or Check
errors and in which no channel send is lost to a concurrent `cancel()`, once all goroutines have returned
the response holds exactly `min limit |confirmed|` objects (`limit = 0`: all of them). -/
theorem limit_exact_partial (limit : Nat) (chk : String → CheckRes) (res : List (String × Bool)) (evs : List Ev)
    (hclean : ∀ e ∈ evs, e.clean = true) (hchk : ∀ p ∈ res, p.2 = true → NoCheckErr chk p.1)
    (hq : (crun limit chk evs (CSt.init res)).quiescent = true) :
    (crun limit chk evs (CSt.init res)).out.length = (if limit = 0 then nConf chk res else min limit (nConf chk res)) ∧
    (crun limit chk evs (CSt.init res)).err = false := by
  have key : ∀ (evs : List Ev) (s : CSt), (∀ e ∈ evs, e.clean = true) → ExactInv limit chk (nConf chk res) s →
      ExactInv limit chk (nConf chk res) (crun limit chk evs s) := by
    intro evs
    induction evs with
    | nil => intro s _ h; exact h
    | cons e es ih =>
      intro s hcl h
      exact ih _ (fun e' he' => hcl e' (List.mem_cons_of_mem _ he')) (cstep_exact limit chk _ s e (hcl e (by simp)) h)
  have init : ExactInv limit chk (nConf chk res) (CSt.init res) := by
    refine ⟨?_, ?_, ?_, ?_, ?_, ⟨rfl, rfl⟩, ?_, hchk⟩
    · simp [calls, CSt.init, nAllow]
    · intro _; simp [calls, CSt.init, nAllow]
    · intro _; simp [CSt.init]
    · intro h; simp [CSt.init] at h
    · intro h; simp [CSt.init] at h
    · intro o ho; simp [CSt.init] at ho
  have inv := key evs (CSt.init res) hclean init
  generalize crun limit chk evs (CSt.init res) = s at *
  unfold CSt.quiescent at hq
  simp only [Bool.and_eq_true, List.isEmpty_iff] at hq
  obtain ⟨⟨hst, hinf⟩, hcnt⟩ := hq
  refine ⟨?_, inv.noerr.1⟩
  have hna : nAllow chk ([] : List String) = 0 := rfl
  have hnc : nConf chk ([] : List (String × Bool)) = 0 := rfl
  by_cases hcf : s.cancelled = true
  · obtain ⟨hl, hfound⟩ := inv.canc hcf
    have hlen := inv.len hl
    have hle := inv.le
    rw [calls_pos hl, hinf, hna] at hle
    rw [hcnt] at hlen
    simp only [List.length_nil, Nat.add_zero] at hlen
    have hl0 : ¬ limit = 0 := hl
    rw [if_neg hl0]
    omega
  · have hcf' : s.cancelled = false := by simpa using hcf
    have hqe := inv.stop hst hcf'
    have heq := inv.eq hcf'
    rw [hinf, hqe, hna, hnc] at heq
    by_cases hl : limit = 0
    · rw [if_pos hl]
      rw [calls_zero (by simpa using hl), hcnt] at heq
      simp only [List.length_nil, Nat.add_zero] at heq
      exact heq
    · rw [if_neg hl]
      have hlen := inv.len hl
      rw [hcnt] at hlen
      simp only [List.length_nil, Nat.add_zero] at hlen
      rw [calls_pos hl] at heq
      omega

/-! ### the full statement is false: a counted object can lose its send to `cancel()` -/

/-- the full-strength statement: the same without the "no send is lost" restriction on the schedule -/
def FullLimitExact : Prop :=
  ∀ (limit : Nat) (chk : String → CheckRes) (res : List (String × Bool)) (evs : List Ev),
    (∀ e ∈ evs, e ≠ .deadline ∧ e ≠ .stop ∧ ∀ h, e ≠ .reError h) → (∀ p ∈ res, p.2 = true → NoCheckErr chk p.1) →
    (crun limit chk evs (CSt.init res)).quiescent = true →
    (crun limit chk evs (CSt.init res)).out.length = (if limit = 0 then nConf chk res else min limit (nConf chk res))

/-- limit 1, two candidates that both pass their Check: the first Check counts its object
(`objectsFound.Add(1) = 1`), the loop receives the second candidate, sees `objectsFound >= maxResults`
and cancels, and the first goroutine's `select` takes `ctx.Done()`.  The response is empty although two
objects are permitted and neither the deadline nor an error occurred. -/
theorem limit_exact_fails : ¬ FullLimitExact := by
  intro h
  have := h 1 (fun _ => .allow) [("doc:1", true), ("doc:2", true)]
    [.recv false, .checkDone 0, .recv false, .send 0 true]
    (by intro e he; simp at he; rcases he with rfl | rfl | rfl | rfl <;> simp)
    (by intro p _ _; exact Or.inl rfl) (by decide)
  revert this
  decide

/-! ### nothing confirmed is missing when the limit does not cut -/

theorem subset_of_nodup_length {l1 : List String} : ∀ (l2 : List String), l1.Nodup → (∀ a ∈ l1, a ∈ l2) →
    l2.length ≤ l1.length → ∀ a ∈ l2, a ∈ l1 := by
  induction l1 with
  | nil =>
    intro l2 _ _ hlen a ha
    cases l2 with
    | nil => cases ha
    | cons _ _ => simp at hlen
  | cons x xs ih =>
    intro l2 hnd hsub hlen a ha
    have hx : x ∈ l2 := hsub x (by simp)
    have hnd' := List.nodup_cons.mp hnd
    have hsub' : ∀ b ∈ xs, b ∈ l2.erase x := by
      intro b hb
      have hbx : b ≠ x := fun e => hnd'.1 (e ▸ hb)
      exact (List.mem_erase_of_ne hbx).mpr (hsub b (List.mem_cons_of_mem _ hb))
    have hlen' : (l2.erase x).length ≤ xs.length := by
      rw [List.length_erase_of_mem hx]; simp at hlen; omega
    by_cases hax : a = x
    · subst hax; simp
    · exact List.mem_cons_of_mem _ (ih (l2.erase x) hnd'.2 hsub' hlen' a ((List.mem_erase_of_ne hax).mpr ha))

/-- **out_complete**: clean schedule, no Check errors, all goroutines returned, and the limit does not
cut (`limit = 0` or at least as large as the number of confirmed objects) ⇒ every confirmed object is in
the response. -/
theorem out_complete (limit : Nat) (chk : String → CheckRes) (res : List (String × Bool)) (evs : List Ev)
    (hclean : ∀ e ∈ evs, e.clean = true) (hchk : ∀ p ∈ res, p.2 = true → NoCheckErr chk p.1)
    (hq : (crun limit chk evs (CSt.init res)).quiescent = true)
    (hlim : limit = 0 ∨ nConf chk res ≤ limit) (hnd : (res.map Prod.fst).Nodup) :
    ∀ p ∈ res, isConf chk p = true → p.1 ∈ (crun limit chk evs (CSt.init res)).out := by
  have hlen := (limit_exact_partial limit chk res evs hclean hchk hq).1
  have hlen' : (crun limit chk evs (CSt.init res)).out.length = nConf chk res := by
    rcases hlim with h0 | hle
    · rw [hlen, if_pos h0]
    · by_cases h0 : limit = 0
      · rw [hlen, if_pos h0]
      · rw [hlen, if_neg h0]; omega
  have hsub : ∀ a ∈ (crun limit chk evs (CSt.init res)).out, a ∈ (res.filter (isConf chk)).map Prod.fst := by
    intro a ha
    rcases crun_out_confirmed limit chk res evs a ha with h | ⟨h, hallow⟩
    · exact List.mem_map.mpr ⟨(a, false), List.mem_filter.mpr ⟨h, by simp [isConf]⟩, rfl⟩
    · exact List.mem_map.mpr ⟨(a, true), List.mem_filter.mpr ⟨h, by simp [isConf, hallow]⟩, rfl⟩
  have hcl : ((res.filter (isConf chk)).map Prod.fst).length ≤ (crun limit chk evs (CSt.init res)).out.length := by
    rw [hlen', List.length_map, nConf, List.countP_eq_length_filter]
    exact Nat.le_refl _
  intro p hp hc
  exact subset_of_nodup_length _ (crun_nodup limit chk res evs hnd) hsub hcl p.1
    (List.mem_map.mpr ⟨p, List.mem_filter.mpr ⟨hp, hc⟩, rfl⟩)

/-! ### no limit (`maxResults = 0`): an error-free run is complete, whatever the schedule -/

theorem fail_err (s : CSt) (h : Bool) : (s.fail h).err = true := by
  unfold CSt.fail; split <;> simp_all

theorem cstep_err_mono (limit : Nat) (chk : String → CheckRes) (s : CSt) (e : Ev)
    (h : (cstep limit chk s e).err = false) : s.err = false := by
  cases e with
  | recv drop =>
    simp only [cstep] at h
    split at h
    · exact h
    · split at h
      · exact h
      · split at h
        · exact h
        · split at h
          · obtain ⟨_, _, _, _, _, _, _, f8, _⟩ := countObj_fields limit { s with queue := ‹_› }
            split at h
            · simp only [f8] at h; exact h
            · rw [f8] at h; exact h
          · exact h
  | checkDone i =>
    simp only [cstep] at h
    split at h
    · exact h
    · split at h
      · obtain ⟨_, _, _, _, _, _, _, f8, _⟩ := countObj_fields limit { s with inflight := s.inflight.eraseIdx i }
        split at h
        · simp only [f8] at h; exact h
        · rw [f8] at h; exact h
      · exact h
      · rw [fail_err] at h; cases h
      · rw [fail_err] at h; cases h
  | abort i => simp only [cstep] at h; split at h <;> exact h
  | send i drop =>
    simp only [cstep] at h
    split at h
    · exact h
    · split at h <;> exact h
  | deadline => simp only [cstep] at h; exact h
  | stop => simp only [cstep] at h; split at h <;> exact h
  | reError hard =>
    simp only [cstep] at h
    split at h
    · exact h
    · have : ({ (s.fail hard) with stopped := true } : CSt).err = (s.fail hard).err := rfl
      rw [this, fail_err] at h; cases h

theorem crun_err_mono (limit : Nat) (chk : String → CheckRes) (evs : List Ev) (s : CSt)
    (h : (crun limit chk evs s).err = false) : s.err = false := by
  induction evs generalizing s with
  | nil => exact h
  | cons e es ih => exact cstep_err_mono limit chk s e (ih _ h)

structure ZeroInv (chk : String → CheckRes) (total : Nat) (s : CSt) : Prop where
  live : s.cancelled = false ∧ s.dl = false
  eq : s.out.length + s.counted.length + nAllow chk s.inflight + nConf chk s.queue = total
  stop : s.stopped = true → s.queue = []

theorem cstep_zero (chk : String → CheckRes) (total : Nat) (s : CSt) (e : Ev) (hd : e ≠ .deadline)
    (h : ZeroInv chk total s) (hne : (cstep 0 chk s e).err = false) : ZeroInv chk total (cstep 0 chk s e) := by
  have hz : ¬ (0 : Nat) ≠ 0 := by simp
  cases e with
  | recv drop =>
    simp only [cstep] at hne ⊢
    split
    · exact h
    · split
      · rename_i hq; exact ⟨h.live, h.eq, fun _ => hq⟩
      · rename_i o further q hq
        have hlim : ((0 : Nat) ≠ 0 && decide (s.found ≥ 0)) = false := by simp
        simp only [hlim, Bool.false_eq_true, if_false]
        split
        · rename_i hf
          have hff : further = false := by simpa using hf
          subst hff
          have hcq : nConf chk s.queue = nConf chk q + 1 := by rw [hq]; simp [nConf, isConf, List.countP_cons]
          rw [countObj_zero hz]
          have hdl : (drop && s.dl) = false := by simp [h.live.2]
          simp only [hdl, Bool.not_false, Bool.and_true, if_true]
          refine ⟨h.live, ?_, ?_⟩
          · have := h.eq
            simp only [List.length_append, List.length_cons, List.length_nil]
            omega
          · intro hst; have := h.stop hst; rw [this] at hq; cases hq
        · rename_i hf
          have hft : further = true := by simpa using hf
          subst hft
          have hcq : nConf chk s.queue = nConf chk q + (if chk o = .allow then 1 else 0) := by
            rw [hq]; simp [nConf, isConf, List.countP_cons]
          have hca : nAllow chk (s.inflight ++ [o]) = nAllow chk s.inflight + (if chk o = .allow then 1 else 0) := by
            simp [nAllow, List.countP_append, List.countP_cons]
          refine ⟨h.live, ?_, ?_⟩
          · show s.out.length + s.counted.length + nAllow chk (s.inflight ++ [o]) + nConf chk q = total
            rw [hca]; have := h.eq; omega
          · intro hst; have := h.stop hst; rw [this] at hq; cases hq
  | checkDone i =>
    simp only [cstep] at hne ⊢
    split
    · exact h
    · rename_i o hio
      simp only [hio] at hne
      have hcp := countP_eraseIdx (fun o => decide (chk o = .allow)) hio
      cases hc : chk o with
      | allow =>
        simp only [hc] at hne ⊢
        simp only [hc, decide_true, if_true] at hcp
        rw [countObj_zero hz]
        simp only [if_true]
        refine ⟨h.live, ?_, h.stop⟩
        have := h.eq; unfold nAllow at this ⊢
        simp only [List.length_append, List.length_cons, List.length_nil]
        omega
      | deny =>
        simp only [hc] at hne ⊢
        have : decide (CheckRes.deny = CheckRes.allow) = false := by decide
        simp only [hc, this, Bool.false_eq_true, if_false, Nat.add_zero] at hcp
        refine ⟨h.live, ?_, h.stop⟩
        have := h.eq; unfold nAllow at this ⊢; simp only at this ⊢; omega
      | errCond => simp only [hc] at hne; rw [fail_err] at hne; cases hne
      | errHard => simp only [hc] at hne; rw [fail_err] at hne; cases hne
  | abort i =>
    simp only [cstep]
    rw [h.live.1]
    simp only [Bool.false_eq_true, if_false]
    exact h
  | send i drop =>
    simp only [cstep]
    split
    · exact h
    · rename_i o hio
      have hlen := length_eraseIdx_of_getElem? hio
      have hdc : (drop && s.cancelled) = false := by simp [h.live.1]
      simp only [hdc, Bool.false_eq_true, if_false]
      refine ⟨h.live, ?_, h.stop⟩
      have := h.eq
      simp only [List.length_append, List.length_cons, List.length_nil]
      omega
  | deadline => exact absurd rfl hd
  | stop =>
    simp only [cstep]
    rw [h.live.2]
    simp only [Bool.false_eq_true, if_false]
    exact h
  | reError hard =>
    simp only [cstep] at hne ⊢
    split
    · exact h
    · rename_i hst
      rw [if_neg hst] at hne
      have : ({ (s.fail hard) with stopped := true } : CSt).err = (s.fail hard).err := rfl
      rw [this, fail_err] at hne; cases hne

/-- with `maxResults = 0`: no deadline and no error at the end ⇒ the response holds exactly the
confirmed objects (`drop` choices and aborts are impossible: nothing ever cancels) -/
theorem zero_limit_complete (chk : String → CheckRes) (res : List (String × Bool)) (evs : List Ev)
    (hev : ∀ e ∈ evs, e ≠ .deadline ∧ e ≠ .stop) (hq : (crun 0 chk evs (CSt.init res)).quiescent = true)
    (herr : (crun 0 chk evs (CSt.init res)).err = false) :
    (crun 0 chk evs (CSt.init res)).out.length = nConf chk res := by
  have key : ∀ (evs : List Ev) (s : CSt), (∀ e ∈ evs, e ≠ .deadline ∧ e ≠ .stop) → ZeroInv chk (nConf chk res) s →
      (crun 0 chk evs s).err = false → ZeroInv chk (nConf chk res) (crun 0 chk evs s) := by
    intro evs
    induction evs with
    | nil => intro s _ h _; exact h
    | cons e es ih =>
      intro s hev h hne
      have hne1 : (cstep 0 chk s e).err = false := crun_err_mono 0 chk es _ hne
      exact ih _ (fun e' he' => hev e' (List.mem_cons_of_mem _ he'))
        (cstep_zero chk _ s e (hev e (by simp)).1 h hne1) hne
  have init : ZeroInv chk (nConf chk res) (CSt.init res) := by
    refine ⟨⟨rfl, rfl⟩, ?_, ?_⟩
    · simp [CSt.init, nAllow]
    · intro h; simp [CSt.init] at h
  have inv := key evs (CSt.init res) hev init herr
  generalize crun 0 chk evs (CSt.init res) = s at *
  unfold CSt.quiescent at hq
  simp only [Bool.and_eq_true, List.isEmpty_iff] at hq
  obtain ⟨⟨hst, hinf⟩, hcnt⟩ := hq
  have heq := inv.eq
  rw [hinf, hcnt, inv.stop hst] at heq
  simpa [nAllow, nConf] using heq

end OpenFGAVerif.RevExpand
