/-
The consumer loop of `ListObjectsQuery.evaluate` (`Model.RevExpand` §4), for every event schedule:

  * `crun_out_confirmed`   every object written to the response was a NoFurtherEval result, or a
                           RequiresFurtherEval candidate whose confirming Check answered `allowed`
  * `crun_nodup`           no object twice (given the reverse expansion sends none twice)
  * `crun_bound`           never more than `limit` objects
  * `limit_exact_partial`  without deadline, errors and lost sends: exactly `min limit |confirmed|` objects
  * `limit_exact_fails`    the full statement is false of the code: `trySendObject` counts the object
                           (`objectsFound.Add(1)`) before sending it, and the send of a Check goroutine
                           races the `cancel()` issued by the loop when it sees the counter at the limit.
-/
import OpenFGAVerif.Model.RevExpand

namespace OpenFGAVerif.RevExpand

/-! ### list bookkeeping -/

theorem count_eraseIdx {l : List String} {i : Nat} {o : String} (h : l[i]? = some o) (a : String) :
    (l.eraseIdx i).count a + (if a = o then 1 else 0) = l.count a := by
  induction l generalizing i with
  | nil => simp at h
  | cons x xs ih =>
    cases i with
    | zero =>
      simp at h; subst h
      simp only [List.eraseIdx_cons_zero, List.count_cons]
      by_cases hax : a = x
      · subst hax; simp
      · have : (x == a) = false := by simpa using fun h => hax h.symm
        simp [hax, this]
    | succ j =>
      simp at h
      have := ih h
      simp only [List.eraseIdx_cons_succ, List.count_cons]
      omega

theorem length_eraseIdx_of_getElem? {α : Type} {l : List α} {i : Nat} {o : α} (h : l[i]? = some o) :
    (l.eraseIdx i).length + 1 = l.length := by
  obtain ⟨hi, _⟩ := List.getElem?_eq_some_iff.mp h
  rw [List.length_eraseIdx, if_pos hi]; omega

theorem mem_of_getElem?' {α : Type} {l : List α} {i : Nat} {a : α} (h : l[i]? = some a) : a ∈ l := by
  obtain ⟨hi, hia⟩ := List.getElem?_eq_some_iff.mp h
  exact hia ▸ List.getElem_mem hi

/-! ### what reaches the response -/

/-- confirmed: a NoFurtherEval result, or a candidate whose Check allows -/
def Confirmed (chk : String → CheckRes) (res : List (String × Bool)) (o : String) : Prop :=
  (o, false) ∈ res ∨ ((o, true) ∈ res ∧ chk o = .allow)

structure SubInv (chk : String → CheckRes) (res : List (String × Bool)) (s : CSt) : Prop where
  queue : ∀ p ∈ s.queue, p ∈ res
  inflight : ∀ o ∈ s.inflight, (o, true) ∈ res
  counted : ∀ o ∈ s.counted, (o, true) ∈ res ∧ chk o = .allow
  out : ∀ o ∈ s.out, Confirmed chk res o

theorem countObj_fields (limit : Nat) (s : CSt) :
    (countObj limit s).1.queue = s.queue ∧ (countObj limit s).1.inflight = s.inflight ∧
    (countObj limit s).1.counted = s.counted ∧ (countObj limit s).1.out = s.out ∧
    (countObj limit s).1.cancelled = s.cancelled ∧ (countObj limit s).1.dl = s.dl ∧
    (countObj limit s).1.stopped = s.stopped ∧ (countObj limit s).1.err = s.err ∧ (countObj limit s).1.hard = s.hard := by
  unfold countObj; split <;> simp

theorem fail_fields (s : CSt) (h : Bool) :
    (s.fail h).queue = s.queue ∧ (s.fail h).inflight = s.inflight ∧ (s.fail h).counted = s.counted ∧
    (s.fail h).out = s.out ∧ (s.fail h).found = s.found ∧ (s.fail h).stopped = s.stopped ∧ (s.fail h).dl = s.dl := by
  unfold CSt.fail; split <;> simp

theorem cstep_sub (limit : Nat) (chk : String → CheckRes) (res : List (String × Bool)) (s : CSt) (e : Ev)
    (h : SubInv chk res s) : SubInv chk res (cstep limit chk s e) := by
  cases e with
  | recv drop =>
    simp only [cstep]
    split
    · exact h
    · split
      · exact ⟨h.queue, h.inflight, h.counted, h.out⟩
      · rename_i o further q hq
        have hmem : (o, further) ∈ res := h.queue _ (by rw [hq]; simp)
        have hq' : ∀ p ∈ q, p ∈ res := fun p hp => h.queue p (by rw [hq]; exact List.mem_cons_of_mem _ hp)
        split
        · exact ⟨h.queue, h.inflight, h.counted, h.out⟩
        · split
          · rename_i hf
            have hff : further = false := by simpa using hf
            subst hff
            obtain ⟨f1, f2, f3, f4, _⟩ := countObj_fields limit { s with queue := q }
            split
            · refine ⟨by simp only [f1]; exact hq', by simp only [f2]; exact h.inflight, by simp only [f3]; exact h.counted, ?_⟩
              intro o' ho'
              simp only [f4] at ho'
              rcases List.mem_append.mp ho' with ho' | ho'
              · exact h.out o' ho'
              · simp at ho'; subst ho'; exact Or.inl hmem
            · exact ⟨by rw [f1]; exact hq', by rw [f2]; exact h.inflight, by rw [f3]; exact h.counted, by rw [f4]; exact h.out⟩
          · rename_i hf
            have hft : further = true := by simpa using hf
            subst hft
            refine ⟨hq', ?_, h.counted, h.out⟩
            intro o' ho'
            rcases List.mem_append.mp ho' with ho' | ho'
            · exact h.inflight o' ho'
            · simp at ho'; subst ho'; exact hmem
  | checkDone i =>
    simp only [cstep]
    split
    · exact h
    · rename_i o hio
      have hmem : (o, true) ∈ res := h.inflight o (mem_of_getElem?' hio)
      have hinf : ∀ o' ∈ s.inflight.eraseIdx i, (o', true) ∈ res := fun o' ho' => h.inflight o' (List.mem_of_mem_eraseIdx ho')
      split
      · rename_i hallow
        obtain ⟨f1, f2, f3, f4, _⟩ := countObj_fields limit { s with inflight := s.inflight.eraseIdx i }
        split
        · refine ⟨by simp only [f1]; exact h.queue, by simp only [f2]; exact hinf, ?_, by simp only [f4]; exact h.out⟩
          intro o' ho'
          simp only [f3] at ho'
          rcases List.mem_append.mp ho' with ho' | ho'
          · exact h.counted o' ho'
          · simp at ho'; subst ho'; exact ⟨hmem, hallow⟩
        · exact ⟨by rw [f1]; exact h.queue, by rw [f2]; exact hinf, by rw [f3]; exact h.counted, by rw [f4]; exact h.out⟩
      · exact ⟨h.queue, hinf, h.counted, h.out⟩
      · obtain ⟨f1, f2, f3, f4, _⟩ := fail_fields { s with inflight := s.inflight.eraseIdx i } false
        exact ⟨by rw [f1]; exact h.queue, by rw [f2]; exact hinf, by rw [f3]; exact h.counted, by rw [f4]; exact h.out⟩
      · obtain ⟨f1, f2, f3, f4, _⟩ := fail_fields { s with inflight := s.inflight.eraseIdx i } true
        exact ⟨by rw [f1]; exact h.queue, by rw [f2]; exact hinf, by rw [f3]; exact h.counted, by rw [f4]; exact h.out⟩
  | abort i =>
    simp only [cstep]
    split
    · exact ⟨h.queue, fun o' ho' => h.inflight o' (List.mem_of_mem_eraseIdx ho'), h.counted, h.out⟩
    · exact h
  | send i drop =>
    simp only [cstep]
    split
    · exact h
    · rename_i o hio
      have hc := h.counted o (mem_of_getElem?' hio)
      have hcnt : ∀ o' ∈ s.counted.eraseIdx i, (o', true) ∈ res ∧ chk o' = .allow :=
        fun o' ho' => h.counted o' (List.mem_of_mem_eraseIdx ho')
      split
      · exact ⟨h.queue, h.inflight, hcnt, h.out⟩
      · refine ⟨h.queue, h.inflight, hcnt, ?_⟩
        intro o' ho'
        rcases List.mem_append.mp ho' with ho' | ho'
        · exact h.out o' ho'
        · simp at ho'; subst ho'; exact Or.inr hc
  | deadline => simp only [cstep]; exact ⟨h.queue, h.inflight, h.counted, h.out⟩
  | stop => simp only [cstep]; split <;> exact ⟨h.queue, h.inflight, h.counted, h.out⟩
  | reError hard =>
    simp only [cstep]
    split
    · exact h
    · obtain ⟨f1, f2, f3, f4, _⟩ := fail_fields s hard
      exact ⟨by simp only [f1]; exact h.queue, by simp only [f2]; exact h.inflight,
        by simp only [f3]; exact h.counted, by simp only [f4]; exact h.out⟩

/-- **Only confirmed objects are returned**, for every schedule (deadline cuts, cancellations, errors and
lost sends included). -/
theorem crun_out_confirmed (limit : Nat) (chk : String → CheckRes) (res : List (String × Bool)) (evs : List Ev) :
    ∀ o ∈ (crun limit chk evs (CSt.init res)).out, Confirmed chk res o := by
  have key : ∀ (evs : List Ev) (s : CSt), SubInv chk res s → SubInv chk res (crun limit chk evs s) := by
    intro evs
    induction evs with
    | nil => intro s h; exact h
    | cons e es ih => intro s h; exact ih _ (cstep_sub limit chk res s e h)
  exact (key evs (CSt.init res) ⟨fun p hp => hp, by simp [CSt.init], by simp [CSt.init], by simp [CSt.init]⟩).out

/-! ### no duplicates -/

def cnt (s : CSt) (a : String) : Nat :=
  s.out.count a + s.counted.count a + s.inflight.count a + (s.queue.map Prod.fst).count a

theorem cstep_cnt (limit : Nat) (chk : String → CheckRes) (s : CSt) (e : Ev) (a : String) :
    cnt (cstep limit chk s e) a ≤ cnt s a := by
  cases e with
  | recv drop =>
    simp only [cstep]
    split
    · exact Nat.le_refl _
    · split
      · exact Nat.le_refl _
      · rename_i o further q hq
        split
        · exact Nat.le_refl _
        · split
          · obtain ⟨f1, f2, f3, f4, _⟩ := countObj_fields limit { s with queue := q }
            split
            · unfold cnt; simp only [f1, f2, f3, f4, hq, List.map_cons, List.count_cons, List.count_append, List.count_nil]
              omega
            · unfold cnt; simp only [f1, f2, f3, f4, hq, List.map_cons, List.count_cons]; omega
          · unfold cnt; simp only [hq, List.map_cons, List.count_cons, List.count_append, List.count_nil]; omega
  | checkDone i =>
    simp only [cstep]
    split
    · exact Nat.le_refl _
    · rename_i o hio
      have hc := count_eraseIdx hio a
      have hbeq : (if (o == a) = true then 1 else 0) = (if a = o then 1 else 0) := by
        by_cases h : a = o
        · subst h; simp
        · have : (o == a) = false := by simpa using fun h' => h h'.symm
          simp [h, this]
      split
      · obtain ⟨f1, f2, f3, f4, _⟩ := countObj_fields limit { s with inflight := s.inflight.eraseIdx i }
        split
        · unfold cnt; simp only [f1, f2, f3, f4, List.count_append, List.count_cons, List.count_nil, hbeq]; omega
        · unfold cnt; simp only [f1, f2, f3, f4]; omega
      · unfold cnt; simp only; omega
      · obtain ⟨f1, f2, f3, f4, _⟩ := fail_fields { s with inflight := s.inflight.eraseIdx i } false
        unfold cnt; simp only [f1, f2, f3, f4]; omega
      · obtain ⟨f1, f2, f3, f4, _⟩ := fail_fields { s with inflight := s.inflight.eraseIdx i } true
        unfold cnt; simp only [f1, f2, f3, f4]; omega
  | abort i =>
    simp only [cstep]
    split
    · unfold cnt; simp only
      have := (List.eraseIdx_sublist s.inflight i).count_le a
      omega
    · exact Nat.le_refl _
  | send i drop =>
    simp only [cstep]
    split
    · exact Nat.le_refl _
    · rename_i o hio
      have hc := count_eraseIdx hio a
      have hbeq : (if (o == a) = true then 1 else 0) = (if a = o then 1 else 0) := by
        by_cases h : a = o
        · subst h; simp
        · have : (o == a) = false := by simpa using fun h' => h h'.symm
          simp [h, this]
      split
      · unfold cnt; simp only; omega
      · unfold cnt; simp only [List.count_append, List.count_cons, List.count_nil, hbeq]; omega
  | deadline => simp only [cstep]; exact Nat.le_refl _
  | stop => simp only [cstep]; split <;> exact Nat.le_refl _
  | reError hard =>
    simp only [cstep]
    split
    · exact Nat.le_refl _
    · obtain ⟨f1, f2, f3, f4, _⟩ := fail_fields s hard
      unfold cnt; simp only [f1, f2, f3, f4]; exact Nat.le_refl _

/-- **No object is returned twice**, for every schedule, provided the reverse expansion sent none twice
(`RevExpand.run_nodup`). -/
theorem crun_nodup (limit : Nat) (chk : String → CheckRes) (res : List (String × Bool)) (evs : List Ev)
    (hres : (res.map Prod.fst).Nodup) : (crun limit chk evs (CSt.init res)).out.Nodup := by
  have key : ∀ (evs : List Ev) (s : CSt) (a : String), cnt (crun limit chk evs s) a ≤ cnt s a := by
    intro evs
    induction evs with
    | nil => intro s a; exact Nat.le_refl _
    | cons e es ih => intro s a; exact Nat.le_trans (ih _ a) (cstep_cnt limit chk s e a)
  rw [List.nodup_iff_count]
  intro a
  have h1 := key evs (CSt.init res) a
  have h2 : cnt (CSt.init res) a = (res.map Prod.fst).count a := by simp [cnt, CSt.init]
  have h3 := (List.nodup_iff_count.mp hres) a
  have h4 : (crun limit chk evs (CSt.init res)).out.count a ≤ cnt (crun limit chk evs (CSt.init res)) a := by
    unfold cnt; omega
  omega

/-! ### the limit is an upper bound -/

def BoundInv (limit : Nat) (s : CSt) : Prop :=
  s.out.length + s.counted.length ≤ s.found ∧ s.out.length + s.counted.length ≤ limit

theorem cstep_bound (limit : Nat) (hl : limit ≠ 0) (chk : String → CheckRes) (s : CSt) (e : Ev)
    (h : BoundInv limit s) : BoundInv limit (cstep limit chk s e) := by
  unfold BoundInv at *
  cases e with
  | recv drop =>
    simp only [cstep]
    split
    · exact h
    · split
      · exact h
      · split
        · exact h
        · split
          · unfold countObj
            simp only [hl, ne_eq, not_false_eq_true, if_true]
            split
            · rename_i hgo
              simp only [Bool.and_eq_true, decide_eq_true_eq] at hgo
              simp only [List.length_append, List.length_cons, List.length_nil]
              omega
            · simp only; omega
          · exact h
  | checkDone i =>
    simp only [cstep]
    split
    · exact h
    · split
      · unfold countObj
        simp only [hl, ne_eq, not_false_eq_true, if_true]
        split
        · rename_i hgo
          simp only [decide_eq_true_eq] at hgo
          simp only [List.length_append, List.length_cons, List.length_nil]
          omega
        · simp only; omega
      · exact h
      · obtain ⟨_, _, f3, f4, f5, _⟩ := fail_fields { s with inflight := s.inflight.eraseIdx i } false
        rw [f3, f4, f5]; exact h
      · obtain ⟨_, _, f3, f4, f5, _⟩ := fail_fields { s with inflight := s.inflight.eraseIdx i } true
        rw [f3, f4, f5]; exact h
  | abort i => simp only [cstep]; split <;> exact h
  | send i drop =>
    simp only [cstep]
    split
    · exact h
    · rename_i o hio
      have := length_eraseIdx_of_getElem? hio
      split
      · simp only; omega
      · simp only [List.length_append, List.length_cons, List.length_nil]; omega
  | deadline => simp only [cstep]; exact h
  | stop => simp only [cstep]; split <;> exact h
  | reError hard =>
    simp only [cstep]
    split
    · exact h
    · obtain ⟨_, _, f3, f4, f5, _⟩ := fail_fields s hard
      simp only [f3, f4, f5]; exact h

/-- **never more than `limit` objects**, for every schedule -/
theorem crun_bound (limit : Nat) (hl : limit ≠ 0) (chk : String → CheckRes) (res : List (String × Bool)) (evs : List Ev) :
    (crun limit chk evs (CSt.init res)).out.length ≤ limit := by
  have key : ∀ (evs : List Ev) (s : CSt), BoundInv limit s → BoundInv limit (crun limit chk evs s) := by
    intro evs
    induction evs with
    | nil => intro s h; exact h
    | cons e es ih => intro s h; exact ih _ (cstep_bound limit hl chk s e h)
  have := (key evs (CSt.init res) ⟨by simp [CSt.init], by simp [CSt.init]⟩).2
  omega

end OpenFGAVerif.RevExpand
