/-
What an *unflagged* edge of `GetPrunedRelationshipEdges` (`Model.RevExpand.edgesGo`) guarantees: inside the
rewrite of its target relation there is a path made of unions only from the root to the leaf that matches
the source (a `this` for a direct edge, the computed userset, the tuple-to-userset).  Every edge found
below an intersection or exclusion — in the same relation or in a relation above it — carries the flag,
whatever the call-global `visited` map has cut.
-/
import OpenFGAVerif.Model.RevExpand

namespace OpenFGAVerif.RevExpand
open OpenFGAVerif.Vocab

/-- `ULeaf rw l`: `l` occurs in `rw` below unions only -/
inductive ULeaf : Rewrite → Rewrite → Prop
  | here (l : Rewrite) : ULeaf l l
  | union {cs : List Rewrite} {c l : Rewrite} : c ∈ cs → ULeaf c l → ULeaf (.union cs) l

/-- the leaf of the target relation's rewrite an edge stands for -/
def leafOf (src : SrcRef) (e : Edge) : Rewrite :=
  match e.kind with
  | .direct => .this
  | .computed => .computed src.rel
  | .ttu => .ttu e.tupleset src.rel

def EdgeSide (m : Model) (src : SrcRef) (e : Edge) : Prop :=
  (e.kind = .computed → e.typ = src.typ) ∧ (e.kind = .ttu → (m.findRel src.typ src.rel).isSome = true)

/-- the edge is justified by a union-only path in the rewrite of its target relation -/
def EdgeJust (m : Model) (src : SrcRef) (e : Edge) : Prop :=
  ∃ rd, m.findRel e.typ e.rel = some rd ∧ ULeaf rd.rewrite (leafOf src e) ∧ EdgeSide m src e

/-- … or by a union-only path in the sub-rewrite `rw` of `t#r` that is being walked -/
def EdgeLocal (m : Model) (src : SrcRef) (t r : String) (rw : Rewrite) (e : Edge) : Prop :=
  e.typ = t ∧ e.rel = r ∧ ULeaf rw (leafOf src e) ∧ EdgeSide m src e

def Post (m : Model) (src : SrcRef) : Task → List Edge → Prop
  | .rel _ _, es => ∀ e ∈ es, e.flag = false → EdgeJust m src e
  | .rw t r rw, es => ∀ e ∈ es, e.flag = false → EdgeJust m src e ∨ EdgeLocal m src t r rw e
  | .restrs _, es => ∀ e ∈ es, e.flag = false → EdgeJust m src e
  | .kids t r cs, es => ∀ e ∈ es, e.flag = false → EdgeJust m src e ∨ ∃ c ∈ cs, EdgeLocal m src t r c e
  | .ttus t r ts c _, es => ∀ e ∈ es, e.flag = false → EdgeJust m src e ∨ EdgeLocal m src t r (.ttu ts c) e

theorem flagAll_flag {es : List Edge} {e : Edge} (h : e ∈ flagAll es) : e.flag = true := by
  unfold flagAll at h
  obtain ⟨e', _, rfl⟩ := List.mem_map.mp h
  rfl

theorem edgesGo_post (m : Model) (src : SrcRef) (ifuel : Nat) :
    ∀ (fuel : Nat) (vis : Vis) (task : Task) (es : List Edge) (vis' : Vis),
      edgesGo m src ifuel fuel vis task = some (es, vis') → Post m src task es := by
  intro fuel
  induction fuel with
  | zero => intro vis task es vis' h; simp [edgesGo] at h
  | succ f ih =>
    intro vis task es vis' h
    cases task with
    | rel t r =>
      simp only [edgesGo] at h
      split at h
      · simp at h; obtain ⟨rfl, _⟩ := h
        intro e he; cases he
      · cases hrd : m.findRel t r with
        | none => simp [hrd] at h
        | some rd =>
          simp only [hrd] at h
          have p := ih _ _ _ _ h
          intro e he hf
          rcases p e he hf with hj | ⟨ht, hr, hu, hs⟩
          · exact hj
          · exact ⟨rd, by rw [ht, hr]; exact hrd, hu, hs⟩
    | rw t r rw =>
      cases rw with
      | this =>
        simp only [edgesGo] at h
        split at h
        · cases h
        · rename_i es1 vis1 hrec
          simp only [Option.some.injEq, Prod.mk.injEq] at h
          obtain ⟨rfl, _⟩ := h
          have p1 := ih _ _ _ _ hrec
          intro e he hf
          rcases List.mem_append.mp he with he | he
          · right
            split at he
            · simp at he; subst he
              exact ⟨rfl, rfl, ULeaf.here _, by simp [EdgeSide]⟩
            · cases he
          · left; exact p1 e he hf
      | computed r' =>
        simp only [edgesGo] at h
        cases hrec : edgesGo m src ifuel f vis (.rel t r') with
        | none => simp [hrec] at h
        | some p =>
          obtain ⟨es1, vis1⟩ := p
          simp only [hrec, Option.some.injEq, Prod.mk.injEq] at h
          obtain ⟨rfl, _⟩ := h
          have p1 := ih _ _ _ _ hrec
          intro e he hf
          rcases List.mem_append.mp he with he | he
          · right
            split at he
            · rename_i hc
              simp only [Bool.and_eq_true, decide_eq_true_eq] at hc
              simp at he; subst he
              refine ⟨rfl, rfl, ?_, ?_⟩
              · show ULeaf (.computed r') (.computed src.rel)
                rw [hc.2]; exact ULeaf.here _
              · exact ⟨fun _ => hc.1, fun hk => (by cases hk)⟩
            · cases he
          · left; exact p1 e he hf
      | ttu ts c =>
        simp only [edgesGo] at h
        exact ih vis (.ttus t r ts c (restrsOf m t ts)) es vis' h
      | union cs =>
        simp only [edgesGo] at h
        have p := ih _ _ _ _ h
        intro e he hf
        rcases p e he hf with hj | ⟨c, hc, ht, hr, hu, hs⟩
        · left; exact hj
        · right; exact ⟨ht, hr, ULeaf.union hc hu, hs⟩
      | inter cs =>
        simp only [edgesGo] at h
        cases cs with
        | nil => simp at h
        | cons c rest =>
          simp only at h
          cases hrec : edgesGo m src ifuel f vis (.rw t r c) with
          | none => simp [hrec] at h
          | some p =>
            obtain ⟨es1, vis1⟩ := p
            simp only [hrec, Option.some.injEq, Prod.mk.injEq] at h
            obtain ⟨rfl, _⟩ := h
            intro e he hf
            rw [flagAll_flag he] at hf; cases hf
      | diff b s =>
        simp only [edgesGo] at h
        cases hrec : edgesGo m src ifuel f vis (.rw t r b) with
        | none => simp [hrec] at h
        | some p =>
          obtain ⟨es1, vis1⟩ := p
          simp only [hrec, Option.some.injEq, Prod.mk.injEq] at h
          obtain ⟨rfl, _⟩ := h
          intro e he hf
          rw [flagAll_flag he] at hf; cases hf
    | restrs xs =>
      cases xs with
      | nil =>
        simp only [edgesGo, Option.some.injEq, Prod.mk.injEq] at h
        obtain ⟨rfl, _⟩ := h
        intro e he; cases he
      | cons x rest =>
        simp only [edgesGo] at h
        cases hrec : edgesGo m src ifuel f vis (.rel x.typ x.rel) with
        | none => simp [hrec] at h
        | some p =>
          obtain ⟨es1, vis1⟩ := p
          simp only [hrec] at h
          cases hrec2 : edgesGo m src ifuel f vis1 (.restrs rest) with
          | none => simp [hrec2] at h
          | some p2 =>
            obtain ⟨es2, vis2⟩ := p2
            simp only [hrec2, Option.some.injEq, Prod.mk.injEq] at h
            obtain ⟨rfl, _⟩ := h
            have p1 := ih _ _ _ _ hrec
            have p2 := ih _ _ _ _ hrec2
            intro e he hf
            rcases List.mem_append.mp he with he | he
            · exact p1 e he hf
            · exact p2 e he hf
    | kids t r cs =>
      cases cs with
      | nil =>
        simp only [edgesGo, Option.some.injEq, Prod.mk.injEq] at h
        obtain ⟨rfl, _⟩ := h
        intro e he; cases he
      | cons c rest =>
        simp only [edgesGo] at h
        cases hrec : edgesGo m src ifuel f vis (.rw t r c) with
        | none => simp [hrec] at h
        | some p =>
          obtain ⟨es1, vis1⟩ := p
          simp only [hrec] at h
          cases hrec2 : edgesGo m src ifuel f vis1 (.kids t r rest) with
          | none => simp [hrec2] at h
          | some p2 =>
            obtain ⟨es2, vis2⟩ := p2
            simp only [hrec2, Option.some.injEq, Prod.mk.injEq] at h
            obtain ⟨rfl, _⟩ := h
            have p1 := ih _ _ _ _ hrec
            have p2 := ih _ _ _ _ hrec2
            intro e he hf
            rcases List.mem_append.mp he with he | he
            · rcases p1 e he hf with hj | hl
              · left; exact hj
              · right; exact ⟨c, by simp, hl⟩
            · rcases p2 e he hf with hj | ⟨c', hc', hl⟩
              · left; exact hj
              · right; exact ⟨c', List.mem_cons_of_mem _ hc', hl⟩
    | ttus t r ts c xs =>
      cases xs with
      | nil =>
        simp only [edgesGo, Option.some.injEq, Prod.mk.injEq] at h
        obtain ⟨rfl, _⟩ := h
        intro e he; cases he
      | cons x rest =>
        simp only [edgesGo] at h
        cases hfr : m.findRel x.typ c with
        | none =>
          simp only [hfr] at h
          exact ih vis (.ttus t r ts c rest) es vis' h
        | some rdx =>
          simp only [hfr] at h
          split at h
          · simp at h
          · rename_i hs hhere
            cases hrec : edgesGo m src ifuel f vis (.rel x.typ c) with
            | none => simp [hrec] at h
            | some p =>
              obtain ⟨es1, vis1⟩ := p
              simp only [hrec] at h
              cases hrec2 : edgesGo m src ifuel f vis1 (.ttus t r ts c rest) with
              | none => simp [hrec2] at h
              | some p2 =>
                obtain ⟨es2, vis2⟩ := p2
                simp only [hrec2, Option.some.injEq, Prod.mk.injEq] at h
                obtain ⟨rfl, _⟩ := h
                have p1 := ih _ _ _ _ hrec
                have p2 := ih _ _ _ _ hrec2
                intro e he hf
                rcases List.mem_append.mp he with he | he
                · rcases List.mem_append.mp he with he | he
                  · right
                    split at hhere
                    · rename_i hc
                      simp only [Bool.and_eq_true, decide_eq_true_eq] at hc
                      split at hhere
                      · simp only [Option.some.injEq] at hhere
                        subst hhere
                        simp at he; subst he
                        refine ⟨rfl, rfl, ?_, ?_⟩
                        · show ULeaf (.ttu ts c) (.ttu ts src.rel)
                          rw [hc.2]; exact ULeaf.here _
                        · refine ⟨fun hk => (by cases hk), fun _ => ?_⟩
                          rw [← hc.1, ← hc.2, hfr]; rfl
                      · cases hhere
                    · simp only [Option.some.injEq] at hhere
                      subst hhere; cases he
                  · left; exact p1 e he hf
                · exact p2 e he hf

/-- **edges are sound**: an edge of `GetPrunedRelationshipEdges` that is not flagged "involves
intersection or exclusion" is justified by a union-only path in the rewrite of its target relation. -/
theorem edges_sound (m : Model) (tT tR : String) (src : SrcRef) (fuel : Nat) (es : List Edge)
    (h : edges m tT tR src fuel = some es) : ∀ e ∈ es, e.flag = false → EdgeJust m src e := by
  unfold edges at h
  cases hg : edgesGo m src fuel fuel [] (.rel tT tR) with
  | none => simp [hg] at h
  | some p =>
    obtain ⟨es', vis'⟩ := p
    simp [hg] at h
    subst h
    exact edgesGo_post m src fuel fuel [] (.rel tT tR) es' vis' hg

end OpenFGAVerif.RevExpand
