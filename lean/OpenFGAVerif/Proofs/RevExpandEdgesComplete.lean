/-
Completeness of `GetPrunedRelationshipEdges` (`Model.RevExpand.edgesGo`): the depth-first walk with its
call-global `visited` map visits every relation that the target depends on through *pruned* paths
(union: every child, intersection: first child, exclusion: base) and, in each visited relation, examines
every pruned leaf of its rewrite — so for each such leaf that matches the source an edge is returned
(possibly flagged).  The `visited` map only cuts relations that were (or are being) processed.
-/
import OpenFGAVerif.Proofs.RevExpandEdges

namespace OpenFGAVerif.RevExpand
open OpenFGAVerif.Vocab

/-- `PLeaf rw l`: leaf `l` is reached in `rw` by the pruned walk -/
inductive PLeaf : Rewrite → Rewrite → Prop
  | this : PLeaf .this .this
  | computed (r : String) : PLeaf (.computed r) (.computed r)
  | ttu (ts c : String) : PLeaf (.ttu ts c) (.ttu ts c)
  | union {cs : List Rewrite} {c l : Rewrite} : c ∈ cs → PLeaf c l → PLeaf (.union cs) l
  | inter {c : Rewrite} {rest : List Rewrite} {l : Rewrite} : PLeaf c l → PLeaf (.inter (c :: rest)) l
  | diff {b s l : Rewrite} : PLeaf b l → PLeaf (.diff b s) l

def hasEdge (es : List Edge) (k : EdgeKind) (t r ts : String) : Prop :=
  ∃ e ∈ es, e.kind = k ∧ e.typ = t ∧ e.rel = r ∧ e.tupleset = ts

theorem hasEdge_append_left {es es2 : List Edge} {k : EdgeKind} {t r ts : String} (h : hasEdge es k t r ts) :
    hasEdge (es ++ es2) k t r ts := by
  obtain ⟨e, he, hk⟩ := h; exact ⟨e, List.mem_append_left _ he, hk⟩

theorem hasEdge_append_right {es es2 : List Edge} {k : EdgeKind} {t r ts : String} (h : hasEdge es2 k t r ts) :
    hasEdge (es ++ es2) k t r ts := by
  obtain ⟨e, he, hk⟩ := h; exact ⟨e, List.mem_append_right _ he, hk⟩

theorem hasEdge_flagAll {es : List Edge} {k : EdgeKind} {t r ts : String} (h : hasEdge es k t r ts) :
    hasEdge (flagAll es) k t r ts := by
  obtain ⟨e, he, hk⟩ := h
  exact ⟨{ e with flag := true }, List.mem_map.mpr ⟨e, he, rfl⟩, hk⟩

/-- what the walk does at a leaf of the rewrite of `t#r` -/
def LeafDone (m : Model) (src : SrcRef) (es : List Edge) (vis : Vis) (t r : String) : Rewrite → Prop
  | .this =>
    ((directlyRelated m t r src || publiclyAssignable m t r src.typ) = true → hasEdge es .direct t r "") ∧
    ∀ x ∈ restrsOf m t r, x.rel ≠ "" → (x.typ, x.rel) ∈ vis
  | .computed r' => ((t = src.typ ∧ r' = src.rel) → hasEdge es .computed t r "") ∧ (t, r') ∈ vis
  | .ttu ts c => ∀ x ∈ restrsOf m t ts, (m.findRel x.typ c).isSome = true →
      ((x.typ = src.typ ∧ c = src.rel) → hasEdge es .ttu t r ts) ∧ (x.typ, c) ∈ vis
  | _ => True

def RwDone (m : Model) (src : SrcRef) (es : List Edge) (vis : Vis) (t r : String) (rw : Rewrite) : Prop :=
  ∀ l, PLeaf rw l → LeafDone m src es vis t r l

def NodeDone (m : Model) (src : SrcRef) (es : List Edge) (vis : Vis) (a : String × String) : Prop :=
  ∃ rd, m.findRel a.1 a.2 = some rd ∧ RwDone m src es vis a.1 a.2 rd.rewrite

def EdgeLe (es es' : List Edge) : Prop := ∀ k t r ts, hasEdge es k t r ts → hasEdge es' k t r ts

theorem LeafDone.mono {m : Model} {src : SrcRef} {es es' : List Edge} {vis vis' : Vis} {t r : String} {l : Rewrite}
    (he : EdgeLe es es') (hv : ∀ a ∈ vis, a ∈ vis') (h : LeafDone m src es vis t r l) : LeafDone m src es' vis' t r l := by
  cases l with
  | this => exact ⟨fun g => he _ _ _ _ (h.1 g), fun x hx hne => hv _ (h.2 x hx hne)⟩
  | computed r' => exact ⟨fun g => he _ _ _ _ (h.1 g), hv _ h.2⟩
  | ttu ts c => exact fun x hx hs => ⟨fun g => he _ _ _ _ ((h x hx hs).1 g), hv _ (h x hx hs).2⟩
  | union _ => trivial
  | inter _ => trivial
  | diff _ _ => trivial

theorem RwDone.mono {m : Model} {src : SrcRef} {es es' : List Edge} {vis vis' : Vis} {t r : String} {rw : Rewrite}
    (he : EdgeLe es es') (hv : ∀ a ∈ vis, a ∈ vis') (h : RwDone m src es vis t r rw) : RwDone m src es' vis' t r rw :=
  fun l hl => (h l hl).mono he hv

theorem NodeDone.mono {m : Model} {src : SrcRef} {es es' : List Edge} {vis vis' : Vis} {a : String × String}
    (he : EdgeLe es es') (hv : ∀ a ∈ vis, a ∈ vis') (h : NodeDone m src es vis a) : NodeDone m src es' vis' a := by
  obtain ⟨rd, hrd, hd⟩ := h
  exact ⟨rd, hrd, hd.mono he hv⟩

/-- the task-specific part of the postcondition -/
def TaskDone (m : Model) (src : SrcRef) (es : List Edge) (vis : Vis) : Task → Prop
  | .rel t r => (t, r) ∈ vis
  | .rw t r rw => RwDone m src es vis t r rw
  | .restrs xs => ∀ x ∈ xs, (x.typ, x.rel) ∈ vis
  | .kids t r cs => ∀ c ∈ cs, RwDone m src es vis t r c
  | .ttus t r ts c xs => ∀ x ∈ xs, (m.findRel x.typ c).isSome = true →
      ((x.typ = src.typ ∧ c = src.rel) → hasEdge es .ttu t r ts) ∧ (x.typ, c) ∈ vis

structure Post2 (m : Model) (src : SrcRef) (vis : Vis) (task : Task) (es : List Edge) (vis' : Vis) : Prop where
  mono : ∀ a ∈ vis, a ∈ vis'
  fresh : ∀ a ∈ vis', a ∉ vis → NodeDone m src es vis' a
  task : TaskDone m src es vis' task

theorem edgeLe_refl (es : List Edge) : EdgeLe es es := fun _ _ _ _ h => h
theorem edgeLe_append_left (es es2 : List Edge) : EdgeLe es (es ++ es2) := fun _ _ _ _ h => hasEdge_append_left h
theorem edgeLe_append_right (es es2 : List Edge) : EdgeLe es2 (es ++ es2) := fun _ _ _ _ h => hasEdge_append_right h
theorem edgeLe_flagAll (es : List Edge) : EdgeLe es (flagAll es) := fun _ _ _ _ h => hasEdge_flagAll h

/-- sequencing two sub-walks `vis → vis1 → vis2` whose results are concatenated -/
theorem fresh_seq {m : Model} {src : SrcRef} {vis vis1 vis2 : Vis} {es1 es2 : List Edge}
    (m1 : ∀ a ∈ vis, a ∈ vis1) (f1 : ∀ a ∈ vis1, a ∉ vis → NodeDone m src es1 vis1 a)
    (m2 : ∀ a ∈ vis1, a ∈ vis2) (f2 : ∀ a ∈ vis2, a ∉ vis1 → NodeDone m src es2 vis2 a) :
    ∀ a ∈ vis2, a ∉ vis → NodeDone m src (es1 ++ es2) vis2 a := by
  intro a ha hna
  by_cases h1 : a ∈ vis1
  · exact (f1 a h1 hna).mono (edgeLe_append_left _ _) m2
  · exact (f2 a ha h1).mono (edgeLe_append_right _ _) (fun _ h => h)

theorem edgesGo_post2 (m : Model) (src : SrcRef) (ifuel : Nat) :
    ∀ (fuel : Nat) (vis : Vis) (task : Task) (es : List Edge) (vis' : Vis),
      edgesGo m src ifuel fuel vis task = some (es, vis') → Post2 m src vis task es vis' := by
  intro fuel
  induction fuel with
  | zero => intro vis task es vis' h; simp [edgesGo] at h
  | succ f ih =>
    intro vis task es vis' h
    cases task with
    | rel t r =>
      simp only [edgesGo] at h
      split at h
      · rename_i hin
        simp only [Option.some.injEq, Prod.mk.injEq] at h
        obtain ⟨rfl, rfl⟩ := h
        exact ⟨fun _ h => h, fun a ha hna => absurd ha hna, hin⟩
      · rename_i hnin
        cases hrd : m.findRel t r with
        | none => simp [hrd] at h
        | some rd =>
          simp only [hrd] at h
          have p := ih _ _ _ _ h
          refine ⟨fun a ha => p.mono a (List.mem_cons_of_mem _ ha), ?_, p.mono _ (by simp)⟩
          intro a ha hna
          by_cases hat : a = (t, r)
          · subst hat
            exact ⟨rd, hrd, p.task⟩
          · exact p.fresh a ha (by simp [hat, hna])
    | rw t r rw =>
      cases rw with
      | this =>
        simp only [edgesGo] at h
        split at h
        · cases h
        · rename_i es1 vis1 hrec
          simp only [Option.some.injEq, Prod.mk.injEq] at h
          obtain ⟨rfl, rfl⟩ := h
          have p := ih _ _ _ _ hrec
          refine ⟨p.mono, fun a ha hna => (p.fresh a ha hna).mono (edgeLe_append_right _ _) (fun _ h => h), ?_⟩
          intro l hl
          cases hl
          refine ⟨?_, ?_⟩
          · intro g
            apply hasEdge_append_left
            simp only [Bool.or_eq_true] at g
            rw [if_pos (by simpa using g)]
            exact ⟨_, List.mem_singleton.mpr rfl, rfl, rfl, rfl, rfl⟩
          · intro x hx hne
            exact p.task x (List.mem_filter.mpr ⟨hx, by simpa using hne⟩)
      | computed r' =>
        simp only [edgesGo] at h
        split at h
        · cases h
        · rename_i es1 vis1 hrec
          simp only [Option.some.injEq, Prod.mk.injEq] at h
          obtain ⟨rfl, rfl⟩ := h
          have p := ih _ _ _ _ hrec
          refine ⟨p.mono, fun a ha hna => (p.fresh a ha hna).mono (edgeLe_append_right _ _) (fun _ h => h), ?_⟩
          intro l hl
          cases hl
          refine ⟨?_, p.task⟩
          intro g
          apply hasEdge_append_left
          rw [if_pos (by simp [g.1, g.2])]
          exact ⟨_, List.mem_singleton.mpr rfl, rfl, rfl, rfl, rfl⟩
      | ttu ts c =>
        simp only [edgesGo] at h
        have p := ih vis (.ttus t r ts c (restrsOf m t ts)) es vis' h
        refine ⟨p.mono, p.fresh, ?_⟩
        intro l hl
        cases hl
        exact p.task
      | union cs =>
        simp only [edgesGo] at h
        have p := ih vis (.kids t r cs) es vis' h
        refine ⟨p.mono, p.fresh, ?_⟩
        intro l hl
        cases hl with
        | union hc hcl => exact p.task _ hc l hcl
      | inter cs =>
        simp only [edgesGo] at h
        cases cs with
        | nil => simp at h
        | cons c rest =>
          simp only at h
          split at h
          · cases h
          · rename_i es1 vis1 hrec
            simp only [Option.some.injEq, Prod.mk.injEq] at h
            obtain ⟨rfl, rfl⟩ := h
            have p := ih _ _ _ _ hrec
            refine ⟨p.mono, fun a ha hna => (p.fresh a ha hna).mono (edgeLe_flagAll _) (fun _ h => h), ?_⟩
            intro l hl
            cases hl with
            | inter hcl => exact (p.task l hcl).mono (edgeLe_flagAll _) (fun _ h => h)
      | diff b s =>
        simp only [edgesGo] at h
        split at h
        · cases h
        · rename_i es1 vis1 hrec
          simp only [Option.some.injEq, Prod.mk.injEq] at h
          obtain ⟨rfl, rfl⟩ := h
          have p := ih _ _ _ _ hrec
          refine ⟨p.mono, fun a ha hna => (p.fresh a ha hna).mono (edgeLe_flagAll _) (fun _ h => h), ?_⟩
          intro l hl
          cases hl with
          | diff hbl => exact (p.task l hbl).mono (edgeLe_flagAll _) (fun _ h => h)
    | restrs xs =>
      cases xs with
      | nil =>
        simp only [edgesGo, Option.some.injEq, Prod.mk.injEq] at h
        obtain ⟨rfl, rfl⟩ := h
        exact ⟨fun _ h => h, fun a ha hna => absurd ha hna, fun x hx => by cases hx⟩
      | cons x rest =>
        simp only [edgesGo] at h
        split at h
        · cases h
        · rename_i es1 vis1 hrec
          split at h
          · cases h
          · rename_i es2 vis2 hrec2
            simp only [Option.some.injEq, Prod.mk.injEq] at h
            obtain ⟨rfl, rfl⟩ := h
            have p1 := ih _ _ _ _ hrec
            have p2 := ih _ _ _ _ hrec2
            refine ⟨fun a ha => p2.mono a (p1.mono a ha), fresh_seq p1.mono p1.fresh p2.mono p2.fresh, ?_⟩
            intro y hy
            rcases List.mem_cons.mp hy with rfl | hy
            · exact p2.mono _ p1.task
            · exact p2.task y hy
    | kids t r cs =>
      cases cs with
      | nil =>
        simp only [edgesGo, Option.some.injEq, Prod.mk.injEq] at h
        obtain ⟨rfl, rfl⟩ := h
        exact ⟨fun _ h => h, fun a ha hna => absurd ha hna, fun c hc => by cases hc⟩
      | cons c rest =>
        simp only [edgesGo] at h
        split at h
        · cases h
        · rename_i es1 vis1 hrec
          split at h
          · cases h
          · rename_i es2 vis2 hrec2
            simp only [Option.some.injEq, Prod.mk.injEq] at h
            obtain ⟨rfl, rfl⟩ := h
            have p1 := ih _ _ _ _ hrec
            have p2 := ih _ _ _ _ hrec2
            refine ⟨fun a ha => p2.mono a (p1.mono a ha), fresh_seq p1.mono p1.fresh p2.mono p2.fresh, ?_⟩
            intro c' hc'
            rcases List.mem_cons.mp hc' with rfl | hc'
            · exact RwDone.mono (edgeLe_append_left _ _) p2.mono p1.task
            · exact RwDone.mono (edgeLe_append_right _ _) (fun _ h => h) (p2.task c' hc')
    | ttus t r ts c xs =>
      cases xs with
      | nil =>
        simp only [edgesGo, Option.some.injEq, Prod.mk.injEq] at h
        obtain ⟨rfl, rfl⟩ := h
        exact ⟨fun _ h => h, fun a ha hna => absurd ha hna, fun x hx => by cases hx⟩
      | cons x rest =>
        simp only [edgesGo] at h
        cases hfr : m.findRel x.typ c with
        | none =>
          simp only [hfr] at h
          have p := ih vis (.ttus t r ts c rest) es vis' h
          refine ⟨p.mono, p.fresh, ?_⟩
          intro y hy hs
          rcases List.mem_cons.mp hy with rfl | hy
          · rw [hfr] at hs; cases hs
          · exact p.task y hy hs
        | some rdx =>
          simp only [hfr] at h
          split at h
          · cases h
          · rename_i hs hhere
            split at h
            · cases h
            · rename_i es1 vis1 hrec
              split at h
              · cases h
              · rename_i es2 vis2 hrec2
                simp only [Option.some.injEq, Prod.mk.injEq] at h
                obtain ⟨rfl, rfl⟩ := h
                have p1 := ih _ _ _ _ hrec
                have p2 := ih _ _ _ _ hrec2
                refine ⟨fun a ha => p2.mono a (p1.mono a ha), ?_, ?_⟩
                · have := fresh_seq (es1 := hs ++ es1) (es2 := es2) p1.mono
                    (fun a ha hna => (p1.fresh a ha hna).mono (edgeLe_append_right _ _) (fun _ h => h)) p2.mono p2.fresh
                  exact this
                · intro y hy hsy
                  rcases List.mem_cons.mp hy with rfl | hy
                  · refine ⟨?_, p2.mono _ p1.task⟩
                    intro g
                    apply hasEdge_append_left
                    apply hasEdge_append_left
                    rw [if_pos (by simp [g.1, g.2])] at hhere
                    split at hhere
                    · simp only [Option.some.injEq] at hhere
                      subst hhere
                      exact ⟨_, List.mem_singleton.mpr rfl, rfl, rfl, rfl, rfl⟩
                    · cases hhere
                  · have := p2.task y hy hsy
                    exact ⟨fun g => hasEdge_append_right (this.1 g), this.2⟩

/-! ### the type-level dependency graph the walk explores -/

inductive TStep (m : Model) : String × String → String × String → Prop
  | this {t r : String} {rd : RelDef} {x : Restr} : m.findRel t r = some rd → PLeaf rd.rewrite .this →
      x ∈ restrsOf m t r → x.rel ≠ "" → TStep m (t, r) (x.typ, x.rel)
  | computed {t r r' : String} {rd : RelDef} : m.findRel t r = some rd → PLeaf rd.rewrite (.computed r') →
      TStep m (t, r) (t, r')
  | ttu {t r ts c : String} {rd : RelDef} {x : Restr} : m.findRel t r = some rd → PLeaf rd.rewrite (.ttu ts c) →
      x ∈ restrsOf m t ts → (m.findRel x.typ c).isSome = true → TStep m (t, r) (x.typ, c)

inductive TReach (m : Model) (a : String × String) : String × String → Prop
  | refl : TReach m a a
  | step {b c : String × String} : TReach m a b → TStep m b c → TReach m a c

/-- the edge a leaf gives rise to, if it matches the source -/
def LeafEdge (m : Model) (src : SrcRef) (es : List Edge) (t r : String) : Rewrite → Prop
  | .this => (directlyRelated m t r src || publiclyAssignable m t r src.typ) = true → hasEdge es .direct t r ""
  | .computed r' => (t = src.typ ∧ r' = src.rel) → hasEdge es .computed t r ""
  | .ttu ts c => ∀ x ∈ restrsOf m t ts, (m.findRel x.typ c).isSome = true → (x.typ = src.typ ∧ c = src.rel) →
      hasEdge es .ttu t r ts
  | _ => True

/-- **edges are complete**: for every relation the target depends on through pruned paths and every
pruned leaf of its rewrite that matches the source, an edge is returned. -/
theorem edges_complete (m : Model) (tT tR : String) (src : SrcRef) (fuel : Nat) (es : List Edge)
    (h : edges m tT tR src fuel = some es) :
    ∀ t r, TReach m (tT, tR) (t, r) → ∃ rd, m.findRel t r = some rd ∧ ∀ l, PLeaf rd.rewrite l → LeafEdge m src es t r l := by
  unfold edges at h
  cases hg : edgesGo m src fuel fuel [] (.rel tT tR) with
  | none => simp [hg] at h
  | some p =>
    obtain ⟨es', vis'⟩ := p
    simp [hg] at h
    subst h
    have post := edgesGo_post2 m src fuel fuel [] (.rel tT tR) es' vis' hg
    have hall : ∀ a ∈ vis', NodeDone m src es' vis' a := fun a ha => post.fresh a ha (by simp)
    have hin : ∀ b, TReach m (tT, tR) b → b ∈ vis' := by
      intro b hb
      induction hb with
      | refl => exact post.task
      | step _ hs ih =>
        obtain ⟨rd, hrd, hdone⟩ := hall _ ih
        cases hs with
        | this hrd' hl hx hne =>
          simp only at hrd
          rw [hrd'] at hrd; cases hrd
          exact (hdone _ hl).2 _ hx hne
        | computed hrd' hl =>
          simp only at hrd
          rw [hrd'] at hrd; cases hrd
          exact (hdone _ hl).2
        | ttu hrd' hl hx hs =>
          simp only at hrd
          rw [hrd'] at hrd; cases hrd
          exact ((hdone _ hl) _ hx hs).2
    intro t r hr
    obtain ⟨rd, hrd, hdone⟩ := hall _ (hin _ hr)
    refine ⟨rd, hrd, ?_⟩
    intro l hl
    have := hdone l hl
    cases l with
    | this => exact this.1
    | computed r' => exact this.1
    | ttu ts c => exact fun x hx hs g => ((this x hx hs).1 g)
    | union _ => trivial
    | inter _ => trivial
    | diff _ _ => trivial

end OpenFGAVerif.RevExpand
