/-
One step of the classic reverse expansion along an **unflagged** edge preserves "the subject definitely
holds the userset": if the subject is in `o#r` and the expansion moves to `o'#r'` through an edge not
marked "involves intersection or exclusion" (and a tuple that passed the validity and condition filters),
then the rule of `o'#r'` (`CheckV1.ruleOf`, code rules or reference rules alike) holds — by the
union-only path `edges_sound` provides and the closure of the least fixpoint (`BoolSys.lfp_closed`).
-/
import OpenFGAVerif.Proofs.RevExpandEdges
import OpenFGAVerif.Proofs.RevExpandWalk

namespace OpenFGAVerif.RevExpand
open OpenFGAVerif.Vocab OpenFGAVerif.BoolSys OpenFGAVerif.CheckV1

/-! ### small facts about models and tuples -/

theorem refsOKList_mem {cs : List Rewrite} (h : refsOKList cs = true) : ∀ c ∈ cs, refsOK c = true := by
  induction cs with
  | nil => intro c hc; cases hc
  | cons a as ih =>
    simp only [refsOKList, Bool.and_eq_true] at h
    intro c hc
    rcases List.mem_cons.mp hc with rfl | hc
    · exact h.1
    · exact ih h.2 c hc

theorem refsOK_uleaf {rw l : Rewrite} (h : ULeaf rw l) (hok : refsOK rw = true) : refsOK l = true := by
  induction h with
  | here _ => exact hok
  | union hm _ ih =>
    simp only [refsOK] at hok
    exact ih (refsOKList_mem hok _ hm)

theorem findRel_name {m : Model} {t r : String} {rd : RelDef} (h : m.findRel t r = some rd) : rd.name = r := by
  unfold Model.findRel at h
  split at h
  · cases h
  · have := List.find?_some h
    simpa using this

theorem findRel_namesOK {m : Model} (hok : namesOK m = true) {t r : String} {rd : RelDef}
    (h : m.findRel t r = some rd) : r ≠ "" ∧ refsOK rd.rewrite = true := by
  have hn := findRel_name h
  unfold Model.findRel at h
  split at h
  · cases h
  · rename_i td htd
    have htm := List.mem_of_find?_eq_some htd
    have hrm := List.mem_of_find?_eq_some h
    unfold namesOK at hok
    have := (List.all_eq_true.mp hok) td htm
    have := (List.all_eq_true.mp this) rd hrm
    simp only [Bool.and_eq_true, decide_eq_true_eq] at this
    exact ⟨hn ▸ this.1, this.2⟩

/-- `validForRead` implies that the relation exists and one of its type restrictions matches the user -/
theorem valid_restr {m : Model} {t : Tuple} (h : validForRead m t = true) :
    ∃ rd, m.findRel (typeOf t.obj) t.rel = some rd ∧ ∃ x ∈ rd.restrs, restrMatchesUser x t.user = true := by
  unfold validForRead at h
  simp only at h
  split at h
  · cases h
  · rename_i rd hrd
    simp only [Bool.and_eq_true] at h
    obtain ⟨x, hx, hxm⟩ := List.any_eq_true.mp h.1.2
    exact ⟨rd, hrd, x, hx, hxm⟩

/-- contextual tuples do not duplicate stored tuple keys (they could not be written otherwise; C04) -/
def NoDupKeys (w : World) : Prop :=
  ∀ t1 ∈ w.all, ∀ t2 ∈ w.all, t1.obj = t2.obj → t1.rel = t2.rel → t1.user = t2.user → t1 = t2

/-- the `PathExists` table only prunes nodes that hold for no subject of this type: trusted data dumped
from the real typesystem (C01's trusted base); trivially true for an empty table. -/
def PruneSound (w : World) (I : Interp Node) : Prop :=
  ∀ (o r : String) (rd : RelDef), w.model.findRel (typeOf o) r = some rd →
    w.aux.get s!"path:{typeOf o}#{r}" true = false →
    ¬ HoldsD (sysOf w) I [] (rewriteExpr w o r rd.restrs rd.rewrite)

/-! ### union-only paths lift truth -/

theorem holds_of_uleaf {w : World} {I : Interp Node} {o r : String} {restrs : List Restr} {rw l : Rewrite}
    (h : ULeaf rw l) (hl : HoldsD (sysOf w) I [] (rewriteExpr w o r restrs l)) :
    HoldsD (sysOf w) I [] (rewriteExpr w o r restrs rw) := by
  induction h with
  | here _ => exact hl
  | union hm _ ih =>
    simp only [rewriteExpr]
    exact Holds.or (List.mem_map.mpr ⟨_, hm, rfl⟩) (ih hl)

/-- the node holds as soon as the rewrite of its relation does -/
theorem D_of_rewrite {w : World} {I : Interp Node} (hp : PruneSound w I) {o r : String} {rd : RelDef}
    (hrd : w.model.findRel (typeOf o) r = some rd)
    (h : HoldsD (sysOf w) I [] (rewriteExpr w o r rd.restrs rd.rewrite)) : D (sysOf w) I [] (o, r) := by
  apply lfp_closed (sysOf w) leafD I.negD [] (o, r) (by simp)
  show Holds leafD I.negD (D (sysOf w) I []) (ruleOf w (o, r))
  unfold ruleOf
  simp only
  split
  · exact Holds.lit rfl
  · rw [hrd]
    simp only
    split
    · rename_i hpr
      exfalso
      apply hp o r rd hrd _ h
      simpa using hpr
    · exact h

/-! ### the leaves -/

theorem mem_passed {w : World} {ts : List Tuple} {t : Tuple} (ht : t ∈ ts) (hpass : passes w t = true) :
    t ∈ (filterIter w ts).passed := by
  unfold passes at hpass
  simp only [Bool.and_eq_true, decide_eq_true_eq] at hpass
  unfold filterIter
  simp only [List.mem_filter, decide_eq_true_eq]
  exact ⟨⟨ht, hpass.1⟩, hpass.2⟩

theorem mem_kids {w : World} {f : Filtered} {child : Tuple → Option (Expr Node)} {t : Tuple} {c : Expr Node}
    (ht : t ∈ f.passed) (hc : child t = some c) : c ∈ kidsOf w f child := by
  unfold kidsOf
  split <;> exact List.mem_append_left _ (List.mem_filterMap.mpr ⟨t, ht, hc⟩)

/-- tuple-to-userset leaf -/
theorem ttu_holds {w : World} {I : Interp Node} {o ts c uo : String} {t : Tuple}
    (htm : t ∈ w.all) (hto : t.obj = o) (htr : t.rel = ts) (hu : userIsObject t uo = true) (hpass : passes w t = true)
    (hrel : (w.model.findRel (typeOf uo) c).isSome = true) (hD : D (sysOf w) I [] (uo, c)) :
    HoldsD (sysOf w) I [] (ttuExpr w o ts c) := by
  unfold ttuExpr
  simp only
  have hmem : t ∈ w.all.filter (fun t => t.obj = o && t.rel = ts) := by
    simp [List.mem_filter, htm, hto, htr]
  have huo : (splitUserset t.user).1 = uo := by
    unfold userIsObject at hu
    simp only [decide_eq_true_eq] at hu
    rw [hu]
  refine Holds.or (mem_kids (c := .node true (uo, c)) (mem_passed hmem hpass) ?_) (Holds.node hD)
  simp only [huo]
  cases hr : w.model.findRel (typeOf uo) c with
  | none => rw [hr] at hrel; cases hrel
  | some _ => rfl

/-- a userset handler holds when one of its tuples passes and the userset of that tuple holds -/
theorem handler_holds {w : World} {I : Interp Node} {o r : String} {rs : List Restr} {t : Tuple} {x : Restr}
    (hx : x ∈ rs) (hxt : x.typ = userType t.user) (hxr : x.rel = userRel t.user)
    (htm : t ∈ w.all) (hto : t.obj = o) (htr : t.rel = r) (hus : isUserset t.user = true)
    (hpass : passes w t = true) (hD : D (sysOf w) I [] (splitUserset t.user)) :
    HoldsD (sysOf w) I [] (usersetHandler w o r rs) := by
  unfold usersetHandler
  simp only
  have hmatch : (rs.any fun x => decide (x.typ = userType t.user) && decide (x.rel = userRel t.user)) = true :=
    List.any_eq_true.mpr ⟨x, hx, by simp [hxt, hxr]⟩
  have hmem : t ∈ usersetTuples w o r rs := by
    unfold usersetTuples
    simp only
    unfold World.all at htm
    rcases List.mem_append.mp htm with hc | hs
    · apply List.mem_append_left
      simp only [List.mem_filter, Bool.and_eq_true, decide_eq_true_eq]
      exact ⟨hc, ⟨⟨⟨hto, htr⟩, hus⟩, hmatch⟩⟩
    · apply List.mem_append_right
      refine List.mem_flatMap.mpr ⟨t, ?_, ?_⟩
      · simp only [List.mem_filter, Bool.and_eq_true, decide_eq_true_eq, Bool.or_eq_true]
        exact ⟨hs, ⟨⟨hto, htr⟩, Or.inl hus⟩⟩
      · refine List.mem_map.mpr ⟨x, ?_, rfl⟩
        simp only [List.mem_filter, Bool.and_eq_true, decide_eq_true_eq]
        exact ⟨hx, hxt, hxr⟩
  exact Holds.or (mem_kids (c := .node true (splitUserset t.user)) (mem_passed hmem hpass) rfl) (Holds.node hD)

theorem usersets_holds {w : World} {I : Interp Node} {o r : String} {restrs : List Restr} {t : Tuple} {x : Restr}
    (hx : x ∈ restrs) (hxt : x.typ = userType t.user) (hxr : x.rel = userRel t.user) (hxne : x.rel ≠ "")
    (htm : t ∈ w.all) (hto : t.obj = o) (htr : t.rel = r) (hus : isUserset t.user = true)
    (hpass : passes w t = true) (hD : D (sysOf w) I [] (splitUserset t.user)) :
    HoldsD (sysOf w) I [] (usersetsExpr w o r restrs) := by
  unfold usersetsExpr
  simp only
  have hxus : x ∈ restrs.filter (fun x => x.rel ≠ "") := by
    simp only [List.mem_filter, decide_eq_true_eq]; exact ⟨hx, hxne⟩
  split
  · exact handler_holds hxus hxt hxr htm hto htr hus hpass hD
  · by_cases hw2 : w.aux.get s!"w2:{typeOf o}#{r}:{x.typ}#{x.rel}" false = true
    · refine Holds.or (List.mem_append_left _ (List.mem_map.mpr ⟨x, ?_, rfl⟩))
        (handler_holds (rs := [x]) (by simp) hxt hxr htm hto htr hus hpass hD)
      exact List.mem_filter.mpr ⟨hxus, hw2⟩
    · have hrest : x ∈ (restrs.filter (fun x => x.rel ≠ "")).filter
          (fun x => !(w.aux.get s!"w2:{typeOf o}#{r}:{x.typ}#{x.rel}" false)) := by
        exact List.mem_filter.mpr ⟨hxus, by simpa using hw2⟩
      refine Holds.or (List.mem_append_right _ ?_) (handler_holds hrest hxt hxr htm hto htr hus hpass hD)
      split
      · rename_i hemp
        rw [List.isEmpty_iff] at hemp
        rw [hemp] at hrest; cases hrest
      · simp

/-- direct leaf, userset tuple `o#r@uo#ur` -/
theorem direct_userset_holds {w : World} {I : Interp Node} {o r uo ur : String} {rd : RelDef} {t : Tuple}
    (hrd : w.model.findRel (typeOf o) r = some rd)
    (htm : t ∈ w.all) (hto : t.obj = o) (htr : t.rel = r) (hus : isUserset t.user = true)
    (hsp : splitUserset t.user = (uo, ur)) (hpass : passes w t = true) (hD : D (sysOf w) I [] (uo, ur)) :
    HoldsD (sysOf w) I [] (directExpr w o r rd.restrs) := by
  have hv : validForRead w.model t = true := by
    unfold passes at hpass; simp only [Bool.and_eq_true] at hpass; exact hpass.1
  obtain ⟨rd', hrd', x, hx, hxm⟩ := valid_restr hv
  rw [hto, htr, hrd] at hrd'
  cases hrd'
  unfold restrMatchesUser at hxm
  rw [if_pos hus] at hxm
  simp only [Bool.and_eq_true, decide_eq_true_eq, Bool.not_eq_true'] at hxm
  have hne : x.rel ≠ "" := by
    rw [hxm.1.2]
    unfold isUserset at hus
    unfold userRel
    simpa using hus
  have husany : (rd.restrs.any fun x => decide (x.rel ≠ "")) = true :=
    List.any_eq_true.mpr ⟨x, hx, by simpa using hne⟩
  unfold directExpr
  simp only [husany, if_true]
  refine Holds.or (e := usersetsExpr w o r rd.restrs) (List.mem_append_right _ (by simp)) ?_
  exact usersets_holds hx hxm.1.1 hxm.1.2 hne htm hto htr hus hpass (hsp ▸ hD)

/-- direct leaf, the tuple names the subject itself or its type's wildcard -/
theorem direct_subject_holds {w : World} {I : Interp Node} (hnd : NoDupKeys w) {o r : String} {rd : RelDef} {t : Tuple}
    (hrd : w.model.findRel (typeOf o) r = some rd) (hsubj : isUserset w.req.user = false)
    (htm : t ∈ w.all) (hto : t.obj = o) (htr : t.rel = r) (hpass : passes w t = true)
    (hu : t.user = w.req.user ∨ (isTypedWildcard t.user = true ∧ userType t.user = userType w.req.user)) :
    HoldsD (sysOf w) I [] (directExpr w o r rd.restrs) := by
  have hpass' := hpass
  unfold passes at hpass'
  simp only [Bool.and_eq_true, decide_eq_true_eq] at hpass'
  obtain ⟨rd', hrd', x, hx, hxm⟩ := valid_restr hpass'.1
  rw [hto, htr, hrd] at hrd'
  cases hrd'
  unfold directExpr
  simp only
  rcases hu with hu | ⟨hwild, hut⟩
  · -- the subject itself: checkDirectUserTuple
    have hdirect : (rd.restrs.any fun x => decide (x.typ = userType w.req.user) &&
        (if isUserset w.req.user = true then decide (x.rel = userRel w.req.user) && !x.wild
         else if isTypedWildcard w.req.user = true then x.wild else decide (x.rel = "") && !x.wild)) = true := by
      refine List.any_eq_true.mpr ⟨x, hx, ?_⟩
      unfold restrMatchesUser at hxm
      rw [hu] at hxm
      simp only [hsubj, Bool.false_eq_true, if_false] at hxm ⊢
      split at hxm
      · rename_i hw
        simp only [hw, if_true]
        simpa using hxm
      · rename_i hw
        simp only [hw]
        simp only [Bool.and_eq_true, decide_eq_true_eq, Bool.not_eq_true'] at hxm ⊢
        refine ⟨hxm.1.1, ?_⟩
        simp [hxm.2, hxm.1.2]
    rw [if_pos hdirect]
    refine Holds.or (e := directLeaf w o r) (List.mem_append_left _ (List.mem_append_left _ (by simp))) ?_
    unfold directLeaf
    have hpred : (fun t' : Tuple => decide (t'.obj = o) && decide (t'.rel = r) && decide (t'.user = w.req.user)) t = true := by
      simp [hto, htr, hu]
    cases hf : w.all.find? (fun t' => decide (t'.obj = o) && decide (t'.rel = r) && decide (t'.user = w.req.user)) with
    | none =>
      have := List.find?_eq_none.mp hf t htm
      exact absurd hpred this
    | some t' =>
      have hp' := List.find?_some hf
      simp only [Bool.and_eq_true, decide_eq_true_eq] at hp'
      have hm' := List.mem_of_find?_eq_some hf
      have heq : t' = t := hnd t' hm' t htm (by rw [hp'.1.1, hto]) (by rw [hp'.1.2, htr]) (by rw [hp'.2, hu])
      subst heq
      simp only [hpass'.1, Bool.not_true, Bool.false_eq_true, if_false, hpass'.2]
      exact Holds.lit rfl
  · -- the typed wildcard: checkPublicAssignable
    have hnus : isUserset t.user = false := by
      unfold isTypedWildcard at hwild
      simp only [Bool.and_eq_true, Bool.not_eq_true'] at hwild
      exact hwild.2
    have hpub : (!isUserset w.req.user && rd.restrs.any fun x => decide (x.typ = userType w.req.user) && x.wild) = true := by
      simp only [hsubj, Bool.not_false, Bool.true_and]
      refine List.any_eq_true.mpr ⟨x, hx, ?_⟩
      unfold restrMatchesUser at hxm
      simp only [hnus, Bool.false_eq_true, if_false, hwild, if_true] at hxm
      simp only [Bool.and_eq_true, decide_eq_true_eq] at hxm ⊢
      exact ⟨hxm.1.trans hut, hxm.2⟩
    rw [if_pos hpub]
    refine Holds.or (e := publicLeaf w o r) (List.mem_append_left _ (List.mem_append_right _ (by simp))) ?_
    unfold publicLeaf
    simp only
    have hmem : t ∈ w.all.filter (fun t' => decide (t'.obj = o) && decide (t'.rel = r) && isTypedWildcard t'.user &&
        decide (userType t'.user = userType w.req.user)) := by
      simp only [List.mem_filter, Bool.and_eq_true, decide_eq_true_eq]
      exact ⟨htm, ⟨⟨⟨hto, htr⟩, hwild⟩, hut⟩⟩
    have hp := mem_passed hmem hpass
    have hne : (filterIter w (w.all.filter (fun t' => decide (t'.obj = o) && decide (t'.rel = r) && isTypedWildcard t'.user &&
        decide (userType t'.user = userType w.req.user)))).passed.isEmpty = false := by
      cases hl : (filterIter w (w.all.filter (fun t' => decide (t'.obj = o) && decide (t'.rel = r) && isTypedWildcard t'.user &&
        decide (userType t'.user = userType w.req.user)))).passed with
      | nil => rw [hl] at hp; cases hp
      | cons _ _ => rfl
    simp only [hne, Bool.not_false, if_true]
    exact Holds.lit rfl

/-! ### the step -/

/-- "the subject definitely holds the userset of this node" (the root of an object / wildcard subject is
the subject itself) -/
def Good (w : World) (I : Interp Node) (n : FNode) : Prop :=
  if n.r = "" then n.o = w.req.user ∧ isUserset w.req.user = false else D (sysOf w) I [] (n.o, n.r)

theorem good_root (w : World) (I : Interp Node) : Good w I (rootNode w) := by
  unfold Good rootNode
  by_cases hus : isUserset w.req.user = true
  · simp only [hus, if_true]
    have hne : (splitUserset w.req.user).2 ≠ "" := by
      unfold isUserset at hus; simpa using hus
    rw [if_neg hne]
    -- tuple.IsSelfDefining: the subject userset holds itself
    apply lfp_closed (sysOf w) leafD I.negD [] _ (by simp)
    show Holds leafD I.negD (D (sysOf w) I []) (ruleOf w ((splitUserset w.req.user).1, (splitUserset w.req.user).2))
    unfold ruleOf
    simp only [if_true]
    exact Holds.lit rfl
  · have hus' : isUserset w.req.user = false := by simpa using hus
    simp [hus']

theorem good_step (w : World) (I : Interp Node) (hnd : NoDupKeys w) (hok : namesOK w.model = true)
    (hp : PruneSound w I) (tT tR : String) (fuel : Nat) :
    ∀ n, Good w I n → ∀ p ∈ fsucc w tT tR fuel n, p.2 = false → Good w I p.1 := by
  intro n hg p hpm hpf
  unfold fsucc at hpm
  cases hes : edges w.model tT tR (srcRefOf w n) fuel with
  | none => rw [hes] at hpm; cases hpm
  | some es =>
    rw [hes] at hpm
    simp only at hpm
    obtain ⟨e, he, hpe⟩ := List.mem_flatMap.mp hpm
    obtain ⟨o', ho', rfl⟩ := List.mem_map.mp hpe
    simp only at hpf ⊢
    obtain ⟨rd, hrd, hul, hside⟩ := edges_sound w.model tT tR (srcRefOf w n) fuel es hes e he hpf
    obtain ⟨hrne, hrefs⟩ := findRel_namesOK hok hrd
    have hleafok := refsOK_uleaf hul hrefs
    unfold Good
    simp only [if_neg hrne]
    -- the target object is of the edge's type
    cases hk : e.kind with
    | computed =>
      unfold expandEdge at ho'
      simp only [hk, List.mem_singleton] at ho'
      subst ho'
      unfold leafOf at hul hleafok
      simp only [hk] at hul hleafok
      have hnr : n.r ≠ "" := by
        intro h0
        unfold srcRefOf at hleafok
        simp [h0, refsOK] at hleafok
      have hsrc : srcRefOf w n = { typ := typeOf n.o, rel := n.r, wild := false } := by
        unfold srcRefOf; rw [if_neg hnr]
      rw [hsrc] at hul hside
      have htyp : e.typ = typeOf n.o := hside.1 hk
      rw [htyp] at hrd
      unfold Good at hg
      rw [if_neg hnr] at hg
      apply D_of_rewrite hp hrd
      apply holds_of_uleaf hul
      simp only [rewriteExpr]
      exact Holds.node hg
    | ttu =>
      unfold expandEdge at ho'
      simp only [hk] at ho'
      obtain ⟨t, htf, rfl⟩ := List.mem_map.mp ho'
      obtain ⟨htr', hpass⟩ := List.mem_filter.mp htf
      unfold readEdge at htr'
      simp only [hk, List.mem_filter, Bool.and_eq_true, decide_eq_true_eq] at htr'
      obtain ⟨htm, ⟨htyp, htrel⟩, huo⟩ := htr'
      unfold leafOf at hul hleafok
      simp only [hk] at hul hleafok
      have hnr : n.r ≠ "" := by
        intro h0
        unfold srcRefOf at hleafok
        simp [h0, refsOK] at hleafok
      have hsrc : srcRefOf w n = { typ := typeOf n.o, rel := n.r, wild := false } := by
        unfold srcRefOf; rw [if_neg hnr]
      rw [hsrc] at hul hside
      unfold Good at hg
      rw [if_neg hnr] at hg
      rw [← htyp] at hrd
      apply D_of_rewrite hp hrd
      apply holds_of_uleaf hul
      simp only [rewriteExpr]
      exact ttu_holds htm rfl htrel huo hpass (hside.2 hk) hg
    | direct =>
      unfold expandEdge at ho'
      simp only [hk] at ho'
      obtain ⟨t, htf, rfl⟩ := List.mem_map.mp ho'
      obtain ⟨htr', hpass⟩ := List.mem_filter.mp htf
      unfold readEdge at htr'
      simp only [hk, List.mem_filter, Bool.and_eq_true, decide_eq_true_eq] at htr'
      obtain ⟨htm, ⟨htyp, htrel⟩, hum⟩ := htr'
      unfold leafOf at hul
      simp only [hk] at hul
      rw [← htyp] at hrd
      apply D_of_rewrite hp hrd
      apply holds_of_uleaf hul
      simp only [rewriteExpr]
      unfold directUserMatch at hum
      unfold Good at hg
      by_cases hnr : n.r = ""
      · rw [if_pos hnr] at hg hum
        simp only [Bool.or_eq_true, Bool.and_eq_true, decide_eq_true_eq] at hum
        refine direct_subject_holds hnd hrd hg.2 htm rfl htrel hpass ?_
        rcases hum with h | h
        · exact Or.inl h
        · exact Or.inr ⟨h.1.2, h.2⟩
      · rw [if_neg hnr] at hg hum
        simp only [Bool.and_eq_true, decide_eq_true_eq] at hum
        exact direct_userset_holds hrd htm rfl htrel hum.1 hum.2 hpass hg

end OpenFGAVerif.RevExpand
