/-
The reverse-expansion worklist (`Model.RevExpand` §2) for an arbitrary graph and **every schedule**:

  * `run_nodup`      no object is emitted twice (`candidateObjectsMap`)
  * `run_sound`      a NoFurtherEval result comes from a node reached through unflagged edges only
                     (any node property preserved by unflagged edges holds of it)
  * `run_complete`   when the walk ran to the end (no pending dispatch, no error) every target node
                     reachable from the root has had its object emitted — the query-global
                     `visitedUsersetsMap` only cuts nodes that were expanded before.
-/
import OpenFGAVerif.Model.RevExpand

namespace OpenFGAVerif.RevExpand

variable {N : Type} [DecidableEq N]

theorem mem_split_eraseIdx {α : Type} {l : List α} {i : Nat} {a : α} (h : l[i]? = some a) :
    ∀ x ∈ l, x = a ∨ x ∈ l.eraseIdx i := by
  intro x hx
  obtain ⟨j, hj, rfl⟩ := List.mem_iff_getElem.mp hx
  obtain ⟨hi, hia⟩ := List.getElem?_eq_some_iff.mp h
  by_cases hji : j = i
  · subst hji; left; exact hia
  · right; exact List.mem_eraseIdx_iff_getElem.mpr ⟨j, hj, hji, rfl⟩

theorem mem_of_getElem? {α : Type} {l : List α} {i : Nat} {a : α} (h : l[i]? = some a) : a ∈ l := by
  obtain ⟨hi, hia⟩ := List.getElem?_eq_some_iff.mp h
  exact hia ▸ List.getElem_mem hi

/-! ### the three shapes of a step -/

/-- what one step can do, as a case split usable by every invariant proof -/
theorem step_cases (G : Graph N) (lim i : Nat) (s : St N) :
    step G lim i s = s ∨
    ∃ it, s.work[i]? = some it ∧
      ((it.depth > lim ∧ step G lim i s = { s with work := s.work.eraseIdx i, err := true }) ∨
       (G.keyed it.node = true ∧ it.node ∈ s.visited ∧ step G lim i s = { s with work := s.work.eraseIdx i }) ∨
       (¬ it.depth > lim ∧ ¬ (G.keyed it.node = true ∧ it.node ∈ s.visited) ∧
        step G lim i s =
          { work := s.work.eraseIdx i ++ (G.succ it.node).map (fun p => { node := p.1, flag := it.flag || p.2, depth := it.depth + 1 }),
            visited := if G.keyed it.node then it.node :: s.visited else s.visited,
            cands := (match G.target it.node with
              | some o => if o ∈ s.cands then (s.cands, s.out) else (o :: s.cands, s.out ++ [(o, it.flag)])
              | none => (s.cands, s.out)).1,
            out := (match G.target it.node with
              | some o => if o ∈ s.cands then (s.cands, s.out) else (o :: s.cands, s.out ++ [(o, it.flag)])
              | none => (s.cands, s.out)).2,
            err := s.err || G.fails it.node, done := it.node :: s.done })) := by
  unfold step
  cases hw : s.work[i]? with
  | none => left; rfl
  | some it =>
    right
    refine ⟨it, rfl, ?_⟩
    simp only
    by_cases hd : it.depth > lim
    · left; exact ⟨hd, by rw [if_pos hd]⟩
    · rw [if_neg hd]
      by_cases hk : (G.keyed it.node && decide (it.node ∈ s.visited)) = true
      · right; left
        rw [if_pos hk]
        simp only [Bool.and_eq_true, decide_eq_true_eq] at hk
        exact ⟨hk.1, hk.2, rfl⟩
      · right; right
        rw [if_neg hk]
        refine ⟨hd, ?_, rfl⟩
        intro h
        apply hk
        simp [h.1, h.2]

/-! ### no duplicates -/

def NodupInv (s : St N) : Prop :=
  (s.out.map Prod.fst).Nodup ∧ ∀ o ∈ s.out.map Prod.fst, o ∈ s.cands

theorem step_nodup (G : Graph N) (lim i : Nat) (s : St N) (h : NodupInv s) : NodupInv (step G lim i s) := by
  rcases step_cases G lim i s with he | ⟨it, _, hc⟩
  · rw [he]; exact h
  · rcases hc with ⟨_, he⟩ | ⟨_, _, he⟩ | ⟨_, _, he⟩
    · rw [he]; exact h
    · rw [he]; exact h
    · rw [he]
      unfold NodupInv
      simp only
      cases ht : G.target it.node with
      | none => exact h
      | some o =>
        simp only
        by_cases hm : o ∈ s.cands
        · simp only [if_pos hm]; exact h
        · simp only [if_neg hm]
          constructor
          · rw [List.map_append]
            refine List.nodup_append.mpr ⟨h.1, by simp, ?_⟩
            intro a ha b hb
            simp at hb
            subst hb
            intro e; subst e
            exact hm (h.2 _ ha)
          · intro o' ho'
            rw [List.map_append] at ho'
            rcases List.mem_append.mp ho' with ho' | ho'
            · exact List.mem_cons_of_mem _ (h.2 _ ho')
            · simp at ho'; subst ho'; simp

theorem run_nodupInv (G : Graph N) (lim : Nat) (is : List Nat) (s : St N) (h : NodupInv s) :
    NodupInv (run G lim is s) := by
  induction is generalizing s with
  | nil => exact h
  | cons i is ih => exact ih _ (step_nodup G lim i s h)

/-- **nodup**: whatever the schedule, the reverse expansion never sends an object twice. -/
theorem run_nodup (G : Graph N) (lim : Nat) (is : List Nat) (root : N) :
    ((run G lim is (St.init root)).out.map Prod.fst).Nodup :=
  (run_nodupInv G lim is (St.init root) ⟨by simp [St.init], by simp [St.init]⟩).1

/-! ### soundness of the NoFurtherEval status -/

def SoundInv (G : Graph N) (Good : N → Prop) (s : St N) : Prop :=
  (∀ it ∈ s.work, it.flag = false → Good it.node) ∧
  (∀ p ∈ s.out, p.2 = false → ∃ n, Good n ∧ G.target n = some p.1)

theorem step_sound (G : Graph N) (Good : N → Prop)
    (hstep : ∀ n, Good n → ∀ p ∈ G.succ n, p.2 = false → Good p.1)
    (lim i : Nat) (s : St N) (h : SoundInv G Good s) : SoundInv G Good (step G lim i s) := by
  rcases step_cases G lim i s with he | ⟨it, hw, hc⟩
  · rw [he]; exact h
  · have hit : it ∈ s.work := mem_of_getElem? hw
    rcases hc with ⟨_, he⟩ | ⟨_, _, he⟩ | ⟨_, _, he⟩
    · rw [he]; exact ⟨fun x hx => h.1 x (List.mem_of_mem_eraseIdx hx), h.2⟩
    · rw [he]; exact ⟨fun x hx => h.1 x (List.mem_of_mem_eraseIdx hx), h.2⟩
    · rw [he]
      constructor
      · intro x hx hf
        simp only at hx
        rcases List.mem_append.mp hx with hx | hx
        · exact h.1 x (List.mem_of_mem_eraseIdx hx) hf
        · obtain ⟨p, hp, rfl⟩ := List.mem_map.mp hx
          simp only [Bool.or_eq_false_iff] at hf
          exact hstep it.node (h.1 it hit hf.1) p hp hf.2
      · intro p hp hf
        simp only at hp
        cases ht : G.target it.node with
        | none => rw [ht] at hp; exact h.2 p hp hf
        | some o =>
          rw [ht] at hp
          simp only at hp
          by_cases hm : o ∈ s.cands
          · rw [if_pos hm] at hp; exact h.2 p hp hf
          · rw [if_neg hm] at hp
            rcases List.mem_append.mp hp with hp | hp
            · exact h.2 p hp hf
            · simp at hp; subst hp
              exact ⟨it.node, h.1 it hit hf, ht⟩

/-- **soundness of the walk**, every schedule: a result sent with status NoFurtherEval is the object of a
node that satisfies every property `Good` that holds of the root and is preserved along unflagged edges. -/
theorem run_sound (G : Graph N) (Good : N → Prop)
    (hstep : ∀ n, Good n → ∀ p ∈ G.succ n, p.2 = false → Good p.1)
    (lim : Nat) (is : List Nat) (root : N) (hroot : Good root) :
    ∀ p ∈ (run G lim is (St.init root)).out, p.2 = false → ∃ n, Good n ∧ G.target n = some p.1 := by
  have key : ∀ (is : List Nat) (s : St N), SoundInv G Good s → SoundInv G Good (run G lim is s) := by
    intro is
    induction is with
    | nil => intro s h; exact h
    | cons i is ih => intro s h; exact ih _ (step_sound G Good hstep lim i s h)
  refine (key is (St.init root) ⟨?_, ?_⟩).2
  · intro it hit _
    simp [St.init] at hit
    subst hit
    exact hroot
  · intro p hp; simp [St.init] at hp

/-! ### every emitted object belongs to some node reached from the root -/

inductive Reach (G : Graph N) (root : N) : N → Prop
  | refl : Reach G root root
  | step {n : N} {p : N × Bool} : Reach G root n → p ∈ G.succ n → Reach G root p.1

def ReachInv (G : Graph N) (root : N) (s : St N) : Prop :=
  (∀ it ∈ s.work, Reach G root it.node) ∧ (∀ p ∈ s.out, ∃ n, Reach G root n ∧ G.target n = some p.1)

theorem step_reach (G : Graph N) (root : N) (lim i : Nat) (s : St N) (h : ReachInv G root s) :
    ReachInv G root (step G lim i s) := by
  rcases step_cases G lim i s with he | ⟨it, hw, hc⟩
  · rw [he]; exact h
  · have hit : it ∈ s.work := mem_of_getElem? hw
    rcases hc with ⟨_, he⟩ | ⟨_, _, he⟩ | ⟨_, _, he⟩
    · rw [he]; exact ⟨fun x hx => h.1 x (List.mem_of_mem_eraseIdx hx), h.2⟩
    · rw [he]; exact ⟨fun x hx => h.1 x (List.mem_of_mem_eraseIdx hx), h.2⟩
    · rw [he]
      constructor
      · intro x hx
        simp only at hx
        rcases List.mem_append.mp hx with hx | hx
        · exact h.1 x (List.mem_of_mem_eraseIdx hx)
        · obtain ⟨p, hp, rfl⟩ := List.mem_map.mp hx
          exact Reach.step (h.1 it hit) hp
      · intro p hp
        simp only at hp
        cases ht : G.target it.node with
        | none => rw [ht] at hp; exact h.2 p hp
        | some o =>
          rw [ht] at hp
          simp only at hp
          by_cases hm : o ∈ s.cands
          · rw [if_pos hm] at hp; exact h.2 p hp
          · rw [if_neg hm] at hp
            rcases List.mem_append.mp hp with hp | hp
            · exact h.2 p hp
            · simp at hp; subst hp
              exact ⟨it.node, h.1 it hit, ht⟩

/-- every object sent (with either status) is the object of a target node reachable from the root -/
theorem run_out_reach (G : Graph N) (lim : Nat) (is : List Nat) (root : N) :
    ∀ p ∈ (run G lim is (St.init root)).out, ∃ n, Reach G root n ∧ G.target n = some p.1 := by
  have key : ∀ (is : List Nat) (s : St N), ReachInv G root s → ReachInv G root (run G lim is s) := by
    intro is
    induction is with
    | nil => intro s h; exact h
    | cons i is ih => intro s h; exact ih _ (step_reach G root lim i s h)
  refine (key is (St.init root) ⟨?_, ?_⟩).2
  · intro it hit
    simp [St.init] at hit
    subst hit
    exact Reach.refl
  · intro p hp; simp [St.init] at hp

/-! ### completeness -/

structure CompleteInv (G : Graph N) (root : N) (s : St N) : Prop where
  root : root ∈ s.done ∨ ∃ it ∈ s.work, it.node = root
  closed : ∀ n ∈ s.done, ∀ p ∈ G.succ n, p.1 ∈ s.done ∨ ∃ it ∈ s.work, it.node = p.1
  emitted : ∀ n ∈ s.done, ∀ o, G.target n = some o → o ∈ s.cands
  cands : ∀ o ∈ s.cands, o ∈ s.out.map Prod.fst
  visited : ∀ n ∈ s.visited, n ∈ s.done
  nofail : ∀ n ∈ s.done, G.fails n = false

theorem step_err_mono (G : Graph N) (lim i : Nat) (s : St N) (h : (step G lim i s).err = false) : s.err = false := by
  rcases step_cases G lim i s with he | ⟨it, _, hc⟩
  · rw [he] at h; exact h
  · rcases hc with ⟨_, he⟩ | ⟨_, _, he⟩ | ⟨_, _, he⟩
    · rw [he] at h; simp at h
    · rw [he] at h; exact h
    · rw [he] at h; simp only [Bool.or_eq_false_iff] at h; exact h.1

theorem step_complete (G : Graph N) (root : N) (lim i : Nat) (s : St N)
    (h : CompleteInv G root s) (hne : (step G lim i s).err = false) : CompleteInv G root (step G lim i s) := by
  rcases step_cases G lim i s with he | ⟨it, hw, hc⟩
  · rw [he]; exact h
  · have hsplit := mem_split_eraseIdx hw
    rcases hc with ⟨_, he⟩ | ⟨hk, hv, he⟩ | ⟨_, _, he⟩
    · rw [he] at hne; simp at hne
    · -- cut by the visited map: the node was expanded before
      have hdone : it.node ∈ s.done := h.visited _ hv
      have fix : ∀ m : N, (∃ x ∈ s.work, x.node = m) → m ∈ s.done ∨ ∃ x ∈ s.work.eraseIdx i, x.node = m := by
        intro m ⟨x, hx, hxm⟩
        rcases hsplit x hx with rfl | hx'
        · left; rw [← hxm]; exact hdone
        · right; exact ⟨x, hx', hxm⟩
      rw [he]
      refine ⟨?_, ?_, h.emitted, h.cands, h.visited, h.nofail⟩
      · rcases h.root with hr | hr
        · left; exact hr
        · exact fix _ hr
      · intro n hn p hp
        rcases h.closed n hn p hp with hr | hr
        · left; exact hr
        · exact fix _ hr
    · rw [he]
      have fix : ∀ m : N, (∃ x ∈ s.work, x.node = m) → m ∈ it.node :: s.done ∨
          ∃ x ∈ s.work.eraseIdx i ++ (G.succ it.node).map (fun p => ({ node := p.1, flag := it.flag || p.2, depth := it.depth + 1 } : Item N)), x.node = m := by
        intro m ⟨x, hx, hxm⟩
        rcases hsplit x hx with rfl | hx'
        · left; rw [← hxm]; simp
        · right; exact ⟨x, List.mem_append_left _ hx', hxm⟩
      have hnf : G.fails it.node = false := by
        rw [he] at hne
        simp only [Bool.or_eq_false_iff] at hne
        exact hne.2
      refine ⟨?_, ?_, ?_, ?_, ?_, ?_⟩
      rotate_left 5
      · intro n hn
        simp only at hn
        rcases List.mem_cons.mp hn with rfl | hn
        · exact hnf
        · exact h.nofail n hn
      · rcases h.root with hr | hr
        · left; exact List.mem_cons_of_mem _ hr
        · exact fix _ hr
      · intro n hn p hp
        simp only at hn
        rcases List.mem_cons.mp hn with rfl | hn
        · right
          exact ⟨_, List.mem_append_right _ (List.mem_map.mpr ⟨p, hp, rfl⟩), rfl⟩
        · rcases h.closed n hn p hp with hr | hr
          · left; exact List.mem_cons_of_mem _ hr
          · exact fix _ hr
      · intro n hn o ho
        simp only at hn ⊢
        rcases List.mem_cons.mp hn with rfl | hn
        · rw [ho]
          simp only
          by_cases hm : o ∈ s.cands
          · rw [if_pos hm]; exact hm
          · rw [if_neg hm]; simp
        · have := h.emitted n hn o ho
          cases G.target it.node with
          | none => exact this
          | some o' =>
            simp only
            by_cases hm : o' ∈ s.cands
            · rw [if_pos hm]; exact this
            · rw [if_neg hm]; exact List.mem_cons_of_mem _ this
      · intro o ho
        simp only at ho ⊢
        cases ht : G.target it.node with
        | none => rw [ht] at ho; exact h.cands o ho
        | some o' =>
          rw [ht] at ho
          simp only at ho ⊢
          by_cases hm : o' ∈ s.cands
          · rw [if_pos hm] at ho ⊢; exact h.cands o ho
          · rw [if_neg hm] at ho ⊢
            rw [List.map_append]
            rcases List.mem_cons.mp ho with rfl | ho
            · exact List.mem_append_right _ (by simp)
            · exact List.mem_append_left _ (h.cands o ho)
      · intro n hn
        simp only at hn ⊢
        by_cases hk : G.keyed it.node = true
        · rw [if_pos hk] at hn
          rcases List.mem_cons.mp hn with rfl | hn
          · simp
          · exact List.mem_cons_of_mem _ (h.visited n hn)
        · rw [if_neg hk] at hn
          exact List.mem_cons_of_mem _ (h.visited n hn)

theorem run_completeInv (G : Graph N) (root : N) (lim : Nat) (is : List Nat) (s : St N)
    (h : CompleteInv G root s) (hne : (run G lim is s).err = false) : CompleteInv G root (run G lim is s) := by
  induction is generalizing s with
  | nil => exact h
  | cons i is ih =>
    have herr : ∀ (is : List Nat) (s : St N), (run G lim is s).err = false → s.err = false := by
      intro is
      induction is with
      | nil => intro s h; exact h
      | cons j js ih2 => intro s h; exact step_err_mono G lim j s (ih2 _ h)
    exact ih _ (step_complete G root lim i s h (herr is _ hne)) hne

/-- **completeness of the walk**, every schedule: if the reverse expansion ran to the end — no dispatch
pending, no error (depth limit, condition evaluation, edge computation) — then the object of every
target node reachable from the root was sent (as a result or as a candidate). -/
theorem run_complete (G : Graph N) (lim : Nat) (is : List Nat) (root : N)
    (hfin : (run G lim is (St.init root)).work = []) (hne : (run G lim is (St.init root)).err = false) :
    ∀ n, Reach G root n → ∀ o, G.target n = some o → o ∈ (run G lim is (St.init root)).out.map Prod.fst := by
  have inv := run_completeInv G root lim is (St.init root)
    ⟨Or.inr ⟨{ node := root, flag := false, depth := 0 }, by simp [St.init], rfl⟩, by simp [St.init], by simp [St.init], by simp [St.init], by simp [St.init], by simp [St.init]⟩ hne
  have hdone : ∀ n, Reach G root n → n ∈ (run G lim is (St.init root)).done := by
    intro n hr
    induction hr with
    | refl =>
      rcases inv.root with h | ⟨it, hit, _⟩
      · exact h
      · rw [hfin] at hit; cases hit
    | step _ hp ih =>
      rcases inv.closed _ ih _ hp with h | ⟨it, hit, _⟩
      · exact h
      · rw [hfin] at hit; cases hit
  intro n hr o ho
  exact inv.cands o (inv.emitted n (hdone n hr) o ho)

/-- … and no reachable node failed to expand -/
theorem run_nofail (G : Graph N) (lim : Nat) (is : List Nat) (root : N)
    (hfin : (run G lim is (St.init root)).work = []) (hne : (run G lim is (St.init root)).err = false) :
    ∀ n, Reach G root n → G.fails n = false := by
  have inv := run_completeInv G root lim is (St.init root)
    ⟨Or.inr ⟨{ node := root, flag := false, depth := 0 }, by simp [St.init], rfl⟩, by simp [St.init], by simp [St.init], by simp [St.init], by simp [St.init], by simp [St.init]⟩ hne
  intro n hr
  apply inv.nofail
  induction hr with
  | refl =>
    rcases inv.root with h | ⟨it, hit, _⟩
    · exact h
    · rw [hfin] at hit; cases hit
  | step _ hp ih =>
    rcases inv.closed _ ih _ hp with h | ⟨it, hit, _⟩
    · exact h
    · rw [hfin] at hit; cases hit

end OpenFGAVerif.RevExpand
