/-
Proofs about `sharedIterator` (level 1: whole calls are atomic).

Invariant `Inv`: while somebody holds a reference, the shared buffer plus the rest of the underlying iterator is the
script (nothing skipped, nothing read twice), the sticky error is the script's terminal error, and the reference
count is the number of unstopped holders.  From it: every history of clone actions satisfies `traceOK`.
-/
import OpenFGAVerif.Model.SharedIter

namespace OpenFGAVerif.Proofs.Shared
open OpenFGAVerif.Model.Iter OpenFGAVerif.Model.SharedIter

variable {α : Type}

/-! ### `readBuf` on a script -/

/-- `readBuf` as a function of the script alone: items read, error hit, rest, number of `Next` calls -/
def readSpec : Nat → List (El α) → List α × Option Err × List (El α) × Nat
  | 0, r => ([], none, r, 0)
  | _ + 1, [] => ([], some .done, [], 1)
  | _ + 1, .fail id :: r => ([], some (.fail id), r, 1)
  | b + 1, .item a :: r =>
    (a :: (readSpec b r).1, (readSpec b r).2.1, (readSpec b r).2.2.1, (readSpec b r).2.2.2 + 1)

theorem readBuf_eq (b : Nat) (it : SIter α) :
    readBuf b it = ((readSpec b it.rem).1, (readSpec b it.rem).2.1, { it with rem := (readSpec b it.rem).2.2.1 }, (readSpec b it.rem).2.2.2) := by
  induction b generalizing it with
  | zero => simp [readBuf, readSpec]
  | succ b ih =>
    obtain ⟨id, rem, st⟩ := it
    cases rem with
    | nil => simp [readBuf, readSpec, SIter.next]
    | cons e r =>
      cases e with
      | fail id => simp [readBuf, readSpec, SIter.next, El.res]
      | item a =>
        have := ih ⟨id, r, st⟩
        simp only at this
        simp [readBuf, readSpec, SIter.next, El.res, this]

theorem prefixItems_append (xs : List α) (r : List (El α)) : prefixItems (xs.map El.item ++ r) = xs ++ prefixItems r := by
  induction xs with
  | nil => simp
  | cons a xs ih => simp [prefixItems, ih]

theorem terminal_append (xs : List α) (r : List (El α)) : terminal (xs.map El.item ++ r) = terminal r := by
  induction xs with
  | nil => simp
  | cons a xs ih => simp [terminal, ih]

/-- what one `ir.Read` does to the script -/
theorem readSpec_props (b : Nat) (l : List (El α)) :
    (match (readSpec b l).2.1 with
      | none => l = (readSpec b l).1.map El.item ++ (readSpec b l).2.2.1 ∧
          (readSpec b l).2.2.2 + (readSpec b l).2.2.1.length = l.length
      | some e => prefixItems l = (readSpec b l).1 ∧ terminal l = e ∧
          (readSpec b l).2.2.2 + (readSpec b l).2.2.1.length = l.length + (if e = .done then 1 else 0)) ∧
    (0 < b → l ≠ [] → (readSpec b l).2.2.1.length < l.length) ∧
    (0 < b → l = [] → (readSpec b l).2.1 = some .done) := by
  induction b generalizing l with
  | zero => simp [readSpec]
  | succ b ih =>
    cases l with
    | nil => simp [readSpec, prefixItems, terminal]
    | cons e r =>
      cases e with
      | fail id => simp [readSpec, prefixItems, terminal]; omega
      | item a =>
        obtain ⟨h1, h2, _⟩ := ih r
        simp only [readSpec]
        refine ⟨?_, ?_, by simp⟩
        · cases he : (readSpec b r).2.1 with
          | none =>
            rw [he] at h1
            simp only [he]
            constructor
            · simp only [List.map_cons, List.cons_append]; rw [← h1.1]
            · simp only [List.length_cons]; omega
          | some e =>
            rw [he] at h1
            simp only [he, prefixItems, terminal, List.length_cons]
            exact ⟨by rw [h1.1], h1.2.1, by omega⟩
        · intro _ _
          cases b with
          | zero => simp [readSpec]
          | succ b =>
            cases r with
            | nil => simp [readSpec]
            | cons e' r' =>
              have := h2 (by omega) (by simp)
              simp only [List.length_cons] at this ⊢
              omega

/-! ### the invariant -/

structure Inv (script : List (El α)) (s : State α) : Prop where
  alive : 0 < s.refs → s.under.stops = 0 ∧
    match s.err with
    | none => script = s.items.map El.item ++ s.under.rem ∧ s.nexts + s.under.rem.length = script.length
    | some e => s.items = prefixItems script ∧ e = terminal script ∧
        s.nexts + s.under.rem.length = script.length + (if e = .done then 1 else 0)
  refs : s.refs = (if s.origStopped then 0 else 1) + (s.clones.filter (fun c => !c.stopped)).length

theorem inv_start (it : SIter α) (h : it.stops = 0) : Inv it.rem (start it) :=
  ⟨fun _ => ⟨h, by simp [start]⟩, by simp [start]⟩

/-- the part of the invariant `fetchMore` / `fetchAndWait` work on -/
def Alive (script : List (El α)) (s : State α) : Prop :=
  s.under.stops = 0 ∧
    match s.err with
    | none => script = s.items.map El.item ++ s.under.rem ∧ s.nexts + s.under.rem.length = script.length
    | some e => s.items = prefixItems script ∧ e = terminal script ∧
        s.nexts + s.under.rem.length = script.length + (if e = .done then 1 else 0)

theorem fetchMore_alive (B : Nat) (script : List (El α)) (s : State α) (ha : Alive script s) (he : s.err = none) :
    Alive script (fetchMore B s) ∧ (fetchMore B s).refs = s.refs ∧ (fetchMore B s).clones = s.clones ∧
    (fetchMore B s).origStopped = s.origStopped ∧
    (0 < B → s.under.rem ≠ [] → (fetchMore B s).under.rem.length < s.under.rem.length) ∧
    (0 < B → s.under.rem = [] → (fetchMore B s).err = some .done) := by
  obtain ⟨hst, hscript⟩ := ha
  rw [he] at hscript
  simp only at hscript
  obtain ⟨hs1, hs2⟩ := hscript
  have hp := readSpec_props B s.under.rem
  simp only [fetchMore, readBuf_eq, he, Option.isSome_none, Bool.false_eq_true, if_false]
  refine ⟨⟨hst, ?_⟩, by first | rfl | trivial, by first | rfl | trivial, by first | rfl | trivial, ?_, ?_⟩
  · cases hr : (readSpec B s.under.rem).2.1 with
    | none =>
      rw [hr] at hp
      simp only
      constructor
      · rw [List.map_append, List.append_assoc, ← hp.1.1]; exact hs1
      · have := hp.1.2; omega
    | some e =>
      rw [hr] at hp
      simp only
      refine ⟨?_, ?_, ?_⟩
      · rw [hs1, prefixItems_append, hp.1.1]
      · rw [hs1, terminal_append, hp.1.2.1]
      · have := hp.1.2.2; omega
  · intro hB hne; exact hp.2.1 hB hne
  · intro hB hnil
    have := hp.2.2 hB hnil
    simp [this]

theorem fetchAndWait_alive (B : Nat) (hB : 0 < B) (script : List (El α)) (fuel h : Nat) (s : State α)
    (ha : Alive script s) (hf : s.under.rem.length + 2 ≤ fuel) :
    let s' := fetchAndWait B fuel h s
    Alive script s' ∧ s'.refs = s.refs ∧ s'.clones = s.clones ∧ s'.origStopped = s.origStopped ∧
    (h < s'.items.length ∨ s'.err.isSome) := by
  induction fuel generalizing s with
  | zero => omega
  | succ fuel ih =>
    simp only [fetchAndWait]
    by_cases hc : h < s.items.length ∨ s.err.isSome = true
    · simp only [hc, if_true]
      exact ⟨ha, by first | rfl | trivial, by first | rfl | trivial, by first | rfl | trivial, by first | exact hc | trivial⟩
    · simp only [hc, if_false]
      have he : s.err = none := by
        cases h' : s.err with
        | none => rfl
        | some e => simp [h'] at hc
      obtain ⟨ha', hr, hcl, ho, hprog, hdone⟩ := fetchMore_alive B script s ha he
      cases hrem : s.under.rem with
      | nil =>
        -- the fetch hits Done: the loop stops at the next test
        have hd := hdone hB hrem
        cases fuel with
        | zero => rw [hrem] at hf; simp at hf
        | succ fuel =>
          simp only [fetchAndWait, hd, Option.isSome_some, or_true, if_true]
          exact ⟨ha', hr, hcl, ho, by simp [hd]⟩
      | cons e r =>
        have hlt := hprog hB (by rw [hrem]; simp)
        rw [hrem] at hlt hf
        simp only [List.length_cons] at hlt hf
        obtain ⟨h1, h2, h3, h4, h5⟩ := ih (fetchMore B s) ha' (by omega)
        exact ⟨h1, h2.trans hr, h3.trans hcl, h4.trans ho, h5⟩

theorem items_prefix (script : List (El α)) (s : State α) (ha : Alive script s) (k : Nat) (a : α)
    (h : s.items[k]? = some a) : (prefixItems script)[k]? = some a := by
  obtain ⟨_, hm⟩ := ha
  cases he : s.err with
  | none =>
    rw [he] at hm
    rw [hm.1, prefixItems_append]
    have hk : k < s.items.length := (List.getElem?_eq_some_iff.mp h).1
    rw [List.getElem?_append_left hk]; exact h
  | some e =>
    rw [he] at hm
    rw [← hm.1]; exact h

/-- **`currentLocked` returns the specified result**: for an unstopped clone at index `h`, with a live context -/
theorem current_spec (B : Nat) (hB : 0 < B) (script : List (El α)) (s : State α) (ha : Alive script s) (cl : Clone)
    (hns : cl.stopped = false) :
    (current B s cl false).1 = specAt script cl.head ∧ Alive script (current B s cl false).2 ∧
    (current B s cl false).2.refs = s.refs ∧ (current B s cl false).2.clones = s.clones ∧
    (current B s cl false).2.origStopped = s.origStopped := by
  obtain ⟨h1, h2, h3, h4, h5⟩ := fetchAndWait_alive B hB script (s.under.rem.length + 2) cl.head s ha (Nat.le_refl _)
  simp only [current, hns, Bool.false_eq_true, if_false]
  cases hi : (fetchAndWait B (s.under.rem.length + 2) cl.head s).items[cl.head]? with
  | some a =>
    simp only
    refine ⟨?_, h1, h2, h3, h4⟩
    simp [specAt, items_prefix script _ h1 cl.head a hi]
  | none =>
    have hge : ¬ cl.head < (fetchAndWait B (s.under.rem.length + 2) cl.head s).items.length := by
      intro hlt
      have := List.getElem?_eq_none_iff.mp hi
      omega
    rcases h5 with h5 | h5
    · exact absurd h5 hge
    · cases he : (fetchAndWait B (s.under.rem.length + 2) cl.head s).err with
      | none => simp [he] at h5
      | some e =>
        simp only
        refine ⟨?_, h1, h2, h3, h4⟩
        obtain ⟨_, hm⟩ := h1
        rw [he] at hm
        have hlen : (prefixItems script).length ≤ cl.head := by rw [← hm.1]; omega
        simp [specAt, List.getElem?_eq_none_iff.mpr hlen, hm.2.1]

/-! ### counting the unstopped clones -/

def live (cs : List Clone) : Nat := (cs.filter fun c => !c.stopped).length

theorem live_set_head (cs : List Clone) (i : Nat) (cl : Clone) (h : cs[i]? = some cl) (n : Nat) :
    live (cs.set i { cl with head := n }) = live cs := by
  induction cs generalizing i with
  | nil => simp at h
  | cons c cs ih =>
    cases i with
    | zero =>
      simp at h; subst h
      cases hs : c.stopped <;> simp [live, List.filter, hs]
    | succ i =>
      have := ih i (by simpa using h)
      cases hs : c.stopped <;> simp [live, List.filter, hs] at this ⊢ <;> exact this

theorem live_set_stop (cs : List Clone) (i : Nat) (cl : Clone) (h : cs[i]? = some cl) (hns : cl.stopped = false) :
    live (cs.set i { cl with stopped := true }) + 1 = live cs := by
  induction cs generalizing i with
  | nil => simp at h
  | cons c cs ih =>
    cases i with
    | zero =>
      simp at h; subst h
      simp [live, List.filter, hns]
    | succ i =>
      have := ih i (by simpa using h)
      cases hs : c.stopped <;> simp [live, List.filter, hs] at this ⊢ <;> omega

theorem live_pos (cs : List Clone) (i : Nat) (cl : Clone) (h : cs[i]? = some cl) (hns : cl.stopped = false) :
    0 < live cs := by
  have := live_set_stop cs i cl h hns
  omega

/-- per clone: (items received so far, stopped) — the bookkeeping of `traceOK` -/
def hsOf (s : State α) : List (Nat × Bool) := s.clones.map fun c => (c.head, c.stopped)

theorem hsOf_get (s : State α) (i : Nat) : (hsOf s)[i]? = (s.clones[i]?).map fun c => (c.head, c.stopped) := by
  simp [hsOf]

theorem inv_alive (script : List (El α)) (s : State α) (hi : Inv script s) (h : 0 < s.refs) : Alive script s :=
  hi.alive h

theorem inv_of_alive (script : List (El α)) (s : State α) (ha : 0 < s.refs → Alive script s)
    (hr : s.refs = (if s.origStopped then 0 else 1) + live s.clones) : Inv script s :=
  ⟨ha, hr⟩

/-- `release` keeps the invariant when the holder count drops by one -/
theorem inv_release (script : List (El α)) (s : State α)
    (ha : 0 < s.refs → Alive script s)
    (hr : s.refs = (if s.origStopped then 0 else 1) + live s.clones + 1) :
    Inv script (release s) := by
  refine ⟨?_, ?_⟩
  · intro hpos
    simp only [release] at hpos ⊢
    have hne : ¬ (s.refs - 1 = 0) := by omega
    simp only [hne, if_false]
    exact ha (by omega)
  · simp only [release]
    show s.refs - 1 = (if s.origStopped then 0 else 1) + live s.clones
    omega

theorem set_self {β : Type} (l : List β) (i : Nat) (x : β) (h : l[i]? = some x) : l.set i x = l := by
  induction l generalizing i with
  | nil => simp at h
  | cons y ys ih =>
    cases i with
    | zero => simp at h; simp [h]
    | succ i => simp [ih i (by simpa using h)]

theorem run_cons_fst (B : Nat) (a : Act) (acts : List Act) (s : State α) :
    (run B (a :: acts) s).1 = (step B s a).1 :: (run B acts (step B s a).2).1 := rfl

/-- one action: the invariant is kept and the checker advances in step with the model -/
theorem step_traceOK [DecidableEq α] (B : Nat) (hB : 0 < B) (script : List (El α)) (a : Act) (s : State α)
    (hi : Inv script s) :
    Inv script (step B s a).2 ∧
    ∀ acts os, traceOK script (a :: acts) ((step B s a).1 :: os) (hsOf s) = traceOK script acts os (hsOf (step B s a).2) := by
  have hrefs := hi.refs
  cases a with
  | clone =>
    cases ho : s.origStopped with
    | true =>
      have hstep : step B s .clone = (.cloned false, s) := by simp [step, ho]
      rw [hstep]
      exact ⟨hi, fun acts os => by simp [traceOK]⟩
    | false =>
      have hstep : step B s .clone = (.cloned true, { s with refs := s.refs + 1, clones := s.clones ++ [{}] }) := by
        simp [step, ho]
      rw [hstep]
      refine ⟨⟨?_, ?_⟩, fun acts os => by simp [traceOK, hsOf]⟩
      · intro _
        have hpos : 0 < s.refs := by rw [hrefs, ho]; simp only [Bool.false_eq_true, if_false]; omega
        exact hi.alive hpos
      · show s.refs + 1 = (if s.origStopped then 0 else 1) + (List.filter (fun c => !c.stopped) (s.clones ++ [({} : Clone)])).length
        rw [hrefs]; simp [List.filter_append]; omega
  | expire =>
    cases ho : s.origStopped with
    | true =>
      have hstep : step B s .expire = (.unit, s) := by simp [step, ho]
      rw [hstep]
      exact ⟨hi, fun acts os => by simp [traceOK]⟩
    | false =>
      have hstep : step B s .expire = (.unit, release { s with origStopped := true }) := by simp [step, ho]
      rw [hstep]
      refine ⟨?_, fun acts os => by simp [traceOK, hsOf, release]⟩
      apply inv_release
      · intro hpos; exact hi.alive hpos
      · show s.refs = (if true then 0 else 1) + live s.clones + 1
        rw [hrefs, ho]; simp [live]; omega
  | stop i =>
    cases hc : s.clones[i]? with
    | none =>
      have hget : (hsOf s)[i]? = none := by simp [hsOf, hc]
      have hstep : step B s (.stop i) = (.noClone, s) := by simp [step, hc]
      rw [hstep]
      exact ⟨hi, fun acts os => by simp [traceOK, hget]⟩
    | some cl =>
      have hget : (hsOf s)[i]? = some (cl.head, cl.stopped) := by simp [hsOf, hc]
      cases hst : cl.stopped with
      | true =>
        have hstep : step B s (.stop i) = (.unit, s) := by simp [step, hc, hst]
        rw [hstep]
        refine ⟨hi, fun acts os => ?_⟩
        have : (hsOf s).set i (cl.head, true) = hsOf s := set_self _ _ _ (by rw [hget, hst])
        simp [traceOK, hget, this]
      | false =>
        have hstep : step B s (.stop i) = (.unit, release { s with clones := setClone s.clones i { cl with stopped := true } }) := by
          simp [step, hc, hst]
        rw [hstep]
        refine ⟨?_, fun acts os => by simp [traceOK, hget, hsOf, hc, release, setClone, List.map_set]⟩
        apply inv_release
        · intro hpos; exact hi.alive hpos
        · have := live_set_stop s.clones i cl hc hst
          show s.refs = (if s.origStopped then 0 else 1) + live (setClone s.clones i { cl with stopped := true }) + 1
          simp only [setClone]
          rw [hrefs]
          simp only [live] at this ⊢
          omega
  | next i c =>
    cases hc : s.clones[i]? with
    | none =>
      have hget : (hsOf s)[i]? = none := by simp [hsOf, hc]
      have hstep : step B s (.next i c) = (.noClone, s) := by simp [step, hc]
      rw [hstep]
      exact ⟨hi, fun acts os => by simp [traceOK, hget]⟩
    | some cl =>
      have hget : (hsOf s)[i]? = some (cl.head, cl.stopped) := by simp [hsOf, hc]
      cases c with
      | true =>
        have hstep : step B s (.next i true) = (.res Res.cancelled, s) := by simp [step, hc, current]
        rw [hstep]
        exact ⟨hi, fun acts os => by simp [traceOK, hget]⟩
      | false =>
        cases hst : cl.stopped with
        | true =>
          have hstep : step B s (.next i false) = (.res Res.done, s) := by simp [step, hc, current, hst]
          rw [hstep]
          exact ⟨hi, fun acts os => by simp [traceOK, hget, hst]⟩
        | false =>
          have hpos : 0 < s.refs := by
            have := live_pos s.clones i cl hc hst
            simp only [live] at this
            omega
          obtain ⟨h1, h2, h3, h4, h5⟩ := current_spec B hB script s (hi.alive hpos) cl hst
          cases hr : current B s cl false with
          | mk r s' =>
            rw [hr] at h1 h2 h3 h4 h5
            simp only at h1 h2 h3 h4 h5
            subst h1
            cases hsp : specAt script cl.head with
            | ok a =>
              have hstep : step B s (.next i false) =
                  (.res (.ok a), { s' with clones := setClone s'.clones i { cl with head := cl.head + 1 } }) := by
                simp [step, hc, hr, hsp]
              rw [hstep]
              refine ⟨⟨fun _ => h2, ?_⟩, fun acts os => ?_⟩
              · show s'.refs = (if s'.origStopped then 0 else 1) + (List.filter (fun c => !c.stopped) (setClone s'.clones i { cl with head := cl.head + 1 })).length
                have := live_set_head s.clones i cl hc (cl.head + 1)
                simp only [live] at this
                simp only [setClone, h4, h3, h5, this]
                exact hrefs
              · simp [traceOK, hget, hst, hsp, hsOf, hc, setClone, List.map_set, h4]
            | err e v =>
              have hstep : step B s (.next i false) = (.res (.err e v), s') := by
                simp [step, hc, hr, hsp]
              rw [hstep]
              refine ⟨⟨fun _ => h2, ?_⟩, fun acts os => ?_⟩
              · rw [h3, h4, h5]; exact hrefs
              · simp [traceOK, hget, hst, hsp, hsOf, hc, h4]
  | head i c =>
    cases hc : s.clones[i]? with
    | none =>
      have hget : (hsOf s)[i]? = none := by simp [hsOf, hc]
      have hstep : step B s (.head i c) = (.noClone, s) := by simp [step, hc]
      rw [hstep]
      exact ⟨hi, fun acts os => by simp [traceOK, hget]⟩
    | some cl =>
      have hget : (hsOf s)[i]? = some (cl.head, cl.stopped) := by simp [hsOf, hc]
      cases c with
      | true =>
        have hstep : step B s (.head i true) = (.res Res.cancelled, s) := by simp [step, hc, current]
        rw [hstep]
        exact ⟨hi, fun acts os => by simp [traceOK, hget]⟩
      | false =>
        cases hst : cl.stopped with
        | true =>
          have hstep : step B s (.head i false) = (.res Res.done, s) := by simp [step, hc, current, hst]
          rw [hstep]
          exact ⟨hi, fun acts os => by simp [traceOK, hget, hst]⟩
        | false =>
          have hpos : 0 < s.refs := by
            have := live_pos s.clones i cl hc hst
            simp only [live] at this
            omega
          obtain ⟨h1, h2, h3, h4, h5⟩ := current_spec B hB script s (hi.alive hpos) cl hst
          have hstep : step B s (.head i false) = (.res (specAt script cl.head), (current B s cl false).2) := by
            simp [step, hc, ← h1]
          rw [hstep]
          refine ⟨⟨fun _ => h2, ?_⟩, fun acts os => ?_⟩
          · rw [h3, h4, h5]; exact hrefs
          · simp [traceOK, hget, hst, hsOf, hc, h4]

/-- **every history of the model passes the checker**: for every list of clone actions (any interleaving of
`Next`/`Head`/`Stop`/`clone`/expiry, live or cancelled contexts), every clone observes the underlying sequence. -/
theorem run_traceOK [DecidableEq α] (B : Nat) (hB : 0 < B) (script : List (El α)) (acts : List Act) (s : State α)
    (hi : Inv script s) : traceOK script acts (run B acts s).1 (hsOf s) = true := by
  induction acts generalizing s with
  | nil => simp [traceOK]
  | cons a acts ih =>
    obtain ⟨hinv, htr⟩ := step_traceOK B hB script a s hi
    rw [run_cons_fst, htr]
    exact ih _ hinv

/-- the invariant holds along every history -/
theorem run_inv [DecidableEq α] (B : Nat) (hB : 0 < B) (script : List (El α)) (acts : List Act) (s : State α)
    (hi : Inv script s) : Inv script (run B acts s).2 := by
  induction acts generalizing s with
  | nil => exact hi
  | cons a acts ih =>
    have := ih _ (step_traceOK B hB script a s hi).1
    simpa [run] using this

end OpenFGAVerif.Proofs.Shared
