/-
Cancellation isolation of `sharedIterator` (`Model/SharedIterCancel.lean`).

1. Refinement: with the fetch reading under a background context (`reqCtx = false`, the code as it is), every history of
   the shared iterator — any interleaving of `Next`/`Head`/`Stop`/`clone`/expiry, every call with its requester's context
   live, already cancelled, or cancelled at any point while the call is inside `fetchAndWait` — produces exactly the
   outputs of the abstract machine in which each clone is an independent cursor over the underlying sequence
   (`runC_refines`, by induction over the history with the invariant `Inv` of `Proofs/SharedIter.lean`).
2. On the abstract machine the cancellations of clone `j` are invisible to every other clone (`arunC_isolated`, by
   induction over the history: the two runs agree on every cursor but `j`'s).
3. Together: `cancel_isolated_model`.  In the variant where the fetch reads with the requester's context the statement is
   false: `requester_ctx_truncates`.
-/
import OpenFGAVerif.Model.SharedIterCancel
import OpenFGAVerif.Proofs.SharedIter

namespace OpenFGAVerif.Proofs.SharedCancel
open OpenFGAVerif.Model.Iter OpenFGAVerif.Model.SharedIter OpenFGAVerif.Model.SharedIterCancel OpenFGAVerif.Proofs.Shared

variable {α : Type}

/-! ### the concrete step has the state effect of a step of the base model -/

/-- forget the cancellation point: a call cancelled inside `fetchAndWait` moves the shared state like a live `Head` -/
def erase : CAct → Act
  | .clone => .clone
  | .stop i => .stop i
  | .expire => .expire
  | .next i .never => .next i false
  | .next i .before => .next i true
  | .next i (.during _) => .head i false
  | .head i .never => .head i false
  | .head i .before => .head i true
  | .head i (.during _) => .head i false

theorem stepC_erase (B : Nat) (s : State α) (a : CAct) : (stepC B false s a).2 = (step B s (erase a)).2 := by
  cases a with
  | clone => rfl
  | stop i => rfl
  | expire => rfl
  | next i c =>
    cases hc : s.clones[i]? with
    | none => cases c <;> simp [stepC, step, erase, hc]
    | some cl =>
      cases c with
      | never =>
        cases hr : current B s cl false with
        | mk r s' => cases r <;> simp [stepC, step, erase, hc, currentC, hr]
      | before => simp [stepC, step, erase, hc, currentC, current]
      | during k =>
        cases hst : cl.stopped with
        | true => simp [stepC, step, erase, hc, currentC, current, hst]
        | false =>
          cases hr : current B s cl false with
          | mk r s' => simp [stepC, step, erase, hc, currentC, hst, hr]
  | head i c =>
    cases hc : s.clones[i]? with
    | none => cases c <;> simp [stepC, step, erase, hc]
    | some cl =>
      cases c with
      | never =>
        cases hr : current B s cl false with
        | mk r s' => cases r <;> simp [stepC, step, erase, hc, currentC, hr]
      | before => simp [stepC, step, erase, hc, currentC, current]
      | during k =>
        cases hst : cl.stopped with
        | true => simp [stepC, step, erase, hc, currentC, current, hst]
        | false =>
          cases hr : current B s cl false with
          | mk r s' => simp [stepC, step, erase, hc, currentC, hst, hr]

theorem stepC_inv [DecidableEq α] (B : Nat) (hB : 0 < B) (script : List (El α)) (a : CAct) (s : State α)
    (hi : Inv script s) : Inv script (stepC B false s a).2 := by
  rw [stepC_erase]
  exact (step_traceOK B hB script (erase a) s hi).1

/-! ### refinement: one step -/

/-- for an unstopped clone the shared state is alive, and a live call returns the specified result -/
theorem live_call (B : Nat) (hB : 0 < B) (script : List (El α)) (s : State α) (hi : Inv script s) (i : Nat) (cl : Clone)
    (hc : s.clones[i]? = some cl) (hst : cl.stopped = false) :
    (current B s cl false).1 = specAt script cl.head ∧ (current B s cl false).2.clones = s.clones ∧
    (current B s cl false).2.origStopped = s.origStopped := by
  have hpos : 0 < s.refs := by
    have := live_pos s.clones i cl hc hst
    have hr := hi.refs
    simp only [live] at this
    omega
  obtain ⟨h1, _, _, h4, h5⟩ := current_spec B hB script s (hi.alive hpos) cl hst
  exact ⟨h1, h4, h5⟩

theorem stepC_refines [DecidableEq α] (B : Nat) (hB : 0 < B) (script : List (El α)) (a : CAct) (s : State α)
    (hi : Inv script s) :
    (stepC B false s a).1 = (astepC script s.origStopped s.clones a).1 ∧
    (stepC B false s a).2.origStopped = (astepC script s.origStopped s.clones a).2.1 ∧
    (stepC B false s a).2.clones = (astepC script s.origStopped s.clones a).2.2 := by
  cases a with
  | clone =>
    cases ho : s.origStopped with
    | true =>
      have hstep : stepC B false s .clone = (.cloned false, s) := by simp [stepC, step, ho]
      rw [hstep]
      exact ⟨by simp [astepC], by simp [astepC, ho], by simp [astepC]⟩
    | false =>
      have hstep : stepC B false s .clone = (.cloned true, { s with refs := s.refs + 1, clones := s.clones ++ [{}] }) := by
        simp [stepC, step, ho]
      rw [hstep]
      exact ⟨by simp [astepC], by simp [astepC, ho], by simp [astepC]⟩
  | expire =>
    cases ho : s.origStopped with
    | true =>
      have hstep : stepC B false s .expire = (.unit, s) := by simp [stepC, step, ho]
      rw [hstep]
      exact ⟨by simp [astepC], by simp [astepC, ho], by simp [astepC]⟩
    | false =>
      have hstep : stepC B false s .expire = (.unit, release { s with origStopped := true }) := by simp [stepC, step, ho]
      rw [hstep]
      exact ⟨by simp [astepC], by simp [astepC, release], by simp [astepC, release]⟩
  | stop i =>
    cases hc : s.clones[i]? with
    | none =>
      have hstep : stepC B false s (.stop i) = (.noClone, s) := by simp [stepC, step, hc]
      rw [hstep]
      exact ⟨by simp [astepC, hc], by simp [astepC, hc], by simp [astepC, hc]⟩
    | some cl =>
      cases hst : cl.stopped with
      | true =>
        have hstep : stepC B false s (.stop i) = (.unit, s) := by simp [stepC, step, hc, hst]
        rw [hstep]
        exact ⟨by simp [astepC, hc], by simp [astepC, hc], by simp [astepC, hc, hst]⟩
      | false =>
        have hstep : stepC B false s (.stop i) =
            (.unit, release { s with clones := setClone s.clones i { cl with stopped := true } }) := by
          simp [stepC, step, hc, hst]
        rw [hstep]
        exact ⟨by simp [astepC, hc], by simp [astepC, hc, release], by simp [astepC, hc, hst, release, setClone]⟩
  | next i c =>
    cases hc : s.clones[i]? with
    | none =>
      have hstep : stepC B false s (.next i c) = (.noClone, s) := by simp [stepC, hc]
      rw [hstep]
      exact ⟨by simp [astepC, hc], by simp [astepC, hc], by simp [astepC, hc]⟩
    | some cl =>
      cases c with
      | before =>
        have hstep : stepC B false s (.next i .before) = (.res Res.cancelled, s) := by simp [stepC, hc, currentC, current]
        rw [hstep]
        exact ⟨by simp [astepC, hc, callRes], by simp [astepC, hc], by simp [astepC, hc, callRes]⟩
      | during k =>
        cases hst : cl.stopped with
        | true =>
          have hstep : stepC B false s (.next i (.during k)) = (.res Res.done, s) := by simp [stepC, hc, currentC, hst]
          rw [hstep]
          exact ⟨by simp [astepC, hc, callRes, hst], by simp [astepC, hc], by simp [astepC, hc, callRes]⟩
        | false =>
          obtain ⟨_, h4, h5⟩ := live_call B hB script s hi i cl hc hst
          have hstep : stepC B false s (.next i (.during k)) = (.res Res.cancelled, (current B s cl false).2) := by
            simp [stepC, hc, currentC, hst]
          rw [hstep]
          exact ⟨by simp [astepC, hc, callRes, hst], by simp [astepC, hc, h5], by simp [astepC, hc, callRes, h4]⟩
      | never =>
        cases hst : cl.stopped with
        | true =>
          have hstep : stepC B false s (.next i .never) = (.res Res.done, s) := by simp [stepC, hc, currentC, current, hst]
          rw [hstep]
          exact ⟨by simp [astepC, hc, callRes, hst], by simp [astepC, hc], by simp [astepC, hc, callRes, hst]⟩
        | false =>
          obtain ⟨h1, h4, h5⟩ := live_call B hB script s hi i cl hc hst
          cases hr : current B s cl false with
          | mk r s' =>
            rw [hr] at h1 h4 h5
            simp only at h1 h4 h5
            subst h1
            cases hsp : specAt script cl.head with
            | ok a =>
              have hstep : stepC B false s (.next i .never) =
                  (.res (.ok a), { s' with clones := setClone s'.clones i { cl with head := cl.head + 1 } }) := by
                simp [stepC, hc, currentC, hr, hsp]
              rw [hstep]
              exact ⟨by simp [astepC, hc, callRes, hst, hsp], by simp [astepC, hc, h5],
                by simp [astepC, hc, callRes, hst, hsp, setClone, h4]⟩
            | err e v =>
              have hstep : stepC B false s (.next i .never) = (.res (.err e v), s') := by
                simp [stepC, hc, currentC, hr, hsp]
              rw [hstep]
              exact ⟨by simp [astepC, hc, callRes, hst, hsp], by simp [astepC, hc, h5],
                by simp [astepC, hc, callRes, hst, hsp, h4]⟩
  | head i c =>
    cases hc : s.clones[i]? with
    | none =>
      have hstep : stepC B false s (.head i c) = (.noClone, s) := by simp [stepC, hc]
      rw [hstep]
      exact ⟨by simp [astepC, hc], by simp [astepC, hc], by simp [astepC, hc]⟩
    | some cl =>
      cases c with
      | before =>
        have hstep : stepC B false s (.head i .before) = (.res Res.cancelled, s) := by simp [stepC, hc, currentC, current]
        rw [hstep]
        exact ⟨by simp [astepC, hc, callRes], by simp [astepC, hc], by simp [astepC, hc]⟩
      | during k =>
        cases hst : cl.stopped with
        | true =>
          have hstep : stepC B false s (.head i (.during k)) = (.res Res.done, s) := by simp [stepC, hc, currentC, hst]
          rw [hstep]
          exact ⟨by simp [astepC, hc, callRes, hst], by simp [astepC, hc], by simp [astepC, hc]⟩
        | false =>
          obtain ⟨_, h4, h5⟩ := live_call B hB script s hi i cl hc hst
          have hstep : stepC B false s (.head i (.during k)) = (.res Res.cancelled, (current B s cl false).2) := by
            simp [stepC, hc, currentC, hst]
          rw [hstep]
          exact ⟨by simp [astepC, hc, callRes, hst], by simp [astepC, hc, h5], by simp [astepC, hc, h4]⟩
      | never =>
        cases hst : cl.stopped with
        | true =>
          have hstep : stepC B false s (.head i .never) = (.res Res.done, s) := by simp [stepC, hc, currentC, current, hst]
          rw [hstep]
          exact ⟨by simp [astepC, hc, callRes, hst], by simp [astepC, hc], by simp [astepC, hc]⟩
        | false =>
          obtain ⟨h1, h4, h5⟩ := live_call B hB script s hi i cl hc hst
          have hstep : stepC B false s (.head i .never) = (.res (specAt script cl.head), (current B s cl false).2) := by
            simp [stepC, hc, currentC, ← h1]
          rw [hstep]
          refine ⟨?_, by simp [astepC, hc, h5], by simp [astepC, hc, h4]⟩
          cases hsp : specAt script cl.head <;> simp [astepC, hc, callRes, hst, hsp]

theorem runC_cons_fst (B : Nat) (r : Bool) (a : CAct) (acts : List CAct) (s : State α) :
    (runC B r (a :: acts) s).1 = (stepC B r s a).1 :: (runC B r acts (stepC B r s a).2).1 := rfl

/-- **refinement**: the outputs of every history are the outputs of the abstract machine of independent cursors -/
theorem runC_refines [DecidableEq α] (B : Nat) (hB : 0 < B) (script : List (El α)) (acts : List CAct) (s : State α)
    (hi : Inv script s) : (runC B false acts s).1 = arunC script acts s.origStopped s.clones := by
  induction acts generalizing s with
  | nil => rfl
  | cons a acts ih =>
    obtain ⟨hout, ho, hcl⟩ := stepC_refines B hB script a s hi
    rw [runC_cons_fst, hout, ih _ (stepC_inv B hB script a s hi), ho, hcl]
    simp only [arunC]

/-! ### the abstract machine: clone `j`'s cancellations are invisible to the others -/

/-- two cursor lists that agree everywhere but at `j` -/
def Agree (j : Nat) (cs cs' : List Clone) : Prop := cs.length = cs'.length ∧ ∀ k, k ≠ j → cs[k]? = cs'[k]?

theorem agree_refl (j : Nat) (cs : List Clone) : Agree j cs cs := ⟨rfl, fun _ _ => rfl⟩

theorem agree_set_left (j : Nat) (cs cs' : List Clone) (h : Agree j cs cs') (v : Clone) : Agree j (cs.set j v) cs' := by
  refine ⟨by rw [List.length_set]; exact h.1, fun k hk => ?_⟩
  rw [List.getElem?_set_ne (Ne.symm hk)]
  exact h.2 k hk

theorem agree_set_right (j : Nat) (cs cs' : List Clone) (h : Agree j cs cs') (v : Clone) : Agree j cs (cs'.set j v) := by
  refine ⟨by rw [List.length_set]; exact h.1, fun k hk => ?_⟩
  rw [List.getElem?_set_ne (Ne.symm hk)]
  exact h.2 k hk

theorem agree_set_both (j : Nat) (cs cs' : List Clone) (h : Agree j cs cs') (i : Nat) (v : Clone) :
    Agree j (cs.set i v) (cs'.set i v) := by
  refine ⟨by rw [List.length_set, List.length_set]; exact h.1, fun k hk => ?_⟩
  rw [List.getElem?_set, List.getElem?_set, h.1, h.2 k hk]

theorem agree_append (j : Nat) (cs cs' : List Clone) (h : Agree j cs cs') (v : Clone) :
    Agree j (cs ++ [v]) (cs' ++ [v]) := by
  refine ⟨by rw [List.length_append, List.length_append, h.1], fun k hk => ?_⟩
  rw [List.getElem?_append, List.getElem?_append, h.1, h.2 k hk]

theorem owner_uncancel (j : Nat) (a : CAct) : (uncancel j a).owner = a.owner := by
  cases a with
  | next i c => by_cases h : i = j <;> simp [uncancel, CAct.owner, h]
  | head i c => by_cases h : i = j <;> simp [uncancel, CAct.owner, h]
  | clone => rfl
  | stop i => rfl
  | expire => rfl

theorem uncancel_other (j : Nat) (a : CAct) (h : a.owner ≠ some j) : uncancel j a = a := by
  cases a with
  | next i c =>
    have : i ≠ j := fun hh => h (by simp [CAct.owner, hh])
    simp [uncancel, this]
  | head i c =>
    have : i ≠ j := fun hh => h (by simp [CAct.owner, hh])
    simp [uncancel, this]
  | clone => rfl
  | stop i => rfl
  | expire => rfl

/-- an action of clone `j` leaves the flag alone and changes at most cursor `j` -/
theorem astepC_own (script : List (El α)) (j : Nat) (o : Bool) (cs : List Clone) (a : CAct) (h : a.owner = some j) :
    (astepC script o cs a).2.1 = o ∧
    ((astepC script o cs a).2.2 = cs ∨ ∃ v, (astepC script o cs a).2.2 = cs.set j v) := by
  cases a with
  | clone => simp [CAct.owner] at h
  | expire => simp [CAct.owner] at h
  | stop i =>
    simp only [CAct.owner, Option.some.injEq] at h
    subst h
    cases hc : cs[i]? with
    | none => exact ⟨by simp [astepC, hc], Or.inl (by simp [astepC, hc])⟩
    | some cl =>
      cases hst : cl.stopped with
      | true => exact ⟨by simp [astepC, hc], Or.inl (by simp [astepC, hc, hst])⟩
      | false => exact ⟨by simp [astepC, hc], Or.inr ⟨{ cl with stopped := true }, by simp [astepC, hc, hst]⟩⟩
  | next i c =>
    simp only [CAct.owner, Option.some.injEq] at h
    subst h
    cases hc : cs[i]? with
    | none => exact ⟨by simp [astepC, hc], Or.inl (by simp [astepC, hc])⟩
    | some cl =>
      cases hb : (callRes script cl true c).2 with
      | false => exact ⟨by simp [astepC, hc], Or.inl (by simp [astepC, hc, hb])⟩
      | true => exact ⟨by simp [astepC, hc], Or.inr ⟨{ cl with head := cl.head + 1 }, by simp [astepC, hc, hb]⟩⟩
  | head i c =>
    simp only [CAct.owner, Option.some.injEq] at h
    subst h
    cases hc : cs[i]? with
    | none => exact ⟨by simp [astepC, hc], Or.inl (by simp [astepC, hc])⟩
    | some cl => exact ⟨by simp [astepC, hc], Or.inl (by simp [astepC, hc])⟩

/-- an action of another clone `i`: same output, same flag, the lists still agree -/
theorem astepC_other (script : List (El α)) (j i : Nat) (hij : i ≠ j) (o : Bool) (cs cs' : List Clone)
    (hag : Agree j cs cs') (a : CAct) (h : a.owner = some i) :
    (astepC script o cs a).1 = (astepC script o cs' a).1 ∧
    (astepC script o cs a).2.1 = (astepC script o cs' a).2.1 ∧
    Agree j (astepC script o cs a).2.2 (astepC script o cs' a).2.2 := by
  have hl : cs[i]? = cs'[i]? := hag.2 i hij
  cases a with
  | clone => simp [CAct.owner] at h
  | expire => simp [CAct.owner] at h
  | stop i' =>
    simp only [CAct.owner, Option.some.injEq] at h
    subst h
    cases hc : cs'[i']? with
    | none =>
      have hc0 : cs[i']? = none := hl.trans hc
      exact ⟨by simp [astepC, hc, hc0], by simp [astepC, hc, hc0], by simpa [astepC, hc, hc0] using hag⟩
    | some cl =>
      have hc0 : cs[i']? = some cl := hl.trans hc
      refine ⟨by simp [astepC, hc, hc0], by simp [astepC, hc, hc0], ?_⟩
      cases hst : cl.stopped with
      | true => simpa [astepC, hc, hc0, hst] using hag
      | false => simpa [astepC, hc, hc0, hst] using agree_set_both j cs cs' hag i' { cl with stopped := true }
  | next i' c =>
    simp only [CAct.owner, Option.some.injEq] at h
    subst h
    cases hc : cs'[i']? with
    | none =>
      have hc0 : cs[i']? = none := hl.trans hc
      exact ⟨by simp [astepC, hc, hc0], by simp [astepC, hc, hc0], by simpa [astepC, hc, hc0] using hag⟩
    | some cl =>
      have hc0 : cs[i']? = some cl := hl.trans hc
      refine ⟨by simp [astepC, hc, hc0], by simp [astepC, hc, hc0], ?_⟩
      cases hb : (callRes script cl true c).2 with
      | false => simpa [astepC, hc, hc0, hb] using hag
      | true => simpa [astepC, hc, hc0, hb] using agree_set_both j cs cs' hag i' { cl with head := cl.head + 1 }
  | head i' c =>
    simp only [CAct.owner, Option.some.injEq] at h
    subst h
    cases hc : cs'[i']? with
    | none =>
      have hc0 : cs[i']? = none := hl.trans hc
      exact ⟨by simp [astepC, hc, hc0], by simp [astepC, hc, hc0], by simpa [astepC, hc, hc0] using hag⟩
    | some cl =>
      have hc0 : cs[i']? = some cl := hl.trans hc
      exact ⟨by simp [astepC, hc, hc0], by simp [astepC, hc, hc0], by simpa [astepC, hc, hc0] using hag⟩

/-- `clone` / expiry: they do not look at the cursors -/
theorem astepC_nobody (script : List (El α)) (j : Nat) (o : Bool) (cs cs' : List Clone) (hag : Agree j cs cs')
    (a : CAct) (h : a.owner = none) :
    (astepC script o cs a).1 = (astepC script o cs' a).1 ∧
    (astepC script o cs a).2.1 = (astepC script o cs' a).2.1 ∧
    Agree j (astepC script o cs a).2.2 (astepC script o cs' a).2.2 := by
  cases a with
  | clone =>
    cases o with
    | true => exact ⟨by simp [astepC], by simp [astepC], by simpa [astepC] using hag⟩
    | false => exact ⟨by simp [astepC], by simp [astepC], by simpa [astepC] using agree_append j cs cs' hag {}⟩
  | expire => exact ⟨by simp [astepC], by simp [astepC], by simpa [astepC] using hag⟩
  | stop i => simp [CAct.owner] at h
  | next i c => simp [CAct.owner] at h
  | head i c => simp [CAct.owner] at h

/-- one step of the two runs (the schedule as it is / with `j` never cancelled) -/
theorem astepC_pair (script : List (El α)) (j : Nat) (a : CAct) (o : Bool) (cs cs' : List Clone) (hag : Agree j cs cs') :
    (astepC script o cs a).2.1 = (astepC script o cs' (uncancel j a)).2.1 ∧
    Agree j (astepC script o cs a).2.2 (astepC script o cs' (uncancel j a)).2.2 ∧
    (a.owner ≠ some j → (astepC script o cs a).1 = (astepC script o cs' (uncancel j a)).1) := by
  by_cases ho : a.owner = some j
  · obtain ⟨h1, h2⟩ := astepC_own script j o cs a ho
    obtain ⟨h1', h2'⟩ := astepC_own script j o cs' (uncancel j a) ((owner_uncancel j a).trans ho)
    refine ⟨h1.trans h1'.symm, ?_, fun hne => absurd ho hne⟩
    rcases h2 with h2 | ⟨v, h2⟩ <;> rcases h2' with h2' | ⟨v', h2'⟩ <;> rw [h2, h2']
    · exact hag
    · exact agree_set_right j cs cs' hag v'
    · exact agree_set_left j cs cs' hag v
    · exact agree_set_right j _ cs' (agree_set_left j cs cs' hag v) v'
  · rw [uncancel_other j a ho]
    cases hown : a.owner with
    | none =>
      obtain ⟨h1, h2, h3⟩ := astepC_nobody script j o cs cs' hag a hown
      exact ⟨h2, h3, fun _ => h1⟩
    | some i =>
      have hij : i ≠ j := fun hh => ho (by rw [hown, hh])
      obtain ⟨h1, h2, h3⟩ := astepC_other script j i hij o cs cs' hag a hown
      exact ⟨h2, h3, fun _ => h1⟩

/-- on the abstract machine: what clone `i ≠ j` observes does not depend on `j`'s cancellations -/
theorem arunC_isolated (script : List (El α)) (j i : Nat) (hij : i ≠ j) (acts : List CAct) (o : Bool)
    (cs cs' : List Clone) (hag : Agree j cs cs') :
    obsOf i acts (arunC script acts o cs) =
      obsOf i (acts.map (uncancel j)) (arunC script (acts.map (uncancel j)) o cs') := by
  induction acts generalizing o cs cs' with
  | nil => rfl
  | cons a acts ih =>
    obtain ⟨h1, h2, h3⟩ := astepC_pair script j a o cs cs' hag
    have ih' := ih (astepC script o cs a).2.1 (astepC script o cs a).2.2 (astepC script o cs' (uncancel j a)).2.2 h2
    simp only [List.map_cons, arunC, obsOf, owner_uncancel]
    by_cases ho : a.owner = some i
    · have hne : a.owner ≠ some j := fun hh => hij (Option.some.inj (ho.symm.trans hh))
      rw [if_pos ho, if_pos ho, h3 hne, ← h1, ih']
    · rw [if_neg ho, if_neg ho, ← h1, ih']

/-! ### the theorem on the model of the code -/

/-- **cancel_isolated (model form)**: for every underlying script, every history of clone actions (any interleaving,
every call with its own cancellation point) and every clone `j`: each other clone observes exactly what it observes
in the same history with `j` never cancelled. -/
theorem cancel_isolated_model [DecidableEq α] (B : Nat) (hB : 0 < B) (it : SIter α) (h0 : it.stops = 0) (j i : Nat)
    (hij : i ≠ j) (acts : List CAct) :
    obsOf i acts (runC B false acts (start it)).1 =
      obsOf i (acts.map (uncancel j)) (runC B false (acts.map (uncancel j)) (start it)).1 := by
  rw [runC_refines B hB it.rem acts (start it) (inv_start it h0),
    runC_refines B hB it.rem (acts.map (uncancel j)) (start it) (inv_start it h0)]
  exact arunC_isolated it.rem j i hij acts _ _ _ (agree_refl j _)

/-- two histories that differ only in the cancellation points of clone `j` look the same to every other clone -/
theorem cancel_isolated_any_model [DecidableEq α] (B : Nat) (hB : 0 < B) (it : SIter α) (h0 : it.stops = 0) (j i : Nat)
    (hij : i ≠ j) (acts acts' : List CAct) (hsame : acts.map (uncancel j) = acts'.map (uncancel j)) :
    obsOf i acts (runC B false acts (start it)).1 = obsOf i acts' (runC B false acts' (start it)).1 := by
  have h1 := cancel_isolated_model B hB it h0 j i hij acts
  have h2 := cancel_isolated_model B hB it h0 j i hij acts'
  rw [h1, h2, hsame]

/-! ### the negative witness -/

/-- buffer size 2, five items; clone 0 reads two items, its third `Next` triggers a fetch and its context is cancelled
after one underlying read of that fetch; then clone 1 (never cancelled) reads six times -/
def witnessActs : List CAct :=
  [.clone, .clone, .next 0 .never, .next 0 .never, .next 0 (.during 1),
   .next 1 .never, .next 1 .never, .next 1 .never, .next 1 .never, .next 1 .never, .next 1 .never]

def witnessIter : SIter Nat := ⟨0, [El.item 0, El.item 1, El.item 2, El.item 3, El.item 4], 0⟩

set_option maxRecDepth 8000 in
/-- **if the fetch read with the requester's context** a cancelled requester would truncate another clone's sequence:
clone 1 is served three of the five items and then `cancelled` for ever — while with the background context (the code
as it is) the same history serves it all five items and `Done`. -/
theorem requester_ctx_truncates :
    seenBy 1 witnessActs (runC 2 true witnessActs (start witnessIter)).1
      = [.ok 0, .ok 1, .ok 2, Res.cancelled, Res.cancelled, Res.cancelled] ∧
    seenBy 1 witnessActs (runC 2 false witnessActs (start witnessIter)).1
      = [.ok 0, .ok 1, .ok 2, .ok 3, .ok 4, Res.done] := by decide

end OpenFGAVerif.Proofs.SharedCancel
