/-
Level 2 of the shared iterator (`Model/SharedIterFine.lean`).

* `stale_fetch_witness`: with the code as it is (`recheck = false`) there is a schedule of three threads over the script
  `[item, error]` in which two threads are told `Done` and never see the error — the negation of "every clone observes
  the underlying sequence under every interleaving" at this granularity (reproduced on the real code by the stress).
* `fine_all_schedules_fixed`: with the one-line fix (`fetchMore` re-checks the recorded error under `await`,
  `recheck = true`) every schedule, any number of threads, any script: every thread observes the underlying sequence.
-/
import OpenFGAVerif.Model.SharedIterFine
import OpenFGAVerif.Proofs.SharedIter

namespace OpenFGAVerif.Proofs.SharedFine
open OpenFGAVerif.Model.Iter OpenFGAVerif.Model.SharedIter OpenFGAVerif.Model.SharedIterFine OpenFGAVerif.Proofs.Shared

variable {α : Type}

/-- the schedule of the witness: threads 0 and 1 both load the empty state and decide to fetch; 0 fetches (item, then
the error is recorded); 1, still acting on its old decision, fetches again, reads `Done` and overwrites the error -/
def witnessSchedule : List FAct :=
  [.look 0, .look 1, .enter 0, .fetch 0, .enter 1, .fetch 1, .look 2, .look 2, .look 0, .look 0]

theorem stale_fetch_witness :
    (frun 100 false witnessSchedule (fstart [El.item 5, El.fail 7] 3)).threads.map (·.obs)
      = [[.ok 5, Res.done], [], [.ok 5, Res.done]] ∧
    (frun 100 false witnessSchedule (fstart [El.item 5, El.fail 7] 3)).threads.map (obsOK [El.item 5, El.fail 7])
      = [false, true, false] := by decide

/-- the same schedule with the fix: everybody who asks gets the error -/
example : (frun 100 true witnessSchedule (fstart [El.item 5, El.fail 7] 3)).threads.map (·.obs)
    = [[.ok 5, .err (.fail 7) none], [], [.ok 5, .err (.fail 7) none]] := by decide

/-! ### the fixed version: invariant -/

/-- what a thread may have observed: the first `head` items, then — only once all items are seen — the terminal error, repeated -/
def ThreadOK (script : List (El α)) (th : Thread α) : Prop :=
  ∃ m, th.obs = ((prefixItems script).take th.head).map Res.ok ++ List.replicate m (Res.err (terminal script) none) ∧
    th.head ≤ (prefixItems script).length ∧ (0 < m → th.head = (prefixItems script).length)

def SharedOK (script : List (El α)) (rem : List (El α)) (items : List α) : Option Err → Prop
  | none => script = items.map El.item ++ rem
  | some e => items = prefixItems script ∧ e = terminal script

structure FInv (script : List (El α)) (s : FState α) : Prop where
  shared : SharedOK script s.under.rem s.items s.err
  threads : ∀ th ∈ s.threads, ThreadOK script th

theorem items_prefix (script : List (El α)) (rem : List (El α)) (items : List α) (err : Option Err)
    (h : SharedOK script rem items err) (k : Nat) (a : α)
    (hk : items[k]? = some a) : (prefixItems script)[k]? = some a := by
  cases err with
  | none =>
    simp only [SharedOK] at h
    rw [h, prefixItems_append]
    have hlt : k < items.length := (List.getElem?_eq_some_iff.mp hk).1
    rw [List.getElem?_append_left hlt]; exact hk
  | some e =>
    simp only [SharedOK] at h
    rw [← h.1]; exact hk

theorem mem_set {β : Type} (l : List β) (i : Nat) (x y : β) (h : y ∈ l.set i x) : y = x ∨ y ∈ l := by
  induction l generalizing i with
  | nil => simp at h
  | cons z zs ih =>
    cases i with
    | zero => simp at h; rcases h with h | h; exact Or.inl h; exact Or.inr (by simp [h])
    | succ i =>
      simp at h
      rcases h with h | h
      · exact Or.inr (by simp [h])
      · rcases ih i h with h' | h'
        · exact Or.inl h'
        · exact Or.inr (by simp [h'])

theorem take_succ_map_ok (l : List α) (k : Nat) (a : α) (h : l[k]? = some a) :
    (l.take (k + 1)).map Res.ok = (l.take k).map Res.ok ++ [Res.ok a] := by
  rw [List.take_succ, h]; simp

/-- replacing one thread by a good one keeps the thread part of the invariant -/
theorem threads_set (script : List (El α)) (ths : List (Thread α)) (t : Nat) (th' : Thread α)
    (h : ∀ th ∈ ths, ThreadOK script th) (h' : ThreadOK script th') : ∀ th ∈ ths.set t th', ThreadOK script th := by
  intro th hmem
  rcases mem_set _ _ _ _ hmem with rfl | hmem
  · exact h'
  · exact h th hmem

theorem fstep_inv (B : Nat) (script : List (El α)) (s : FState α) (a : FAct) (h : FInv script s) :
    FInv script (fstep B true s a) := by
  obtain ⟨under, items, err, active, threads⟩ := s
  obtain ⟨hsh, hths⟩ := h
  simp only at hsh hths
  cases a with
  | look t =>
    simp only [fstep]
    cases ht : threads[t]? with
    | none => exact ⟨hsh, hths⟩
    | some th =>
      have hth : ThreadOK script th := hths th (List.mem_of_getElem? ht)
      simp only
      split
      · exact ⟨hsh, hths⟩
      · cases hi : items[th.head]? with
        | some x =>
          simp only
          refine ⟨hsh, threads_set script threads t _ hths ?_⟩
          obtain ⟨m, hobs, hle, hm⟩ := hth
          have hp := items_prefix script _ _ _ hsh th.head x hi
          have hlt : th.head < (prefixItems script).length := (List.getElem?_eq_some_iff.mp hp).1
          have hm0 : m = 0 := by
            rcases Nat.eq_zero_or_pos m with h0 | hpos
            · exact h0
            · have := hm hpos; omega
          subst hm0
          refine ⟨0, ?_, by simp only; omega, by simp⟩
          simp only [List.replicate_zero, List.append_nil] at hobs ⊢
          rw [hobs, take_succ_map_ok _ _ _ hp]
        | none =>
          simp only
          cases err with
          | some e =>
            simp only
            refine ⟨hsh, threads_set script threads t _ hths ?_⟩
            obtain ⟨m, hobs, hle, hm⟩ := hth
            simp only [SharedOK] at hsh
            have hge : (prefixItems script).length ≤ th.head := by
              rw [← hsh.1]
              exact List.getElem?_eq_none_iff.mp hi
            refine ⟨m + 1, ?_, by simpa using hle, fun _ => by simp only; omega⟩
            simp only [hobs, hsh.2, List.replicate_succ', List.append_assoc]
          | none =>
            simp only
            exact ⟨hsh, threads_set script threads t _ hths hth⟩
  | enter t =>
    simp only [fstep]
    cases ht : threads[t]? with
    | none => exact ⟨hsh, hths⟩
    | some th =>
      have hth : ThreadOK script th := hths th (List.mem_of_getElem? ht)
      simp only
      split
      · exact ⟨hsh, hths⟩
      · split
        · exact ⟨hsh, threads_set script threads t _ hths hth⟩
        · exact ⟨hsh, threads_set script threads t _ hths hth⟩
  | wake t =>
    simp only [fstep]
    cases ht : threads[t]? with
    | none => exact ⟨hsh, hths⟩
    | some th =>
      have hth : ThreadOK script th := hths th (List.mem_of_getElem? ht)
      simp only
      split
      · exact ⟨hsh, threads_set script threads t _ hths hth⟩
      · exact ⟨hsh, hths⟩
  | fetch t =>
    simp only [fstep]
    cases ht : threads[t]? with
    | none => exact ⟨hsh, hths⟩
    | some th =>
      have hth : ThreadOK script th := hths th (List.mem_of_getElem? ht)
      simp only
      split
      · exact ⟨hsh, hths⟩
      · cases err with
        | some e =>
          simp only [Option.isSome_some, Bool.and_self, if_true]
          exact ⟨hsh, threads_set script threads t _ hths hth⟩
        | none =>
          simp only [Option.isSome_none, Bool.and_false, Bool.false_eq_true, if_false]
          rw [readBuf_eq]
          simp only
          refine ⟨?_, threads_set script threads t _ hths hth⟩
          simp only [SharedOK] at hsh
          have hp := readSpec_props B under.rem
          cases hr : (readSpec B under.rem).2.1 with
          | none =>
            rw [hr] at hp
            simp only [SharedOK]
            rw [List.map_append, List.append_assoc, ← hp.1.1]; exact hsh
          | some e =>
            rw [hr] at hp
            simp only [SharedOK]
            exact ⟨by rw [hsh, prefixItems_append, hp.1.1], by rw [hsh, terminal_append, hp.1.2.1]⟩

/-- **with the fix, every schedule is fine**: any script, any number of threads, any list of fine-grained steps —
every thread has observed a prefix of the underlying sequence (items in order, the terminal error only after all items) -/
theorem fine_all_schedules_fixed (B : Nat) (script : List (El α)) (n : Nat) (sched : List FAct) :
    ∀ th ∈ (frun B true sched (fstart script n)).threads, ThreadOK script th := by
  have hinit : FInv script (fstart script n) := by
    refine ⟨by simp [fstart, SharedOK], ?_⟩
    intro th hth
    simp [fstart] at hth
    obtain ⟨_, rfl⟩ := hth
    exact ⟨0, by simp, by simp, by simp⟩
  have : ∀ (sched : List FAct) (s : FState α), FInv script s → FInv script (frun B true sched s) := by
    intro sched
    induction sched with
    | nil => intro s h; exact h
    | cons a as ih => intro s h; exact ih _ (fstep_inv B script s a h)
  exact (this sched _ hinit).threads

end OpenFGAVerif.Proofs.SharedFine
