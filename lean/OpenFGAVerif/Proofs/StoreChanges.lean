/-
Proofs for C15 about `Model.StoreChanges`:

  A. ReadChanges page by page *with a horizon*: when every call carries the configured horizon, following the tokens
     concatenates to exactly the horizon-filtered changelog — memory (scan loop with `break` / `continue`) and sqlite
     (WHERE … ORDER BY … LIMIT), every page size ≥ 1, every log with sorted timestamps and increasing ULIDs.
     When only the first call carries it, later pages hand out changes the horizon must withhold (witness).
  B. Timestamps / ULIDs under concurrent writers: if `now` is sampled and the ULIDs are drawn inside the locked section,
     then — for every schedule with a non-decreasing wall clock and every behaviour of the random source — the change
     records are appended in strictly increasing ULID order with non-decreasing timestamps; hence paging by ULID token
     returns every record exactly once.  If they are sampled before the lock is taken, a schedule exists in which a
     record is lost (witness).
-/
import OpenFGAVerif.Model.StoreChanges
import OpenFGAVerif.Proofs.Paging

set_option linter.unusedSimpArgs false

namespace OpenFGAVerif.Proofs.StoreChanges
open OpenFGAVerif.Model OpenFGAVerif.Model.StoreTypes OpenFGAVerif.Model.StoreWrite OpenFGAVerif.Model.StoreChanges
open OpenFGAVerif.Proofs.Paging

/-! ## A. pages with a horizon -/

/-- what a memory call may show: the requested type, not newer than now − horizon -/
def memVis (typ : String) (now horizon : Nat) (c : Change) : Bool := memTypeMatch typ c && decide (c.ts + horizon ≤ now)
/-- … a sqlite call -/
def sqlVis (typ : String) (now horizon : Nat) (c : Change) : Bool :=
  decide (c.ts + horizon ≤ now) && (typ == "" || c.tuple.objType == typ)

def ult (a b : Nat) : Bool := decide (a < b)

theorem ult_irrefl (k : Nat) : ult k k = false := by simp [ult]

theorem filter_not_atOrBefore (frm : Option Nat) (l : List Change) :
    l.filter (fun c => !atOrBefore frm c) = rowsAfter (·.ulid) ult l frm := by
  cases frm with
  | none =>
    simp only [rowsAfter, atOrBefore, Bool.not_false]
    rw [List.filter_eq_self]; intro _ _; rfl
  | some f =>
    simp only [rowsAfter, atOrBefore, ult]
    apply List.filter_congr
    intro c _
    by_cases h : c.ulid ≤ f
    · have : ¬ f < c.ulid := by omega
      simp [h, this]
    · have : f < c.ulid := by omega
      simp [h, this]

/-- the scan loop with `break` and `continue` is: filter by type and horizon, then drop what is at or before the token -/
theorem memScanFrom_eq (typ : String) (now horizon : Nat) (frm : Option Nat) : ∀ (log : List Change),
    log.Pairwise (fun a b => a.ts ≤ b.ts) →
    memScanFrom typ now horizon frm log = (log.filter (memVis typ now horizon)).filter (fun c => !atOrBefore frm c) := by
  intro log
  induction log with
  | nil => intro _; rfl
  | cons c cs ih =>
    intro h
    rw [List.pairwise_cons] at h
    simp only [memScanFrom]
    by_cases hm : memTypeMatch typ c = true
    · by_cases ht : c.ts + horizon > now
      · have hrest : cs.filter (memVis typ now horizon) = [] := by
          rw [List.filter_eq_nil_iff]
          intro d hd
          have := h.1 d hd
          have : ¬ (d.ts + horizon ≤ now) := by omega
          simp [memVis, this]
        have hc : memVis typ now horizon c = false := by
          have : ¬ (c.ts + horizon ≤ now) := by omega
          simp [memVis, this]
        simp [hm, ht, List.filter_cons, hc, hrest]
      · have hc : memVis typ now horizon c = true := by
          have : c.ts + horizon ≤ now := by omega
          simp [memVis, hm, this]
        by_cases hb : atOrBefore frm c = true
        · simp [hm, ht, hb, List.filter_cons, hc, ih h.2]
        · have hb' : atOrBefore frm c = false := by simpa using hb
          simp [hm, ht, hb', List.filter_cons, hc, ih h.2]
    · have hm' : memTypeMatch typ c = false := by simpa using hm
      have hc : memVis typ now horizon c = false := by simp [memVis, hm']
      simp [hm', List.filter_cons, hc, ih h.2]

/-- one memory call = one `changesPage` of C14 on the horizon-filtered log -/
theorem memChangesPage_eq (log : List Change) (hts : log.Pairwise (fun a b => a.ts ≤ b.ts)) (typ : String) (now ps horizon : Nat)
    (frm : Option Nat) :
    memChangesPage log typ now ps horizon frm
      = Paging.changesPage (·.ulid) ult (log.filter (memVis typ now horizon)) ps frm := by
  rw [changesPage_eq]
  unfold memChangesPage
  rw [memScanFrom_eq typ now horizon frm log hts, filter_not_atOrBefore]

theorem insertBy_asc_head (c d : Change) (ds : List Change) (h : c.ulid ≤ d.ulid) :
    insertBy (fun a b => decide (a ≤ b)) c (d :: ds) = c :: d :: ds := by
  simp [insertBy, h]

/-- `ORDER BY ulid asc` of rows whose ULIDs strictly increase is the identity -/
theorem sortAsc_increasing : ∀ (l : List Change), l.Pairwise (fun a b => a.ulid < b.ulid) →
    sortBy (fun a b => decide (a ≤ b)) l = l := by
  intro l
  induction l with
  | nil => intro _; rfl
  | cons c cs ih =>
    intro h
    rw [List.pairwise_cons] at h
    simp only [sortBy]
    rw [ih h.2]
    cases cs with
    | nil => rfl
    | cons d ds => exact insertBy_asc_head c d ds (Nat.le_of_lt (h.1 d (by simp)))

/-- one sqlite call = one `changesPage` on the horizon-filtered log -/
theorem sqlChangesPage_eq (log : List Change) (hul : log.Pairwise (fun a b => a.ulid < b.ulid)) (typ : String) (now ps horizon : Nat)
    (frm : Option Nat) :
    sqlChangesPage log typ now ps horizon frm
      = Paging.changesPage (·.ulid) ult (log.filter (sqlVis typ now horizon)) ps frm := by
  rw [changesPage_eq]
  unfold sqlChangesPage
  have hsplit : log.filter (fun c => decide (c.ts + horizon ≤ now) && (typ == "" || c.tuple.objType == typ) && !atOrBefore frm c)
      = (log.filter (sqlVis typ now horizon)).filter (fun c => !atOrBefore frm c) := by
    rw [List.filter_filter]
    apply List.filter_congr
    intro c _
    simp only [sqlVis]
    rw [Bool.and_comm]
  have hinc : ((log.filter (sqlVis typ now horizon)).filter (fun c => !atOrBefore frm c)).Pairwise (fun a b => a.ulid < b.ulid) :=
    List.Pairwise.filter _ (List.Pairwise.filter _ hul)
  simp only
  rw [hsplit, sortAsc_increasing _ hinc, filter_not_atOrBefore]

theorem strictSorted_of_increasing {l : List Change} (h : l.Pairwise (fun a b => a.ulid < b.ulid)) :
    Paging.StrictSorted (·.ulid) ult l := by
  unfold Paging.StrictSorted
  refine List.Pairwise.imp ?_ h
  intro a b hab
  have : ¬ b.ulid < a.ulid := by omega
  simp [ult, hab, this]

/-- with the horizon on every call, the client's walk is C14's walk over the horizon-filtered log -/
theorem followQuery_everyPage (page : Nat → Option Nat → List Change × Option Nat) (q ps : Nat) (items : List Change)
    (hp : ∀ tok, page q tok = Paging.changesPage (·.ulid) ult items ps tok) :
    ∀ fuel tok, followQuery page true q fuel tok = Paging.followChanges (·.ulid) ult items ps fuel tok := by
  intro fuel
  induction fuel with
  | zero => intro _; rfl
  | succ n ih =>
    intro tok
    simp only [followQuery, Paging.followChanges, queryHorizon, Bool.true_or, if_true]
    rw [hp tok]
    cases hpg : Paging.changesPage (·.ulid) ult items ps tok with
    | mk xs t =>
      cases t with
      | none => rfl
      | some k => simp only [ih (some k)]

/-- **paged_horizon (generic).** If each call with horizon `q` is a `changesPage` of `items` (strictly increasing ULIDs),
    and the query hands `q` to every call, then following the tokens from the start yields exactly `items`. -/
theorem paged_walk_eq (page : Nat → Option Nat → List Change × Option Nat) (q ps : Nat) (hps : 1 ≤ ps) (items : List Change)
    (hinc : items.Pairwise (fun a b => a.ulid < b.ulid))
    (hp : ∀ tok, page q tok = Paging.changesPage (·.ulid) ult items ps tok) (fuel : Nat) (hf : items.length < fuel) :
    (followQuery page true q fuel none).map List.flatten = some items := by
  rw [followQuery_everyPage page q ps items hp]
  exact followChanges_flatten (·.ulid) ult ult_irrefl items (strictSorted_of_increasing hinc) ps hps fuel none items rfl
    (List.suffix_refl _) hf

/-- **paged_horizon_mem.** memory.ReadChanges behind a query that sets the horizon on every call: the pages concatenate
    to exactly the changes of the type that are not newer than now − q, whatever the page size and however many tokens
    the client has to follow. -/
theorem paged_horizon_mem (log : List Change) (hts : log.Pairwise (fun a b => a.ts ≤ b.ts))
    (hul : log.Pairwise (fun a b => a.ulid < b.ulid)) (typ : String) (now q ps : Nat) (hps : 1 ≤ ps) :
    (followQuery (memChangesPage log typ now ps) true q (log.length + 1) none).map List.flatten
      = some (log.filter (memVis typ now q)) := by
  apply paged_walk_eq _ q ps hps _ (List.Pairwise.filter _ hul) (fun tok => memChangesPage_eq log hts typ now ps q tok)
  have := List.length_filter_le (memVis typ now q) log
  omega

/-- **paged_horizon_sql.** The same for sqlite.ReadChanges. -/
theorem paged_horizon_sql (log : List Change) (hul : log.Pairwise (fun a b => a.ulid < b.ulid)) (typ : String) (now q ps : Nat)
    (hps : 1 ≤ ps) :
    (followQuery (sqlChangesPage log typ now ps) true q (log.length + 1) none).map List.flatten
      = some (log.filter (sqlVis typ now q)) := by
  apply paged_walk_eq _ q ps hps _ (List.Pairwise.filter _ hul) (fun tok => sqlChangesPage_eq log hul typ now ps q tok)
  have := List.length_filter_le (sqlVis typ now q) log
  omega

def exT : TupleRec := { objType := "doc", objId := "1", relation := "viewer", user := "user:a" }
/-- three changes at times 1, 2, 9 -/
def exLog : List Change := [⟨exT, .write, 0, 1⟩, ⟨exT, .delete, 1, 2⟩, ⟨exT, .write, 2, 9⟩]

/-- **the horizon must travel with every page.** A query that sets the horizon only on the call without token hands
    out, on a continuation page, a change the horizon withholds (clock 10, horizon 5: the change made at 9) — both
    backends, page size 1. -/
theorem horizon_first_page_only_leaks :
    (followQuery (memChangesPage exLog "" 10 1) false 5 4 none).map List.flatten = some exLog ∧
    (followQuery (sqlChangesPage exLog "" 10 1) false 5 4 none).map List.flatten = some exLog ∧
    exLog.filter (memVis "" 10 5) = exLog.take 2 ∧
    (followQuery (memChangesPage exLog "" 10 1) true 5 4 none).map List.flatten = some (exLog.take 2) := by
  decide

/-! ## B. stamps taken under the lock -/

theorem ulid_lt_irrefl (k : Ulid) : Ulid.lt k k = false := by simp [Ulid.lt]

theorem ulid_lt_asymm {a b : Ulid} (h : Ulid.lt a b = true) : Ulid.lt b a = false := by
  simp only [Ulid.lt, Bool.or_eq_true, decide_eq_true_eq, Bool.and_eq_true, beq_iff_eq] at h
  simp only [Ulid.lt, Bool.or_eq_false_iff, decide_eq_false_iff_not, Bool.and_eq_false_iff, beq_eq_false_iff_ne]
  rcases h with h | ⟨h1, h2⟩
  · exact ⟨by omega, Or.inl (by omega)⟩
  · exact ⟨by omega, Or.inr (by omega)⟩

/-- what holds between the entropy source and the change records appended so far -/
structure SInv (e : Entropy) (log : List (Ulid × Nat)) : Prop where
  le_ms : ∀ p ∈ log, p.1.ms ≤ e.ms
  le_val : ∀ p ∈ log, p.1.ms = e.ms → p.1.ent ≤ e.val
  nz : log ≠ [] → e.val ≠ 0
  ts : ∀ p ∈ log, p.2 = p.1.ms
  sorted : log.Pairwise (fun a b => Ulid.lt a.1 b.1 = true)

theorem sinv_init : SInv {} [] :=
  ⟨by simp, by simp, by simp, by simp, List.Pairwise.nil⟩

/-- one `ulid.MustNew` at a millisecond not before the source's last one: the new ULID is above every change record,
    and the invariant holds again whether or not the ULID goes into the changelog -/
theorem read_inv (R : Nat → Nat × Nat) (hR : ∀ n, (R n).1 ≠ 0) (e : Entropy) (log : List (Ulid × Nat)) (now : Nat)
    (hi : SInv e log) (hnow : e.ms ≤ now) :
    SInv (e.read R now).2 (log ++ [((e.read R now).1, now)]) ∧ SInv (e.read R now).2 log ∧ (e.read R now).2.ms = now := by
  have hv : (e.read R now).2.val ≠ 0 := by
    simp only [Entropy.read]
    split
    · omega
    · exact hR _
  have hms : (e.read R now).2.ms = now := rfl
  have hu : (e.read R now).1 = ⟨now, (e.read R now).2.val⟩ := rfl
  -- every old record is at most at `now`, and if it is of this millisecond its entropy is below the new one
  have hold : ∀ p ∈ log, p.1.ms ≤ now ∧ (p.1.ms = now → p.1.ent < (e.read R now).2.val) := by
    intro p hp
    refine ⟨Nat.le_trans (hi.le_ms p hp) hnow, ?_⟩
    intro hpm
    have hem : e.ms = now := by have := hi.le_ms p hp; omega
    have hnz : e.val ≠ 0 := hi.nz (List.ne_nil_of_mem hp)
    have hle := hi.le_val p hp (by omega)
    simp only [Entropy.read, hnz, hem, ne_eq, not_false_eq_true, and_self, if_true]
    omega
  have hlt : ∀ p ∈ log, p.1.ent < (e.read R now).2.val ∨ p.1.ms < now := by
    intro p hp
    obtain ⟨h1, h2⟩ := hold p hp
    by_cases hpm : p.1.ms = now
    · exact Or.inl (h2 hpm)
    · exact Or.inr (by omega)
  have hbelow : ∀ p ∈ log, Ulid.lt p.1 (e.read R now).1 = true := by
    intro p hp
    rw [hu]
    simp only [Ulid.lt, Bool.or_eq_true, decide_eq_true_eq, Bool.and_eq_true, beq_iff_eq]
    have h1 := (hold p hp).1
    rcases hlt p hp with h | h
    · by_cases hpm : p.1.ms = now
      · exact Or.inr ⟨hpm, h⟩
      · exact Or.inl (by omega)
    · exact Or.inl h
  have hkeep : SInv (e.read R now).2 log := by
    refine ⟨?_, ?_, fun _ => hv, hi.ts, hi.sorted⟩
    · intro p hp; rw [hms]; exact (hold p hp).1
    · intro p hp hpm
      rw [hms] at hpm
      rcases hlt p hp with h | h
      · omega
      · omega
  refine ⟨?_, hkeep, hms⟩
  refine ⟨?_, ?_, fun _ => hv, ?_, ?_⟩
  · intro p hp
    rcases List.mem_append.mp hp with hp | hp
    · exact hkeep.le_ms p hp
    · simp only [List.mem_singleton] at hp; subst hp; rw [hms]; exact Nat.le_refl _
  · intro p hp hpm
    rcases List.mem_append.mp hp with hp | hp
    · exact hkeep.le_val p hp hpm
    · simp only [List.mem_singleton] at hp; subst hp; rw [hu]; exact Nat.le_refl _
  · intro p hp
    rcases List.mem_append.mp hp with hp | hp
    · exact hi.ts p hp
    · simp only [List.mem_singleton] at hp; subst hp; rfl
  · rw [List.pairwise_append]
    refine ⟨hi.sorted, List.pairwise_singleton _ _, ?_⟩
    intro a ha b hb
    simp only [List.mem_singleton] at hb
    subst hb
    exact hbelow a ha

/-- the calls of one locked section -/
theorem genCalls_inv (R : Nat → Nat × Nat) (hR : ∀ n, (R n).1 ≠ 0) (now : Nat) : ∀ (calls : List Bool) (e : Entropy)
    (log : List (Ulid × Nat)), SInv e log → e.ms ≤ now →
    SInv (genCalls R now calls e log).1 (genCalls R now calls e log).2 ∧ (genCalls R now calls e log).1.ms ≤ now := by
  intro calls
  induction calls with
  | nil => intro e log hi hnow; exact ⟨hi, hnow⟩
  | cons isChange rest ih =>
    intro e log hi hnow
    obtain ⟨h1, h2, h3⟩ := read_inv R hR e log now hi hnow
    simp only [genCalls]
    cases isChange with
    | true => exact ih _ _ h1 (by rw [h3]; exact Nat.le_refl _)
    | false => exact ih _ _ h2 (by rw [h3]; exact Nat.le_refl _)

/-- no other user of the process-wide entropy source draws a ULID with a millisecond older than the clock at the
    moment of its call -/
def staleForeign (t : Timed) : Bool :=
  match t.ev with
  | .foreign m => m != t.clock
  | _ => false

def NoStaleForeign (evs : List Timed) : Prop := ∀ t ∈ evs, staleForeign t = false

instance (evs : List Timed) : Decidable (NoStaleForeign evs) := by unfold NoStaleForeign; infer_instance

theorem runStamps_inv (R : Nat → Nat × Nat) (hR : ∀ n, (R n).1 ≠ 0) : ∀ (evs : List Timed) (s : StampState),
    SInv s.ent s.log → (∀ t ∈ evs, s.ent.ms ≤ t.clock) → (evs.map (·.clock)).Pairwise (· ≤ ·) → NoStaleForeign evs →
    SInv (runStamps true R evs s).ent (runStamps true R evs s).log := by
  intro evs
  induction evs with
  | nil => intro s hi _ _ _; exact hi
  | cons t rest ih =>
    intro s hi hclk hsorted hfor
    simp only [runStamps, List.foldl_cons]
    rw [List.map_cons, List.pairwise_cons] at hsorted
    have ht := hclk t (by simp)
    have hstep : SInv (stampStep true R s t).ent (stampStep true R s t).log ∧ (stampStep true R s t).ent.ms ≤ t.clock := by
      cases hev : t.ev with
      | sample w => simp only [stampStep, hev, if_true]; exact ⟨hi, ht⟩
      | locked w calls =>
        simp only [stampStep, hev, if_true]
        exact genCalls_inv R hR t.clock calls s.ent s.log hi ht
      | foreign m =>
        have hm : m = t.clock := by
          have := hfor t (by simp)
          simpa [staleForeign, hev] using this
        subst hm
        simp only [stampStep, hev]
        obtain ⟨_, h2, h3⟩ := read_inv R hR s.ent s.log t.clock hi ht
        exact ⟨h2, by rw [h3]; exact Nat.le_refl _⟩
    apply ih _ hstep.1
    · intro t' ht'
      have := hsorted.1 t'.clock (List.mem_map.mpr ⟨t', ht', rfl⟩)
      omega
    · exact hsorted.2
    · intro t' ht'; exact hfor t' (by simp [ht'])

/-- **changelog_sorted_under_lock.** `now` sampled and the ULIDs drawn while the lock is held: for every schedule of
    writers whose wall clock never runs backwards, and every behaviour of the random source (fresh values non-zero), the
    change records sit in the log in strictly increasing ULID order, with non-decreasing timestamps. -/
theorem changelog_sorted_under_lock (R : Nat → Nat × Nat) (hR : ∀ n, (R n).1 ≠ 0) (evs : List Timed)
    (hclk : (evs.map (·.clock)).Pairwise (· ≤ ·)) (hfor : NoStaleForeign evs) :
    Paging.StrictSorted (·.1) Ulid.lt (runStamps true R evs).log ∧
    (runStamps true R evs).log.Pairwise (fun a b => a.2 ≤ b.2) := by
  have hi := runStamps_inv R hR evs {} sinv_init (by intro t _; exact Nat.zero_le _) hclk hfor
  constructor
  · unfold Paging.StrictSorted
    exact List.Pairwise.imp (fun {a b} hab => ⟨hab, ulid_lt_asymm hab⟩) hi.sorted
  · have hs := hi.sorted
    have hts := hi.ts
    generalize (runStamps true R evs).log = log at hs hts
    induction log with
    | nil => exact List.Pairwise.nil
    | cons a l ih =>
      rw [List.pairwise_cons] at hs ⊢
      refine ⟨?_, ih hs.2 (fun p hp => hts p (by simp [hp]))⟩
      intro b hb
      have h := hs.1 b hb
      rw [hts a (by simp), hts b (by simp [hb])]
      simp only [Ulid.lt, Bool.or_eq_true, decide_eq_true_eq, Bool.and_eq_true, beq_iff_eq] at h
      rcases h with h | ⟨h, _⟩ <;> omega

/-- **paging_exactly_once_under_lock.** … hence reading the changelog page by page with ULID tokens (`ulid > token`,
    token = last ULID returned, until an empty page) returns every change record exactly once, in application order —
    every page size ≥ 1. -/
theorem paging_exactly_once_under_lock (R : Nat → Nat × Nat) (hR : ∀ n, (R n).1 ≠ 0) (evs : List Timed)
    (hclk : (evs.map (·.clock)).Pairwise (· ≤ ·)) (hfor : NoStaleForeign evs) (ps : Nat) (hps : 1 ≤ ps) :
    (Paging.followChanges (·.1) Ulid.lt (runStamps true R evs).log ps ((runStamps true R evs).log.length + 1) none).map List.flatten
      = some (runStamps true R evs).log :=
  paging_changes (fun p : Ulid × Nat => p.1) Ulid.lt ulid_lt_irrefl _ (changelog_sorted_under_lock R hR evs hclk hfor).1 ps hps

/-- two writers: writer 1 samples the clock at 1 and waits for the mutex; writer 2 samples at 2, gets the mutex first -/
def exSchedule : List Timed :=
  [⟨.sample 1, 1⟩, ⟨.sample 2, 2⟩, ⟨.locked 2 [false, true], 2⟩, ⟨.locked 1 [false, true], 3⟩]

/-- **the stamps must be taken under the lock.** With `now` sampled before the lock is taken, the schedule above appends
    writer 2's record (ms 2) before writer 1's (ms 1): the log is no longer in ULID order and a client paging with size 1
    never sees writer 1's record.  With the stamps under the lock the same schedule is read completely. -/
theorem stamps_outside_lock_lose_changes :
    let R : Nat → Nat × Nat := fun _ => (7, 0)
    (runStamps false R exSchedule).log.map (·.1.ms) = [2, 1] ∧
    (Paging.followChanges (·.1) Ulid.lt (runStamps false R exSchedule).log 1 3 none).map List.flatten
      = some ((runStamps false R exSchedule).log.take 1) ∧
    (runStamps true R exSchedule).log.map (·.1.ms) = [2, 3] ∧
    (Paging.followChanges (·.1) Ulid.lt (runStamps true R exSchedule).log 1 3 none).map List.flatten
      = some (runStamps true R exSchedule).log := by
  decide

/-! ### the statement at full strength, and why it does not hold for the source as it is -/

def foreignFromFuture (t : Timed) : Bool :=
  match t.ev with
  | .foreign m => decide (t.clock < m)
  | _ => false

/-- the statement without the restriction on other users of the entropy source (they may only not come from the
    future): stamps under the lock alone put the change records into ULID order -/
def FullChangelogInUlidOrder : Prop :=
  ∀ (R : Nat → Nat × Nat), (∀ n, (R n).1 ≠ 0) → ∀ (evs : List Timed), (evs.map (·.clock)).Pairwise (· ≤ ·) →
    (∀ t ∈ evs, foreignFromFuture t = false) →
    Paging.StrictSorted (·.1) Ulid.lt (runStamps true R evs).log

/-- one writer, two sequential Write calls in millisecond 6, and between them another goroutine's `ulid.Make()` whose
    `Now()` was still 5 -/
def exStale : List Timed := [⟨.locked 1 [true], 6⟩, ⟨.foreign 5, 6⟩, ⟨.locked 1 [true], 6⟩]

def exStaleR : Nat → Nat × Nat := fun n => if n = 0 then (9, 0) else (3, 0)

/-- **negation witness (candidate finding, reproduced on the real memory backend).** The entropy source is shared by the
    whole process.  A stale foreign read (millisecond 5 while the writers are in 6) resets its monotonic state, the next
    change record of millisecond 6 gets fresh random entropy — here smaller than its predecessor's: the log is no longer
    in ULID order although both Write calls were sequential and stamped under the lock, and a token walk loses the
    second record. -/
theorem not_full_changelog_in_ulid_order : ¬ FullChangelogInUlidOrder := by
  intro h
  have hR : ∀ n, (exStaleR n).1 ≠ 0 := by intro n; unfold exStaleR; split <;> decide
  have hs := h exStaleR hR exStale (by decide) (by decide)
  have hlog : (runStamps true exStaleR exStale).log = [(⟨6, 9⟩, 6), (⟨6, 3⟩, 6)] := by decide
  rw [hlog] at hs
  unfold Paging.StrictSorted at hs
  rw [List.pairwise_cons] at hs
  have := (hs.1 (⟨6, 3⟩, 6) (by simp)).1
  revert this
  decide

/-- … and the token walk over that log (page size 1) returns only the first of the two records -/
theorem stale_foreign_read_loses_a_change :
    (Paging.followChanges (·.1) Ulid.lt (runStamps true exStaleR exStale).log 1 3 none).map List.flatten
      = some ((runStamps true exStaleR exStale).log.take 1) := by
  decide

end OpenFGAVerif.Proofs.StoreChanges
