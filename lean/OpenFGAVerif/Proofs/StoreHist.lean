/-
Histories of writes (with an arbitrary failure point per SQL write): all-or-nothing for every failure point and
the store invariants (unique keys, replay of the changelog = tuples, ULID ranks, timestamps sorted) along any history.
-/
import OpenFGAVerif.Proofs.StoreWrite
set_option linter.unusedSimpArgs false
namespace OpenFGAVerif.Proofs.StoreWrite
open OpenFGAVerif.Model.StoreTypes OpenFGAVerif.Model.StoreWrite

/-! ### an injected failure that does not surface changes nothing about the run -/

theorem runStmts_nofire (cfg : SqlCfg) (now : Nat) (f : Option Fail) :
    ∀ (stmts : List Stmt) (db : Db) (i : Nat), (runStmts cfg now f db stmts i).2 = none →
      runStmts cfg now f db stmts i = runStmts cfg now none db stmts i := by
  intro stmts
  induction stmts with
  | nil => intro db i _; simp [runStmts]
  | cons st rest ih =>
    intro db i h
    cases f with
    | none => rfl
    | some fl =>
      by_cases hi : fl.idx = i
      · -- the failure fires here: the result carries an error, contradiction
        exfalso
        cases st with
        | commit => simp [runStmts, hi] at h
        | deleteTuples keys =>
          simp only [runStmts, hi, if_true] at h
          cases hfa : fl.after
          · rw [hfa] at h; simp at h
          · rw [hfa] at h; simp only at h; split at h <;> simp at h
        | insertTuples rows =>
          simp only [runStmts, hi, if_true] at h
          cases hfa : fl.after
          · rw [hfa] at h; simp at h
          · rw [hfa] at h; simp only at h; split at h <;> simp at h
        | insertChangelog rows =>
          simp only [runStmts, hi, if_true] at h
          cases hfa : fl.after
          · rw [hfa] at h; simp at h
          · rw [hfa] at h; simp only at h; split at h <;> simp at h
      · cases st with
        | commit => simp [runStmts, hi]
        | deleteTuples keys =>
          simp only [runStmts, hi, if_false] at h ⊢
          split
          · rfl
          · rename_i db' heq
            rw [heq] at h
            exact ih db' (i + 1) h
        | insertTuples rows =>
          simp only [runStmts, hi, if_false] at h ⊢
          split
          · rfl
          · rename_i db' heq
            rw [heq] at h
            exact ih db' (i + 1) h
        | insertChangelog rows =>
          simp only [runStmts, hi, if_false] at h ⊢
          split
          · rfl
          · rename_i db' heq
            rw [heq] at h
            exact ih db' (i + 1) h

theorem firesAt_none (i : Nat) : firesAt none i = false := rfl

theorem sqlWrite_nofire (ceq : TupleRec → TupleRec → Bool) (cfg : SqlCfg) (db : Db) (dels : List TupleKey)
    (writes : List TupleRec) (o : WriteOpts) (now : Nat) (f : Option Fail)
    (h : (sqlWrite ceq cfg db dels writes o now f).2 = none) :
    sqlWrite ceq cfg db dels writes o now f = sqlWrite ceq cfg db dels writes o now none := by
  unfold sqlWrite at h ⊢
  simp only [firesAt_none, Bool.false_eq_true, if_false]
  by_cases h0 : firesAt f 0 = true
  · rw [if_pos h0] at h; simp at h
  rw [if_neg h0] at h ⊢
  by_cases hk : (dels ++ writes.map (·.key)).eraseDups.isEmpty = true
  · simp only [hk, if_true]
  simp only [hk, if_false] at h ⊢
  by_cases h1 : firesAt f 1 = true
  · rw [if_pos h1] at h; simp at h
  rw [if_neg h1] at h ⊢
  cases hd : sqlPlanDeletes (db.committed.tuples.filter (fun t => (dels ++ writes.map (·.key)).eraseDups.contains t.key)) o dels [] with
  | error e => rfl
  | ok delKeys =>
    rw [hd] at h
    cases hw : sqlPlanWrites ceq (db.committed.tuples.filter (fun t => (dels ++ writes.map (·.key)).eraseDups.contains t.key)) o writes [] with
    | error e => rfl
    | ok rows =>
      rw [hw] at h
      exact runStmts_nofire cfg now f _ _ 2 h

/-- **All-or-nothing for the SQL backend, every failure point.**  Whatever operation of the write fails (or none):
    either the call reports an error and the committed state is what it was, or it reports success and the committed
    state is exactly the specified one.  No transaction stays open. -/
theorem sqlWrite_all_or_nothing (ceq : TupleRec → TupleRec → Bool) (cfg : SqlCfg) (hc : CfgOK cfg) (db : Db)
    (dels : List TupleKey) (writes : List TupleRec) (o : WriteOpts) (now : Nat) (f : Option Fail)
    (hp : db.pending = none)
    (hnd : (dels ++ writes.map (·.key)).Nodup) (hst : (db.committed.tuples.map (·.key)).Nodup) :
    (sqlWrite ceq cfg db dels writes o now f).1.pending = none ∧
    (((sqlWrite ceq cfg db dels writes o now f).2 ≠ none ∧
        (sqlWrite ceq cfg db dels writes o now f).1.committed = db.committed) ∨
     ((sqlWrite ceq cfg db dels writes o now f).2 = none ∧
        specWrite ceq true normCond db.committed dels writes o now
          = .ok (sqlWrite ceq cfg db dels writes o now f).1.committed)) := by
  have hat := sqlWrite_atomic ceq cfg hc db dels writes o now f hp
  refine ⟨hat.1, ?_⟩
  by_cases he : (sqlWrite ceq cfg db dels writes o now f).2 = none
  · right
    refine ⟨he, ?_⟩
    have h1 := sqlWrite_nofire ceq cfg db dels writes o now f he
    have h2 := sqlWrite_eq_spec ceq cfg hc db dels writes o now hnd hst
    rw [h1] at he ⊢
    rw [h2] at he ⊢
    cases hs : specWrite ceq true normCond db.committed dels writes o now with
    | error e => rw [hs] at he; simp [toDbResult] at he
    | ok s' => simp [toDbResult]
  · left
    exact ⟨he, hat.2 he⟩


/-! ### histories -/

structure WriteReq where
  dels : List TupleKey
  writes : List TupleRec
  opts : WriteOpts
  now : Nat
deriving Inhabited

/-- the memory backend along a history of Write calls (a failed call leaves the state alone) -/
def runMem (ceq : TupleRec → TupleRec → Bool) : StoreState → List WriteReq → StoreState
  | s, [] => s
  | s, r :: rs => runMem ceq (memWrite ceq s r.dels r.writes r.opts r.now).1 rs

/-- the SQL backend along a history in which every write carries its own failure point (or none) -/
def runSql (ceq : TupleRec → TupleRec → Bool) (cfg : SqlCfg) : Db → List (WriteReq × Option Fail) → Db
  | db, [] => db
  | db, (r, f) :: rs => runSql ceq cfg (sqlWrite ceq cfg db r.dels r.writes r.opts r.now f).1 rs

theorem memWrite_inv (ceq : TupleRec → TupleRec → Bool) (s : StoreState) (r : WriteReq) (h : ReqOK r.dels r.writes)
    (hi : Inv s) : Inv (memWrite ceq s r.dels r.writes r.opts r.now).1 := by
  rw [memWrite_eq_spec ceq s r.dels r.writes r.opts r.now h]
  cases hs : specWrite ceq false id s r.dels r.writes r.opts r.now with
  | error e => exact hi
  | ok s' =>
    rw [specWrite_ok_form hs]
    exact specState_inv false id (fun _ => rfl) (fun _ => rfl) s r.dels r.writes r.now
      (List.nodup_append.mp h.nodup).2.1 hi

/-- C15, memory: the invariants (unique keys, replay = tuples, ranks) hold after every history of well-formed requests -/
theorem runMem_inv (ceq : TupleRec → TupleRec → Bool) : ∀ (h : List WriteReq) (s : StoreState),
    (∀ r ∈ h, ReqOK r.dels r.writes) → Inv s → Inv (runMem ceq s h) := by
  intro h
  induction h with
  | nil => intro s _ hi; exact hi
  | cons r rs ih =>
    intro s hr hi
    exact ih _ (fun r' hr' => hr r' (by simp [hr'])) (memWrite_inv ceq s r (hr r (by simp)) hi)

theorem sqlWrite_inv (ceq : TupleRec → TupleRec → Bool) (cfg : SqlCfg) (hc : CfgOK cfg) (db : Db) (r : WriteReq)
    (f : Option Fail) (hnd : (r.dels ++ r.writes.map (·.key)).Nodup) (hp : db.pending = none) (hi : Inv db.committed) :
    (sqlWrite ceq cfg db r.dels r.writes r.opts r.now f).1.pending = none ∧
    Inv (sqlWrite ceq cfg db r.dels r.writes r.opts r.now f).1.committed := by
  obtain ⟨h1, h2⟩ := sqlWrite_all_or_nothing ceq cfg hc db r.dels r.writes r.opts r.now f hp hnd hi.nodup
  refine ⟨h1, ?_⟩
  rcases h2 with ⟨_, heq⟩ | ⟨_, hs⟩
  · rw [heq]; exact hi
  · rw [specWrite_ok_form hs]
    exact specState_inv true normCond normCond_key normCond_idem db.committed r.dels r.writes r.now
      (List.nodup_append.mp hnd).2.1 hi

/-- C15 + C12, SQL: the invariants hold after every history, whatever failure hits whichever write -/
theorem runSql_inv (ceq : TupleRec → TupleRec → Bool) (cfg : SqlCfg) (hc : CfgOK cfg) :
    ∀ (h : List (WriteReq × Option Fail)) (db : Db),
      (∀ rf ∈ h, (rf.1.dels ++ rf.1.writes.map (·.key)).Nodup) → db.pending = none → Inv db.committed →
      (runSql ceq cfg db h).pending = none ∧ Inv (runSql ceq cfg db h).committed := by
  intro h
  induction h with
  | nil => intro db _ hp hi; exact ⟨hp, hi⟩
  | cons rf rs ih =>
    intro db hr hp hi
    obtain ⟨r, f⟩ := rf
    have := sqlWrite_inv ceq cfg hc db r f (hr (r, f) (by simp)) hp hi
    exact ih _ (fun r' hr' => hr r' (by simp [hr'])) this.1 this.2

/-! ### timestamps along a history -/

/-- the log's timestamps never decrease and none lies after `t` -/
def TsInv (s : StoreState) (t : Nat) : Prop :=
  s.changes.Pairwise (fun a b => a.ts ≤ b.ts) ∧ ∀ c ∈ s.changes, c.ts ≤ t

theorem specState_ts (reqOrder : Bool) (norm : TupleRec → TupleRec) (s : StoreState) (dels : List TupleKey)
    (writes : List TupleRec) (now t : Nat) (ht : t ≤ now) (hi : TsInv s t) :
    TsInv (specState reqOrder norm s dels writes now) now := by
  obtain ⟨hp, hb⟩ := hi
  simp only [TsInv, specState]
  rw [pushAll_eq]
  constructor
  · rw [List.pairwise_append]
    refine ⟨hp, ?_, ?_⟩
    · rw [List.pairwise_iff_forall_sublist]
      intro a b hab
      have ha := mkChanges_ts now _ _ a (hab.subset (by simp))
      have hb' := mkChanges_ts now _ _ b (hab.subset (by simp))
      omega
    · intro a ha b hb'
      have := mkChanges_ts now _ _ b hb'
      have := hb a ha
      omega
  · intro c hc
    rcases List.mem_append.mp hc with hc | hc
    · have := hb c hc; omega
    · have := mkChanges_ts now _ _ c hc; omega

/-- the clock of the history never runs backwards (`t` = time of the previous write) -/
def TimesOK : Nat → List WriteReq → Prop
  | _, [] => True
  | t, r :: rs => t ≤ r.now ∧ TimesOK r.now rs

theorem TsInv.mono {s : StoreState} {t t' : Nat} (h : TsInv s t) (ht : t ≤ t') : TsInv s t' :=
  ⟨h.1, fun c hc => Nat.le_trans (h.2 c hc) ht⟩

theorem runMem_ts (ceq : TupleRec → TupleRec → Bool) : ∀ (h : List WriteReq) (s : StoreState) (t : Nat),
    (∀ r ∈ h, ReqOK r.dels r.writes) → TimesOK t h → TsInv s t → ∃ t', TsInv (runMem ceq s h) t' := by
  intro h
  induction h with
  | nil => intro s t _ _ hi; exact ⟨t, hi⟩
  | cons r rs ih =>
    intro s t hr htm hi
    obtain ⟨h1, h2⟩ := htm
    apply ih _ r.now (fun r' hr' => hr r' (by simp [hr'])) h2
    rw [memWrite_eq_spec ceq s r.dels r.writes r.opts r.now (hr r (by simp))]
    cases hs : specWrite ceq false id s r.dels r.writes r.opts r.now with
    | error e => exact hi.mono h1
    | ok s' =>
      rw [specWrite_ok_form hs]
      exact specState_ts false id s r.dels r.writes r.now t h1 hi

/-! ### the two backends agree on a write -/

/-- the error decision of the specification does not depend on the backend's order / normalisation -/
theorem spec_error_backend_independent (ceq : TupleRec → TupleRec → Bool) (s : StoreState) (dels : List TupleKey)
    (writes : List TupleRec) (o : WriteOpts) (now : Nat) :
    (specWrite ceq true normCond s dels writes o now).toOption.isSome = (specWrite ceq false id s dels writes o now).toOption.isSome ∧
    ∀ e, specWrite ceq true normCond s dels writes o now = .error e ↔ specWrite ceq false id s dels writes o now = .error e := by
  unfold specWrite
  by_cases c1 : (!o.ignoreMissing && dels.any (fun k => (stored s k).isNone)) = true
  · simp [c1, Except.toOption]
  by_cases c2 : (!o.ignoreDup && writes.any (fun w => (stored s w.key).isSome)) = true
  · simp [c1, c2, Except.toOption]
  by_cases c3 : writes.any (fun w => (stored s w.key).any (fun e => !ceq e w)) = true
  · simp [c1, c2, c3, Except.toOption]
  simp [c1, c2, c3, Except.toOption]

theorem inj_on_of_nodup_map {α β} (f : α → β) : ∀ (l : List α), (l.map f).Nodup → ∀ a ∈ l, ∀ b ∈ l, f a = f b → a = b := by
  intro l
  induction l with
  | nil => intro _ a ha; cases ha
  | cons x xs ih =>
    intro h a ha b hb hab
    rw [List.map_cons, List.nodup_cons] at h
    rcases List.mem_cons.mp ha with rfl | ha' <;> rcases List.mem_cons.mp hb with rfl | hb'
    · rfl
    · exact absurd (List.mem_map.mpr ⟨b, hb', hab.symm⟩) h.1
    · exact absurd (List.mem_map.mpr ⟨a, ha', hab⟩) h.1
    · exact ih h.2 a ha' b hb' hab

theorem nodup_of_nodup_map {α β} (f : α → β) : ∀ (l : List α), (l.map f).Nodup → l.Nodup := by
  intro l
  induction l with
  | nil => intro _; exact List.nodup_nil
  | cons x xs ih =>
    intro h
    rw [List.map_cons, List.nodup_cons] at h
    rw [List.nodup_cons]
    exact ⟨fun hx => h.1 (List.mem_map.mpr ⟨x, hx, rfl⟩), ih h.2⟩

theorem effDelTrue_nodup (s : StoreState) : ∀ (dels : List TupleKey), dels.Nodup → (dels.filterMap (fun k => stored s k)).Nodup := by
  intro dels
  induction dels with
  | nil => intro _; simp
  | cons k ks ih =>
    intro hd
    rw [List.nodup_cons] at hd
    cases h : stored s k with
    | none =>
      have hnone : (fun k => stored s k) k = none := h
      rw [List.filterMap_cons_none hnone]; exact ih hd.2
    | some t =>
      have hsome : (fun k => stored s k) k = some t := h
      rw [List.filterMap_cons_some hsome, List.nodup_cons]
      refine ⟨?_, ih hd.2⟩
      intro hmem
      obtain ⟨k', hk', hst⟩ := List.mem_filterMap.mp hmem
      have h1 := (stored_some_key h).2
      have h2 := (stored_some_key hst).2
      exact hd.1 (by rw [← h1, h2]; exact hk')

theorem effDel_perm (s : StoreState) (dels : List TupleKey) (hs : (s.tuples.map (·.key)).Nodup) (hd : dels.Nodup) :
    (effDelOf true s dels).Perm (effDelOf false s dels) := by
  have hkeys_inj := inj_on_of_nodup_map (fun t : TupleRec => t.key) s.tuples hs
  have n2 : (effDelOf false s dels).Nodup := by
    unfold effDelOf
    simp only [Bool.false_eq_true, if_false]
    exact List.Nodup.sublist List.filter_sublist (nodup_of_nodup_map _ _ hs)
  have n1 : (effDelOf true s dels).Nodup := by
    unfold effDelOf
    simp only [if_true]
    exact effDelTrue_nodup s dels hd
  rw [List.perm_ext_iff_of_nodup n1 n2]
  intro t
  unfold effDelOf
  simp only [if_true, Bool.false_eq_true, if_false, List.mem_filterMap, List.mem_filter, List.contains_iff_mem]
  constructor
  · rintro ⟨k, hk, hst⟩
    obtain ⟨h1, h2⟩ := stored_some_key hst
    exact ⟨h1, h2 ▸ hk⟩
  · rintro ⟨ht, hk⟩
    refine ⟨t.key, hk, ?_⟩
    have hs' : (stored s t.key).isSome = true := by
      rw [stored_isSome_iff, List.any_eq_true]; exact ⟨t, ht, by simp⟩
    cases hst : stored s t.key with
    | none => simp [hst] at hs'
    | some t' =>
      obtain ⟨h1, h2⟩ := stored_some_key hst
      rw [hkeys_inj t' h1 t ht h2]


/-- what `ReadChanges` shows of a change besides its position and time -/
def payload (c : Change) : TupleRec × Op := (c.tuple, c.op)

theorem mkChanges_payload (now : Nat) : ∀ (items : List (TupleRec × Op)) (n : Nat), (mkChanges n now items).map payload = items := by
  intro items
  induction items with
  | nil => intro n; rfl
  | cons x xs ih => intro n; simp [mkChanges, payload, ih]

/-- **after COMMIT the SQL store equals memory.Write's.** Started from the same store, the failure-free sqlite.write and
    memory.Write give the same verdict; `Read` shows the same tuples in the same order; the changelogs have the
    same length, the same old part and the same new entries — the new delete entries possibly in another order
    (request order vs store order), which is why the changelogs are compared as multisets of (tuple, operation). -/
theorem sql_commit_equals_memWrite_gen (ceq : TupleRec → TupleRec → Bool) (cfg : SqlCfg) (hc : CfgOK cfg) (s : StoreState)
    (dels : List TupleKey) (writes : List TupleRec) (o : WriteOpts) (now : Nat) (h : ReqOK dels writes)
    (hs : (s.tuples.map (·.key)).Nodup) :
    (memWrite ceq s dels writes o now).2 = (sqlWrite ceq cfg { committed := s } dels writes o now none).2 ∧
    (sqlWrite ceq cfg { committed := s } dels writes o now none).1.committed.tuples.map normCond
      = (memWrite ceq s dels writes o now).1.tuples.map normCond ∧
    ((sqlWrite ceq cfg { committed := s } dels writes o now none).1.committed.changes.map payload).Perm
      ((memWrite ceq s dels writes o now).1.changes.map payload) ∧
    (sqlWrite ceq cfg { committed := s } dels writes o now none).1.committed.changes.length
      = (memWrite ceq s dels writes o now).1.changes.length := by
  rw [memWrite_eq_spec ceq s dels writes o now h, sqlWrite_eq_spec ceq cfg hc { committed := s } dels writes o now h.nodup hs]
  have hind := spec_error_backend_independent ceq s dels writes o now
  cases hm : specWrite ceq false id s dels writes o now with
  | error e =>
    have := (hind.2 e).mpr hm
    rw [this]
    simp [toResult, toDbResult]
  | ok sm =>
    cases hq : specWrite ceq true normCond s dels writes o now with
    | error e =>
      have := (hind.2 e).mp hq
      rw [hm] at this; cases this
    | ok sq =>
      rw [specWrite_ok_form hm, specWrite_ok_form hq]
      simp only [toResult, toDbResult, specState]
      refine ⟨trivial, ?_, ?_, ?_⟩
      · simp [List.map_append, List.map_map, Function.comp, normCond_idem]
      · rw [pushAll_eq, pushAll_eq, List.map_append, List.map_append, mkChanges_payload, mkChanges_payload]
        apply List.Perm.append_left
        apply List.Perm.append_right
        exact (effDel_perm s dels hs (List.nodup_append.mp h.nodup).1).map _
      · rw [pushAll_eq, pushAll_eq]
        simp only [List.length_append, mkChanges_length, List.length_map]
        rw [(effDel_perm s dels hs (List.nodup_append.mp h.nodup).1).length_eq]

end OpenFGAVerif.Proofs.StoreWrite
