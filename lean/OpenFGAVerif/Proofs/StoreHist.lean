/-
Histories of writes (with an arbitrary failure point per SQL write): all-or-nothing for every failure point and
the store invariants (unique keys, replay of the changelog = tuples, ULID ranks, timestamps sorted) along any history.
-/
import OpenFGAVerif.Proofs.StoreWrite
set_option linter.unusedSimpArgs false
namespace OpenFGAVerif.Proofs.StoreWrite
open OpenFGAVerif.Model.StoreTypes OpenFGAVerif.Model.StoreWrite

/-! ### an injected failure that does not surface changes nothing about the run -/

theorem runStmts_nofire (cfg : SqlCfg) (now : Nat) (f : Option Fail) :
    ∀ (stmts : List Stmt) (db : Db) (i : Nat), (runStmts cfg now f db stmts i).2 = none →
      runStmts cfg now f db stmts i = runStmts cfg now none db stmts i := by
  intro stmts
  induction stmts with
  | nil => intro db i _; simp [runStmts]
  | cons st rest ih =>
    intro db i h
    cases f with
    | none => rfl
    | some fl =>
      by_cases hi : fl.idx = i
      · -- the failure fires here: the result carries an error, contradiction
        exfalso
        cases st with
        | commit => simp [runStmts, hi] at h
        | deleteTuples keys =>
          simp only [runStmts, hi, if_true] at h
          cases hfa : fl.after
          · rw [hfa] at h; simp at h
          · rw [hfa] at h; simp only at h; split at h <;> simp at h
        | insertTuples rows =>
          simp only [runStmts, hi, if_true] at h
          cases hfa : fl.after
          · rw [hfa] at h; simp at h
          · rw [hfa] at h; simp only at h; split at h <;> simp at h
        | insertChangelog rows =>
          simp only [runStmts, hi, if_true] at h
          cases hfa : fl.after
          · rw [hfa] at h; simp at h
          · rw [hfa] at h; simp only at h; split at h <;> simp at h
      · cases st with
        | commit => simp [runStmts, hi]
        | deleteTuples keys =>
          simp only [runStmts, hi, if_false] at h ⊢
          split
          · rfl
          · rename_i db' heq
            rw [heq] at h
            exact ih db' (i + 1) h
        | insertTuples rows =>
          simp only [runStmts, hi, if_false] at h ⊢
          split
          · rfl
          · rename_i db' heq
            rw [heq] at h
            exact ih db' (i + 1) h
        | insertChangelog rows =>
          simp only [runStmts, hi, if_false] at h ⊢
          split
          · rfl
          · rename_i db' heq
            rw [heq] at h
            exact ih db' (i + 1) h

theorem firesAt_none (i : Nat) : firesAt none i = false := rfl

theorem sqlWrite_nofire (ceq : TupleRec → TupleRec → Bool) (cfg : SqlCfg) (db : Db) (dels : List TupleKey)
    (writes : List TupleRec) (o : WriteOpts) (now : Nat) (f : Option Fail)
    (h : (sqlWrite ceq cfg db dels writes o now f).2 = none) :
    sqlWrite ceq cfg db dels writes o now f = sqlWrite ceq cfg db dels writes o now none := by
  unfold sqlWrite at h ⊢
  simp only [firesAt_none, Bool.false_eq_true, if_false]
  by_cases h0 : firesAt f 0 = true
  · rw [if_pos h0] at h; simp at h
  rw [if_neg h0] at h ⊢
  by_cases hk : (dels ++ writes.map (·.key)).eraseDups.isEmpty = true
  · simp only [hk, if_true]
  simp only [hk, if_false] at h ⊢
  by_cases h1 : firesAt f 1 = true
  · rw [if_pos h1] at h; simp at h
  rw [if_neg h1] at h ⊢
  cases hd : sqlPlanDeletes (db.committed.tuples.filter (fun t => (dels ++ writes.map (·.key)).eraseDups.contains t.key)) o dels [] with
  | error e => rfl
  | ok delKeys =>
    rw [hd] at h
    cases hw : sqlPlanWrites ceq (db.committed.tuples.filter (fun t => (dels ++ writes.map (·.key)).eraseDups.contains t.key)) o writes [] with
    | error e => rfl
    | ok rows =>
      rw [hw] at h
      exact runStmts_nofire cfg now f _ _ 2 h

/-- **All-or-nothing for the SQL backend, every failure point.**  Whatever operation of the write fails (or none):
    either the call reports an error and the committed state is what it was, or it reports success and the committed
    state is exactly the specified one.  No transaction stays open. -/
theorem sqlWrite_all_or_nothing (ceq : TupleRec → TupleRec → Bool) (cfg : SqlCfg) (hc : CfgOK cfg) (db : Db)
    (dels : List TupleKey) (writes : List TupleRec) (o : WriteOpts) (now : Nat) (f : Option Fail)
    (hp : db.pending = none)
    (hnd : (dels ++ writes.map (·.key)).Nodup) (hst : (db.committed.tuples.map (·.key)).Nodup) :
    (sqlWrite ceq cfg db dels writes o now f).1.pending = none ∧
    (((sqlWrite ceq cfg db dels writes o now f).2 ≠ none ∧
        (sqlWrite ceq cfg db dels writes o now f).1.committed = db.committed) ∨
     ((sqlWrite ceq cfg db dels writes o now f).2 = none ∧
        specWrite ceq true normCond db.committed dels writes o now
          = .ok (sqlWrite ceq cfg db dels writes o now f).1.committed)) := by
  have hat := sqlWrite_atomic ceq cfg hc db dels writes o now f hp
  refine ⟨hat.1, ?_⟩
  by_cases he : (sqlWrite ceq cfg db dels writes o now f).2 = none
  · right
    refine ⟨he, ?_⟩
    have h1 := sqlWrite_nofire ceq cfg db dels writes o now f he
    have h2 := sqlWrite_eq_spec ceq cfg hc db dels writes o now hnd hst
    rw [h1] at he ⊢
    rw [h2] at he ⊢
    cases hs : specWrite ceq true normCond db.committed dels writes o now with
    | error e => rw [hs] at he; simp [toDbResult] at he
    | ok s' => simp [toDbResult]
  · left
    exact ⟨he, hat.2 he⟩


/-! ### histories -/

structure WriteReq where
  dels : List TupleKey
  writes : List TupleRec
  opts : WriteOpts
  now : Nat
deriving Inhabited

/-- the memory backend along a history of Write calls (a failed call leaves the state alone) -/
def runMem (ceq : TupleRec → TupleRec → Bool) : StoreState → List WriteReq → StoreState
  | s, [] => s
  | s, r :: rs => runMem ceq (memWrite ceq s r.dels r.writes r.opts r.now).1 rs

/-- the SQL backend along a history in which every write carries its own failure point (or none) -/
def runSql (ceq : TupleRec → TupleRec → Bool) (cfg : SqlCfg) : Db → List (WriteReq × Option Fail) → Db
  | db, [] => db
  | db, (r, f) :: rs => runSql ceq cfg (sqlWrite ceq cfg db r.dels r.writes r.opts r.now f).1 rs

theorem memWrite_inv (ceq : TupleRec → TupleRec → Bool) (s : StoreState) (r : WriteReq) (h : ReqOK r.dels r.writes)
    (hi : Inv s) : Inv (memWrite ceq s r.dels r.writes r.opts r.now).1 := by
  rw [memWrite_eq_spec ceq s r.dels r.writes r.opts r.now h]
  cases hs : specWrite ceq false id s r.dels r.writes r.opts r.now with
  | error e => exact hi
  | ok s' =>
    rw [specWrite_ok_form hs]
    exact specState_inv false id (fun _ => rfl) (fun _ => rfl) s r.dels r.writes r.now
      (List.nodup_append.mp h.nodup).2.1 hi

/-- C15, memory: the invariants (unique keys, replay = tuples, ranks) hold after every history of well-formed requests -/
theorem runMem_inv (ceq : TupleRec → TupleRec → Bool) : ∀ (h : List WriteReq) (s : StoreState),
    (∀ r ∈ h, ReqOK r.dels r.writes) → Inv s → Inv (runMem ceq s h) := by
  intro h
  induction h with
  | nil => intro s _ hi; exact hi
  | cons r rs ih =>
    intro s hr hi
    exact ih _ (fun r' hr' => hr r' (by simp [hr'])) (memWrite_inv ceq s r (hr r (by simp)) hi)

theorem sqlWrite_inv (ceq : TupleRec → TupleRec → Bool) (cfg : SqlCfg) (hc : CfgOK cfg) (db : Db) (r : WriteReq)
    (f : Option Fail) (hnd : (r.dels ++ r.writes.map (·.key)).Nodup) (hp : db.pending = none) (hi : Inv db.committed) :
    (sqlWrite ceq cfg db r.dels r.writes r.opts r.now f).1.pending = none ∧
    Inv (sqlWrite ceq cfg db r.dels r.writes r.opts r.now f).1.committed := by
  obtain ⟨h1, h2⟩ := sqlWrite_all_or_nothing ceq cfg hc db r.dels r.writes r.opts r.now f hp hnd hi.nodup
  refine ⟨h1, ?_⟩
  rcases h2 with ⟨_, heq⟩ | ⟨_, hs⟩
  · rw [heq]; exact hi
  · rw [specWrite_ok_form hs]
    exact specState_inv true normCond normCond_key normCond_idem db.committed r.dels r.writes r.now
      (List.nodup_append.mp hnd).2.1 hi

/-- C15 + C12, SQL: the invariants hold after every history, whatever failure hits whichever write -/
theorem runSql_inv (ceq : TupleRec → TupleRec → Bool) (cfg : SqlCfg) (hc : CfgOK cfg) :
    ∀ (h : List (WriteReq × Option Fail)) (db : Db),
      (∀ rf ∈ h, (rf.1.dels ++ rf.1.writes.map (·.key)).Nodup) → db.pending = none → Inv db.committed →
      (runSql ceq cfg db h).pending = none ∧ Inv (runSql ceq cfg db h).committed := by
  intro h
  induction h with
  | nil => intro db _ hp hi; exact ⟨hp, hi⟩
  | cons rf rs ih =>
    intro db hr hp hi
    obtain ⟨r, f⟩ := rf
    have := sqlWrite_inv ceq cfg hc db r f (hr (r, f) (by simp)) hp hi
    exact ih _ (fun r' hr' => hr r' (by simp [hr'])) this.1 this.2

/-! ### timestamps along a history -/

/-- the log's timestamps never decrease and none lies after `t` -/
def TsInv (s : StoreState) (t : Nat) : Prop :=
  s.changes.Pairwise (fun a b => a.ts ≤ b.ts) ∧ ∀ c ∈ s.changes, c.ts ≤ t

theorem specState_ts (reqOrder : Bool) (norm : TupleRec → TupleRec) (s : StoreState) (dels : List TupleKey)
    (writes : List TupleRec) (now t : Nat) (ht : t ≤ now) (hi : TsInv s t) :
    TsInv (specState reqOrder norm s dels writes now) now := by
  obtain ⟨hp, hb⟩ := hi
  simp only [TsInv, specState]
  rw [pushAll_eq]
  constructor
  · rw [List.pairwise_append]
    refine ⟨hp, ?_, ?_⟩
    · rw [List.pairwise_iff_forall_sublist]
      intro a b hab
      have ha := mkChanges_ts now _ _ a (hab.subset (by simp))
      have hb' := mkChanges_ts now _ _ b (hab.subset (by simp))
      omega
    · intro a ha b hb'
      have := mkChanges_ts now _ _ b hb'
      have := hb a ha
      omega
  · intro c hc
    rcases List.mem_append.mp hc with hc | hc
    · have := hb c hc; omega
    · have := mkChanges_ts now _ _ c hc; omega

/-- the clock of the history never runs backwards (`t` = time of the previous write) -/
def TimesOK : Nat → List WriteReq → Prop
  | _, [] => True
  | t, r :: rs => t ≤ r.now ∧ TimesOK r.now rs

theorem TsInv.mono {s : StoreState} {t t' : Nat} (h : TsInv s t) (ht : t ≤ t') : TsInv s t' :=
  ⟨h.1, fun c hc => Nat.le_trans (h.2 c hc) ht⟩

theorem runMem_ts (ceq : TupleRec → TupleRec → Bool) : ∀ (h : List WriteReq) (s : StoreState) (t : Nat),
    (∀ r ∈ h, ReqOK r.dels r.writes) → TimesOK t h → TsInv s t → ∃ t', TsInv (runMem ceq s h) t' := by
  intro h
  induction h with
  | nil => intro s t _ _ hi; exact ⟨t, hi⟩
  | cons r rs ih =>
    intro s t hr htm hi
    obtain ⟨h1, h2⟩ := htm
    apply ih _ r.now (fun r' hr' => hr r' (by simp [hr'])) h2
    rw [memWrite_eq_spec ceq s r.dels r.writes r.opts r.now (hr r (by simp))]
    cases hs : specWrite ceq false id s r.dels r.writes r.opts r.now with
    | error e => exact hi.mono h1
    | ok s' =>
      rw [specWrite_ok_form hs]
      exact specState_ts false id s r.dels r.writes r.now t h1 hi

end OpenFGAVerif.Proofs.StoreWrite
