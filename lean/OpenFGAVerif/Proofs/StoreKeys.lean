/-
Proofs about the lock key of sqlite.write (`Model.StoreKeys`): the seven fields, joined with a separator that occurs
in none of them, determine the request key; hence the `seen` map of makeTupleLockKeys drops exactly the repeated keys
and the parameterised write `sqlWriteK` is `StoreWrite.sqlWrite` — for every request, no bound.  Conversely, each of the
six identity fields is needed: without it two different well-formed keys share one lock key.
-/
import OpenFGAVerif.Model.StoreKeys
import OpenFGAVerif.Proofs.StoreWrite

set_option linter.unusedSimpArgs false

namespace OpenFGAVerif.Proofs.StoreKeys
open OpenFGAVerif.Model.StoreTypes OpenFGAVerif.Model.StoreWrite OpenFGAVerif.Model.StoreKeys

/-! ### strings.Join with a separator that occurs in no part is injective -/

theorem append_sep_inj (c : Char) : ∀ (a b x y : List Char), c ∉ a → c ∉ b → a ++ c :: x = b ++ c :: y → a = b ∧ x = y := by
  intro a
  induction a with
  | nil =>
    intro b x y _ hb h
    cases b with
    | nil => simpa using h
    | cons d b' =>
      simp only [List.nil_append, List.cons_append, List.cons.injEq] at h
      exact absurd (by simp [h.1]) hb
  | cons d a' ih =>
    intro b x y ha hb h
    cases b with
    | nil =>
      simp only [List.nil_append, List.cons_append, List.cons.injEq] at h
      exact absurd (by simp [h.1]) ha
    | cons e b' =>
      simp only [List.cons_append, List.cons.injEq] at h
      have ha' : c ∉ a' := fun hm => ha (by simp [hm])
      have hb' : c ∉ b' := fun hm => hb (by simp [hm])
      obtain ⟨h1, h2⟩ := ih b' x y ha' hb' h.2
      exact ⟨by rw [h.1, h1], h2⟩

theorem joinSep_cons_cons (sep a b : List Char) (r : List (List Char)) :
    joinSep sep (a :: b :: r) = a ++ sep ++ joinSep sep (b :: r) := rfl

/-- two part lists of the same length, no part containing the separator: equal joins ⇒ equal parts -/
theorem joinSep_inj (c : Char) : ∀ (l1 l2 : List (List Char)), l1.length = l2.length →
    (∀ a ∈ l1, c ∉ a) → (∀ a ∈ l2, c ∉ a) → joinSep [c] l1 = joinSep [c] l2 → l1 = l2 := by
  intro l1
  induction l1 with
  | nil =>
    intro l2 hl _ _ _
    cases l2 with
    | nil => rfl
    | cons _ _ => simp at hl
  | cons a r1 ih =>
    intro l2 hl h1 h2 h
    cases l2 with
    | nil => simp at hl
    | cons b r2 =>
      cases r1 with
      | nil =>
        cases r2 with
        | nil => simp only [joinSep] at h; rw [h]
        | cons _ _ => simp at hl
      | cons a2 r1' =>
        cases r2 with
        | nil => simp at hl
        | cons b2 r2' =>
          rw [joinSep_cons_cons, joinSep_cons_cons] at h
          simp only [List.append_assoc, List.singleton_append] at h
          obtain ⟨hab, hrest⟩ := append_sep_inj c a b _ _ (h1 a (by simp)) (h2 b (by simp)) h
          have := ih (b2 :: r2') (by simpa using hl) (fun x hx => h1 x (by simp [hx])) (fun x hx => h2 x (by simp [hx])) hrest
          rw [hab, this]

/-! ### the seven fields determine the key -/

/-- no field of the key contains the separator character -/
def NoSep (utype : String → String) (c : Char) (k : TupleKey) : Prop :=
  ∀ f ∈ LockField.all, c ∉ (f.get utype k).toList

instance (utype : String → String) (c : Char) (k : TupleKey) : Decidable (NoSep utype c k) := by
  unfold NoSep; infer_instance

theorem lockFields_injective (utype : String → String) (k1 k2 : TupleKey) (h1 : UserOK k1.user) (h2 : UserOK k2.user)
    (h : LockField.all.map (fun f => f.get utype k1) = LockField.all.map (fun f => f.get utype k2)) : k1 = k2 := by
  simp only [LockField.all, List.map_cons, List.map_nil, LockField.get, List.cons.injEq, and_true] at h
  obtain ⟨e1, e2, e3, e4, e5, e6, _⟩ := h
  have hp : userParts k1.user = userParts k2.user := Prod.ext e4 (Prod.ext e5 e6)
  have hu : k1.user = k2.user := by
    rw [← h1, ← h2, hp]
  cases k1; cases k2
  simp only at e1 e2 e3 hu
  simp [e1, e2, e3, hu]

/-- **lock_key_injective.** With all seven fields joined by a separator that occurs in none of them, two request keys
    with the same lock-key string are the same (object, relation, user) triple — user relation included. -/
theorem lockKeyString_injective (utype : String → String) (c : Char) (k1 k2 : TupleKey)
    (h1 : UserOK k1.user) (h2 : UserOK k2.user) (n1 : NoSep utype c k1) (n2 : NoSep utype c k2)
    (h : lockKeyString utype LockField.all [c] k1 = lockKeyString utype LockField.all [c] k2) : k1 = k2 := by
  unfold lockKeyString at h
  have hl := joinSep_inj c _ _ (by simp) ?_ ?_ h
  · apply lockFields_injective utype k1 k2 h1 h2
    have := congrArg (List.map String.ofList) hl
    simpa [List.map_map, Function.comp_def] using this
  · intro a ha
    obtain ⟨f, hf, rfl⟩ := List.mem_map.mp ha
    exact n1 f hf
  · intro a ha
    obtain ⟨f, hf, rfl⟩ := List.mem_map.mp ha
    exact n2 f hf

/-! ### the `seen` map drops exactly the repeated keys -/

theorem dedupBy_inj {α β : Type} [BEq α] [LawfulBEq α] [BEq β] [LawfulBEq β] (f : α → β) :
    ∀ (l S : List α), (∀ x ∈ l ++ S, ∀ y ∈ l ++ S, f x = f y → x = y) →
      dedupBy f l (S.map f) = dedupBy id l S := by
  intro l
  induction l with
  | nil => intro S _; rfl
  | cons x xs ih =>
    intro S hinj
    have hc : (S.map f).contains (f x) = S.contains x := by
      rw [Bool.eq_iff_iff]
      simp only [List.contains_iff_mem, List.mem_map]
      constructor
      · rintro ⟨y, hy, hxy⟩
        have := hinj y (by simp [hy]) x (by simp) hxy
        rwa [← this]
      · intro hx; exact ⟨x, hx, rfl⟩
    simp only [dedupBy, hc, id]
    have hsub : ∀ a, a ∈ xs ++ S → a ∈ x :: xs ++ S := by
      intro a ha
      simp only [List.cons_append, List.mem_cons, List.mem_append] at ha ⊢
      exact Or.inr ha
    have hsub' : ∀ a, a ∈ xs ++ x :: S → a ∈ x :: xs ++ S := by
      intro a ha
      simp only [List.cons_append, List.mem_cons, List.mem_append] at ha ⊢
      rcases ha with h | h | h
      · exact Or.inr (Or.inl h)
      · exact Or.inl h
      · exact Or.inr (Or.inr h)
    by_cases hx : S.contains x = true
    · simp only [hx, if_true]
      exact ih S (fun a ha b hb => hinj a (hsub a ha) b (hsub b hb))
    · have hx' : S.contains x = false := by simpa using hx
      simp only [hx', Bool.false_eq_true, if_false]
      have := ih (x :: S) (fun a ha b hb => hinj a (hsub' a ha) b (hsub' b hb))
      simp only [List.map_cons] at this
      rw [this]

theorem dedupBy_id_eq {α : Type} [BEq α] [LawfulBEq α] : ∀ (l S : List α),
    dedupBy id l S = (l.filter (fun x => !S.contains x)).eraseDups := by
  intro l
  induction l with
  | nil => intro S; simp [dedupBy]
  | cons x xs ih =>
    intro S
    simp only [dedupBy, id]
    by_cases hx : S.contains x = true
    · simp only [hx, if_true, List.filter_cons, Bool.not_true, Bool.false_eq_true, if_false]
      exact ih S
    · have hx' : S.contains x = false := by simpa using hx
      simp only [hx', Bool.false_eq_true, if_false, List.filter_cons, Bool.not_false, if_true]
      rw [List.eraseDups_cons, ih (x :: S), List.filter_filter]
      congr 2
      apply List.filter_congr
      intro y _
      simp only [List.contains_cons, Bool.not_or, Bool.and_comm]

/-- the de-dup of makeTupleLockKeys by an injective key string is `eraseDups` on the keys themselves -/
theorem dedupBy_eq_eraseDups {α β : Type} [BEq α] [LawfulBEq α] [BEq β] [LawfulBEq β] (f : α → β) (l : List α)
    (hinj : ∀ x ∈ l, ∀ y ∈ l, f x = f y → x = y) : dedupBy f l [] = l.eraseDups := by
  have := dedupBy_inj f l [] (by simpa using hinj)
  simp only [List.map_nil] at this
  rw [this, dedupBy_id_eq]
  have : l.filter (fun x => !([] : List α).contains x) = l := by
    rw [List.filter_eq_self]; intro a _; simp
  rw [this]

/-- request keys the theorem speaks about: the user string survives the column split, no field contains the separator -/
def KeysOK (utype : String → String) (c : Char) (l : List TupleKey) : Prop :=
  ∀ k ∈ l, UserOK k.user ∧ NoSep utype c k

/-- **lock_keys_are_the_distinct_keys.** The lock keys of a request are its distinct (object, relation, user) triples. -/
theorem sqlLockKeys_eq_eraseDups (utype : String → String) (c : Char) (dels : List TupleKey) (writes : List TupleRec)
    (hk : KeysOK utype c (dels ++ writes.map (·.key))) :
    sqlLockKeys utype LockField.all [c] dels writes = (dels ++ writes.map (·.key)).eraseDups := by
  unfold sqlLockKeys
  apply dedupBy_eq_eraseDups
  intro x hx y hy hxy
  exact lockKeyString_injective utype c x y (hk x hx).1 (hk y hy).1 (hk x hx).2 (hk y hy).2 hxy

theorem sqlWriteK_eraseDups (ceq : TupleRec → TupleRec → Bool) (cfg : SqlCfg) (db : Db) (dels : List TupleKey)
    (writes : List TupleRec) (o : WriteOpts) (now : Nat) (f : Option Fail) :
    sqlWriteK (dels ++ writes.map (·.key)).eraseDups ceq cfg db dels writes o now f = sqlWrite ceq cfg db dels writes o now f := rfl

/-- **sql_write_uses_tuple_identity.** sqlite.write with the lock keys of makeTupleLockKeys (all seven fields, NUL-like
    separator) is the write the C12 theorems are about. -/
theorem sqlWriteK_lockKeys (utype : String → String) (c : Char) (ceq : TupleRec → TupleRec → Bool) (cfg : SqlCfg) (db : Db)
    (dels : List TupleKey) (writes : List TupleRec) (o : WriteOpts) (now : Nat) (f : Option Fail)
    (hk : KeysOK utype c (dels ++ writes.map (·.key))) :
    sqlWriteK (sqlLockKeys utype LockField.all [c] dels writes) ceq cfg db dels writes o now f
      = sqlWrite ceq cfg db dels writes o now f := by
  rw [sqlLockKeys_eq_eraseDups utype c dels writes hk]; rfl

/-! ### every identity field is needed -/

def kMember : TupleKey := ⟨"document", "1", "viewer", "group:eng#member"⟩
def kAdmin : TupleKey := ⟨"document", "1", "viewer", "group:eng#admin"⟩

/-- dropping any one of the six identity fields from the join merges two different well-formed keys -/
theorem every_identity_field_needed :
    ∀ f ∈ [LockField.objectType, .objectID, .relation, .userObjectType, .userObjectID, .userRelation],
      ∃ k1 k2 : TupleKey, k1 ≠ k2 ∧ UserOK k1.user ∧ UserOK k2.user ∧
        lockKeyString userTypeOf (LockField.all.filter (· != f)) [Char.ofNat 0] k1
          = lockKeyString userTypeOf (LockField.all.filter (· != f)) [Char.ofNat 0] k2 := by
  intro f hf
  simp only [List.mem_cons, List.not_mem_nil, or_false] at hf
  rcases hf with rfl | rfl | rfl | rfl | rfl | rfl
  · exact ⟨⟨"document", "1", "viewer", "group:eng#member"⟩, ⟨"folder", "1", "viewer", "group:eng#member"⟩, by decide, by decide, by decide, by decide⟩
  · exact ⟨⟨"document", "1", "viewer", "group:eng#member"⟩, ⟨"document", "2", "viewer", "group:eng#member"⟩, by decide, by decide, by decide, by decide⟩
  · exact ⟨⟨"document", "1", "viewer", "group:eng#member"⟩, ⟨"document", "1", "editor", "group:eng#member"⟩, by decide, by decide, by decide, by decide⟩
  · exact ⟨⟨"document", "1", "viewer", "group:eng#member"⟩, ⟨"document", "1", "viewer", "team:eng#member"⟩, by decide, by decide, by decide, by decide⟩
  · exact ⟨⟨"document", "1", "viewer", "group:eng#member"⟩, ⟨"document", "1", "viewer", "group:ops#member"⟩, by decide, by decide, by decide, by decide⟩
  · exact ⟨kMember, kAdmin, by decide, by decide, by decide, by decide⟩

/-- … and with the user relation dropped the write itself goes wrong: both tuples stored, one Write deleting both —
    the second delete is reported missing (default) or silently skipped (on_missing = ignore) -/
theorem dropped_user_relation_breaks_write :
    let fields := LockField.all.filter (· != LockField.userRelation)
    let tM : TupleRec := { objType := "document", objId := "1", relation := "viewer", user := "group:eng#member" }
    let tA : TupleRec := { objType := "document", objId := "1", relation := "viewer", user := "group:eng#admin" }
    let db : Db := { committed := { tuples := [tM, tA] } }
    let keys := sqlLockKeys userTypeOf fields [Char.ofNat 0] [kMember, kAdmin] []
    (sqlWriteK keys semCondEq SqlCfg.good db [kMember, kAdmin] [] {} 1 none).2 = some .invalidDelete ∧
    (sqlWriteK keys semCondEq SqlCfg.good db [kMember, kAdmin] [] { ignoreMissing := true } 1 none).1.committed.tuples = [tA] ∧
    (sqlWrite semCondEq SqlCfg.good db [kMember, kAdmin] [] {} 1 none).1.committed.tuples = [] := by
  decide

/-! ### the concrete shapes the harness writes are covered -/

theorem userOK_examples :
    UserOK "user:a" ∧ UserOK "group:eng#member" ∧ UserOK "user:*" ∧ UserOK "group:g#admin" := by decide

end OpenFGAVerif.Proofs.StoreKeys
