/-
Proofs for C13: the read paths of the memory backend (loops as written, with the `MemShape` switches)
and of the sqlite backend (WHERE clauses, `SqlShape` switches) against the documented filters.
Everything here is for ALL stores and ALL filters; hypotheses are stated where a switch is on the
defective side or where a fact about user strings is needed (`ColsOK`, proved nowhere here: it is a
property of valid user strings, C29, and is re-checked on every correspondence case by the driver).
-/
import OpenFGAVerif.Model.StoreRead

namespace OpenFGAVerif.Proofs.StoreRead
open OpenFGAVerif.Model.StoreTypes OpenFGAVerif.Model.StoreRead

theorem flatMap_ite {α} (p : α → Bool) (s : List α) :
    s.flatMap (fun t => if p t then [t] else []) = s.filter p := by
  induction s with
  | nil => rfl
  | cons x xs ih => simp only [List.flatMap_cons, List.filter_cons, ih]; split <;> simp

theorem matchT_eq_spec (t : TupleRec) (o r u : String) :
    matchT t o r u = (specObjectOk o t && (decide (r = "") || decide (t.relation = r)) && specUserOk u t) := by
  unfold matchT specObjectOk specUserOk
  by_cases ho : o = ""
  · by_cases hu : u = ""
    · simp [ho, hu]
    · by_cases huid : (toUserParts u).id = "" <;> simp [ho, hu, huid]
  · by_cases hid : (splitObject o).2 = "" <;> by_cases hu : u = ""
    · simp [ho, hu, hid]
    · by_cases huid : (toUserParts u).id = "" <;> simp [ho, hu, hid, huid]
    · simp [ho, hu, hid]
    · by_cases huid : (toUserParts u).id = "" <;> simp [ho, hu, hid, huid]

theorem specUserOk_empty (t : TupleRec) : specUserOk "" t = true := by simp [specUserOk]

theorem specObjectOk_empty (t : TupleRec) : specObjectOk "" t = true := by simp [specObjectOk]

/-- `read` with a non-empty key, or with the repaired shortcut, is the documented filter. -/

theorem mem_read_eq_spec (sh : MemShape) (s : List TupleRec) (f : ReadFilter)
    (h : sh.readShortcutSkipsConds = false ∨ f.conditions = [] ∨ ¬ (f.object = "" ∧ f.relation = "" ∧ f.user = "")) :
    memRead sh s f = specRead s f := by
  unfold memRead specRead
  by_cases he : f.object = "" ∧ f.relation = "" ∧ f.user = ""
  · obtain ⟨h1, h2, h3⟩ := he
    have hp : ∀ t, specReadPred f t = condOk f.conditions t := by
      intro t; simp [specReadPred, h1, h2, h3, specUserOk_empty, specObjectOk_empty]
    simp only [h1, h2, h3, and_self, if_true]
    rcases h with h | h | h
    · simp only [h, Bool.false_eq_true, if_false]; congr 1; funext t; exact (hp t).symm
    · have : ∀ t, specReadPred f t = true := by intro t; rw [hp]; simp [condOk, h]
      split
      · exact (List.filter_eq_self.mpr (fun t _ => this t)).symm
      · congr 1; funext t; exact (hp t).symm
    · exact absurd ⟨h1, h2, h3⟩ h
  · simp only [he, if_false]
    congr 1; funext t
    simp [specReadPred, matchT_eq_spec]

theorem mem_readUserTuple_eq_spec (s : List TupleRec) (f : ReadFilter) :
    memReadUserTuple s f = specReadUserTuple s f := by
  unfold specReadUserTuple
  induction s with
  | nil => rfl
  | cons t ts ih =>
    unfold memReadUserTuple
    rw [List.find?_cons]
    have hp : specReadPred f t = (matchT t f.object f.relation f.user && condOk f.conditions t) := by
      simp [specReadPred, matchT_eq_spec]
    have hcond : (!f.conditions.isEmpty && !f.conditions.contains t.condName) = !condOk f.conditions t := by
      simp [condOk, Bool.not_or]
    rw [hp, hcond, ih]
    cases matchT t f.object f.relation f.user <;> cases condOk f.conditions t <;> simp

theorem rutRestrLoop_break (pm : Bool) (t : TupleRec) (rs : List Restriction) :
    rutRestrLoop true pm t rs = if rs.any (memRestrOk pm t) then [t] else [] := by
  induction rs with
  | nil => rfl
  | cons r rs ih =>
    unfold rutRestrLoop
    by_cases h : memRestrOk pm t r = true
    · simp [h]
    · simp [h, ih]

theorem rutRestrLoop_nobreak (pm : Bool) (t : TupleRec) (rs : List Restriction) :
    rutRestrLoop false pm t rs = List.replicate (rs.countP (memRestrOk pm t)) t := by
  induction rs with
  | nil => rfl
  | cons r rs ih =>
    unfold rutRestrLoop
    by_cases h : memRestrOk pm t r = true
    · simp [h, ih, List.replicate_succ]
    · simp [h, ih]

theorem replicate_countP_le_one {α β} (p : α → Bool) (l : List α) (t : β) (h : l.countP p ≤ 1) :
    List.replicate (l.countP p) t = if l.any p then [t] else [] := by
  by_cases ha : l.any p = true
  · have : 0 < l.countP p := by
      rw [List.countP_pos_iff]; simpa using ha
    have : l.countP p = 1 := by omega
    simp [ha, this]
  · have : l.countP p = 0 := by
      rw [List.countP_eq_zero]; simpa using ha
    simp [ha, this]

theorem memRestrOk_eq_spec (pm : Bool) (t : TupleRec) (r : Restriction) (h : pm = false ∨ r.kind ≠ .plain) :
    memRestrOk pm t r = specRestrOk r t := by
  unfold memRestrOk specRestrOk Restriction.relationStr
  cases hk : r.kind with
  | relation rel => simp
  | wildcard => simp [eq_comm (a := "")]
  | plain =>
    rcases h with h | h
    · simp [h]
    · exact absurd hk h

theorem any_memRestrOk_eq_spec (pm : Bool) (t : TupleRec) (rs : List Restriction)
    (h : pm = false ∨ ∀ x ∈ rs, x.kind ≠ .plain) :
    rs.any (memRestrOk pm t) = rs.any (fun x => specRestrOk x t) := by
  induction rs with
  | nil => rfl
  | cons r rs ih =>
    simp only [List.any_cons]
    rw [memRestrOk_eq_spec pm t r (h.imp id (fun h => h r (by simp))), ih (h.imp id (fun h x hx => h x (by simp [hx])))]

theorem rutBody_eq_spec (sh : MemShape) (f : UsersetFilter) (t : TupleRec)
    (hc : sh.rutCondFirst = true ∨ f.conditions = [])
    (hb : sh.rutBreakOnMatch = true ∨ f.restrictions.countP (memRestrOk sh.rutPlainMatchesWildcard t) ≤ 1)
    (hp : sh.rutPlainMatchesWildcard = false ∨ ∀ x ∈ f.restrictions, x.kind ≠ .plain) :
    rutBody sh f t = if specUsersetPred f t then [t] else [] := by
  unfold rutBody specUsersetPred
  rw [matchT_eq_spec, specUserOk_empty, Bool.and_true]
  have hloop : rutRestrLoop sh.rutBreakOnMatch sh.rutPlainMatchesWildcard t f.restrictions
      = if f.restrictions.any (fun x => specRestrOk x t) then [t] else [] := by
    rw [← any_memRestrOk_eq_spec _ t _ hp]
    rcases hb with hb | hb
    · rw [hb, rutRestrLoop_break]
    · cases hbrk : sh.rutBreakOnMatch
      · rw [rutRestrLoop_nobreak, replicate_countP_le_one _ _ _ hb]
      · rw [rutRestrLoop_break]
  have hcond : (sh.rutCondFirst && !condOk f.conditions t) = !condOk f.conditions t := by
    rcases hc with hc | hc
    · simp [hc]
    · simp [condOk, hc]
  rw [hloop, hcond]
  cases specObjectOk f.object t <;> cases (decide (f.relation = "") || decide (t.relation = f.relation)) <;>
    cases isUsersetUser t.user <;> cases condOk f.conditions t <;> cases f.restrictions.isEmpty <;>
    cases f.restrictions.any (fun x => specRestrOk x t) <;> simp

theorem flatMap_congr_mem {α β} (s : List α) (g h : α → List β) (e : ∀ t ∈ s, g t = h t) : s.flatMap g = s.flatMap h := by
  induction s with
  | nil => rfl
  | cons x xs ih =>
    simp only [List.flatMap_cons]
    rw [e x (by simp), ih (fun t ht => e t (by simp [ht]))]

theorem mem_rut_eq_spec (sh : MemShape) (s : List TupleRec) (f : UsersetFilter)
    (hc : sh.rutCondFirst = true ∨ f.conditions = [])
    (hb : sh.rutBreakOnMatch = true ∨ ∀ t ∈ s, f.restrictions.countP (memRestrOk sh.rutPlainMatchesWildcard t) ≤ 1)
    (hp : sh.rutPlainMatchesWildcard = false ∨ ∀ x ∈ f.restrictions, x.kind ≠ .plain) :
    memReadUsersetTuples sh s f = specReadUsersetTuples s f := by
  unfold memReadUsersetTuples specReadUsersetTuples
  rw [← flatMap_ite]
  apply flatMap_congr_mem
  intro t ht
  exact rutBody_eq_spec sh f t hc (hb.imp id (fun h => h t ht)) hp

def targetIs (t : TupleRec) (u : ObjRel) : Bool := decide (targetUser u = t.user)

theorem rswuUserLoop_break (t : TupleRec) (us : List ObjRel) :
    rswuUserLoop true t us = if us.any (targetIs t) then [t] else [] := by
  induction us with
  | nil => rfl
  | cons u us ih =>
    unfold rswuUserLoop
    by_cases h : targetUser u = t.user
    · simp [h, targetIs]
    · simp [h, ih, targetIs]

theorem rswuUserLoop_nobreak (t : TupleRec) (us : List ObjRel) :
    rswuUserLoop false t us = List.replicate (us.countP (targetIs t)) t := by
  induction us with
  | nil => rfl
  | cons u us ih =>
    unfold rswuUserLoop
    by_cases h : targetUser u = t.user
    · simp [h, ih, targetIs, List.replicate_succ]
    · simp [h, ih, targetIs]

theorem idsOk_eq_spec (b : Bool) (ids : Option (List String)) (t : TupleRec)
    (he : b = false ∨ ids ≠ some []) :
    idsOk b ids t = specIdsOk ids t := by
  unfold idsOk specIdsOk
  cases ids with
  | none => rfl
  | some l =>
    rcases he with he | he
    · simp [he]
    · have : l ≠ [] := fun e => he (by rw [e])
      simp [this]

theorem rswuBody_eq_spec (sh : MemShape) (f : RswuFilter) (t : TupleRec)
    (hb : sh.rswuBreakOnMatch = true ∨ f.userFilter.countP (targetIs t) ≤ 1)
    (he : sh.rswuEmptyIdsMeansAll = false ∨ f.objectIDs ≠ some []) :
    rswuBody sh f t = if specRswuPred f t then [t] else [] := by
  unfold rswuBody specRswuPred
  have hloop : rswuUserLoop sh.rswuBreakOnMatch t f.userFilter
      = if f.userFilter.any (fun u => decide (targetUser u = t.user)) then [t] else [] := by
    rcases hb with hb | hb
    · rw [hb, rswuUserLoop_break]; rfl
    · cases hbrk : sh.rswuBreakOnMatch
      · rw [rswuUserLoop_nobreak, replicate_countP_le_one _ _ _ hb]; rfl
      · rw [rswuUserLoop_break]; rfl
  rw [hloop, idsOk_eq_spec _ _ _ he]
  by_cases h1 : t.objType = f.objectType <;> by_cases h2 : t.relation = f.relation <;>
    cases specIdsOk f.objectIDs t <;>
    cases condOk f.conditions t <;>
    cases f.userFilter.any (fun u => decide (targetUser u = t.user)) <;> simp [h1, h2]

theorem mem_rswu_matches_eq_spec (sh : MemShape) (s : List TupleRec) (f : RswuFilter)
    (hb : sh.rswuBreakOnMatch = true ∨ ∀ t ∈ s, f.userFilter.countP (targetIs t) ≤ 1)
    (he : sh.rswuEmptyIdsMeansAll = false ∨ f.objectIDs ≠ some []) :
    memRswuMatches sh s f = specReadStartingWithUser s f := by
  unfold memRswuMatches specReadStartingWithUser
  rw [← flatMap_ite]
  apply flatMap_congr_mem
  intro t ht
  exact rswuBody_eq_spec sh f t (hb.imp id (fun h => h t ht)) he

theorem insertById_perm (t : TupleRec) (l : List TupleRec) : (insertById t l).Perm (t :: l) := by
  induction l with
  | nil => exact List.Perm.refl _
  | cons x xs ih =>
    unfold insertById
    split
    · exact List.Perm.refl _
    · exact (List.Perm.cons x ih).trans (List.Perm.swap t x xs)

theorem sortById_perm (l : List TupleRec) : (sortById l).Perm l := by
  induction l with
  | nil => exact List.Perm.refl _
  | cons t ts ih => exact (insertById_perm t _).trans (List.Perm.cons t ih)

def SortedById (l : List TupleRec) : Prop := l.Pairwise (fun a b => a.objId ≤ b.objId)

theorem insertById_sorted (t : TupleRec) (l : List TupleRec) (h : SortedById l) : SortedById (insertById t l) := by
  induction l with
  | nil => simp [insertById, SortedById]
  | cons x xs ih =>
    unfold insertById
    have hx := List.pairwise_cons.mp h
    split
    · rename_i hlt
      refine List.pairwise_cons.mpr ⟨?_, h⟩
      intro y hy
      have hxy : x.objId ≤ y.objId := by
        rcases List.mem_cons.mp hy with rfl | hy
        · exact String.le_refl _
        · exact hx.1 y hy
      exact String.le_trans (String.not_lt.mp (String.lt_asymm hlt)) hxy
    · rename_i hnlt
      refine List.pairwise_cons.mpr ⟨?_, ih hx.2⟩
      intro y hy
      have hy' := (insertById_perm t xs).mem_iff.mp hy
      rcases List.mem_cons.mp hy' with rfl | hy'
      · exact String.not_lt.mp hnlt
      · exact hx.1 y hy'

theorem sortById_sorted (l : List TupleRec) : SortedById (sortById l) := by
  induction l with
  | nil => simp [sortById, SortedById]
  | cons t ts ih => exact insertById_sorted t _ ih

structure ColsOK (s : List TupleRec) : Prop where
  roundtrip : ∀ t ∈ s, fromUserParts (toUserParts t.user) = t.user
  typ : ∀ t ∈ s, (toUserParts t.user).typ = getType t.user
  wild : ∀ t ∈ s, isUsersetUser t.user = true → ((toUserParts t.user).id = "*" ↔ userRel t.user = "")

/-- `strings.HasPrefix(t.User, ty+":")` (memory, documentation) and `user_object_type = ty` (SQL) select the same
stored tuples; true for every valid user string (exactly one ':'), needed only for the type named by the filter -/
def PrefOK (s : List TupleRec) (ty : String) : Prop :=
  ∀ t ∈ s, (hasPrefix t.user (ty ++ ":") = true ↔ (toUserParts t.user).typ = ty)

def ObjFilterWF (fo : String) : Prop := fo = "" ∨ (splitObject fo).1 ≠ ""

structure UserFilterWF (fu : String) : Prop where
  rt : fromUserParts (toUserParts fu) = fu
  typ : (toUserParts fu).typ ≠ ""
  typeOnly : (toUserParts fu).id = "" → (toUserParts fu).rel = ""

theorem splitObject_empty : splitObject "" = ("", "") := by decide

theorem sqlObj_eq_spec (fo : String) (t : TupleRec) (h : ObjFilterWF fo) :
    ((decide ((splitObject fo).1 = "") || decide (t.objType = (splitObject fo).1))
      && (decide ((splitObject fo).2 = "") || decide (t.objId = (splitObject fo).2))) = specObjectOk fo t := by
  unfold specObjectOk
  by_cases hfo : fo = ""
  · subst hfo; simp [splitObject_empty]
  · have hty : (splitObject fo).1 ≠ "" := by
      rcases h with h | h
      · exact absurd h hfo
      · exact h
    simp [hfo, hty, eq_comm (a := t.objType), eq_comm (a := t.objId)]

theorem userParts_eq {p q : UserParts} (h1 : p.typ = q.typ) (h2 : p.id = q.id) (h3 : p.rel = q.rel) : p = q := by
  cases p; cases q; simp_all

/-- the user part of the WHERE clause of `sqlite.read` against the documented user filter -/

theorem sqlUser_eq_spec (sh : SqlShape) (fu : String) (s : List TupleRec) (t : TupleRec) (ht : t ∈ s)
    (hs : ColsOK s) (hpf : PrefOK s (toUserParts fu).typ) (hf : fu = "" ∨ UserFilterWF fu)
    (hE : sh.userNoRelPinsEmpty = true ∨ (toUserParts fu).rel ≠ "" ∨ (toUserParts fu).id = "" ∨
        ∀ t ∈ s, (toUserParts t.user).typ = (toUserParts fu).typ → (toUserParts t.user).id = (toUserParts fu).id →
          (toUserParts t.user).rel = "") :
    (decide (fu = "") ||
       ((decide ((toUserParts fu).typ = "") || decide ((rowOf t).uTyp = (toUserParts fu).typ))
        && (decide ((toUserParts fu).id = "") || decide ((rowOf t).uId = (toUserParts fu).id))
        && (if (toUserParts fu).rel = "" then
              (!sh.userNoRelPinsEmpty || decide ((toUserParts fu).id = "") || decide ((rowOf t).uRel = ""))
            else decide ((rowOf t).uRel = (toUserParts fu).rel)))) = specUserOk fu t := by
  unfold specUserOk
  by_cases hfu : fu = ""
  · simp [hfu]
  · have wf : UserFilterWF fu := by
      rcases hf with hf | hf
      · exact absurd hf hfu
      · exact hf
    have hty := wf.typ
    by_cases hid : (toUserParts fu).id = ""
    · have hrel := wf.typeOnly hid
      have hp := hpf t ht
      simp only [hfu, hty, hid, hrel, rowOf, decide_false, decide_true, Bool.false_or, Bool.true_or, Bool.or_true,
        Bool.and_true, if_true]
      by_cases hx : (toUserParts t.user).typ = (toUserParts fu).typ
      · simp [hx, hp.mpr hx]
      · have : hasPrefix t.user ((toUserParts fu).typ ++ ":") = false := by
          cases hh : hasPrefix t.user ((toUserParts fu).typ ++ ":")
          · rfl
          · exact absurd (hp.mp hh) hx
        simp [hx, this]
    · -- exact user
      have key : ∀ (hrelOk : (toUserParts t.user).rel = (toUserParts fu).rel),
          (toUserParts t.user).typ = (toUserParts fu).typ → (toUserParts t.user).id = (toUserParts fu).id → t.user = fu := by
        intro h3 h1 h2
        rw [← hs.roundtrip t ht, ← wf.rt, userParts_eq h1 h2 h3]
      simp only [hfu, hty, hid, rowOf, decide_false, Bool.false_or, if_false]
      by_cases heq : t.user = fu
      · subst heq
        by_cases hrel : (toUserParts t.user).rel = "" <;> simp [hrel]
      · simp only [heq, decide_false]
        by_cases h1 : (toUserParts t.user).typ = (toUserParts fu).typ
        · by_cases h2 : (toUserParts t.user).id = (toUserParts fu).id
          · by_cases hrel : (toUserParts fu).rel = ""
            · have hne : (toUserParts t.user).rel ≠ "" := fun h3 => heq (key (by rw [h3, hrel]) h1 h2)
              rcases hE with hE | hE | hE | hE
              · simp [h1, h2, hrel, hE, hne]
              · exact absurd hrel hE
              · exact absurd hE hid
              · exact absurd (hE t ht h1 h2) hne
            · have hne : (toUserParts t.user).rel ≠ (toUserParts fu).rel := fun h3 => heq (key h3 h1 h2)
              simp [h1, h2, hrel, hne]
          · simp [h1, h2]
        · simp [h1]

theorem sqlCondOk_rowOf (cs : List String) (t : TupleRec) : sqlCondOk cs (rowOf t) = condOk cs t := rfl

theorem filter_congr_mem {α} (s : List α) (p q : α → Bool) (h : ∀ t ∈ s, p t = q t) : s.filter p = s.filter q := by
  induction s with
  | nil => rfl
  | cons x xs ih =>
    simp only [List.filter_cons, h x (by simp), ih (fun t ht => h t (by simp [ht]))]

theorem sql_read_eq_spec (sh : SqlShape) (s : List TupleRec) (f : ReadFilter)
    (hs : ColsOK s) (hpf : PrefOK s (toUserParts f.user).typ) (ho : ObjFilterWF f.object)
    (hu : f.user = "" ∨ UserFilterWF f.user)
    (hE : sh.userNoRelPinsEmpty = true ∨ (toUserParts f.user).rel ≠ "" ∨ (toUserParts f.user).id = "" ∨
        ∀ t ∈ s, (toUserParts t.user).typ = (toUserParts f.user).typ → (toUserParts t.user).id = (toUserParts f.user).id →
          (toUserParts t.user).rel = "") :
    sqlRead sh s f = specRead s f := by
  unfold sqlRead specRead
  apply filter_congr_mem
  intro t ht
  unfold sqlReadWhere specReadPred
  rw [← sqlObj_eq_spec f.object t ho, ← sqlUser_eq_spec sh f.user s t ht hs hpf hu hE, sqlCondOk_rowOf]
  rfl

/-- one `orConditions` entry against the documented restriction, for a stored userset tuple -/

theorem sqlRestrOk_eq_spec (s : List TupleRec) (hs : ColsOK s) (t : TupleRec) (ht : t ∈ s)
    (hu : isUsersetUser t.user = true) (x : Restriction) :
    sqlRestrOk x (rowOf t) = specRestrOk x t := by
  unfold sqlRestrOk specRestrOk
  have hty := hs.typ t ht
  cases x.kind with
  | relation rel =>
    simp only [rowOf, hty]
    simp only [userRel, toUserParts, eq_comm (a := getType t.user), eq_comm (a := (splitObjectRelation t.user).2)]
    rfl
  | wildcard =>
    have hw := hs.wild t ht hu
    simp only [rowOf, hty]
    by_cases h : userRel t.user = ""
    · simp [h, hw.mpr h, eq_comm (a := getType t.user)]
    · have : (toUserParts t.user).id ≠ "*" := fun e => h (hw.mp e)
      simp [h, this]
  | plain => rfl

theorem sql_rut_eq_spec (s : List TupleRec) (f : UsersetFilter) (hs : ColsOK s) (ho : ObjFilterWF f.object) :
    sqlReadUsersetTuples s f = specReadUsersetTuples s f := by
  unfold sqlReadUsersetTuples specReadUsersetTuples
  apply filter_congr_mem
  intro t ht
  unfold sqlReadUsersetWhere specUsersetPred
  rw [← sqlObj_eq_spec f.object t ho, sqlCondOk_rowOf]
  by_cases hu : isUsersetUser t.user = true
  · have hany : f.restrictions.any (fun x => sqlRestrOk x (rowOf t)) = f.restrictions.any (fun x => specRestrOk x t) := by
      congr 1; funext x; exact sqlRestrOk_eq_spec s hs t ht hu x
    rw [hany]
    simp [rowOf, hu]
  · simp [rowOf, hu]

/-- a `UserFilter` entry whose string form splits back into the columns the SQL backend compares -/

structure TargetWF (u : ObjRel) : Prop where
  parts : toUserParts (targetUser u) = ⟨(splitObject u.object).1, (splitObject u.object).2, u.relation⟩
  rt : fromUserParts (toUserParts (targetUser u)) = targetUser u

theorem sqlTargetOk_eq_spec (sh : SqlShape) (s : List TupleRec) (hs : ColsOK s) (t : TupleRec) (ht : t ∈ s)
    (u : ObjRel) (wf : TargetWF u)
    (hE : sh.rswuUserNoRelPinsEmpty = true ∨ u.relation ≠ "" ∨
        ∀ t ∈ s, (toUserParts t.user).typ = (splitObject u.object).1 → (toUserParts t.user).id = (splitObject u.object).2 →
          (toUserParts t.user).rel = "") :
    sqlTargetOk sh u (rowOf t) = decide (targetUser u = t.user) := by
  unfold sqlTargetOk
  have key : (toUserParts t.user).typ = (splitObject u.object).1 → (toUserParts t.user).id = (splitObject u.object).2 →
      (toUserParts t.user).rel = u.relation → targetUser u = t.user := by
    intro h1 h2 h3
    rw [← hs.roundtrip t ht, ← wf.rt, wf.parts]
    congr 1
    exact (userParts_eq (p := toUserParts t.user) (q := ⟨_, _, _⟩) h1 h2 h3).symm
  by_cases heq : targetUser u = t.user
  · have hp : toUserParts t.user = ⟨(splitObject u.object).1, (splitObject u.object).2, u.relation⟩ := by
      rw [← heq]; exact wf.parts
    simp only [rowOf, hp, heq]
    by_cases hr : u.relation = "" <;> simp [hr]
  · simp only [heq, decide_false, rowOf]
    by_cases h1 : (toUserParts t.user).typ = (splitObject u.object).1
    · by_cases h2 : (toUserParts t.user).id = (splitObject u.object).2
      · by_cases hr : u.relation = ""
        · have hne : (toUserParts t.user).rel ≠ "" := fun h3 => heq (key h1 h2 (by rw [h3, hr]))
          rcases hE with hE | hE | hE
          · simp [h1, h2, hr, hE, hne]
          · exact absurd hr hE
          · exact absurd (hE t ht h1 h2) hne
        · have hne : (toUserParts t.user).rel ≠ u.relation := fun h3 => heq (key h1 h2 h3)
          simp [h1, h2, hr, hne]
      · simp [h1, h2]
    · simp [h1]

theorem any_congr_mem {α} (l : List α) (p q : α → Bool) (h : ∀ x ∈ l, p x = q x) : l.any p = l.any q := by
  induction l with
  | nil => rfl
  | cons x xs ih => simp only [List.any_cons, h x (by simp), ih (fun y hy => h y (by simp [hy]))]

theorem sqlIdsOk_eq_spec (b : Bool) (ids : Option (List String)) (t : TupleRec)
    (he : b = false ∨ ids ≠ some []) :
    sqlIdsOk b ids (rowOf t) = specIdsOk ids t := by
  unfold sqlIdsOk specIdsOk
  cases ids with
  | none => rfl
  | some l =>
    rcases he with he | he
    · simp [he, rowOf]
    · have : l ≠ [] := fun e => he (by rw [e])
      simp [this, rowOf]

theorem sql_rswu_matches_eq_spec (sh : SqlShape) (s : List TupleRec) (f : RswuFilter) (hs : ColsOK s)
    (hu : ∀ u ∈ f.userFilter, TargetWF u)
    (hE : sh.rswuUserNoRelPinsEmpty = true ∨ ∀ u ∈ f.userFilter, u.relation ≠ "" ∨
        ∀ t ∈ s, (toUserParts t.user).typ = (splitObject u.object).1 → (toUserParts t.user).id = (splitObject u.object).2 →
          (toUserParts t.user).rel = "")
    (he : sh.rswuEmptyIdsMeansAll = false ∨ f.objectIDs ≠ some []) :
    sqlRswuMatches sh s f = specReadStartingWithUser s f := by
  unfold sqlRswuMatches specReadStartingWithUser
  apply filter_congr_mem
  intro t ht
  unfold sqlRswuWhere specRswuPred
  have hany : f.userFilter.any (fun u => sqlTargetOk sh u (rowOf t)) = f.userFilter.any (fun u => decide (targetUser u = t.user)) := by
    apply any_congr_mem
    intro u hu'
    apply sqlTargetOk_eq_spec sh s hs t ht u (hu u hu')
    rcases hE with hE | hE
    · exact Or.inl hE
    · exact Or.inr (hE u hu')
  rw [hany, sqlIdsOk_eq_spec _ _ _ he, sqlCondOk_rowOf]
  rfl

end OpenFGAVerif.Proofs.StoreRead
