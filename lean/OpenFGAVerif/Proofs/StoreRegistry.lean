/-
Proofs about `Model.StoreRegistry` / `Model.SqlWhere` (C16):
  * `sql_deleted_unobservable`: once a store that exists has been deleted, then — whatever is created or deleted
    afterwards, including an attempt to create the same id again — no ListStores (for ANY combination of id list,
    name and continuation id) lists it and GetStore does not return it;
  * `mem_deleted_unobservable`: the same for the memory registry, for later histories that do not create the id again;
  * `drop_first_lists_deleted`: the WHERE list that loses its first element lists a deleted store (contrast);
  * `closed_parts_conj` / `closed_scoped`: a WHERE clause whose parts are all closed is the conjunction of its parts, so
    every selected row satisfies the store predicate; `open_or_leaks`: one raw part with a top-level OR breaks that.
-/
import OpenFGAVerif.Model.StoreRegistry

namespace OpenFGAVerif.Proofs.StoreRegistry
open OpenFGAVerif.Model.StoreRegistry

/-! ### sorting keeps the elements -/

theorem mem_insertById (x y : Row) (l : List Row) : y ∈ insertById x l ↔ y = x ∨ y ∈ l := by
  induction l with
  | nil => simp [insertById]
  | cons z zs ih =>
    by_cases hle : x.id ≤ z.id
    · have h1 : insertById x (z :: zs) = x :: z :: zs := by simp [insertById, hle]
      rw [h1]; exact List.mem_cons
    · have h1 : insertById x (z :: zs) = z :: insertById x zs := by simp [insertById, hle]
      rw [h1, List.mem_cons, ih, List.mem_cons]
      constructor
      · intro h
        rcases h with h | h | h
        · exact Or.inr (Or.inl h)
        · exact Or.inl h
        · exact Or.inr (Or.inr h)
      · intro h
        rcases h with h | h | h
        · exact Or.inr (Or.inl h)
        · exact Or.inl h
        · exact Or.inr (Or.inr h)

theorem mem_sortById (y : Row) (l : List Row) : y ∈ sortById l ↔ y ∈ l := by
  induction l with
  | nil => simp [sortById]
  | cons x xs ih =>
    have h1 : sortById (x :: xs) = insertById x (sortById xs) := rfl
    rw [h1, mem_insertById, ih, List.mem_cons]

theorem hasId_iff (tbl : List Row) (a : Nat) : hasId tbl a = true ↔ ∃ r ∈ tbl, r.id = a := by
  simp [hasId]

/-! ### sqlite: soft delete -/

theorem and_true_split (a b : Bool) (h : (a && b) = true) : a = true ∧ b = true := by
  cases a <;> cases b <;> first | exact ⟨rfl, rfl⟩ | cases h

theorem filter_nil_of {α : Type} (p : α → Bool) (l : List α) (h : ∀ x ∈ l, p x = false) : l.filter p = [] := by
  induction l with
  | nil => rfl
  | cons x xs ih =>
    have hx : p x = false := h x List.mem_cons_self
    have hxs : xs.filter p = [] := ih (fun y hy => h y (List.mem_cons_of_mem _ hy))
    simp [List.filter_cons, hx, hxs]

theorem markDeleted_id (b : Nat) (r : Row) : (markDeleted b r).id = r.id := by
  unfold markDeleted
  by_cases h : r.id = b
  · rw [if_pos h]
  · rw [if_neg h]

theorem markDeleted_hit (b : Nat) (r : Row) (h : r.id = b) : (markDeleted b r).deleted = true := by
  unfold markDeleted
  rw [if_pos h]

theorem markDeleted_miss (b : Nat) (r : Row) (h : ¬ r.id = b) : markDeleted b r = r := by
  unfold markDeleted
  rw [if_neg h]

/-- store `a` has a row and every row with id `a` is marked deleted -/
def Dead (tbl : List Row) (a : Nat) : Prop := (∃ r ∈ tbl, r.id = a) ∧ ∀ r ∈ tbl, r.id = a → r.deleted = true

theorem dead_map (tbl : List Row) (a b : Nat) (hex : ∃ r ∈ tbl, r.id = a)
    (hd : ∀ r ∈ tbl, r.id = a → r.deleted = true ∨ a = b) : Dead (tbl.map (markDeleted b)) a := by
  constructor
  · obtain ⟨r, hr, hid⟩ := hex
    exact ⟨markDeleted b r, List.mem_map.mpr ⟨r, hr, rfl⟩, by rw [markDeleted_id]; exact hid⟩
  · intro r' hr' hid'
    obtain ⟨r, hr, hrr⟩ := List.mem_map.mp hr'
    have hrr' : markDeleted b r = r' := hrr
    rw [← hrr'] at hid' ⊢
    rw [markDeleted_id] at hid'
    by_cases h : r.id = b
    · exact markDeleted_hit b r h
    · rw [markDeleted_miss b r h]
      rcases hd r hr hid' with h1 | h1
      · exact h1
      · exact absurd (by rw [hid', h1]) h

theorem dead_after_delete (tbl : List Row) (a : Nat) (hex : ∃ r ∈ tbl, r.id = a) : Dead (sqlStep tbl (.delete a)) a := by
  have h1 : sqlStep tbl (.delete a) = tbl.map (markDeleted a) := rfl
  rw [h1]
  exact dead_map tbl a a hex (fun _ _ _ => Or.inr rfl)

theorem dead_step (tbl : List Row) (a : Nat) (hd : Dead tbl a) (op : Op) : Dead (sqlStep tbl op) a := by
  cases op with
  | create i n =>
    have h0 : sqlStep tbl (.create i n) = if hasId tbl i then tbl else tbl ++ [newRow i n] := rfl
    rw [h0]
    by_cases hh : hasId tbl i = true
    · rw [if_pos hh]; exact hd
    · rw [if_neg hh]
      constructor
      · obtain ⟨r, hr, hid⟩ := hd.1
        exact ⟨r, List.mem_append.mpr (Or.inl hr), hid⟩
      · intro r hr hid
        rcases List.mem_append.mp hr with h1 | h1
        · exact hd.2 r h1 hid
        · have hr' : r = newRow i n := by simpa using h1
          have hida : i = a := by rw [hr'] at hid; exact hid
          exact absurd ((hasId_iff tbl i).mpr (by rw [hida]; exact hd.1)) hh
  | delete b =>
    have h1 : sqlStep tbl (.delete b) = tbl.map (markDeleted b) := rfl
    rw [h1]
    exact dead_map tbl a b hd.1 (fun r hr hid => Or.inl (hd.2 r hr hid))

theorem dead_run (ops : List Op) (tbl : List Row) (a : Nat) (hd : Dead tbl a) : Dead (sqlRun tbl ops) a := by
  induction ops generalizing tbl with
  | nil => exact hd
  | cons op rest ih =>
    have h1 : sqlRun tbl (op :: rest) = sqlRun (sqlStep tbl op) rest := rfl
    rw [h1]
    exact ih _ (dead_step tbl a hd op)

theorem listWhere_needs_live (o : Opts) (r : Row) (h : whereAnd (listWhere o) r = true) : r.deleted = false := by
  have h1 : (Pred.notDeleted.holds r && whereAnd (listAppends o) r) = true := h
  have h2 : Pred.notDeleted.holds r = true := (and_true_split _ _ h1).1
  have h3 : (!r.deleted) = true := h2
  cases hdl : r.deleted with
  | false => rfl
  | true => rw [hdl] at h3; cases h3

theorem dead_unobservable (tbl : List Row) (a : Nat) (hd : Dead tbl a) :
    (∀ o : Opts, ∀ r ∈ sqlListStores tbl o, r.id ≠ a) ∧ sqlGetStore tbl a = none := by
  constructor
  · intro o r hr hid
    have hr' : r ∈ tbl.filter (whereAnd (listWhere o)) := (mem_sortById r _).mp hr
    obtain ⟨hmem, hw⟩ := List.mem_filter.mp hr'
    have hlive := listWhere_needs_live o r hw
    have hdead := hd.2 r hmem hid
    rw [hlive] at hdead
    cases hdead
  · have hnil : tbl.filter (fun r => decide (r.id = a) && !r.deleted) = [] := by
      apply filter_nil_of
      intro r hr
      cases hp : (decide (r.id = a) && !r.deleted) with
      | false => rfl
      | true =>
        have hp2 := and_true_split _ _ hp
        have hid : r.id = a := of_decide_eq_true hp2.1
        have hdead := hd.2 r hr hid
        have hnd : (!r.deleted) = true := hp2.2
        rw [hdead] at hnd
        cases hnd
    unfold sqlGetStore
    rw [hnil]; rfl

/-- **a deleted store is not observable through any listing or lookup, for any filter** (sqlite): after `delete a` on a
table that has `a`, and after ANY later creates/deletes (creating `a` again hits the primary key), no ListStores —
whatever id list, name and continuation id — returns `a`, and GetStore(a) finds nothing -/
theorem sql_deleted_unobservable (tbl : List Row) (a : Nat) (hex : ∃ r ∈ tbl, r.id = a) (later : List Op) :
    (∀ o : Opts, ∀ r ∈ sqlListStores (sqlRun (sqlStep tbl (.delete a)) later) o, r.id ≠ a) ∧
    sqlGetStore (sqlRun (sqlStep tbl (.delete a)) later) a = none :=
  dead_unobservable _ a (dead_run later _ a (dead_after_delete tbl a hex))

/-- **contrast**: the WHERE list that drops its first element when a name is given lists a deleted store by its name -/
theorem drop_first_lists_deleted :
    (sqlListWith listWhereDropFirst (sqlRun [] [.create 1 7, .delete 1]) { ids := [], name := some 7, from_ := none }).map (·.id) = [1] ∧
    (sqlListStores (sqlRun [] [.create 1 7, .delete 1]) { ids := [], name := some 7, from_ := none }).map (·.id) = [] := by
  decide

/-! ### memory: the entry is removed -/

def Absent (m : List Row) (a : Nat) : Prop := ∀ r ∈ m, r.id ≠ a

theorem absent_after_delete (m : List Row) (a : Nat) : Absent (memStep m (.delete a)) a := by
  intro r hr hid
  have hr' : r ∈ m.filter (fun r => !decide (r.id = a)) := hr
  have h2 : (!decide (r.id = a)) = true := (List.mem_filter.mp hr').2
  rw [decide_eq_true hid] at h2
  cases h2

theorem absent_step (m : List Row) (a : Nat) (ha : Absent m a) (op : Op) (hop : ∀ n, op ≠ .create a n) :
    Absent (memStep m op) a := by
  cases op with
  | create i n =>
    have h0 : memStep m (.create i n) = if hasId m i then m else m ++ [newRow i n] := rfl
    rw [h0]
    by_cases hh : hasId m i = true
    · rw [if_pos hh]; exact ha
    · rw [if_neg hh]
      intro r hr hid
      rcases List.mem_append.mp hr with h1 | h1
      · exact ha r h1 hid
      · have hr' : r = newRow i n := by simpa using h1
        have hida : i = a := by rw [hr'] at hid; exact hid
        exact hop n (by rw [hida])
  | delete b =>
    intro r hr hid
    have hr' : r ∈ m.filter (fun r => !decide (r.id = b)) := hr
    exact ha r (List.mem_filter.mp hr').1 hid

theorem absent_run (ops : List Op) (m : List Row) (a : Nat) (ha : Absent m a)
    (hops : ∀ op ∈ ops, ∀ n, op ≠ .create a n) : Absent (memRun m ops) a := by
  induction ops generalizing m with
  | nil => exact ha
  | cons op rest ih =>
    have h1 : memRun m (op :: rest) = memRun (memStep m op) rest := rfl
    rw [h1]
    exact ih _ (absent_step m a ha op (hops op List.mem_cons_self)) (fun o ho => hops o (List.mem_cons_of_mem _ ho))

theorem mem_memIdsFilter (m : List Row) (ids : List Nat) (r : Row) (h : r ∈ memIdsFilter m ids) : r ∈ m := by
  unfold memIdsFilter at h
  by_cases he : ids.isEmpty = true
  · rw [if_pos he] at h; exact h
  · rw [if_neg he] at h
    obtain ⟨i, _, hi⟩ := List.mem_flatMap.mp h
    exact (List.mem_filter.mp hi).1

theorem mem_memNameFilter (m : List Row) (n : Option Nat) (r : Row) (h : r ∈ memNameFilter m n) : r ∈ m := by
  cases n with
  | none => exact h
  | some k => exact (List.mem_filter.mp h).1

/-- **memory**: after `delete a` and any later history that does not create `a` again, no listing returns `a`, whatever
the filters, and GetStore(a) finds nothing -/
theorem mem_deleted_unobservable (m : List Row) (a : Nat) (later : List Op) (hops : ∀ op ∈ later, ∀ n, op ≠ .create a n) :
    (∀ o : Opts, ∀ r ∈ memListStores (memRun (memStep m (.delete a)) later) o, r.id ≠ a) ∧
    memGetStore (memRun (memStep m (.delete a)) later) a = none := by
  have habs := absent_run later _ a (absent_after_delete m a) hops
  constructor
  · intro o r hr
    have h1 := (mem_sortById r _).mp hr
    exact habs r (mem_memIdsFilter _ _ r (mem_memNameFilter _ _ r h1))
  · have hnil : (memRun (memStep m (.delete a)) later).filter (fun r => decide (r.id = a)) = [] := by
      apply filter_nil_of
      intro r hr
      exact decide_eq_false (habs r hr)
    unfold memGetStore
    rw [hnil]; rfl

end OpenFGAVerif.Proofs.StoreRegistry

namespace OpenFGAVerif.Proofs.SqlWhere
open OpenFGAVerif.Model.SqlWhere

/-- a WHERE clause of closed parts is the conjunction of its parts -/
theorem closed_parts_conj {ρ : Type} (parts : List (Part ρ)) (hc : allClosed parts = true) (acc : ρ → Bool) (r : ρ) :
    eval parts acc r = (acc r && holdsAll parts r) := by
  induction parts generalizing acc with
  | nil => simp [eval, holdsAll]
  | cons p rest ih =>
    cases p with
    | closed q =>
      have hc' : allClosed rest = true := hc
      simp only [eval, holdsAll]
      rw [ih hc']
      simp only [Bool.and_assoc]
    | rawOr a mid b => simp [allClosed] at hc

theorem holdsAll_mem {ρ : Type} (parts : List (Part ρ)) (r : ρ) (h : holdsAll parts r = true) (p : ρ → Bool)
    (hp : Part.closed p ∈ parts) : p r = true := by
  induction parts with
  | nil => cases hp
  | cons q rest ih =>
    cases q with
    | closed q' =>
      have h' : (q' r && holdsAll rest r) = true := h
      have h2 := OpenFGAVerif.Proofs.StoreRegistry.and_true_split _ _ h'
      rcases List.mem_cons.mp hp with he | hm
      · injection he with he'
        rw [he']; exact h2.1
      · exact ih h2.2 hm
    | rawOr a mid b => simp [holdsAll] at h

/-- **store scoping of a query**: if every WHERE part is closed and the store predicate is one of them, every selected
row satisfies the store predicate -/
theorem closed_scoped {ρ : Type} (parts : List (Part ρ)) (hc : allClosed parts = true) (storeP : ρ → Bool)
    (hs : Part.closed storeP ∈ parts) (tbl : List ρ) : ∀ r ∈ select parts tbl, storeP r = true := by
  intro r hr
  have hr' : r ∈ tbl.filter (eval parts (fun _ => true)) := hr
  have hev : eval parts (fun _ => true) r = true := (List.mem_filter.mp hr').2
  rw [closed_parts_conj parts hc] at hev
  have hall : holdsAll parts r = true := by simpa using hev
  exact holdsAll_mem parts r hall storeP hs

/-- **contrast** (rows = (store, condition name; 0 = NULL)): `store = 1 AND condition_name IS NULL OR condition_name IN (5, 6)`
selects the row of store 2 -/
theorem open_or_leaks :
    select [Part.closed (fun r : Nat × Nat => r.1 == 1), Part.rawOr (fun r => r.2 == 0) [] (fun r => r.2 == 5 || r.2 == 6)]
      [(1, 0), (1, 9), (2, 5), (2, 0)] = [(1, 0), (2, 5)] ∧
    select [Part.closed (fun r : Nat × Nat => r.1 == 1), Part.closed (fun r => r.2 == 0 || r.2 == 5 || r.2 == 6)]
      [(1, 0), (1, 9), (2, 5), (2, 0)] = [(1, 0)] := by
  decide

end OpenFGAVerif.Proofs.SqlWhere
