/-
Lemmas about `Model.StoreWrite` shared by Props/C12 and Props/C15: the loops of memory.Write in closed form,
the refinement memWrite ⊑ specWrite, the SQL transaction model.
-/
import OpenFGAVerif.Model.StoreWrite

namespace OpenFGAVerif.Proofs.StoreWrite
open OpenFGAVerif.Model.StoreTypes OpenFGAVerif.Model.StoreWrite

/-! ### `match` on well-formed keys is key equality -/

theorem matchRec_wf {t : TupleRec} {k : TupleKey} (h : WfKey k) : matchRec t k = true ↔ t.key = k := by
  obtain ⟨h1, h2, h3, h4⟩ := h
  cases k with
  | mk kt ki kr ku =>
  cases t with
  | mk tt ti tr tu tc tx =>
  simp only [matchRec, TupleRec.key] at *
  simp [h1, h2, h3, h4]
  constructor
  · rintro ⟨⟨⟨a, b⟩, c⟩, d⟩; simp [a, b, c, d]
  · rintro ⟨a, b, c, d⟩; simp [a, b, c, d]


theorem matchRec_wf_beq {t : TupleRec} {k : TupleKey} (h : WfKey k) : matchRec t k = (t.key == k) := by
  rw [Bool.eq_iff_iff, matchRec_wf h, beq_iff_eq]

theorem find_wf {recs : List TupleRec} {k : TupleKey} (h : WfKey k) :
    find recs k = recs.find? (fun t => t.key == k) := by
  unfold find
  congr 1
  funext t
  exact matchRec_wf_beq h

/-! ### `sanitizeTuplesWriteDelete` in closed form -/

def errOf {α} : Except WriteErr α → Option WriteErr
  | .error e => some e
  | .ok _ => none

theorem sanitizeDeletes_err (recs : List TupleRec) (o : WriteOpts) :
    ∀ (ks : List TupleKey) (i : Nat) (acc : List Nat),
      errOf (sanitizeDeletes recs o i ks acc) =
        if !o.ignoreMissing && ks.any (fun k => (find recs k).isNone) then some .invalidDelete else none := by
  intro ks
  induction ks with
  | nil => intro i acc; simp [sanitizeDeletes, errOf]
  | cons k ks ih =>
    intro i acc
    simp only [sanitizeDeletes]
    by_cases hk : (find recs k).isNone = true
    · by_cases ho : o.ignoreMissing = true
      · simp [hk, ho, ih]
      · simp [hk, ho, errOf]
    · simp [hk, ih]

/-- every index collected in `duplicateDeletes` points at a delete key that matches no stored record -/
theorem sanitizeDeletes_mem (recs : List TupleRec) (o : WriteOpts) :
    ∀ (ks : List TupleKey) (i : Nat) (acc dd : List Nat), sanitizeDeletes recs o i ks acc = .ok dd →
      ∀ j ∈ dd, j ∈ acc ∨ (i ≤ j ∧ ∃ k, ks[j - i]? = some k ∧ (find recs k).isNone = true) := by
  intro ks
  induction ks with
  | nil =>
    intro i acc dd h j hj
    simp [sanitizeDeletes] at h
    subst h; exact Or.inl hj
  | cons k ks ih =>
    intro i acc dd h j hj
    simp only [sanitizeDeletes] at h
    by_cases hk : (find recs k).isNone = true
    · by_cases ho : o.ignoreMissing = true
      · simp only [hk, ho, if_true] at h
        rcases ih (i + 1) (acc ++ [i]) dd h j hj with h1 | ⟨h1, k', h2, h3⟩
        · rcases List.mem_append.mp h1 with h1 | h1
          · exact Or.inl h1
          · simp at h1; subst h1
            exact Or.inr ⟨Nat.le_refl _, k, by simp, hk⟩
        · refine Or.inr ⟨by omega, k', ?_, h3⟩
          have : j - i = (j - (i + 1)) + 1 := by omega
          rw [this]; simpa using h2
      · simp [hk, ho] at h
    · simp only [hk] at h
      rcases ih (i + 1) acc dd h j hj with h1 | ⟨h1, k', h2, h3⟩
      · exact Or.inl h1
      · refine Or.inr ⟨by omega, k', ?_, h3⟩
        have : j - i = (j - (i + 1)) + 1 := by omega
        rw [this]; simpa using h2

theorem sanitizeWrites_err (recs : List TupleRec) (o : WriteOpts) :
    ∀ (ws : List TupleRec) (i : Nat) (acc : List Nat),
      errOf (sanitizeWrites recs o i ws acc) =
        if !o.ignoreDup && ws.any (fun w => (find recs w.key).isSome) then some .invalidWrite
        else if ws.any (fun w => (find recs w.key).any (fun r => !condEq r w)) then some .condConflict
        else none := by
  intro ws
  induction ws with
  | nil => intro i acc; simp [sanitizeWrites, errOf]
  | cons w ws ih =>
    intro i acc
    simp only [sanitizeWrites]
    cases hf : find recs w.key with
    | none => simp [ih, hf]
    | some r =>
      by_cases ho : o.ignoreDup = true
      · by_cases hc : condEq r w = true
        · simp [ho, hc, ih, hf]
        · simp [ho, hc, errOf, hf]
      · simp [ho, errOf, hf]


/-! ### the `Delete:` loop -/

/-- the `slices.Contains(duplicateDeletes, i)` branch can never be taken for a stored record: the inner loop is
    just "does any delete key match" -/
theorem deleteInner_eq_any (tr : TupleRec) (dd : List Nat) :
    ∀ (ks : List TupleKey) (i : Nat),
      (∀ j k, ks[j]? = some k → matchRec tr k = true → (i + j) ∉ dd) →
      deleteInner tr dd i ks = ks.any (fun k => matchRec tr k) := by
  intro ks
  induction ks with
  | nil => intro i _; simp [deleteInner]
  | cons k ks ih =>
    intro i H
    simp only [deleteInner, List.any_cons]
    by_cases hm : matchRec tr k = true
    · have : i ∉ dd := by simpa using H 0 k (by simp) hm
      simp [hm, this]
    · have hm' : matchRec tr k = false := by simpa using hm
      rw [ih (i + 1) (fun j k' hj hk => by
        have := H (j + 1) k' (by simpa using hj) hk
        simpa [Nat.add_assoc, Nat.add_comm 1 j] using this)]
      simp [hm']

theorem deleteInner_sanitized {recs : List TupleRec} {o : WriteOpts} {dels : List TupleKey} {dd : List Nat}
    (h : sanitizeDeletes recs o 0 dels [] = .ok dd) {tr : TupleRec} (htr : tr ∈ recs) :
    deleteInner tr dd 0 dels = dels.any (fun k => matchRec tr k) := by
  apply deleteInner_eq_any
  intro j k hj hm hmem
  rcases sanitizeDeletes_mem recs o dels 0 [] dd h (0 + j) hmem with h1 | ⟨_, k', h2, h3⟩
  · simp at h1
  · simp at h2
    rw [hj] at h2
    injection h2 with h2
    subst h2
    simp [find, List.find?_eq_none] at h3
    have := h3 tr htr
    simp [hm] at this

theorem pushAll_cons (ch : List Change) (x : TupleRec × Op) (xs : List (TupleRec × Op)) (now : Nat) :
    pushAll ch (x :: xs) now = pushAll (pushChange ch x.1 x.2 now) xs now := rfl

theorem pushAll_append (ch : List Change) (xs ys : List (TupleRec × Op)) (now : Nat) :
    pushAll ch (xs ++ ys) now = pushAll (pushAll ch xs now) ys now := by
  simp [pushAll, List.foldl_append]

theorem deleteLoop_eq (dd : List Nat) (dels : List TupleKey) (now : Nat) (p : TupleRec → Bool) :
    ∀ (l recs : List TupleRec) (ch : List Change), (∀ tr ∈ l, deleteInner tr dd 0 dels = p tr) →
      deleteLoop dd dels now l recs ch =
        (recs ++ l.filter (fun t => !p t), pushAll ch ((l.filter p).map (fun t => (t.redact, Op.delete))) now) := by
  intro l
  induction l with
  | nil => intro recs ch _; simp [deleteLoop, pushAll]
  | cons tr rest ih =>
    intro recs ch H
    have h1 := H tr (by simp)
    have H' : ∀ t ∈ rest, deleteInner t dd 0 dels = p t := fun t ht => H t (by simp [ht])
    simp only [deleteLoop, h1]
    by_cases hp : p tr = true
    · simp [hp, ih _ _ H', pushAll_cons]
    · have hp' : p tr = false := by simpa using hp
      simp [hp', ih _ _ H']

/-! ### the `Write:` loop -/

theorem writeLoop_eq (now : Nat) :
    ∀ (ws recs : List TupleRec) (ch : List Change),
      ws.Pairwise (fun a b => matchRec a b.key = false) →
      writeLoop now ws recs ch =
        (recs ++ ws.filter (fun w => !recs.any (fun et => matchRec et w.key)),
         pushAll ch ((ws.filter (fun w => !recs.any (fun et => matchRec et w.key))).map (fun w => (normCond w, Op.write))) now) := by
  intro ws
  induction ws with
  | nil => intro recs ch _; simp [writeLoop, pushAll]
  | cons t ts ih =>
    intro recs ch hp
    rw [List.pairwise_cons] at hp
    obtain ⟨ht, hts⟩ := hp
    simp only [writeLoop]
    by_cases hm : recs.any (fun et => matchRec et t.key) = true
    · simp [hm, ih recs ch hts]
    · have hm' : recs.any (fun et => matchRec et t.key) = false := by simpa using hm
      have hf : ts.filter (fun w => !(recs ++ [t]).any (fun et => matchRec et w.key))
              = ts.filter (fun w => !recs.any (fun et => matchRec et w.key)) := by
        apply List.filter_congr
        intro w hw
        simp [List.any_append, ht w hw]
      rw [if_neg (by simpa using hm), ih (recs ++ [t]) _ hts, hf]
      simp [hm', pushAll_cons]


/-! ### memory.Write refines the declarative specification -/

/-- what the property takes for granted about one request (API validation: well-formed keys; the command layer's
    `validateNoDuplicatesAndCorrectSize`: no key twice in deletes ++ writes) -/
structure ReqOK (dels : List TupleKey) (writes : List TupleRec) : Prop where
  wfD : ∀ k ∈ dels, WfKey k
  wfW : ∀ w ∈ writes, WfKey w.key
  nodup : (dels ++ writes.map (·.key)).Nodup

def toResult (s : StoreState) : Except WriteErr StoreState → StoreState × Option WriteErr
  | .error e => (s, some e)
  | .ok s' => (s', none)

theorem any_congr_mem {α} {l : List α} {f g : α → Bool} (h : ∀ x ∈ l, f x = g x) : l.any f = l.any g := by
  induction l with
  | nil => rfl
  | cons a l ih =>
    simp only [List.any_cons]
    rw [h a (by simp), ih (fun x hx => h x (by simp [hx]))]

theorem stored_eq_find (s : StoreState) {k : TupleKey} (h : WfKey k) : find s.tuples k = stored s k := by
  rw [find_wf h]; rfl

theorem stored_isSome_iff (s : StoreState) (k : TupleKey) : (stored s k).isSome = s.tuples.any (fun t => t.key == k) := by
  unfold stored
  rw [Bool.eq_iff_iff, List.find?_isSome, List.any_eq_true]

theorem memWrite_eq_spec (s : StoreState) (dels : List TupleKey) (writes : List TupleRec) (o : WriteOpts) (now : Nat)
    (h : ReqOK dels writes) :
    memWrite s dels writes o now = toResult s (specWrite condEq false id s dels writes o now) := by
  obtain ⟨wfD, wfW, nodup⟩ := h
  have hD := sanitizeDeletes_err s.tuples o dels 0 []
  have hW := sanitizeWrites_err s.tuples o writes 0 []
  have e1 : dels.any (fun k => (find s.tuples k).isNone) = dels.any (fun k => (stored s k).isNone) :=
    any_congr_mem (fun k hk => by rw [stored_eq_find s (wfD k hk)])
  have e2 : writes.any (fun w => (find s.tuples w.key).isSome) = writes.any (fun w => (stored s w.key).isSome) :=
    any_congr_mem (fun w hw => by rw [stored_eq_find s (wfW w hw)])
  have e3 : writes.any (fun w => (find s.tuples w.key).any (fun r => !condEq r w))
          = writes.any (fun w => (stored s w.key).any (fun r => !condEq r w)) :=
    any_congr_mem (fun w hw => by rw [stored_eq_find s (wfW w hw)])
  rw [e1] at hD
  rw [e2, e3] at hW
  unfold memWrite sanitize specWrite
  cases hd : sanitizeDeletes s.tuples o 0 dels [] with
  | error e =>
    rw [hd] at hD
    simp only [errOf] at hD
    split at hD
    · rename_i hc; injection hD with hD; subst hD; simp [hc, toResult]
    · cases hD
  | ok dd =>
    rw [hd] at hD
    simp only [errOf] at hD
    have hc1 : (!o.ignoreMissing && dels.any (fun k => (stored s k).isNone)) = false := by
      split at hD
      · cases hD
      · rename_i hc; simpa using hc
    cases hw : sanitizeWrites s.tuples o 0 writes [] with
    | error e =>
      rw [hw] at hW
      simp only [errOf] at hW
      split at hW
      · rename_i hc; injection hW with hW; subst hW; simp [hc1, hc, toResult]
      · split at hW
        · rename_i hc hc'
          injection hW with hW; subst hW
          have hc2 : (!o.ignoreDup && writes.any (fun w => (stored s w.key).isSome)) = false := by simpa using hc
          simp [hc1, hc2, hc', toResult]
        · cases hW
    | ok dw =>
      rw [hw] at hW
      simp only [errOf] at hW
      have hc2 : (!o.ignoreDup && writes.any (fun w => (stored s w.key).isSome)) = false := by
        split at hW
        · cases hW
        · rename_i hc; simpa using hc
      have hc3 : writes.any (fun w => (stored s w.key).any (fun r => !condEq r w)) = false := by
        split at hW
        · cases hW
        · split at hW
          · cases hW
          · rename_i hc; simpa using hc
      -- the delete loop
      have hdel : ∀ tr ∈ s.tuples, deleteInner tr dd 0 dels = dels.contains tr.key := by
        intro tr htr
        rw [deleteInner_sanitized hd htr, List.contains_eq_any_beq]
        exact any_congr_mem (fun k hk => matchRec_wf_beq (wfD k hk))
      -- the write loop
      have hnd := List.nodup_append.mp nodup
      have hpw : writes.Pairwise (fun a b => matchRec a b.key = false) := by
        have := List.pairwise_map.mp hnd.2.1
        refine List.Pairwise.imp_of_mem ?_ this
        intro a b _ hb hab
        rw [matchRec_wf_beq (wfW b hb)]
        simpa using hab
      have hkept : ∀ w ∈ writes,
          (s.tuples.filter (fun t => !dels.contains t.key)).any (fun et => matchRec et w.key) = (stored s w.key).isSome := by
        intro w hw'
        rw [stored_isSome_iff, List.any_filter]
        apply any_congr_mem
        intro t _
        rw [matchRec_wf_beq (wfW w hw')]
        by_cases hk : t.key = w.key
        · have : ¬ w.key ∈ dels := fun hmem => hnd.2.2 _ hmem _ (List.mem_map.mpr ⟨w, hw', rfl⟩) rfl
          simp [hk, this]
        · simp [hk]
      simp only [hc1, hc2, hc3, toResult]
      rw [deleteLoop_eq dd dels now (fun t => dels.contains t.key) s.tuples [] s.changes hdel]
      simp only [List.nil_append]
      rw [writeLoop_eq now writes _ _ hpw]
      have hfilt : writes.filter (fun w => !(s.tuples.filter (fun t => !dels.contains t.key)).any (fun et => matchRec et w.key))
                 = writes.filter (fun w => (stored s w.key).isNone) := by
        apply List.filter_congr
        intro w hw'
        rw [hkept w hw']
        cases stored s w.key <;> rfl
      rw [hfilt]
      simp [pushAll_append]


/-! ### the SQL transaction: nothing is published before COMMIT -/

/-- the source facts the atomicity argument rests on: every data statement runs on the transaction and the
    rollback is deferred (tie lemmas over `Gen.StoreWrite` in Props/C12) -/
structure CfgOK (cfg : SqlCfg) : Prop where
  del : cfg.deleteInTxn = true
  ins : cfg.insertInTxn = true
  log : cfg.changelogInTxn = true
  rb : cfg.rollbackDeferred = true

theorem cfgOK_good : CfgOK SqlCfg.good := ⟨rfl, rfl, rfl, rfl⟩

/-- With every statement on the transaction and the rollback deferred: whatever fails, wherever (statement k fails
    before or after it ran, the COMMIT fails), the committed state is untouched and no transaction stays open;
    a run without error ends with the transaction closed. -/
theorem runStmts_atomic (cfg : SqlCfg) (hc : CfgOK cfg) (now : Nat) (f : Option Fail) :
    ∀ (stmts : List Stmt) (db : Db) (i : Nat),
      (runStmts cfg now f db stmts i).1.pending = none ∧
      ((runStmts cfg now f db stmts i).2 ≠ none →
        (runStmts cfg now f db stmts i).1.committed = db.committed) := by
  obtain ⟨hdel, hins, hlog, hrb⟩ := hc
  intro stmts
  induction stmts with
  | nil => intro db i; simp [runStmts, hrb]
  | cons st rest ih =>
    intro db i
    cases st with
    | commit =>
      simp only [runStmts]
      split <;> simp [hrb]
    | deleteTuples keys =>
      simp only [runStmts, Stmt.inTxn, hdel, hrb, if_true]
      split
      · simp
      · cases execStmt now (db.pending.getD db.committed) (Stmt.deleteTuples keys) <;> simp [Except.map]
      · cases h : execStmt now (db.pending.getD db.committed) (Stmt.deleteTuples keys) with
        | error e => simp [Except.map]
        | ok tx' =>
          simp only [Except.map]
          have := ih { db with pending := some tx' } (i + 1)
          simpa using this
    | insertTuples rows =>
      simp only [runStmts, Stmt.inTxn, hins, hrb, if_true]
      split
      · simp
      · cases execStmt now (db.pending.getD db.committed) (Stmt.insertTuples rows) <;> simp [Except.map]
      · cases h : execStmt now (db.pending.getD db.committed) (Stmt.insertTuples rows) with
        | error e => simp [Except.map]
        | ok tx' =>
          simp only [Except.map]
          have := ih { db with pending := some tx' } (i + 1)
          simpa using this
    | insertChangelog rows =>
      simp only [runStmts, Stmt.inTxn, hlog, hrb, if_true]
      split
      · simp
      · cases execStmt now (db.pending.getD db.committed) (Stmt.insertChangelog rows) <;> simp [Except.map]
      · cases h : execStmt now (db.pending.getD db.committed) (Stmt.insertChangelog rows) with
        | error e => simp [Except.map]
        | ok tx' =>
          simp only [Except.map]
          have := ih { db with pending := some tx' } (i + 1)
          simpa using this

/-- `sqlite.write` is all-or-nothing for every failure point: if the call returns an error — its own validation
    error, a statement that fails (before or after it ran), a connection that dies, a failed COMMIT — the committed
    state is exactly what it was; and no transaction is left open. -/
theorem sqlWrite_atomic (cfg : SqlCfg) (hc : CfgOK cfg) (db : Db) (dels : List TupleKey) (writes : List TupleRec)
    (o : WriteOpts) (now : Nat) (f : Option Fail) (hp : db.pending = none) :
    (sqlWrite cfg db dels writes o now f).1.pending = none ∧
    ((sqlWrite cfg db dels writes o now f).2 ≠ none →
      (sqlWrite cfg db dels writes o now f).1.committed = db.committed) := by
  have hrb := hc.rb
  generalize hr : sqlWrite cfg db dels writes o now f = r
  unfold sqlWrite at hr
  by_cases h0 : firesAt f 0 = true
  · rw [if_pos h0] at hr; subst hr; simp [hp]
  rw [if_neg h0] at hr
  simp only at hr
  by_cases hk : (dels ++ writes.map (·.key)).eraseDups.isEmpty = true
  · rw [if_pos hk] at hr; subst hr; simp [txRollback, hrb]
  rw [if_neg hk] at hr
  by_cases h1 : firesAt f 1 = true
  · rw [if_pos h1] at hr; subst hr; simp [txRollback, hrb]
  rw [if_neg h1] at hr
  cases hd : sqlPlanDeletes (db.committed.tuples.filter (fun t => (dels ++ writes.map (·.key)).eraseDups.contains t.key)) o dels [] with
  | error e => rw [hd] at hr; subst hr; simp [txRollback, hrb]
  | ok delKeys =>
    rw [hd] at hr
    cases hw : sqlPlanWrites (db.committed.tuples.filter (fun t => (dels ++ writes.map (·.key)).eraseDups.contains t.key)) o writes [] with
    | error e => rw [hw] at hr; subst hr; simp [txRollback, hrb]
    | ok rows =>
      rw [hw] at hr
      simp only at hr
      subst hr
      have := runStmts_atomic cfg hc now f (sqlStmts delKeys rows) { committed := db.committed, pending := some db.committed } 2
      simpa using this

end OpenFGAVerif.Proofs.StoreWrite
